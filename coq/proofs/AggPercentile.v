(* AggPercentile.v — the nearest-rank index of percentile,
       index = (p / 100.0 * (len - 1) as f64).round() as usize,
   is in range, monotone in p, 0 at p = 0 and len-1 at p = 100.  Floating-point reasoning through
   Flocq (IEEE754.BinarySingleNaN): the SpecFloat operations of Num.v are Flocq's, so SFdiv / SFmul
   are correctly rounded, and rounding is monotone (round_le).  Only this file (and what uses it)
   depends on the classical real-number axioms of the standard library. *)
From Coq Require Import ZArith String List Bool Lia Lra Reals Floats.SpecFloat Permutation Arith.
From Flocq Require Import Core.Core Core.Round_pred Core.Generic_fmt Core.FLT Core.Raux Core.Zaux
  Core.Defs Core.Float_prop IEEE754.BinarySingleNaN.
Require Import Blots.Num Blots.gen.Builtins Blots.Ast Blots.Value Blots.Show Blots.Outcome
  Blots.BuiltinsAgg Blots.proofs.Order Blots.proofs.Aggregates.
Import ListNotations.
Open Scope Z_scope.

#[local] Instance Hprec : FLX.Prec_gt_0 prec := eq_refl.
#[local] Instance Hmax : Prec_lt_emax prec emax := eq_refl.

Notation fexp := (SpecFloat.fexp prec emax).
Notation rnd := (round radix2 fexp ZnearestE).
Notation R_of := (SF2R radix2).
Definition valid (x : num) : bool := valid_binary prec emax x.

(* ---------- SpecFloat's operations are Flocq's (as in Flocq.IEEE754.PrimFloat, re-proved here
   so that nothing about primitive floats is imported) ---------- *)
Lemma round_nearest_even_equiv s m l :
  round_nearest_even m l = choice_mode mode_NE s m l.
Proof.
  case l; [reflexivity|intro c].
  case c; [ | reflexivity..].
  now simpl; unfold Round.cond_incr; case Z.even.
Qed.

Lemma binary_round_aux_equiv sx mx ex lx :
  SpecFloat.binary_round_aux prec emax sx mx ex lx
  = BinarySingleNaN.binary_round_aux prec emax mode_NE sx mx ex lx.
Proof.
  unfold SpecFloat.binary_round_aux, BinarySingleNaN.binary_round_aux.
  set (mrse' := shr_fexp _ _ _ _ _).
  case mrse'; intros mrs' e'; simpl.
  now rewrite (round_nearest_even_equiv sx).
Qed.

Lemma binary_round_equiv s m e :
  SpecFloat.binary_round prec emax s m e = BinarySingleNaN.binary_round prec emax mode_NE s m e.
Proof.
  unfold SpecFloat.binary_round, BinarySingleNaN.binary_round, shl_align_fexp.
  set (mez := shl_align _ _ _); case mez as [mz ez].
  apply binary_round_aux_equiv.
Qed.

(* ---------- correct rounding of the three operations percentile uses ---------- *)
Definition fin_nonneg (x : num) : Prop :=
  match x with S754_zero _ => True | S754_finite false _ _ => True | _ => False end.

Lemma Rlt_bool_true' x y : (x < y)%R -> Rlt_bool x y = true.
Proof. apply Rlt_bool_true. Qed.

(* x / y for finite non-zero x, y whose rounded quotient does not overflow *)
Lemma ndiv_correct sx mx ex sy my ey :
  let x := S754_finite sx mx ex in let y := S754_finite sy my ey in
  (Rabs (rnd (R_of x / R_of y)) < bpow radix2 emax)%R ->
  valid (ndiv x y) = true /\ R_of (ndiv x y) = rnd (R_of x / R_of y) /\
  is_finite_SF (ndiv x y) = true /\ sign_SF (ndiv x y) = xorb sx sy.
Proof.
  intros x y H.
  assert (C := Bdiv_correct_aux prec emax Hprec Hmax mode_NE sx mx ex sy my ey).
  cbv zeta in C. unfold ndiv, SFdiv, x, y.
  destruct (SFdiv_core_binary prec emax (Z.pos mx) ex (Z.pos my) ey) as [[mz ez] lz].
  rewrite binary_round_aux_equiv. destruct C as [V C]. cbn [round_mode] in C.
  unfold x, y in H. cbn [SF2R] in H. rewrite (Rlt_bool_true' _ _ H) in C. tauto.
Qed.

(* x * y for valid finite x, y whose rounded product does not overflow *)
Lemma nmul_correct sx mx ex sy my ey :
  let x := S754_finite sx mx ex in let y := S754_finite sy my ey in
  valid x = true -> valid y = true ->
  (Rabs (rnd (R_of x * R_of y)) < bpow radix2 emax)%R ->
  valid (nmul x y) = true /\ R_of (nmul x y) = rnd (R_of x * R_of y) /\
  is_finite_SF (nmul x y) = true /\ sign_SF (nmul x y) = xorb sx sy.
Proof.
  intros x y Vx Vy H.
  assert (C := Bmult_correct_aux prec emax Hprec Hmax mode_NE sx mx ex Vx sy my ey Vy).
  cbv zeta in C. unfold nmul, SFmul, x, y. rewrite binary_round_aux_equiv.
  destruct C as [V C]. cbn [round_mode] in C.
  unfold x, y in H. cbn [SF2R] in H. rewrite (Rlt_bool_true' _ _ H) in C. tauto.
Qed.

(* integers below 2^53 are representable *)
Lemma generic_format_int (z : Z) : Z.abs z <= 2^53 -> generic_format radix2 fexp (IZR z).
Proof.
  intros H. destruct (Z.eq_dec (Z.abs z) (2^53)) as [E|E].
  - (* +-2^53 = +-1 * 2^53 *)
    assert (IZR z = F2R (Float radix2 (Z.sgn z) 53)) as ->.
    { unfold F2R. cbn [Fnum Fexp]. rewrite <- (IZR_Zpower radix2) by lia.
      rewrite <- mult_IZR. f_equal. change (radix2 ^ 53) with (2^53). lia. }
    apply generic_format_FLT. apply FLT_spec with (Float radix2 (Z.sgn z) 53); cbn; try reflexivity; lia.
  - assert (IZR z = F2R (Float radix2 z 0)) as ->.
    { unfold F2R. cbn. now rewrite Rmult_1_r. }
    apply generic_format_FLT. apply FLT_spec with (Float radix2 z 0); cbn; try reflexivity; lia.
Qed.

Lemma rnd_int z : Z.abs z <= 2^53 -> rnd (IZR z) = IZR z.
Proof. intros H. apply round_generic; [apply valid_rnd_N|now apply generic_format_int]. Qed.

Lemma bpow_emax_big z : Z.abs z <= 2^53 -> (Rabs (IZR z) < bpow radix2 emax)%R.
Proof.
  intros H. rewrite <- abs_IZR. apply Rle_lt_trans with (IZR (2^53)); [now apply IZR_le|].
  change (2^53) with (radix2 ^ 53). rewrite IZR_Zpower by lia. apply bpow_lt. reflexivity.
Qed.

(* `n as f64` for 0 <= n <= 2^53 : exact *)
Lemma num_of_Z_correct n : 0 <= n <= 2^53 ->
  valid (num_of_Z n) = true /\ R_of (num_of_Z n) = IZR n /\ fin_nonneg (num_of_Z n).
Proof.
  intros H. unfold num_of_Z, SpecFloat.binary_normalize. destruct n as [|p|p]; [cbn; auto| |lia].
  rewrite binary_round_equiv.
  assert (C := binary_round_correct prec emax Hprec Hmax mode_NE false p 0). cbv zeta in C.
  destruct C as [V C]. cbn [round_mode cond_Zopp] in C.
  assert (E : F2R (Float radix2 (Z.pos p) 0) = IZR (Z.pos p)).
  { unfold F2R. cbn. now rewrite Rmult_1_r. }
  rewrite E, rnd_int in C by lia. rewrite (Rlt_bool_true' _ _ (bpow_emax_big (Z.pos p) ltac:(lia))) in C.
  destruct C as (C1 & C2 & C3). split; [exact V|split; [exact C1|]].
  destruct (BinarySingleNaN.binary_round prec emax mode_NE false p 0) as [s|s| |s m e];
    try discriminate; cbn in C3; subst; exact I.
Qed.

(* ---------- .round() as usize ---------- *)
Lemma Zfloor_half_int k : Zfloor (IZR k + /2) = k.
Proof. apply Zfloor_imp. rewrite plus_IZR. lra. Qed.

(* f64::round (half away from zero) on a positive finite double, as an integer *)
Lemma split_round_sem m e :
  let '(q, r, d) := split_int m e in
  (if (2 * r >=? 2 ^ d) && negb (d =? 0) then q + 1 else q)
  = Zfloor (F2R (Float radix2 (Z.pos m) e) + /2).
Proof.
  unfold split_int. destruct (0 <=? e) eqn:He.
  - apply Z.leb_le in He. cbn [andb negb Z.eqb Z.geb Z.mul Z.pow Z.compare].
    replace (F2R (Float radix2 (Z.pos m) e)) with (IZR (Z.pos m * 2 ^ e)).
    + symmetry. apply Zfloor_half_int.
    + unfold F2R. cbn [Fnum Fexp]. rewrite mult_IZR. f_equal.
      change 2 with (radix_val radix2). now rewrite IZR_Zpower.
  - apply Z.leb_gt in He. set (d := - e).
    assert (Hd : 0 < d) by lia.
    assert (Hpos : 0 < 2 ^ d) by (apply Z.pow_pos_nonneg; lia).
    set (q := Z.pos m / 2 ^ d). set (r := Z.pos m mod 2 ^ d).
    assert (Hm : Z.pos m = 2 ^ d * q + r) by (apply Z.div_mod; lia).
    assert (Hr : 0 <= r < 2 ^ d) by (apply Z.mod_pos_bound; lia).
    set (B := IZR (2 ^ d)).
    assert (HB : (0 < B)%R) by (apply IZR_lt; exact Hpos).
    assert (Hx : F2R (Float radix2 (Z.pos m) e) = (IZR q + IZR r / B)%R).
    { unfold F2R. cbn [Fnum Fexp]. rewrite Hm, plus_IZR, mult_IZR. fold B.
      replace (bpow radix2 e) with (/ B)%R.
      - field. lra.
      - unfold B. change 2 with (radix_val radix2). rewrite IZR_Zpower by lia.
        rewrite <- bpow_opp. f_equal. lia. }
    rewrite Hx.
    assert (Hr1 : (0 <= IZR r / B)%R).
    { apply Rmult_le_pos; [apply IZR_le; lia|]. apply Rlt_le, Rinv_0_lt_compat, HB. }
    assert (Hr2 : (IZR r / B < 1)%R).
    { apply Rmult_lt_reg_r with B; [exact HB|]. unfold Rdiv. rewrite Rmult_assoc, Rinv_l by lra.
      rewrite Rmult_1_r, Rmult_1_l. apply IZR_lt. lia. }
    replace (d =? 0) with false by lia. cbn [negb]. rewrite andb_true_r.
    destruct (2 * r >=? 2 ^ d) eqn:Hc.
    + apply Z.geb_le in Hc. symmetry. apply Zfloor_imp. rewrite !plus_IZR.
      assert (/2 <= IZR r / B)%R.
      { apply Rmult_le_reg_r with B; [exact HB|]. unfold Rdiv. rewrite Rmult_assoc, Rinv_l by lra.
        rewrite Rmult_1_r. apply IZR_le in Hc. rewrite mult_IZR in Hc. fold B in Hc. lra. }
      lra.
    + assert (Hc' : 2 * r < 2 ^ d). { rewrite Z.geb_leb in Hc. apply Z.leb_gt in Hc. lia. }
      symmetry. apply Zfloor_imp. rewrite !plus_IZR.
      assert (IZR r / B < /2)%R.
      { apply Rmult_lt_reg_r with B; [exact HB|]. unfold Rdiv. rewrite Rmult_assoc, Rinv_l by lra.
        rewrite Rmult_1_r. apply IZR_lt in Hc'. rewrite mult_IZR in Hc'. fold B in Hc'. lra. }
      lra.
Qed.

(* the integer part of a double whose value is an integer *)
Lemma trunc_of_int m e k : F2R (Float radix2 (Z.pos m) e) = IZR k ->
  fst (fst (split_int m e)) = k.
Proof.
  unfold split_int, F2R. cbn [Fnum Fexp]. intros H. destruct (0 <=? e) eqn:He.
  - apply Z.leb_le in He. cbn [fst]. apply eq_IZR. rewrite <- H, mult_IZR. f_equal.
    change 2 with (radix_val radix2). now rewrite IZR_Zpower.
  - apply Z.leb_gt in He. cbn [fst].
    assert (Hpos : 0 < 2 ^ (- e)) by (apply Z.pow_pos_nonneg; lia).
    assert (E : Z.pos m = k * 2 ^ (- e)).
    { apply eq_IZR. rewrite mult_IZR. change 2 with (radix_val radix2).
      rewrite IZR_Zpower by lia. rewrite <- H, Rmult_assoc, <- bpow_plus.
      replace (e + - e) with 0 by lia. cbn. lra. }
    rewrite E. apply Z.div_mul. lia.
Qed.

Lemma cast_num_of_sm k : 0 <= k <= 2^53 -> as_usize (num_of_sm false k) = k.
Proof.
  intros H. destruct k as [|p|p]; [reflexivity| |lia]. cbn [num_of_sm].
  rewrite binary_round_equiv.
  assert (C := binary_round_correct prec emax Hprec Hmax mode_NE false p 0). cbv zeta in C.
  destruct C as [V C]. cbn [round_mode cond_Zopp] in C.
  assert (E : F2R (Float radix2 (Z.pos p) 0) = IZR (Z.pos p)).
  { unfold F2R. cbn. now rewrite Rmult_1_r. }
  rewrite E, rnd_int in C by lia. rewrite (Rlt_bool_true' _ _ (bpow_emax_big (Z.pos p) ltac:(lia))) in C.
  destruct C as (C1 & C2 & C3).
  destruct (BinarySingleNaN.binary_round prec emax mode_NE false p 0) as [s|s| |s m e];
    try discriminate.
  - cbn in C1. apply eq_IZR in C1. discriminate.
  - cbn in C3. subst s. cbn [SF2R cond_Zopp] in C1.
    unfold as_usize, cast_int, Z_of_num_trunc.
    assert (T := trunc_of_int m e (Z.pos p) C1).
    destruct (split_int m e) as [[q r] d]. cbn in T. subst q.
    unfold clamp, U64_MAX. replace (Z.pos p <? 0) with false by lia.
    replace (2 ^ 64 - 1 <? Z.pos p) with false by lia. reflexivity.
Qed.

Lemma round_cast_sem u N : fin_nonneg u -> (R_of u <= IZR N)%R -> 0 <= N <= 2^53 ->
  as_usize (nround u) = Zfloor (R_of u + /2) /\ 0 <= Zfloor (R_of u + /2) <= N.
Proof.
  intros Hu Hle HN. destruct u as [s|s| |s m e]; try contradiction.
  - cbn [SF2R]. assert (E : Zfloor (0 + /2) = 0) by (apply Zfloor_imp; cbn; lra).
    rewrite E. split; [reflexivity|lia].
  - destruct s; [contradiction|]. cbn [SF2R cond_Zopp] in *.
    set (x := F2R (Float radix2 (Z.pos m) e)) in *.
    assert (Hx : (0 < x)%R) by (apply F2R_gt_0; reflexivity).
    assert (Hk : 0 <= Zfloor (x + /2) <= N).
    { split.
      - apply Zfloor_lub. cbn. lra.
      - apply Z.lt_succ_r. apply lt_IZR. eapply Rle_lt_trans; [apply Zfloor_lb|].
        unfold Z.succ. rewrite plus_IZR. lra. }
    split; [|exact Hk].
    assert (S := split_round_sem m e). unfold nround.
    destruct (split_int m e) as [[q r] d]. fold x in S. rewrite S.
    apply cast_num_of_sm. lia.
Qed.

(* ---------- the index as a function of the real value of p ---------- *)
Definition Fidx (x : R) (N : Z) : Z := Zfloor (rnd (rnd (x / 100) * IZR N) + /2).

Lemma n100_value : n100 = S754_finite false 7036874417766400 (-46).
Proof. vm_compute. reflexivity. Qed.
Lemma R_n100 : R_of n100 = 100%R.
Proof. destruct (num_of_Z_correct 100 ltac:(lia)) as (_ & H & _). exact H. Qed.
Lemma valid_n100 : valid n100 = true.
Proof. vm_compute. reflexivity. Qed.

Lemma rnd_0 : rnd 0 = 0%R.
Proof. apply round_0. apply valid_rnd_N. Qed.
Lemma rnd_le x y : (x <= y)%R -> (rnd x <= rnd y)%R.
Proof. apply round_le; [apply fexp_correct; reflexivity|apply valid_rnd_N]. Qed.
Lemma rnd_nonneg x : (0 <= x)%R -> (0 <= rnd x)%R.
Proof. intros H. rewrite <- rnd_0. now apply rnd_le. Qed.

Lemma fin_nonneg_R x : fin_nonneg x -> (0 <= R_of x)%R.
Proof.
  destruct x as [s|s| |[] m e]; try contradiction; intros _; cbn; [lra|].
  apply F2R_ge_0. cbn. lia.
Qed.

Lemma fin_nonneg_of_sign z : is_finite_SF z = true -> sign_SF z = false -> fin_nonneg z.
Proof. destruct z as [s|s| |s m e]; cbn; try discriminate; intros _ H; subst; exact I. Qed.

Lemma nmul_fin_nonneg a b : valid a = true -> valid b = true -> fin_nonneg a -> fin_nonneg b ->
  (R_of a * R_of b <= IZR (2^53))%R ->
  valid (nmul a b) = true /\ fin_nonneg (nmul a b) /\ R_of (nmul a b) = rnd (R_of a * R_of b).
Proof.
  intros Va Vb Ha Hb Hle.
  destruct a as [sa|sa| |sa ma ea]; try contradiction;
  destruct b as [sb|sb| |sb mb eb]; try contradiction.
  - cbn. rewrite Rmult_0_l, rnd_0. auto.
  - cbn [nmul SFmul SF2R]. rewrite Rmult_0_l, rnd_0. cbn. auto.
  - cbn [nmul SFmul SF2R]. rewrite Rmult_0_r, rnd_0. cbn. auto.
  - destruct sa, sb; try contradiction.
    assert (P := Rmult_le_pos _ _ (fin_nonneg_R _ Ha) (fin_nonneg_R _ Hb)).
    destruct (nmul_correct false ma ea false mb eb Va Vb) as (V & E & F & S).
    { rewrite Rabs_pos_eq by now apply rnd_nonneg.
      eapply Rle_lt_trans; [apply rnd_le, Hle|]. rewrite rnd_int by (cbn; lia).
      rewrite <- (Rabs_pos_eq (IZR (2^53))) by (apply IZR_le; lia). apply bpow_emax_big. cbn. lia. }
    split; [exact V|split; [|exact E]]. now apply fin_nonneg_of_sign.
Qed.

Lemma in_0_100_cases p : in_0_100 p = true ->
  (exists s, p = S754_zero s) \/ (exists m e, p = S754_finite false m e).
Proof.
  unfold in_0_100. rewrite n100_value. intros H. apply andb_true_iff in H. destruct H as [H1 H2].
  destruct p as [s|[]| |[] m e]; try discriminate; eauto.
Qed.

Lemma nleb_Rle a b : valid a = true -> valid b = true ->
  is_finite_SF a = true -> is_finite_SF b = true ->
  nleb a b = Rle_bool (R_of a) (R_of b).
Proof.
  intros Va Vb Fa Fb.
  assert (C := Bleb_correct prec emax (@SF2B prec emax a Va) (@SF2B prec emax b Vb)).
  rewrite !is_finite_SF2B in C. specialize (C Fa Fb).
  unfold Bleb in C. rewrite !B2SF_SF2B, !B2R_SF2B in C. exact C.
Qed.

Theorem percentile_index_sem p N : valid p = true -> in_0_100 p = true -> 0 <= N <= 2^53 ->
  (0 <= R_of p <= 100)%R /\ percentile_index p N = Fidx (R_of p) N /\ 0 <= Fidx (R_of p) N <= N.
Proof.
  intros Vp Hp HN.
  destruct (num_of_Z_correct N HN) as (VN & RN & FN).
  assert (HNR : (0 <= IZR N)%R) by (apply IZR_le; lia).
  destruct (in_0_100_cases p Hp) as [[s ->]|(m & e & ->)].
  - (* p = +-0 *)
    cbn [SF2R]. split; [lra|]. unfold Fidx, percentile_index.
    replace (0 / 100)%R with 0%R by lra. rewrite rnd_0, Rmult_0_l, rnd_0.
    assert (E : Zfloor (0 + /2) = 0) by (apply Zfloor_imp; cbn; lra). rewrite E.
    split; [|lia]. rewrite n100_value. cbn [ndiv SFdiv].
    destruct (num_of_Z N) as [sn|sn| |[] mn en]; try contradiction; reflexivity.
  - set (p := S754_finite false m e) in *.
    assert (Fp : fin_nonneg p) by exact I.
    assert (Rp0 := fin_nonneg_R p Fp).
    assert (Rp100 : (R_of p <= 100)%R).
    { unfold in_0_100 in Hp. apply andb_true_iff in Hp. destruct Hp as [_ Hp].
      rewrite (nleb_Rle p n100 Vp valid_n100 eq_refl) in Hp by (rewrite n100_value; reflexivity).
      rewrite R_n100 in Hp. destruct (Rle_bool_spec (R_of p) 100); [assumption|discriminate]. }
    split; [lra|].
    (* t = p / 100.0 *)
    assert (Hq : (0 <= R_of p / 100 <= 1)%R) by lra.
    assert (Ht1 : (rnd (R_of p / 100) <= 1)%R).
    { rewrite <- (rnd_int 1) by (cbn; lia). apply rnd_le. lra. }
    assert (Ht0 : (0 <= rnd (R_of p / 100))%R) by (apply rnd_nonneg; lra).
    assert (T : valid (ndiv p n100) = true /\ fin_nonneg (ndiv p n100) /\
                R_of (ndiv p n100) = rnd (R_of p / 100)).
    { rewrite n100_value. unfold p.
      destruct (ndiv_correct false m e false 7036874417766400 (-46)) as (V & E & F & S).
      - fold p. rewrite <- n100_value, R_n100. rewrite Rabs_pos_eq by assumption.
        eapply Rle_lt_trans; [exact Ht1|]. change 1%R with (bpow radix2 0). apply bpow_lt. reflexivity.
      - fold p in V, E, F, S |- *. rewrite <- n100_value in V, E, F, S |- *. rewrite R_n100 in E.
        split; [exact V|split; [|exact E]]. now apply fin_nonneg_of_sign. }
    destruct T as (Vt & Ft & Rt).
    (* u = t * (N as f64) *)
    destruct (nmul_fin_nonneg (ndiv p n100) (num_of_Z N) Vt VN Ft FN) as (Vu & Fu & Ru).
    { rewrite Rt, RN. apply Rle_trans with (1 * IZR N)%R.
      - apply Rmult_le_compat_r; assumption.
      - rewrite Rmult_1_l. apply IZR_le. lia. }
    rewrite Rt, RN in Ru.
    assert (Hu : (R_of (nmul (ndiv p n100) (num_of_Z N)) <= IZR N)%R).
    { rewrite Ru. rewrite <- (rnd_int N) at 2 by lia. apply rnd_le.
      rewrite <- (Rmult_1_l (IZR N)) at 2. apply Rmult_le_compat_r; assumption. }
    destruct (round_cast_sem _ N Fu Hu HN) as [A B].
    unfold percentile_index, Fidx. rewrite A, Ru. split; [reflexivity|]. rewrite <- Ru. exact B.
Qed.

(* ---------- the four facts about the index ---------- *)
Theorem index_in_range p N : valid p = true -> in_0_100 p = true -> 0 <= N <= 2^53 ->
  0 <= percentile_index p N <= N.
Proof. intros V H HN. destruct (percentile_index_sem p N V H HN) as (_ & -> & B). exact B. Qed.

Lemma in_0_100_finite p : in_0_100 p = true -> is_finite_SF p = true.
Proof. intros H. destruct (in_0_100_cases p H) as [[s ->]|(m & e & ->)]; reflexivity. Qed.

Lemma Fidx_mono x y N : (x <= y)%R -> 0 <= N -> Fidx x N <= Fidx y N.
Proof.
  intros H HN. unfold Fidx. apply Zfloor_le. apply Rplus_le_compat_r. apply rnd_le.
  apply Rmult_le_compat_r; [apply IZR_le; lia|]. apply rnd_le. lra.
Qed.

Theorem index_mono p q N :
  valid p = true -> valid q = true -> in_0_100 p = true -> in_0_100 q = true ->
  nle p q -> 0 <= N <= 2^53 -> percentile_index p N <= percentile_index q N.
Proof.
  intros Vp Vq Hp Hq Hle HN.
  destruct (percentile_index_sem p N Vp Hp HN) as (_ & -> & _).
  destruct (percentile_index_sem q N Vq Hq HN) as (_ & -> & _).
  apply Fidx_mono; [|lia]. unfold nle in Hle.
  rewrite (nleb_Rle p q Vp Vq (in_0_100_finite p Hp) (in_0_100_finite q Hq)) in Hle.
  destruct (Rle_bool_spec (R_of p) (R_of q)); [assumption|discriminate].
Qed.

Theorem index_0 p N : is_zero p = true -> 0 <= N <= 2^53 -> percentile_index p N = 0.
Proof.
  intros Hz HN. destruct p as [s|?| |? ? ?]; try discriminate.
  destruct (percentile_index_sem (S754_zero s) N eq_refl) as (_ & -> & _); [now destruct s|exact HN|].
  unfold Fidx. cbn [SF2R]. replace (0 / 100)%R with 0%R by lra.
  rewrite rnd_0, Rmult_0_l, rnd_0. apply Zfloor_imp. cbn. lra.
Qed.

Theorem index_100 N : 0 <= N <= 2^53 -> percentile_index n100 N = N.
Proof.
  intros HN. destruct (percentile_index_sem n100 N valid_n100) as (_ & -> & _);
    [rewrite n100_value; reflexivity|exact HN|].
  unfold Fidx. rewrite R_n100. replace (100 / 100)%R with (IZR 1) by (cbn; lra).
  rewrite rnd_int by (cbn; lia). rewrite Rmult_1_l, rnd_int by lia. apply Zfloor_half_int.
Qed.

(* ---------- percentile on a non-empty NaN-free list ---------- *)
Lemma bi_percentile_unfold l p : in_0_100 p = true -> l <> [] -> nan_free l = true ->
  bi_percentile [VList (nums l); VNum p] =
  (do s <- sort_pc l; do len1 <- usize_sub false (len s) 1;
   do x <- index_num s (percentile_index p len1); Ok (VNum x)).
Proof.
  intros Hp Hne Hl. unfold bi_percentile, bi_percentile_gen. cbn [arg nth_error obind as_number as_list].
  rewrite Hp. cbn [negb]. fold (nums l). rewrite mapM_as_number_nums. cbn [obind].
  replace (has_nan l) with false by (rewrite has_nan_nan_free, Hl; reflexivity).
  destruct l; [contradiction|reflexivity].
Qed.

Definition rank_of (p : num) (l : list num) : nat := Z.to_nat (percentile_index p (len l - 1)).

Theorem percentile_order_stat l p :
  l <> [] -> nan_free l = true -> len l <= 2^53 -> valid p = true -> in_0_100 p = true ->
  exists v, bi_percentile [VList (nums l); VNum p] = Ok (VNum v) /\
            is_order_stat l (rank_of p l) v /\ (rank_of p l < length l)%nat.
Proof.
  intros Hne Hl Hlen Vp Hp. rewrite bi_percentile_unfold by assumption.
  destruct (sort_pc_sorts l Hl) as (s & Hs & P & S). rewrite Hs. cbn [obind].
  assert (Ls : len s = len l) by (unfold len; now rewrite (Permutation_length P)).
  assert (L1 : 1 <= len l) by (unfold len; destruct l; [contradiction|cbn; lia]).
  unfold usize_sub. rewrite Ls. replace (len l <? 1) with false by lia. cbn [obind].
  assert (R := index_in_range p (len l - 1) Vp Hp ltac:(lia)).
  destruct (index_num_nth s (percentile_index p (len l - 1))) as (v & A & B); [lia|].
  rewrite A. cbn [obind]. exists v. split; [reflexivity|]. unfold rank_of. split.
  - apply order_stat_perm with (l := s); [now apply Permutation_sym|].
    apply sorted_nth_order_stat; auto. eapply nan_free_perm; eauto.
  - unfold len in *. lia.
Qed.

(* percentile(l, p) is an element of l *)
Corollary percentile_elem l p :
  l <> [] -> nan_free l = true -> len l <= 2^53 -> valid p = true -> in_0_100 p = true ->
  exists v, bi_percentile [VList (nums l); VNum p] = Ok (VNum v) /\ In v l.
Proof.
  intros. destruct (percentile_order_stat l p) as (v & A & (B & _) & _); eauto.
Qed.

(* non-decreasing in p *)
Theorem percentile_mono l p q :
  l <> [] -> nan_free l = true -> len l <= 2^53 ->
  valid p = true -> in_0_100 p = true -> valid q = true -> in_0_100 q = true -> nle p q ->
  exists v w, bi_percentile [VList (nums l); VNum p] = Ok (VNum v) /\
              bi_percentile [VList (nums l); VNum q] = Ok (VNum w) /\ nle v w.
Proof.
  intros Hne Hl Hlen Vp Hp Vq Hq Hpq.
  destruct (percentile_order_stat l p Hne Hl Hlen Vp Hp) as (v & A & B & _).
  destruct (percentile_order_stat l q Hne Hl Hlen Vq Hq) as (w & A' & B' & _).
  exists v, w. split; [exact A|split; [exact A'|]].
  apply (order_stat_mono l (rank_of p l) (rank_of q l)); auto.
  assert (L1 : 1 <= len l) by (unfold len; destruct l; [contradiction|cbn; lia]).
  assert (Rp := index_in_range p (len l - 1) Vp Hp ltac:(lia)).
  assert (Rq := index_in_range q (len l - 1) Vq Hq ltac:(lia)).
  unfold rank_of. apply Z2Nat.inj_le; [lia|lia|].
  apply index_mono; auto. lia.
Qed.

(* percentile(l, 0) = min, percentile(l, 100) = max  (as numbers) *)
Theorem percentile_0_min l p : is_zero p = true ->
  l <> [] -> nan_free l = true -> len l <= 2^53 ->
  exists v m, bi_percentile [VList (nums l); VNum p] = Ok (VNum v) /\
              bi_min (nums l) = Ok (VNum m) /\ neq v m.
Proof.
  intros Hz Hne Hl Hlen.
  assert (L1 : 1 <= len l) by (unfold len; destruct l; [contradiction|cbn; lia]).
  assert (Vp : valid p = true) by (destruct p as [[]|?| |? ? ?]; try discriminate; reflexivity).
  assert (Hp : in_0_100 p = true).
  { destruct p as [[]|?| |? ? ?]; try discriminate; unfold in_0_100; rewrite n100_value; reflexivity. }
  destruct (percentile_order_stat l p Hne Hl Hlen Vp Hp) as (v & A & B & _).
  destruct (min_bound l Hne Hl) as (m & C & _ & D & E).
  exists v, m. split; [exact A|split; [exact C|]].
  unfold rank_of in B. rewrite index_0 in B by (auto; lia).
  eapply order_stat_0_min; eauto.
Qed.

Theorem percentile_100_max l :
  l <> [] -> nan_free l = true -> len l <= 2^53 ->
  exists v m, bi_percentile [VList (nums l); VNum n100] = Ok (VNum v) /\
              bi_max (nums l) = Ok (VNum m) /\ neq v m.
Proof.
  intros Hne Hl Hlen.
  assert (L1 : 1 <= len l) by (unfold len; destruct l; [contradiction|cbn; lia]).
  assert (Hp : in_0_100 n100 = true) by (rewrite n100_value; reflexivity).
  destruct (percentile_order_stat l n100 Hne Hl Hlen valid_n100 Hp) as (v & A & B & _).
  destruct (max_bound l Hne Hl) as (m & C & _ & D & E).
  exists v, m. split; [exact A|split; [exact C|]].
  unfold rank_of in B. rewrite index_100 in B by lia.
  replace (Z.to_nat (len l - 1)) with (length l - 1)%nat in B by (unfold len; lia).
  eapply order_stat_last_max; eauto.
Qed.

(* exact permutation invariance *)
Theorem percentile_perm_invariant l l' p : Permutation l l' ->
  l <> [] -> nan_free l = true -> len l <= 2^53 -> valid p = true -> in_0_100 p = true ->
  exists v v', bi_percentile [VList (nums l); VNum p] = Ok (VNum v) /\
               bi_percentile [VList (nums l'); VNum p] = Ok (VNum v') /\ neq v v'.
Proof.
  intros P Hne Hl Hlen Vp Hp.
  assert (Hne' : l' <> []) by (intros ->; apply Permutation_sym, Permutation_nil in P; auto).
  assert (Hl' := nan_free_perm _ _ P Hl).
  assert (Hlen' : len l' = len l) by (unfold len; now rewrite (Permutation_length P)).
  destruct (percentile_order_stat l p Hne Hl Hlen Vp Hp) as (v & A & B & _).
  destruct (percentile_order_stat l' p Hne' Hl' ltac:(lia) Vp Hp) as (v' & A' & B' & _).
  exists v, v'. split; [exact A|split; [exact A'|]].
  unfold rank_of in B'. rewrite Hlen' in B'. fold (rank_of p l) in B'.
  eapply order_stat_unique; [exact Hl|exact B|].
  eapply order_stat_perm; [apply Permutation_sym|]; eauto.
Qed.
