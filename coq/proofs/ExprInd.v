(* ExprInd.v — structural induction over expr through the nested lists, the Commented wrapper
   and the mutually defined record entries/keys. *)
From Coq Require Import String List ZArith Bool.
Require Import Blots.Num Blots.gen.Builtins Blots.Ast.
Import ListNotations.

Section ExprInd.
  Variable P : expr -> Prop.
  Definition Pkey (k : rkey) : Prop :=
    match k with KDyn e | KSpread e => P e | KStatic _ | KShort _ => True end.
  Definition Pentry (r : rentry) : Prop := match r with REntry k v => Pkey k /\ P v end.

  Hypothesis HNum : forall x, P (ENum x).
  Hypothesis HStr : forall s, P (EStr s).
  Hypothesis HBool : forall b, P (EBool b).
  Hypothesis HNull : P ENull.
  Hypothesis HId : forall x, P (EId x).
  Hypothesis HInRef : forall x, P (EInRef x).
  Hypothesis HBuiltin : forall b, P (EBuiltin b).
  Hypothesis HList : forall items, Forall (fun c => P (cnode c)) items -> P (EList items).
  Hypothesis HRec : forall entries, Forall (fun c => Pentry (cnode c)) entries -> P (ERec entries).
  Hypothesis HLam : forall args body, P body -> P (ELam args body).
  Hypothesis HCond : forall c t e, P c -> P t -> P e -> P (ECond c t e).
  Hypothesis HDo : forall stmts ret,
      Forall (fun c => P (cnode c)) stmts -> P (cnode ret) -> P (EDo stmts ret).
  Hypothesis HAssign : forall x v, P v -> P (EAssign x v).
  Hypothesis HOutput : forall e, P e -> P (EOutput e).
  Hypothesis HCall : forall f args, P f -> Forall P args -> P (ECall f args).
  Hypothesis HAccess : forall e i, P e -> P i -> P (EAccess e i).
  Hypothesis HDot : forall e f, P e -> P (EDot e f).
  Hypothesis HBin : forall op l r, P l -> P r -> P (EBin op l r).
  Hypothesis HUn : forall op e, P e -> P (EUn op e).
  Hypothesis HFact : forall e, P e -> P (EFact e).
  Hypothesis HSpread : forall e, P e -> P (ESpread e).

  Fixpoint expr_ind' (e : expr) : P e :=
    match e with
    | ENum x => HNum x
    | EStr s => HStr s
    | EBool b => HBool b
    | ENull => HNull
    | EId x => HId x
    | EInRef x => HInRef x
    | EBuiltin b => HBuiltin b
    | EList items =>
        HList items
          ((fix go (l : list (commented expr)) : Forall (fun c => P (cnode c)) l :=
              match l with
              | [] => Forall_nil _
              | Cm a n t :: r => Forall_cons (Cm a n t) (expr_ind' n) (go r)
              end) items)
    | ERec entries =>
        HRec entries
          ((fix go (l : list (commented rentry)) : Forall (fun c => Pentry (cnode c)) l :=
              match l with
              | [] => Forall_nil _
              | Cm a (REntry k v) t :: r =>
                  Forall_cons (Cm a (REntry k v) t)
                    (conj (match k return Pkey k with
                           | KStatic _ => I
                           | KDyn e' => expr_ind' e'
                           | KShort _ => I
                           | KSpread e' => expr_ind' e'
                           end) (expr_ind' v))
                    (go r)
              end) entries)
    | ELam args body => HLam args body (expr_ind' body)
    | ECond c t f => HCond c t f (expr_ind' c) (expr_ind' t) (expr_ind' f)
    | EDo stmts ret =>
        HDo stmts ret
          ((fix go (l : list (commented expr)) : Forall (fun c => P (cnode c)) l :=
              match l with
              | [] => Forall_nil _
              | Cm a n t :: r => Forall_cons (Cm a n t) (expr_ind' n) (go r)
              end) stmts)
          (match ret return P (cnode ret) with Cm _ n _ => expr_ind' n end)
    | EAssign x v => HAssign x v (expr_ind' v)
    | EOutput e' => HOutput e' (expr_ind' e')
    | ECall f args =>
        HCall f args (expr_ind' f)
          ((fix go (l : list expr) : Forall P l :=
              match l with
              | [] => Forall_nil _
              | a :: r => Forall_cons a (expr_ind' a) (go r)
              end) args)
    | EAccess a i => HAccess a i (expr_ind' a) (expr_ind' i)
    | EDot a f => HDot a f (expr_ind' a)
    | EBin op l r => HBin op l r (expr_ind' l) (expr_ind' r)
    | EUn op a => HUn op a (expr_ind' a)
    | EFact a => HFact a (expr_ind' a)
    | ESpread a => HSpread a (expr_ind' a)
    end.
End ExprInd.
