(* RecordLaws.v — keys/values/entries/access/spread on records; group_by / count_by partition
   their input list. *)
From Coq Require Import String Ascii List ZArith Bool Lia Permutation.
Require Import Blots.Num Blots.gen.Builtins Blots.Ast Blots.Value Blots.Outcome Blots.Access Blots.BuiltinsList Blots.proofs.ValueInd.
Import ListNotations.
Open Scope list_scope.

(* ------------------------------------------------------------------ *)
(* Part 1: records                                                     *)
(* ------------------------------------------------------------------ *)

Lemma keys_values_entries_access r i k v :
  NoDup (map fst r) -> nth_error r i = Some (k, v) ->
  (exists ks vs es,
     bi_keys [VRec r] = Ok (VList ks) /\ bi_values [VRec r] = Ok (VList vs) /\ bi_entries [VRec r] = Ok (VList es) /\
     length ks = length r /\ length vs = length r /\ length es = length r /\
     nth_error ks i = Some (VStr k) /\ nth_error vs i = Some v /\ nth_error es i = Some (VList [VStr k; v])) /\
  access_value (VRec r) (VStr k) = Ok v /\ dot_access (VRec r) k = Ok v.
Proof.
  intros Hnd Hn.
  assert (Hget : rec_get r k = Some v).
  { apply rec_get_In_NoDup; [assumption|]. eapply nth_error_In; eassumption. }
  split.
  - exists (map (fun kv => VStr (fst kv)) r), (map snd r),
      (map (fun kv => VList [VStr (fst kv); snd kv]) r).
    repeat split; try reflexivity; try apply map_length.
    + now rewrite (map_nth_error _ _ _ Hn).
    + now rewrite (map_nth_error _ _ _ Hn).
    + now rewrite (map_nth_error _ _ _ Hn).
  - cbn [access_value dot_access]. now rewrite Hget.
Qed.

Lemma field_absent_null r k :
  rec_get r k = None -> dot_access (VRec r) k = Ok VNull /\ access_value (VRec r) (VStr k) = Ok VNull.
Proof.
  intros H. cbn [access_value dot_access]. now rewrite H.
Qed.

Lemma spread_record_entries r es :
  bi_entries [VRec r] = Ok (VList es) ->
  (do s <- spread_of (VRec r); list_literal [s]) = Ok (VList es).
Proof.
  intros H. cbn in H. injection H as <-.
  cbn. now rewrite app_nil_r.
Qed.

(* ------------------------------------------------------------------ *)
(* Part 2: group_by / count_by                                         *)
(* ------------------------------------------------------------------ *)

(* keys in first-occurrence order *)
Fixpoint first_keys (seen : list string) (ks : list string) : list string :=
  match ks with
  | [] => []
  | k :: r => if existsb (String.eqb k) seen then first_keys seen r else k :: first_keys (k :: seen) r
  end.
(* the items with key k, in input order *)
Definition items_with (k : string) (keyed : list (string * value)) : list value :=
  map snd (filter (fun kv => String.eqb (fst kv) k) keyed).
(* n additions of 1.0 starting from 0.0, as count_by does *)
Definition count_num (n : nat) : num := Nat.iter n (fun c => nadd c one) nzero.

Lemma mem_In k l : existsb (String.eqb k) l = true <-> In k l.
Proof.
  rewrite existsb_exists. split.
  - intros [x [Hx E]]. apply String.eqb_eq in E. now subst.
  - intros H. exists k. split; [assumption|apply String.eqb_refl].
Qed.

Lemma mem_notIn k l : existsb (String.eqb k) l = false <-> ~ In k l.
Proof.
  rewrite <- mem_In. destruct (existsb (String.eqb k) l); split; intros H; congruence.
Qed.

Lemma first_keys_In_gen seen ks k :
  In k (first_keys seen ks) <-> In k ks /\ ~ In k seen.
Proof.
  revert seen. induction ks as [|a ks IH]; intros seen; cbn [first_keys].
  - cbn. tauto.
  - destruct (existsb (String.eqb a) seen) eqn:E.
    + apply mem_In in E. rewrite IH. cbn. split.
      * tauto.
      * intros [[->|H] Hn]; tauto.
    + apply mem_notIn in E. cbn [In]. rewrite IH. cbn [In]. split.
      * intros [->|[H Hn]]; tauto.
      * intros [[->|H] Hn]; [now left|].
        destruct (String.eqb_spec a k) as [->|Hne]; [now left|right]. tauto.
Qed.

Lemma first_keys_NoDup_gen seen ks : NoDup (first_keys seen ks).
Proof.
  revert seen. induction ks as [|a ks IH]; intros seen; cbn [first_keys].
  - constructor.
  - destruct (existsb (String.eqb a) seen); [apply IH|].
    constructor; [|apply IH].
    rewrite first_keys_In_gen. cbn. tauto.
Qed.

Lemma first_keys_NoDup ks : NoDup (first_keys [] ks).
Proof. apply first_keys_NoDup_gen. Qed.

Lemma first_keys_complete ks k : In k ks <-> In k (first_keys [] ks).
Proof. rewrite first_keys_In_gen. cbn. tauto. Qed.

Lemma first_keys_snoc seen ks k :
  first_keys seen (ks ++ [k]) =
  first_keys seen ks ++ (if existsb (String.eqb k) (seen ++ ks) then [] else [k]).
Proof.
  revert seen. induction ks as [|a ks IH]; intros seen; cbn [first_keys app].
  - rewrite app_nil_r. now destruct (existsb (String.eqb k) seen).
  - destruct (existsb (String.eqb a) seen) eqn:E.
    + rewrite IH. f_equal.
      rewrite !existsb_app. cbn [existsb].
      destruct (String.eqb_spec k a) as [->|Hne]; [|reflexivity].
      rewrite E. reflexivity.
    + rewrite IH. rewrite !existsb_app. cbn [existsb app]. f_equal. f_equal.
      destruct (String.eqb k a), (existsb (String.eqb k) seen); reflexivity.
Qed.

Lemma items_with_snoc k p k' x :
  items_with k (p ++ [(k', x)]) = items_with k p ++ (if String.eqb k' k then [x] else []).
Proof.
  unfold items_with. rewrite filter_app, map_app. cbn [filter fst].
  now destruct (String.eqb k' k).
Qed.

Lemma items_with_notin k p : ~ In k (map fst p) -> items_with k p = [].
Proof.
  unfold items_with. induction p as [|[a x] p IH]; cbn [map filter fst In]; [reflexivity|].
  intros H. destruct (String.eqb_spec a k) as [->|Hne]; [tauto|]. apply IH. tauto.
Qed.

(* one step of group_push on a table indexed by a duplicate-free key list *)
Lemma group_push_map (f : string -> list value) K k x :
  NoDup K ->
  group_push (map (fun k' => (k', f k')) K) k x =
  map (fun k' => (k', f k' ++ (if String.eqb k k' then [x] else []))) K
    ++ (if existsb (String.eqb k) K then [] else [(k, [x])]).
Proof.
  induction K as [|a K IH]; intros Hnd; cbn [map group_push existsb app].
  - reflexivity.
  - inversion Hnd as [|? ? Hn Hnd']; subst.
    destruct (String.eqb_spec k a) as [->|Hne]; cbn [orb].
    + rewrite app_nil_r. f_equal. apply map_ext_in. intros b Hb.
      destruct (String.eqb_spec a b) as [->|_]; [tauto|]. now rewrite app_nil_r.
    + rewrite app_nil_r. cbn [app]. f_equal. now apply IH.
Qed.

Lemma groups_of_snoc p k x : groups_of (p ++ [(k, x)]) = group_push (groups_of p) k x.
Proof. unfold groups_of. now rewrite fold_left_app. Qed.

Lemma groups_of_spec keyed :
  groups_of keyed = map (fun k => (k, items_with k keyed)) (first_keys [] (map fst keyed)).
Proof.
  induction keyed as [|[k x] p IH] using rev_ind; [reflexivity|].
  rewrite groups_of_snoc, IH.
  rewrite group_push_map by apply first_keys_NoDup.
  rewrite map_app. cbn [map fst]. rewrite first_keys_snoc. cbn [app].
  rewrite map_app.
  assert (Hmem : existsb (String.eqb k) (first_keys [] (map fst p)) = existsb (String.eqb k) (map fst p)).
  { destruct (existsb (String.eqb k) (map fst p)) eqn:E.
    - apply mem_In. apply (proj1 (first_keys_complete _ _)). now apply (proj1 (mem_In _ _)).
    - apply mem_notIn. intros H. apply (proj2 (first_keys_complete _ _)) in H.
      now apply (proj1 (mem_notIn _ _)) in E. }
  rewrite Hmem. f_equal.
  - apply map_ext. intros b. now rewrite items_with_snoc.
  - destruct (existsb (String.eqb k) (map fst p)) eqn:E; [reflexivity|].
    cbn [map]. rewrite items_with_snoc, String.eqb_refl.
    rewrite items_with_notin; [reflexivity|]. now apply mem_notIn.
Qed.

Lemma count_push_group_push g k x :
  count_push (map (fun kl => (fst kl, count_num (length (snd kl)))) g) k =
  map (fun kl => (fst kl, count_num (length (snd kl)))) (group_push g k x).
Proof.
  induction g as [|[a items] g IH]; cbn [map group_push count_push fst snd].
  - reflexivity.
  - destruct (String.eqb k a); cbn [map fst snd].
    + f_equal. f_equal. rewrite app_length. cbn [length].
      rewrite Nat.add_comm. reflexivity.
    + f_equal. apply IH.
Qed.

Lemma counts_of_groups_of keyed :
  counts_of keyed = map (fun kl => (fst kl, count_num (length (snd kl)))) (groups_of keyed).
Proof.
  induction keyed as [|[k x] p IH] using rev_ind; [reflexivity|].
  rewrite groups_of_snoc. unfold counts_of in *. rewrite fold_left_app. cbn [fold_left fst].
  rewrite IH. apply count_push_group_push.
Qed.

Lemma counts_of_spec keyed :
  counts_of keyed = map (fun k => (k, count_num (length (items_with k keyed)))) (first_keys [] (map fst keyed)).
Proof.
  rewrite counts_of_groups_of, groups_of_spec, map_map. reflexivity.
Qed.

Lemma concat_map_nil {A B} (K : list A) : concat (map (fun _ => @nil B) K) = [].
Proof. induction K; cbn; auto. Qed.

Lemma items_with_cons k a x keyed :
  items_with k ((a, x) :: keyed) = if String.eqb a k then x :: items_with k keyed else items_with k keyed.
Proof. unfold items_with. cbn [filter fst]. now destruct (String.eqb a k). Qed.

Lemma partition_perm_gen keyed K :
  NoDup K -> (forall k, In k (map fst keyed) -> In k K) ->
  Permutation (concat (map (fun k => items_with k keyed) K)) (map snd keyed).
Proof.
  intros Hnd. induction keyed as [|[a x] keyed IH]; intros Hin.
  - cbn. unfold items_with. cbn. rewrite concat_map_nil. constructor.
  - assert (HaK : In a K) by (apply Hin; now left).
    destruct (in_split _ _ HaK) as [K1 [K2 ->]].
    assert (Hn1 : ~ In a K1 /\ ~ In a K2).
    { apply NoDup_remove_2 in Hnd. rewrite in_app_iff in Hnd. tauto. }
    specialize (IH (fun k H => Hin k (or_intror H))).
    rewrite map_app, concat_app in IH |- *. cbn [map concat snd] in IH |- *.
    rewrite items_with_cons, String.eqb_refl.
    assert (Hext : forall L, ~ In a L ->
              map (fun k => items_with k ((a, x) :: keyed)) L = map (fun k => items_with k keyed) L).
    { intros L HL. apply map_ext_in. intros b Hb. rewrite items_with_cons.
      destruct (String.eqb_spec a b) as [->|_]; [tauto|reflexivity]. }
    rewrite !Hext by tauto.
    cbn [app]. etransitivity; [apply Permutation_sym, Permutation_middle|].
    now constructor.
Qed.

Lemma partition_perm keyed :
  Permutation (concat (map (fun k => items_with k keyed) (first_keys [] (map fst keyed)))) (map snd keyed).
Proof.
  apply partition_perm_gen; [apply first_keys_NoDup|].
  intros k. apply first_keys_complete.
Qed.

Lemma length_concat_sum {A} (l : list (list A)) :
  length (concat l) = list_sum (map (@length A) l).
Proof.
  induction l as [|a l IH]; cbn [concat map list_sum]; [reflexivity|].
  now rewrite app_length, IH.
Qed.

Lemma partition_lengths keyed :
  list_sum (map (fun k => length (items_with k keyed)) (first_keys [] (map fst keyed))) = length keyed.
Proof.
  rewrite <- (map_length snd keyed), <- (Permutation_length (partition_perm keyed)).
  rewrite length_concat_sum, map_map. reflexivity.
Qed.

Section WithCall.
  Variable St : Type.
  Variable call : value -> value -> list value -> St -> outcome value * St.

  Lemma keyed_items_snd func l st keyed st' :
    keyed_items St call func l st = (Ok keyed, st') -> map snd keyed = l.
  Proof.
    revert st keyed st'. induction l as [|a l IH]; intros st keyed st'; cbn [keyed_items].
    - intros H. injection H as <- _. reflexivity.
    - destruct (call func func [a] st) as [kr st1].
      destruct kr as [v| | | |]; try discriminate.
      destruct v; try discriminate.
      destruct (keyed_items St call func l st1) as [more st2] eqn:E.
      destruct more as [m| | | |]; cbn; try discriminate.
      intros H. injection H as <- _. cbn [map snd]. f_equal. eapply IH; eassumption.
  Qed.

  (* every recorded key is what the callback returned for that item (for a callback whose
     result does not depend on the state) *)
  Lemma keyed_items_keys func l st keyed st' (key : value -> string) :
    (forall x s, fst (call func func [x] s) = Ok (VStr (key x))) ->
    keyed_items St call func l st = (Ok keyed, st') -> keyed = map (fun x => (key x, x)) l.
  Proof.
    intros Hkey. revert st keyed st'. induction l as [|a l IH]; intros st keyed st'; cbn [keyed_items].
    - intros H. injection H as <- _. reflexivity.
    - pose proof (Hkey a st) as Ha.
      destruct (call func func [a] st) as [kr st1]. cbn [fst] in Ha. subst kr.
      destruct (keyed_items St call func l st1) as [more st2] eqn:E.
      destruct more as [m| | | |]; cbn; try discriminate.
      intros H. injection H as <- _. cbn [map]. f_equal. eapply IH; eassumption.
  Qed.

  Lemma group_by_partition func l st r st' :
    bi_group_by St call [VList l; func] st = (Ok r, st') ->
    exists keyed, map snd keyed = l /\
      r = VRec (map (fun k => (k, VList (items_with k keyed))) (first_keys [] (map fst keyed))).
  Proof.
    unfold bi_group_by, by_prologue. cbn.
    destruct (is_function func); [|discriminate].
    destruct (keyed_items St call func l st) as [keyed st1] eqn:E.
    destruct keyed as [kd| | | |]; cbn; try discriminate.
    intros H. injection H as <- _. exists kd. split.
    - eapply keyed_items_snd; eassumption.
    - rewrite groups_of_spec, map_map. reflexivity.
  Qed.

  Lemma count_by_counts func l st r st' :
    bi_count_by St call [VList l; func] st = (Ok r, st') ->
    exists keyed, map snd keyed = l /\
      r = VRec (map (fun k => (k, VNum (count_num (length (items_with k keyed))))) (first_keys [] (map fst keyed))).
  Proof.
    unfold bi_count_by, by_prologue. cbn.
    destruct (is_function func); [|discriminate].
    destruct (keyed_items St call func l st) as [keyed st1] eqn:E.
    destruct keyed as [kd| | | |]; cbn; try discriminate.
    intros H. injection H as <- _. exists kd. split.
    - eapply keyed_items_snd; eassumption.
    - rewrite counts_of_spec, map_map. reflexivity.
  Qed.
End WithCall.
