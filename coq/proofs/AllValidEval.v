(* AllValidEval.v — the evaluator induction of NoPanic.v once more, carrying the VALIDITY INVARIANT
   (Valid.v): for EVERY operator / built-in implementation that, on valid operands / an argument vector of
   valid values that passed the arity check, and with a callback that does the same, neither panics nor
   returns an invalid value — evaluation of a valid expression from a configuration whose innermost frame is
   Owned and whose bound values are all valid
       never returns Panic,   returns a valid value,   hands back such a configuration again,
   at every depth budget (induction on the budget: lt_wf_ind, and on the expression: expr_ind').
   Nothing here mentions a particular operator or built-in: the hypotheses are discharged for
   EvalAll.binop_all o / builtin_all o in AllValidOps.v / AllValidBuiltins.v.  Axiom-free. *)
From Coq Require Import String Ascii List ZArith Bool Lia.
Require Import Blots.Num Blots.gen.Builtins Blots.Ast Blots.Value Blots.Outcome Blots.Binop
               Blots.Env Blots.Eval Blots.BuiltinsHof Blots.Program Blots.Valid
               Blots.proofs.ExprInd Blots.proofs.Frames Blots.proofs.Closures Blots.proofs.NoPanic.
Import ListNotations.
Open Scope string_scope.
Open Scope list_scope.
Open Scope nat_scope.

(* ------------------------------------------------------------------ 1. the predicates, structurally *)
Lemma vv_list : forall l, valid_value (VList l) <-> Forall valid_value l.
Proof. intros l. unfold valid_value. cbn [valid_valueb]. rewrite forallb_forall, Forall_forall. reflexivity. Qed.
Lemma vvs_Forall : forall l, valid_values l <-> Forall valid_value l.
Proof. intros l. unfold valid_values, valid_valuesb. rewrite forallb_forall, Forall_forall. reflexivity. Qed.
Lemma vvs_list : forall l, valid_values l <-> valid_value (VList l).
Proof. reflexivity. Qed.
Lemma vvs_cons : forall v l, valid_values (v :: l) <-> valid_value v /\ valid_values l.
Proof. intros. unfold valid_values, valid_valuesb, valid_value. cbn [forallb]. rewrite andb_true_iff. reflexivity. Qed.
Lemma vvs_app : forall a b, valid_values (a ++ b) <-> valid_values a /\ valid_values b.
Proof. intros. unfold valid_values, valid_valuesb. rewrite forallb_app, andb_true_iff. reflexivity. Qed.
Lemma vvs_nil : valid_values []. Proof. reflexivity. Qed.
Lemma vvs_in : forall l v, valid_values l -> In v l -> valid_value v.
Proof. intros l v H Hin. apply vvs_Forall in H. rewrite Forall_forall in H. exact (H v Hin). Qed.
Lemma vvs_of_in : forall l, (forall v, In v l -> valid_value v) -> valid_values l.
Proof. intros l H. apply vvs_Forall, Forall_forall. exact H. Qed.
Lemma vvs_incl : forall l l', valid_values l -> (forall v, In v l' -> In v l) -> valid_values l'.
Proof. intros l l' H Hi. apply vvs_of_in. intros v Hv. eapply vvs_in; eauto. Qed.
Lemma vvs_map_atoms : forall {A} (f : A -> value) l, (forall a, valid_value (f a)) -> valid_values (map f l).
Proof. intros A f l H. apply vvs_of_in. intros v Hv. apply in_map_iff in Hv. destruct Hv as [a [<- _]]. apply H. Qed.

Definition valid_frame (f : frame) : Prop := valid_frameb f = true.
Lemma vf_cons : forall x v f, valid_frame ((x, v) :: f) <-> valid_value v /\ valid_frame f.
Proof. intros. unfold valid_frame, valid_frameb, valid_value. cbn [forallb snd]. rewrite andb_true_iff. reflexivity. Qed.
Lemma vf_app : forall a b, valid_frame (a ++ b) <-> valid_frame a /\ valid_frame b.
Proof. intros. unfold valid_frame, valid_frameb. rewrite forallb_app, andb_true_iff. reflexivity. Qed.
Lemma vf_in : forall f k v, valid_frame f -> In (k, v) f -> valid_value v.
Proof.
  intros f k v H Hin. unfold valid_frame, valid_frameb in H. rewrite forallb_forall in H. exact (H _ Hin).
Qed.
Lemma vf_of_in : forall f, (forall kv, In kv f -> valid_value (snd kv)) -> valid_frame f.
Proof. intros f H. unfold valid_frame, valid_frameb. apply forallb_forall. exact H. Qed.
Lemma vv_rec : forall r, valid_value (VRec r) <-> valid_frame r.
Proof. reflexivity. Qed.
Lemma vfr_cons : forall k f fr, valid_frames ((k, f) :: fr) <-> valid_frame f /\ valid_frames fr.
Proof. intros. unfold valid_frames, valid_framesb, valid_frame. cbn [forallb snd]. rewrite andb_true_iff. reflexivity. Qed.

Lemma lookup_frame_valid : forall f x v, valid_frame f -> lookup_frame f x = Some v -> valid_value v.
Proof.
  induction f as [|[y w] f IH]; intros x v H E; cbn [lookup_frame] in E; [discriminate|].
  apply vf_cons in H. destruct H as [Hw Hf].
  destruct (String.eqb x y); [inversion E; subst; exact Hw|eapply IH; eauto].
Qed.
Lemma lookup_valid : forall fr x v, valid_frames fr -> lookup fr x = Some v -> valid_value v.
Proof.
  induction fr as [|[k f] fr IH]; intros x v H E; cbn [lookup] in E; [discriminate|].
  apply vfr_cons in H. destruct H as [Hf Hfr].
  destruct (lookup_frame f x) eqn:E1; [inversion E; subst; eapply lookup_frame_valid; eauto|eapply IH; eauto].
Qed.
Lemma rec_get_valid : forall (r : list (string * value)) k v, valid_frame r -> rec_get r k = Some v -> valid_value v.
Proof.
  induction r as [|[y w] r IH]; intros k v H E; cbn [rec_get] in E; [discriminate|].
  apply vf_cons in H. destruct H as [Hw Hr].
  destruct (String.eqb k y); [inversion E; subst; exact Hw|eapply IH; eauto].
Qed.
Lemma rec_insert_valid : forall (r : list (string * value)) k v,
  valid_frame r -> valid_value v -> valid_frame (rec_insert r k v).
Proof.
  induction r as [|[y w] r IH]; intros k v H Hv; cbn [rec_insert].
  - apply vf_cons. split; [exact Hv|reflexivity].
  - apply vf_cons in H. destruct H as [Hw Hr]. destruct (String.eqb k y); apply vf_cons; split; auto.
Qed.
Lemma rec_insert_all_valid : forall es r, valid_frame r -> valid_frame es -> valid_frame (rec_insert_all r es).
Proof.
  unfold rec_insert_all. induction es as [|[k v] es IH]; intros r Hr He; cbn [fold_left]; [exact Hr|].
  apply vf_cons in He. destruct He as [Hv He]. apply IH; [apply rec_insert_valid; assumption|exact He].
Qed.
Lemma enum_from_in : forall {A} (l : list A) n i x, In (i, x) (enum_from n l) -> In x l.
Proof.
  induction l as [|a l IH]; intros n i x H; cbn [enum_from] in H; [destruct H|].
  destruct H as [H|H]; [inversion H; subst; left; reflexivity|right; eapply IH; eauto].
Qed.
Lemma record_spread_entries_valid : forall v, valid_value v -> valid_frame (record_spread_entries v).
Proof.
  intros v H. destruct v; try reflexivity. destruct v; try reflexivity; cbn [record_spread_entries].
  - apply vf_of_in. intros kv Hin. apply in_map_iff in Hin. destruct Hin as [[i x] [<- _]]. reflexivity.
  - apply vf_of_in. intros kv Hin. apply in_map_iff in Hin. destruct Hin as [[i x] [<- Hin]]. cbn [snd].
    apply enum_from_in in Hin. change (valid_values l) in H. eapply vvs_in; eauto.
  - exact H.
Qed.
Lemma spread_items_valid : forall it, valid_value it -> valid_values (spread_items it).
Proof.
  intros it H. destruct it; try reflexivity; cbn [spread_items].
  - apply vvs_map_atoms. reflexivity.
  - exact H.
  - apply vvs_of_in. intros v Hv. apply in_map_iff in Hv. destruct Hv as [[k w] [<- Hin]].
    unfold valid_value. cbn [valid_valueb forallb fst snd]. rewrite andb_true_r. cbn [andb].
    exact (vf_in _ _ _ H Hin).
Qed.
Lemma flatten_spreads_valid : forall l, valid_values l -> valid_values (flatten_spreads l).
Proof.
  induction l as [|v l IH]; intros H; [reflexivity|]. apply vvs_cons in H. destruct H as [Hv Hl].
  destruct v; cbn [flatten_spreads]; try (apply vvs_cons; split; [exact Hv|apply IH; exact Hl]).
  apply vvs_app. split; [apply spread_items_valid; exact Hv|apply IH; exact Hl].
Qed.
Lemma capture_valid : forall fr vars acc, valid_frames fr -> valid_frame acc -> valid_frame (capture fr vars acc).
Proof.
  intros fr vars. induction vars as [|x r IH]; intros acc Hfr Ha; cbn [capture]; [exact Ha|].
  destruct (lookup fr x) eqn:E; [|apply IH; assumption].
  destruct (is_builtin_name x); apply IH; try assumption.
  apply vf_cons. split; [eapply lookup_valid; eauto|exact Ha].
Qed.
Lemma bind_params_valid : forall ps idx args acc local,
  valid_values args -> valid_frame acc -> bind_params ps idx args acc = Some local -> valid_frame local.
Proof.
  induction ps as [|p ps IH]; intros idx args acc local Ha Hacc E; cbn [bind_params] in E.
  - inversion E; subst; exact Hacc.
  - destruct p as [x|x|x].
    + destruct (nth_error args idx) eqn:En; [|discriminate].
      eapply IH; [exact Ha| |exact E]. apply vf_cons. split; [|exact Hacc].
      eapply vvs_in; [exact Ha|eapply nth_error_In; eauto].
    + eapply IH; [exact Ha| |exact E]. apply vf_cons. split; [|exact Hacc].
      destruct (nth_error args idx) eqn:En; [|reflexivity].
      eapply vvs_in; [exact Ha|eapply nth_error_In; eauto].
    + eapply IH; [exact Ha| |exact E]. apply vf_cons. split; [|exact Hacc].
      change (valid_values (skipn idx args)). eapply vvs_incl; [exact Ha|].
      intros v Hv. rewrite <- (firstn_skipn idx args). apply in_or_app. right. exact Hv.
Qed.

(* ---- valid_expr, constructor by constructor ---- *)
Lemma vexpr_clist : forall (l : list (commented expr)),
  (fix go (l : list (commented expr)) : bool :=
     match l with [] => true | Cm _ a _ :: r => valid_exprb a && go r end) l = true ->
  Forall (fun c => valid_expr (cnode c)) l.
Proof.
  induction l as [|[ld a tr] l IH]; intros H; [constructor|].
  apply andb_true_iff in H. destruct H as [Ha Hl]. constructor; [exact Ha|apply IH; exact Hl].
Qed.
Lemma vexpr_EList : forall items, valid_expr (EList items) -> Forall (fun c => valid_expr (cnode c)) items.
Proof. intros items H. exact (vexpr_clist items H). Qed.
Lemma vexpr_EDo : forall stmts ret, valid_expr (EDo stmts ret) ->
  Forall (fun c => valid_expr (cnode c)) stmts /\ valid_expr (cnode ret).
Proof.
  intros stmts [ld rt tr] H. unfold valid_expr in H. cbn [valid_exprb] in H.
  apply andb_true_iff in H. destruct H as [Hs Hr]. split; [apply vexpr_clist; exact Hs|exact Hr].
Qed.
Definition vkey (k : rkey) : Prop :=
  match k with KDyn e | KSpread e => valid_expr e | KStatic _ | KShort _ => True end.
Lemma vexpr_ERec : forall entries, valid_expr (ERec entries) ->
  Forall (fun c => match cnode c with REntry k v => vkey k /\ valid_expr v end) entries.
Proof.
  intros entries H. unfold valid_expr in H. cbn [valid_exprb] in H.
  induction entries as [|[ld [k v] tr] l IH]; [constructor|].
  apply andb_true_iff in H. destruct H as [H Hl]. apply andb_true_iff in H. destruct H as [Hk Hv].
  constructor; [|apply IH; exact Hl]. cbn [cnode]. split; [|exact Hv]. destruct k; cbn [vkey]; auto.
Qed.
Lemma vexpr_ECall : forall f args, valid_expr (ECall f args) -> valid_expr f /\ Forall valid_expr args.
Proof.
  intros f args H. unfold valid_expr in H. cbn [valid_exprb] in H.
  apply andb_true_iff in H. destruct H as [Hf Ha]. split; [exact Hf|].
  induction args as [|a l IH]; [constructor|].
  apply andb_true_iff in Ha. destruct Ha as [H1 H2]. constructor; [exact H1|apply IH; exact H2].
Qed.
Lemma vexpr_2 : forall a b, valid_exprb a && valid_exprb b = true -> valid_expr a /\ valid_expr b.
Proof. intros a b H. apply andb_true_iff in H. exact H. Qed.
Lemma vexpr_3 : forall a b c, valid_exprb a && valid_exprb b && valid_exprb c = true ->
  valid_expr a /\ valid_expr b /\ valid_expr c.
Proof.
  intros a b c H. apply andb_true_iff in H. destruct H as [H Hc]. apply andb_true_iff in H. tauto.
Qed.

(* ------------------------------------------------------------------ 2. the invariant *)
Definition Inv (c : cfg) : Prop := wf c /\ valid_frames (snd c).
(* never Panic, a result satisfying P, the invariant again *)
Definition good {A} (P : A -> Prop) (r : outcome A * cfg) : Prop :=
  fst r <> Panic /\ (forall a, fst r = Ok a -> P a) /\ Inv (snd r).
(* an operator / built-in / FunctionDef::call result: never Panic, a valid value *)
Definition vres (r : outcome value) : Prop := r <> Panic /\ (forall v, r = Ok v -> valid_value v).
Definition vcb (cb : callback) : Prop :=
  forall this f args st, valid_value this -> valid_value f -> valid_values args ->
    vres (fst (cb this f args st)).

Lemma good_step : forall {A} (P : A -> Prop) (r : outcome A * cfg), good P r ->
  match r with
  | (Ok a, c1) => P a /\ Inv c1
  | (Panic, _) => False
  | (_, c1) => Inv c1
  end.
Proof.
  intros A P [o c1] (Hn & Hv & Hi). cbn [fst snd] in *.
  destruct o; auto; exfalso; apply Hn; reflexivity.
Qed.
Lemma good_ok : forall {A} (P : A -> Prop) a c, P a -> Inv c -> good P (Ok a, c).
Proof. intros A P a c Ha Hi. split; [discriminate|split; [intros b H; inversion H; subst; exact Ha|exact Hi]]. Qed.
Lemma good_of_vres : forall r c, vres r -> Inv c -> good valid_value (r, c).
Proof. intros r c [Hn Hv] Hi. split; [exact Hn|split; [exact Hv|exact Hi]]. Qed.
Ltac good_err := split; [discriminate|split; [intros ? HH; discriminate HH|assumption]].

Lemma Inv_store : forall st st' fr, Inv (st, fr) -> Inv (st', fr).
Proof. intros st st' fr H. exact H. Qed.

Lemma vres_ok : forall v, valid_value v -> vres (Ok v).
Proof. intros v H. split; [discriminate|intros w E; inversion E; subst; exact H]. Qed.
Lemma vres_err : vres Err. Proof. split; [discriminate|intros w E; discriminate E]. Qed.
Lemma vres_errdepth : vres ErrDepth. Proof. split; [discriminate|intros w E; discriminate E]. Qed.

Section ValidEval.
  Variable release : bool.
  Variable binop_impl : callback -> binop -> value -> value -> store -> outcome value * store.
  Variable builtin_impl : callback -> builtin -> list value -> store -> outcome value * store.

  Hypothesis binop_ok : forall cb op l r st,
    vcb cb -> valid_value l -> valid_value r -> vres (fst (binop_impl cb op l r st)).
  Hypothesis builtin_ok : forall cb b args st,
    vcb cb -> can_accept (builtin_arity b) (Datatypes.length args) = true -> valid_values args ->
    vres (fst (builtin_impl cb b args st)).
  Hypothesis fact_ok : forall n, valid_num n -> vres (factorial_val release n).

  Section E.
  Variable apply : frames -> callback.
  Hypothesis Happly : forall fr, valid_frames fr -> vcb (apply fr).

  Notation evalE := (evalE release binop_impl apply).

  Definition ok_e (ev : cfg -> expr -> result) (e : expr) : Prop :=
    forall c, Inv c -> good valid_value (ev c e).

  Section Gen.
    Variable ev : cfg -> expr -> result.

    Lemma evalL_ok : forall l, Forall (ok_e ev) l ->
      forall c, Inv c -> good valid_values (evalL ev c l).
    Proof.
      intros l HF; induction HF as [|x l Hx _ IH]; intros c Hi; cbn [evalL];
        [apply good_ok; [reflexivity|exact Hi]|].
      pose proof (good_step _ _ (Hx c Hi)) as S1. destruct (ev c x) as [[v| | | |] c1];
        cbn [cast_fail]; try good_err; try contradiction.
      destruct S1 as [Hv Hi1].
      pose proof (good_step _ _ (IH c1 Hi1)) as S2. destruct (evalL ev c1 l) as [[vs| | | |] c2];
        try good_err; try contradiction.
      destruct S2 as [Hvs Hi2]. apply good_ok; [apply vvs_cons; split; assumption|exact Hi2].
    Qed.

    Lemma evalCL_ok : forall (l : list (commented expr)),
      Forall (fun cm => ok_e ev (cnode cm)) l ->
      forall c, Inv c -> good valid_values (evalCL ev c l).
    Proof.
      intros l HF; induction HF as [|[ld x tr] l Hx _ IH]; intros c Hi; cbn [evalCL];
        [apply good_ok; [reflexivity|exact Hi]|].
      cbn [cnode] in Hx.
      pose proof (good_step _ _ (Hx c Hi)) as S1. destruct (ev c x) as [[v| | | |] c1];
        cbn [cast_fail]; try good_err; try contradiction.
      destruct S1 as [Hv Hi1].
      pose proof (good_step _ _ (IH c1 Hi1)) as S2. destruct (evalCL ev c1 l) as [[vs| | | |] c2];
        try good_err; try contradiction.
      destruct S2 as [Hvs Hi2]. apply good_ok; [apply vvs_cons; split; assumption|exact Hi2].
    Qed.

    Lemma evalRecL_ok : forall (l : list (commented rentry)),
      Forall (fun cm => Pentry (ok_e ev) (cnode cm)) l ->
      forall c acc, Inv c -> valid_frame acc -> good valid_value (evalRecL ev c acc l).
    Proof.
      intros l HF; induction HF as [|[ld [k v] tr] l Hx _ IH]; intros c acc Hi Hacc;
        cbn [evalRecL]; [apply good_ok; [exact Hacc|exact Hi]|].
      cbn [cnode Pentry] in Hx. destruct Hx as [Hkey Hv].
      destruct k as [key|ke|x|se]; cbn [Pkey] in Hkey.
      - pose proof (good_step _ _ (Hv c Hi)) as S1. destruct (ev c v) as [[w| | | |] c1];
          try good_err; try contradiction.
        destruct S1 as [Hw Hi1]. apply IH; [exact Hi1|apply rec_insert_valid; assumption].
      - pose proof (good_step _ _ (Hkey c Hi)) as S1. destruct (ev c ke) as [[kv| | | |] c1];
          try good_err; try contradiction.
        destruct S1 as [Hkv Hi1].
        destruct kv; cbn [as_string cast_fail]; try good_err.
        pose proof (good_step _ _ (Hv c1 Hi1)) as S2. destruct (ev c1 v) as [[w| | | |] c2];
          try good_err; try contradiction.
        destruct S2 as [Hw Hi2]. apply IH; [exact Hi2|apply rec_insert_valid; assumption].
      - destruct (lookup (snd c) x) eqn:E; [|good_err].
        apply IH; [exact Hi|]. apply rec_insert_valid; [exact Hacc|].
        eapply lookup_valid; [exact (proj2 Hi)|exact E].
      - pose proof (good_step _ _ (Hkey c Hi)) as S1. destruct (ev c se) as [[sv| | | |] c1];
          try good_err; try contradiction.
        destruct S1 as [Hsv Hi1]. apply IH; [exact Hi1|].
        apply rec_insert_all_valid; [exact Hacc|apply record_spread_entries_valid; exact Hsv].
    Qed.

    (* Environment::insert: the only write; the head frame is Owned, the value valid *)
    Lemma bind_value_ok : forall n0 c1 x v, Inv c1 -> valid_value v -> good valid_value (bind_value n0 c1 x v).
    Proof.
      intros n0 [st fr] x v [Hw Hfr] Hv. unfold bind_value. cbn [fst snd] in *.
      destruct (insert_head fr x v) as [fr2|] eqn:E.
      - apply good_ok; [exact Hv|]. split.
        + unfold wf. cbn [snd]. eapply insert_head_keeps_owned; eauto.
        + cbn [snd]. destruct fr as [|[[|] f] rest]; cbn [insert_head] in E; try discriminate E.
          inversion E; subst. apply vfr_cons in Hfr. destruct Hfr as [Hf Hrest].
          apply vfr_cons. split; [apply vf_cons; split; assumption|exact Hrest].
      - exfalso. eapply insert_head_owned; eauto.
    Qed.
    Lemma assign_value_ok : forall x ve, ok_e ev ve ->
      forall c, Inv c -> good valid_value (assign_value ev c x ve).
    Proof.
      intros x ve Hve c Hi. unfold assign_value.
      pose proof (good_step _ _ (Hve c Hi)) as S1. destruct (ev c ve) as [[v| | | |] c1];
        try good_err; try contradiction.
      destruct S1 as [Hv Hi1]. apply bind_value_ok; assumption.
    Qed.
    Lemma assign_checked_ok : forall x ve, ok_e ev ve ->
      forall c, Inv c -> good valid_value (assign_checked ev c x ve).
    Proof.
      intros x ve Hve c Hi. unfold assign_checked.
      pose proof (good_step _ _ (Hve c Hi)) as S1. destruct (ev c ve) as [[v| | | |] c1];
        try good_err; try contradiction.
      destruct S1 as [Hv Hi1]. destruct (contains (snd c1) x); [good_err|].
      apply bind_value_ok; assumption.
    Qed.

    Definition stmt_ok (s : expr) : Prop :=
      ok_e ev s /\ (forall x ve, s = EAssign x ve -> ok_e ev ve).

    Lemma do_step_ok : forall s, stmt_ok s -> forall c, Inv c -> good valid_value (do_step ev c s).
    Proof.
      intros s [Hs Ha] c Hi. destruct s; cbn [do_step]; try (apply Hs; exact Hi).
      destruct (mem x do_assign_keywords); [good_err|].
      apply assign_value_ok; [eapply Ha; reflexivity|exact Hi].
    Qed.
    Lemma evalDoL_ok : forall (l : list (commented expr)),
      Forall (fun cm => stmt_ok (cnode cm)) l ->
      forall c, Inv c -> good (fun _ : unit => True) (evalDoL ev c l).
    Proof.
      intros l HF; induction HF as [|[ld s tr] l Hx _ IH]; intros c Hi; cbn [evalDoL];
        [apply good_ok; [exact I|exact Hi]|].
      cbn [cnode] in Hx.
      pose proof (good_step _ _ (do_step_ok s Hx c Hi)) as S1.
      destruct (do_step ev c s) as [[v| | | |] c1]; cbn [cast_fail]; try good_err; try contradiction.
      destruct S1 as [_ Hi1]. apply IH. exact Hi1.
    Qed.
  End Gen.

  Lemma access_val_ok : forall v i, valid_value v -> vres (access_val v i).
  Proof.
    intros v i Hv. destruct v; cbn [access_val]; try apply vres_err.
    - destruct i; cbn [as_number obind]; try apply vres_err.
      destruct (index_from _ _) as [k|]; [|apply vres_ok; reflexivity].
      destruct (nth_error (chars s) k); apply vres_ok; reflexivity.
    - destruct i; cbn [as_number obind]; try apply vres_err.
      apply vres_ok. destruct (index_from _ _) as [k|]; [|reflexivity].
      destruct (nth_in_or_default k l VNull) as [Hin| ->]; [|reflexivity].
      eapply vvs_in; [exact Hv|exact Hin].
    - destruct i; cbn [as_string obind]; try apply vres_err.
      apply vres_ok. destruct (rec_get r s) eqn:E; [|reflexivity]. eapply rec_get_valid; eauto.
  Qed.
  Lemma dot_val_ok : forall v f, valid_value v -> vres (dot_val v f).
  Proof.
    intros v f Hv. destruct v; cbn [dot_val]; try apply vres_err.
    apply vres_ok. destruct (rec_get r f) eqn:E; [|reflexivity]. eapply rec_get_valid; eauto.
  Qed.
  Lemma spread_val_ok : forall v, valid_value v -> vres (spread_val v).
  Proof. intros v Hv. destruct v; cbn [spread_val]; try apply vres_err; apply vres_ok; exact Hv. Qed.

  Lemma constants_valid : valid_frame constants_record.
  Proof. vm_compute. reflexivity. Qed.

  Theorem evalE_ok : forall e, valid_expr e -> forall c, Inv c -> good valid_value (evalE c e).
  Proof.
    intros e.
    enough (HH : valid_expr e -> stmt_ok evalE e) by (intros He; apply (HH He)). unfold stmt_ok.
    induction e using expr_ind'; intros He;
      (split; [intros c Hi; cbn [Eval.evalE]|try (intros ? ? Heq; discriminate Heq)]).
    - apply good_ok; [exact He|exact Hi].
    - apply good_ok; [reflexivity|exact Hi].
    - apply good_ok; [reflexivity|exact Hi].
    - apply good_ok; [reflexivity|exact Hi].
    - (* EId *)
      destruct (_ || _); [apply good_ok; [reflexivity|exact Hi]|].
      destruct (String.eqb x "constants"); [apply good_ok; [exact constants_valid|exact Hi]|].
      destruct (lookup (snd c) x) eqn:E; cbn [of_option]; [|good_err; exact Hi].
      apply good_ok; [eapply lookup_valid; [exact (proj2 Hi)|exact E]|exact Hi].
    - (* EInRef *)
      destruct (lookup (snd c) "inputs") as [v|] eqn:E; [|good_err; exact Hi].
      pose proof (lookup_valid _ _ _ (proj2 Hi) E) as Hv.
      destruct v; try (good_err; exact Hi).
      apply good_ok; [|exact Hi]. destruct (rec_get r x) eqn:Eg; [eapply rec_get_valid; eauto|reflexivity].
    - apply good_ok; [reflexivity|exact Hi].
    - (* EList *)
      assert (HF : Forall (fun cm => ok_e evalE (cnode cm)) items).
      { pose proof (vexpr_EList _ He) as Hv. rewrite Forall_forall in *. intros cm Hin.
        exact (proj1 (H cm Hin (Hv cm Hin))). }
      pose proof (good_step _ _ (evalCL_ok evalE items HF c Hi)) as S1.
      destruct (evalCL evalE c items) as [[vs| | | |] c1]; cbn [fst snd omap];
        try good_err; try contradiction.
      destruct S1 as [Hvs Hi1]. apply good_ok; [apply flatten_spreads_valid; exact Hvs|exact Hi1].
    - (* ERec *)
      apply evalRecL_ok; [|exact Hi|reflexivity].
      pose proof (vexpr_ERec _ He) as Hv. rewrite Forall_forall in *. intros [ld [k v] tr] Hin.
      specialize (H _ Hin). specialize (Hv _ Hin). cbn [cnode Pentry] in *.
      destruct H as [Hk Hvv], Hv as [Vk Vv]. split; [|exact (proj1 (Hvv Vv))].
      destruct k; cbn [Pkey vkey] in *; auto; exact (proj1 (Hk Vk)).
    - (* ELam *)
      unfold fresh_lambda. apply good_ok; [|exact Hi].
      unfold valid_value. cbn [valid_valueb]. apply andb_true_iff. split; [exact He|].
      apply capture_valid; [exact (proj2 Hi)|reflexivity].
    - (* ECond *)
      unfold valid_expr in He. cbn [valid_exprb] in He. apply vexpr_3 in He. destruct He as (V1 & V2 & V3).
      destruct (IHe1 V1) as [IH1 _], (IHe2 V2) as [IH2 _], (IHe3 V3) as [IH3 _].
      pose proof (good_step _ _ (IH1 c Hi)) as S1. destruct (evalE c e1) as [[cv| | | |] c1];
        try good_err; try contradiction.
      destruct S1 as [_ Hi1].
      destruct cv; cbn [as_bool cast_fail]; try good_err.
      destruct b; [apply IH2|apply IH3]; exact Hi1.
    - (* EDo *)
      match goal with
      | HF : Forall _ stmts, HR : _ -> _ /\ _ |- _ => rename HF into HFs; rename HR into HRet
      end.
      destruct (vexpr_EDo _ _ He) as [Vs Vr].
      destruct ret as [ld rt tr]. cbn [cnode] in *.
      assert (Hi0 : Inv (fst c, (FOwned, []) :: snd c)).
      { split; [reflexivity|]. cbn [snd]. apply vfr_cons. split; [reflexivity|exact (proj2 Hi)]. }
      assert (HF : Forall (fun cm => stmt_ok evalE (cnode cm)) stmts).
      { rewrite Forall_forall in *. intros cm Hin. exact (HFs cm Hin (Vs cm Hin)). }
      pose proof (good_step _ _ (evalDoL_ok evalE stmts HF _ Hi0)) as S1.
      destruct (evalDoL evalE (fst c, (FOwned, []) :: snd c) stmts) as [[u| | | |] c1];
        cbn [cast_fail fst snd]; try (good_err; exact Hi); try contradiction.
      destruct S1 as [_ Hi1].
      destruct (do_step_ok evalE rt (HRet Vr) c1 Hi1) as (Hn & Hv & _).
      split; [exact Hn|split; [exact Hv|exact Hi]].
    - (* EAssign *)
      destruct (IHe He) as [IH _].
      destruct (is_builtin_name x); [good_err; exact Hi|].
      destruct (mem x assign_keywords); [good_err; exact Hi|].
      destruct (contains (snd c) x); [good_err; exact Hi|].
      apply assign_checked_ok; [exact IH|exact Hi].
    - (* EAssign, second component *)
      intros y ve Heq. inversion Heq; subst. exact (proj1 (IHe He)).
    - (* EOutput *) exact (proj1 (IHe He) c Hi).
    - (* ECall *)
      destruct (vexpr_ECall _ _ He) as [Vf Va].
      destruct (IHe Vf) as [IH _].
      pose proof (good_step _ _ (IH c Hi)) as S1. destruct (evalE c e) as [[fv| | | |] c1];
        try good_err; try contradiction.
      destruct S1 as [Hfv Hi1].
      assert (HA : Forall (ok_e evalE) args).
      { rewrite Forall_forall in *. intros a Hin. exact (proj1 (H a Hin (Va a Hin))). }
      pose proof (good_step _ _ (evalL_ok evalE args HA c1 Hi1)) as S2.
      destruct (evalL evalE c1 args) as [[raw| | | |] [st2 fr2]]; cbn [cast_fail];
        try good_err; try contradiction.
      destruct S2 as [Hraw Hi2].
      destruct (negb (is_function fv)); [good_err|].
      pose proof (Happly fr2 (proj2 Hi2) fv fv (flatten_spreads raw) st2 Hfv Hfv
                    (flatten_spreads_valid _ Hraw)) as Hc.
      destruct (apply fr2 fv fv (flatten_spreads raw) st2) as [rr st3]. cbn [fst] in Hc.
      apply good_of_vres; [exact Hc|exact Hi2].
    - (* EAccess *)
      unfold valid_expr in He. cbn [valid_exprb] in He. apply vexpr_2 in He. destruct He as [V1 V2].
      destruct (IHe1 V1) as [IH1 _], (IHe2 V2) as [IH2 _].
      pose proof (good_step _ _ (IH1 c Hi)) as S1. destruct (evalE c e1) as [[v| | | |] c1];
        try good_err; try contradiction.
      destruct S1 as [Hv Hi1].
      pose proof (good_step _ _ (IH2 c1 Hi1)) as S2. destruct (evalE c1 e2) as [[i| | | |] c2];
        try good_err; try contradiction.
      destruct S2 as [_ Hi2]. apply good_of_vres; [apply access_val_ok; exact Hv|exact Hi2].
    - (* EDot *)
      destruct (IHe He) as [IH _].
      pose proof (good_step _ _ (IH c Hi)) as S1. destruct (evalE c e) as [[v| | | |] c1];
        try good_err; try contradiction.
      destruct S1 as [Hv Hi1]. apply good_of_vres; [apply dot_val_ok; exact Hv|exact Hi1].
    - (* EBin *)
      unfold valid_expr in He. cbn [valid_exprb] in He. apply vexpr_2 in He. destruct He as [V1 V2].
      destruct (IHe1 V1) as [IH1 _], (IHe2 V2) as [IH2 _].
      pose proof (good_step _ _ (IH1 c Hi)) as S1. destruct (evalE c e1) as [[lv| | | |] c1];
        try good_err; try contradiction.
      destruct S1 as [Hlv Hi1].
      pose proof (good_step _ _ (IH2 c1 Hi1)) as S2. destruct (evalE c1 e2) as [[rv| | | |] [st2 fr2]];
        try good_err; try contradiction.
      destruct S2 as [Hrv Hi2].
      pose proof (binop_ok (apply fr2) op lv rv st2 (Happly fr2 (proj2 Hi2)) Hlv Hrv) as Hb.
      destruct (binop_impl (apply fr2) op lv rv st2) as [res st3]. cbn [fst] in Hb.
      apply good_of_vres; [exact Hb|exact Hi2].
    - (* EUn *)
      destruct (IHe He) as [IH _].
      pose proof (good_step _ _ (IH c Hi)) as S1. destruct (evalE c e) as [[v| | | |] c1];
        try good_err; try contradiction.
      destruct S1 as [Hv Hi1]. apply good_of_vres; [|exact Hi1].
      destruct op; destruct v; cbn [as_number as_bool omap]; try apply vres_err; apply vres_ok;
        try reflexivity.
      destruct x; exact Hv.
    - (* EFact *)
      destruct (IHe He) as [IH _].
      pose proof (good_step _ _ (IH c Hi)) as S1. destruct (evalE c e) as [[v| | | |] c1];
        try good_err; try contradiction.
      destruct S1 as [Hv Hi1]. apply good_of_vres; [|exact Hi1].
      destruct v; cbn [as_number cast_fail]; try apply vres_err. apply fact_ok. exact Hv.
    - (* ESpread *)
      destruct (IHe He) as [IH _].
      pose proof (good_step _ _ (IH c Hi)) as S1. destruct (evalE c e) as [[v| | | |] c1];
        try good_err; try contradiction.
      destruct S1 as [Hv Hi1]. apply good_of_vres; [apply spread_val_ok; exact Hv|exact Hi1].
  Qed.
  End E.

  (* ---- FunctionDef::call at every depth ---- *)
  Lemma call_too_deep_vcb : vcb (fun _ f a s => call_too_deep f a s).
  Proof.
    intros this f args st _ _ _. unfold call_too_deep.
    destruct (check_arity _ _); cbn [fst]; [apply vres_errdepth|apply vres_err].
  Qed.

  Theorem AD_ok : forall d fr, valid_frames fr -> vcb (AD release binop_impl builtin_impl d fr).
  Proof.
    intros d. induction d as [d IH] using lt_wf_ind. intros fr Hfr this f args st Hthis Hf Hargs.
    destruct d as [|d']; cbn [AD]; unfold apply_at.
    - destruct (negb _); cbn [fst]; [apply vres_err|apply vres_errdepth].
    - destruct (check_arity f (Datatypes.length args)) eqn:Ha; cbn [negb]; [|apply vres_err].
      unfold call_passed. destruct f; try apply vres_err.
      + (* lambda *)
        unfold check_arity, accepts in Ha. cbn [fn_arity] in Ha.
        unfold valid_value in Hf. cbn [valid_valueb] in Hf. apply andb_true_iff in Hf.
        destruct Hf as [Hbody Hscope].
        match goal with |- context [bind_params args0 0 args ?acc] =>
          pose proof (bind_params_total args0 args acc Ha) as Hb;
          assert (Hacc : valid_frame acc);
          [|pose proof (fun local => bind_params_valid args0 0 args acc local Hargs Hacc) as Hloc;
            destruct (bind_params args0 0 args acc) as [local|]; [|congruence]] end.
        { apply vf_app. split.
          - destruct (lookup_frame scope "inputs"); [reflexivity|].  (* F9 repaired *)
            destruct (lookup fr "inputs") eqn:E; [|reflexivity].
            apply vf_cons. split; [eapply lookup_valid; eauto|reflexivity].
          - destruct (lam_name st id); [|reflexivity].
            destruct (lookup_frame scope s); [reflexivity|]. apply vf_cons. split; [exact Hthis|reflexivity]. }
        specialize (Hloc local eq_refl).
        match goal with |- context [evalE ?r ?b ?a ?c ?e] =>
          assert (Hi : Inv c);
          [|pose proof (evalE_ok a (fun fr0 H0 => IH d' (Nat.lt_succ_diag_r d') fr0 H0) e Hbody c Hi) as He;
            destruct (evalE r b a c e) as [rr [st1 fr1]]] end.
        { split; [reflexivity|]. cbn [snd]. apply vfr_cons. split; [exact Hloc|].
          destruct scope; [exact Hfr|]. apply vfr_cons. split; [exact Hscope|exact Hfr]. }
        cbn [fst]. destruct He as (Hn & Hv & _). split; assumption.
      + (* built-in *)
        unfold check_arity, accepts in Ha. cbn [fn_arity] in Ha.
        apply builtin_ok; [|exact Ha|exact Hargs].
        destruct d' as [|d'']; [apply call_too_deep_vcb|apply IH; [lia|exact Hfr]].
  Qed.

  Theorem evalD_ok : forall d c e, valid_expr e -> Inv c ->
    good valid_value (evalD release binop_impl builtin_impl d c e).
  Proof. intros d c e He Hi. unfold evalD. apply evalE_ok; [apply AD_ok|exact He|exact Hi]. Qed.

  (* ---- whole programs ---- *)
  Notation eval := (eval_top release binop_impl builtin_impl).
  Lemma exec_stmt_ok : forall s t s' r, valid_stmtb t = true ->
    exec_stmt eval s t = (s', r) -> Inv (s_cfg s) ->
    Inv (s_cfg s') /\ r <> RFail Panic /\ valid_resultb r = true.
  Proof.
    intros s t s' r Vt H Hi. destruct t as [e|e|]; cbn [exec_stmt valid_stmtb] in *.
    - pose proof (good_step _ _ (evalD_ok LIMIT (s_cfg s) e Vt Hi)) as S1.
      unfold eval_top in H.
      destruct (evalD release binop_impl builtin_impl LIMIT (s_cfg s) e) as [o c'].
      inversion H; subst; cbn [s_cfg].
      destruct o; try contradiction; cbn [valid_resultb];
        try (destruct S1 as [Hv Hi1]); repeat split; try discriminate; try assumption; try apply S1; try apply Hi1.
    - pose proof (good_step _ _ (evalD_ok LIMIT (s_cfg s) e Vt Hi)) as S1.
      unfold eval_top in H.
      destruct (evalD release binop_impl builtin_impl LIMIT (s_cfg s) e) as [o [st' fr']].
      match type of H with (match ?D with Some _ => _ | None => _ end) = _ => destruct D as [[x v]|] end.
      + destruct (validate_portable st' fr' v); inversion H; subst; cbn [s_cfg];
          destruct o; try contradiction; cbn [valid_resultb];
          try (destruct S1 as [Hv Hi1]); repeat split; try discriminate; try assumption; try apply S1; try apply Hi1.
      + inversion H; subst; cbn [s_cfg];
          destruct o; try contradiction; cbn [valid_resultb];
          try (destruct S1 as [Hv Hi1]); repeat split; try discriminate; try assumption; try apply S1; try apply Hi1.
    - inversion H; subst. repeat split; try discriminate; apply Hi.
  Qed.

  Theorem run_ok : forall prog s, valid_prog prog -> Inv (s_cfg s) ->
    Forall (fun rs => fst rs <> RFail Panic /\ valid_resultb (fst rs) = true) (snd (run eval s prog)).
  Proof.
    induction prog as [|t rest IH]; intros s Vp Hi; cbn [run]; [constructor|].
    unfold valid_prog in Vp. cbn [valid_progb forallb] in Vp. apply andb_true_iff in Vp. destruct Vp as [Vt Vr].
    destruct (exec_stmt eval s t) as [s' r] eqn:E.
    destruct (exec_stmt_ok _ _ _ _ Vt E Hi) as (Hi' & Hr & Hvr).
    destruct r.
    - specialize (IH s' Vr Hi'). destruct (run eval s' rest) as [s'' rs]. cbn [snd] in *.
      constructor; [split; [discriminate|exact Hvr]|exact IH].
    - cbn [snd]. constructor; [split; [exact Hr|reflexivity]|constructor].
    - cbn [snd]. constructor; [split; [discriminate|reflexivity]|constructor].
    - apply IH; assumption.
  Qed.

  Lemma init_session_Inv : forall inputs, valid_inputs inputs -> Inv (s_cfg (init_session inputs)).
  Proof.
    intros inputs Hv. split; [reflexivity|]. cbn [init_session s_cfg snd].
    apply vfr_cons. split; [|reflexivity]. apply vf_cons. split; [exact Hv|reflexivity].
  Qed.
End ValidEval.
