(* DisplayNumExec.v — C20: the executable powi model (compiler-builtins __powidf2 over SFmul /
   SFdiv) satisfies the powi hypotheses of the accuracy theorems:
     powi_exec 10 j = 10^j exactly for 0 <= j <= 22,
     powi_exec 10 j = rnd64 (10^j) and >= 10^j for -4 <= j <= -1.
   (powi_exec itself is compared with Rust's f64::powi by the ORACLE-powi stream.) *)
From Coq Require Import ZArith Reals Bool List Lia Lra QArith Qreals Qabs Qpower Floats.SpecFloat.
From Flocq Require Import Core.Core IEEE754.BinarySingleNaN.
Require Import Blots.Num Blots.Outcome Blots.DisplayNum.
Require Import Blots.proofs.DisplayNumGroup Blots.proofs.DisplayNumSpec Blots.proofs.DisplayNumText
               Blots.proofs.DisplayNumInt Blots.proofs.DisplayNum Blots.proofs.DisplayNumAcc
               Blots.proofs.DisplayNumFloat Blots.proofs.DisplayNumFinite Blots.proofs.DisplayNumAccStd
               Blots.proofs.DisplayNumAccAll.
Import ListNotations.
Open Scope R_scope.

(* value of a double through the rationals (so that concrete facts are decided by vm_compute) *)
Lemma RV_of_Q : forall x (z : Z), Qeq_bool (num_to_Q x) (inject_Z z) = true -> RV x = IZR z.
Proof.
  intros x z H. apply Qeq_bool_eq in H. apply Qeq_eqR in H.
  now rewrite Q2R_num, Q2R_inject_Z in H.
Qed.

Definition pos_pow_ok (j : Z) : bool :=
  match powi_exec c_ten j with
  | S754_finite _ _ _ => valid_binary 53 1024 (powi_exec c_ten j) &&
                         Qeq_bool (num_to_Q (powi_exec c_ten j)) (inject_Z (10 ^ j))
  | _ => false
  end.

Lemma pos_pow_all :
  forallb pos_pow_ok [0;1;2;3;4;5;6;7;8;9;10;11;12;13;14;15;16;17;18;19;20;21;22]%Z = true.
Proof. vm_compute. reflexivity. Qed.

Theorem powi_exec_exact : forall j, (0 <= j <= 22)%Z ->
  valid (powi_exec c_ten j) /\ (exists s m e, powi_exec c_ten j = S754_finite s m e) /\
  RV (powi_exec c_ten j) = p10 j.
Proof.
  intros j Hj.
  assert (In j [0;1;2;3;4;5;6;7;8;9;10;11;12;13;14;15;16;17;18;19;20;21;22]%Z).
  { cbn [In].
    assert (C : (j = 0 \/ j = 1 \/ j = 2 \/ j = 3 \/ j = 4 \/ j = 5 \/ j = 6 \/ j = 7 \/ j = 8 \/ j = 9 \/
                 j = 10 \/ j = 11 \/ j = 12 \/ j = 13 \/ j = 14 \/ j = 15 \/ j = 16 \/ j = 17 \/ j = 18 \/
                 j = 19 \/ j = 20 \/ j = 21 \/ j = 22)%Z) by lia.
    repeat (destruct C as [C|C]; [subst; tauto|]). subst; tauto. }
  pose proof (proj1 (forallb_forall _ _) pos_pow_all j H) as P. unfold pos_pow_ok in P.
  destruct (powi_exec c_ten j) as [| | |s m e] eqn:E; try discriminate P.
  apply andb_true_iff in P. destruct P as [V Q].
  repeat split.
  - exact V.
  - now exists s, m, e.
  - rewrite (RV_of_Q _ _ Q). now apply (IZR_Zpower radix10).
Qed.

(* negative exponents: 1 / 10^k, correctly rounded by SFdiv *)
Definition neg_pow_ok (k : Z) : bool :=
  valid_binary 53 1024 (powi_exec c_ten (- k)) &&
  match powi_exec c_ten (- k) with S754_finite _ _ _ => true | _ => false end &&
  Qle_bool (Qpower (10 # 1) (- k)) (num_to_Q (powi_exec c_ten (- k))).

Lemma neg_pow_all : forallb neg_pow_ok [1;2;3;4]%Z = true.
Proof. vm_compute. reflexivity. Qed.

Lemma powi_exec_neg_unfold : forall k, (0 < k)%Z ->
  powi_exec c_ten (- k) = ndiv c_one (powi_exec c_ten k).
Proof.
  intros k Hk. unfold powi_exec. rewrite Z.abs_opp.
  destruct (- k <? 0)%Z eqn:A; [|apply Z.ltb_ge in A; lia].
  destruct (k <? 0)%Z eqn:B; [apply Z.ltb_lt in B; lia|]. reflexivity.
Qed.

Lemma RV_c_one' : RV c_one = 1.
Proof.
  unfold RV, c_one. cbn [SF2R]. unfold F2R. cbn [Fnum Fexp cond_Zopp].
  change (bpow radix2 (-52)) with (/ 4503599627370496). lra.
Qed.

Theorem powi_exec_neg : forall j, (-4 <= j <= -1)%Z ->
  valid (powi_exec c_ten j) /\ (exists s m e, powi_exec c_ten j = S754_finite s m e) /\
  RV (powi_exec c_ten j) = rnd64 (p10 j) /\ p10 j <= RV (powi_exec c_ten j).
Proof.
  intros j Hj. set (k := (- j)%Z). assert (Hk : (1 <= k <= 4)%Z) by (unfold k; lia).
  replace j with (- k)%Z by (unfold k; lia).
  assert (In k [1;2;3;4]%Z).
  { cbn [In]. lia. }
  pose proof (proj1 (forallb_forall _ _) neg_pow_all k H) as P. unfold neg_pow_ok in P.
  apply andb_true_iff in P. destruct P as [P L]. apply andb_true_iff in P. destruct P as [V F].
  repeat split.
  - exact V.
  - destruct (powi_exec c_ten (- k)) as [| | |s m e]; try discriminate F. now exists s, m, e.
  - rewrite powi_exec_neg_unfold by lia.
    destruct (powi_exec_exact k ltac:(lia)) as (Vk & (s & m & e & Ek) & Rk).
    rewrite Ek in *.
    assert (B : Rabs (rnd64 (RV c_one / RV (S754_finite s m e))) < bpow radix2 1024).
    { rewrite RV_c_one', Rk.
      eapply Rle_lt_trans; [apply (rnd_abs_le_bpow _ 0); [lia|]|apply bpow_lt; lia].
      unfold Rdiv. rewrite Rmult_1_l, <- bpow_opp. rewrite Rabs_pos_eq by apply bpow_ge_0.
      change (bpow radix2 0) with (p10 0). apply bpow_le. lia. }
    destruct (ndiv_correct c_one s m e ltac:(reflexivity) ltac:(reflexivity) B) as (_ & _ & E).
    rewrite E, RV_c_one', Rk. unfold Rdiv. rewrite Rmult_1_l, <- bpow_opp. reflexivity.
  - apply Qle_bool_iff in L. apply Qle_Rle in L. now rewrite Q2R_p10, Q2R_num in L.
Qed.
