(* PegNumber.v — the `number` rule of the REGENERATED grammar (gen/Grammar.v, pest's optimized form), run by the
   pest interpreter Peg.v, accepts exactly the language of gen/NumGrammar.v (the PEG-combinator term C16's
   theorems are about, regenerated from grammar.pest by checks/c16.py), with the same remainder.
   NumText's combinators p_seq / p_alt / p_opt / p_not / p_class / p_lit are definitionally PegPure's
   m_seq / m_choice / m_opt / m_not / class_matcher / drop_prefix; p_star and p_ilit are related by lemmas. *)
From Coq Require Import String Ascii List NArith ZArith Bool Arith Lia.
Require Import Blots.Peg Blots.gen.Grammar Blots.proofs.PegGeneric Blots.proofs.PegPure Blots.proofs.PegIdent.
Require Blots.NumText Blots.gen.NumGrammar.
Import ListNotations.
Local Open Scope string_scope.

Module NT := Blots.NumText.
Module NG := Blots.gen.NumGrammar.

Lemma p_seq_is : NT.p_seq = m_seq. Proof. reflexivity. Qed.
Lemma p_alt_is : NT.p_alt = m_choice. Proof. reflexivity. Qed.
Lemma p_opt_is : NT.p_opt = m_opt. Proof. reflexivity. Qed.
Lemma p_not_is : NT.p_not = m_not. Proof. reflexivity. Qed.
Lemma p_lit_is : NT.p_lit = drop_prefix. Proof. reflexivity. Qed.
Lemma p_class_is : NT.p_class = class_matcher. Proof. reflexivity. Qed.

Lemma p_star_spec : forall h, progresses h -> forall t, m_star h t = NT.p_star h t.
Proof.
  intros h P t. unfold m_star, NT.p_star.
  assert (H : forall k s, String.length s <= k -> NT.p_star_f (S k) h s = Some (m_star_n k h s)).
  { induction k as [|k IH]; intros s L.
    - simpl. destruct (h s) eqn:E; [apply P in E; lia|reflexivity].
    - change (NT.p_star_f (S (S k)) h s) with (match h s with None => Some s | Some r => NT.p_star_f (S k) h r end).
      simpl m_star_n. destruct (h s) eqn:E; [|reflexivity]. apply IH. apply P in E. lia. }
  symmetry. apply H. lia.
Qed.

Lemma p_ilit_e : forall t, drop_prefix_ci "e" t = NT.p_ilit "e" t.
Proof.
  intro t. unfold NT.p_ilit. destruct t as [|b t]; [reflexivity|].
  simpl. destruct b as [[] [] [] [] [] [] [] []]; reflexivity.
Qed.

Section NumberRule.
  Let a := Atomic.
  Let Ha : a <> NonAtomic := atomic_not_nonatomic.

  Lemma pure_insens : forall m a0 x, pure_run grule G 1 m a0 (Insens x) (drop_prefix_ci x).
  Proof.
    intros m a0 x f s la Hf. destruct f as [|f]; [lia|]. rewrite run_S. cbv zeta.
    unfold match_insensitive, pure_out. destruct (drop_prefix_ci x (rest s)) eqn:E; [|reflexivity].
    apply drop_prefix_ci_sdrop in E. destruct E as [L E]. subst s0. do 2 f_equal.
    unfold slen. rewrite sdrop_length by assumption. lia.
  Qed.
  Lemma shrinks_ci : forall x, shrinks (drop_prefix_ci x).
  Proof.
    intros x t r E. apply drop_prefix_ci_sdrop in E. destruct E as [L E]. subst r.
    rewrite sdrop_length by assumption. lia.
  Qed.
  Lemma pe_ilit_e : forall m, pure_e m a (Insens "e") (NT.p_ilit "e").
  Proof. intro m. eapply pure_e_ext; [apply p_ilit_e|]. exists 1. apply pure_insens. Qed.
  Lemma shrinks_ilit_e : shrinks (NT.p_ilit "e").
  Proof. intros t r E. rewrite <- p_ilit_e in E. exact (shrinks_ci "e" _ _ E). Qed.

  Lemma progresses_str : forall c x, progresses (drop_prefix (String c x)).
  Proof.
    intros c x t r E. apply drop_prefix_sdrop in E. destruct E as [L E]. subst r.
    rewrite sdrop_length by assumption. simpl in *. lia.
  Qed.

  (* leaves with NumText's character classes *)
  Lemma pe_class_f : forall m lo hi (f : ascii -> bool), (forall c, in_range lo hi c = f c) ->
      pure_e m a (Range lo hi) (class_matcher f).
  Proof. intros m lo hi f E. eapply pure_e_ext; [|apply pe_range]. apply class_ext. exact E. Qed.
  Lemma digit_is : forall c, in_range "0" "9" c = NT.is_digit c.
  Proof. intro c. destruct c as [[] [] [] [] [] [] [] []]; reflexivity. Qed.
  Lemma lower_hex_is : forall c, in_range "a" "f" c = (Z.leb (NT.acode "a") (NT.acode c) && Z.leb (NT.acode c) (NT.acode "f")).
  Proof. intro c. destruct c as [[] [] [] [] [] [] [] []]; reflexivity. Qed.
  Lemma upper_hex_is : forall c, in_range "A" "F" c = (Z.leb (NT.acode "A") (NT.acode c) && Z.leb (NT.acode c) (NT.acode "F")).
  Proof. intro c. destruct c as [[] [] [] [] [] [] [] []]; reflexivity. Qed.

  Lemma pe_star : forall m x h, pure_e m a x h -> progresses h -> pure_e m a (Rep x) (NT.p_star h).
  Proof. intros m x h H P. eapply pure_e_ext; [apply (p_star_spec h P)|]. apply (pe_rep a Ha); assumption. Qed.
  Lemma shrinks_p_star : forall h, progresses h -> shrinks (NT.p_star h).
  Proof. intros h P t r E. rewrite <- (p_star_spec h P) in E. exact (shrinks_star h P _ _ E). Qed.

  Ltac prg :=
    first [ apply progresses_class
          | apply progresses_str
          | apply progresses_choice; prg
          | apply progresses_seq_l; [prg|shr] ]
  with shr :=
    first [ apply shrinks_p_star; prg
          | apply shrinks_ilit_e
          | apply shrinks_not
          | apply shrinks_opt; shr
          | apply shrinks_seq; shr
          | apply shrinks_choice; shr
          | apply progresses_shrinks; prg ].

  Ltac pe :=
    first [ apply pe_str
          | apply (pe_class_f _ _ _ _ digit_is)
          | apply (pe_class_f _ _ _ _ lower_hex_is)
          | apply (pe_class_f _ _ _ _ upper_hex_is)
          | apply pe_ilit_e
          | apply pe_choice; pe
          | apply (pe_seq a Ha); [pe|pe|shr|shr]
          | apply pe_opt; pe
          | apply pe_not; pe
          | apply pe_star; [pe|prg] ].

  Ltac norm :=
    unfold NT.p_plus, NT.ASCII_DIGIT, NT.p_range;
    rewrite ?p_seq_is, ?p_alt_is, ?p_opt_is, ?p_not_is, ?p_lit_is, ?p_class_is.

  Lemma pe_integer : forall m, pure_e m a (Ident PG_integer) NG.gen_integer.
  Proof.
    intro m. eapply pe_silent; [reflexivity|]. unfold NG.gen_integer. norm. pe.
  Qed.
  Lemma shrinks_integer : shrinks NG.gen_integer.
  Proof. unfold NG.gen_integer. norm. shr. Qed.
  Lemma progresses_integer : progresses NG.gen_integer.
  Proof.
    unfold NG.gen_integer. norm.
    (* sign? ~ digit ~ digit*: the optional sign may consume nothing, the first digit always consumes *)
    intros t r E. unfold m_seq at 1 in E. unfold m_opt in E.
    destruct (m_choice (drop_prefix "+") (drop_prefix "-") t) as [t1|] eqn:E0.
    - assert (String.length t1 <= String.length t).
      { revert E0. apply shrinks_choice; apply shrinks_str. }
      assert (String.length r < String.length t1).
      { revert E. apply progresses_seq_l; [apply progresses_class|apply shrinks_p_star; apply progresses_class]. }
      lia.
    - revert E. apply progresses_seq_l; [apply progresses_class|apply shrinks_p_star; apply progresses_class].
  Qed.

  Ltac pe2 :=
    first [ apply pe_integer
          | apply pe_str
          | apply (pe_class_f _ _ _ _ digit_is)
          | apply (pe_class_f _ _ _ _ lower_hex_is)
          | apply (pe_class_f _ _ _ _ upper_hex_is)
          | apply pe_ilit_e
          | apply pe_choice; pe2
          | apply (pe_seq a Ha); [pe2|pe2|shr2|shr2]
          | apply pe_opt; pe2
          | apply pe_not; pe2
          | apply pe_star; [pe2|prg2] ]
  with prg2 :=
    first [ apply progresses_integer
          | apply progresses_class
          | apply progresses_str
          | apply progresses_choice; prg2
          | apply progresses_seq_l; [prg2|shr2] ]
  with shr2 :=
    first [ apply shrinks_integer
          | apply shrinks_p_star; prg2
          | apply shrinks_ilit_e
          | apply shrinks_not
          | apply shrinks_opt; shr2
          | apply shrinks_seq; shr2
          | apply shrinks_choice; shr2
          | apply progresses_shrinks; prg2 ].

  Lemma pe_binary_digits : forall m, pure_e m a (Ident PG_binary_digits) NG.gen_binary_digits.
  Proof. intro m. eapply pe_silent; [reflexivity|]. unfold NG.gen_binary_digits. norm. pe2. Qed.
  Lemma shrinks_binary_digits : shrinks NG.gen_binary_digits.
  Proof. unfold NG.gen_binary_digits. norm. shr2. Qed.
  Lemma pe_hex_digits : forall m, pure_e m a (Ident PG_hex_digits) NG.gen_hex_digits.
  Proof. intro m. eapply pe_silent; [reflexivity|]. unfold NG.gen_hex_digits. norm. pe2. Qed.
  Lemma shrinks_hex_digits : shrinks NG.gen_hex_digits.
  Proof. unfold NG.gen_hex_digits. norm. shr2. Qed.

  Lemma pe_binary_number : forall m, pure_e m a (Ident PG_binary_number) NG.gen_binary_number.
  Proof.
    intro m. eapply pe_silent; [reflexivity|]. unfold NG.gen_binary_number. norm.
    apply (pe_seq a Ha); [pe2| |shr2|].
    - apply (pe_seq a Ha); [pe2|apply pe_binary_digits|shr2|apply shrinks_binary_digits].
    - apply shrinks_seq; [shr2|apply shrinks_binary_digits].
  Qed.
  Lemma pe_hex_number : forall m, pure_e m a (Ident PG_hex_number) NG.gen_hex_number.
  Proof.
    intro m. eapply pe_silent; [reflexivity|]. unfold NG.gen_hex_number. norm.
    apply (pe_seq a Ha); [pe2| |shr2|].
    - apply (pe_seq a Ha); [pe2|apply pe_hex_digits|shr2|apply shrinks_hex_digits].
    - apply shrinks_seq; [shr2|apply shrinks_hex_digits].
  Qed.
  Lemma pe_decimal_number : forall m, pure_e m a (Ident PG_decimal_number) NG.gen_decimal_number.
  Proof. intro m. eapply pe_silent; [reflexivity|]. unfold NG.gen_decimal_number. norm. pe2. Qed.

  Lemma pe_number_body : pure_e true a (rd_body (grule_def PG_number)) NG.gen_number.
  Proof.
    unfold NG.gen_number. norm.
    apply pe_choice; [apply pe_binary_number|]. apply pe_choice; [apply pe_hex_number|apply pe_decimal_number].
  Qed.
End NumberRule.

(* the statements pinned in Properties/C10.v *)
Theorem peg_number_call : exists n, forall fuel a la s,
    n + String.length (rest s) <= fuel ->
    call_with G (run G fuel) a la PG_number s
    = rule_wrap PG_number a la (fun s' => pure_out grule s' (NG.gen_number (rest s'))) s.
Proof.
  destruct pe_number_body as [n H]. exists n. intros fuel a la s Hf.
  unfold call_with. change (grule_def PG_number) with (mkdef MAtomic false (rd_body (grule_def PG_number))).
  cbn [g_def G blots_grammar rd_mod rd_trivia rd_body orb andb negb].
  unfold rule_wrap. destruct (emits a la).
  - rewrite H by (cbn [rest set_out]; exact Hf). reflexivity.
  - rewrite H by exact Hf. reflexivity.
Qed.

Theorem peg_number_language : exists n, forall text fuel,
    n + String.length text <= fuel ->
    parse G fuel PG_number text =
    match NG.gen_number text with
    | Some r => Ok (mkst (slen text - slen r) r stack_new [Node PG_number 0 (slen text - slen r) []])
    | None => Fail (init text)
    end.
Proof.
  destruct peg_number_call as [n H]. exists n. intros text fuel Hf.
  unfold parse. rewrite H by exact Hf. unfold rule_wrap. cbn [emits negb andb init rest set_out].
  destruct (NG.gen_number text); reflexivity.
Qed.
