(* C02Twice.v — EVAL-TWICE (C02, "no effect on values"), from the simulation of C02Sim.v.

   Evaluating an assignment-free expression e from c = (st, fr) gives (r1, (st1, fr)); evaluating it again
   from (st1, fr) gives the SAME outcome up to the indices of the function cells the evaluation itself
   allocated: cells that existed before (index < |st|) keep their index, the k-th cell allocated by the
   second run sits |st1| - |st| places after the k-th cell allocated by the first.

   The general theorems below carry the hypothesis [old_names_kept st st1] ("the first run named no cell that
   existed before").  On the code as pinned before repo fix F52 it was needed: an assignment named ANY unnamed
   lambda it was handed, `y = fs[0]` inside a do-block named an old cell, and a named function is bound to its
   own name when called, which shadows a name its body resolves dynamically (known/C02.json F52: the same
   expression succeeded once and failed the second time, in the model and on the real interpreter).  With the
   repaired rule (Env.name_if_created) it is a theorem (C02Keep.v: evaluation never writes to an existing cell)
   and the instance theorems at the end of this file ([.._uncond]) no longer mention it.
   Well-formedness [frames_lt]: the scope chain mentions only cells that exist (no dangling index), an
   invariant of every run from the empty store. *)
From Coq Require Import String Ascii List ZArith Bool Lia.
Require Import Blots.Num Blots.gen.Builtins Blots.Ast Blots.Value Blots.Outcome Blots.Binop
               Blots.Env Blots.Eval Blots.BuiltinsHof Blots.Program Blots.EvalInst Blots.EvalFull
               Blots.proofs.ExprInd Blots.proofs.ValueInd Blots.proofs.Frames Blots.proofs.StoreMono
               Blots.proofs.Scoping Blots.proofs.InstMono
               Blots.proofs.C02Ren Blots.proofs.C02Sim Blots.proofs.C02Ops Blots.proofs.C02Keep.
Import ListNotations.
Open Scope string_scope.
Open Scope list_scope.
Open Scope nat_scope.

(* ---- the renaming of the second run ---- *)
Definition shift (n dlt id : nat) : nat := if Nat.ltb id n then id else id + dlt.
Lemma shift_inj : forall n dlt a b, shift n dlt a = shift n dlt b -> a = b.
Proof.
  intros n dlt a b. unfold shift.
  destruct (Nat.ltb_spec a n), (Nat.ltb_spec b n); lia.
Qed.

(* every cell index mentioned by a value (deeply, captured scopes included) is below n *)
Fixpoint ids_lt (n : nat) (v : value) : bool :=
  match v with
  | VList l => forallb (ids_lt n) l
  | VRec r => forallb (fun kv => match kv with (_, x) => ids_lt n x end) r
  | VLam id _ _ sc => Nat.ltb id n && forallb (fun kv => match kv with (_, x) => ids_lt n x end) sc
  | VSpread x => ids_lt n x
  | _ => true
  end.
Definition frame_lt (n : nat) (f : frame) : bool := forallb (fun kv => match kv with (_, x) => ids_lt n x end) f.
Definition frames_lt (n : nat) (fr : frames) : bool := forallb (fun kf => frame_lt n (snd kf)) fr.
(* a configuration whose scope chain mentions existing cells only *)
Definition cfg_wf (c : cfg) : bool := frames_lt (length (fst c)) (snd c).

Lemma map_fix : forall {A} (f : A -> A) l, Forall (fun x => f x = x) l -> map f l = l.
Proof. intros A f l H; induction H as [|x l Hx _ IH]; [reflexivity|]. cbn [map]. rewrite Hx, IH. reflexivity. Qed.

Lemma ren_shift_fix : forall n dlt v, ids_lt n v = true -> ren (shift n dlt) v = v.
Proof.
  intros n dlt. induction v as [x|x| |s|l IH|r IH|id ar bd sc IH|bi|x IH] using value_ind';
    intros H; cbn [ren ids_lt] in *; try reflexivity.
  - f_equal. apply map_fix. rewrite forallb_forall in H. rewrite Forall_forall in *.
    intros x Hx. apply IH; [exact Hx|apply H; exact Hx].
  - f_equal. apply map_fix. rewrite forallb_forall in H. rewrite Forall_forall in *.
    intros [k x] Hx. f_equal. apply (IH (k, x) Hx). apply (H (k, x) Hx).
  - apply andb_true_iff in H. destruct H as [Hid H]. apply Nat.ltb_lt in Hid.
    assert (E : shift n dlt id = id) by (unfold shift; apply Nat.ltb_lt in Hid; rewrite Hid; reflexivity).
    rewrite E. f_equal. apply map_fix. rewrite forallb_forall in H. rewrite Forall_forall in *.
    intros [k x] Hx. f_equal. apply (IH (k, x) Hx). apply (H (k, x) Hx).
  - f_equal. apply IH. exact H.
Qed.
Lemma renF_shift_fix : forall n dlt f, frame_lt n f = true -> renF (shift n dlt) f = f.
Proof.
  intros n dlt f H. unfold renF. apply map_fix. unfold frame_lt in H. rewrite forallb_forall in H.
  rewrite Forall_forall. intros [k x] Hx. f_equal. apply ren_shift_fix. apply (H (k, x) Hx).
Qed.
Lemma renFr_shift_fix : forall n dlt fr, frames_lt n fr = true -> renFr (shift n dlt) fr = fr.
Proof.
  intros n dlt fr H. unfold renFr. apply map_fix. unfold frames_lt in H. rewrite forallb_forall in H.
  rewrite Forall_forall. intros [k f] Hx. cbn [fst snd]. f_equal. apply renF_shift_fix. apply (H (k, f) Hx).
Qed.

(* ---- "the first run named no cell that existed before" ---- *)
Definition old_names_kept (st st1 : store) : Prop :=
  forall id, id < length st -> lam_name st1 id = lam_name st id.
Definition all_named (st : store) : Prop :=
  forall id, id < length st -> lam_name st id <> None.
Lemma all_named_kept : forall st st1, all_named st -> store_le st st1 -> old_names_kept st st1.
Proof.
  intros st st1 Ha [_ Hn] id Hid. specialize (Ha id Hid).
  destruct (lam_name st id) as [x|] eqn:E; [|congruence]. apply Hn. exact E.
Qed.
Lemma old_names_kept_nil : forall st1, old_names_kept [] st1.
Proof. intros st1 id Hid. cbn in Hid. lia. Qed.

Lemma sinv_shift : forall st st1,
  length st <= length st1 -> old_names_kept st st1 ->
  sinv (shift (length st) (length st1 - length st)) st st1.
Proof.
  intros st st1 Hlen Hk. split; [|split].
  - intros id. unfold shift. destruct (Nat.ltb_spec id (length st)) as [Hlt|Hge]; [apply Hk; exact Hlt|].
    unfold lam_name.
    assert (E1 : nth_error st id = None) by (apply nth_error_None; exact Hge).
    assert (E2 : nth_error st1 (id + (length st1 - length st)) = None) by (apply nth_error_None; lia).
    rewrite E1, E2. reflexivity.
  - intros id Hid. unfold shift. apply Nat.ltb_lt in Hid. rewrite Hid. apply Nat.ltb_lt in Hid. lia.
  - intros k. unfold shift. destruct (Nat.ltb_spec (length st + k) (length st)); lia.
Qed.

(* ---- equality up to cell indices ---- *)
Definition erase (v : value) : value := ren (fun _ => 0) v.
Lemma erase_ren : forall rho v, erase (ren rho v) = erase v.
Proof.
  intros rho. unfold erase.
  induction v as [x|x| |s|l IH|r IH|id ar bd sc IH|bi|x IH] using value_ind'; cbn [ren]; try reflexivity.
  - f_equal. rewrite map_map. apply map_ext_Forall. exact IH.
  - f_equal. rewrite map_map. apply map_ext_Forall. eapply Forall_impl; [|exact IH].
    intros [k x] Hx. cbn [snd] in Hx. rewrite Hx. reflexivity.
  - f_equal. rewrite map_map. apply map_ext_Forall. eapply Forall_impl; [|exact IH].
    intros [k x] Hx. cbn [snd] in Hx. rewrite Hx. reflexivity.
  - f_equal. exact IH.
Qed.
(* the two values are the same tree except for the indices of function cells *)
Definition same_up_to_cells (v1 v2 : value) : Prop := erase v1 = erase v2.
Definition osame (r1 r2 : outcome value) : Prop :=
  match r1, r2 with
  | Ok a, Ok b => same_up_to_cells a b
  | Err, Err | ErrDepth, ErrDepth | Panic, Panic | Unmodelled, Unmodelled => True
  | _, _ => False
  end.
Lemma osame_oren : forall rho r, osame r (oren rho r).
Proof. intros rho [v| | | |]; cbn; try exact I. unfold same_up_to_cells. symmetry. apply erase_ren. Qed.

(* Value::equals does not see cell indices *)
Lemma equals_ren2 : forall rho1 rho2 a b, equals (ren rho1 a) (ren rho2 b) = equals a b.
Proof.
  intros rho1 rho2.
  induction a as [x|x| |s|l IH|r IH|id ar bd sc IH|bi|x IH] using value_ind'; intros b;
    destruct b; try reflexivity.
  - cbn [ren equals]. revert l0. induction IH as [|x l Hx _ IHl]; intros [|y m]; try reflexivity.
    cbn [map]. rewrite Hx. destruct (equals x y); [apply IHl|reflexivity].
  - cbn [ren equals]. rewrite !map_length. f_equal.
    induction IH as [|[k x] r' Hx _ IHr]; [reflexivity|]. cbn [map snd] in *.
    fold (renF rho2 r0). rewrite rec_get_ren. destruct (rec_get r0 k) as [y|]; cbn [option_map]; [|reflexivity].
    rewrite Hx. destruct (equals x y); [exact IHr|reflexivity].
  - cbn [ren equals]. destruct x; destruct b; try reflexivity; apply IH.
Qed.
Lemma equals_erase : forall a b, equals (erase a) (erase b) = equals a b.
Proof. intros a b. apply equals_ren2. Qed.
Lemma same_equals : forall v1 v2, same_up_to_cells v1 v2 -> equals v1 v2 = equals v1 v1.
Proof. intros v1 v2 H. rewrite <- (equals_erase v1 v2), <- H. apply equals_erase. Qed.

(* ---- the operators and built-ins commute with every injective renaming ---- *)
Definition ops_commute (bi : callback -> binop -> value -> value -> store -> outcome value * store)
                       (bu : callback -> builtin -> list value -> store -> outcome value * store) : Prop :=
  forall rho, (forall a b : nat, rho a = rho b -> a = b) ->
    (forall cbA cbB, cb_eqv rho cbA cbB ->
       forall op l r, Mfun rho (ren rho) (bi cbA op l r) (bi cbB op (ren rho l) (ren rho r))) /\
    (forall cbA cbB, cb_eqv rho cbA cbB ->
       forall b args, Mfun rho (ren rho) (bu cbA b args) (bu cbB b (map (ren rho) args))).

Lemma ops_commute_inst : ops_commute binop_impl builtin_impl.
Proof.
  intros rho Hinj. split.
  - apply binop_impl_sim.
  - apply builtin_impl_sim.
Qed.

Section Twice.
  Variable release : bool.
  Variable bi : callback -> binop -> value -> value -> store -> outcome value * store.
  Variable bu : callback -> builtin -> list value -> store -> outcome value * store.
  Hypothesis Hops : ops_commute bi bu.
  Notation evalD := (evalD release bi bu).

  (* STORE-EXTENSION INVARIANCE in the form used below *)
  Theorem store_extension_invariance : forall rho, (forall a b : nat, rho a = rho b -> a = b) ->
    forall d e sA sB fr r sA' fr',
      sinv rho sA sB -> evalD d (sA, fr) e = (r, (sA', fr')) ->
      exists sB', evalD d (sB, renFr rho fr) e = (oren rho r, (sB', renFr rho fr')) /\ sinv rho sA' sB'.
  Proof.
    intros rho Hinj d e sA sB fr r sA' fr' Hs HA. destruct (Hops rho Hinj) as [Hbi Hbu].
    pose proof (evalD_sim rho Hinj release bi bu Hbi Hbu d e sA sB fr Hs) as (E1 & E2 & E3).
    rewrite HA in E1, E2, E3. cbn [fst snd] in E1, E2, E3.
    destruct (evalD d (sB, renFr rho fr) e) as [rB [sB' frB]]. cbn [fst snd] in *. subst.
    exists sB'. split; [reflexivity|assumption].
  Qed.

  (* EVAL-TWICE, exact form: the second outcome is the first one with the cells of the first run shifted *)
  Theorem eval_twice_shift : forall d e st fr r1 st1 fr1,
    no_assign e = true -> frames_lt (length st) fr = true ->
    evalD d (st, fr) e = (r1, (st1, fr1)) ->
    length st <= length st1 -> old_names_kept st st1 ->
    fr1 = fr /\
    exists st2, evalD d (st1, fr) e = (oren (shift (length st) (length st1 - length st)) r1, (st2, fr)) /\
                sinv (shift (length st) (length st1 - length st)) st1 st2.
  Proof.
    intros d e st fr r1 st1 fr1 Hna Hwf HA Hlen Hkept.
    assert (Hfr : fr1 = fr) by exact (evalD_pure_frames release bi bu d e (st, fr) r1 (st1, fr1) Hna HA).
    subst fr1. split; [reflexivity|].
    set (rho := shift (length st) (length st1 - length st)).
    destruct (store_extension_invariance rho (shift_inj _ _) d e st st1 fr r1 st1 fr
                (sinv_shift st st1 Hlen Hkept) HA) as (st2 & E & Hs).
    unfold rho in E. rewrite (renFr_shift_fix _ _ fr Hwf) in E. exists st2. split; assumption.
  Qed.

  Theorem eval_twice_same : forall d e c r1 c1 r2 c2,
    no_assign e = true -> cfg_wf c = true ->
    evalD d c e = (r1, c1) -> length (fst c) <= length (fst c1) -> old_names_kept (fst c) (fst c1) ->
    evalD d c1 e = (r2, c2) ->
    osame r1 r2 /\ snd c2 = snd c /\ snd c1 = snd c.
  Proof.
    intros d e [st fr] r1 [st1 fr1] r2 c2 Hna Hwf HA Hlen Hk HB. cbn [fst snd] in *.
    destruct (eval_twice_shift d e st fr r1 st1 fr1 Hna Hwf HA Hlen Hk) as (-> & st2 & E & _).
    rewrite E in HB. inversion HB; subst. split; [apply osame_oren|split; reflexivity].
  Qed.
End Twice.

(* ---- the evaluator of EvalInst.v ---- *)
Theorem eval_twice_inst : forall release d e c r1 c1 r2 c2,
  no_assign e = true -> cfg_wf c = true ->
  evalD release binop_impl builtin_impl d c e = (r1, c1) -> old_names_kept (fst c) (fst c1) ->
  evalD release binop_impl builtin_impl d c1 e = (r2, c2) ->
  osame r1 r2 /\ snd c2 = snd c /\ snd c1 = snd c.
Proof.
  intros release d e c r1 c1 r2 c2 Hna Hwf HA Hk HB.
  pose proof (evalD_store_le release binop_impl builtin_impl binop_impl_mono builtin_impl_mono d c e r1 c1 HA) as [Hlen _].
  exact (eval_twice_same release binop_impl builtin_impl ops_commute_inst d e c r1 c1 r2 c2 Hna Hwf HA Hlen Hk HB).
Qed.

Corollary eval_twice_inst_named : forall release d e c r1 c1 r2 c2,
  no_assign e = true -> cfg_wf c = true -> all_named (fst c) ->
  evalD release binop_impl builtin_impl d c e = (r1, c1) ->
  evalD release binop_impl builtin_impl d c1 e = (r2, c2) ->
  osame r1 r2 /\ snd c2 = snd c /\ snd c1 = snd c.
Proof.
  intros release d e c r1 c1 r2 c2 Hna Hwf Hall HA HB.
  pose proof (evalD_store_le release binop_impl builtin_impl binop_impl_mono builtin_impl_mono d c e r1 c1 HA) as Hle.
  eapply eval_twice_inst; eauto. apply all_named_kept; assumption.
Qed.

Corollary eval_twice_inst_equals : forall release d e c v1 c1 v2 c2,
  no_assign e = true -> cfg_wf c = true ->
  evalD release binop_impl builtin_impl d c e = (Ok v1, c1) -> old_names_kept (fst c) (fst c1) ->
  evalD release binop_impl builtin_impl d c1 e = (Ok v2, c2) ->
  equals v1 v2 = equals v1 v1.
Proof.
  intros release d e c v1 c1 v2 c2 Hna Hwf HA Hk HB.
  destruct (eval_twice_inst release d e c (Ok v1) c1 (Ok v2) c2 Hna Hwf HA Hk HB) as [Hs _].
  apply same_equals. exact Hs.
Qed.

(* ---- with the repaired naming rule the side condition is a theorem (C02Keep.v) ---- *)
Lemma store_keep_old_names : forall st st1, store_keep st st1 -> length st <= length st1 /\ old_names_kept st st1.
Proof. intros st st1 [L N]. split; [exact L|exact N]. Qed.

Theorem eval_twice_inst_uncond : forall release d e c r1 c1 r2 c2,
  no_assign e = true -> cfg_wf c = true ->
  evalD release binop_impl builtin_impl d c e = (r1, c1) ->
  evalD release binop_impl builtin_impl d c1 e = (r2, c2) ->
  osame r1 r2 /\ snd c2 = snd c /\ snd c1 = snd c.
Proof.
  intros release d e c r1 c1 r2 c2 Hna Hwf HA HB.
  destruct (store_keep_old_names _ _ (evalD_store_keep release d c e r1 c1 HA)) as [_ Hk].
  exact (eval_twice_inst release d e c r1 c1 r2 c2 Hna Hwf HA Hk HB).
Qed.

Theorem eval_twice_shift_uncond : forall release d e st fr r1 st1 fr1,
  no_assign e = true -> frames_lt (length st) fr = true ->
  evalD release binop_impl builtin_impl d (st, fr) e = (r1, (st1, fr1)) ->
  fr1 = fr /\
  exists st2, evalD release binop_impl builtin_impl d (st1, fr) e =
                (oren (shift (length st) (length st1 - length st)) r1, (st2, fr)) /\
              sinv (shift (length st) (length st1 - length st)) st1 st2.
Proof.
  intros release d e st fr r1 st1 fr1 Hna Hwf HA.
  destruct (store_keep_old_names _ _ (evalD_store_keep release d (st, fr) e r1 (st1, fr1) HA)) as [Hlen Hk].
  exact (eval_twice_shift release binop_impl builtin_impl ops_commute_inst d e st fr r1 st1 fr1 Hna Hwf HA Hlen Hk).
Qed.

Corollary eval_twice_equals_uncond : forall release d e c v1 c1 v2 c2,
  no_assign e = true -> cfg_wf c = true ->
  evalD release binop_impl builtin_impl d c e = (Ok v1, c1) ->
  evalD release binop_impl builtin_impl d c1 e = (Ok v2, c2) ->
  equals v1 v2 = equals v1 v1.
Proof.
  intros release d e c v1 c1 v2 c2 Hna Hwf HA HB.
  destruct (eval_twice_inst_uncond release d e c (Ok v1) c1 (Ok v2) c2 Hna Hwf HA HB) as [Hs _].
  apply same_equals. exact Hs.
Qed.

(* for the FULL built-in dispatcher the naming side condition is discharged as well; what remains a
   hypothesis there is [ops_commute binop_impl builtin_full] (kept as a Prop in Properties/C02.v) *)
Theorem eval_twice_full_dispatcher : ops_commute binop_impl builtin_full ->
  forall release d e c r1 c1 r2 c2,
  no_assign e = true -> cfg_wf c = true ->
  evalD release binop_impl builtin_full d c e = (r1, c1) ->
  evalD release binop_impl builtin_full d c1 e = (r2, c2) ->
  osame r1 r2 /\ snd c2 = snd c /\ snd c1 = snd c.
Proof.
  intros Hops release d e c r1 c1 r2 c2 Hna Hwf HA HB.
  destruct (store_keep_old_names _ _ (evalD_store_keep_full release d c e r1 c1 HA)) as [Hlen Hk].
  exact (eval_twice_same release binop_impl builtin_full Hops d e c r1 c1 r2 c2 Hna Hwf HA Hlen Hk HB).
Qed.
