(* PegLayout.v — implicit whitespace, for EVERY grammar whose WHITESPACE rule is a silent ordered choice of
   single characters and which has no COMMENT rule (the blots grammar: WHITESPACE = _{ " " | "\t" }):
   - [skip_spec]     : in a non-atomic context `skip` strips exactly the leading blanks;
   - [skip_absorbs]  : skip over (blanks ++ t) at offset p ends in the same state as skip over t at
                       offset p + |blanks|;
   - [seq_layout]    : for a non-atomic sequence `x ~ y`, inserting additional blanks where skip runs
                       (between the two tokens: right after what x consumed) changes nothing but positions:
                       x's pairs are identical, y's result is the one it had, moved by |blanks|
                       (PegShift.run_shift), failure/Panic/OutOfFuel are preserved. *)
From Coq Require Import String Ascii List NArith Bool Arith Lia ZifyBool ZifyNat ZifyN.
Require Import Blots.Peg Blots.proofs.PegGeneric Blots.proofs.PegPure Blots.proofs.PegShift.
Import ListNotations.
Local Open Scope string_scope.

Fixpoint char_choice {R : Type} (c : ascii) (cs : list ascii) : expr R :=
  match cs with
  | [] => Str (String c "")
  | c' :: cs' => Choice (Str (String c "")) (char_choice c' cs')
  end.
Definition is_ws (c : ascii) (cs : list ascii) (ch : ascii) : bool := existsb (Ascii.eqb ch) (c :: cs).
Fixpoint strip (f : ascii -> bool) (t : string) : string :=
  match t with
  | String ch t' => if f ch then strip f t' else t
  | EmptyString => EmptyString
  end.
Fixpoint all_in (f : ascii -> bool) (t : string) : bool :=
  match t with String ch t' => f ch && all_in f t' | EmptyString => true end.

Section Layout.
  Variable R : Type.
  Variable G : grammar R.
  Variable w : R.
  Variable c0 : ascii.
  Variable cs : list ascii.
  Hypothesis Hws : g_ws G = Some w.
  Hypothesis Hcm : g_comment G = None.
  Hypothesis Hdef : g_def G w = mkdef MSilent true (char_choice c0 cs).
  Notation st := (st R).
  Notation res := (res R).
  Notation ws := (is_ws c0 cs).

  Lemma pure_run_ext : forall n m a e h h', (forall t, h t = h' t) ->
      pure_run R G n m a e h -> pure_run R G n m a e h'.
  Proof. intros n m a e h h' E H f s la Hf. rewrite <- E. apply H. exact Hf. Qed.

  Lemma str1_class' : forall c t, drop_prefix (String c "") t = class_matcher (Ascii.eqb c) t.
  Proof. intros c t. unfold class_matcher. destruct t; simpl; [reflexivity|]. destruct (Ascii.eqb c a); reflexivity. Qed.

  Lemma pure_char_choice : forall m a l c,
      pure_run R G (S (List.length l)) m a (char_choice c l) (class_matcher (is_ws c l)).
  Proof.
    intros m a. induction l as [|c' l IH]; intro c.
    - eapply pure_run_ext; [|apply pure_str]. intro t. rewrite str1_class'. unfold class_matcher, is_ws. simpl.
      destruct t; [reflexivity|]. rewrite (Ascii.eqb_sym a0 c), orb_false_r. reflexivity.
    - simpl char_choice. eapply pure_run_ext; [|eapply pure_run_weaken; [|eapply pure_choice; [apply pure_str|apply IH]]].
      + intro t. unfold m_choice. rewrite str1_class'. unfold class_matcher, is_ws. destruct t; [reflexivity|].
        simpl. rewrite (Ascii.eqb_sym a0 c). destruct (Ascii.eqb c a0); reflexivity.
      + simpl. lia.
  Qed.

  (* calling WHITESPACE: one blank, or failure *)
  Lemma ws_call : forall f a la (s : st), S (List.length cs) + String.length (rest s) <= f ->
      call_with G (run G f) a la w s = pure_out R s (class_matcher ws (rest s)).
  Proof.
    intros f a la s Hf. unfold call_with. rewrite Hdef. simpl.
    apply (pure_char_choice true Atomic cs c0). exact Hf.
  Qed.

  Lemma strip_n : forall c t k, String.length t <= k -> m_star_n k (class_matcher c) t = strip c t.
  Proof.
    intros c. induction t as [|ch t IH]; intros k L.
    - destruct k; reflexivity.
    - destruct k as [|k]; [simpl in L; lia|]. simpl. destruct (c ch); [|reflexivity]. apply IH. simpl in L. lia.
  Qed.
  Lemma strip_length : forall c t, String.length (strip c t) <= String.length t.
  Proof. induction t; simpl; [lia|]. destruct (c a); simpl; lia. Qed.
  Lemma strip_app : forall c b t, all_in c b = true -> strip c (b ++ t) = strip c t.
  Proof.
    induction b; intros t H; simpl in *; [reflexivity|].
    apply andb_true_iff in H. destruct H as [H1 H2]. rewrite H1. apply IHb. exact H2.
  Qed.

  (* generate_skip in a non-atomic context strips the leading blanks, nothing else *)
  Theorem skip_spec : forall f n la (s : st),
      S (List.length cs) + String.length (rest s) <= f -> String.length (rest s) < n ->
      skip_with G n (call_with G (run G f)) NonAtomic la s
      = Ok (set_pos s (pos s + (slen (rest s) - slen (strip ws (rest s)))) (strip ws (rest s))).
  Proof.
    intros f n la s Hf Hn. unfold skip_with. rewrite Hws, Hcm.
    rewrite (repeat_pure R _ (class_matcher ws) (progresses_class ws) (String.length (rest s)) n s);
      [|lia|exact Hn|].
    - simpl. rewrite strip_n by lia. reflexivity.
    - intros s' L. apply ws_call. lia.
  Qed.

  Theorem skip_absorbs : forall f n la p b t k o,
      S (List.length cs) + String.length (b ++ t) <= f -> String.length (b ++ t) < n ->
      all_in ws b = true ->
      skip_with G n (call_with G (run G f)) NonAtomic la (mkst p (b ++ t) k o)
      = skip_with G n (call_with G (run G f)) NonAtomic la (mkst (p + slen b) t k o).
  Proof.
    intros f n la p b t k o Hf Hn Hb.
    assert (Lapp : String.length (b ++ t) = String.length b + String.length t).
    { clear. induction b; simpl; [reflexivity|]. rewrite IHb. reflexivity. }
    rewrite !skip_spec; cbn [rest pos]; try lia.
    rewrite strip_app by exact Hb. unfold set_pos. cbn [pos rest stk out]. do 2 f_equal.
    pose proof (strip_length ws t). unfold slen. rewrite Lapp. lia.
  Qed.

  (* ---------------------------------------------------------------- x ~ y with extra blanks at the junction *)
  Definition layout_equiv (dlt : N) (frame : list (tree R)) (s sb : st) (r rb : res) : Prop :=
    match r, rb with
    | Ok s3, Ok s3b => rel R dlt frame frame s3 s3b
    | Fail s3, Fail s3b =>
        pos s3 = pos s /\ rest s3 = rest s /\ out s3 = out s /\
        pos s3b = pos sb /\ rest s3b = rest sb /\ out s3b = out sb /\ stk s3b = stk s3
    | Panic, Panic => True
    | OutOfFuel, OutOfFuel => True
    | _, _ => False
    end.

  Theorem seq_layout : forall f la x y (s sb s1 : st) b,
      (* x on the original text, and on the text with the blanks b inserted right after what x consumed:
         same end offset, same stack, same pairs; b stands in front of the rest *)
      run G f false NonAtomic la x s = Ok s1 ->
      run G f false NonAtomic la x sb = Ok (mkst (pos s1) (b ++ rest s1) (stk s1) (out s1)) ->
      all_in ws b = true -> (0 < pos s1)%N ->
      S (List.length cs) + String.length (b ++ rest s1) < f ->
      layout_equiv (slen b) (out s1) s sb
                   (run G (S f) false NonAtomic la (Seq x y) s)
                   (run G (S f) false NonAtomic la (Seq x y) sb).
  Proof.
    intros f la x y s sb s1 b Hx Hxb Hb Hp Hf.
    assert (Lapp : String.length (b ++ rest s1) = String.length b + String.length (rest s1)).
    { clear. induction b; simpl; [reflexivity|]. rewrite IHb. reflexivity. }
    rewrite !run_S. cbv zeta. rewrite Hx, Hxb. cbn [bind].
    rewrite (skip_absorbs f f la (pos s1) b (rest s1) (stk s1) (out s1)) by (try exact Hb; lia).
    replace s1 with (mkst (pos s1) (rest s1) (stk s1) (out s1)) at 1 by (destruct s1; reflexivity).
    rewrite !skip_spec by (cbn [rest]; lia). unfold set_pos. cbn [bind pos rest stk out].
    set (t' := strip ws (rest s1)).
    set (k := (slen (rest s1) - slen t')%N).
    set (s2 := mkst (pos s1 + k) t' (stk s1) (out s1)).
    set (s2b := mkst (pos s1 + slen b + k) t' (stk s1) (out s1)).
    assert (Hrel : rel R (slen b) (out s1) (out s1) s2 s2b).
    { unfold rel, s2, s2b. simpl. repeat split; [lia|]. exists []. auto. }
    pose proof (run_shift R G (slen b) f false NonAtomic la y (out s1) (out s1) s2 s2b Hrel) as HS.
    assert (0 < pos s2)%N by (unfold s2; simpl; lia). specialize (HS H).
    pose proof (run_good R G f false NonAtomic la y s2) as G2.
    pose proof (run_good R G f false NonAtomic la y s2b) as G2b.
    destruct (run G f false NonAtomic la y s2) eqn:E2, (run G f false NonAtomic la y s2b) eqn:E2b;
      simpl in HS; try contradiction; simpl; auto.
    destruct HS as (_ & _ & K & _). repeat split; try reflexivity. exact K.
  Qed.
  (* the hypothesis on x discharged for a literal token: "w" ~ y with additional blanks after w *)
  Lemma drop_prefix_app : forall x t, drop_prefix x (x ++ t) = Some t.
  Proof. induction x; intro t; simpl; [reflexivity|]. rewrite Ascii.eqb_refl. apply IHx. Qed.

  Theorem seq_layout_literal : forall f la lit y p t b k o,
      all_in ws b = true -> (0 < p + slen lit)%N ->
      S (List.length cs) + String.length (b ++ t) < f ->
      layout_equiv (slen b) o (mkst p (lit ++ t) k o) (mkst p (lit ++ b ++ t) k o)
                   (run G (S f) false NonAtomic la (Seq (Str lit) y) (mkst p (lit ++ t) k o))
                   (run G (S f) false NonAtomic la (Seq (Str lit) y) (mkst p (lit ++ b ++ t) k o)).
  Proof.
    intros f la lit y p t b k o Hb Hp Hf.
    destruct f as [|f]; [lia|].
    apply (seq_layout (S f) la (Str lit) y (mkst p (lit ++ t) k o) (mkst p (lit ++ b ++ t) k o)
                      (mkst (p + slen lit) t k o) b).
    - rewrite run_S. cbv zeta. unfold match_string. cbn [rest]. rewrite drop_prefix_app. reflexivity.
    - rewrite run_S. cbv zeta. unfold match_string. cbn [rest]. rewrite drop_prefix_app. reflexivity.
    - exact Hb.
    - exact Hp.
    - cbn [rest]. exact Hf.
  Qed.
End Layout.
