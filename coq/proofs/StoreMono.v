(* StoreMono.v — the lambda-name store only grows: new cells are appended, and a cell that has
   a name keeps it (write-once).  Together with Frames.v this is "values are immutable":
   nothing that evaluation can do changes what an existing value is or how it behaves. *)
From Coq Require Import String Ascii List ZArith Bool Lia.
Require Import Blots.Num Blots.gen.Builtins Blots.Ast Blots.Value Blots.Outcome Blots.Binop
               Blots.Env Blots.Eval Blots.BuiltinsHof Blots.proofs.ExprInd.
Import ListNotations.
Open Scope string_scope.
Open Scope list_scope.
Open Scope nat_scope.

Definition store_le (st st' : store) : Prop :=
  Datatypes.length st <= Datatypes.length st' /\
  forall id n, lam_name st id = Some n -> lam_name st' id = Some n.

Lemma store_le_refl : forall st, store_le st st.
Proof. split; auto. Qed.
Lemma store_le_trans : forall a b c, store_le a b -> store_le b c -> store_le a c.
Proof. intros a b c [L1 N1] [L2 N2]; split; [lia|auto]. Qed.

Lemma nth_error_set_nth_same : forall {A} (l : list A) n a,
  n < Datatypes.length l -> nth_error (set_nth l n a) n = Some a.
Proof.
  induction l as [|x l IH]; intros [|n] a Hn; cbn in *; try lia; auto. apply IH; lia.
Qed.
Lemma nth_error_set_nth_other : forall {A} (l : list A) n m a,
  n <> m -> nth_error (set_nth l n a) m = nth_error l m.
Proof.
  induction l as [|x l IH]; intros [|n] [|m] a Hne; cbn; auto; try congruence.
Qed.
Lemma length_set_nth : forall {A} (l : list A) n a,
  Datatypes.length (set_nth l n a) = Datatypes.length l.
Proof. induction l as [|x l IH]; intros [|n] a; cbn; auto. Qed.

Lemma name_if_lambda_le : forall st v x, store_le st (name_if_lambda st v x).
Proof.
  intros st v x. destruct v; try apply store_le_refl. cbn [name_if_lambda].
  destruct (lam_name st id) eqn:E; [apply store_le_refl|].
  split; [rewrite length_set_nth; lia|].
  intros id' n Hn. unfold lam_name in *.
  destruct (Nat.eq_dec id id') as [->|Hne].
  - rewrite Hn in E. discriminate.
  - rewrite nth_error_set_nth_other; auto.
Qed.

Lemma name_if_created_le : forall n0 st v x, store_le st (name_if_created n0 st v x).
Proof.
  intros n0 st v x. destruct v; try apply store_le_refl. cbn [name_if_created].
  destruct (Nat.leb n0 id); [apply name_if_lambda_le|apply store_le_refl].
Qed.

Lemma fresh_lambda_le : forall st args body scope v st',
  fresh_lambda st args body scope = (v, st') -> store_le st st'.
Proof.
  intros st args body scope v st' H. unfold fresh_lambda in H. inversion H; subst.
  split; [rewrite app_length; cbn; lia|].
  intros id n Hn. unfold lam_name in *.
  destruct (nth_error st id) eqn:E; [|discriminate].
  rewrite nth_error_app1; [rewrite E; auto|]. apply nth_error_Some. congruence.
Qed.

(* ---- a callback / implementation "only grows the store" ---- *)
Definition cb_mono (cb : callback) : Prop :=
  forall this f args st r st', cb this f args st = (r, st') -> store_le st st'.

(* generic: eval_binop moves the state only through [call] *)
Section BinopRel.
  Variable St : Type.
  Variable R : St -> St -> Prop.
  Hypothesis R_refl : forall s, R s s.
  Hypothesis R_trans : forall a b c, R a b -> R b c -> R a c.
  Variable call : value -> value -> list value -> St -> outcome value * St.
  Hypothesis call_R : forall this f args st r st', call this f args st = (r, st') -> R st st'.
  Variable fa2 : value -> bool.
  Variable powf : num -> num -> num.

  Definition MR {A} (m : M St A) : Prop := forall st r st', m st = (r, st') -> R st st'.

  Lemma lift_R : forall A (o : outcome A), MR (lift St o).
  Proof. intros A o st r st' H. inversion H; subst; auto. Qed.
  Lemma bindM_R : forall A B (m : M St A) (f : A -> M St B),
    MR m -> (forall a, MR (f a)) -> MR (bindM St m f).
  Proof.
    intros A B m f Hm Hf st r st' H. unfold bindM in H.
    destruct (m st) as [o st1] eqn:E. apply Hm in E.
    destruct o; try (inversion H; subst; exact E).
    apply Hf in H. eauto.
  Qed.
  Lemma for_each_R : forall B (idxs : list nat) (body : nat -> M St B),
    (forall i, MR (body i)) -> MR (for_each St idxs body).
  Proof.
    intros B idxs body Hb; induction idxs as [|i r IH]; cbn [for_each].
    - apply lift_R.
    - apply bindM_R; [apply Hb|]. intros y. apply bindM_R; [exact IH|]. intros ys. apply lift_R.
  Qed.
  Lemma call_fn_R : forall f args, MR (call_fn St call f args).
  Proof. intros f args st r st' H. unfold call_fn in H. eauto. Qed.

  Ltac mr :=
    repeat first
      [ apply lift_R | apply call_fn_R
      | apply bindM_R; [|intros ?] | apply for_each_R; intros ?
      | match goal with |- MR (if ?b then _ else _) => destruct b end
      | match goal with |- MR (match ?x with _ => _ end) => destruct x end ].

  Lemma arm_list_list_R : forall op l r, MR (arm_list_list St call powf op l r).
  Proof. intros op l r. unfold arm_list_list. destruct (negb _); [apply lift_R|]. destruct op; mr. Qed.
  Lemma arm_list_scalar_R : forall op b l s, MR (arm_list_scalar St call fa2 powf op b l s).
  Proof. intros op b l s. unfold arm_list_scalar. destruct op; mr. Qed.
  Lemma arm_scalar_R : forall op l r, MR (arm_scalar St call powf op l r).
  Proof. intros op l r. unfold arm_scalar. destruct op; mr. Qed.

  Theorem eval_binop_R : forall op l r st res st',
    eval_binop St call fa2 powf op l r st = (res, st') -> R st st'.
  Proof.
    intros op l r st res st' H. unfold eval_binop in H.
    destruct op; try (inversion H; subst; apply R_refl);
      (destruct (is_list r && binop_eqb _ Into); [inversion H; subst; apply R_refl|]);
      destruct l; destruct r;
      first [ eapply arm_list_list_R; eassumption
            | eapply arm_list_scalar_R; eassumption
            | eapply arm_scalar_R; eassumption ].
  Qed.
End BinopRel.

(* ---- the HOF built-ins move the store only through [call] ---- *)
Section HofMono.
  Variable call : callback.
  Hypothesis call_mono : cb_mono call.

  Lemma map_loop_mono : forall f two l i st r st',
    map_loop call f two l i st = (r, st') -> store_le st st'.
  Proof.
    intros f two l; induction l as [|x l IH]; intros i st r st' H; cbn [map_loop] in H.
    - inversion H; subst; apply store_le_refl.
    - destruct (call f f (cb_args two x i) st) as [o st1] eqn:E. apply call_mono in E.
      destruct o; try (inversion H; subst; exact E).
      destruct (map_loop call f two l (S i) st1) as [o2 st2] eqn:E2. apply IH in E2.
      assert (store_le st st2) by (eapply store_le_trans; eauto).
      destruct o2; inversion H; subst; assumption.
  Qed.
  Lemma filter_loop_mono : forall f two l i st r st',
    filter_loop call f two l i st = (r, st') -> store_le st st'.
  Proof.
    intros f two l; induction l as [|x l IH]; intros i st r st' H; cbn [filter_loop] in H.
    - inversion H; subst; apply store_le_refl.
    - destruct (call f f (cb_args two x i) st) as [o st1] eqn:E. apply call_mono in E.
      destruct o; try (inversion H; subst; exact E).
      destruct (as_bool a); try (inversion H; subst; exact E).
      destruct (filter_loop call f two l (S i) st1) as [o2 st2] eqn:E2. apply IH in E2.
      assert (store_le st st2) by (eapply store_le_trans; eauto).
      destruct o2; inversion H; subst; assumption.
  Qed.
  Lemma reduce_loop_mono : forall f three l i acc st r st',
    reduce_loop call f three l i acc st = (r, st') -> store_le st st'.
  Proof.
    intros f three l; induction l as [|x l IH]; intros i acc st r st' H; cbn [reduce_loop] in H.
    - inversion H; subst; apply store_le_refl.
    - destruct (call f f _ st) as [o st1] eqn:E. apply call_mono in E.
      destruct o; try (inversion H; subst; exact E).
      apply IH in H. eapply store_le_trans; eauto.
  Qed.
  Lemma every_loop_mono : forall f two l i st r st',
    every_loop call f two l i st = (r, st') -> store_le st st'.
  Proof.
    intros f two l; induction l as [|x l IH]; intros i st r st' H; cbn [every_loop] in H.
    - inversion H; subst; apply store_le_refl.
    - destruct (call f f (cb_args two x i) st) as [o st1] eqn:E. apply call_mono in E.
      destruct o; try (inversion H; subst; exact E).
      destruct (as_bool a) as [[|]| | | |]; try (inversion H; subst; exact E).
      apply IH in H. eapply store_le_trans; eauto.
  Qed.
  Lemma some_loop_mono : forall f two l i st r st',
    some_loop call f two l i st = (r, st') -> store_le st st'.
  Proof.
    intros f two l; induction l as [|x l IH]; intros i st r st' H; cbn [some_loop] in H.
    - inversion H; subst; apply store_le_refl.
    - destruct (call f f (cb_args two x i) st) as [o st1] eqn:E. apply call_mono in E.
      destruct o; try (inversion H; subst; exact E).
      destruct (as_bool a) as [[|]| | | |]; try (inversion H; subst; exact E).
      apply IH in H. eapply store_le_trans; eauto.
  Qed.
End HofMono.

(* ---- the evaluator ---- *)
Definition binop_mono (bi : callback -> binop -> value -> value -> store -> outcome value * store) :=
  forall cb, cb_mono cb -> forall op l r st res st', bi cb op l r st = (res, st') -> store_le st st'.
Definition builtin_mono (bu : callback -> builtin -> list value -> store -> outcome value * store) :=
  forall cb, cb_mono cb -> forall b args st res st', bu cb b args st = (res, st') -> store_le st st'.

Section EvalMono.
  Variable release : bool.
  Variable binop_impl : callback -> binop -> value -> value -> store -> outcome value * store.
  Variable builtin_impl : callback -> builtin -> list value -> store -> outcome value * store.
  Hypothesis Hbin : binop_mono binop_impl.
  Hypothesis Hbu : builtin_mono builtin_impl.

  Section E.
  Variable apply : frames -> callback.
  Hypothesis Happly : forall fr, cb_mono (apply fr).
  Notation evalE := (evalE release binop_impl apply).

  Definition st_ok (ev : cfg -> expr -> result) (e : expr) : Prop :=
    forall c r c', ev c e = (r, c') -> store_le (fst c) (fst c').

  Lemma evalL_st : forall ev l, Forall (st_ok ev) l ->
    forall c r c', evalL ev c l = (r, c') -> store_le (fst c) (fst c').
  Proof.
    intros ev l HF; induction HF as [|x l Hx _ IH]; intros c r c' H; cbn [evalL] in H.
    - inversion H; subst; apply store_le_refl.
    - destruct (ev c x) as [o c1] eqn:E1. apply Hx in E1.
      destruct o; try (inversion H; subst; exact E1).
      destruct (evalL ev c1 l) as [o2 c2] eqn:E2. apply IH in E2.
      assert (store_le (fst c) (fst c2)) by (eapply store_le_trans; eauto).
      destruct o2; inversion H; subst; assumption.
  Qed.
  Lemma evalCL_st : forall ev (l : list (commented expr)),
    Forall (fun cm => st_ok ev (cnode cm)) l ->
    forall c r c', evalCL ev c l = (r, c') -> store_le (fst c) (fst c').
  Proof.
    intros ev l HF; induction HF as [|[ld x tr] l Hx _ IH]; intros c r c' H; cbn [evalCL] in H.
    - inversion H; subst; apply store_le_refl.
    - cbn [cnode] in Hx. destruct (ev c x) as [o c1] eqn:E1. apply Hx in E1.
      destruct o; try (inversion H; subst; exact E1).
      destruct (evalCL ev c1 l) as [o2 c2] eqn:E2. apply IH in E2.
      assert (store_le (fst c) (fst c2)) by (eapply store_le_trans; eauto).
      destruct o2; inversion H; subst; assumption.
  Qed.
  Lemma evalRecL_st : forall ev (l : list (commented rentry)),
    Forall (fun cm => Pentry (st_ok ev) (cnode cm)) l ->
    forall c acc r c', evalRecL ev c acc l = (r, c') -> store_le (fst c) (fst c').
  Proof.
    intros ev l HF; induction HF as [|[ld [k v] tr] l Hx _ IH]; intros c acc r c' H;
      cbn [evalRecL] in H.
    - inversion H; subst; apply store_le_refl.
    - cbn [cnode Pentry] in Hx. destruct Hx as [Hk Hv].
      destruct k as [key|ke|x|se]; cbn [Pkey] in Hk.
      + destruct (ev c v) as [o c1] eqn:E1. apply Hv in E1.
        destruct o; try (inversion H; subst; exact E1).
        apply IH in H. eapply store_le_trans; eauto.
      + destruct (ev c ke) as [o c1] eqn:E1. apply Hk in E1.
        destruct o; try (inversion H; subst; exact E1).
        destruct (as_string a); try (inversion H; subst; exact E1).
        destruct (ev c1 v) as [o2 c2] eqn:E2. apply Hv in E2.
        assert (store_le (fst c) (fst c2)) by (eapply store_le_trans; eauto).
        destruct o2; try (inversion H; subst; assumption).
        apply IH in H. eapply store_le_trans; eauto.
      + destruct (lookup (snd c) x).
        * apply IH in H. exact H.
        * inversion H; subst; apply store_le_refl.
      + destruct (ev c se) as [o c1] eqn:E1. apply Hk in E1.
        destruct o; try (inversion H; subst; exact E1).
        apply IH in H. eapply store_le_trans; eauto.
  Qed.
  Lemma bind_value_st : forall n0 c1 x v r c', bind_value n0 c1 x v = (r, c') -> store_le (fst c1) (fst c').
  Proof.
    intros n0 c1 x v r c' H. unfold bind_value in H.
    destruct (insert_head (snd c1) x v); inversion H; subst; cbn [fst]; apply name_if_created_le.
  Qed.
  Lemma assign_value_st : forall ev x ve, st_ok ev ve ->
    forall c r c', assign_value ev c x ve = (r, c') -> store_le (fst c) (fst c').
  Proof.
    intros ev x ve Hve c r c' H. unfold assign_value in H.
    destruct (ev c ve) as [o c1] eqn:E1. apply Hve in E1.
    destruct o; try (inversion H; subst; exact E1).
    apply bind_value_st in H. eapply store_le_trans; eauto.
  Qed.
  Lemma assign_checked_st : forall ev x ve, st_ok ev ve ->
    forall c r c', assign_checked ev c x ve = (r, c') -> store_le (fst c) (fst c').
  Proof.
    intros ev x ve Hve c r c' H. unfold assign_checked in H.
    destruct (ev c ve) as [o c1] eqn:E1. apply Hve in E1.
    destruct o; try (inversion H; subst; exact E1).
    destruct (contains (snd c1) x); [inversion H; subst; exact E1|].
    apply bind_value_st in H. eapply store_le_trans; eauto.
  Qed.
  Lemma do_step_st : forall ev s, st_ok ev s ->
    (forall x ve, s = EAssign x ve -> st_ok ev ve) ->
    forall c r c', do_step ev c s = (r, c') -> store_le (fst c) (fst c').
  Proof.
    intros ev s Hs Hsub c r c' H. unfold do_step in H.
    destruct s; try (apply Hs in H; exact H).
    destruct (mem x do_assign_keywords); [inversion H; subst; apply store_le_refl|].
    eapply assign_value_st in H; eauto.
  Qed.

  Theorem evalE_store_le : forall e c r c', evalE c e = (r, c') -> store_le (fst c) (fst c').
  Proof.
    intros e.
    (* strengthened so that the do-block case can reach the right-hand side of a statement *)
    enough (HH : st_ok evalE e /\ (forall x ve, e = EAssign x ve -> st_ok evalE ve)) by apply HH.
    induction e using expr_ind';
      (split; [intros c r c' HE; cbn [Eval.evalE] in HE|try (intros ? ? Heq; discriminate Heq)]).
    - inversion HE; subst; apply store_le_refl.
    - inversion HE; subst; apply store_le_refl.
    - inversion HE; subst; apply store_le_refl.
    - inversion HE; subst; apply store_le_refl.
    - destruct (_ || _); [inversion HE; subst; apply store_le_refl|].
      destruct (String.eqb x "constants"); inversion HE; subst; apply store_le_refl.
    - inversion HE; subst; apply store_le_refl.
    - inversion HE; subst; apply store_le_refl.
    - (* EList *)
      destruct (evalCL evalE c items) as [o c1] eqn:E1.
      eapply evalCL_st in E1.
      + cbn [fst snd] in HE. inversion HE; subst. exact E1.
      + eapply Forall_impl; [|eassumption]. intros a Ha; apply Ha.
    - (* ERec *)
      eapply evalRecL_st in HE; eauto.
      eapply Forall_impl; [|eassumption]. intros [ld [k v] tr] Ha. cbn [cnode Pentry] in *.
      destruct Ha as [Hk Hv]. split; [|apply Hv].
      destruct k; cbn [Pkey] in *; auto; apply Hk.
    - (* ELam *)
      destruct (fresh_lambda _ _ _ _) as [v st'] eqn:Ef. apply fresh_lambda_le in Ef.
      inversion HE; subst. exact Ef.
    - (* ECond *)
      destruct IHe1 as [IH1 _], IHe2 as [IH2 _], IHe3 as [IH3 _].
      destruct (evalE c e1) as [o c1] eqn:E1. apply IH1 in E1.
      destruct o; try (inversion HE; subst; exact E1).
      destruct (as_bool a) as [[|]| | | |]; try (inversion HE; subst; exact E1).
      + apply IH2 in HE. eapply store_le_trans; eauto.
      + apply IH3 in HE. eapply store_le_trans; eauto.
    - (* EDo *)
      match goal with
      | HF : Forall _ stmts, HR : _ /\ _ |- _ => rename HF into HFs; rename HR into HRet
      end.
      destruct ret as [ld rt tr]. cbn [cnode] in *.
      assert (HS : forall c0 r0 c0', evalDoL evalE c0 stmts = (r0, c0') ->
                                     store_le (fst c0) (fst c0')).
      { clear HE. induction HFs as [|[l1 s t1] l Hs _ IHl];
          intros c0 r0 c0' H0; cbn [evalDoL] in H0.
        - inversion H0; subst; apply store_le_refl.
        - cbn [cnode] in Hs. destruct Hs as [Hs1 Hs2].
          destruct (do_step evalE c0 s) as [o c1] eqn:E1.
          eapply do_step_st in E1; eauto.
          destruct o; try (inversion H0; subst; exact E1).
          apply IHl in H0. eapply store_le_trans; eauto. }
      destruct (evalDoL evalE (fst c, (FOwned, []) :: snd c) stmts) as [o c1] eqn:E1.
      apply HS in E1. cbn [fst] in E1.
      destruct o.
      + destruct (do_step evalE c1 rt) as [o2 c2] eqn:E2.
        destruct HRet as [Hr1 Hr2]. eapply do_step_st in E2; eauto.
        inversion HE; subst. cbn [fst snd]. eapply store_le_trans; eauto.
      + inversion HE; subst; exact E1.
      + inversion HE; subst; exact E1.
      + inversion HE; subst; exact E1.
      + inversion HE; subst; exact E1.
    - (* EAssign *)
      destruct IHe as [IH _].
      destruct (is_builtin_name x); [inversion HE; subst; apply store_le_refl|].
      destruct (mem x assign_keywords); [inversion HE; subst; apply store_le_refl|].
      destruct (contains (snd c) x); [inversion HE; subst; apply store_le_refl|].
      eapply assign_checked_st in HE; eauto.
    - (* EAssign, second component *)
      intros x0 ve Heq. inversion Heq; subst. apply IHe.
    - (* EOutput *) destruct IHe as [IH _]. apply IH in HE. exact HE.
    - (* ECall *)
      destruct IHe as [IH _].
      destruct (evalE c e) as [o c1] eqn:E1. apply IH in E1.
      destruct o; try (inversion HE; subst; exact E1).
      destruct (evalL evalE c1 args) as [o2 [st2 fr2]] eqn:E2.
      eapply evalL_st in E2.
      2:{ eapply Forall_impl; [|eassumption]. intros a0 Ha; apply Ha. }
      cbn [fst] in E2.
      assert (Hx : store_le (fst c) st2) by (eapply store_le_trans; eauto).
      destruct o2; try (inversion HE; subst; exact Hx).
      destruct (negb (is_function a)); [inversion HE; subst; exact Hx|].
      destruct (apply fr2 a a (flatten_spreads a0) st2) as [rr st3] eqn:Ea.
      apply Happly in Ea. inversion HE; subst. cbn [fst]. eapply store_le_trans; eauto.
    - (* EAccess *)
      destruct IHe1 as [IH1 _], IHe2 as [IH2 _].
      destruct (evalE c e1) as [o c1] eqn:E1. apply IH1 in E1.
      destruct o; try (inversion HE; subst; exact E1).
      destruct (evalE c1 e2) as [o2 c2] eqn:E2. apply IH2 in E2.
      assert (Hx : store_le (fst c) (fst c2)) by (eapply store_le_trans; eauto).
      destruct o2; inversion HE; subst; exact Hx.
    - destruct IHe as [IH _].
      destruct (evalE c e) as [o c1] eqn:E1. apply IH in E1.
      destruct o; inversion HE; subst; exact E1.
    - (* EBin *)
      destruct IHe1 as [IH1 _], IHe2 as [IH2 _].
      destruct (evalE c e1) as [o c1] eqn:E1. apply IH1 in E1.
      destruct o; try (inversion HE; subst; exact E1).
      destruct (evalE c1 e2) as [o2 [st2 fr2]] eqn:E2. apply IH2 in E2. cbn [fst] in E2.
      assert (Hx : store_le (fst c) st2) by (eapply store_le_trans; eauto).
      destruct o2; try (inversion HE; subst; exact Hx).
      destruct (binop_impl (apply fr2) op a a0 st2) as [res st3] eqn:Eb.
      apply Hbin in Eb; [|apply Happly].
      inversion HE; subst. cbn [fst]. eapply store_le_trans; eauto.
    - destruct IHe as [IH _].
      destruct (evalE c e) as [o c1] eqn:E1. apply IH in E1.
      destruct o; inversion HE; subst; exact E1.
    - destruct IHe as [IH _].
      destruct (evalE c e) as [o c1] eqn:E1. apply IH in E1.
      destruct o; inversion HE; subst; exact E1.
    - destruct IHe as [IH _].
      destruct (evalE c e) as [o c1] eqn:E1. apply IH in E1.
      destruct o; inversion HE; subst; exact E1.
  Qed.
  End E.

  (* FunctionDef::call at every depth only grows the store *)
  Lemma call_too_deep_mono : cb_mono (fun _ f a s => call_too_deep f a s).
  Proof.
    intros this f args st r st' H. unfold call_too_deep in H.
    destruct (check_arity _ _); inversion H; subst; apply store_le_refl.
  Qed.

  Theorem AD_mono : forall d fr, cb_mono (AD release binop_impl builtin_impl d fr).
  Proof.
    intros d. induction d as [d IH] using lt_wf_ind. intros fr this f args st r st' H.
    destruct d as [|d']; cbn [AD] in H; unfold apply_at in H.
    - destruct (negb _); inversion H; subst; apply store_le_refl.
    - destruct (negb _); [inversion H; subst; apply store_le_refl|].
      unfold call_passed in H. destruct f; try (inversion H; subst; apply store_le_refl).
      + (* lambda *)
        destruct (bind_params _ _ _ _); [|inversion H; subst; apply store_le_refl].
        match type of H with context [evalE ?r ?b ?a ?c ?e] =>
          destruct (evalE r b a c e) as [rr [st1 fr1]] eqn:E end.
        apply evalE_store_le in E; [|intros fr0; apply IH; lia].
        inversion H; subst. exact E.
      + (* built-in *)
        eapply Hbu in H; [exact H|].
        destruct d' as [|d'']; [apply call_too_deep_mono|apply IH; lia].
  Qed.

  Corollary evalD_store_le : forall d c e r c',
    evalD release binop_impl builtin_impl d c e = (r, c') -> store_le (fst c) (fst c').
  Proof.
    intros d c e r c' H. unfold evalD in H. eapply evalE_store_le in H; eauto.
    intros fr. apply AD_mono.
  Qed.
End EvalMono.
