(* FmtToksDo.v — the do-block family at the TEXT level (property C07, extension TOK).

   format_do_block_multiline against the do-block arm of expr_to_source: if every statement and
   the returned expression have laid-out texts with the chunks of their one-line texts, so has
   the block — same chunks, before `canon`.  protect_leading_minus (decided on the LAID-OUT text,
   `first` = no statement before) agrees with the one-line printer's rule (decided on the one-line
   text, index of the statement) by FmtItems.lead_fmtd: no layout changes how a text starts; this
   needs lam_ok, the repaired do-block rule (fx_dominus) and the repaired policy. *)
From Coq Require Import String Ascii List Bool Arith Lia.
Require Import Blots.Num Blots.Ast Blots.PrattRender Blots.Printer Blots.Formatter Blots.FmtTokens
               Blots.proofs.PrattRT Blots.proofs.FmtItems
               Blots.proofs.FmtToks Blots.proofs.FmtToksDoc Blots.proofs.FmtToksAll Blots.proofs.FmtToksBin.
Import ListNotations.
Local Open Scope list_scope.

Lemma sapp_nil_l : forall s, ("" +++ s) = s.
Proof. reflexivity. Qed.
Lemma is_sep_nl2 : is_sep (PrattRender.nl +++ "  ").
Proof. exact (is_sep_nl_indent 2). Qed.

Section Do.
  Variable oi : opinfo_t.
  Variable fx : fixes.
  Variable numtxt : num -> string.
  Variable keepc : bool.
  Variable w : nat.
  Hypothesis Hdom : fx_dominus fx = true.
  Notation pol := (policy_new oi).
  Notation O := (printer_oracles fx pol numtxt keepc).
  Notation pt := (print_text fx pol numtxt).
  Notation fd := (fmtd O w).

  Lemma lead_eq : forall n j, lam_ok n = true ->
    starts_with_minus (render (fd n j)) = starts_minus (pt n).
  Proof.
    intros n j Hl. rewrite fmt_minus_lead3, prt_minus_lead3.
    assert (E : dlead (fd n j) = lead3 (pt n)) by (apply lead_fmtd; try assumption; try reflexivity).
    unfold dlead in E. rewrite E. reflexivity.
  Qed.

  Definition child_ok (x : expr) : Prop :=
    lam_ok x = true /\ tok_ok O x = true /\ forall j, toks (render (fd x j)) = toks (pt x).

  Fixpoint doT (k : nat) (l : list (commented expr)) : list string :=
    match l with
    | [] => []
    | Cm _ x _ :: l' => wrapT (dominus_text fx k (pt x)) (toks (pt x)) ++ doT (S k) l'
    end.

  Ltac norm := repeat (progress (repeat rewrite <- app_assoc; cbn [app])).

  (* ---------------------------------------------------------------- the layout *)
  Lemma L_protect : forall x inner k, child_ok x ->
    flat_map piece_toks (protect_minus (fd x inner) (Nat.eqb k 0)) =
    wrapT (dominus_text fx k (pt x)) (toks (pt x)).
  Proof.
    intros x inner k [Hl [Hk HS]]. unfold protect_minus, dominus_text.
    rewrite Hdom, (lead_eq x inner Hl). cbn [andb].
    destruct (negb (k =? 0) && starts_minus (pt x)); unfold wrapT.
    - cbn [app]. rewrite fm_code, flat_map_app, (pieces_toks fx pol numtxt keepc w x inner Hk), HS.
      reflexivity.
    - rewrite (pieces_toks fx pol numtxt keepc w x inner Hk), HS. reflexivity.
  Qed.

  Lemma L_stmts : forall stmts k inner, plain_items stmts = true ->
    Forall (fun c => child_ok (cnode c)) stmts ->
    flat_map piece_toks (do_stmts_doc fd stmts inner (Nat.eqb k 0)) = doT k stmts.
  Proof.
    induction stmts as [|[lead x tr] stmts IH]; intros k inner Hp HF; [reflexivity|].
    inversion HF as [|? ? Hx HF']; subst. cbn [cnode] in Hx.
    cbn [plain_items] in Hp. destruct lead; [|discriminate]. destruct tr; [discriminate|].
    cbn [do_stmts_doc leading_doc trailing_doc flat_map doT]. norm.
    rewrite fm_nl, fm_ind, flat_map_app, (L_protect x inner k Hx).
    f_equal. exact (IH (S k) inner Hp HF').
  Qed.

  (* ---------------------------------------------------------------- the one-line text *)
  Local Open Scope string_scope.
  Lemma T_stmts : forall stmts k A ret, plain_items stmts = true ->
    Forall (fun c => child_ok (cnode c)) stmts -> ends_code A = true -> ends_code (pt ret) = true ->
    toks (A ++
          ((fix go (i : nat) (l : list (commented expr)) : string :=
              match l with
              | [] => ""
              | Cm lead x trail :: l' =>
                  sconcat (map (fun c => PrattRender.nl ++ "  " ++ c) lead) ++
                  PrattRender.nl ++ "  " ++ (let s := pt x in paren_s (dominus_text fx i s) s) ++
                  match trail with Some t => "  " ++ t | None => "" end ++
                  go (S i) l'
              end) k stmts ++
           PrattRender.nl ++ "  return " ++ pt ret ++ PrattRender.nl ++ "}"))
    = (toks A ++ doT k stmts ++ ["return"] ++ toks (pt ret) ++ ["}"])%list.
  Proof.
    induction stmts as [|[lead x tr] stmts IH]; intros k A ret Hp HF HA Hret.
    - cbn [doT app].
      change (toks (A ++ (PrattRender.nl ++ "  ") ++ ("return " ++ pt ret ++ (PrattRender.nl ++ "}")))
              = (toks A ++ ["return"] ++ toks (pt ret) ++ ["}"])%list).
      rewrite (toks_app_sep A _ _ HA is_sep_nl2), (toks_app_closed "return " _ eq_refl).
      rewrite (toks_app_break (pt ret) (PrattRender.nl ++ "}") Hret eq_refl). reflexivity.
    - inversion HF as [|? ? Hx HF']; subst. cbn [cnode] in Hx.
      cbn [plain_items] in Hp. destruct lead; [|discriminate]. destruct tr; [discriminate|].
      destruct Hx as [Hl [Hk HS]].
      destruct (node_of fx pol numtxt keepc x Hk) as [_ [Ex _]].
      destruct (paren_facts (dominus_text fx k (pt x)) _ Ex) as [TP EP].
      set (P := paren_s (dominus_text fx k (pt x)) (pt x)) in *.
      set (A' := A ++ (PrattRender.nl ++ "  ") ++ P).
      assert (TA : toks A' = (toks A ++ toks P)%list) by exact (toks_app_sep A _ P HA is_sep_nl2).
      assert (EA : ends_code A' = true).
      { unfold A'. rewrite (ends_code_tst _ P); [exact EP|]. exact (tst_app_sep A _ P HA is_sep_nl2). }
      specialize (IH (S k) A' ret Hp HF' EA Hret).
      cbn [doT]. rewrite <- !app_assoc, <- TP, (app_assoc (toks A)), <- TA, <- IH.
      f_equal. unfold A'. cbn -[String.append paren_s dominus_text toks print_text].
      fold P. rewrite !sapp_assoc. reflexivity.
  Qed.
  Local Close Scope string_scope.

  (* ---------------------------------------------------------------- the family theorem *)
  Theorem do_family : forall stmts ret i, plain_items stmts = true ->
    tok_ok O (EDo stmts (Cm [] ret None)) = true ->
    Forall (fun c => child_ok (cnode c)) stmts -> child_ok ret ->
    toks (render (fd (EDo stmts (Cm [] ret None)) i)) = toks (pt (EDo stmts (Cm [] ret None))).
  Proof.
    intros stmts ret i Hp Hk HF [Hlr [Hkr HSr]].
    rewrite (proj1 (layout_toks O w _ i Hk)).
    rewrite fmtd_unfold. unfold impl_doc, multiline_doc, do_doc.
    cbn [cleading cnode leading_doc flat_map]. norm.
    rewrite fm_code, flat_map_app, (L_stmts stmts 0 _ Hp HF).
    cbn [app]. rewrite fm_nl, fm_ind, fm_code, flat_map_app,
      (pieces_toks fx pol numtxt keepc w ret _ Hkr), HSr, fm_nl, fm_ind.
    destruct (node_of fx pol numtxt keepc ret Hkr) as [_ [Er _]].
    pose proof (T_stmts stmts 0 "do {" ret Hp HF eq_refl Er) as HT.
    cbn [print_text]. cbn [map sconcat fold_right] .
    etransitivity; [|symmetry; etransitivity; [|exact HT]].
    - reflexivity.
    - reflexivity.
  Qed.
End Do.
