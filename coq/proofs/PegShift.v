(* PegShift.v — POSITION INDEPENDENCE of pest parsing, for every grammar:
   running any expression on a state whose byte offset is moved by [d] (same remaining input, same stack),
   away from the very start of the input, gives the same result with every position — the final offset and
   the spans of all pairs produced — moved by [d].  The only primitive that looks at the absolute position
   is SOI (`start_of_input`), which fails at every offset > 0; hence the hypothesis 0 < pos.
   This is what "the tree does not change up to spans" means when blanks are inserted in front of a
   sub-parse (PegLayout.v). *)
From Coq Require Import String Ascii List NArith Bool Arith Lia ZifyBool ZifyNat ZifyN.
Require Import Blots.Peg Blots.proofs.PegGeneric.
Import ListNotations.

Section Shift.
  Variable R : Type.
  Variable G : grammar R.
  Variable d : N.
  Notation st := (st R).
  Notation res := (res R).

  Fixpoint shift_tree (t : tree R) : tree R :=
    match t with Node r s e kids => Node r (s + d) (e + d) (map shift_tree kids) end.

  (* [s'] is [s] moved by d; the pairs produced above the frames [o] / [o'] are moved too *)
  Definition rel (o o' : list (tree R)) (s s' : st) : Prop :=
    pos s' = (pos s + d)%N /\ rest s' = rest s /\ stk s' = stk s /\
    exists new, out s = new ++ o /\ out s' = map shift_tree new ++ o'.
  Definition rel_res (o o' : list (tree R)) (r r' : res) : Prop :=
    match r, r' with
    | Ok s, Ok s' => rel o o' s s'
    | Fail s, Fail s' => rel o o' s s'
    | Panic, Panic => True
    | OutOfFuel, OutOfFuel => True
    | _, _ => False
    end.
  Definition resp (g : st -> res) : Prop :=
    forall o o' s s', rel o o' s s' -> (0 < pos s)%N -> rel_res o o' (g s) (g s').

  Lemma rel_set_pos : forall o o' s s' k r, rel o o' s s' ->
      rel o o' (set_pos s (pos s + k) r) (set_pos s' (pos s' + k) r).
  Proof.
    intros o o' s s' k r (P & E & K & n & O & O'). unfold rel, set_pos. simpl.
    repeat split; try assumption; [lia|]. exists n. auto.
  Qed.
  Lemma rel_set_stk : forall o o' s s' k, rel o o' s s' -> rel o o' (set_stk s k) (set_stk s' k).
  Proof.
    intros o o' s s' k (P & E & K & n & O & O'). unfold rel, set_stk. simpl.
    repeat split; try assumption. exists n. auto.
  Qed.

  Lemma resp_match_string : forall x, resp (match_string x).
  Proof.
    intros x o o' s s' H _. unfold match_string. pose proof H as (P & E & _). rewrite E.
    destruct (drop_prefix x (rest s)); simpl; [apply rel_set_pos|]; assumption.
  Qed.
  Lemma resp_match_insensitive : forall x, resp (match_insensitive x).
  Proof.
    intros x o o' s s' H _. unfold match_insensitive. pose proof H as (P & E & _). rewrite E.
    destruct (drop_prefix_ci x (rest s)); simpl; [apply rel_set_pos|]; assumption.
  Qed.
  Lemma resp_match_range : forall lo hi, resp (match_range lo hi).
  Proof.
    intros lo hi o o' s s' H _. unfold match_range. pose proof H as (P & E & _). rewrite E.
    destruct (rest s); simpl; [assumption|]. destruct (in_range lo hi a); simpl; [apply rel_set_pos|]; assumption.
  Qed.
  Lemma resp_builtin : forall b, resp (run_builtin b).
  Proof.
    intros b o o' s s' H Hp. pose proof H as (P & E & K & _). destruct b; simpl; rewrite ?E, ?K.
    - destruct (rest s); simpl; [assumption|]. apply rel_set_pos. assumption.
    - replace (N.eqb (pos s) 0) with false by (symmetry; apply N.eqb_neq; lia).
      replace (N.eqb (pos s') 0) with false by (symmetry; apply N.eqb_neq; lia). simpl. assumption.
    - destruct (rest s); simpl; assumption.
    - destruct (stack_peek (stk s)); simpl; [|exact I]. apply resp_match_string; assumption.
    - destruct (stack_pop (stk s)) as [[x|] k]; simpl; [|exact I].
      apply resp_match_string; [apply rel_set_stk; assumption|simpl; assumption].
    - destruct (stack_pop (stk s)) as [[x|] k]; simpl; [apply rel_set_stk|]; assumption.
  Qed.

  Lemma skip_until_shift : forall ss s p,
      skip_until_pos ss (p + d) s = (let '(q, r) := skip_until_pos ss p s in ((q + d)%N, r)).
  Proof.
    induction s; intro p; simpl.
    - destruct (existsb _ ss); reflexivity.
    - destruct (existsb _ ss); [reflexivity|].
      replace (p + d + 1)%N with (p + 1 + d)%N by lia. apply IHs.
  Qed.
  Lemma resp_skip_until : forall ss,
      resp (fun s => let '(p, r) := skip_until_pos ss (pos s) (rest s) in Ok (set_pos s p r)).
  Proof.
    intros ss o o' s s' H _. pose proof H as (P & E & K & n & O & O'). rewrite P, E, skip_until_shift.
    destruct (skip_until_pos ss (pos s) (rest s)) as [q r]. simpl. unfold rel, set_pos. simpl.
    repeat split; try assumption. exists n. auto.
  Qed.

  (* ---------------------------------------------------------------- combinators *)
  Lemma good_ok_pos : forall la s s1, good R la s (Ok s1) -> (pos s <= pos s1)%N.
  Proof. intros la s s1 (A & _). eapply adv_pos. exact A. Qed.

  Lemma rr_bind : forall la o o' s r r' f,
      rel_res o o' r r' -> good R la s r -> (0 < pos s)%N -> resp f -> rel_res o o' (bind r f) (bind r' f).
  Proof.
    intros la o o' s r r' f H Hg Hp Hf. destruct r, r'; simpl in *; try contradiction; auto.
    apply Hf; [assumption|]. pose proof (good_ok_pos _ _ _ Hg). lia.
  Qed.

  Lemma rr_sequence : forall o o' s s' r r', rel o o' s s' -> rel_res o o' r r' ->
      rel_res o o' (sequence s r) (sequence s' r').
  Proof.
    intros o o' s s' r r' (P & E & K & n & O & O') H. destruct r, r'; simpl in *; try contradiction; auto.
    destruct H as (_ & _ & K1 & _). unfold rel. simpl. repeat split; try assumption. exists n. auto.
  Qed.

  Lemma rr_optional : forall o o' r r', rel_res o o' r r' -> rel_res o o' (optional r) (optional r').
  Proof. intros o o' r r' H. destruct r, r'; simpl in *; try contradiction; auto. Qed.

  Lemma resp_repeat : forall la n g, good_fun R la g -> resp g -> resp (repeat_loop n g).
  Proof.
    intros la n g Hg Hr. induction n as [|n IH]; intros o o' s s' H Hp; simpl; [exact I|].
    pose proof (Hr o o' s s' H Hp) as H1. pose proof (Hg s) as G1.
    destruct (g s) eqn:E1, (g s') eqn:E2; simpl in H1; try contradiction; auto.
    apply IH; [assumption|]. pose proof (good_ok_pos _ _ _ G1). lia.
  Qed.

  Lemma resp_lookahead : forall p g, resp g -> resp (lookahead p g).
  Proof.
    intros p g Hr o o' s s' H Hp. unfold lookahead. pose proof H as (P & E & K & n & O & O').
    rewrite K.
    pose proof (Hr o o' _ _ (rel_set_stk o o' s s' (stack_snapshot (stk s)) H) Hp) as H1.
    destruct (g (set_stk s (stack_snapshot (stk s)))) eqn:E1, (g (set_stk s' (stack_snapshot (stk s)))) eqn:E2;
      simpl in H1; try contradiction; auto;
      destruct H1 as (_ & _ & K1 & n1 & O1 & O1');
      (assert (Hb : rel o o' (mkst (pos s) (rest s) (stack_restore (stk s0)) (out s0))
                        (mkst (pos s') (rest s') (stack_restore (stk s1)) (out s1)))
        by (unfold rel; simpl; rewrite K1; repeat split; try assumption; exists n1; auto));
      destruct p; simpl; exact Hb.
  Qed.

  Lemma resp_restore : forall g, resp g -> resp (restore_on_err g).
  Proof.
    intros g Hr o o' s s' H Hp. unfold restore_on_err. pose proof H as (P & E & K & n & O & O').
    rewrite K.
    pose proof (Hr o o' _ _ (rel_set_stk o o' s s' (stack_snapshot (stk s)) H) Hp) as H1.
    destruct (g (set_stk s (stack_snapshot (stk s)))) eqn:E1, (g (set_stk s' (stack_snapshot (stk s)))) eqn:E2;
      simpl in H1; try contradiction; auto; simpl;
      pose proof H1 as (_ & _ & K1 & _); rewrite K1; apply rel_set_stk; assumption.
  Qed.

  Lemma resp_push : forall la g, good_fun R la g -> resp g -> resp (do_push g).
  Proof.
    intros la g Hg Hr o o' s s' H Hp. unfold do_push. pose proof H as (P & E & K & n & O & O').
    pose proof (Hr o o' s s' H Hp) as H1. pose proof (Hg s) as G1.
    destruct (g s) eqn:E1, (g s') eqn:E2; simpl in H1; try contradiction; auto. simpl.
    pose proof H1 as (P1 & _ & K1 & _). pose proof (good_ok_pos _ _ _ G1) as L.
    rewrite K1, E. replace (pos s1 - pos s')%N with (pos s0 - pos s)%N by lia.
    apply rel_set_stk. assumption.
  Qed.

  Lemma map_shift_rev : forall l, map shift_tree (rev l) = rev (map shift_tree l).
  Proof. intro l. apply map_rev. Qed.

  Lemma resp_rule_wrap : forall r a la g, resp g -> resp (rule_wrap r a la g).
  Proof.
    intros r a la g Hr o o' s s' H Hp. unfold rule_wrap. destruct (emits a la); [|apply Hr; assumption].
    pose proof H as (P & E & K & n & O & O').
    assert (H0 : rel [] [] (set_out s []) (set_out s' [])).
    { unfold rel, set_out. simpl. repeat split; try assumption. exists []. auto. }
    pose proof (Hr [] [] _ _ H0 Hp) as H1.
    destruct (g (set_out s [])) eqn:E1, (g (set_out s' [])) eqn:E2; simpl in H1; try contradiction; auto; simpl.
    - destruct H1 as (P1 & R1 & K1 & n1 & O1 & O1'). rewrite app_nil_r in O1, O1'.
      unfold rel, set_out. simpl. repeat split; try assumption.
      exists (Node r (pos s) (pos s0) (rev (out s0)) :: n). split; [rewrite O; reflexivity|].
      simpl. rewrite O', P, P1, O1, O1', map_shift_rev. reflexivity.
    - destruct H1 as (P1 & R1 & K1 & _). unfold rel, set_out. simpl. repeat split; try assumption.
      exists n. auto.
  Qed.

  Definition resp_runner (rf : runner R) : Prop := forall m a la e, resp (rf m a la e).

  Lemma resp_call : forall rf, resp_runner rf -> forall a la r, resp (call_with G rf a la r).
  Proof.
    intros rf H a la r. unfold call_with.
    destruct (rd_mod (g_def G r)); try (apply resp_rule_wrap); apply H.
  Qed.

  Lemma resp_seq_fun : forall la g1 g2, good_fun R la g1 -> resp g1 -> resp g2 ->
      resp (fun s => sequence s (bind (g1 s) g2)).
  Proof.
    intros la g1 g2 G1 R1 R2 o o' s s' H Hp. apply rr_sequence; [assumption|].
    eapply rr_bind; [apply R1; assumption|apply G1|assumption|assumption].
  Qed.

  Lemma resp_skip : forall n call,
      (forall a la r, good_fun R la (call a la r)) -> (forall a la r, resp (call a la r)) ->
      forall a la, resp (skip_with G n call a la).
  Proof.
    intros n call Hg Hr a la. unfold skip_with.
    assert (Hid : resp (fun s => Ok s)) by (intros o o' s s' H _; exact H).
    destruct a; try exact Hid.
    destruct (g_ws G) as [w|], (g_comment G) as [c|]; try exact Hid.
    - apply (resp_seq_fun la).
      + apply good_repeat. apply Hg.
      + apply (resp_repeat la); [apply Hg|apply Hr].
      + apply (resp_repeat la).
        * intro s1. apply good_sequence_bind; [apply Hg|]. apply good_repeat. apply Hg.
        * apply (resp_seq_fun la); [apply Hg|apply Hr|]. apply (resp_repeat la); [apply Hg|apply Hr].
    - apply (resp_repeat la); [apply Hg|apply Hr].
    - apply (resp_repeat la); [apply Hg|apply Hr].
  Qed.

  Theorem run_shift : forall f, resp_runner (run G f).
  Proof.
    induction f as [|f IH]; intros m a la e o o' s s' H Hp; [exact I|].
    pose proof (run_good R G f) as GR.
    pose proof (good_call R G _ GR) as GC.
    pose proof (resp_call _ IH) as RC.
    pose proof (fun a la => good_skip R G f _ GC a la) as GS.
    pose proof (fun a la => resp_skip f _ GC RC a la) as RS.
    rewrite !run_S. cbv zeta.
    destruct e as [x|x|lo hi|r|b|x|x|x y|x y|x|x|ss|x|x].
    - apply resp_match_string; assumption.
    - apply resp_match_insensitive; assumption.
    - apply resp_match_range; assumption.
    - apply RC; assumption.
    - apply resp_builtin; assumption.
    - apply resp_lookahead; [apply IH|assumption|assumption].
    - apply resp_lookahead; [apply IH|assumption|assumption].
    - destruct m.
      + apply (resp_seq_fun la); [apply GR|apply IH|apply IH|assumption|assumption].
      + apply rr_sequence; [assumption|].
        pose proof (good_bind R la s _ _ (GR false a la x s) (GS a la)) as W.
        assert (B1 : rel_res o o' (bind (run G f false a la x s) (skip_with G f (call_with G (run G f)) a la))
                             (bind (run G f false a la x s') (skip_with G f (call_with G (run G f)) a la))).
        { eapply rr_bind; [apply IH; assumption|apply GR|assumption|apply RS]. }
        destruct (bind (run G f false a la x s) (skip_with G f (call_with G (run G f)) a la)) eqn:E1,
                 (bind (run G f false a la x s') (skip_with G f (call_with G (run G f)) a la)) eqn:E2;
          simpl in B1; try contradiction; simpl; auto.
        apply IH; [assumption|]. simpl in W. pose proof (good_ok_pos _ _ _ W). lia.
    - pose proof (IH m a la x o o' s s' H Hp) as H1. pose proof (GR m a la x s) as G1.
      destruct (run G f m a la x s) eqn:E1, (run G f m a la x s') eqn:E2; simpl in H1; try contradiction; auto.
      apply IH; [assumption|]. simpl in G1. destruct G1 as (P1 & _). lia.
    - apply rr_optional. apply IH; assumption.
    - destruct m.
      + apply (resp_repeat la); [apply GR|apply IH|assumption|assumption].
      + apply rr_sequence; [assumption|]. apply rr_optional.
        eapply rr_bind; [apply IH; assumption|apply GR|assumption|].
        apply (resp_repeat la).
        * intro s1. apply good_sequence_bind; [apply GS|apply GR].
        * apply (resp_seq_fun la); [apply GS|apply RS|apply IH].
    - apply resp_skip_until; assumption.
    - apply (resp_push la); [apply GR|apply IH|assumption|assumption].
    - apply resp_restore; [apply IH|assumption|assumption].
  Qed.
End Shift.
