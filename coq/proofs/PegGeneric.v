(* PegGeneric.v — facts about the pest interpreter coq/Peg.v that hold for EVERY grammar:
   - determinism is free ([run] is a function);
   - [run_fuel_mono] / [parse_fuel_mono]: more fuel never changes a result other than OutOfFuel;
   - [run_fail_unchanged]: a failing expression leaves position, remaining input and produced pairs
     untouched (this is what pest's `optional` / `repeat` / `or_else`, which do NOT restore, rely on);
   - [run_spans] / [parse_spans_inside_text]: every success consumes a prefix of the remaining input and the
     pairs it produces are ordered, nested and inside the consumed span. *)
From Coq Require Import String Ascii List NArith Bool Arith Lia ZifyBool ZifyNat ZifyN.
Require Import Blots.Peg.
Import ListNotations.

Section Generic.
  Variable R : Type.
  Variable G : grammar R.
  Notation st := (st R).
  Notation res := (res R).
  Notation runner := (runner R).

  Lemma run_S : forall f m a la (e : expr R) (s : st),
      run G (S f) m a la e s =
      let call := call_with G (run G f) in
      let skip := skip_with G f call a la in
      match e with
      | Str x => match_string x s
      | Insens x => match_insensitive x s
      | Range lo hi => match_range lo hi s
      | Builtin b => run_builtin b s
      | Ident r => call a la r s
      | SkipUntil ss =>
          let '(p, r) := skip_until_pos ss (pos s) (rest s) in Ok (set_pos s p r)
      | PosPred x => lookahead true (run G f m a true x) s
      | NegPred x => lookahead false (run G f m a true x) s
      | Seq x y =>
          if m then sequence s (bind (run G f m a la x s) (run G f m a la y))
          else sequence s (bind (bind (run G f m a la x s) skip) (run G f m a la y))
      | Choice x y =>
          match run G f m a la x s with
          | Fail s' => run G f m a la y s'
          | o => o
          end
      | Opt x => optional (run G f m a la x s)
      | Rep x =>
          if m then repeat_loop f (run G f m a la x) s
          else sequence s
                 (optional
                    (bind (run G f m a la x s)
                          (repeat_loop f (fun s1 => sequence s1 (bind (skip s1) (run G f m a la x))))))
      | Push x => do_push (run G f m a la x) s
      | RestoreOnErr x => restore_on_err (run G f m a la x) s
      end.
  Proof. reflexivity. Qed.

  (* ================================================================ fuel monotonicity *)
  Definition le_res (r r' : res) : Prop := r <> OutOfFuel -> r' = r.
  Definition le_fun (g g' : st -> res) : Prop := forall s, le_res (g s) (g' s).

  Lemma le_res_refl : forall r, le_res r r.
  Proof. intros r _. reflexivity. Qed.

  Ltac le_by H1 := let N := fresh "N" in intro N; try (rewrite H1 by congruence; reflexivity); try congruence.

  Lemma le_bind : forall r r' f f', le_res r r' -> le_fun f f' -> le_res (bind r f) (bind r' f').
  Proof.
    intros r r' f f' H Hf. unfold le_res in *. destruct r; simpl; le_by H.
    rewrite H by congruence. simpl. apply Hf. assumption.
  Qed.

  Lemma le_sequence : forall s r r', le_res r r' -> le_res (sequence s r) (sequence s r').
  Proof. intros s r r' H. unfold le_res in *. destruct r; simpl; le_by H. Qed.

  Lemma le_optional : forall r r', le_res r r' -> le_res (optional r) (optional r').
  Proof. intros r r' H. unfold le_res in *. destruct r; simpl; le_by H. Qed.

  Lemma le_repeat : forall n n' f f', n <= n' -> le_fun f f' ->
      le_fun (repeat_loop n f) (repeat_loop n' f').
  Proof.
    induction n as [|n IH]; intros n' f f' L Hf s.
    - intro N. simpl in N. congruence.
    - destruct n' as [|n']; [lia|]. unfold le_res. simpl.
      pose proof (Hf s) as H1. unfold le_res in H1.
      destruct (f s) eqn:E; le_by H1.
      rewrite H1 by congruence. apply IH; [lia|assumption|assumption].
  Qed.

  Lemma le_lookahead : forall p f f', le_fun f f' -> le_fun (lookahead p f) (lookahead p f').
  Proof.
    intros p f f' Hf s. unfold le_res, lookahead.
    pose proof (Hf (set_stk s (stack_snapshot (stk s)))) as H1. unfold le_res in H1.
    destruct (f (set_stk s (stack_snapshot (stk s)))) eqn:E; le_by H1.
  Qed.

  Lemma le_restore : forall f f', le_fun f f' -> le_fun (restore_on_err f) (restore_on_err f').
  Proof.
    intros f f' Hf s. unfold le_res, restore_on_err.
    pose proof (Hf (set_stk s (stack_snapshot (stk s)))) as H1. unfold le_res in H1.
    destruct (f (set_stk s (stack_snapshot (stk s)))) eqn:E; le_by H1.
  Qed.

  Lemma le_push : forall f f', le_fun f f' -> le_fun (do_push f) (do_push f').
  Proof.
    intros f f' Hf s. unfold le_res, do_push.
    pose proof (Hf s) as H1. unfold le_res in H1.
    destruct (f s) eqn:E; le_by H1.
  Qed.

  Lemma le_rule_wrap : forall r a la f f', le_fun f f' -> le_fun (rule_wrap r a la f) (rule_wrap r a la f').
  Proof.
    intros r a la f f' Hf s. unfold le_res, rule_wrap. destruct (emits a la).
    - pose proof (Hf (set_out s [])) as H1. unfold le_res in H1.
      destruct (f (set_out s [])) eqn:E; le_by H1.
    - apply Hf.
  Qed.

  Definition le_runner (rf rf' : runner) : Prop := forall m a la e, le_fun (rf m a la e) (rf' m a la e).

  Lemma le_call : forall rf rf', le_runner rf rf' ->
      forall a la r, le_fun (call_with G rf a la r) (call_with G rf' a la r).
  Proof.
    intros rf rf' H a la r s. unfold call_with.
    destruct (rd_mod (g_def G r)); try (apply le_rule_wrap; intro s'; apply H); apply H.
  Qed.

  Lemma le_skip : forall n n' call call', n <= n' ->
      (forall a la r, le_fun (call a la r) (call' a la r)) ->
      forall a la, le_fun (skip_with G n call a la) (skip_with G n' call' a la).
  Proof.
    intros n n' call call' L H a la s. unfold skip_with.
    destruct a; try apply le_res_refl.
    destruct (g_ws G) as [w|], (g_comment G) as [c|]; try apply le_res_refl.
    - apply le_sequence. apply le_bind.
      + apply le_repeat; [assumption|apply H].
      + apply le_repeat; [assumption|]. intro s1. apply le_sequence. apply le_bind; [apply H|].
        apply le_repeat; [assumption|apply H].
    - apply le_repeat; [assumption|apply H].
    - apply le_repeat; [assumption|apply H].
  Qed.

  Theorem run_fuel_mono : forall f f', f <= f' -> le_runner (run G f) (run G f').
  Proof.
    induction f as [|f IH]; intros f' L m a la e s.
    - intro N. simpl in N. congruence.
    - destruct f' as [|f']; [lia|]. assert (L' : f <= f') by lia.
      pose proof (IH f' L') as IHr.
      pose proof (le_call _ _ IHr) as IHc.
      pose proof (le_skip f f' _ _ L' IHc a la) as IHs.
      rewrite !run_S. cbv zeta.
      destruct e.
      + apply le_res_refl.
      + apply le_res_refl.
      + apply le_res_refl.
      + apply IHc.
      + apply le_res_refl.
      + apply le_lookahead. apply IHr.
      + apply le_lookahead. apply IHr.
      + destruct m.
        * apply le_sequence. apply le_bind; [apply IHr|apply IHr].
        * apply le_sequence. apply le_bind; [|apply IHr]. apply le_bind; [apply IHr|apply IHs].
      + pose proof (IHr m a la e1 s) as H1. unfold le_res in *.
        destruct (run G f m a la e1 s) eqn:E; le_by H1.
        rewrite H1 by congruence. apply IHr. assumption.
      + apply le_optional. apply IHr.
      + destruct m.
        * apply le_repeat; [assumption|apply IHr].
        * apply le_sequence. apply le_optional. apply le_bind; [apply IHr|].
          apply le_repeat; [assumption|]. intro s1. apply le_sequence. apply le_bind; [apply IHs|apply IHr].
      + apply le_res_refl.
      + apply le_push. apply IHr.
      + apply le_restore. apply IHr.
  Qed.

  Theorem parse_fuel_mono : forall f f' r text,
      f <= f' -> parse G f r text <> OutOfFuel -> parse G f' r text = parse G f r text.
  Proof.
    intros f f' r text L N. unfold parse in *.
    exact (le_call _ _ (run_fuel_mono f f' L) NonAtomic false r (init text) N).
  Qed.

  (* ================================================================ spans *)
  (* ordered, nested, inside [lo, hi] *)
  Inductive forest_ok : N -> N -> list (tree R) -> Prop :=
  | fo_nil : forall lo hi, (lo <= hi)%N -> forest_ok lo hi []
  | fo_cons : forall lo hi r s e kids l,
      (lo <= s)%N -> forest_ok s e kids -> forest_ok e hi l -> forest_ok lo hi (Node r s e kids :: l).

  Lemma forest_ok_le : forall lo hi l, forest_ok lo hi l -> (lo <= hi)%N.
  Proof. induction 1; lia. Qed.

  Lemma forest_ok_widen : forall lo hi l, forest_ok lo hi l ->
      forall lo' hi', (lo' <= lo)%N -> (hi <= hi')%N -> forest_ok lo' hi' l.
  Proof.
    induction 1; intros lo' hi' A B.
    - constructor. lia.
    - constructor; [lia|assumption|]. apply IHforest_ok2; lia.
  Qed.

  Lemma forest_ok_app : forall lo mid l1, forest_ok lo mid l1 ->
      forall hi l2, forest_ok mid hi l2 -> forest_ok lo hi (l1 ++ l2).
  Proof.
    induction 1; intros hi' l2 H2; simpl.
    - eapply forest_ok_widen; [eassumption|lia|lia].
    - constructor; [assumption|assumption|]. apply IHforest_ok2. assumption.
  Qed.

  (* s' is s advanced by k bytes *)
  Definition adv (s s' : st) : Prop :=
    exists k, k <= String.length (rest s) /\ rest s' = sdrop k (rest s) /\ pos s' = (pos s + N.of_nat k)%N.

  Lemma sdrop_length : forall k s, k <= String.length s -> String.length (sdrop k s) = String.length s - k.
  Proof.
    induction k; intros s L; simpl; [lia|]. destruct s; simpl in *; [lia|]. rewrite IHk; lia.
  Qed.
  Lemma sdrop_sdrop : forall a b s, sdrop b (sdrop a s) = sdrop (a + b) s.
  Proof.
    induction a; intros b s; simpl; [reflexivity|]. destruct s; simpl.
    - destruct b; reflexivity.
    - apply IHa.
  Qed.

  Lemma adv_refl : forall s, adv s s.
  Proof. intro s. exists 0. simpl. repeat split; lia. Qed.
  Lemma adv_trans : forall s1 s2 s3, adv s1 s2 -> adv s2 s3 -> adv s1 s3.
  Proof.
    intros s1 s2 s3 (k1 & L1 & E1 & P1) (k2 & L2 & E2 & P2).
    exists (k1 + k2). rewrite E1 in L2. rewrite sdrop_length in L2 by assumption.
    split; [lia|]. split.
    - rewrite E2, E1. apply sdrop_sdrop.
    - lia.
  Qed.
  Lemma adv_pos : forall s s', adv s s' -> (pos s <= pos s')%N.
  Proof. intros s s' (k & _ & _ & P). lia. Qed.
  Lemma adv_total : forall s s', adv s s' -> (pos s' + slen (rest s') = pos s + slen (rest s))%N.
  Proof.
    intros s s' (k & L & E & P). unfold slen. rewrite E, sdrop_length by assumption. lia.
  Qed.

  (* what a result must satisfy relative to the state it started from *)
  Definition good (la : bool) (s : st) (r : res) : Prop :=
    match r with
    | Ok s' => adv s s' /\ exists new, out s' = new ++ out s /\ forest_ok (pos s) (pos s') (rev new)
                                       /\ (la = true -> new = [])
    | Fail s' => pos s' = pos s /\ rest s' = rest s /\ out s' = out s
    | _ => True
    end.
  Definition good_fun (la : bool) (g : st -> res) : Prop := forall s, good la s (g s).

  Lemma good_ok_self : forall la s s', pos s' = pos s -> rest s' = rest s -> out s' = out s -> good la s (Ok s').
  Proof.
    intros la s s' P E O. simpl. split.
    - exists 0. simpl. rewrite P, E. repeat split; lia.
    - exists []. simpl. rewrite P. repeat split; try assumption. constructor. lia.
  Qed.

  Lemma drop_prefix_sdrop : forall p s r, drop_prefix p s = Some r ->
      String.length p <= String.length s /\ r = sdrop (String.length p) s.
  Proof.
    induction p; intros s r H; simpl in *.
    - inversion H. split; [lia|reflexivity].
    - destruct s; [discriminate|]. destruct (Ascii.eqb a a0); [|discriminate].
      apply IHp in H. simpl. split; [lia|apply H].
  Qed.
  Lemma drop_prefix_ci_sdrop : forall p s r, drop_prefix_ci p s = Some r ->
      String.length p <= String.length s /\ r = sdrop (String.length p) s.
  Proof.
    induction p; intros s r H; simpl in *.
    - inversion H. split; [lia|reflexivity].
    - destruct s; [discriminate|]. destruct (Ascii.eqb (lower a) (lower a0)); [|discriminate].
      apply IHp in H. simpl. split; [lia|apply H].
  Qed.

  Lemma good_advance : forall la s k,
      k <= String.length (rest s) ->
      good la s (Ok (set_pos s (pos s + N.of_nat k) (sdrop k (rest s)))).
  Proof.
    intros la s k L. simpl. split.
    - exists k. repeat split; assumption.
    - exists []. simpl. repeat split; try reflexivity. constructor. lia.
  Qed.

  Lemma good_fail_self : forall la s, good la s (Fail s).
  Proof. intros; simpl; auto. Qed.

  Lemma good_match_string : forall la x, good_fun la (match_string x).
  Proof.
    intros la x s. unfold match_string. destruct (drop_prefix x (rest s)) eqn:E.
    - apply drop_prefix_sdrop in E. destruct E as [L E]. subst. unfold slen. apply good_advance. assumption.
    - apply good_fail_self.
  Qed.
  Lemma good_match_insensitive : forall la x, good_fun la (match_insensitive x).
  Proof.
    intros la x s. unfold match_insensitive. destruct (drop_prefix_ci x (rest s)) eqn:E.
    - apply drop_prefix_ci_sdrop in E. destruct E as [L E]. subst. unfold slen. apply good_advance. assumption.
    - apply good_fail_self.
  Qed.
  Lemma good_match_range : forall la lo hi, good_fun la (match_range lo hi).
  Proof.
    intros la lo hi s. unfold match_range. destruct (rest s) eqn:E; [apply good_fail_self|].
    destruct (in_range lo hi a); [|apply good_fail_self].
    pose proof (good_advance la s 1) as H. rewrite E in H. simpl in H. apply H. lia.
  Qed.

  (* states that differ only in the stack *)
  Lemma good_set_stk : forall la s k r, good la s r -> good la (set_stk s k) r.
  Proof. intros la s k r H. destruct r; simpl in *; assumption. Qed.
  Lemma good_of_set_stk : forall la s k r, good la (set_stk s k) r -> good la s r.
  Proof. intros la s k r H. destruct r; simpl in *; assumption. Qed.

  Lemma good_builtin : forall la b, good_fun la (run_builtin b).
  Proof.
    intros la b s. destruct b; simpl.
    - destruct (rest s) eqn:E; [apply good_fail_self|].
      pose proof (good_advance la s (Nat.min (utf8_width a) (String.length (rest s)))) as H.
      rewrite E in *. apply H. lia.
    - destruct (N.eqb (pos s) 0); [apply good_ok_self; reflexivity|apply good_fail_self].
    - destruct (rest s); [apply good_ok_self; reflexivity|apply good_fail_self].
    - destruct (stack_peek (stk s)); [apply good_match_string|exact I].
    - destruct (stack_pop (stk s)) as [[x|] k]; [|exact I].
      apply (good_of_set_stk la s k). apply good_match_string.
    - destruct (stack_pop (stk s)) as [[x|] k]; [apply good_ok_self; reflexivity|apply good_fail_self].
  Qed.

  Lemma skip_until_adv : forall ss s p, exists k, k <= String.length s /\
      skip_until_pos ss p s = ((p + N.of_nat k)%N, sdrop k s).
  Proof.
    induction s; intro p; simpl.
    - exists 0. simpl. split; [lia|]. destruct (existsb _ ss); f_equal; lia.
    - destruct (existsb _ ss).
      + exists 0. simpl. split; [lia|]. f_equal. lia.
      + destruct (IHs (p + 1)%N) as (k & L & E). exists (S k). simpl. split; [lia|]. rewrite E. f_equal. lia.
  Qed.

  (* composition: r started at s is good, f is good everywhere; a failure after progress is not [good]
     relative to s: the enclosing `sequence` restores the position *)
  Definition weak (la : bool) (s : st) (r : res) : Prop :=
    match r with Ok s' => good la s (Ok s') | _ => True end.

  Lemma good_bind : forall la s r f, good la s r -> good_fun la f -> weak la s (bind r f).
  Proof.
    intros la s r f Hr Hf. destruct r; simpl; auto.
    pose proof (Hf s0) as H. destruct (f s0) eqn:E; simpl; auto.
    simpl in *. destruct Hr as (A1 & n1 & O1 & F1 & L1). destruct H as (A2 & n2 & O2 & F2 & L2).
    split; [eapply adv_trans; eassumption|].
    exists (n2 ++ n1). rewrite O2, O1, app_assoc. split; [reflexivity|]. split.
    - rewrite rev_app_distr. eapply forest_ok_app; eassumption.
    - intro T. rewrite L1, L2 by assumption. reflexivity.
  Qed.

  Lemma good_sequence : forall la s r, weak la s r -> good la s (sequence s r).
  Proof. intros la s r H. destruct r; simpl in *; auto. Qed.

  Lemma good_sequence_bind : forall la s r f, good la s r -> good_fun la f -> good la s (sequence s (bind r f)).
  Proof. intros. apply good_sequence. apply good_bind; assumption. Qed.

  Lemma good_optional : forall la s r, good la s r -> good la s (optional r).
  Proof.
    intros la s r H. destruct r; simpl in *; auto. destruct H as (P & E & O). apply good_ok_self; assumption.
  Qed.

  Lemma good_trans : forall la s s1 r, good la s (Ok s1) -> good la s1 r -> weak la s r.
  Proof.
    intros la s s1 r H1 H2. destruct r; simpl; auto.
    simpl in *. destruct H1 as (A1 & n1 & O1 & F1 & L1). destruct H2 as (A2 & n2 & O2 & F2 & L2).
    split; [eapply adv_trans; eassumption|].
    exists (n2 ++ n1). rewrite O2, O1, app_assoc. split; [reflexivity|]. split.
    - rewrite rev_app_distr. eapply forest_ok_app; eassumption.
    - intro T. rewrite L1, L2 by assumption. reflexivity.
  Qed.

  Lemma good_repeat : forall la n f, good_fun la f -> good_fun la (repeat_loop n f).
  Proof.
    intros la n f Hf. induction n as [|n IH]; intro s; simpl; [exact I|].
    pose proof (Hf s) as H. destruct (f s) eqn:E; auto.
    - pose proof (IH s0) as H2. pose proof (good_trans la s s0 _ H H2) as H3.
      destruct (repeat_loop n f s0) eqn:E2; auto.
      (* repeat never fails *)
      exfalso. clear - E2. revert s0 s1 E2. induction n; intros; simpl in E2; [discriminate|].
      destruct (f s0); try discriminate. eapply IHn; eassumption.
    - simpl in H. destruct H as (P & E1 & O). apply good_ok_self; assumption.
  Qed.

  Lemma repeat_never_fails : forall n f (s s' : st), repeat_loop n f s <> Fail s'.
  Proof.
    induction n; intros f s s' H; simpl in H; [discriminate|].
    destruct (f s); try discriminate. eapply IHn; eassumption.
  Qed.

  Lemma good_lookahead : forall p f, good_fun true f -> forall la, good_fun la (lookahead p f).
  Proof.
    intros p f Hf la s. unfold lookahead.
    pose proof (Hf (set_stk s (stack_snapshot (stk s)))) as H.
    destruct (f (set_stk s (stack_snapshot (stk s)))) eqn:E; auto.
    - simpl in H. destruct H as (_ & n & O & _ & L). rewrite (L eq_refl) in O. simpl in O.
      destruct p; [apply good_ok_self; simpl; auto|simpl; auto].
    - simpl in H. destruct H as (_ & _ & O).
      destruct p; [simpl; auto|apply good_ok_self; simpl; auto].
  Qed.

  Lemma good_restore : forall la f, good_fun la f -> good_fun la (restore_on_err f).
  Proof.
    intros la f Hf s. unfold restore_on_err.
    pose proof (Hf (set_stk s (stack_snapshot (stk s)))) as H.
    destruct (f (set_stk s (stack_snapshot (stk s)))) eqn:E; auto.
  Qed.

  Lemma good_push : forall la f, good_fun la f -> good_fun la (do_push f).
  Proof.
    intros la f Hf s. unfold do_push. pose proof (Hf s) as H. destruct (f s) eqn:E; auto.
  Qed.

  Lemma good_rule_wrap : forall r a la f, good_fun la f -> good_fun la (rule_wrap r a la f).
  Proof.
    intros r a la f Hf s. unfold rule_wrap. destruct (emits a la) eqn:Em; [|apply Hf].
    pose proof (Hf (set_out s [])) as H.
    destruct (f (set_out s [])) eqn:E; auto.
    - simpl in H. destruct H as (A & n & O & F & L). rewrite app_nil_r in O. simpl. split; [exact A|].
      exists [Node r (pos s) (pos s0) (rev (out s0))]. split; [reflexivity|]. split.
      + simpl. constructor; [lia| rewrite O; exact F |]. constructor. lia.
      + intro T. unfold emits in Em. rewrite T in Em. discriminate.
    - simpl in *. destruct H as (P & E1 & O). auto.
  Qed.

  Lemma good_rep_nonatomic : forall la n s r g, good la s r -> good_fun la (repeat_loop n g) ->
      weak la s (optional (bind r (repeat_loop n g))).
  Proof.
    intros la n s r g H H0. destruct r as [s0|s0| |]; simpl; auto.
    - pose proof (H0 s0) as H2. pose proof (good_trans la s s0 _ H H2) as H3.
      destruct (repeat_loop n g s0) eqn:E; simpl in *; auto.
      exfalso. eapply repeat_never_fails. eassumption.
    - simpl in H. destruct H as (P & E & O). apply good_ok_self; assumption.
  Qed.

  Lemma good_same : forall la s0 s r, pos s0 = pos s -> rest s0 = rest s -> out s0 = out s ->
      good la s0 r -> good la s r.
  Proof.
    intros la s0 s r P E O H. destruct r; simpl in *; auto.
    - unfold adv in *. rewrite P, E, O in H. exact H.
    - rewrite P, E, O in H. exact H.
  Qed.

  Definition good_runner (rf : runner) : Prop := forall m a la e, good_fun la (rf m a la e).

  Lemma good_call : forall rf, good_runner rf -> forall a la r, good_fun la (call_with G rf a la r).
  Proof.
    intros rf H a la r s. unfold call_with.
    destruct (rd_mod (g_def G r)); try (apply good_rule_wrap; intro s'; apply H); apply H.
  Qed.

  Lemma good_skip : forall n call, (forall a la r, good_fun la (call a la r)) ->
      forall a la, good_fun la (skip_with G n call a la).
  Proof.
    intros n call H a la s. unfold skip_with.
    destruct a; try (apply good_ok_self; reflexivity).
    destruct (g_ws G) as [w|], (g_comment G) as [c|]; try (apply good_ok_self; reflexivity).
    - apply good_sequence_bind.
      + apply good_repeat. apply H.
      + apply good_repeat. intro s1. apply good_sequence_bind; [apply H|]. apply good_repeat. apply H.
    - apply good_repeat. apply H.
    - apply good_repeat. apply H.
  Qed.

  Theorem run_good : forall f, good_runner (run G f).
  Proof.
    induction f as [|f IH]; intros m a la e s; [exact I|].
    pose proof (good_call _ IH) as IHc.
    pose proof (fun a la => good_skip f _ IHc a la) as IHs.
    rewrite run_S. cbv zeta.
    destruct e as [x|x|lo hi|r|b|x|x|x y|x y|x|x|ss|x|x].
    - apply good_match_string.
    - apply good_match_insensitive.
    - apply good_match_range.
    - apply IHc.
    - apply good_builtin.
    - apply good_lookahead. apply IH.
    - apply good_lookahead. apply IH.
    - destruct m.
      + apply good_sequence_bind; [apply IH|apply IH].
      + apply good_sequence.
        pose proof (good_bind la s _ (skip_with G f (call_with G (run G f)) a la) (IH false a la x s) (IHs a la)) as H1.
        destruct (bind (run G f false a la x s) (skip_with G f (call_with G (run G f)) a la)) eqn:E1; simpl; auto.
        exact (good_bind la s (Ok s0) (run G f false a la y) H1 (IH false a la y)).
    - pose proof (IH m a la x s) as H1. destruct (run G f m a la x s) eqn:E1; auto.
      simpl in H1. destruct H1 as (P & E & O).
      exact (good_same la s0 s _ P E O (IH m a la y s0)).
    - apply good_optional. apply IH.
    - destruct m.
      + apply good_repeat. apply IH.
      + apply good_sequence.
        assert (Hg : good_fun la (fun s1 => sequence s1 (bind (skip_with G f (call_with G (run G f)) a la s1)
                                                               (run G f false a la x)))).
        { intro s1. apply good_sequence_bind; [apply IHs|apply IH]. }
        apply good_rep_nonatomic; [apply IH|]. apply good_repeat. exact Hg.
    - destruct (skip_until_adv ss (rest s) (pos s)) as (k & L & E). rewrite E. apply good_advance. assumption.
    - apply good_push. apply IH.
    - apply good_restore. apply IH.
  Qed.

  (* the statements pinned in Properties/C10.v *)
  Theorem run_fail_unchanged : forall f m a la e s s',
      run G f m a la e s = Fail s' -> pos s' = pos s /\ rest s' = rest s /\ out s' = out s.
  Proof. intros f m a la e s s' H. pose proof (run_good f m a la e s) as Hg. rewrite H in Hg. exact Hg. Qed.

  Theorem run_spans : forall f m a la e s s',
      run G f m a la e s = Ok s' ->
      (pos s <= pos s')%N /\ (pos s' + slen (rest s') = pos s + slen (rest s))%N /\
      (exists k, rest s' = sdrop k (rest s)) /\
      exists new, out s' = new ++ out s /\ forest_ok (pos s) (pos s') (rev new).
  Proof.
    intros f m a la e s s' H. pose proof (run_good f m a la e s) as Hg. rewrite H in Hg.
    destruct Hg as (A & n & O & F & _). split; [apply adv_pos; assumption|]. split; [apply adv_total; assumption|].
    split; [destruct A as (k & _ & E & _); exists k; exact E|]. exists n. auto.
  Qed.

  Theorem parse_spans_inside_text : forall f r text s',
      parse G f r text = Ok s' ->
      forest_ok 0 (slen text) (rev (out s')) /\ (pos s' <= slen text)%N.
  Proof.
    intros f r text s' H. unfold parse in H.
    pose proof (good_call _ (run_good f) NonAtomic false r (init text)) as Hg. rewrite H in Hg.
    destruct Hg as (A & n & O & F & _). simpl in O. rewrite app_nil_r in O. subst n.
    pose proof (adv_total _ _ A) as T. simpl in T.
    split.
    - eapply forest_ok_widen; [exact F|simpl; lia|lia].
    - lia.
  Qed.
End Generic.
