(* proofs/PegQuiet.v — QUIET RULES EMIT NO PAIRS, for every grammar (C09 parser half, item (c) / F20).
   A set Q of rules is *quiet* when every rule in it is silent (`_{ .. }`) and its body references only rules
   of Q; if in addition the implicit-skip rules WHITESPACE / COMMENT of the grammar (when present) are in Q, then
   the interpreter coq/Peg.v, run on ANY expression whose rule references all lie in Q, from ANY state, with ANY
   fuel / mode / atomicity / lookahead flag, leaves the list of produced pairs [out] exactly as it found it —
   on success and on failure.  (Induction on the fuel, same skeleton as PegGeneric.run_good.)
   Instantiated on the regenerated grammar gen/Grammar.v with Q = {NEWLINE, inline_comment, plain_newline,
   WHITESPACE}: a "//" run read through NEWLINE never becomes a pair, for EVERY text (F20 as a theorem). *)
From Coq Require Import String Ascii List NArith Bool Arith Lia.
Require Import Blots.Peg Blots.proofs.PegGeneric.
Import ListNotations.

Section Quiet.
  Variable R : Type.
  Variable G : grammar R.
  Notation st := (st R).
  Notation res := (res R).
  Notation runner := (runner R).

  (* the rules an expression references *)
  Fixpoint idents (e : expr R) : list R :=
    match e with
    | Ident r => [r]
    | PosPred x | NegPred x | Opt x | Rep x | Push x | RestoreOnErr x => idents x
    | Seq a b | Choice a b => idents a ++ idents b
    | _ => []
    end.

  Variable Q : R -> bool.
  Hypothesis Q_silent : forall r, Q r = true -> rd_mod (g_def G r) = MSilent.
  Hypothesis Q_closed : forall r, Q r = true -> forallb Q (idents (rd_body (g_def G r))) = true.
  Hypothesis Q_ws : forall w, g_ws G = Some w -> Q w = true.
  Hypothesis Q_comment : forall c, g_comment G = Some c -> Q c = true.

  Definition quiet (s : st) (r : res) : Prop :=
    match r with
    | Ok s' => out s' = out s
    | Fail s' => out s' = out s
    | _ => True
    end.
  Definition quiet_fun (g : st -> res) : Prop := forall s, quiet s (g s).

  Lemma quiet_trans : forall s s1 r, out s1 = out s -> quiet s1 r -> quiet s r.
  Proof. intros s s1 r E H. destruct r; simpl in *; congruence. Qed.

  Lemma quiet_bind : forall s r f, quiet s r -> quiet_fun f -> quiet s (bind r f).
  Proof.
    intros s r f Hr Hf. destruct r; simpl in *; auto.
    eapply quiet_trans; [exact Hr|apply Hf].
  Qed.
  Lemma quiet_sequence : forall s r, quiet s r -> quiet s (sequence s r).
  Proof. intros s r H. destruct r; simpl in *; auto. Qed.
  Lemma quiet_optional : forall s r, quiet s r -> quiet s (optional r).
  Proof. intros s r H. destruct r; simpl in *; auto. Qed.
  Lemma quiet_repeat : forall n f, quiet_fun f -> quiet_fun (repeat_loop n f).
  Proof.
    intros n f Hf. induction n as [|n IH]; intro s; simpl; [exact I|].
    pose proof (Hf s) as H. destruct (f s) eqn:E; simpl in *; auto.
    eapply quiet_trans; [exact H|apply IH].
  Qed.
  Lemma quiet_lookahead : forall p f, quiet_fun f -> quiet_fun (lookahead p f).
  Proof.
    intros p f Hf s. unfold lookahead.
    pose proof (Hf (set_stk s (stack_snapshot (stk s)))) as H.
    destruct (f (set_stk s (stack_snapshot (stk s)))) eqn:E; simpl in *; auto; destruct p; simpl; auto.
  Qed.
  Lemma quiet_restore : forall f, quiet_fun f -> quiet_fun (restore_on_err f).
  Proof.
    intros f Hf s. unfold restore_on_err.
    pose proof (Hf (set_stk s (stack_snapshot (stk s)))) as H.
    destruct (f (set_stk s (stack_snapshot (stk s)))) eqn:E; simpl in *; auto.
  Qed.
  Lemma quiet_push : forall f, quiet_fun f -> quiet_fun (do_push f).
  Proof.
    intros f Hf s. unfold do_push. pose proof (Hf s) as H. destruct (f s) eqn:E; simpl in *; auto.
  Qed.

  Lemma quiet_match_string : forall x, quiet_fun (match_string x).
  Proof. intros x s. unfold match_string. destruct (drop_prefix x (rest s)); simpl; reflexivity. Qed.
  Lemma quiet_match_insensitive : forall x, quiet_fun (match_insensitive x).
  Proof. intros x s. unfold match_insensitive. destruct (drop_prefix_ci x (rest s)); simpl; reflexivity. Qed.
  Lemma quiet_match_range : forall lo hi, quiet_fun (match_range lo hi).
  Proof.
    intros lo hi s. unfold match_range. destruct (rest s); simpl; [reflexivity|].
    destruct (in_range lo hi a); simpl; reflexivity.
  Qed.
  Lemma quiet_builtin : forall b, quiet_fun (run_builtin b).
  Proof.
    intros b s. destruct b; simpl.
    - destruct (rest s); simpl; reflexivity.
    - destruct (N.eqb (pos s) 0); simpl; reflexivity.
    - destruct (rest s); simpl; reflexivity.
    - destruct (stack_peek (stk s)); [apply quiet_match_string|exact I].
    - destruct (stack_pop (stk s)) as [[x|] k]; [|exact I].
      exact (quiet_match_string x (set_stk s k)).
    - destruct (stack_pop (stk s)) as [[x|] k]; simpl; reflexivity.
  Qed.

  (* a runner is quiet when it is quiet on every expression that references only rules of Q *)
  Definition quiet_runner (rf : runner) : Prop :=
    forall m a la e, forallb Q (idents e) = true -> quiet_fun (rf m a la e).

  Lemma quiet_call : forall rf, quiet_runner rf -> forall a la r, Q r = true -> quiet_fun (call_with G rf a la r).
  Proof.
    intros rf H a la r Hr s. unfold call_with. rewrite (Q_silent r Hr). apply H. apply Q_closed. exact Hr.
  Qed.

  Lemma quiet_skip : forall n rf, quiet_runner rf -> forall a la, quiet_fun (skip_with G n (call_with G rf) a la).
  Proof.
    intros n rf H a la s. unfold skip_with.
    destruct a; try (simpl; reflexivity).
    destruct (g_ws G) as [w|] eqn:Ew, (g_comment G) as [c|] eqn:Ec; try (simpl; reflexivity).
    - pose proof (Q_ws w eq_refl) as Hw. pose proof (Q_comment c eq_refl) as Hc.
      apply quiet_sequence. apply quiet_bind.
      + apply quiet_repeat. apply quiet_call; assumption.
      + apply quiet_repeat. intro s1. apply quiet_sequence. apply quiet_bind.
        * apply quiet_call; assumption.
        * apply quiet_repeat. apply quiet_call; assumption.
    - apply quiet_repeat. apply quiet_call; [assumption|]. apply Q_ws. reflexivity.
    - apply quiet_repeat. apply quiet_call; [assumption|]. apply Q_comment. reflexivity.
  Qed.

  Theorem run_quiet : forall f, quiet_runner (run G f).
  Proof.
    induction f as [|f IH]; intros m a la e He s; [exact I|].
    pose proof (quiet_call _ IH) as IHc.
    pose proof (fun a la => quiet_skip f _ IH a la) as IHs.
    rewrite run_S. cbv zeta.
    destruct e as [x|x|lo hi|r|b|x|x|x y|x y|x|x|ss|x|x]; cbn [idents] in He;
      try (rewrite forallb_app in He; apply andb_prop in He; destruct He as [Hx Hy]).
    - apply quiet_match_string.
    - apply quiet_match_insensitive.
    - apply quiet_match_range.
    - apply IHc. cbn [forallb] in He. rewrite andb_true_r in He. exact He.
    - apply quiet_builtin.
    - apply quiet_lookahead. apply IH. exact He.
    - apply quiet_lookahead. apply IH. exact He.
    - destruct m.
      + apply quiet_sequence. apply quiet_bind; [apply IH; exact Hx|apply IH; exact Hy].
      + apply quiet_sequence. apply quiet_bind; [|apply IH; exact Hy].
        apply quiet_bind; [apply IH; exact Hx|apply IHs].
    - pose proof (IH m a la x Hx s) as H1. destruct (run G f m a la x s) eqn:E1; auto.
      simpl in H1. eapply quiet_trans; [exact H1|]. apply IH. exact Hy.
    - apply quiet_optional. apply IH. exact He.
    - destruct m.
      + apply quiet_repeat. apply IH. exact He.
      + apply quiet_sequence. apply quiet_optional. apply quiet_bind; [apply IH; exact He|].
        apply quiet_repeat. intro s1. apply quiet_sequence. apply quiet_bind; [apply IHs|apply IH; exact He].
    - destruct (skip_until_pos ss (pos s) (rest s)) as [p r]. simpl. reflexivity.
    - apply quiet_push. apply IH. exact He.
    - apply quiet_restore. apply IH. exact He.
  Qed.

  (* the statement in the form used by Properties/C09.v *)
  Theorem quiet_rules_emit_no_pairs : forall fuel m a la e s s',
      forallb Q (idents e) = true ->
      (run G fuel m a la e s = Ok s' \/ run G fuel m a la e s = Fail s') ->
      out s' = out s.
  Proof.
    intros fuel m a la e s s' He H. pose proof (run_quiet fuel m a la e He s) as Hq.
    destruct H as [H|H]; rewrite H in Hq; exact Hq.
  Qed.
End Quiet.

(* ================================================================== the regenerated grammar *)
Require Import Blots.gen.Grammar Blots.PegComments Blots.proofs.PegCommentsCompose.

Lemma expr_idents_idents : forall e : expr grule, expr_idents e = idents grule e.
Proof. induction e; cbn [expr_idents idents]; congruence. Qed.

(* the statement kept as `C09_quiet_rules_emit_no_pairs_full` in the previous round, now proved *)
Theorem quiet_rules_emit_no_pairs_blots : quiet_rules_emit_no_pairs_full.
Proof.
  intros Q HQ Hws Hc fuel m a la e s s' He H.
  refine (quiet_rules_emit_no_pairs grule blots_grammar Q _ _ Hws Hc fuel m a la e s s' _ H).
  - intros r Hr. destruct (HQ r Hr) as [Hs _]. unfold is_silent in Hs.
    change (g_def blots_grammar r) with (grule_def r). destruct (rd_mod (grule_def r)); try discriminate Hs. reflexivity.
  - intros r Hr. destruct (HQ r Hr) as [_ Hcl]. rewrite <- expr_idents_idents. exact Hcl.
  - rewrite <- expr_idents_idents. exact He.
Qed.

(* the rules a line break inside an expression is read through, plus the implicit-skip rule WHITESPACE *)
Definition newline_quiet_set : list grule := [PG_NEWLINE; PG_inline_comment; PG_plain_newline; PG_WHITESPACE].
Definition in_newline_quiet (r : grule) : bool := existsb (grule_eqb r) newline_quiet_set.

Lemma newline_quiet_set_ok : forall r, in_newline_quiet r = true ->
  is_silent r = true /\ forallb in_newline_quiet (expr_idents (rd_body (grule_def r))) = true.
Proof. intros r. destruct r; vm_compute; intro H; try discriminate H; split; reflexivity. Qed.

(* F20 at the grammar level, for EVERY text and every calling context: whatever NEWLINE (hence inline_comment)
   reads — in particular a "//" run up to the line break — produces no pair, whether it succeeds or fails *)
Theorem newline_never_yields_a_pair : forall fuel m a la s s',
  (run blots_grammar fuel m a la (Ident PG_NEWLINE) s = Peg.Ok s' \/
   run blots_grammar fuel m a la (Ident PG_NEWLINE) s = Peg.Fail s') ->
  out s' = out s.
Proof.
  intros fuel m a la s s' H.
  refine (quiet_rules_emit_no_pairs_blots in_newline_quiet newline_quiet_set_ok _ _ fuel m a la _ s s' _ H).
  - intros w Hw. vm_compute in Hw. inversion Hw. reflexivity.
  - intros w Hw. vm_compute in Hw. discriminate Hw.
  - reflexivity.
Qed.

(* the same for every expression built from the four rules and terminals only, e.g. (WHITESPACE | NEWLINE)* *)
Theorem newline_exprs_never_yield_a_pair : forall e fuel m a la s s',
  forallb in_newline_quiet (expr_idents e) = true ->
  (run blots_grammar fuel m a la e s = Peg.Ok s' \/ run blots_grammar fuel m a la e s = Peg.Fail s') ->
  out s' = out s.
Proof.
  intros e fuel m a la s s' He H.
  refine (quiet_rules_emit_no_pairs_blots in_newline_quiet newline_quiet_set_ok _ _ fuel m a la e s s' He H).
  - intros w Hw. vm_compute in Hw. inversion Hw. reflexivity.
  - intros w Hw. vm_compute in Hw. discriminate Hw.
Qed.
