(* proofs/PegShapeProgram.v — the comment part of `atoms_ok` at PROGRAM level: every comment the parser model puts
   into the commented program (leading / trailing / statement-own / end-of-line) is "//" ++ r with no line feed in r.
   = C09_parse_keeps_comments (program comments = tree comment pairs) + PegShape.shape_comment_texts (proved of
   Peg.parse).  The remaining distance to ScanFmt.comment_ok is a bare CR inside r, which the grammar admits. *)
From Coq Require Import String Ascii List NArith ZArith Bool Arith Lia.
Require Import Blots.Num Blots.gen.Builtins Blots.Ast Blots.Outcome Blots.Formatter.
Require Import Blots.Peg Blots.gen.Grammar Blots.PegToItems Blots.PegComments Blots.proofs.PegComments
               Blots.proofs.PegCommentsWf Blots.proofs.PegShape.
Import ListNotations.

Theorem parsed_program_comment_texts : forall text forest p,
  parse_program_c text = PCOk forest p ->
  forest_view_ok text forest = true ->
  forest_shape_ok text forest = true ->
  forest_no_empty_container text forest = true ->
  Forall comment_text_ok (program_comments p).
Proof.
  intros text forest p H Hv Hs Hn.
  rewrite (parse_keeps_comments text forest p Hv Hs Hn (parse_program_c_inv _ _ _ H)).
  exact (shape_comment_texts_program text forest p H).
Qed.

(* comment_text_ok is exactly ScanFmt.comment_ok up to carriage returns *)
Lemma comment_text_ok_iff : forall t,
  comment_text_ok t <-> exists r, t = String "/" (String "/" r) /\ nl_free r = true.
Proof. intro t. reflexivity. Qed.
