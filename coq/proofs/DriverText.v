(* DriverText.v — C09 for the two statement drivers at text level: the comments a lexer-level
   scan finds in the text a driver emits are the comments of the program, in order. *)
From Coq Require Import String Ascii List ZArith Bool Lia.
Require Import Blots.Num Blots.gen.Builtins Blots.Ast Blots.Formatter Blots.proofs.ExprInd
  Blots.proofs.Scan Blots.proofs.Comments Blots.proofs.ScanFmt Blots.proofs.Idempotent.
Import ListNotations.
Open Scope list_scope.

(* ------------------------------------------------------------------ drivers at text level *)
Lemma wf_repeat_nl : forall n d, wf_doc d -> wf_doc (repeat Nl n ++ d).
Proof. induction n; intros d H; [exact H|]. cbn [repeat app wf_doc]. now apply IHn. Qed.

Lemma gap_newlines_pos : forall e s, exists n, Z.to_nat (gap_newlines e s) = S n.
Proof.
  intros e s. pose proof (gap_newlines_range e s) as R.
  exists (Z.to_nat (gap_newlines e s - 1)). lia.
Qed.

(* joining well-formed statement documents (each may end with its end-of-line comment) *)
Lemma wf_join_spacing : forall l, Forall (fun x => wf_doc (fst (fst x))) l -> wf_doc (join_spacing l).
Proof.
  induction l as [|[[d s] e] rest IH]; intros H; [exact I|].
  inversion H as [|? ? Hd Hr]; subst. cbn [fst] in Hd.
  destruct rest as [|[[d2 s2] e2] rest']; [exact Hd|].
  cbn [join_spacing]. destruct (gap_newlines_pos e s2) as [n ->].
  cbn [repeat app]. apply wf_app_nl; [exact Hd|]. cbn [wf_doc]. apply wf_repeat_nl. now apply IH.
Qed.

Section DriverText.
  Variable e2s : expr -> string.
  Variable np : binop -> expr -> bool -> bool.
  Variable rk : string -> string.
  Variable key_ok : string -> bool.
  Hypothesis Hrk : forall k, key_ok k = true -> neutral (rk k).

  (* a statement whose document is good: its expression satisfies the hypotheses of
     fmtd_text_comments at the driver's width; comments are comment texts *)
  Definition stmt_ok (mw : option nat) (s : stmt) : Prop :=
    let w := match mw with Some n => n | None => DEFAULT_MAX_COLUMNS end in
    match s with
    | St k eol _ _ =>
        (match k with
         | SComment c => comment_ok c = true
         | SExpr e =>
             wf_ast e = true /\ atoms_ok key_ok e = true /\
             forallb cfree (doc_opaque (fmtd e2s np rk w e 0)) = true /\
             opaque_texts_neutral (fmtd e2s np rk w e 0)
         | SOut e =>
             wf_ast e = true /\ atoms_ok key_ok e = true /\
             forallb cfree (doc_opaque (fmtd e2s np rk w (EOutput e) 0)) = true /\
             opaque_texts_neutral (fmtd e2s np rk w (EOutput e) 0)
         end) /\
        match eol with
        | Some c => comment_ok c = true /\ match k with SComment _ => False | _ => True end
        | None => True
        end
    end.

  Lemma lib_stmt_wf : forall mw s, stmt_ok mw s ->
    wf_doc (fst (fst (lib_stmt e2s np rk mw s))) /\
    doc_comments (fst (fst (lib_stmt e2s np rk mw s))) = stmt_comments s.
  Proof.
    intros mw [k eol a b] [Hk He]. cbn [lib_stmt fst stmt_comments].
    assert (G : Good (match k with
                      | SExpr e => format_expr_doc e2s np rk e mw
                      | SOut e => format_expr_doc e2s np rk (EOutput e) mw
                      | SComment c => [Comment c]
                      end) \/ exists c, k = SComment c /\ comment_ok c = true).
    { destruct k as [e|e|c]; [left|left|right; eauto].
      - destruct Hk as (Hw & Ha & Hc & Ho). unfold format_expr_doc.
        exact (proj1 (fmtd_good_and_cond e2s np rk key_ok Hrk _ e) Ha 0 Ho).
      - destruct Hk as (Hw & Ha & Hc & Ho). unfold format_expr_doc.
        exact (proj1 (fmtd_good_and_cond e2s np rk key_ok Hrk _ (EOutput e)) Ha 0 Ho). }
    assert (C : doc_comments (match k with
                      | SExpr e => format_expr_doc e2s np rk e mw
                      | SOut e => format_expr_doc e2s np rk (EOutput e) mw
                      | SComment c => [Comment c]
                      end) = match k with SExpr e | SOut e => expr_comments e | SComment c => [c] end).
    { destruct k as [e|e|c]; [| |reflexivity].
      - destruct Hk as (Hw & Ha & Hc & Ho). unfold format_expr_doc. now apply fmtd_comments_preserved.
      - destruct Hk as (Hw & Ha & Hc & Ho). unfold format_expr_doc.
        rewrite fmtd_comments_preserved; [reflexivity|exact Hw|exact Hc]. }
    destruct eol as [c|].
    - destruct He as [He Hnc]. rewrite dc_app, C. split; [|reflexivity].
      destruct G as [[W E]|(c0 & -> & Hc0)]; [|contradiction].
      apply wf_app_good; [exact W|exact E|]. cbn. repeat split. now apply comment_ok_text.
    - rewrite C, app_nil_r. split; [|reflexivity].
      destruct G as [[W E]|(c0 & -> & Hc0)]; [exact W|].
      cbn. split; [now apply comment_ok_text|exact I].
  Qed.

  (* C09 for the library driver at text level: the comments a lexer-level scan finds in the text
     format_blots returns are the comments of the program, in order *)
  Theorem lib_driver_text_comments : forall mw p d,
    Forall (stmt_ok mw) p ->
    format_lib e2s np rk mw p = Some d ->
    scan_comments (render d) = program_comments p.
  Proof.
    intros mw p d Hp Hd. unfold format_lib in Hd.
    assert (d = join_spacing (map (lib_stmt e2s np rk mw) p))
      by (destruct p; [discriminate|now injection Hd]).
    subst d. clear Hd.
    rewrite render_scan.
    - assert (J : forall l, doc_comments (join_spacing l) = flat_map (fun x => doc_comments (fst (fst x))) l).
      { induction l as [|[[d s] e] rest IH]; [reflexivity|].
        destruct rest as [|[[d2 s2] e2] rest']; [cbn; now rewrite app_nil_r|].
        cbn [join_spacing flat_map fst] in *. rewrite !dc_app, IH. f_equal.
        assert (R : forall n, doc_comments (repeat Nl n) = []) by (induction n; [reflexivity|exact IHn]).
        now rewrite R. }
      rewrite J. unfold program_comments. induction Hp as [|s r Hs Hr IH]; [reflexivity|].
      cbn [map flat_map]. rewrite (proj2 (lib_stmt_wf mw s Hs)), IH. reflexivity.
    - apply wf_join_spacing. induction Hp as [|s r Hs Hr IH]; [constructor|].
      cbn [map]. constructor; [exact (proj1 (lib_stmt_wf mw s Hs))|exact IH].
  Qed.

  (* ... and for blots --format *)
  Lemma cli_stmt_lib : forall s,
    cli_stmt e2s np rk s = fst (fst (lib_stmt e2s np rk None s)) ++ [Nl].
  Proof.
    intros [k [c|] a b]; cbn [cli_stmt lib_stmt fst].
    - now rewrite <- app_assoc.
    - reflexivity.
  Qed.

  Lemma wf_cli : forall p, Forall (stmt_ok None) p ->
    wf_doc (format_cli e2s np rk p) /\ doc_comments (format_cli e2s np rk p) = program_comments p.
  Proof.
    unfold format_cli, program_comments. induction 1 as [|s r Hs Hr [IW IC]]; [split; [exact I|reflexivity]|].
    cbn [flat_map]. destruct (lib_stmt_wf None s Hs) as [W C]. rewrite cli_stmt_lib. split.
    - rewrite <- app_assoc. apply wf_app_nl; [exact W|exact IW].
    - rewrite !dc_app, C, IC. cbn. now rewrite app_nil_r.
  Qed.

  Theorem cli_driver_text_comments : forall p,
    Forall (stmt_ok None) p ->
    scan_comments (render (format_cli e2s np rk p)) = program_comments p.
  Proof. intros p H. destruct (wf_cli p H) as [W C]. now rewrite render_scan. Qed.
End DriverText.
