(* DriverText.v — C09 for the two statement drivers at text level: the comments a lexer-level
   scan finds in the text a driver emits are the comments of the program, in order. *)
From Coq Require Import String Ascii List ZArith Bool Lia.
Require Import Blots.Num Blots.gen.Builtins Blots.Ast Blots.Formatter Blots.proofs.ExprInd
  Blots.proofs.Scan Blots.proofs.Comments Blots.proofs.ScanFmt Blots.proofs.Idempotent.
Import ListNotations.
Open Scope list_scope.

(* ------------------------------------------------------------------ drivers at text level *)
Lemma wf_repeat_nl : forall n d, wf_doc d -> wf_doc (repeat Nl n ++ d).
Proof. induction n; intros d H; [exact H|]. cbn [repeat app wf_doc]. now apply IHn. Qed.

Lemma gap_newlines_pos : forall e s, exists n, Z.to_nat (gap_newlines e s) = S n.
Proof.
  intros e s. pose proof (gap_newlines_range e s) as R.
  exists (Z.to_nat (gap_newlines e s - 1)). lia.
Qed.

(* joining well-formed statement documents (each may end with its end-of-line comment) *)
Lemma wf_join_spacing : forall l, Forall (fun x => wf_doc (fst (fst x))) l -> wf_doc (join_spacing l).
Proof.
  induction l as [|[[d s] e] rest IH]; intros H; [exact I|].
  inversion H as [|? ? Hd Hr]; subst. cbn [fst] in Hd.
  destruct rest as [|[[d2 s2] e2] rest']; [exact Hd|].
  cbn [join_spacing]. destruct (gap_newlines_pos e s2) as [n ->].
  cbn [repeat app]. apply wf_app_nl; [exact Hd|]. cbn [wf_doc]. apply wf_repeat_nl. now apply IH.
Qed.

Section DriverText.
  Variable O : oracles.
  Variable key_ok : string -> bool.
  Hypothesis Hrk : forall k, key_ok k = true -> neutral (o_record_key O k).

  (* a statement whose document is good: its expression satisfies the hypotheses of
     fmtd_text_comments at the driver's width; comments are comment texts; a comment statement
     has no second comment *)
  Definition stmt_ok (mw : option nat) (s : stmt) : Prop :=
    let w := match mw with Some n => n | None => DEFAULT_MAX_COLUMNS end in
    match s with
    | St k eol _ _ =>
        (match k with
         | SComment c => comment_ok c = true
         | SExpr e =>
             wf_ast e = true /\ atoms_ok key_ok e = true /\
             forallb cfree (doc_opaque (fmtd O w e 0)) = true /\
             opaque_texts_neutral (fmtd O w e 0)
         | SOut e =>
             wf_ast e = true /\ atoms_ok key_ok e = true /\
             forallb cfree (doc_opaque (fmtd O w (EOutput e) 0)) = true /\
             opaque_texts_neutral (fmtd O w (EOutput e) 0)
         end) /\
        match eol with
        | Some c => comment_ok c = true /\ match k with SComment _ => False | _ => True end
        | None => True
        end
    end.

  Lemma dc_protect_minus : forall d b, doc_comments (protect_minus d b) = doc_comments d.
  Proof.
    intros d b. unfold protect_minus. destruct (negb b && starts_with_minus (render d)); [|reflexivity].
    rewrite !dc_app. cbn. now rewrite app_nil_r.
  Qed.

  Lemma comment_not_minus : forall c, comment_ok c = true -> starts_with_minus c = false.
  Proof.
    intros [|a [|b r]] H; try discriminate. cbn in H. apply andb_prop in H as [H _].
    apply andb_prop in H as [Ha _]. apply Ascii.eqb_eq in Ha. subst a. reflexivity.
  Qed.

  (* the statement's own document (before the end-of-line comment) *)
  Definition kind_doc (mw : option nat) (k : stmt_kind) : doc :=
    match k with
    | SComment c => [Comment c]
    | SOut e => format_expr_doc O (EOutput e) mw
    | SExpr e => format_expr_doc O e mw
    end.

  Lemma kind_doc_facts : forall mw k eol a b first, stmt_ok mw (St k eol a b) ->
    doc_comments (protect_minus (kind_doc mw k) first) =
      match k with SExpr e | SOut e => expr_comments e | SComment c => [c] end /\
    (Good (protect_minus (kind_doc mw k) first) \/
     exists c, k = SComment c /\ comment_ok c = true /\ protect_minus (kind_doc mw k) first = [Comment c]).
  Proof.
    intros mw k eol a b first [Hk He]. rewrite dc_protect_minus. destruct k as [e|e|c].
    - destruct Hk as (Hw & Ha & Hc & Ho). split; [now apply fmtd_comments_preserved|left].
      apply protect_minus_good. exact (proj1 (fmtd_good_and_cond O key_ok Hrk _ e) Ha 0 Ho).
    - destruct Hk as (Hw & Ha & Hc & Ho). split.
      + unfold kind_doc, format_expr_doc. rewrite fmtd_comments_preserved; [reflexivity|exact Hw|exact Hc].
      + left. apply protect_minus_good. exact (proj1 (fmtd_good_and_cond O key_ok Hrk _ (EOutput e)) Ha 0 Ho).
    - split; [reflexivity|right]. exists c. repeat split; auto.
      unfold protect_minus, kind_doc. cbn [render render_piece]. rewrite append_nil_r, (comment_not_minus c Hk).
      now rewrite andb_false_r.
  Qed.

  Lemma lib_stmt_wf : forall mw first s, stmt_ok mw s ->
    wf_doc (fst (fst (lib_stmt O mw first s))) /\
    doc_comments (fst (fst (lib_stmt O mw first s))) = stmt_comments s.
  Proof.
    intros mw first [k eol a b] Hs. destruct (kind_doc_facts mw k eol a b first Hs) as [C G].
    destruct Hs as [Hk He]. cbn [lib_stmt fst stmt_comments].
    change (match k with
            | SExpr e => format_expr_doc O e mw
            | SOut e => format_expr_doc O (EOutput e) mw
            | SComment c => [Comment c]
            end) with (kind_doc mw k).
    destruct eol as [c|].
    - destruct He as [He Hnc]. rewrite dc_app, C. split; [|reflexivity].
      destruct G as [[W E]|(c0 & -> & Hc0 & _)]; [|contradiction].
      apply wf_app_good; [exact W|exact E|]. cbn. repeat split. now apply comment_ok_text.
    - rewrite C, app_nil_r. split; [|reflexivity].
      destruct G as [[W E]|(c0 & -> & Hc0 & ->)]; [exact W|].
      cbn. split; [now apply comment_ok_text|exact I].
  Qed.

  Lemma Forall_map_first : forall {A B} (P : B -> Prop) (f : bool -> A -> B) l,
    (forall b x, In x l -> P (f b x)) -> Forall P (map_first f l).
  Proof.
    intros A B P f [|x r] H; [constructor|]. cbn [map_first]. constructor; [apply H; now left|].
    apply Forall_forall. intros y Hy. apply in_map_iff in Hy as (z & <- & Hz). apply H. now right.
  Qed.

  (* C09 for the library driver at text level: the comments a lexer-level scan finds in the text
     format_blots returns are the comments of the program, in order *)
  Theorem lib_driver_text_comments : forall mw p d,
    Forall (stmt_ok mw) p ->
    format_lib O mw p = Some d ->
    scan_comments (render d) = program_comments p.
  Proof.
    intros mw p d Hp Hd. unfold format_lib in Hd.
    assert (d = join_spacing (map_first (lib_stmt O mw) p))
      by (destruct p; [discriminate|now injection Hd]).
    subst d. clear Hd. rewrite Forall_forall in Hp.
    rewrite render_scan.
    - assert (J : forall l, doc_comments (join_spacing l) = flat_map (fun x => doc_comments (fst (fst x))) l).
      { induction l as [|[[d s] e] rest IH]; [reflexivity|].
        destruct rest as [|[[d2 s2] e2] rest']; [cbn; now rewrite app_nil_r|].
        cbn [join_spacing flat_map fst] in *. rewrite !dc_app, IH. f_equal.
        assert (R : forall n, doc_comments (repeat Nl n) = []) by (induction n; [reflexivity|exact IHn]).
        now rewrite R. }
      rewrite J. unfold program_comments. apply flat_map_map_first.
      intros b x Hx. exact (proj2 (lib_stmt_wf mw b x (Hp x Hx))).
    - apply wf_join_spacing. apply Forall_map_first.
      intros b x Hx. exact (proj1 (lib_stmt_wf mw b x (Hp x Hx))).
  Qed.

  (* ... and for blots --format *)
  Lemma cli_stmt_lib : forall first s, stmt_ok None s ->
    cli_stmt O first s = fst (fst (lib_stmt O None first s)) ++ [Nl].
  Proof.
    intros first [k [c|] a b] Hs; cbn [cli_stmt lib_stmt fst].
    - rewrite <- app_assoc. f_equal. destruct k as [e|e|c0]; [reflexivity| |destruct Hs as [_ [_ []]]].
      unfold protect_minus. destruct Hs as [(Hw & Ha & Hc & Ho) _].
      (* an output declaration starts with "output ": never with "-" *)
      assert (N : starts_with_minus (render (format_expr_doc O (EOutput e) None)) = false).
      { unfold format_expr_doc. rewrite fmtd_eq. unfold impl_doc.
        match goal with |- context [if ?b then _ else _] => destruct b end; reflexivity. }
      rewrite N, andb_false_r. reflexivity.
    - f_equal. destruct k as [e|e|c0]; [reflexivity| |].
      + unfold protect_minus.
        assert (N : starts_with_minus (render (format_expr_doc O (EOutput e) None)) = false).
        { unfold format_expr_doc. rewrite fmtd_eq. unfold impl_doc.
          match goal with |- context [if ?b then _ else _] => destruct b end; reflexivity. }
        rewrite N, andb_false_r. reflexivity.
      + destruct Hs as [Hk _]. unfold protect_minus. cbn [render render_piece].
        rewrite append_nil_r, (comment_not_minus c0 Hk), andb_false_r. reflexivity.
  Qed.

  Theorem cli_driver_text_comments : forall p,
    Forall (stmt_ok None) p ->
    scan_comments (render (format_cli O p)) = program_comments p.
  Proof.
    intros p Hp. unfold format_cli. rewrite Forall_forall in Hp.
    assert (W : forall l, (forall x, In x l -> stmt_ok None x) -> forall first,
              wf_doc (concat (map (cli_stmt O first) l)) /\
              doc_comments (concat (map (cli_stmt O first) l)) = flat_map stmt_comments l).
    { induction l as [|s r IH]; intros H first; [split; [exact I|reflexivity]|].
      cbn [map concat flat_map]. destruct (IH (fun x Hx => H x (or_intror Hx)) first) as [IW IC].
      assert (Hs := H s (or_introl eq_refl)). destruct (lib_stmt_wf None first s Hs) as [Ws Cs].
      rewrite (cli_stmt_lib first s Hs). split.
      - rewrite <- app_assoc. apply wf_app_nl; [exact Ws|exact IW].
      - rewrite !dc_app, Cs, IC. cbn. now rewrite app_nil_r. }
    destruct p as [|s r]; [reflexivity|].
    cbn [map_first concat]. unfold program_comments. cbn [flat_map].
    assert (Hs := Hp s (or_introl eq_refl)). destruct (lib_stmt_wf None true s Hs) as [Ws Cs].
    destruct (W r (fun x Hx => Hp x (or_intror Hx)) false) as [IW IC].
    rewrite render_scan.
    - rewrite dc_app, (cli_stmt_lib true s Hs), dc_app, Cs, IC. cbn. now rewrite app_nil_r.
    - rewrite (cli_stmt_lib true s Hs), <- app_assoc. apply wf_app_nl; [exact Ws|exact IW].
  Qed.
End DriverText.
