(* AllValidPure.v — every PURE built-in arm of EvalFull.v (aggregates; list, string, record built-ins; convert round
   random to_number to_string join) returns a VALID value (Valid.v) on valid arguments.  The structural arms
   are AllGenClosed.v's proofs (a value of the result is a value of an argument, or an atom), replayed because
   that development assumes its predicate holds of EVERY atom, numbers included; here a number atom needs
   its own argument: each arithmetic step is one of AllValidNum.v's lemmas (Flocq: the four standard-library
   real-number axioms), a parsed number is NumText.rn_decimal (correctly rounded = binary_round / Bdiv),
   a converted one is Units.convert's chain of * and /. *)
From Coq Require Import String Ascii List ZArith Bool Lia Permutation Floats.SpecFloat.
From Flocq Require Import Core.Core IEEE754.BinarySingleNaN.
Require Import Blots.Num Blots.gen.Builtins Blots.Ast Blots.Value Blots.Outcome Blots.Binop
               Blots.Env Blots.Eval Blots.BuiltinsHof Blots.Program Blots.EvalInst Blots.EvalFull
               Blots.BuiltinsList Blots.BuiltinsAgg Blots.BuiltinsText Blots.NumText Blots.DisplayNum
               Blots.UnitsBase Blots.Units Blots.Valid
               Blots.proofs.ValueInd Blots.proofs.SortLaws Blots.proofs.AggPercentile
               Blots.proofs.AllValidNum Blots.proofs.AllValidEval Blots.proofs.AllValidOps.
Import ListNotations.
Open Scope list_scope.
Open Scope nat_scope.

Definition closed_value (_ : store) (v : value) : Prop := valid_value v.
Definition closed_list (st : store) (l : list value) : Prop := Forall (closed_value st) l.
Definition closed_frame (st : store) (f : frame) : Prop := Forall (fun kv => closed_value st (snd kv)) f.
Definition atomic (v : value) : Prop :=
  match v with VBool _ | VStr _ | VNull => True | _ => False end.
Lemma closed_VList : forall st l, closed_value st (VList l) <-> closed_list st l.
Proof. intros st l. apply vv_list. Qed.
Lemma closed_VRec : forall st r, closed_value st (VRec r) <-> closed_frame st r.
Proof.
  intros st r. unfold closed_value, closed_frame, valid_value. cbn [valid_valueb].
  rewrite forallb_forall, Forall_forall. reflexivity.
Qed.
Lemma closed_VSpread : forall st w, closed_value st (VSpread w) <-> closed_value st w.
Proof. reflexivity. Qed.
Lemma atomic_closed : forall st v, atomic v -> closed_value st v.
Proof. intros st v H. destruct v; try contradiction; reflexivity. Qed.
Lemma closed_VNum : forall st x, valid_num x -> closed_value st (VNum x).
Proof. intros st x H. exact H. Qed.
Lemma closed_list_vvs : forall st l, closed_list st l <-> valid_values l.
Proof. intros st l. symmetry. apply vvs_Forall. Qed.

Lemma num_of_nat_valid : forall n, valid_num (num_of_nat n). Proof. intros n. apply num_of_Z_valid. Qed.
Lemma one_valid : valid_num BuiltinsList.one. Proof. apply num_of_Z_valid. Qed.
#[export] Hint Resolve num_of_nat_valid one_valid : vnum.

Ltac triv := first [exact I | apply atomic_closed; exact I
                   | apply closed_VNum; auto 6 with vnum].

Section Pure.
  Variable st : store.

(* the result is a number, a boolean, a string or null *)
Ltac atomic_result H :=
  repeat match type of H with
  | obind ?x _ = Ok _ => destruct x; cbn [obind] in H; try discriminate H
  | (if ?c then _ else _) = Ok _ => destruct c; try discriminate H
  | (match ?x with _ => _ end) = Ok _ => destruct x; try discriminate H
  end;
  try (inversion H; subst; triv).

  Lemma closed_incl : forall l l', closed_list st l -> (forall x, In x l' -> In x l) -> closed_list st l'.
  Proof.
    intros l l' Hc Hin. unfold closed_list in *. rewrite Forall_forall in *. intros x Hx. apply Hc, Hin, Hx.
  Qed.
  Lemma closed_atoms : forall {A} (f : A -> value) l, (forall a, closed_value st (f a)) -> closed_list st (map f l).
  Proof.
    intros A f l Hf. unfold closed_list. rewrite Forall_forall. intros x Hx. apply in_map_iff in Hx.
    destruct Hx as [a [<- _]]. apply Hf.
  Qed.
  Lemma barg_closed : forall args i v, closed_list st args -> BuiltinsList.arg args i = Ok v -> closed_value st v.
  Proof.
    intros args i v Hc H. unfold BuiltinsList.arg in H. destruct (nth_error args i) eqn:E; inversion H; subst.
    unfold closed_list in Hc. rewrite Forall_forall in Hc. apply Hc. eapply nth_error_In; eauto.
  Qed.
  Lemma aarg_closed : forall args i v, closed_list st args -> BuiltinsAgg.arg args i = Ok v -> closed_value st v.
  Proof.
    intros args i v Hc H. unfold BuiltinsAgg.arg in H. destruct (nth_error args i) eqn:E; inversion H; subst.
    unfold closed_list in Hc. rewrite Forall_forall in Hc. apply Hc. eapply nth_error_In; eauto.
  Qed.

  (* ---- aggregates: a number computed from the (valid) arguments ---- *)
  Lemma mapM_as_number_valid : forall l ns, closed_list st l -> mapM BuiltinsAgg.as_number l = Ok ns -> Forall valid_num ns.
  Proof.
    induction l as [|x l IH]; intros ns Hc H; cbn [mapM] in H; [inversion H; constructor|].
    inversion Hc; subst.
    destruct x; cbn [BuiltinsAgg.as_number obind] in H; try discriminate H.
    destruct (mapM BuiltinsAgg.as_number l) as [ys| | | |] eqn:E; cbn [obind] in H; try discriminate H.
    inversion H; subst. constructor; [assumption|apply IH; auto].
  Qed.
  Lemma collect_valid : forall args ns, closed_list st args ->
    (if Nat.eqb (length args) 1 then
       do a0 <- BuiltinsAgg.arg args 0;
       match a0 with
       | VList l => mapM BuiltinsAgg.as_number l
       | _ => do x <- BuiltinsAgg.as_number a0; Ok [x]
       end
     else mapM BuiltinsAgg.as_number args) = Ok ns -> Forall valid_num ns.
  Proof.
    intros args ns Hc H. destruct (Nat.eqb (length args) 1); [|eapply mapM_as_number_valid; eauto].
    destruct (BuiltinsAgg.arg args 0) as [a0| | | |] eqn:E0; cbn [obind] in H; try discriminate H.
    pose proof (aarg_closed _ _ _ Hc E0) as Ha0.
    destruct a0; cbn [BuiltinsAgg.as_number obind] in H; try discriminate H.
    - inversion H; subst. constructor; [exact Ha0|constructor].
    - eapply mapM_as_number_valid; [|exact H]. apply closed_VList. exact Ha0.
  Qed.
  Lemma fold_left_valid : forall (f : num -> num -> num) ns acc,
    (forall a b, valid_num a -> valid_num b -> valid_num (f a b)) ->
    valid_num acc -> Forall valid_num ns -> valid_num (fold_left f ns acc).
  Proof.
    intros f ns. induction ns as [|x ns IH]; intros acc Hf Ha Hn; cbn [fold_left]; [exact Ha|].
    inversion Hn; subst. apply IH; auto.
  Qed.
  Lemma insert_pc_valid : forall x l s, valid_num x -> Forall valid_num l -> insert_pc x l = Ok s -> Forall valid_num s.
  Proof.
    intros x l. induction l as [|y r IH]; intros s Hx Hl H; cbn [insert_pc] in H.
    - inversion H; subst. constructor; [exact Hx|constructor].
    - inversion Hl; subst. destruct (ncmp x y) as [[| |]|]; try discriminate H.
      + destruct (insert_pc x r) as [r'| | | |] eqn:E; cbn [obind] in H; try discriminate H.
        inversion H; subst. constructor; [assumption|eapply IH; eauto].
      + inversion H; subst. constructor; [exact Hx|exact Hl].
      + destruct (insert_pc x r) as [r'| | | |] eqn:E; cbn [obind] in H; try discriminate H.
        inversion H; subst. constructor; [assumption|eapply IH; eauto].
  Qed.
  Lemma sort_pc_valid : forall l s, Forall valid_num l -> sort_pc l = Ok s -> Forall valid_num s.
  Proof.
    intros l. unfold sort_pc.
    assert (G : forall l acc s, Forall valid_num l -> (forall a, acc = Ok a -> Forall valid_num a) ->
                fold_left (fun acc x => do a <- acc; insert_pc x a) l acc = Ok s -> Forall valid_num s).
    { clear l. induction l as [|x l IH]; intros acc s Hl Hacc H; cbn [fold_left] in H; [apply Hacc; exact H|].
      inversion Hl; subst. eapply IH; [eassumption| |exact H].
      intros a Ea. destruct acc as [a0| | | |]; cbn [obind] in Ea; try discriminate Ea.
      eapply insert_pc_valid; [eassumption|apply Hacc; reflexivity|exact Ea]. }
    intros s Hl H. eapply G; [exact Hl| |exact H]. intros a Ea. inversion Ea; subst. constructor.
  Qed.
  Lemma index_num_valid : forall ns i x, Forall valid_num ns -> index_num ns i = Ok x -> valid_num x.
  Proof.
    intros ns i x Hn H. unfold index_num in H. destruct (_ || _); [discriminate H|].
    destruct (nth_error ns (Z.to_nat i)) eqn:E; [|discriminate H]. inversion H; subst.
    rewrite Forall_forall in Hn. apply Hn. eapply nth_error_In; eauto.
  Qed.
  Lemma n1_valid : valid_num n1. Proof. apply num_of_Z_valid. Qed.
  Lemma n2_valid : valid_num n2. Proof. apply num_of_Z_valid. Qed.
  Lemma n100_valid : valid_num n100. Proof. apply num_of_Z_valid. Qed.
  Hint Resolve n1_valid n2_valid n100_valid : vnum.

  Ltac agg_start H nums Hn Ec :=
    match type of H with obind ?c _ = Ok _ => destruct c as [nums| | | |] eqn:Ec; cbn [obind] in H; try discriminate H end;
    match goal with Hc : closed_list st _ |- _ => pose proof (collect_valid _ _ Hc Ec) as Hn end;
    destruct (BuiltinsAgg.is_empty nums); [discriminate H|].
  Lemma bi_min_closed : forall args v, closed_list st args -> bi_min args = Ok v -> closed_value st v.
  Proof.
    intros args v Hc H. unfold bi_min, collect_nums_min in H. agg_start H nums Hn Ec.
    inversion H; subst. apply closed_VNum. apply fold_left_valid; auto with vnum; reflexivity.
  Qed.
  Lemma bi_max_closed : forall args v, closed_list st args -> bi_max args = Ok v -> closed_value st v.
  Proof.
    intros args v Hc H. unfold bi_max, collect_nums_max in H. agg_start H nums Hn Ec.
    inversion H; subst. apply closed_VNum. apply fold_left_valid; auto with vnum; reflexivity.
  Qed.
  Lemma bi_avg_closed : forall args v, closed_list st args -> bi_avg args = Ok v -> closed_value st v.
  Proof.
    intros args v Hc H. unfold bi_avg, collect_nums_avg in H. agg_start H nums Hn Ec.
    inversion H; subst. apply closed_VNum. apply ndiv_valid; [|apply num_of_Z_valid].
    apply fold_left_valid; auto with vnum; reflexivity.
  Qed.
  Lemma bi_sum_closed : forall args v, closed_list st args -> bi_sum args = Ok v -> closed_value st v.
  Proof.
    intros args v Hc H. unfold bi_sum, collect_nums_sum in H. agg_start H nums Hn Ec.
    inversion H; subst. apply closed_VNum. apply fold_left_valid; auto with vnum; reflexivity.
  Qed.
  Lemma bi_prod_closed : forall args v, closed_list st args -> bi_prod args = Ok v -> closed_value st v.
  Proof.
    intros args v Hc H. unfold bi_prod, collect_nums_prod in H. agg_start H nums Hn Ec.
    inversion H; subst. apply closed_VNum. apply fold_left_valid; auto with vnum.
  Qed.
  Lemma bi_median_closed : forall args v, closed_list st args -> bi_median args = Ok v -> closed_value st v.
  Proof.
    intros args v Hc H. unfold bi_median, collect_nums_median in H. agg_start H nums Hn Ec.
    destruct (has_nan nums); [inversion H; subst; reflexivity|].
    destruct (sort_pc nums) as [s| | | |] eqn:Es; cbn [obind] in H; try discriminate H.
    pose proof (sort_pc_valid _ _ Hn Es) as Hs.
    destruct (_ =? _)%Z.
    - destruct (index_num s (BuiltinsAgg.len s / 2 - 1)) as [a| | | |] eqn:Ea; cbn [obind] in H; try discriminate H.
      destruct (index_num s (BuiltinsAgg.len s / 2)) as [b| | | |] eqn:Eb; cbn [obind] in H; try discriminate H.
      inversion H; subst. apply closed_VNum.
      apply ndiv_valid; [apply nadd_valid; eapply index_num_valid; eauto|apply n2_valid].
    - destruct (index_num s (BuiltinsAgg.len s / 2)) as [a| | | |] eqn:Ea; cbn [obind] in H; try discriminate H.
      inversion H; subst. apply closed_VNum. eapply index_num_valid; eauto.
  Qed.
  Lemma bi_percentile_closed : forall args v, closed_list st args -> bi_percentile args = Ok v -> closed_value st v.
  Proof.
    intros args v Hc H. unfold bi_percentile, bi_percentile_gen in H.
    destruct (BuiltinsAgg.arg args 1) as [a1| | | |] eqn:E1; cbn [obind] in H; try discriminate H.
    destruct (BuiltinsAgg.as_number a1) as [p| | | |]; cbn [obind] in H; try discriminate H.
    destruct (BuiltinsAgg.arg args 0) as [a0| | | |] eqn:E0; cbn [obind] in H; try discriminate H.
    pose proof (aarg_closed _ _ _ Hc E0) as Ha0.
    destruct a0; cbn [BuiltinsAgg.as_list obind] in H; try discriminate H.
    destruct (negb (in_0_100 p)); [discriminate H|].
    destruct (mapM BuiltinsAgg.as_number l) as [nums| | | |] eqn:Em; cbn [obind] in H; try discriminate H.
    pose proof (mapM_as_number_valid _ _ (proj1 (closed_VList st l) Ha0) Em) as Hn.
    destruct (BuiltinsAgg.is_empty nums); [discriminate H|].
    destruct (has_nan nums); [inversion H; subst; reflexivity|].
    destruct (sort_pc nums) as [s| | | |] eqn:Es; cbn [obind] in H; try discriminate H.
    pose proof (sort_pc_valid _ _ Hn Es) as Hs.
    destruct (usize_sub false (BuiltinsAgg.len s) 1) as [l1| | | |]; cbn [obind] in H; try discriminate H.
    destruct (index_num s (percentile_index p l1)) as [x| | | |] eqn:Ex; cbn [obind] in H; try discriminate H.
    inversion H; subst. apply closed_VNum. eapply index_num_valid; eauto.
  Qed.
  Lemma dot_loop_valid : forall a b sum s, closed_list st a -> closed_list st b -> valid_num sum ->
    dot_loop sum a b = Ok s -> valid_num s.
  Proof.
    induction a as [|x a IH]; intros b sum s Ha Hb Hs H; cbn [dot_loop] in H; [inversion H; subst; exact Hs|].
    destruct b as [|y b]; [inversion H; subst; exact Hs|].
    inversion Ha; subst. inversion Hb; subst.
    destruct x; cbn [BuiltinsAgg.as_number obind] in H; try discriminate H.
    destruct y; cbn [BuiltinsAgg.as_number obind] in H; try discriminate H.
    eapply IH; [eassumption|eassumption| |exact H]. apply nadd_valid; [exact Hs|apply nmul_valid; assumption].
  Qed.
  Lemma bi_dot_closed : forall args v, closed_list st args -> bi_dot args = Ok v -> closed_value st v.
  Proof.
    intros args v Hc H. unfold bi_dot in H.
    destruct (BuiltinsAgg.arg args 0) as [a0| | | |] eqn:E0; cbn [obind] in H; try discriminate H.
    pose proof (aarg_closed _ _ _ Hc E0) as Ha0.
    destruct a0; cbn [BuiltinsAgg.as_list obind] in H; try discriminate H.
    destruct (BuiltinsAgg.arg args 1) as [a1| | | |] eqn:E1; cbn [obind] in H; try discriminate H.
    pose proof (aarg_closed _ _ _ Hc E1) as Ha1.
    destruct a1; cbn [BuiltinsAgg.as_list obind] in H; try discriminate H.
    destruct (negb _); [discriminate H|].
    destruct (dot_loop n0 l l0) as [s| | | |] eqn:Ed; cbn [obind] in H; try discriminate H.
    inversion H; subst. apply closed_VNum.
    apply (dot_loop_valid l l0 n0 s); [apply closed_VList; exact Ha0|apply closed_VList; exact Ha1|reflexivity|exact Ed].
  Qed.

  (* ---- list built-ins ---- *)
  Lemma bi_range_closed : forall args v, bi_range args = Ok v -> closed_value st v.
  Proof.
    assert (Hb : forall a b v, range_body a b = Ok v -> closed_value st v).
    { intros a b v H. unfold range_body in H.
      destruct (ngtb a b); try discriminate. destruct (_ || _); try discriminate.
      destruct (_ <? _)%Z; try discriminate. inversion H; subst.
      apply closed_VList. apply closed_atoms. intros z; triv. }
    intros args v H. unfold bi_range in H.
    destruct args as [|[] [|[] [|? ?]]]; try discriminate; eapply Hb; exact H.
  Qed.

  Lemma bi_len_closed : forall args v, bi_len args = Ok v -> closed_value st v.
  Proof. intros args v H. unfold bi_len in H. atomic_result H. Qed.

  Lemma bi_head_closed : forall args v, closed_list st args -> bi_head args = Ok v -> closed_value st v.
  Proof.
    intros args v Hc H. unfold bi_head in H.
    destruct (BuiltinsList.arg args 0) as [a0| | | |] eqn:E0; try discriminate. cbn [obind] in H.
    pose proof (barg_closed _ _ _ Hc E0) as Ha0.
    destruct a0; try discriminate; inversion H; subst; try triv.
    apply closed_VList in Ha0. destruct l; [triv|]. inversion Ha0; assumption.
  Qed.

  Lemma in_firstn_in : forall {A} n (l : list A) x, In x (firstn n l) -> In x l.
  Proof.
    intros A n; induction n as [|n IH]; intros l x H; [destruct H|].
    destruct l as [|a l]; [destruct H|]. cbn [firstn] in H. destruct H as [<-|H]; [left; reflexivity|right; apply IH; exact H].
  Qed.
  Lemma in_skipn_in : forall {A} n (l : list A) x, In x (skipn n l) -> In x l.
  Proof.
    intros A n; induction n as [|n IH]; intros l x H; [exact H|].
    destruct l as [|a l]; [destruct H|]. cbn [skipn] in H. right; apply IH; exact H.
  Qed.
  Lemma slice_get_in : forall {A} (l : list A) a b x y, slice_get l a b = Some x -> In y x -> In y l.
  Proof.
    intros A l a b x y H Hy. unfold slice_get in H. destruct (_ && _); try discriminate.
    inversion H; subst. apply in_firstn_in in Hy. eapply in_skipn_in. exact Hy.
  Qed.

  Lemma bi_tail_closed : forall args v, closed_list st args -> bi_tail args = Ok v -> closed_value st v.
  Proof.
    intros args v Hc H. unfold bi_tail in H.
    destruct (BuiltinsList.arg args 0) as [a0| | | |] eqn:E0; try discriminate. cbn [obind] in H.
    pose proof (barg_closed _ _ _ Hc E0) as Ha0.
    destruct a0; try discriminate; inversion H; subst; try triv.
    apply closed_VList in Ha0. apply closed_VList.
    destruct (slice_get l 1 (Z.of_nat (Datatypes.length l))) eqn:E; [|constructor].
    eapply closed_incl; [exact Ha0|]. intros x Hx. eapply slice_get_in; eauto.
  Qed.

  Lemma bi_slice_closed : forall args v, closed_list st args -> bi_slice args = Ok v -> closed_value st v.
  Proof.
    intros args v Hc H. unfold bi_slice in H.
    destruct (BuiltinsList.arg args 1); try discriminate; cbn [obind] in H.
    destruct (BuiltinsList.as_number a); try discriminate; cbn [obind] in H.
    destruct (BuiltinsList.arg args 2); try discriminate; cbn [obind] in H.
    destruct (BuiltinsList.as_number a1); try discriminate; cbn [obind] in H.
    destruct (BuiltinsList.arg args 0) as [a0'| | | |] eqn:E0; try discriminate. cbn [obind] in H.
    pose proof (barg_closed _ _ _ Hc E0) as Ha0.
    destruct a0'; try discriminate.
    - match type of H with match ?x with _ => _ end = _ => destruct x end; inversion H; triv.
    - match type of H with match ?x with _ => _ end = _ => destruct x eqn:E end; inversion H; subst.
      apply closed_VList in Ha0. apply closed_VList.
      eapply closed_incl; [exact Ha0|]. intros x Hx. eapply slice_get_in; eauto.
  Qed.

  Lemma concat_args_closed : forall args, closed_list st args -> closed_list st (concat_args args).
  Proof.
    induction args as [|a rest IH]; intros Hc; cbn [concat_args]; [constructor|].
    inversion Hc as [|? ? Ha Hr]; subst. specialize (IH Hr).
    assert (Hdef : closed_list st (a :: concat_args rest)) by (constructor; assumption).
    destruct a; try exact Hdef.
    - apply closed_VList in Ha. apply Forall_app. split; assumption.
    - destruct a; try exact Hdef.
      + apply Forall_app. split; [apply closed_atoms; intros; triv|exact IH].
      + apply (proj1 (closed_VSpread _ _)) in Ha. apply closed_VList in Ha. apply Forall_app. split; assumption.
  Qed.
  Lemma bi_concat_closed : forall args v, closed_list st args -> bi_concat args = Ok v -> closed_value st v.
  Proof.
    intros args v Hc H. unfold bi_concat in H. inversion H; subst. apply closed_VList.
    apply concat_args_closed; exact Hc.
  Qed.

  Lemma unique_go_in : forall items acc x, In x (unique_go items acc) -> In x items \/ In x acc.
  Proof.
    induction items as [|i rest IH]; intros acc x H; cbn [unique_go] in H; [right; exact H|].
    destruct (existsb _ acc).
    - destruct (IH _ _ H) as [Hr|Ha]; [left; right; exact Hr|right; exact Ha].
    - destruct (IH _ _ H) as [Hr|Ha]; [left; right; exact Hr|].
      apply in_app_or in Ha. destruct Ha as [Ha|[<-|[]]]; [right; exact Ha|left; left; reflexivity].
  Qed.
  Lemma bi_unique_closed : forall args v, closed_list st args -> bi_unique args = Ok v -> closed_value st v.
  Proof.
    intros args v Hc H. unfold bi_unique in H.
    destruct (BuiltinsList.arg args 0) as [a0| | | |] eqn:E0; try discriminate. cbn [obind] in H.
    pose proof (barg_closed _ _ _ Hc E0) as Ha0.
    destruct a0; try discriminate. cbn in H. inversion H; subst.
    apply closed_VList in Ha0. apply closed_VList. eapply closed_incl; [exact Ha0|].
    intros x Hx. destruct (unique_go_in _ _ _ Hx) as [Hi|[]]. exact Hi.
  Qed.

  Lemma bi_sort_closed : forall args v, closed_list st args -> bi_sort args = Ok v -> closed_value st v.
  Proof.
    intros args v Hc H. unfold bi_sort in H.
    destruct (BuiltinsList.arg args 0) as [a0| | | |] eqn:E0; try discriminate. cbn [obind] in H.
    pose proof (barg_closed _ _ _ Hc E0) as Ha0.
    destruct a0; try discriminate. cbn in H. inversion H; subst.
    apply closed_VList in Ha0. apply closed_VList. eapply closed_incl; [exact Ha0|].
    intros x Hx. eapply Permutation_in; [symmetry; apply merge_sort_perm|exact Hx].
  Qed.

  Lemma bi_reverse_closed : forall args v, closed_list st args -> bi_reverse args = Ok v -> closed_value st v.
  Proof.
    intros args v Hc H. unfold bi_reverse in H.
    destruct (BuiltinsList.arg args 0) as [a0| | | |] eqn:E0; try discriminate. cbn [obind] in H.
    pose proof (barg_closed _ _ _ Hc E0) as Ha0.
    destruct a0; try discriminate. cbn in H. inversion H; subst.
    apply closed_VList in Ha0. apply closed_VList. eapply closed_incl; [exact Ha0|].
    intros x Hx. apply in_rev. exact Hx.
  Qed.

  Lemma bi_split_closed : forall args v, bi_split args = Ok v -> closed_value st v.
  Proof.
    intros args v H. unfold bi_split in H.
    destruct (BuiltinsList.arg args 0); try discriminate; cbn [obind] in H.
    destruct (BuiltinsList.as_string a); try discriminate; cbn [obind] in H.
    destruct (BuiltinsList.arg args 1); try discriminate; cbn [obind] in H.
    destruct (BuiltinsList.as_string a1); try discriminate; cbn [obind] in H.
    inversion H; subst. apply closed_VList. apply closed_atoms. intros; triv.
  Qed.
  Lemma bi_replace_closed : forall args v, bi_replace args = Ok v -> closed_value st v.
  Proof. intros args v H. unfold bi_replace in H. atomic_result H. Qed.
  Lemma bi_includes_closed : forall args v, bi_includes args = Ok v -> closed_value st v.
  Proof.
    intros args v H. unfold bi_includes in H.
    destruct (BuiltinsList.arg args 0) as [a0| | | |]; try discriminate. cbn [obind] in H.
    destruct a0; try discriminate.
    - atomic_result H.
    - induction l as [|item rest IH]; [inversion H; triv|].
      destruct (BuiltinsList.arg args 1); try discriminate. cbn [obind] in H.
      destruct (equals item a); [inversion H; triv|apply IH; exact H].
  Qed.

  (* ---- records ---- *)
  Lemma bi_keys_closed : forall args v, bi_keys args = Ok v -> closed_value st v.
  Proof.
    intros args v H. unfold bi_keys in H.
    destruct (BuiltinsList.arg args 0); try discriminate; cbn [obind] in H.
    destruct (as_record a); try discriminate; cbn [obind] in H.
    inversion H; subst. apply closed_VList. apply closed_atoms. intros; triv.
  Qed.
  Lemma bi_values_closed : forall args v, closed_list st args -> bi_values args = Ok v -> closed_value st v.
  Proof.
    intros args v Hc H. unfold bi_values in H.
    destruct (BuiltinsList.arg args 0) as [a0| | | |] eqn:E0; try discriminate. cbn [obind] in H.
    pose proof (barg_closed _ _ _ Hc E0) as Ha0.
    destruct a0; try discriminate. cbn in H. inversion H; subst.
    apply closed_VRec in Ha0. apply closed_VList. unfold closed_list, closed_frame in *.
    rewrite Forall_forall in *. intros x Hx. apply in_map_iff in Hx. destruct Hx as [kv [<- Hkv]].
    apply Ha0; exact Hkv.
  Qed.
  Lemma bi_entries_closed : forall args v, closed_list st args -> bi_entries args = Ok v -> closed_value st v.
  Proof.
    intros args v Hc H. unfold bi_entries in H.
    destruct (BuiltinsList.arg args 0) as [a0| | | |] eqn:E0; try discriminate. cbn [obind] in H.
    pose proof (barg_closed _ _ _ Hc E0) as Ha0.
    destruct a0; try discriminate. cbn in H. inversion H; subst.
    apply closed_VRec in Ha0. apply closed_VList. unfold closed_list, closed_frame in *.
    rewrite Forall_forall in *. intros x Hx. apply in_map_iff in Hx. destruct Hx as [kv [<- Hkv]].
    apply closed_VList. constructor; [triv|]. constructor; [apply Ha0; exact Hkv|constructor].
  Qed.

  (* ---- flatten zip chunk ---- *)
  Lemma flatten_items_closed : forall l, closed_list st l -> closed_list st (flatten_items l).
  Proof.
    induction l as [|a rest IH]; intros Hc; cbn [flatten_items]; [constructor|].
    inversion Hc as [|? ? Ha Hr]; subst. specialize (IH Hr).
    destruct a; try (constructor; assumption).
    apply closed_VList in Ha. apply Forall_app. split; assumption.
  Qed.
  Lemma bi_flatten_closed : forall args v, closed_list st args -> bi_flatten args = Ok v -> closed_value st v.
  Proof.
    intros args v Hc H. unfold bi_flatten in H.
    destruct (BuiltinsList.arg args 0) as [a0| | | |] eqn:E0; try discriminate. cbn [obind] in H.
    pose proof (barg_closed _ _ _ Hc E0) as Ha0.
    destruct a0; try discriminate. cbn in H. inversion H; subst.
    apply closed_VList in Ha0. apply closed_VList. apply flatten_items_closed; exact Ha0.
  Qed.

  Lemma zip_lists_closed : forall args lists,
    closed_list st args ->
    mapM (fun a => match a with VList l => Ok l | _ => Err end) args = Ok lists ->
    Forall (closed_list st) lists.
  Proof.
    induction args as [|a rest IH]; intros lists Hc H; cbn [mapM] in H.
    - inversion H; constructor.
    - inversion Hc as [|? ? Ha Hr]; subst.
      destruct a; try discriminate. cbn [obind] in H.
      destruct (mapM _ rest) eqn:E; try discriminate. cbn [obind] in H. inversion H; subst.
      constructor; [apply closed_VList; exact Ha|apply IH; auto].
  Qed.
  Lemma bi_zip_closed : forall args v, closed_list st args -> bi_zip args = Ok v -> closed_value st v.
  Proof.
    intros args v Hc H. unfold bi_zip in H.
    destruct (mapM _ args) as [lists| | | |] eqn:E; try discriminate. cbn [obind] in H.
    inversion H; subst. pose proof (zip_lists_closed _ _ Hc E) as Hl.
    apply closed_VList. unfold closed_list. rewrite Forall_forall. intros x Hx.
    apply in_map_iff in Hx. destruct Hx as [i [<- _]]. unfold zip_tuple.
    apply closed_VList. unfold closed_list. rewrite Forall_forall. intros y Hy.
    apply in_map_iff in Hy. destruct Hy as [l [<- Hin]].
    rewrite Forall_forall in Hl. specialize (Hl l Hin). unfold closed_list in Hl. rewrite Forall_forall in Hl.
    destruct (nth_in_or_default i l VNull) as [Hn|Hn]; [apply Hl; exact Hn|rewrite Hn; triv].
  Qed.

  Lemma chunk_acc_in : forall {A} (l : list A) n room cur c x,
    In c (chunk_acc l n room cur) -> In x c -> In x l \/ In x cur.
  Proof.
    intros A l. induction l as [|y rest IH]; intros n room cur c x Hc Hx; cbn [chunk_acc] in Hc.
    - destruct cur; [destruct Hc|]. destruct Hc as [<-|[]]. right; exact Hx.
    - destruct room.
      + destruct Hc as [<-|Hc]; [right; exact Hx|].
        destruct (IH _ _ _ _ _ Hc Hx) as [Hr|[<-|[]]]; [left; right; exact Hr|left; left; reflexivity].
      + destruct (IH _ _ _ _ _ Hc Hx) as [Hr|Hr]; [left; right; exact Hr|].
        apply in_app_or in Hr. destruct Hr as [Hr|[<-|[]]]; [right; exact Hr|left; left; reflexivity].
  Qed.
  Lemma bi_chunk_closed : forall args v, closed_list st args -> bi_chunk args = Ok v -> closed_value st v.
  Proof.
    intros args v Hc H. unfold bi_chunk in H.
    destruct (BuiltinsList.arg args 1); try discriminate; cbn [obind] in H.
    destruct (BuiltinsList.as_number a); try discriminate; cbn [obind] in H.
    destruct (_ =? 0)%Z; try discriminate.
    destruct (BuiltinsList.arg args 0) as [a0'| | | |] eqn:E0; try discriminate. cbn [obind] in H.
    pose proof (barg_closed _ _ _ Hc E0) as Ha0.
    destruct a0'; try discriminate. cbn [BuiltinsList.as_list obind] in H. inversion H; subst.
    apply closed_VList in Ha0. apply closed_VList. unfold closed_list. rewrite Forall_forall.
    intros x Hx. apply in_map_iff in Hx. destruct Hx as [c [<- Hin]].
    apply closed_VList. eapply closed_incl; [exact Ha0|]. intros y Hy.
    unfold chunks in Hin. destruct (chunk_acc_in _ _ _ _ _ _ Hin Hy) as [Hl|[]]. exact Hl.
  Qed.
  (* ---- convert round to_number to_string join: a number or a string ---- *)
  Lemma obind_ok : forall {A B} (m : outcome A) (f : A -> outcome B) v,
    obind m f = Ok v -> exists a, m = Ok a /\ f a = Ok v.
  Proof. intros A B m f v H. destruct m; try discriminate H. eexists; split; [reflexivity|exact H]. Qed.
  Ltac ob H x := apply obind_ok in H; destruct H as [x [_ H]].

  (* Units.convert over the binary64 arithmetic: a chain of + - * / on the value and table literals *)
  Lemma lit_valid : forall l, valid_num (a_lit fl l).
  Proof. intros l. cbn [a_lit fl]. apply num_of_bits_valid. Qed.
  Lemma tempfn_apply_valid : forall f x, valid_num x -> valid_num (tempfn_apply fl f x).
  Proof.
    intros f x Hx. pose proof lit_valid as L.
    destruct f; cbn [tempfn_apply].
    - exact (nadd_valid _ _ Hx (L _)).
    - exact (nsub_valid _ _ Hx (L _)).
    - exact (nadd_valid _ _ (ndiv_valid _ _ (nmul_valid _ _ (nsub_valid _ _ Hx (L _)) (L _)) (L _)) (L _)).
    - exact (nadd_valid _ _ (ndiv_valid _ _ (nmul_valid _ _ (nsub_valid _ _ Hx (L _)) (L _)) (L _)) (L _)).
    - exact Hx.
  Qed.
  Lemma convert_to_base_valid : forall u x, valid_num x -> valid_num (convert_to_base fl u x).
  Proof.
    intros u x Hx. pose proof lit_valid as L. unfold convert_to_base. destruct (u_conv u).
    - exact (nmul_valid _ _ Hx (L _)).
    - destruct (a_is_zero fl x); [exact (valid_inf false)|]. exact (ndiv_valid _ _ (L _) Hx).
    - apply tempfn_apply_valid. exact Hx.
  Qed.
  Lemma convert_from_base_valid : forall u x, valid_num x -> valid_num (convert_from_base fl u x).
  Proof.
    intros u x Hx. pose proof lit_valid as L. unfold convert_from_base. destruct (u_conv u).
    - exact (ndiv_valid _ _ Hx (L _)).
    - destruct (a_is_zero fl x); [exact (valid_inf false)|]. exact (ndiv_valid _ _ (L _) Hx).
    - apply tempfn_apply_valid. exact Hx.
  Qed.
  Lemma convert_with_valid : forall units lower x f t y, valid_num x ->
    convert_with fl units lower x f t = UOk y -> valid_num y.
  Proof.
    intros units lower x f t y Hx H. unfold convert_with in H.
    destruct (resolve_in units f (lower f)) as [uf|]; [|discriminate H].
    destruct (resolve_in units t (lower t)) as [ut|]; [|discriminate H].
    unfold convert_units in H. destruct (negb _); [discriminate H|].
    destruct (same_ids uf ut); inversion H; subst; [exact Hx|].
    unfold through_base. apply convert_from_base_valid, convert_to_base_valid. exact Hx.
  Qed.
  Lemma convert_valid : forall x f t y, valid_num x -> Units.convert fl x f t = UOk y -> valid_num y.
  Proof. intros x f t y. exact (convert_with_valid _ _ x f t y). Qed.
  Lemma bi_convert_closed : forall args v, closed_list st args -> bi_convert args = Ok v -> closed_value st v.
  Proof.
    intros args v Hc H. unfold bi_convert in H.
    destruct (BuiltinsList.arg args 0) as [a0| | | |] eqn:E0; cbn [obind] in H; try discriminate H.
    pose proof (barg_closed _ _ _ Hc E0) as Ha0.
    destruct a0; cbn [BuiltinsList.as_number obind] in H; try discriminate H.
    ob H a1. ob H x1. ob H a2. ob H x2.
    destruct (Units.convert fl x x1 x2) eqn:Ecv; [|discriminate H]. injection H as <-.
    apply closed_VNum. eapply convert_valid; [exact Ha0|exact Ecv].
  Qed.

  Lemma c_one_valid : valid_num c_one. Proof. reflexivity. Qed.
  Lemma powi_loop_valid : forall fuel a pow mul, valid_num a -> valid_num mul -> valid_num (powi_loop fuel a pow mul).
  Proof.
    induction fuel as [|f IH]; intros a pow mul Ha Hm; cbn [powi_loop]; [exact Hm|].
    assert (Hm' : valid_num (if Z.odd pow then nmul mul a else mul)) by (destruct (Z.odd pow); auto with vnum).
    destruct (_ =? _)%Z; [exact Hm'|]. apply IH; auto with vnum.
  Qed.
  Lemma powi_exec_valid : forall a b, valid_num a -> valid_num (powi_exec a b).
  Proof.
    intros a b Ha. unfold powi_exec.
    pose proof (powi_loop_valid 33 a (Z.abs b) c_one Ha c_one_valid) as Hl.
    destruct (b <? 0)%Z; [apply ndiv_valid; [exact c_one_valid|exact Hl]|exact Hl].
  Qed.
  Lemma bi_round_closed : forall args v, closed_list st args -> bi_round args = Ok v -> closed_value st v.
  Proof.
    intros args v Hc H. unfold bi_round in H.
    destruct (BuiltinsList.arg args 0) as [a0| | | |] eqn:E0; cbn [obind] in H; try discriminate H.
    pose proof (barg_closed _ _ _ Hc E0) as Ha0.
    destruct a0; cbn [BuiltinsList.as_number obind] in H; try discriminate H.
    assert (G : forall x1, Ok (VNum (ndiv (nround (nmul x (powi_exec (num_of_Z 10) (as_i32 x1))))
                                            (powi_exec (num_of_Z 10) (as_i32 x1)))) = Ok v -> closed_value st v).
    { intros x1 E. injection E as <-. apply closed_VNum.
      assert (Hp : valid_num (powi_exec (num_of_Z 10) (as_i32 x1))) by (apply powi_exec_valid, num_of_Z_valid).
      apply ndiv_valid; [apply nround_valid, nmul_valid; assumption|exact Hp]. }
    destruct args as [|y [|z rest]].
    - ob H a1. ob H x1. exact (G x1 H).
    - injection H as <-. apply closed_VNum. apply nround_valid. exact Ha0.
    - ob H a1. ob H x1. exact (G x1 H).
  Qed.
  Lemma bi_random_closed : forall args v, bi_random args = Ok v -> closed_value st v.
  Proof.
    intros args v H. unfold bi_random in H. ob H a0. ob H x0. injection H as <-.
    apply closed_VNum. unfold rng_f64. apply nsub_valid; [apply num_of_bits_valid|apply num_of_Z_valid].
  Qed.

  (* a parsed number: NumText.rn_decimal = Flocq's correctly rounded binary_round / division *)
  Lemma rn_ratio_valid : forall n d, valid_num (NumText.rn_ratio n d).
  Proof.
    intros n d. unfold NumText.rn_ratio.
    assert (C := proj1 (Bdiv_correct_aux prec emax Hprec Hmax mode_NE false n 0 false d 0)).
    destruct (SFdiv_core_binary prec emax (Z.pos n) 0 (Z.pos d) 0) as [[q e] l].
    unfold valid_num, valid_numb. rewrite binary_round_aux_equiv. exact C.
  Qed.
  Lemma rn_decimal_valid : forall s m e, valid_num (NumText.rn_decimal s m e).
  Proof.
    intros s m e. unfold NumText.rn_decimal. destruct m; try reflexivity.
    assert (Hp : valid_num (rn_pos p e)).
    { unfold rn_pos. destruct (400 <? e)%Z; [reflexivity|]. destruct (e <? _)%Z; [reflexivity|].
      destruct (0 <=? e)%Z.
      - destruct (Z.pos p * 10 ^ e)%Z; try reflexivity. apply binary_round_valid.
      - destruct (10 ^ - e)%Z; try reflexivity. apply rn_ratio_valid. }
    unfold with_sign. destruct s; [apply nneg_valid|]; exact Hp.
  Qed.
  Lemma ref_str_parse_valid : forall t x, ref_str_parse t = Some x -> valid_num x.
  Proof.
    intros t x H. unfold ref_str_parse in H. destruct (rust_float_syntax t) as [f|]; [|discriminate H].
    injection H as <-. destruct f; cbn [fnum_value]; try reflexivity. apply rn_decimal_valid.
  Qed.
  Lemma bi_to_number_closed : forall args v, closed_list st args -> bi_to_number args = Ok v -> closed_value st v.
  Proof.
    intros args v Hc H. unfold bi_to_number in H.
    destruct (BuiltinsList.arg args 0) as [a0| | | |] eqn:E0; cbn [obind] in H; try discriminate H.
    pose proof (barg_closed _ _ _ Hc E0) as Ha0.
    destruct a0; try (injection H as <-; first [exact Ha0|apply closed_VNum; apply num_of_Z_valid]);
      (ob H s0; cbv beta in H; unfold parse_result in H;
       destruct (NumText.ref_str_parse s0) eqn:Ep; [|discriminate H]; injection H as <-;
       apply closed_VNum; eapply ref_str_parse_valid; exact Ep).
  Qed.
  Lemma bi_to_string_closed : forall args v, bi_to_string args = Ok v -> closed_value st v.
  Proof.
    intros args v H. unfold bi_to_string in H.
    ob H a0.
    destruct a0; try (injection H as <-; triv); (ob H s0; injection H as <-; triv).
  Qed.
  Lemma bi_join_full_closed : forall args v, bi_join_full args = Ok v -> closed_value st v.
  Proof.
    intros args v H. unfold bi_join_full in H.
    ob H a1. ob H d. ob H a0. ob H l. ob H strs. injection H as <-. triv.
  Qed.
End Pure.
