(* C11ExprSym.v — a nested induction principle for [expr] (through lists of commented
   expressions, record entries and keys, call arguments) and the symmetry of [expr_eqb]
   (Rust: derived PartialEq on Expr), used for the symmetry of Value::equals on function values. *)
From Coq Require Import String Ascii List ZArith Bool Lia Floats.SpecFloat.
Require Import Blots.Num Blots.gen.Builtins Blots.Ast Blots.Value Blots.proofs.ValueInd Blots.proofs.Order.
Import ListNotations.
Local Open Scope list_scope.

Section ExprInd.
  Variable P : expr -> Prop.
  Definition Pc (c : commented expr) : Prop := P (cnode c).
  Definition Pk (k : rkey) : Prop := match k with KDyn e | KSpread e => P e | _ => True end.
  Definition Pe (c : commented rentry) : Prop := match cnode c with REntry k v => Pk k /\ P v end.
  Hypothesis HNum : forall x, P (ENum x).
  Hypothesis HStr : forall s, P (EStr s).
  Hypothesis HBool : forall b, P (EBool b).
  Hypothesis HNull : P ENull.
  Hypothesis HId : forall x, P (EId x).
  Hypothesis HInRef : forall x, P (EInRef x).
  Hypothesis HBuiltin : forall b, P (EBuiltin b).
  Hypothesis HList : forall items, Forall Pc items -> P (EList items).
  Hypothesis HRec : forall entries, Forall Pe entries -> P (ERec entries).
  Hypothesis HLam : forall args body, P body -> P (ELam args body).
  Hypothesis HCond : forall c t e, P c -> P t -> P e -> P (ECond c t e).
  Hypothesis HDo : forall stmts ret, Forall Pc stmts -> Pc ret -> P (EDo stmts ret).
  Hypothesis HAssign : forall x v, P v -> P (EAssign x v).
  Hypothesis HOutput : forall e, P e -> P (EOutput e).
  Hypothesis HCall : forall f args, P f -> Forall P args -> P (ECall f args).
  Hypothesis HAccess : forall e i, P e -> P i -> P (EAccess e i).
  Hypothesis HDot : forall e f, P e -> P (EDot e f).
  Hypothesis HBin : forall op l r, P l -> P r -> P (EBin op l r).
  Hypothesis HUn : forall op e, P e -> P (EUn op e).
  Hypothesis HFact : forall e, P e -> P (EFact e).
  Hypothesis HSpread : forall e, P e -> P (ESpread e).

  Fixpoint expr_ind' (e : expr) : P e :=
    match e with
    | ENum x => HNum x | EStr s => HStr s | EBool b => HBool b | ENull => HNull
    | EId x => HId x | EInRef x => HInRef x | EBuiltin b => HBuiltin b
    | EList items =>
        HList items ((fix go (l : list (commented expr)) : Forall Pc l :=
                        match l with
                        | [] => Forall_nil _
                        | Cm a n t :: r => Forall_cons (Cm a n t) (expr_ind' n) (go r)
                        end) items)
    | ERec entries =>
        HRec entries ((fix go (l : list (commented rentry)) : Forall Pe l :=
                        match l with
                        | [] => Forall_nil _
                        | Cm a (REntry k v) t :: r =>
                            Forall_cons (Cm a (REntry k v) t)
                              (conj (match k return Pk k with
                                     | KStatic _ => I | KShort _ => I
                                     | KDyn e => expr_ind' e | KSpread e => expr_ind' e end)
                                    (expr_ind' v)) (go r)
                        end) entries)
    | ELam args body => HLam args body (expr_ind' body)
    | ECond c t e => HCond c t e (expr_ind' c) (expr_ind' t) (expr_ind' e)
    | EDo stmts (Cm a n t) =>
        HDo stmts (Cm a n t)
          ((fix go (l : list (commented expr)) : Forall Pc l :=
              match l with
              | [] => Forall_nil _
              | Cm a n t :: r => Forall_cons (Cm a n t) (expr_ind' n) (go r)
              end) stmts) (expr_ind' n)
    | EAssign x v => HAssign x v (expr_ind' v)
    | EOutput e => HOutput e (expr_ind' e)
    | ECall f args =>
        HCall f args (expr_ind' f)
          ((fix go (l : list expr) : Forall P l :=
              match l with [] => Forall_nil _ | x :: r => Forall_cons x (expr_ind' x) (go r) end) args)
    | EAccess e i => HAccess e i (expr_ind' e) (expr_ind' i)
    | EDot e f => HDot e f (expr_ind' e)
    | EBin op l r => HBin op l r (expr_ind' l) (expr_ind' r)
    | EUn op e => HUn op e (expr_ind' e)
    | EFact e => HFact e (expr_ind' e)
    | ESpread e => HSpread e (expr_ind' e)
    end.
End ExprInd.

Lemma list_eqb_sym {A} (f : A -> A -> bool) : (forall x y, f x y = f y x) ->
  forall l m, list_eqb f l m = list_eqb f m l.
Proof.
  intros Hf. induction l as [|x l IH]; intros [|y m]; cbn; try reflexivity. now rewrite Hf, IH.
Qed.
Lemma option_eqb_sym {A} (f : A -> A -> bool) : (forall x y, f x y = f y x) ->
  forall a b, option_eqb f a b = option_eqb f b a.
Proof. intros Hf [x|] [y|]; cbn; auto. Qed.
Lemma lamarg_eqb_sym a b : lamarg_eqb a b = lamarg_eqb b a.
Proof. destruct a, b; cbn; try reflexivity; apply String.eqb_sym. Qed.
Lemma binop_eqb_sym a b : binop_eqb a b = binop_eqb b a.
Proof. destruct a, b; reflexivity. Qed.
Lemma unop_eqb_sym a b : unop_eqb a b = unop_eqb b a.
Proof. destruct a, b; reflexivity. Qed.
Lemma builtin_eqb_sym' a b : builtin_eqb a b = builtin_eqb b a.
Proof. destruct a, b; reflexivity. Qed.
Lemma neqb_sym x y : neqb x y = neqb y x.
Proof.
  unfold neqb, SFeqb. change SFcompare with ncmp. rewrite (ncmp_antisym x y).
  destruct (ncmp x y) as [[]|]; reflexivity.
Qed.

Definition clist_eqb := fix go (l m : list (commented expr)) : bool :=
  match l, m with
  | [], [] => true
  | Cm l1 n1 t1 :: l', Cm l2 n2 t2 :: m' =>
      list_eqb String.eqb l1 l2 && expr_eqb n1 n2 && option_eqb String.eqb t1 t2 && go l' m'
  | _, _ => false
  end.

Lemma clist_eqb_sym l : Forall (Pc (fun a => forall b, expr_eqb a b = expr_eqb b a)) l ->
  forall m, clist_eqb l m = clist_eqb m l.
Proof.
  induction 1 as [|[a n t] l Hx _ IH]; intros [|[a2 n2 t2] m]; cbn; try reflexivity.
  unfold Pc in Hx; cbn in Hx.
  rewrite (list_eqb_sym String.eqb String.eqb_sym a a2), (Hx n2),
          (option_eqb_sym String.eqb String.eqb_sym t t2), (IH m). reflexivity.
Qed.

Lemma expr_eqb_sym a : forall b, expr_eqb a b = expr_eqb b a.
Proof.
  induction a using expr_ind'; intros e2; destruct e2; try reflexivity;
    try (repeat match goal with c : commented expr |- _ => destruct c end; reflexivity); cbn [expr_eqb].
  - apply neqb_sym.
  - apply String.eqb_sym.
  - repeat match goal with x : bool |- _ => destruct x end; reflexivity.
  - apply String.eqb_sym.
  - apply String.eqb_sym.
  - apply builtin_eqb_sym'.
  - apply (clist_eqb_sym items H).
  - (* ERec *)
    revert entries0. induction H as [|[a [k v] t] l Hx _ IH]; intros [|[a2 [k2 v2] t2] m]; try reflexivity.
    unfold Pe in Hx; cbn in Hx. destruct Hx as [Hk Hv].
    rewrite (list_eqb_sym String.eqb String.eqb_sym a a2), (Hv v2),
            (option_eqb_sym String.eqb String.eqb_sym t t2), (IH m).
    f_equal. f_equal. f_equal. f_equal.
    destruct k, k2; try reflexivity; cbn in Hk; try apply String.eqb_sym; apply Hk.
  - rewrite (list_eqb_sym lamarg_eqb lamarg_eqb_sym), IHa. reflexivity.
  - now rewrite IHa1, IHa2, IHa3.
  - (* EDo *)
    destruct ret as [rl r rt], ret0 as [rl2 r2 rt2]. unfold Pc in H0; cbn in H0.
    change (clist_eqb stmts stmts0 && list_eqb String.eqb rl rl2 && expr_eqb r r2 && option_eqb String.eqb rt rt2
            = clist_eqb stmts0 stmts && list_eqb String.eqb rl2 rl && expr_eqb r2 r && option_eqb String.eqb rt2 rt).
    now rewrite (clist_eqb_sym stmts H), (list_eqb_sym String.eqb String.eqb_sym rl rl2), (H0 r2),
                (option_eqb_sym String.eqb String.eqb_sym rt rt2).
  - now rewrite String.eqb_sym, IHa.
  - apply IHa.
  - (* ECall *)
    rewrite IHa. f_equal. revert args0. induction H as [|x l Hx _ IH]; intros [|y m]; try reflexivity.
    now rewrite (Hx y), (IH m).
  - now rewrite IHa1, IHa2.
  - now rewrite IHa, String.eqb_sym.
  - now rewrite binop_eqb_sym, IHa1, IHa2.
  - now rewrite unop_eqb_sym, IHa.
  - apply IHa.
  - apply IHa.
Qed.
