(* PegAtoms.v — LEXICAL round trip at character level (first step from the item-level C07 theorems to the
   character level): for every ATOM the printer can emit, the PEG model of the regenerated grammar, run on the
   text of the atom, yields exactly the pair of that atom with the full span.
     string literal  q ++ s ++ q  (q the quote Printer.quote_string chooses: one that does not occur in s):
                     rule `string` yields  string[p, p+|s|+2] ( string_value[p+1, p+1+|s|] ), whatever follows;
                     [s] must be a sequence of UTF-8-shaped chunks (every lead byte followed by as many bytes as
                     its width announces) — for other byte strings pest's ANY would step over the closing quote;
     identifier      a valid name that is not a reserved word: rule `identifier` yields identifier[0,|name|];
     true / false / null   rules `bool` / `null` yield the pair with the full span;
     number          any text t in the language of the rule `number` (gen/NumGrammar.v: NG.gen_number t = Some "";
                     which number texts the printers emit is C16's subject): number[0,|t|]. *)
From Coq Require Import String Ascii List NArith Bool Arith Lia ZifyBool ZifyNat ZifyN.
Require Import Blots.Peg Blots.gen.Grammar Blots.proofs.PegGeneric Blots.proofs.PegPure Blots.proofs.PegIdent
               Blots.proofs.PegString Blots.proofs.PegNumber.
Require Import Blots.C10Ident Blots.gen.IdentRules Blots.C10IdentImpl Blots.proofs.C10IdentProofs.
Require Blots.Printer.
Import ListNotations.
Local Open Scope string_scope.

(* ------------------------------------------------------------------ strings *)
(* a byte string made of chunks shaped like UTF-8 characters: a lead byte and width-1 further bytes *)
Inductive chunks : string -> Prop :=
| ch_nil : chunks ""
| ch_cons : forall c k s, String.length (String c k) = utf8_width c -> chunks s -> chunks (String c k ++ s).

Lemma ascii_chunks : forall s, Printer.forall_chars (fun c => N.ltb (N_of_ascii c) 192) s = true -> chunks s.
Proof.
  induction s as [|c s IH]; intro H; [constructor|].
  simpl in H. apply andb_prop in H. destruct H as [Hc Hs].
  change (String c s) with (String c "" ++ s). constructor; [|apply IH; exact Hs].
  unfold utf8_width. rewrite Hc. reflexivity.
Qed.

Lemma sdrop_app_exact : forall a b, sdrop (String.length a) (a ++ b) = b.
Proof. induction a; intro b; simpl; auto. Qed.

Lemma contains_app : forall q a b, Printer.contains_char q (a ++ b) = Printer.contains_char q a || Printer.contains_char q b.
Proof. induction a; intro b; simpl; [reflexivity|]. rewrite IHa. apply orb_assoc. Qed.

Lemma append_assoc_s : forall a b c : string, (a ++ b) ++ c = a ++ (b ++ c).
Proof. induction a; intros b c; simpl; [reflexivity|]. rewrite IHa. reflexivity. Qed.

Lemma length_app_s : forall a b, String.length (a ++ b) = String.length a + String.length b.
Proof. induction a; intro b; simpl; auto. Qed.

(* (!PEEK ~ ANY)* with q on the stack stops exactly at the first q when q does not occur in s *)
Lemma scan_steps_to_quote : forall q after s, chunks s -> Printer.contains_char q s = false ->
    forall n, String.length s <= n -> m_star_n n (scan_step q) (s ++ String q after) = String q after.
Proof.
  intros q after s Hc. induction Hc as [|c k s Hw Hc IH]; intros Hq n Hn.
  - simpl. destruct n; simpl; [reflexivity|]. rewrite Ascii.eqb_refl. reflexivity.
  - rewrite contains_app in Hq. apply orb_false_iff in Hq. destruct Hq as [Hq1 Hq2].
    simpl in Hq1. apply orb_false_iff in Hq1. destruct Hq1 as [Hq0 _].
    rewrite length_app_s in Hn. destruct n as [|n]; [simpl in *; lia|].
    assert (E : scan_step q ((String c k ++ s) ++ String q after) = Some (s ++ String q after)).
    { change ((String c k ++ s) ++ String q after) with (String c ((k ++ s) ++ String q after)).
      unfold scan_step. rewrite Ascii.eqb_sym, Hq0.
      replace (Nat.min (utf8_width c) (String.length (String c ((k ++ s) ++ String q after))))
        with (String.length (String c k)).
      - change (String c ((k ++ s) ++ String q after)) with ((String c k ++ s) ++ String q after).
        rewrite append_assoc_s. rewrite sdrop_app_exact. reflexivity.
      - rewrite <- Hw. symmetry. apply Nat.min_l. simpl. rewrite !length_app_s. simpl. lia. }
    cbn [m_star_n]. rewrite E. apply IH; [exact Hq2|]. simpl in Hn. lia.
Qed.

Lemma scan_to_quote : forall q s after, chunks s -> Printer.contains_char q s = false ->
    scan q (s ++ String q after) = String q after.
Proof.
  intros q s after Hc Hq. unfold scan. apply scan_steps_to_quote; [exact Hc|exact Hq|].
  rewrite length_app_s. lia.
Qed.

(* the rule `string` on  q s q after : one pair string[p, p+|s|+2] with the inner string_value[p+1, p+1+|s|] *)
Theorem peg_string_atom : forall q s after fuel a (st0 : st grule),
    is_quote q = true -> chunks s -> Printer.contains_char q s = false ->
    rest st0 = String q (s ++ String q after) -> stack_ok (stk st0) ->
    12 + String.length (rest st0) <= fuel ->
    call_with G (run G fuel) a false PG_string st0
    = Ok (mkst (pos st0 + slen s + 2) after (stk st0)
               (Node PG_string (pos st0) (pos st0 + slen s + 2)
                     [Node PG_string_value (pos st0 + 1) (pos st0 + 1 + slen s) []] :: out st0)).
Proof.
  intros q s after fuel a st0 Q Hc Hq E Hok Hf.
  rewrite (peg_string_rule fuel a q (s ++ String q after) st0 E Hok Hf). rewrite Q.
  unfold string_result. rewrite (scan_to_quote q s after Hc Hq).
  cbn [drop_prefix]. rewrite Ascii.eqb_refl.
  assert (L : (slen (s ++ String q after) - slen (String q after) = slen s)%N).
  { unfold slen. rewrite length_app_s. lia. }
  rewrite L. replace (pos st0 + 1 + slen s + 1)%N with (pos st0 + slen s + 2)%N by lia. reflexivity.
Qed.

(* the text Printer.quote_string emits (repaired quoting): the quote that does not occur in s *)
Corollary peg_quoted_string_relexes : forall s after fuel a (st0 : st grule),
    Printer.string_relex_ok Printer.FX_ALL s = true -> chunks s ->
    rest st0 = Printer.quote_string Printer.FX_ALL s ++ after -> stack_ok (stk st0) ->
    12 + String.length (rest st0) <= fuel ->
    call_with G (run G fuel) a false PG_string st0
    = Ok (mkst (pos st0 + slen s + 2) after (stk st0)
               (Node PG_string (pos st0) (pos st0 + slen s + 2)
                     [Node PG_string_value (pos st0 + 1) (pos st0 + 1 + slen s) []] :: out st0)).
Proof.
  intros s after fuel a st0 Hr Hc E Hok Hf.
  unfold Printer.string_relex_ok, Printer.quote_string in *. cbn [Printer.fx_quote Printer.FX_ALL] in *.
  destruct (Printer.contains_char Printer.a_dq s) eqn:D.
  - cbn [andb negb] in Hr. apply negb_true_iff in Hr.
    apply (peg_string_atom Printer.a_sq s after fuel a st0); try assumption; try reflexivity.
    rewrite E. unfold Printer.str1. rewrite !append_assoc_s. reflexivity.
  - apply (peg_string_atom Printer.a_dq s after fuel a st0); try assumption; try reflexivity.
    rewrite E. unfold Printer.str1. rewrite !append_assoc_s. reflexivity.
Qed.

(* ------------------------------------------------------------------ identifiers *)
Lemma identifier_whole : forall name, valid_name name = true -> is_reserved reserved_words name = false ->
    identifier reserved_words name = Some "".
Proof.
  intros name V NR.
  pose proof (ident_rule_impl name "" V NR eq_refl (or_intror (conj eq_refl eq_refl))) as T.
  unfold term_word_impl in T. change term_order with [ABool; ANull; AIdent] in T.
  cbn [term_word alt_rule] in T.
  assert (E : name ++ "" = name) by (clear; induction name; simpl; [reflexivity|rewrite IHname; reflexivity]).
  rewrite E in T.
  destruct (bool_rule bool_boundary name); [discriminate|].
  destruct (null_rule null_boundary name); [discriminate|].
  destruct (identifier reserved_words name) as [r|]; [|discriminate].
  inversion T; subst r. reflexivity.
Qed.

Theorem peg_identifier_atom : exists n, forall name fuel,
    valid_name name = true -> is_reserved reserved_words name = false ->
    n + String.length name <= fuel ->
    parse G fuel PG_identifier name
    = Ok (mkst (slen name) "" stack_new [Node PG_identifier 0 (slen name) []]).
Proof.
  destruct peg_identifier_language as [n H]. exists n. intros name fuel V NR Hf.
  rewrite (H name fuel Hf). rewrite (identifier_whole name V NR).
  unfold slen at 2 4. simpl String.length. rewrite N.sub_0_r. reflexivity.
Qed.

(* ------------------------------------------------------------------ true / false / null *)
Lemma parse_by_computation : forall f r text res,
    parse G f r text = res -> res <> OutOfFuel -> forall fuel, f <= fuel -> parse G fuel r text = res.
Proof.
  intros f r text res E N fuel L. rewrite <- E. apply parse_fuel_mono; [exact L|]. rewrite E. exact N.
Qed.

Theorem peg_word_atoms : forall fuel, 40 <= fuel ->
    parse G fuel PG_bool "true" = Ok (mkst 4 "" stack_new [Node PG_bool 0 4 []]) /\
    parse G fuel PG_bool "false" = Ok (mkst 5 "" stack_new [Node PG_bool 0 5 []]) /\
    parse G fuel PG_null "null" = Ok (mkst 4 "" stack_new [Node PG_null 0 4 []]).
Proof.
  intros fuel L. repeat split.
  - apply (parse_by_computation 40); [vm_compute; reflexivity|discriminate|exact L].
  - apply (parse_by_computation 40); [vm_compute; reflexivity|discriminate|exact L].
  - apply (parse_by_computation 40); [vm_compute; reflexivity|discriminate|exact L].
Qed.

(* ------------------------------------------------------------------ numbers *)
Theorem peg_number_atom : exists n, forall t fuel,
    NG.gen_number t = Some "" -> n + String.length t <= fuel ->
    parse G fuel PG_number t = Ok (mkst (slen t) "" stack_new [Node PG_number 0 (slen t) []]).
Proof.
  destruct peg_number_language as [n H]. exists n. intros t fuel E Hf.
  rewrite (H t fuel Hf), E. unfold slen at 2 4. simpl String.length. rewrite N.sub_0_r. reflexivity.
Qed.
