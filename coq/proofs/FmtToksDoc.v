(* FmtToksDoc.v — compositionality of `toks` over the DOCUMENTS of Formatter.v (property C07).

   `dok closed d` is a decidable check on a document: read from a chunk boundary, every piece
   stops in code state (no string literal or comment left open), and every seam between two
   pieces is a token boundary: the text before it stops with no open chunk, or the piece after
   it starts with a blank, a line break, a bracket, `,`, `:` or a quote.  For such a document
       toks (render d) = flat_map piece_toks d                         (doc_toks)
   — the chunks of the laid-out text are the chunks of its pieces, in order: no chunk straddles
   two pieces and no piece is swallowed by a string literal or a comment.

   Then every layout function of Formatter.v (format_list_multiline, format_call_multiline,
   format_binary_op_multiline incl. the via/into/where arm, format_conditional_multiline,
   format_do_block_multiline, wrap_parens, protect_leading_minus, and — for names that are
   themselves well-behaved texts — format_record_multiline, format_lambda, assignment, output)
   is shown to put its children (any documents with `dok true`) and its own keywords together
   with such seams only.  The recursive calls are a Section variable `rec`, as in Formatter.v. *)
From Coq Require Import String Ascii List Bool Arith Lia.
Require Import Blots.Ast Blots.Formatter Blots.FmtTokens Blots.proofs.FmtToks Blots.proofs.Relined.
Import ListNotations.
Local Open Scope list_scope.

Definition piece_toks (p : piece) : list string := toks (render_piece p).

Definition closed_after (closed : bool) (s : string) : bool :=
  match s with EmptyString => closed | _ => ends_closed s end.
Fixpoint dok (closed : bool) (d : doc) : bool :=
  match d with
  | [] => true
  | p :: r =>
      let s := render_piece p in
      ends_code s && (closed || starts_break s) && dok (closed_after closed s) r
  end.
Fixpoint dclosed (closed : bool) (d : doc) : bool :=
  match d with [] => closed | p :: r => dclosed (closed_after closed (render_piece p)) r end.

(* ------------------------------------------------------------------ state across a boundary *)
Lemma tst_boundary : forall a b, boundary a b = true -> b <> EmptyString ->
  tst (a ++ b)%string = tst b.
Proof.
  intros a b H Hne. unfold boundary in H. apply andb_prop in H. destruct H as [Ha H].
  rewrite tst_app. unfold ends_code in Ha. apply mode_eqb_code in Ha. rewrite Ha.
  apply orb_prop in H. destruct H as [H|H].
  - unfold ends_closed in H. apply andb_prop in H. destruct H as [_ H].
    destruct (snd (tst a)); [reflexivity|discriminate].
  - rewrite (trun_break b _ H Hne), snd_pre. reflexivity.
Qed.

Lemma ends_code_tst : forall a b, tst a = tst b -> ends_code a = ends_code b.
Proof. intros a b H. unfold ends_code. now rewrite H. Qed.
Lemma ends_closed_tst : forall a b, tst a = tst b -> ends_closed a = ends_closed b.
Proof. intros a b H. unfold ends_closed, ends_code. now rewrite H. Qed.

Lemma render_cons : forall p r, render (p :: r) = (render_piece p ++ render r)%string.
Proof. reflexivity. Qed.

(* ------------------------------------------------------------------ the document theorem *)
Lemma doc_toks_acc : forall d acc, ends_code acc = true -> dok (ends_closed acc) d = true ->
  toks (acc ++ render d)%string = toks acc ++ flat_map piece_toks d /\
  ends_code (acc ++ render d)%string = true /\
  ends_closed (acc ++ render d)%string = dclosed (ends_closed acc) d.
Proof.
  induction d as [|p r IH]; intros acc Ha H.
  - cbn [render flat_map dclosed]. rewrite sapp_nil_r, app_nil_r. auto.
  - cbn [dok] in H. apply andb_prop in H. destruct H as [H Hr]. apply andb_prop in H.
    destruct H as [Hs Hb]. rewrite render_cons, <- sapp_assoc. cbn [flat_map dclosed].
    destruct (render_piece p) as [|c s'] eqn:Es.
    + cbn [closed_after] in Hr |- *. rewrite sapp_nil_r.
      destruct (IH acc Ha Hr) as [T [C K]]. unfold piece_toks at 1. rewrite Es.
      change (toks "") with (@nil string). cbn [app]. auto.
    + assert (Hbd : boundary acc (String c s') = true).
      { unfold boundary. rewrite Ha. exact Hb. }
      assert (Hne : String c s' <> EmptyString) by discriminate.
      pose proof (tst_boundary acc _ Hbd Hne) as Ht.
      cbn [closed_after] in Hr |- *.
      assert (Ha' : ends_code (acc ++ String c s')%string = true)
        by (rewrite (ends_code_tst _ _ Ht); exact Hs).
      rewrite <- (ends_closed_tst _ _ Ht) in Hr |- *.
      destruct (IH (acc ++ String c s')%string Ha' Hr) as [T [C K]].
      rewrite T, (toks_app_boundary acc _ Hbd), <- app_assoc.
      unfold piece_toks at 2. rewrite Es. auto.
Qed.

Theorem doc_toks : forall d, dok true d = true ->
  toks (render d) = flat_map piece_toks d /\ ends_code (render d) = true.
Proof.
  intros d H. destruct (doc_toks_acc d EmptyString eq_refl H) as [T [C _]].
  cbn [String.append] in T, C. change (toks "") with (@nil string) in T. auto.
Qed.

(* ------------------------------------------------------------------ dok over ++ *)
Lemma dok_app : forall d1 d2 c, dok c (d1 ++ d2) = dok c d1 && dok (dclosed c d1) d2.
Proof.
  induction d1 as [|p r IH]; intros d2 c; [reflexivity|].
  cbn [app dok dclosed]. rewrite IH, !andb_assoc. reflexivity.
Qed.

Definition nonempty (s : string) : bool := match s with EmptyString => false | _ => true end.

(* a piece that starts with a break does not care how the text before it ends *)
Lemma dok_break : forall p r c, nonempty (render_piece p) = true -> starts_break (render_piece p) = true ->
  dok c (p :: r) = dok true (p :: r).
Proof.
  intros p r c Hn Hb. cbn [dok]. rewrite Hb, !orb_true_r.
  destruct (render_piece p); [discriminate|]. reflexivity.
Qed.
(* a child document followed by such a piece *)
Lemma dok_child : forall d p r, dok true d = true ->
  nonempty (render_piece p) = true -> starts_break (render_piece p) = true ->
  dok true (d ++ p :: r) = dok true (p :: r).
Proof. intros d p r H Hn Hb. rewrite dok_app, H. cbn [andb]. apply dok_break; assumption. Qed.
(* a keyword piece that ends with a blank / bracket / comma *)
Lemma dok_closed_piece : forall k r, nonempty k = true -> ends_closed k = true ->
  dok true (Code k :: r) = dok true r.
Proof.
  intros k r Hn Hc. cbn [dok render_piece]. pose proof Hc as Hc'. unfold ends_closed in Hc'.
  apply andb_prop in Hc'. destruct Hc' as [He _]. rewrite He. cbn [orb andb].
  destruct k; [discriminate|]. cbn [closed_after]. now rewrite Hc.
Qed.
Lemma dok_break_closed : forall k r c, nonempty k = true -> starts_break k = true -> ends_closed k = true ->
  dok c (Code k :: r) = dok true r.
Proof.
  intros k r c Hn Hb Hc. rewrite (dok_break (Code k) r c Hn Hb). apply dok_closed_piece; assumption.
Qed.

(* the indentation *)
Lemma indent_facts : forall n,
  ends_closed (make_indent n) = true /\ starts_break (make_indent n) = true.
Proof.
  intro n. split.
  - unfold ends_closed, ends_code, tst.
    pose proof (neutral0_blank (make_indent n) (all_blank_indent n)) as H. unfold neutral0 in H.
    rewrite H. reflexivity.
  - destruct n; reflexivity.
Qed.
Lemma dok_ind : forall n r, dok true (ind n :: r) = dok true r.
Proof.
  intros n r. destruct (indent_facts n) as [Hc Hb]. unfold ind. cbn [dok render_piece].
  pose proof Hc as Hc'. unfold ends_closed in Hc'. apply andb_prop in Hc'. destruct Hc' as [He _].
  rewrite He. cbn [orb andb]. destruct (make_indent n); [reflexivity|]. cbn [closed_after]. now rewrite Hc.
Qed.
Lemma dok_nl_ind : forall n r c, dok c (Nl :: ind n :: r) = dok true r.
Proof.
  intros n r c. rewrite (dok_break Nl _ c eq_refl eq_refl).
  change (dok true (Nl :: ind n :: r)) with (dok true (ind n :: r)). apply dok_ind.
Qed.
Lemma dok_child_nl : forall d n r, dok true d = true -> dok true (d ++ Nl :: ind n :: r) = dok true r.
Proof. intros d n r H. rewrite (dok_child d Nl _ H eq_refl eq_refl). apply dok_nl_ind. Qed.
(* a keyword with an open end (`then`, `else`) followed by a line break *)
Lemma dok_word_nl : forall k n r c, ends_code k = true -> nonempty k = true ->
  (c || starts_break k) = true -> dok c (Code k :: Nl :: ind n :: r) = dok true r.
Proof.
  intros k n r c He Hn Hb. cbn [dok render_piece]. rewrite He, Hb. cbn [andb].
  destruct k; [discriminate|]. cbn [closed_after].
  exact (dok_nl_ind n r _).
Qed.
Lemma dok_child_end : forall d, dok true d = true -> dok true (d ++ []) = true.
Proof. intros d H. now rewrite app_nil_r. Qed.

(* the operator texts *)
Lemma op_mid_facts : forall op, let k := (" " +++ binary_op_str op +++ " ") in
  nonempty k = true /\ starts_break k = true /\ ends_closed k = true.
Proof. intros []; vm_compute; auto. Qed.
Lemma op_head_facts : forall op, let k := (binary_op_str op +++ " ") in
  nonempty k = true /\ ends_closed k = true.
Proof. intros []; vm_compute; auto. Qed.

(* ================================================================== the layout functions *)
Section Layouts.
  Variable O : oracles.
  Variable w : nat.
  Variable rec : expr -> nat -> doc.
  (* G: the children whose layout is known to be a dok document (the induction hypothesis when
     rec is fmtd itself) *)
  Variable G : expr -> Prop.
  Hypothesis Hrec : forall x j, G x -> dok true (rec x j) = true.
  Definition Gcm (c : commented expr) : Prop := G (cnode c).

  Ltac norm := repeat (progress (repeat rewrite <- app_assoc; cbn [app])).

  Lemma dok_wrap : forall b d, dok true d = true -> dok true (wrap_parens b d) = true.
  Proof.
    intros [|] d H; unfold wrap_parens; [|exact H]. norm.
    rewrite (dok_closed_piece "(" _ eq_refl eq_refl).
    rewrite (dok_child d (Code ")") [] H eq_refl eq_refl). reflexivity.
  Qed.

  (* protect_leading_minus *)
  Lemma dok_protect : forall d first, dok true d = true -> dok true (protect_minus d first) = true.
  Proof.
    intros d first H. unfold protect_minus.
    destruct (negb first && starts_with_minus (render d)); [|exact H].
    exact (dok_wrap true d H).
  Qed.

  Fixpoint plain_items {A} (l : list (commented A)) : bool :=
    match l with [] => true | Cm [] _ None :: r => plain_items r | _ => false end.

  (* format_list_multiline *)
  Lemma dok_list_items : forall items inner tail, plain_items items = true -> Forall Gcm items ->
    dok true (list_items_doc rec items inner ++ tail) = dok true tail.
  Proof.
    induction items as [|[lead n tr] items IH]; intros inner tail Hp HG; [reflexivity|].
    inversion HG as [|? ? Gn HG']; subst. unfold Gcm in Gn; cbn [cnode] in Gn.
    cbn [plain_items] in Hp. destruct lead; [|discriminate]. destruct tr; [discriminate|].
    cbn [list_items_doc leading_doc trailing_doc flat_map]. norm.
    rewrite dok_nl_ind, (dok_child _ (Code ",") _ (Hrec n inner Gn) eq_refl eq_refl).
    rewrite (dok_closed_piece "," _ eq_refl eq_refl). exact (IH inner tail Hp HG').
  Qed.
  Theorem dok_list_doc : forall items i, plain_items items = true -> Forall Gcm items ->
    dok true (list_doc rec items i) = true.
  Proof.
    intros items i Hp HG. unfold list_doc. destruct items as [|c items]; [reflexivity|].
    norm. rewrite (dok_closed_piece "[" _ eq_refl eq_refl), (dok_list_items _ _ _ Hp HG), dok_nl_ind.
    reflexivity.
  Qed.

  (* format_call_multiline *)
  Theorem dok_call_doc : forall f args i, G f -> Forall G args ->
    dok true (call_doc O rec f args i) = true.
  Proof.
    intros f args i Gf Ga. unfold call_doc.
    pose proof (dok_wrap (o_postfix_parens O f) _ (Hrec f i Gf)) as Hf.
    destruct args as [|a args].
    - rewrite (dok_child _ (Code "()") [] Hf eq_refl eq_refl). reflexivity.
    - norm. rewrite (dok_child _ (Code "(") _ Hf eq_refl eq_refl).
      rewrite (dok_closed_piece "(" _ eq_refl eq_refl).
      revert Ga. generalize (a :: args). intros l Ga. induction l as [|x l IH].
      + cbn [flat_map app]. rewrite dok_nl_ind. reflexivity.
      + inversion Ga as [|? ? Gx Ga']; subst. cbn [flat_map]. norm.
        rewrite dok_nl_ind, (dok_child _ (Code ",") _ (Hrec x _ Gx) eq_refl eq_refl).
        rewrite (dok_closed_piece "," _ eq_refl eq_refl). exact (IH Ga').
  Qed.

  (* format_binary_op_multiline, every arm (the re-assembled right operand of via/into/where is
     the document itself since the F55 repair: Relined.v; the Relined piece is unreachable) *)
  Theorem dok_binop_doc : forall op l r i, G l -> G r -> dok true (binop_doc O w rec op l r i) = true.
  Proof.
    intros op l r i Gl Gr. unfold binop_doc.
    pose proof (dok_wrap (o_needs_parens O op l true) _ (Hrec l i Gl)) as Hl.
    destruct (op_mid_facts op) as [M1 [M2 M3]]. destruct (op_head_facts op) as [H1 H2].
    destruct (is_via_like op && is_lambda r).
    - pose proof (dok_wrap (o_needs_parens O op r false) _ (Hrec r i Gr)) as Hr.
      match goal with |- context [if ?c then _ else _] => destruct c end.
      + destruct (contains_nl _) eqn:Enl.
        * rewrite (relined_identity _ Enl), String.eqb_refl. norm.
          rewrite (dok_child _ (Code _) _ Hl M1 M2), (dok_closed_piece _ _ M1 M3). exact Hr.
        * norm. rewrite (dok_child _ (Code _) _ Hl M1 M2), (dok_closed_piece _ _ M1 M3). exact Hr.
      + norm. rewrite (dok_child_nl _ _ _ Hl), (dok_closed_piece _ _ H1 H2). exact Hr.
    - pose proof (dok_wrap (o_needs_parens O op r false) _ (Hrec r (i + INDENT_SIZE) Gr)) as Hr.
      norm. rewrite (dok_child_nl _ _ _ Hl), (dok_closed_piece _ _ H1 H2). exact Hr.
  Qed.

  (* format_conditional_multiline *)
  Fixpoint gchain (el : expr) : Prop :=
    match el with ECond c2 t2 e2 => G c2 /\ G t2 /\ gchain e2 | _ => G el end.
  Theorem dok_cond_doc : forall el fc ft i,
    (forall j, dok true (fc j) = true) -> (forall j, dok true (ft j) = true) -> gchain el ->
    dok true (cond_doc w rec fc ft el i) = true.
  Proof.
    induction el; intros fc ft i Hc Ht Hg; cbn [cond_doc]; cbn [gchain] in Hg;
      match goal with |- context [if ?c then _ else _] => destruct c end; norm;
      rewrite (dok_closed_piece "if " _ eq_refl eq_refl);
      first [ rewrite (dok_child _ (Code " then") _ (Hc _) eq_refl eq_refl),
                      (dok_word_nl " then" _ _ true eq_refl eq_refl eq_refl)
            | rewrite (dok_child_nl _ _ _ (Hc _)),
                      (dok_word_nl "then" _ _ true eq_refl eq_refl eq_refl) ];
      rewrite (dok_child_nl _ _ _ (Ht _));
      first [ rewrite (dok_word_nl "else" _ _ true eq_refl eq_refl eq_refl); apply Hrec; exact Hg
            | rewrite (dok_closed_piece "else " _ eq_refl eq_refl);
              destruct Hg as [G1 [G2 G3]];
              apply IHel3; [intro; apply Hrec; exact G1|intro; apply Hrec; exact G2|exact G3] ].
  Qed.

  (* format_do_block_multiline *)
  Lemma dok_do_stmts : forall stmts inner first n tail c, plain_items stmts = true -> Forall Gcm stmts ->
    dok c (do_stmts_doc rec stmts inner first ++ Nl :: ind n :: tail) = dok true tail.
  Proof.
    induction stmts as [|[lead x tr] stmts IH]; intros inner first n tail c Hp HG.
    - cbn [do_stmts_doc app]. apply dok_nl_ind.
    - inversion HG as [|? ? Gx HG']; subst. unfold Gcm in Gx; cbn [cnode] in Gx.
      cbn [plain_items] in Hp. destruct lead; [|discriminate]. destruct tr; [discriminate|].
      cbn [do_stmts_doc leading_doc trailing_doc flat_map]. norm.
      rewrite dok_nl_ind, dok_app, (dok_protect _ first (Hrec x inner Gx)). cbn [andb].
      exact (IH inner false n tail _ Hp HG').
  Qed.
  Theorem dok_do_doc : forall stmts ret i, plain_items stmts = true -> plain_items [ret] = true ->
    Forall Gcm stmts -> Gcm ret -> dok true (do_doc rec stmts ret i) = true.
  Proof.
    intros stmts [lead x tr] i Hp Hr HG Gx. unfold Gcm in Gx; cbn [cnode] in Gx. cbn [plain_items] in Hr.
    destruct lead; [|discriminate]. destruct tr; [discriminate|].
    unfold do_doc. cbn [cleading cnode leading_doc flat_map]. norm.
    rewrite (dok_closed_piece "do {" _ eq_refl eq_refl), (dok_do_stmts _ _ _ _ _ _ Hp HG).
    rewrite (dok_closed_piece "return " _ eq_refl eq_refl), (dok_child_nl _ _ _ (Hrec x _ Gx)).
    reflexivity.
  Qed.

  (* a name / key / parameter list that stops in code state, followed by a keyword that starts
     with a blank *)
  Lemma kw_suffix : forall a k, ends_code a = true -> starts_break k = true -> nonempty k = true ->
    ends_code (a +++ k) = ends_code k /\ ends_closed (a +++ k) = ends_closed k /\ nonempty (a +++ k) = true.
  Proof.
    intros a k Ha Hb Hn.
    assert (Hbd : boundary a k = true) by (unfold boundary; rewrite Ha, Hb; apply orb_true_r).
    assert (Hne : k <> EmptyString) by (destruct k; [discriminate|discriminate]).
    pose proof (tst_boundary a k Hbd Hne) as Ht.
    split; [exact (ends_code_tst _ _ Ht)|]. split; [exact (ends_closed_tst _ _ Ht)|].
    destruct a; [exact Hn|reflexivity].
  Qed.

  (* format_lambda *)
  Theorem dok_lambda_doc : forall args body i, ends_code (lambda_args_part args) = true -> G body ->
    dok true (lambda_doc O w rec args body i) = true.
  Proof.
    intros args body i Ha Gb. unfold lambda_doc.
    destruct (kw_suffix _ " => " Ha eq_refl eq_refl) as [_ [A2 A3]].
    destruct (kw_suffix _ " =>" Ha eq_refl eq_refl) as [B1 [_ B3]].
    assert (E : ((lambda_args_part args +++ " =>") +++ " ") = (lambda_args_part args +++ " => "))
      by (rewrite sapp_assoc; reflexivity).
    pose proof (dok_wrap (o_lambda_body_parens O body) _ (Hrec body i Gb)) as Hb.
    destruct (is_do body).
    - norm. rewrite E, (dok_closed_piece _ _ A3 A2). apply Hrec, Gb.
    - match goal with |- context [if ?c then _ else _] => destruct c end; norm.
      + rewrite E, (dok_closed_piece _ _ A3 A2). exact Hb.
      + rewrite (dok_word_nl _ _ _ true B1 B3 eq_refl). apply dok_wrap, Hrec, Gb.
  Qed.

  (* format_record_entry / format_record_multiline *)
  Definition entry_ok (r : rentry) : bool :=
    match r with
    | REntry (KStatic key) _ => ends_code (o_record_key O key)
    | REntry (KShort name) _ => ends_code name && nonempty name
    | _ => true
    end.
  Fixpoint entries_ok (l : list (commented rentry)) : bool :=
    match l with [] => true | Cm [] r None :: l' => entry_ok r && entries_ok l' | _ => false end.

  Definition Gentry (r : rentry) : Prop :=
    match r with
    | REntry (KDyn k) v => G k /\ G v
    | REntry (KSpread x) _ => G x
    | REntry (KStatic _) v => G v
    | REntry (KShort _) _ => True
    end.
  Lemma dok_entry_then : forall r i p tail, entry_ok r = true -> Gentry r ->
    nonempty (render_piece p) = true -> starts_break (render_piece p) = true ->
    dok true (entry_doc O rec r i ++ p :: tail) = dok true (p :: tail).
  Proof.
    intros [[key|ke|name|x] v] i p tail Hk HG Hn Hb; cbn [entry_doc entry_ok Gentry] in *.
    - destruct (kw_suffix _ ": " Hk eq_refl eq_refl) as [_ [A2 A3]].
      cbn [app]. rewrite (dok_closed_piece _ _ A3 A2). exact (dok_child _ p tail (Hrec v i HG) Hn Hb).
    - destruct HG as [Gk Gv]. norm. rewrite (dok_closed_piece "[" _ eq_refl eq_refl).
      rewrite (dok_child _ (Code "]: ") _ (Hrec ke i Gk) eq_refl eq_refl).
      rewrite (dok_closed_piece "]: " _ eq_refl eq_refl). exact (dok_child _ p tail (Hrec v i Gv) Hn Hb).
    - apply andb_prop in Hk. destruct Hk as [Hk Hne]. cbn [app].
      cbn [dok render_piece]. rewrite Hk. cbn [orb andb]. destruct name; [discriminate|].
      cbn [closed_after]. apply dok_break; assumption.
    - exact (dok_child _ p tail (Hrec x i HG) Hn Hb).
  Qed.
  Lemma dok_rec_entries : forall entries inner tail, entries_ok entries = true ->
    Forall (fun c => Gentry (cnode c)) entries ->
    dok true (rec_entries_doc O rec entries inner ++ tail) = dok true tail.
  Proof.
    induction entries as [|[lead r tr] entries IH]; intros inner tail Hp HG; [reflexivity|].
    inversion HG as [|? ? Gr HG']; subst. cbn [cnode] in Gr.
    cbn [entries_ok] in Hp. destruct lead; [|discriminate]. destruct tr; [discriminate|].
    apply andb_prop in Hp. destruct Hp as [Hr Hp].
    cbn [rec_entries_doc leading_doc trailing_doc flat_map]. norm.
    rewrite dok_nl_ind, (dok_entry_then r inner (Code ",") _ Hr Gr eq_refl eq_refl).
    rewrite (dok_closed_piece "," _ eq_refl eq_refl). exact (IH inner tail Hp HG').
  Qed.
  Theorem dok_record_doc : forall entries i, entries_ok entries = true ->
    Forall (fun c => Gentry (cnode c)) entries ->
    dok true (record_doc O rec entries i) = true.
  Proof.
    intros entries i Hp HG. unfold record_doc. destruct entries as [|c entries]; [reflexivity|].
    norm. rewrite (dok_closed_piece "{" _ eq_refl eq_refl), (dok_rec_entries _ _ _ Hp HG), dok_nl_ind.
    reflexivity.
  Qed.

  (* assignment and `output` (format_multiline) *)
  Theorem dok_assign : forall x v i, ends_code x = true -> G v ->
    dok true (Code (x +++ " = ") :: rec v i) = true.
  Proof.
    intros x v i Hx Gv. destruct (kw_suffix _ " = " Hx eq_refl eq_refl) as [_ [A2 A3]].
    rewrite (dok_closed_piece _ _ A3 A2). apply Hrec, Gv.
  Qed.
  Theorem dok_output : forall x i, G x -> dok true (Code "output " :: rec x i) = true.
  Proof. intros x i Gx. rewrite (dok_closed_piece "output " _ eq_refl eq_refl). apply Hrec, Gx. Qed.
End Layouts.
