(* ValueInd.v — nested induction principle for [value] and basic predicates. *)
From Coq Require Import String Ascii List ZArith Bool Lia.
Require Import Blots.Num Blots.gen.Builtins Blots.Ast Blots.Value.
Import ListNotations.

Section ValueInd.
  Variable P : value -> Prop.
  Hypothesis HNum : forall x, P (VNum x).
  Hypothesis HBool : forall b, P (VBool b).
  Hypothesis HNull : P VNull.
  Hypothesis HStr : forall s, P (VStr s).
  Hypothesis HList : forall l, Forall P l -> P (VList l).
  Hypothesis HRec : forall r, Forall (fun kv => P (snd kv)) r -> P (VRec r).
  Hypothesis HLam : forall id a b sc, Forall (fun kv => P (snd kv)) sc -> P (VLam id a b sc).
  Hypothesis HBuiltin : forall b, P (VBuiltin b).
  Hypothesis HSpread : forall v, P v -> P (VSpread v).

  Fixpoint value_ind' (v : value) : P v :=
    match v with
    | VNum x => HNum x
    | VBool b => HBool b
    | VNull => HNull
    | VStr s => HStr s
    | VList l =>
        HList l ((fix go (l : list value) : Forall P l :=
                    match l with
                    | [] => Forall_nil _
                    | x :: r => Forall_cons _ (value_ind' x) (go r)
                    end) l)
    | VRec r =>
        HRec r ((fix go (r : list (string * value)) : Forall (fun kv => P (snd kv)) r :=
                   match r with
                   | [] => Forall_nil _
                   | (k, x) :: r' => Forall_cons (k, x) (value_ind' x) (go r')
                   end) r)
    | VLam id a b sc =>
        HLam id a b sc ((fix go (r : list (string * value)) : Forall (fun kv => P (snd kv)) r :=
                   match r with
                   | [] => Forall_nil _
                   | (k, x) :: r' => Forall_cons (k, x) (value_ind' x) (go r')
                   end) sc)
    | VBuiltin b => HBuiltin b
    | VSpread v => HSpread v (value_ind' v)
    end.
End ValueInd.

(* data values of property C12: numbers other than NaN, strings, booleans, null, lists,
   records (with the IndexMap invariant: keys are unique) *)
Fixpoint nodup_keys {A} (r : list (string * A)) : bool :=
  match r with
  | [] => true
  | (k, _) :: r' => match rec_get r' k with Some _ => false | None => nodup_keys r' end
  end.

Fixpoint data (v : value) : bool :=
  match v with
  | VNum x => negb (is_nan x)
  | VBool _ | VNull | VStr _ => true
  | VList l => forallb data l
  | VRec r => nodup_keys r && forallb (fun kv => data (snd kv)) r
  | _ => false
  end.

Lemma rec_get_In {A} (r : list (string * A)) k v : rec_get r k = Some v -> In (k, v) r.
Proof.
  induction r as [|[k' v'] r IH]; cbn; [discriminate|].
  destruct (String.eqb_spec k k') as [->|Hne]; intros H.
  - injection H as ->. now left.
  - right. auto.
Qed.

Lemma rec_get_None_notin {A} (r : list (string * A)) k : rec_get r k = None -> ~ In k (map fst r).
Proof.
  induction r as [|[k' v'] r IH]; cbn; [tauto|].
  destruct (String.eqb_spec k k') as [->|Hne]; [discriminate|].
  intros H [E|HI]; [congruence|]. now apply IH.
Qed.

Lemma rec_get_notin_None {A} (r : list (string * A)) k : ~ In k (map fst r) -> rec_get r k = None.
Proof.
  induction r as [|[k' v'] r IH]; cbn; [reflexivity|].
  intros H. destruct (String.eqb_spec k k') as [->|Hne]; [exfalso; apply H; now left|].
  apply IH. tauto.
Qed.

Lemma nodup_keys_NoDup {A} (r : list (string * A)) : nodup_keys r = true <-> NoDup (map fst r).
Proof.
  induction r as [|[k v] r IH]; cbn.
  - split; [constructor|reflexivity].
  - destruct (rec_get r k) eqn:E.
    + split; [discriminate|]. intros H. inversion H as [|? ? Hn _]; subst.
      exfalso. apply Hn. apply rec_get_In in E. now apply (in_map fst) in E.
    + rewrite IH. split.
      * intros H. constructor; [now apply rec_get_None_notin|assumption].
      * intros H. now inversion H.
Qed.

Lemma rec_get_In_NoDup {A} (r : list (string * A)) k v :
  NoDup (map fst r) -> In (k, v) r -> rec_get r k = Some v.
Proof.
  induction r as [|[k' v'] r IH]; cbn; [tauto|].
  intros Hnd [E|HI].
  - injection E as -> ->. now rewrite String.eqb_refl.
  - inversion Hnd as [|? ? Hn Hnd']; subst.
    destruct (String.eqb_spec k k') as [->|Hne].
    + exfalso. apply Hn. now apply (in_map fst) in HI.
    + auto.
Qed.
