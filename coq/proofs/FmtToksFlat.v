(* FmtToksFlat.v — the recursive fragment with do-blocks (property C07, extension TOK).

   `flatfam e`: every node that a layout function recurses into is a binary operator, a
   conditional, an assignment, a do-block (without comment annotations) or a node always printed
   through expr_to_source (literal, name, prefix / postfix operator, index, field access —
   whatever it contains); no list, record, call or lambda in a laid-out position.
   For such trees, with lam_ok, tok_ok, the repaired do-block rule and the repaired policy, at
   every width and indentation
       toks (render (fmtd O w e i)) = toks (print_text e)
   — the same chunks before `canon`: by expr_ind' from the step lemmas of FmtToksBin.v and
   do_family of FmtToksDo.v. *)
From Coq Require Import String Ascii List Bool Arith Lia.
Require Import Blots.Num Blots.Ast Blots.PrattRender Blots.Printer Blots.Formatter Blots.FmtTokens
               Blots.proofs.PrattRT
               Blots.proofs.FmtToks Blots.proofs.FmtToksDoc Blots.proofs.FmtToksAll Blots.proofs.FmtToksBin
               Blots.proofs.FmtToksDo.
Import ListNotations.
Local Open Scope list_scope.

Fixpoint flatfam (e : expr) : bool :=
  match e with
  | EBin _ l r => flatfam l && flatfam r
  | EAssign _ v => flatfam v
  | ECond c t f => flatfam c && flatfam t && flatfam f
  | EDo stmts (Cm rl ret rt) =>
      (fix go (l : list (commented expr)) : bool :=
         match l with [] => true | Cm [] x None :: l' => flatfam x && go l' | _ => false end) stmts
      && match rl, rt with [], None => true | _, _ => false end && flatfam ret
  | EList _ | ERec _ | ELam _ _ | ECall _ _ | EOutput _ => false
  | _ => true
  end.

Section Flat.
  Variable oi : opinfo_t.
  Variable fx : fixes.
  Variable numtxt : num -> string.
  Variable keepc : bool.
  Variable w : nat.
  Hypothesis Hdom : fx_dominus fx = true.
  Notation pol := (policy_new oi).
  Notation O := (printer_oracles fx pol numtxt keepc).
  Notation pt := (print_text fx pol numtxt).
  Notation fd := (fmtd O w).
  Notation CHf := (CH fx pol numtxt keepc w).

  Definition PF (e : expr) : Prop := flatfam e = true -> lam_ok e = true -> tok_ok O e = true ->
    (forall i, toks (render (fd e i)) = toks (pt e)) /\ CHf e /\ fsl O e = pt e.

  Ltac leaf :=
    let Hf := fresh in let Hl := fresh in let Hk := fresh in let HS := fresh in
    intros Hf Hl Hk;
    match goal with |- (forall i, toks (render (fd ?e i)) = _) /\ _ =>
      pose proof (step_leaf fx pol numtxt keepc w e eq_refl Hk) as HS;
      split; [exact HS|split; [exact (ch_plain fx pol numtxt keepc w e I Hk HS)|reflexivity]]
    end.

  Theorem flatfam_all : forall e, PF e.
  Proof.
    induction e using expr_ind'; unfold PF.
    - leaf. - leaf. - leaf. - leaf. - leaf. - leaf. - leaf.
    - intro Hf; discriminate Hf.
    - intro Hf; discriminate Hf.
    - intro Hf; discriminate Hf.
    - (* ECond *)
      intros Hf Hl Hk. cbn [flatfam] in Hf. apply andb_prop in Hf. destruct Hf as [Hf F3].
      apply andb_prop in Hf. destruct Hf as [F1 F2].
      cbn [lam_ok] in Hl. apply andb_prop in Hl. destruct Hl as [Hl L3]. apply andb_prop in Hl. destruct Hl as [L1 L2].
      pose proof Hk as Hk'. cbn [tok_ok] in Hk'. apply andb_prop in Hk'. destruct Hk' as [_ Hk'].
      apply andb_prop in Hk'. destruct Hk' as [Hk' K3]. apply andb_prop in Hk'. destruct Hk' as [K1 K2].
      destruct (IHe1 F1 L1 K1) as [S1 _]. destruct (IHe2 F2 L2 K2) as [S2 _]. destruct (IHe3 F3 L3 K3) as [_ [C3 _]].
      destruct (step_cond' fx pol numtxt keepc w e1 e2 e3 Hk S1 S2 C3) as [HS HC].
      split; [exact HS|split; [exact HC|reflexivity]].
    - (* EDo *)
      destruct ret as [rl r rt]. intros Hf Hl Hk. cbn [Pcm] in H0.
      cbn [flatfam] in Hf. apply andb_prop in Hf. destruct Hf as [Hf Fr]. apply andb_prop in Hf. destruct Hf as [Fs Fpl].
      destruct rl; [|discriminate]. destruct rt; [discriminate|].
      cbn [lam_ok] in Hl. apply andb_prop in Hl. destruct Hl as [Ls Lr].
      pose proof Hk as Hk'. cbn [tok_ok] in Hk'. apply andb_prop in Hk'. destruct Hk' as [_ Hk'].
      apply andb_prop in Hk'. destruct Hk' as [Hk' Kr]. apply andb_prop in Hk'. destruct Hk' as [Ks _].
      assert (HL : plain_items stmts = true /\ Forall (fun c => child_ok oi fx numtxt keepc w (cnode c)) stmts).
      { clear Hk. revert H Fs Ls Ks. induction stmts as [|[lead x tr] stmts IHl]; intros IH F L K;
          [split; [reflexivity|constructor]|].
        inversion IH as [|? ? Px IH']; subst. cbn [Pcm] in Px.
        destruct lead; [|discriminate]. destruct tr; [discriminate|].
        apply andb_prop in F. destruct F as [Fx F']. apply andb_prop in L. destruct L as [Lx L'].
        apply andb_prop in K. destruct K as [Kx K'].
        destruct (Px Fx Lx Kx) as [Sx _]. destruct (IHl IH' F' L' K') as [A B].
        split; [exact A|]. constructor; [cbn [cnode]; repeat split; assumption|exact B]. }
      destruct HL as [HP HF].
      destruct (H0 Fr Lr Kr) as [Sr _].
      assert (HS : forall i, toks (render (fd (EDo stmts (Cm [] r None)) i)) = toks (pt (EDo stmts (Cm [] r None)))).
      { intro i. apply (do_family oi fx numtxt keepc w Hdom stmts r i HP Hk HF). repeat split; assumption. }
      split; [exact HS|split; [exact (ch_plain fx pol numtxt keepc w (EDo stmts (Cm [] r None)) I Hk HS)|reflexivity]].
    - (* EAssign *)
      intros Hf Hl Hk. cbn [flatfam] in Hf. cbn [lam_ok] in Hl.
      pose proof Hk as Hk'. cbn [tok_ok] in Hk'. apply andb_prop in Hk'. destruct Hk' as [_ Hk'].
      apply andb_prop in Hk'. destruct Hk' as [_ Kv].
      destruct (IHe Hf Hl Kv) as [Sv [_ Ev]].
      pose proof (step_assign' fx pol numtxt keepc w x e Ev Hk Sv) as HS.
      split; [exact HS|split; [exact (ch_plain fx pol numtxt keepc w (EAssign x e) I Hk HS)|]].
      cbn [fsl print_text]. now rewrite Ev.
    - intro Hf; discriminate Hf.
    - intro Hf; discriminate Hf.
    - leaf. - leaf.
    - (* EBin *)
      intros Hf Hl Hk. cbn [flatfam] in Hf. apply andb_prop in Hf. destruct Hf as [F1 F2].
      cbn [lam_ok] in Hl. apply andb_prop in Hl. destruct Hl as [L1 L2].
      pose proof Hk as Hk'. cbn [tok_ok] in Hk'. apply andb_prop in Hk'. destruct Hk' as [_ Hk'].
      apply andb_prop in Hk'. destruct Hk' as [K1 K2].
      destruct (IHe1 F1 L1 K1) as [S1 _]. destruct (IHe2 F2 L2 K2) as [S2 _].
      pose proof (step_bin' fx pol numtxt keepc w o e1 e2 Hk S1 S2) as HS.
      split; [exact HS|split; [exact (ch_plain fx pol numtxt keepc w (EBin o e1 e2) I Hk HS)|reflexivity]].
    - leaf. - leaf. - leaf.
  Qed.

  Theorem flatfam_toks : forall e i, flatfam e = true -> lam_ok e = true -> tok_ok O e = true ->
    toks (render (fd e i)) = toks (pt e).
  Proof. intros e i Hf Hl Hk. exact (proj1 (flatfam_all e Hf Hl Hk) i). Qed.
End Flat.
