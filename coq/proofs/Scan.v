(* Scan.v — C09 render_scan: scanning the rendered text of a well-formed document for comments
   (outside string literals) yields exactly the comments the document shows, in order. *)
From Coq Require Import String Ascii List ZArith Bool Lia.
Require Import Blots.Num Blots.gen.Builtins Blots.Ast Blots.Formatter.
Import ListNotations.
Open Scope list_scope.

Lemma append_assoc : forall a b c, (a +++ b) +++ c = a +++ (b +++ c).
Proof. induction a; intros; cbn; [reflexivity|now rewrite IHa]. Qed.
Lemma append_nil_r : forall a, a +++ EmptyString = a.
Proof. induction a; cbn; [reflexivity|now rewrite IHa]. Qed.

Lemma srun_app : forall a b st,
  srun st (a +++ b) = let (o1, st1) := srun st a in let (o2, st2) := srun st1 b in (o1 ++ o2, st2).
Proof.
  induction a as [|c a IH]; intros b st; cbn [String.append srun].
  - destruct (srun st b); reflexivity.
  - destruct (sstep st c) as [o st']. rewrite IH.
    destruct (srun st' a) as [o1 st1]. destruct (srun st1 b) as [o2 st2].
    now rewrite app_assoc.
Qed.

Lemma scan_from_neutral : forall s rest, neutral s -> scan_from SCode (s +++ rest) = scan_from SCode rest.
Proof.
  intros s rest H. unfold scan_from. rewrite srun_app. unfold neutral in H. rewrite H.
  destruct (srun SCode rest); reflexivity.
Qed.

Lemma scan_from_nl : forall rest, scan_from SCode (nl +++ rest) = scan_from SCode rest.
Proof. intros. unfold scan_from, nl. cbn. destruct (srun SCode rest); reflexivity. Qed.

Lemma scan_from_comment_nl : forall c rest, is_comment_text c ->
  scan_from SCode (c +++ nl +++ rest) = c :: scan_from SCode rest.
Proof.
  intros c rest H. unfold scan_from. rewrite srun_app. unfold is_comment_text in H. rewrite H.
  unfold nl. cbn. destruct (srun SCode rest); reflexivity.
Qed.

Lemma scan_from_comment_end : forall c, is_comment_text c -> scan_from SCode c = [c].
Proof. intros c H. unfold scan_from. unfold is_comment_text in H. now rewrite H. Qed.

(* render_scan *)
Theorem render_scan : forall d, wf_doc d -> scan_comments (render d) = doc_comments d.
Proof.
  unfold scan_comments.
  fix IH 1. intros d H. destruct d as [|p r]; [reflexivity|].
  destruct p as [s|e s|c| |e s].
  - destruct H as [Hn Hr]. cbn [render render_piece]. rewrite (scan_from_neutral _ _ Hn). exact (IH r Hr).
  - destruct H as [Hn Hr]. cbn [render render_piece]. rewrite (scan_from_neutral _ _ Hn). exact (IH r Hr).
  - destruct H as [Hc Hr]. destruct r as [|q r'].
    + cbn. rewrite append_nil_r. now apply scan_from_comment_end.
    + destruct q; try contradiction.
      change (render (Comment c :: Nl :: r')) with (c +++ nl +++ render r').
      rewrite (scan_from_comment_nl _ _ Hc).
      change (doc_comments (Comment c :: Nl :: r')) with (c :: doc_comments r').
      f_equal. apply IH. exact Hr.
  - cbn [render render_piece]. rewrite scan_from_nl. exact (IH r H).
  - destruct H as [Hn Hr]. cbn [render render_piece]. rewrite (scan_from_neutral _ _ Hn). exact (IH r Hr).
Qed.

(* the hypothesis is not vacuous and the scanner sees through string literals *)
Example render_scan_example :
  let d := [Code "x = "; Opaque (EStr "a//b") """a//b"""; Code "  "; Comment "// c ""q"; Nl;
            Comment "// d"] in
  wf_doc d /\ scan_comments (render d) = ["// c ""q"; "// d"].
Proof. cbn. repeat split. Qed.

