(* PrintRT.v — the printer's token stream is parsed back to the tree (property C07).

   1. Section RT7: for ANY parenthesisation policy that is at least as careful as the Pratt levels
      require (pol_L .. pol_P), pest's Pratt parser (relational form, Pratt.v) recovers every
      well-formed tree from print_items.  Same induction as proofs/PrattRT.v (property C10), over the
      printer's own decisions instead of a level assignment with an oracle for redundant layers.
   2. The repaired rule (policy_new) over a precedence table that orders the binary operators like
      the Pratt table is such a policy; the table of the patch (fixed_opinfo) is consistent with the
      Pratt table built from the GENERATED rows.
   3. The pinned rule (policy_old over pinned_opinfo) makes the same decisions as the repaired one
      on every tree without a known-finding class. *)
From Coq Require Import String Ascii List Bool Arith Lia.
Require Import Blots.Num Blots.gen.Builtins Blots.Ast Blots.Outcome Blots.PrattTypes Blots.gen.PrecTable
               Blots.Pratt Blots.PrattRender Blots.Printer
               Blots.proofs.PrattAdequacy Blots.proofs.PrattTable Blots.proofs.PrattRT.
Import ListNotations.
Local Open Scope nat_scope.
Local Open Scope list_scope.

(* ------------------------------------------------------------------ 1. sound policies *)
Section RT7.
  Variable tbl : ops_map.
  Variable imap : list (oprule * binop).
  Variable pmap : list (oprule * prefix_ctor).
  Variable bprec : binop -> nat.
  Variable rassoc : binop -> bool.
  Variables Ppre Pfact Ppost : nat.
  Variable fx : fixes.
  Variable pol : policy.
  Variable numtxt : num -> string.

  Hypothesis H_infix : forall o,
    ops_get tbl (binop_rule o) = Some (Infix (if rassoc o then ARight else ALeft), bprec o).
  Hypothesis H_imap : forall o, assoc_find (binop_rule o) imap = Some o.
  Hypothesis H_neg : ops_get tbl R_negation = Some (Prefix, Ppre).
  Hypothesis H_inv : ops_get tbl R_invert = Some (Prefix, Ppre).
  Hypothesis H_spr : ops_get tbl R_spread_operator = Some (Prefix, Ppre).
  Hypothesis H_pneg : assoc_find R_negation pmap = Some (PUn Negate).
  Hypothesis H_pinv : assoc_find R_invert pmap = Some (PUn Not).
  Hypothesis H_pspr : assoc_find R_spread_operator pmap = Some PSpread.
  Hypothesis H_fact : ops_get tbl R_factorial = Some (Postfix, Pfact).
  Hypothesis H_acc : ops_get tbl R_access = Some (Postfix, Ppost).
  Hypothesis H_dot : ops_get tbl R_dot_access = Some (Postfix, Ppost).
  Hypothesis H_call : ops_get tbl R_call_list = Some (Postfix, Ppost).
  Hypothesis prec_pos : forall o, 0 < bprec o.
  Hypothesis prec_lt_pre : forall o, bprec o < Ppre.
  Hypothesis pre_lt_fact : Ppre < Pfact.
  Hypothesis pre_lt_post : Ppre < Ppost.
  Hypothesis level_assoc : forall o1 o2, bprec o1 = bprec o2 -> rassoc o1 = rassoc o2.
  Hypothesis H_builtins : forall b, builtin_of_name (builtin_name b) = Some b.

  Notation lvl := (lvl bprec Ppre Pfact Ppost).
  Notation INF := (INF Ppre Pfact Ppost).
  Notation needL := (needL bprec rassoc).
  Notation needR := (needR bprec rassoc).
  Notation ExprR := (Expr tbl imap pmap).
  Notation LoopR := (Loop tbl imap pmap).
  Notation ItemsR := (Items tbl imap pmap).
  Notation pi := (print_items fx pol numtxt).
  Notation follows := (follows tbl).

  (* the policy never omits parentheses the levels require *)
  Hypothesis pol_L : forall o c, pL pol o c = false -> needL o <= lvl c.
  Hypothesis pol_R : forall o c, pR pol o c = false -> needR o <= lvl c.
  Hypothesis pol_U : forall c, pU pol c = false -> Ppre <= lvl c.
  Hypothesis pol_C : forall c, pC pol c = false -> S Ppre <= lvl c.
  Hypothesis pol_P : forall c, pP pol c = false -> S Ppre <= lvl c.

  Definition rbp7 (o : binop) : nat := if rassoc o then bprec o - 1 else bprec o.

  (* how loosely the right edge of the printed form of t is open *)
  Fixpoint rmin7 (t : expr) : nat :=
    match t with
    | EBin o _ r => if pR pol o r then rbp7 o else Nat.min (rbp7 o) (rmin7 r)
    | EUn _ x => if pU pol x then Ppre - 1 else Nat.min (Ppre - 1) (rmin7 x)
    | ESpread _ => Ppre - 1
    | _ => INF
    end.

  Lemma follows_le7 : forall k k' rest, follows k rest -> k <= k' -> follows k' rest.
  Proof. intros k k' rest (b & Hb & Hle) H. exists b. split; [exact Hb|lia]. Qed.
  Lemma follows_nil7 : forall k, follows k [].
  Proof. intro k. exists 0. split; [reflexivity|lia]. Qed.
  Lemma loop_stops7 : forall rbp lhs rest, follows rbp rest -> LoopR rbp lhs rest lhs rest.
  Proof. intros rbp lhs rest (b & Hb & Hle). eapply L_stop; eauto. Qed.

  Lemma pre_pos7 : 0 < Ppre.
  Proof. pose proof (prec_lt_pre Add). lia. Qed.
  Lemma lvl_pos7 : forall t, 0 < lvl t.
  Proof. pose proof pre_pos7. destruct t; cbn; unfold PrattRender.INF; try lia. apply prec_pos. Qed.

  Lemma rmin7_ge : forall t, lvl t - 1 <= rmin7 t.
  Proof.
    induction t using expr_ind'; cbn [rmin7 PrattRender.lvl]; try (unfold PrattRender.INF; lia).
    - (* EBin *)
      destruct (pR pol o t2) eqn:E.
      + unfold rbp7. destruct (rassoc o); lia.
      + apply pol_R in E. unfold PrattRender.needR, rbp7 in *. destruct (rassoc o); lia.
    - (* EUn *)
      destruct (pU pol t) eqn:E; [lia|]. apply pol_U in E. lia.
  Qed.

  Lemma rmin7_ge_left : forall o l r, rassoc o = false -> bprec o <= rmin7 (EBin o l r).
  Proof.
    intros o l r H. cbn [rmin7]. unfold rbp7. rewrite H.
    destruct (pR pol o r) eqn:E; [lia|].
    apply pol_R in E. pose proof (rmin7_ge r). unfold PrattRender.needR in E. rewrite H in E. lia.
  Qed.

  Definition RT7 (c : expr) : Prop :=
    forall rbp rest u rest',
      rbp < lvl c -> rbp < Ppre -> follows (rmin7 c) rest ->
      LoopR rbp c rest u rest' -> ExprR rbp (pi c ++ rest) u rest'.

  Lemma items_of_RT7 : forall c, RT7 c -> ItemsR (pi c) c.
  Proof.
    intros c H. eapply I_intro with (rest := []). rewrite <- (app_nil_r (pi c)).
    apply H; [apply lvl_pos7 | apply pre_pos7 | apply follows_nil7 |].
    apply loop_stops7, follows_nil7.
  Qed.

  Lemma items_wrapb : forall c b, RT7 c -> ItemsR (wrapb b (pi c)) c.
  Proof.
    intros c b H. destruct b; cbn [wrapb]; [|apply items_of_RT7; exact H].
    eapply I_intro with (rest := []).
    eapply E_primary; [reflexivity | apply P_expr; apply items_of_RT7; exact H |].
    apply loop_stops7, follows_nil7.
  Qed.

  Lemma operand7 : forall c (b : bool) rbp rest u rest',
    RT7 c ->
    (b = false -> rbp < lvl c /\ rbp < Ppre /\ follows (rmin7 c) rest) ->
    LoopR rbp c rest u rest' ->
    ExprR rbp (wrapb b (pi c) ++ rest) u rest'.
  Proof.
    intros c b rbp rest u rest' H Hun HL. destruct b; cbn [wrapb].
    - cbn [app]. eapply E_primary; [reflexivity | apply P_expr; apply items_of_RT7; exact H | exact HL].
    - destruct (Hun eq_refl) as (H1 & H2 & H3). apply H; assumption.
  Qed.

  Definition WRT7 (e : expr) : Prop := wf e = true -> RT7 e.

  Lemma items_bare7 : forall g c, ItemsR g c -> ItemsR [IExpr false g] c.
  Proof.
    intros g c H. eapply I_intro with (rest := []).
    eapply E_primary; [reflexivity | apply P_expr; exact H | apply loop_stops7, follows_nil7].
  Qed.

  Lemma list_els7 : forall items,
    Forall (Pcm WRT7) items ->
    (fix go (l : list (commented expr)) : bool :=
       match l with [] => true | c :: l' => plain_cm c && (match c with Cm _ e _ => wf e end) && go l' end) items = true ->
    LEls tbl imap pmap
      ((fix go (l : list (commented expr)) : list lelem :=
          match l with
          | [] => []
          | Cm _ x _ :: l' => LItem (pi x) None :: go l'
          end) items) items.
  Proof.
    induction items as [|c items IH]; intros HF Hwf.
    - constructor.
    - apply andb_prop in Hwf. destruct Hwf as [Hwf Hrest]. apply andb_prop in Hwf. destruct Hwf as [Hpl Hw].
      destruct (plain_cm_inv c Hpl) as [e ->]. inversion HF as [|? ? Hc HF']; subst.
      change (Cm [] e None) with (uncommented e). apply LE_item.
      + apply items_of_RT7. exact (Hc Hw).
      + apply IH; assumption.
  Qed.

  Lemma args_els7 : forall args,
    Forall WRT7 args ->
    (fix go (l : list expr) : bool := match l with [] => true | a :: l' => wf a && go l' end) args = true ->
    Args tbl imap pmap
      ((fix go (l : list expr) : list (list item) :=
          match l with [] => [] | a :: l' => pi a :: go l' end) args) args.
  Proof.
    induction args as [|a args IH]; intros HF Hwf.
    - constructor.
    - apply andb_prop in Hwf. destruct Hwf as [Hw Hrest]. inversion HF as [|? ? Hc HF']; subst.
      apply A_cons; [apply items_of_RT7; exact (Hc Hw) | apply IH; assumption].
  Qed.

  Lemma is_null_inv7 : forall v, is_null v = true -> v = ENull.
  Proof. destruct v; simpl; congruence. Qed.

  Lemma rec_els7 : forall entries,
    Forall (Pentry WRT7) entries ->
    (fix go (l : list (commented rentry)) : bool :=
       match l with
       | [] => true
       | c :: l' =>
           plain_cm c &&
           (match c with
            | Cm _ (REntry k v) _ =>
                match k with
                | KStatic _ => wf v
                | KDyn e => wf e && wf v
                | KShort _ => is_null v
                | KSpread e => wf e && is_null v
                end
            end) && go l'
       end) entries = true ->
    REls tbl imap pmap
      ((fix go (l : list (commented rentry)) : list relem :=
          match l with
          | [] => []
          | Cm _ (REntry k v) _ :: l' =>
              match k with
              | KStatic s => RPairI (key_item s) (pi v) None
              | KDyn d => RPairI (RKDyn [IExpr false (pi d)]) (pi v) None
              | KShort s => RShortI s None
              | KSpread x => RSpreadI (pi x) None
              end :: go l'
          end) entries) entries.
  Proof.
    induction entries as [|c entries IH]; intros HF Hwf.
    - constructor.
    - apply andb_prop in Hwf. destruct Hwf as [Hwf Hrest]. apply andb_prop in Hwf. destruct Hwf as [Hpl Hw].
      destruct (plain_cm_inv c Hpl) as [[k v] ->]. inversion HF as [|? ? Hc HF']; subst.
      cbn [Pentry Pkey] in Hc. destruct Hc as [Hk Hv].
      specialize (IH HF' Hrest).
      destruct k as [s|e|s|e].
      + change (Cm [] (REntry (KStatic s) v) None) with (uncommented (REntry (KStatic s) v)).
        unfold key_item. destruct (is_valid_identifier s).
        * apply RE_pair_id; [apply items_of_RT7; exact (Hv Hw) | exact IH].
        * apply RE_pair_str; [apply items_of_RT7; exact (Hv Hw) | exact IH].
      + apply andb_prop in Hw. destruct Hw as [He Hv'].
        change (Cm [] (REntry (KDyn e) v) None) with (uncommented (REntry (KDyn e) v)).
        apply RE_pair_dyn; [apply items_bare7, items_of_RT7; exact (Hk He) | apply items_of_RT7; exact (Hv Hv') | exact IH].
      + apply is_null_inv7 in Hw. subst v.
        change (Cm [] (REntry (KShort s) ENull) None) with (uncommented (REntry (KShort s) ENull)).
        apply RE_short. exact IH.
      + apply andb_prop in Hw. destruct Hw as [He Hv']. apply is_null_inv7 in Hv'. subst v.
        change (Cm [] (REntry (KSpread e) ENull) None) with (uncommented (REntry (KSpread e) ENull)).
        apply RE_spread; [apply items_of_RT7; exact (Hk He) | exact IH].
  Qed.

  Lemma do_els7 : forall stmts i acc ret0 ret,
    Forall (Pcm WRT7) stmts ->
    (fix go (l : list (commented expr)) : bool :=
       match l with [] => true | c :: l' => plain_cm c && (match c with Cm _ e _ => wf e end) && go l' end) stmts = true ->
    RT7 ret ->
    DEls tbl imap pmap
      ((fix go (i : nat) (l : list (commented expr)) : list delem :=
          match l with
          | [] => [DRet (pi ret)]
          | Cm _ x _ :: l' =>
              DStmt (wrapb (dominus_text fx i (print_text fx pol numtxt x)) (pi x)) None :: go (S i) l'
          end) i stmts) acc ret0 (EDo (acc ++ stmts) (uncommented ret)).
  Proof.
    induction stmts as [|c stmts IH]; intros i acc ret0 ret HF Hwf Hret.
    - rewrite app_nil_r. eapply DE_ret; [apply items_of_RT7; exact Hret | apply DE_nil].
    - apply andb_prop in Hwf. destruct Hwf as [Hwf Hrest]. apply andb_prop in Hwf. destruct Hwf as [Hpl Hw].
      destruct (plain_cm_inv c Hpl) as [e ->]. inversion HF as [|? ? Hc HF']; subst.
      eapply DE_stmt; [apply items_wrapb; exact (Hc Hw)|].
      replace (acc ++ Cm [] e None :: stmts) with ((acc ++ [uncommented e]) ++ stmts)
        by (rewrite <- app_assoc; reflexivity).
      apply IH; assumption.
  Qed.

  Lemma rmin7_INF : forall c, Ppre < lvl c -> rmin7 c = INF.
  Proof.
    intros c H. destruct c; cbn [rmin7]; try reflexivity; cbn [PrattRender.lvl] in H.
    - pose proof (prec_lt_pre op). lia.
    - lia.
    - lia.
  Qed.

  Lemma lbp_op7 : forall r a p rest, ops_get tbl r = Some (a, p) -> lbp tbl (IOp r :: rest) = Ok p.
  Proof. intros r a p rest H. unfold lbp. cbn [item_op]. rewrite H. reflexivity. Qed.

  Lemma INF_big7 : Pfact <= INF /\ Ppost <= INF.
  Proof. unfold PrattRender.INF. lia. Qed.

  Lemma post_operand7 : forall c (b : bool) rbp i r pp rest v u rest',
    RT7 c -> rbp < Ppre ->
    (b = false -> S Ppre <= lvl c) ->
    item_op i = Some r -> ops_get tbl r = Some (Postfix, pp) -> Ppre < pp -> pp <= INF ->
    Post tbl imap pmap c i v ->
    LoopR rbp v rest u rest' ->
    ExprR rbp (wrapb b (pi c) ++ i :: rest) u rest'.
  Proof.
    intros c b rbp i r pp rest v u rest' Hc Hrbp Hb Hop Hops Hpp Hinf HP HL.
    apply operand7; [exact Hc | |].
    - intro E. specialize (Hb E).
      split; [lia|]. split; [exact Hrbp|].
      rewrite rmin7_INF by lia. exists pp. split; [|exact Hinf].
      unfold lbp. rewrite Hop, Hops. reflexivity.
    - eapply L_postfix; [exact Hop | exact Hops | lia | exact HP | exact HL].
  Qed.

  Theorem roundtrip_all7 : forall t, WRT7 t.
  Proof.
    induction t as [x|s|b| |x|x|b|items HF|entries HF|args body IHb|c t1 e IHc IHt IHe|stmts ret HF Hret
                   |x v IHv|e IHe|f args IHf HF|e i IHe IHi|e f IHe|o l r IHl IHr|uo e IHe|e IHe|e IHe]
      using expr_ind';
      intros Hwf rbp rest res rest' Hlvl Hpre Hf HL; cbn [print_items].
    - cbn [app]. eapply E_primary; [reflexivity | constructor | exact HL].
    - cbn [app]. eapply E_primary; [reflexivity | constructor | exact HL].
    - cbn [app]. eapply E_primary; [reflexivity | constructor | exact HL].
    - cbn [app]. eapply E_primary; [reflexivity | constructor | exact HL].
    - (* EId *)
      cbn [wf] in Hwf. destruct (builtin_of_name x) eqn:E; [discriminate|].
      cbn [app]. eapply E_primary; [reflexivity | apply P_ident; exact E | exact HL].
    - cbn [app]. eapply E_primary; [reflexivity | constructor | exact HL].
    - (* EBuiltin *)
      cbn [app]. eapply E_primary; [reflexivity | apply P_builtin; apply H_builtins | exact HL].
    - (* EList *)
      cbn [app]. eapply E_primary; [reflexivity | apply P_list; apply list_els7; [exact HF | exact Hwf] | exact HL].
    - (* ERec *)
      cbn [app]. eapply E_primary; [reflexivity | apply P_rec; apply rec_els7; [exact HF | exact Hwf] | exact HL].
    - (* ELam *)
      cbn [app]. eapply E_primary; [reflexivity | apply P_lam; apply items_wrapb; exact (IHb Hwf) | exact HL].
    - (* ECond *)
      cbn [wf] in Hwf. apply andb_prop in Hwf. destruct Hwf as [Hwf H3]. apply andb_prop in Hwf. destruct Hwf as [H1 H2].
      cbn [app]. eapply E_primary; [reflexivity | | exact HL].
      apply P_cond; apply items_of_RT7; auto.
    - (* EDo *)
      destruct ret as [rl r rt]. cbn [wf] in Hwf.
      apply andb_prop in Hwf. destruct Hwf as [Hwf Hr]. apply andb_prop in Hwf. destruct Hwf as [Hs Hpl].
      destruct (plain_cm_inv _ Hpl) as [r' Er]. inversion Er; subst.
      cbn [app]. eapply E_primary; [reflexivity | | exact HL].
      apply P_do. change (Cm [] r' None) with (uncommented r').
      change stmts with ([] ++ stmts) at 2. apply do_els7; [exact HF | exact Hs | exact (Hret Hr)].
    - (* EAssign *)
      cbn [app]. eapply E_primary; [reflexivity | apply P_assign; apply items_of_RT7; exact (IHv Hwf) | exact HL].
    - (* EOutput *) discriminate.
    - (* ECall *)
      cbn [wf] in Hwf. apply andb_prop in Hwf. destruct Hwf as [Hwf1 Hwf2].
      rewrite <- app_assoc. cbn [app].
      destruct INF_big7 as [_ Hb].
      eapply post_operand7; [exact (IHf Hwf1) | exact Hpre | apply pol_C | reflexivity | exact H_call | exact pre_lt_post | exact Hb | | exact HL].
      apply Po_call. apply args_els7; assumption.
    - (* EAccess *)
      cbn [wf] in Hwf. apply andb_prop in Hwf. destruct Hwf as [Hwf1 Hwf2].
      rewrite <- app_assoc. cbn [app].
      destruct INF_big7 as [_ Hb].
      eapply post_operand7; [exact (IHe Hwf1) | exact Hpre | apply pol_P | reflexivity | exact H_acc | exact pre_lt_post | exact Hb | | exact HL].
      apply Po_access. apply items_bare7, items_of_RT7. exact (IHi Hwf2).
    - (* EDot *)
      cbn [wf] in Hwf. rewrite <- app_assoc. cbn [app].
      destruct INF_big7 as [_ Hb].
      eapply post_operand7; [exact (IHe Hwf) | exact Hpre | apply pol_P | reflexivity | exact H_dot | exact pre_lt_post | exact Hb | apply Po_dot | exact HL].
    - (* EBin *)
      cbn [wf] in Hwf. apply andb_prop in Hwf. destruct Hwf as [Hwl Hwr].
      cbn [PrattRender.lvl] in Hlvl. rewrite <- app_assoc. cbn [app].
      assert (Hrle : rmin7 (EBin o l r) <= rbp7 o).
      { cbn [rmin7]. destruct (pR pol o r); lia. }
      assert (Hrbp_lt : rbp7 o < Ppre).
      { pose proof (prec_lt_pre o). unfold rbp7. destruct (rassoc o); lia. }
      assert (Hright : ExprR (rbp7 o) (wrapb (pR pol o r) (pi r) ++ rest) r rest).
      { apply operand7; [exact (IHr Hwr) | | apply loop_stops7; eapply follows_le7; [exact Hf | exact Hrle]].
        intro E. split; [|split; [exact Hrbp_lt|]].
        - apply pol_R in E. unfold PrattRender.needR, rbp7 in *. pose proof (prec_pos o). destruct (rassoc o); lia.
        - eapply follows_le7; [exact Hf|]. cbn [rmin7]. rewrite E. lia. }
      assert (Hstep : LoopR rbp l (IOp (binop_rule o) :: wrapb (pR pol o r) (pi r) ++ rest) res rest').
      { eapply L_infix; [reflexivity | apply H_infix | exact Hlvl | | | exact HL].
        - unfold rbp7 in Hright. destruct (rassoc o); exact Hright.
        - unfold map_infix. rewrite H_imap. reflexivity. }
      apply operand7; [exact (IHl Hwl) | | exact Hstep].
      intro E. apply pol_L in E. split; [|split; [exact Hpre|]].
      + unfold PrattRender.needL in E. destruct (rassoc o); lia.
      + exists (bprec o). split; [eapply lbp_op7; apply H_infix|].
        unfold PrattRender.needL in E. destruct (rassoc o) eqn:Ha.
        * pose proof (rmin7_ge l). lia.
        * pose proof (prec_lt_pre o) as Hop.
          destruct l as [ | | | | | | | | | | | | | | | | |o2 l1 l2|u2 y|y|y];
            cbn [PrattRender.lvl] in E;
            try (cbn [rmin7]; unfold PrattRender.INF; lia).
          -- destruct (Nat.eq_dec (bprec o2) (bprec o)) as [He|Hne].
             ++ pose proof (level_assoc _ _ He) as Hs. rewrite Ha in Hs.
                pose proof (rmin7_ge_left o2 l1 l2 Hs). lia.
             ++ pose proof (rmin7_ge (EBin o2 l1 l2)) as Hg. cbn [PrattRender.lvl] in Hg. lia.
          -- pose proof (rmin7_ge (EUn u2 y)) as Hg. cbn [PrattRender.lvl] in Hg. lia.
    - (* EUn *)
      cbn [wf] in Hwf. apply andb_prop in Hwf. destruct Hwf as [Hu Hwe].
      cbn [app].
      assert (Hrle : rmin7 (EUn uo e) <= Ppre - 1).
      { cbn [rmin7]. destruct (pU pol e); lia. }
      pose proof pre_pos7 as Hpp.
      assert (Hops : exists r, unop_item uo = IOp r /\ ops_get tbl r = Some (Prefix, Ppre) /\
                               map_prefix pmap r (Some e) = Ok (Some (EUn uo e))).
      { destruct uo; cbn [unop_item].
        - exists R_negation. repeat split; [exact H_neg | unfold map_prefix; rewrite H_pneg; reflexivity].
        - exists R_invert. repeat split; [exact H_inv | unfold map_prefix; rewrite H_pinv; reflexivity].
        - discriminate. }
      destruct Hops as (r0 & Er & Hops & Hmap). rewrite Er.
      eapply E_prefix; [reflexivity | exact Hops | | exact Hmap | exact HL].
      apply operand7; [exact (IHe Hwe) | | apply loop_stops7; eapply follows_le7; [exact Hf | exact Hrle]].
      intro E. split; [|split; [lia|]].
      + apply pol_U in E. lia.
      + eapply follows_le7; [exact Hf|]. cbn [rmin7]. rewrite E. lia.
    - (* EFact *)
      cbn [wf] in Hwf. rewrite <- app_assoc. cbn [app].
      destruct INF_big7 as [Hb _].
      eapply post_operand7; [exact (IHe Hwf) | exact Hpre | apply pol_P | reflexivity | exact H_fact | exact pre_lt_fact | exact Hb | apply Po_fact | exact HL].
    - (* ESpread *)
      cbn [wf] in Hwf. cbn [app].
      eapply E_prefix; [reflexivity | exact H_spr | | unfold map_prefix; rewrite H_pspr; reflexivity | exact HL].
      eapply E_primary; [reflexivity | apply P_expr; apply items_of_RT7; exact (IHe Hwf) |].
      apply loop_stops7. exact Hf.
  Qed.

  Theorem roundtrip_items7 : forall t, wf t = true -> ItemsR (pi t) t.
  Proof. intros t H. apply items_of_RT7. apply roundtrip_all7. exact H. Qed.

  Theorem roundtrip_fun7 : forall t, wf t = true ->
    exists n, forall m, n <= m -> parse_items tbl imap pmap m (pi t) = Ok (Some t).
  Proof. intros t H. apply items_sound. apply roundtrip_items7. exact H. Qed.
End RT7.

(* ------------------------------------------------------------------ 2. the repaired rule is sound *)
Definition op_lv (oi : opinfo_t) (o : binop) : nat := fst (oi o).
Definition op_ra (oi : opinfo_t) (o : binop) : bool :=
  match snd (oi o) with ARight => true | ALeft => false end.

(* a precedence table as operator_info reports it orders the binary operators, and assigns their
   associativity, like the levels (bprec, rassoc) of a Pratt table; all levels below PREFIX_LEVEL *)
Definition opinfo_consistent (oi : opinfo_t) (bprec : binop -> nat) (rassoc : binop -> bool) : bool :=
  forallb (fun o1 =>
     Bool.eqb (op_ra oi o1) (rassoc o1) && (op_lv oi o1 <? PREFIX_LEVEL) &&
     forallb (fun o2 => Bool.eqb (op_lv oi o1 <? op_lv oi o2) (bprec o1 <? bprec o2)) all_binops)
    all_binops.

Section NewSound.
  Variable oi : opinfo_t.
  Variable bprec : binop -> nat.
  Variable rassoc : binop -> bool.
  Variables Ppre Pfact Ppost : nat.
  Hypothesis Hcons : opinfo_consistent oi bprec rassoc = true.
  Hypothesis prec_lt_pre : forall o, bprec o < Ppre.
  Hypothesis pre_lt_fact : Ppre < Pfact.
  Hypothesis pre_lt_post : Ppre < Ppost.

  Notation lvl := (lvl bprec Ppre Pfact Ppost).

  Lemma cons_at : forall o1,
    op_ra oi o1 = rassoc o1 /\ op_lv oi o1 < PREFIX_LEVEL /\
    forall o2, (op_lv oi o1 < op_lv oi o2 <-> bprec o1 < bprec o2).
  Proof.
    intro o1. unfold opinfo_consistent in Hcons. rewrite forallb_forall in Hcons.
    specialize (Hcons o1 (all_binops_complete o1)).
    apply andb_prop in Hcons. destruct Hcons as [H12 H3]. apply andb_prop in H12. destruct H12 as [H1 H2].
    split; [apply eqb_prop; exact H1|]. split; [apply Nat.ltb_lt; exact H2|].
    intro o2. rewrite forallb_forall in H3. specialize (H3 o2 (all_binops_complete o2)).
    apply eqb_prop in H3. rewrite <- !Nat.ltb_lt. rewrite H3. tauto.
  Qed.

  Lemma lv_lt_iff : forall o1 o2, op_lv oi o1 < op_lv oi o2 <-> bprec o1 < bprec o2.
  Proof. intros o1 o2. destruct (cons_at o1) as (_ & _ & H). apply H. Qed.
  Lemma lv_eq_iff : forall o1 o2, op_lv oi o1 = op_lv oi o2 <-> bprec o1 = bprec o2.
  Proof.
    intros o1 o2. pose proof (lv_lt_iff o1 o2). pose proof (lv_lt_iff o2 o1). lia.
  Qed.

  Lemma lvl_nonbin_ge : forall c, (forall o l r, c <> EBin o l r) -> Ppre <= lvl c.
  Proof.
    intros c H. destruct c; cbn [PrattRender.lvl]; unfold PrattRender.INF; try lia.
    exfalso. eapply H. reflexivity.
  Qed.

  Lemma level_parens_sound : forall o c is_left,
    level_parens oi o c is_left = false ->
    (if is_left then needL bprec rassoc o else needR bprec rassoc o) <= lvl c.
  Proof.
    intros o c is_left H.
    assert (Hneed : (if is_left then needL bprec rassoc o else needR bprec rassoc o) <= Ppre).
    { pose proof (prec_lt_pre o). unfold needL, needR. destruct is_left, (rassoc o); lia. }
    destruct c; try (etransitivity; [exact Hneed | apply lvl_nonbin_ge; intros; discriminate]).
    (* EBin *)
    rename op into co. cbn [PrattRender.lvl].
    unfold level_parens in H. cbn [binding_level] in H.
    destruct (cons_at o) as (Hra & _ & _). unfold op_ra in Hra.
    fold (op_lv oi co) in H.
    destruct (oi o) as [pp pa] eqn:Eo. cbn [snd] in Hra.
    assert (Hpp : pp = op_lv oi o) by (unfold op_lv; rewrite Eo; reflexivity).
    apply orb_false_elim in H. destruct H as [H1 H2].
    apply Nat.ltb_ge in H1. rewrite Hpp in H1.
    pose proof (lv_lt_iff co o) as Hlt. pose proof (lv_eq_iff co o) as Heq.
    unfold needL, needR. rewrite <- Hra.
    destruct pa, is_left; cbn in H2 |- *.
    - (* ALeft, left operand: same level allowed *) lia.
    - (* ALeft, right operand *)
      rewrite andb_true_r in H2. apply Nat.eqb_neq in H2. rewrite Hpp in H2. lia.
    - (* ARight, left operand *)
      rewrite andb_true_r in H2. apply Nat.eqb_neq in H2. rewrite Hpp in H2. lia.
    - (* ARight, right operand *) lia.
  Qed.

  Lemma new_L_sound : forall o c, pL (policy_new oi) o c = false -> needL bprec rassoc o <= lvl c.
  Proof.
    intros o c H. cbn [pL policy_new] in H. unfold new_left in H.
    apply orb_false_elim in H. destruct H as [H _].
    exact (level_parens_sound o c true H).
  Qed.
  Lemma new_R_sound : forall o c, pR (policy_new oi) o c = false -> needR bprec rassoc o <= lvl c.
  Proof.
    intros o c H. cbn [pR policy_new] in H. exact (level_parens_sound o c false H).
  Qed.
  Lemma new_U_sound : forall c, pU (policy_new oi) c = false -> Ppre <= lvl c.
  Proof.
    intros c H. cbn [pU policy_new] in H. unfold new_unary in H. apply Nat.ltb_ge in H.
    apply lvl_nonbin_ge. intros o l r ->. cbn [binding_level] in H.
    destruct (cons_at o) as (_ & Hlt & _). unfold op_lv in Hlt. lia.
  Qed.
  Lemma new_post_sound : forall c, new_post oi c = false -> S Ppre <= lvl c.
  Proof.
    intros c H. unfold new_post in H. apply orb_false_elim in H. destruct H as [H _].
    apply Nat.ltb_ge in H.
    destruct c; cbn [PrattRender.lvl binding_level] in *; unfold PrattRender.INF, POSTFIX_LEVEL, PREFIX_LEVEL in *;
      try lia.
    destruct (cons_at op) as (_ & Hlt & _). unfold op_lv, PREFIX_LEVEL in Hlt. lia.
  Qed.
End NewSound.

(* ------------------------------------------------------------------ the generated table *)
Lemma fixed_opinfo_consistent : opinfo_consistent fixed_opinfo spec_bprec spec_rassoc = true.
Proof. vm_compute. reflexivity. Qed.

(* the pinned table is NOT: operator_info put ^ and ?? on one level *)
Lemma pinned_opinfo_inconsistent : opinfo_consistent pinned_opinfo spec_bprec spec_rassoc = false.
Proof. vm_compute. reflexivity. Qed.

(* what the built crate reports today is one of the two *)
Definition opinfo_eqb (a b : opinfo_t) : bool :=
  forallb (fun o => Nat.eqb (fst (a o)) (fst (b o)) && assoc_eqb (snd (a o)) (snd (b o))) all_binops.
Lemma gen_opinfo_pinned_or_fixed :
  opinfo_eqb gen_opinfo pinned_opinfo || opinfo_eqb gen_opinfo fixed_opinfo = true.
Proof. vm_compute. reflexivity. Qed.

Theorem new_policy_roundtrip : forall oi fx numtxt t,
  opinfo_consistent oi spec_bprec spec_rassoc = true ->
  wf t = true ->
  Items impl_table infix_map prefix_map (print_items fx (policy_new oi) numtxt t) t.
Proof.
  intros oi fx numtxt t Hc Hwf.
  eapply (roundtrip_items7 impl_table infix_map prefix_map spec_bprec spec_rassoc spec_Ppre spec_Pfact spec_Ppost);
    try exact Hwf; try (vm_compute; reflexivity).
  - exact impl_infix.
  - exact infix_map_binop_rule.
  - exact spec_prec_pos.
  - exact spec_prec_lt_pre.
  - vm_compute. repeat constructor.
  - vm_compute. repeat constructor.
  - exact spec_level_assoc.
  - exact builtin_names_roundtrip.
  - apply new_L_sound; [exact Hc | exact spec_prec_lt_pre | |]; vm_compute; repeat constructor.
  - apply new_R_sound; [exact Hc | exact spec_prec_lt_pre | |]; vm_compute; repeat constructor.
  - apply (new_U_sound oi spec_bprec spec_rassoc); [exact Hc | |]; vm_compute; repeat constructor.
  - intros c H. apply (new_post_sound oi spec_bprec spec_rassoc); [exact Hc | | | exact H]; vm_compute; repeat constructor.
  - intros c H. apply (new_post_sound oi spec_bprec spec_rassoc); [exact Hc | | | exact H]; vm_compute; repeat constructor.
Qed.

Theorem new_policy_roundtrip_fun : forall oi fx numtxt t,
  opinfo_consistent oi spec_bprec spec_rassoc = true ->
  wf t = true ->
  exists n, forall m, n <= m ->
    parse_items impl_table infix_map prefix_map m (print_items fx (policy_new oi) numtxt t) = Ok (Some t).
Proof. intros. apply items_sound. apply new_policy_roundtrip; assumption. Qed.
