(* AllAgree.v — the dispatcher with EVERY built-in (EvalAll.builtin_all o) and the operator table with
   `^` through the oracle (EvalAll.binop_all o) treat their callback parametrically on hereditarily
   closed values and return closed values (closed in, closed out; same result for callbacks that
   agree on closed values), for EVERY oracle o: the hypotheses of CallSite.v's simulation.  The new
   arms return a number, a string or null and never touch the store or the callback; the rest is
   FullAgree.v / FullClosed.v.  So C04's call-site independence covers the complete built-in set. *)
From Coq Require Import String Ascii List ZArith Bool Lia.
Require Import Blots.Num Blots.gen.Builtins Blots.Ast Blots.Value Blots.Outcome Blots.Binop
               Blots.Env Blots.Eval Blots.BuiltinsHof Blots.Program Blots.EvalInst Blots.EvalFull
               Blots.EvalAll Blots.BuiltinsList
               Blots.proofs.ValueInd Blots.proofs.StoreMono Blots.proofs.Closed Blots.proofs.ClosedOps
               Blots.proofs.FullClosed Blots.proofs.CallSite Blots.proofs.FullAgree.
Import ListNotations.
Open Scope list_scope.

Lemma obind_ok' : forall {A B} (m : outcome A) (f : A -> outcome B) v,
  obind m f = Ok v -> exists a, m = Ok a /\ f a = Ok v.
Proof. intros A B m f v H. destruct m; try discriminate H. eexists; split; [reflexivity|exact H]. Qed.
Ltac ob H x := apply obind_ok' in H; destruct H as [x [_ H]].

(* every new arm returns an atom: a number, a string or null *)
Section Atoms.
  Variable o : oracle.
  Lemma num1_atomic : forall f args v, num1 f args = Ok v -> atomic v.
  Proof. intros f args v H. unfold num1 in H. ob H a. ob H x. injection H as <-. exact I. Qed.
  Lemma bi_trim_atomic : forall f args v, bi_trim f args = Ok v -> atomic v.
  Proof. intros f args v H. unfold bi_trim in H. ob H a. ob H x. injection H as <-. exact I. Qed.
  Lemma bi_uppercase_atomic : forall f args v, bi_uppercase f args = Ok v -> atomic v.
  Proof. intros f args v H. unfold bi_uppercase in H. ob H a. ob H x. injection H as <-. exact I. Qed.
  Lemma bi_lowercase_atomic : forall f args v, bi_lowercase f args = Ok v -> atomic v.
  Proof. intros f args v H. unfold bi_lowercase in H. ob H a. ob H x. injection H as <-. exact I. Qed.
  Lemma bi_to_string_all_atomic : forall args v, bi_to_string_all o args = Ok v -> atomic v.
  Proof.
    intros args v H. unfold bi_to_string_all in H. ob H a.
    destruct a; injection H as <-; exact I.
  Qed.
  Lemma bi_join_all_atomic : forall args v, bi_join_all o args = Ok v -> atomic v.
  Proof. intros args v H. unfold bi_join_all in H. ob H a1. ob H d. ob H a0. ob H l. injection H as <-. exact I. Qed.
  Lemma bi_format_atomic : forall args v, bi_format o args = Ok v -> atomic v.
  Proof.
    intros args v H. unfold bi_format in H. ob H a0. ob H f. ob H rest. ob H fa. ob H s.
    injection H as <-. exact I.
  Qed.
  Lemma bi_print_atomic : forall args v, bi_print o args = Ok v -> atomic v.
  Proof. intros args v H. unfold bi_print in H. ob H l. injection H as <-. exact I. Qed.
  Lemma bi_time_now_atomic : forall args v, bi_time_now o args = Ok v -> atomic v.
  Proof. intros args v H. unfold bi_time_now in H. injection H as <-; exact I. Qed.
End Atoms.

Lemma pure_atomic_agree : forall (f : list value -> outcome value) args st,
  (forall v, f args = Ok v -> atomic v) ->
  pure_bi f args st = pure_bi f args st /\
  (forall res st', pure_bi f args st = (res, st') -> store_le st st' /\ closed_res st' res).
Proof.
  intros f args st Hf. split; [reflexivity|]. intros res st' H. unfold pure_bi in H. inversion H; subst.
  split; [apply store_le_refl|]. intros v Hv. apply atomic_closed. apply Hf. exact Hv.
Qed.

Theorem builtin_all_agree : forall o cb1 cb2 s0, cb_agree s0 cb1 cb2 -> cb_closed s0 cb1 ->
  forall b args st, store_le s0 st -> closed_list st args ->
    builtin_all o cb1 b args st = builtin_all o cb2 b args st /\
    (forall res st', builtin_all o cb1 b args st = (res, st') -> store_le st st' /\ closed_res st' res).
Proof.
  intros o cb1 cb2 s0 Hag Hcl b args st Hs0 Ha.
  destruct b; cbn [builtin_all];
    try (exact (builtin_full_agree cb1 cb2 s0 Hag Hcl _ args st Hs0 Ha));
    apply pure_atomic_agree;
    first [ apply num1_atomic | apply bi_trim_atomic | apply bi_uppercase_atomic | apply bi_lowercase_atomic
          | apply bi_to_string_all_atomic | apply bi_join_all_atomic | apply bi_format_atomic
          | apply bi_print_atomic | apply bi_time_now_atomic ].
Qed.

Theorem binop_all_agree : forall o cb1 cb2 s0, cb_agree s0 cb1 cb2 -> cb_closed s0 cb1 ->
  forall op l r st, store_le s0 st -> closed_value st l -> closed_value st r ->
    binop_all o cb1 op l r st = binop_all o cb2 op l r st /\
    (forall res st', binop_all o cb1 op l r st = (res, st') -> store_le st st' /\ closed_res st' res).
Proof.
  intros o cb1 cb2 s0 Hag Hcl op l r st Hs0 Hl Hr. unfold binop_all.
  destruct op; try (exact (binop_impl_agree cb1 cb2 s0 Hag Hcl _ l r st Hs0 Hl Hr)).
  exact (eval_binop_agree cb1 cb2 s0 Hag Hcl fn_accepts2_of_value (o_powf o) Power l r st Hs0 Hl Hr).
Qed.

(* CALL-SITE INDEPENDENCE for the evaluator with every built-in, for every oracle *)
Theorem call_site_independent_all : forall o release d fr1 fr2 this f args st,
  lookup fr1 "inputs" = lookup fr2 "inputs" ->
  (forall v, lookup fr1 "inputs" = Some v -> closed_value st v) ->
  closed_value st this -> closed_value st f -> closed_list st args ->
  AD release (binop_all o) (builtin_all o) d fr1 this f args st =
  AD release (binop_all o) (builtin_all o) d fr2 this f args st.
Proof.
  intros o release d fr1 fr2 this f args st Hi Hic Hthis Hf Hargs.
  destruct (AD_indep release (binop_all o) (builtin_all o) (binop_all_agree o) (builtin_all_agree o) d) as [HA _].
  apply (HA fr1 fr2 st Hi Hic this f args st (store_le_refl st) Hthis Hf Hargs).
Qed.

Theorem call_result_closed_all : forall o release d fr this f args st r st',
  (forall v, lookup fr "inputs" = Some v -> closed_value st v) ->
  closed_value st this -> closed_value st f -> closed_list st args ->
  AD release (binop_all o) (builtin_all o) d fr this f args st = (r, st') ->
  store_le st st' /\ (forall v, r = Ok v -> closed_value st' v).
Proof.
  intros o release d fr this f args st r st' Hic Hthis Hf Hargs H.
  destruct (AD_indep release (binop_all o) (builtin_all o) (binop_all_agree o) (builtin_all_agree o) d) as [_ HB].
  exact (HB fr st Hic this f args st r st' (store_le_refl st) Hthis Hf Hargs H).
Qed.
