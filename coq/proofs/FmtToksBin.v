(* FmtToksBin.v — the binary-operator family at the TEXT level (property C07, extension TOK).

   For trees whose laid-out part consists of binary operators, conditionals (with else-if chains)
   and an assignment (`binfam`: the operands that format_binary_op_multiline /
   format_conditional_multiline recurse into are again of these kinds or nodes that are always
   printed through expr_to_source — literals, names, prefix / postfix operators, index,
   field access), with the printer oracle instance, every width and indentation:
       toks (render (fmtd O w e i)) = toks (print_text e)
   — the SAME chunks, before `canon` (this family adds no trailing comma and prints no lambda), for
   all three arms of format_binary_op_multiline, both arms and the else-if chain of
   format_conditional_multiline, and for the assignment arm of format_multiline. *)
From Coq Require Import String Ascii List Bool Arith Lia.
Require Import Blots.Num Blots.Ast Blots.Printer Blots.Formatter Blots.FmtTokens Blots.proofs.Relined
               Blots.proofs.FmtToks Blots.proofs.FmtToksDoc Blots.proofs.FmtToksAll.
Import ListNotations.
Local Open Scope list_scope.

Lemma render_app' : forall a b, render (a ++ b) = (render a +++ render b).
Proof. induction a as [|p a IH]; intro b; [reflexivity|]. cbn [app render]. now rewrite IH, sapp_assoc. Qed.

Definition wrapT (b : bool) (l : list string) : list string :=
  if b then ("(" :: l ++ [")"])%string else l.

Lemma paren_facts : forall b s, ends_code s = true ->
  toks (paren_s b s) = wrapT b (toks s) /\ ends_code (paren_s b s) = true.
Proof.
  intros [|] s H; unfold paren_s, wrapT; [|auto].
  assert (B1 : boundary s ")" = true) by (unfold boundary; rewrite H; apply orb_true_r).
  assert (T1 : tst (s +++ ")") = tst ")") by (apply tst_boundary; [exact B1|discriminate]).
  assert (B2 : boundary "(" (s +++ ")") = true) by reflexivity.
  split.
  - rewrite (toks_app_boundary _ _ B2), (toks_app_boundary _ _ B1). reflexivity.
  - rewrite (ends_code_tst _ (s +++ ")")).
    + rewrite (ends_code_tst _ _ T1). reflexivity.
    + apply tst_boundary; [exact B2|destruct s; discriminate].
Qed.

Lemma render_wrap : forall b d, render (wrap_parens b d) = paren_s b (render d).
Proof.
  intros [|] d; unfold wrap_parens, paren_s; [|reflexivity].
  rewrite !render_app'. cbn [render render_piece]. now rewrite sapp_nil_r.
Qed.

Lemma op_chunk : forall op, toks (binary_op_str op +++ " ") = [binary_op_str op].
Proof. intros []; vm_compute; reflexivity. Qed.

Lemma toks_bin_shape : forall A s1 op B, ends_code A = true -> is_sep s1 ->
  toks (A +++ s1 +++ (binary_op_str op +++ " ") +++ B) = toks A ++ [binary_op_str op] ++ toks B.
Proof.
  intros A s1 op B HA Hs. rewrite (toks_app_sep A s1 _ HA Hs).
  destruct (op_head_facts op) as [_ Hc]. rewrite (toks_app_closed _ B Hc), op_chunk. reflexivity.
Qed.
Lemma is_sep_space : is_sep " ".
Proof. apply is_sep_blank; reflexivity. Qed.

Section Bin.
  Variable fx : fixes.
  Variable pol : policy.
  Variable numtxt : num -> string.
  Variable keepc : bool.
  Variable w : nat.
  Notation O := (printer_oracles fx pol numtxt keepc).
  Notation pt := (print_text fx pol numtxt).
  Notation fd := (fmtd O w).

  Fixpoint binfam (e : expr) : bool :=
    match e with
    | EBin _ l r => binfam l && binfam r
    | EAssign _ v => binfam v
    | ECond c t f => binfam c && binfam t && binfam f
    | EList _ | ERec _ | ELam _ _ | ECall _ _ | EDo _ _ | EOutput _ => false
    | _ => true
    end.

  Lemma fsl_pt : forall e, binfam e = true -> fsl O e = pt e.
  Proof.
    induction e; intro H; try reflexivity; try discriminate.
    cbn [binfam] in H. cbn [fsl print_text].
    match goal with IH : _ -> fsl _ ?v = _ |- _ => now rewrite (IH H) end.
  Qed.

  Lemma op_same : forall o, binop_text o = binary_op_str o.
  Proof. intros []; reflexivity. Qed.

  Lemma pt_bin : forall o l r,
    pt (EBin o l r) = paren_s (pL pol o l) (pt l) +++ " " +++ (binary_op_str o +++ " ") +++ paren_s (pR pol o r) (pt r).
  Proof. intros o l r. cbn [print_text]. rewrite op_same, !sapp_assoc. reflexivity. Qed.

  Lemma node_of : forall e, tok_ok O e = true ->
    ends_code (fsl O e) = true /\ ends_code (pt e) = true /\ contains_comments e = false.
  Proof.
    intros e H. assert (Hn : node_ok O e = true) by (destruct e; cbn [tok_ok] in H; apply andb_prop in H; tauto).
    unfold node_ok in Hn. apply andb_prop in Hn. destruct Hn as [Hn Hcc]. apply andb_prop in Hn.
    destruct Hn as [Hf He]. apply negb_true_iff in Hcc. auto.
  Qed.

  Lemma opaque_toks : forall e s, render [Opaque e s] = s.
  Proof. intros e s. cbn [render render_piece]. apply sapp_nil_r. Qed.

  Ltac enter Hfsl :=
    rewrite fmtd_unfold; unfold impl_doc;
    match goal with |- context [if ?b then _ else _] => destruct b end;
    [rewrite opaque_toks, Hfsl; reflexivity|].

  (* nodes that format_multiline always hands to expr_to_source (no comment inside) *)
  Definition leafkind (e : expr) : bool :=
    match e with
    | ENum _ | EStr _ | EBool _ | ENull | EId _ | EInRef _ | EBuiltin _
    | EAccess _ _ | EDot _ _ | EUn _ _ | EFact _ | ESpread _ => true
    | _ => false
    end.
  Lemma step_leaf : forall e, leafkind e = true -> tok_ok O e = true ->
    forall i, toks (render (fd e i)) = toks (pt e).
  Proof.
    intros e Hl Hk i. destruct (node_of e Hk) as [_ [_ Hcc]].
    assert (Hfsl : fsl O e = pt e) by (destruct e; try discriminate; reflexivity).
    destruct e; try discriminate; enter Hfsl; unfold multiline_doc; rewrite ?Hcc, ?andb_false_r;
      rewrite opaque_toks; reflexivity.
  Qed.

  Definition Sbin (e : expr) : Prop := binfam e = true -> tok_ok O e = true ->
    forall i, toks (render (fd e i)) = toks (pt e).

  Ltac leaf := let Hb := fresh in let Hk := fresh in intros Hb Hk; apply step_leaf; [reflexivity|exact Hk].

  (* the steps, with the children's equalities as hypotheses *)
  Lemma step_assign' : forall x e, fsl O e = pt e -> tok_ok O (EAssign x e) = true ->
    (forall i, toks (render (fd e i)) = toks (pt e)) ->
    forall i, toks (render (fd (EAssign x e) i)) = toks (pt (EAssign x e)).
  Proof.
    intros x e Hfv Hk IHe i. pose proof Hk as Hk'. cbn [tok_ok] in Hk'. apply andb_prop in Hk'. destruct Hk' as [_ Hk'].
    apply andb_prop in Hk'. destruct Hk' as [Hx Hv].
    assert (Hfsl : fsl O (EAssign x e) = pt (EAssign x e)) by (cbn [fsl print_text]; now rewrite Hfv).
    enter Hfsl. unfold multiline_doc.
    destruct (kw_suffix x " = " Hx eq_refl eq_refl) as [_ [A2 _]].
    change (render (Code (x +++ " = ") :: fd e i)) with ((x +++ " = ") +++ render (fd e i)).
    rewrite (toks_app_closed _ _ A2), (IHe i), <- (toks_app_closed _ _ A2).
    cbn [print_text]. now rewrite sapp_assoc.
  Qed.
  Lemma step_assign : forall x e, Sbin e -> Sbin (EAssign x e).
  Proof.
    intros x e IHe Hb Hk. pose proof Hk as Hk'. cbn [tok_ok] in Hk'. apply andb_prop in Hk'. destruct Hk' as [_ Hk'].
    apply andb_prop in Hk'. destruct Hk' as [Hx Hv]. pose proof Hb as Hbv. cbn [binfam] in Hbv.
    apply step_assign'; [exact (fsl_pt e Hbv)|exact Hk|exact (IHe Hbv Hv)].
  Qed.

  Lemma step_bin' : forall o e1 e2, tok_ok O (EBin o e1 e2) = true ->
    (forall i, toks (render (fd e1 i)) = toks (pt e1)) -> (forall i, toks (render (fd e2 i)) = toks (pt e2)) ->
    forall i, toks (render (fd (EBin o e1 e2) i)) = toks (pt (EBin o e1 e2)).
  Proof.
    intros o e1 e2 Hk IHe1 IHe2 i.
    pose proof Hk as Hk'. cbn [tok_ok] in Hk'. apply andb_prop in Hk'. destruct Hk' as [_ Hk'].
    apply andb_prop in Hk'. destruct Hk' as [H1 H2].
    assert (Hfsl : fsl O (EBin o e1 e2) = pt (EBin o e1 e2)) by reflexivity.
    enter Hfsl. unfold multiline_doc, binop_doc.
    destruct (node_of e1 H1) as [_ [P1 _]]. destruct (node_of e2 H2) as [_ [P2 _]].
    change (o_needs_parens O o e1 true) with (pL pol o e1).
    change (o_needs_parens O o e2 false) with (pR pol o e2).
    (* the one-line text *)
    destruct (paren_facts (pL pol o e1) _ P1) as [TL1 EL1].
    destruct (paren_facts (pR pol o e2) _ P2) as [TR1 _].
    rewrite pt_bin, (toks_bin_shape _ " " o _ EL1 is_sep_space), TL1, TR1.
    (* the layouts *)
    assert (HL : forall j, toks (render (wrap_parens (pL pol o e1) (fd e1 j))) = wrapT (pL pol o e1) (toks (pt e1))
                           /\ ends_code (render (wrap_parens (pL pol o e1) (fd e1 j))) = true).
    { intro j. rewrite render_wrap. destruct (layout_toks O w e1 j H1) as [_ E].
      destruct (paren_facts (pL pol o e1) _ E) as [T E']. rewrite T, (IHe1 j). auto. }
    assert (HR : forall j, toks (render (wrap_parens (pR pol o e2) (fd e2 j))) = wrapT (pR pol o e2) (toks (pt e2))).
    { intro j. rewrite render_wrap. destruct (layout_toks O w e2 j H2) as [_ E].
      destruct (paren_facts (pR pol o e2) _ E) as [T _]. rewrite T, (IHe2 j). reflexivity. }
    destruct (HL i) as [TL EL].
    assert (MID : forall R, toks (render (wrap_parens (pL pol o e1) (fd e1 i) ++
                                   [Code (" " +++ binary_op_str o +++ " ")] ++ R))
                            = wrapT (pL pol o e1) (toks (pt e1)) ++ [binary_op_str o] ++ toks (render R)).
    { intro R. rewrite render_app'. cbn [app render render_piece].
      change ((" " +++ binary_op_str o +++ " ") +++ render R)
        with (" " +++ (binary_op_str o +++ " ") +++ render R).
      rewrite (toks_bin_shape _ " " o _ EL is_sep_space), TL. reflexivity. }
    assert (BRK : forall n R, toks (render (wrap_parens (pL pol o e1) (fd e1 i) ++
                                   [Nl; ind n; Code (binary_op_str o +++ " ")] ++ R))
                            = wrapT (pL pol o e1) (toks (pt e1)) ++ [binary_op_str o] ++ toks (render R)).
    { intros n R. rewrite render_app'. cbn [app render render_piece ind].
      rewrite <- (sapp_assoc nl (make_indent n)).
      rewrite (toks_bin_shape _ (nl +++ make_indent n) o _ EL (is_sep_nl_indent n)), TL. reflexivity. }
    destruct (is_via_like o && is_lambda e2).
    + match goal with |- context [if ?c then _ else _] => destruct c end.
      * destruct (contains_nl _) eqn:Enl.
        -- rewrite (relined_identity _ Enl), String.eqb_refl, MID, HR. reflexivity.
        -- rewrite MID, HR. reflexivity.
      * rewrite BRK, HR. reflexivity.
    + rewrite BRK, HR. reflexivity.
  Qed.
  Lemma step_bin : forall o e1 e2, Sbin e1 -> Sbin e2 -> Sbin (EBin o e1 e2).
  Proof.
    intros o e1 e2 IHe1 IHe2 Hb Hk.
    pose proof Hk as Hk'. cbn [tok_ok] in Hk'. apply andb_prop in Hk'. destruct Hk' as [_ Hk'].
    apply andb_prop in Hk'. destruct Hk' as [H1 H2]. pose proof Hb as Hb'. cbn [binfam] in Hb'. apply andb_prop in Hb'.
    destruct Hb' as [B1 B2].
    apply step_bin'; [exact Hk|exact (IHe1 B1 H1)|exact (IHe2 B2 H2)].
  Qed.

  (* ---------------------------------------------------------------- the conditional family *)
  Lemma fm_code : forall k d, flat_map piece_toks (Code k :: d) = toks k ++ flat_map piece_toks d.
  Proof. reflexivity. Qed.
  Lemma fm_nl : forall d, flat_map piece_toks (Nl :: d) = flat_map piece_toks d.
  Proof. reflexivity. Qed.
  Lemma fm_ind : forall n d, flat_map piece_toks (ind n :: d) = flat_map piece_toks d.
  Proof.
    intros n d. cbn [flat_map]. unfold piece_toks at 1, ind. cbn [render_piece].
    unfold toks. rewrite toks_from_trun.
    pose proof (neutral0_blank _ (all_blank_indent n)) as H. unfold neutral0 in H. rewrite H. reflexivity.
  Qed.
  Lemma pieces_toks : forall e j, tok_ok O e = true -> flat_map piece_toks (fd e j) = toks (render (fd e j)).
  Proof. intros e j H. symmetry. exact (proj1 (layout_toks O w e j H)). Qed.

  Lemma pt_cond_toks : forall c t f, ends_code (pt c) = true -> ends_code (pt t) = true ->
    toks (pt (ECond c t f)) = ["if"] ++ toks (pt c) ++ ["then"] ++ toks (pt t) ++ ["else"] ++ toks (pt f).
  Proof.
    intros c t f Hc Ht. cbn [print_text].
    assert (S1 : is_sep " ") by exact is_sep_space.
    change ("if " +++ pt c +++ " then " +++ pt t +++ " else " +++ pt f)
      with ("if " +++ pt c +++ " " +++ ("then " +++ pt t +++ " " +++ ("else " +++ pt f))).
    rewrite (toks_app_closed "if " _ eq_refl).
    rewrite (toks_app_sep (pt c) " " _ Hc S1).
    rewrite (toks_app_closed "then " _ eq_refl).
    rewrite (toks_app_sep (pt t) " " _ Ht S1).
    rewrite (toks_app_closed "else " _ eq_refl). reflexivity.
  Qed.

  (* the else-if chain: the chunks of format_conditional_multiline's document *)
  Definition CH (el : expr) : Prop := forall fc ft Tc Tt i,
    (forall j, flat_map piece_toks (fc j) = Tc) -> (forall j, flat_map piece_toks (ft j) = Tt) ->
    flat_map piece_toks (cond_doc w fd fc ft el i) =
    ["if"] ++ Tc ++ ["then"] ++ Tt ++ ["else"] ++ toks (pt el).

  Ltac norm := repeat (progress (repeat rewrite <- app_assoc; cbn [app])).
  Ltac pcs Hc Ht :=
    norm; repeat first [ rewrite fm_code | rewrite fm_nl | rewrite fm_ind | rewrite flat_map_app ];
    rewrite ?Hc, ?Ht.

  Lemma ch_plain : forall el, (match el with ECond _ _ _ => False | _ => True end) ->
    tok_ok O el = true -> (forall i, toks (render (fd el i)) = toks (pt el)) -> CH el.
  Proof.
    intros el Hne Hk HS fc ft Tc Tt i Hc Ht.
    destruct el; try (exfalso; exact Hne); cbn [cond_doc];
      match goal with |- context [if ?c then _ else _] => destruct c end;
      pcs Hc Ht; rewrite (pieces_toks _ _ Hk), HS; reflexivity.
  Qed.

  Definition Pbin (e : expr) : Prop := binfam e = true -> tok_ok O e = true ->
    (forall i, toks (render (fd e i)) = toks (pt e)) /\ CH e.

  Lemma P_of_S : forall e, (match e with ECond _ _ _ => False | _ => True end) -> Sbin e -> Pbin e.
  Proof.
    intros e Hne HS Hb Hk. split; [exact (HS Hb Hk)|]. exact (ch_plain e Hne Hk (HS Hb Hk)).
  Qed.
  Lemma S_of_P : forall e, Pbin e -> Sbin e.
  Proof. intros e HP Hb Hk. exact (proj1 (HP Hb Hk)). Qed.

  Lemma step_cond' : forall c t f, tok_ok O (ECond c t f) = true ->
    (forall i, toks (render (fd c i)) = toks (pt c)) -> (forall i, toks (render (fd t i)) = toks (pt t)) -> CH f ->
    (forall i, toks (render (fd (ECond c t f) i)) = toks (pt (ECond c t f))) /\ CH (ECond c t f).
  Proof.
    intros c t f Hk Sc St Cf.
    pose proof Hk as Hk'. cbn [tok_ok] in Hk'. apply andb_prop in Hk'. destruct Hk' as [_ Hk'].
    apply andb_prop in Hk'. destruct Hk' as [Hk' K3]. apply andb_prop in Hk'. destruct Hk' as [K1 K2].
    assert (Hfsl : fsl O (ECond c t f) = pt (ECond c t f)) by reflexivity.
    destruct (node_of c K1) as [_ [E1 _]]. destruct (node_of t K2) as [_ [E2 _]].
    assert (HC : forall j, flat_map piece_toks (fd c j) = toks (pt c))
      by (intro j; rewrite (pieces_toks _ _ K1); apply Sc).
    assert (HT : forall j, flat_map piece_toks (fd t j) = toks (pt t))
      by (intro j; rewrite (pieces_toks _ _ K2); apply St).
    assert (CHself : CH (ECond c t f)).
    { intros fc ft Tc Tt i Hc Ht. cbn [cond_doc].
      match goal with |- context [if ?c then _ else _] => destruct c end;
        pcs Hc Ht; rewrite (Cf _ _ _ _ i HC HT), (pt_cond_toks c t f E1 E2); reflexivity. }
    split; [|exact CHself].
    intro i. enter Hfsl. unfold multiline_doc.
    assert (Hd : dok true (cond_doc w fd (fd c) (fd t) f i) = true).
    { apply dok_cond_doc with (G := Gd O w); [exact (Hrec_fd O w)
      |exact (proj1 (dok_fmtd_all O w c K1))|exact (proj1 (dok_fmtd_all O w t K2))
      |exact (proj2 (dok_fmtd_all O w f K3))]. }
    rewrite (proj1 (doc_toks _ Hd)), (Cf _ _ _ _ i HC HT), (pt_cond_toks c t f E1 E2). reflexivity.
  Qed.
  Lemma step_cond : forall c t f, Pbin c -> Pbin t -> Pbin f -> Pbin (ECond c t f).
  Proof.
    intros c t f Pc Pt Pf Hb Hk.
    pose proof Hk as Hk'. cbn [tok_ok] in Hk'. apply andb_prop in Hk'. destruct Hk' as [_ Hk'].
    apply andb_prop in Hk'. destruct Hk' as [Hk' K3]. apply andb_prop in Hk'. destruct Hk' as [K1 K2].
    pose proof Hb as Hb'. cbn [binfam] in Hb'. apply andb_prop in Hb'. destruct Hb' as [Hb' B3].
    apply andb_prop in Hb'. destruct Hb' as [B1 B2].
    destruct (Pc B1 K1) as [Sc _]. destruct (Pt B2 K2) as [St _]. destruct (Pf B3 K3) as [_ Cf].
    exact (step_cond' c t f Hk Sc St Cf).
  Qed.

  Theorem binfam_all : forall e, Pbin e.
  Proof.
    induction e; try (intro Hd; discriminate Hd);
      try (apply P_of_S; [exact I|leaf]).
    - apply step_cond; assumption.
    - apply P_of_S; [exact I|]. apply step_assign. apply S_of_P. assumption.
    - apply P_of_S; [exact I|]. apply step_bin; apply S_of_P; assumption.
  Qed.
  Theorem binfam_toks : forall e, Sbin e.
  Proof. intro e. apply S_of_P, binfam_all. Qed.

  Corollary binfam_lview : forall e i, binfam e = true -> tok_ok O e = true ->
    lview (render (fd e i)) = lview (pt e).
  Proof. intros e i Hb Hk. unfold lview. now rewrite (binfam_toks e Hb Hk i). Qed.
End Bin.
