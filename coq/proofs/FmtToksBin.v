(* FmtToksBin.v — the binary-operator family at the TEXT level (property C07, extension TOK).

   For trees whose laid-out part consists of binary operators and an assignment (`binfam`: the
   operands that format_binary_op_multiline recurses into are again binary operators or nodes that
   are always printed through expr_to_source — literals, names, prefix / postfix operators, index,
   field access), with the printer oracle instance, every width and indentation:
       toks (render (fmtd O w e i)) = toks (print_text e)
   — the SAME chunks, before `canon` (this family adds no trailing comma and prints no lambda), for
   all three arms of format_binary_op_multiline and for the assignment arm of format_multiline. *)
From Coq Require Import String Ascii List Bool Arith Lia.
Require Import Blots.Num Blots.Ast Blots.Printer Blots.Formatter Blots.FmtTokens Blots.proofs.Relined
               Blots.proofs.FmtToks Blots.proofs.FmtToksDoc Blots.proofs.FmtToksAll.
Import ListNotations.
Local Open Scope list_scope.

Lemma render_app' : forall a b, render (a ++ b) = (render a +++ render b).
Proof. induction a as [|p a IH]; intro b; [reflexivity|]. cbn [app render]. now rewrite IH, sapp_assoc. Qed.

Definition wrapT (b : bool) (l : list string) : list string :=
  if b then ("(" :: l ++ [")"])%string else l.

Lemma paren_facts : forall b s, ends_code s = true ->
  toks (paren_s b s) = wrapT b (toks s) /\ ends_code (paren_s b s) = true.
Proof.
  intros [|] s H; unfold paren_s, wrapT; [|auto].
  assert (B1 : boundary s ")" = true) by (unfold boundary; rewrite H; apply orb_true_r).
  assert (T1 : tst (s +++ ")") = tst ")") by (apply tst_boundary; [exact B1|discriminate]).
  assert (B2 : boundary "(" (s +++ ")") = true) by reflexivity.
  split.
  - rewrite (toks_app_boundary _ _ B2), (toks_app_boundary _ _ B1). reflexivity.
  - rewrite (ends_code_tst _ (s +++ ")")).
    + rewrite (ends_code_tst _ _ T1). reflexivity.
    + apply tst_boundary; [exact B2|destruct s; discriminate].
Qed.

Lemma render_wrap : forall b d, render (wrap_parens b d) = paren_s b (render d).
Proof.
  intros [|] d; unfold wrap_parens, paren_s; [|reflexivity].
  rewrite !render_app'. cbn [render render_piece]. now rewrite sapp_nil_r.
Qed.

Lemma op_chunk : forall op, toks (binary_op_str op +++ " ") = [binary_op_str op].
Proof. intros []; vm_compute; reflexivity. Qed.

Lemma toks_bin_shape : forall A s1 op B, ends_code A = true -> is_sep s1 ->
  toks (A +++ s1 +++ (binary_op_str op +++ " ") +++ B) = toks A ++ [binary_op_str op] ++ toks B.
Proof.
  intros A s1 op B HA Hs. rewrite (toks_app_sep A s1 _ HA Hs).
  destruct (op_head_facts op) as [_ Hc]. rewrite (toks_app_closed _ B Hc), op_chunk. reflexivity.
Qed.
Lemma is_sep_space : is_sep " ".
Proof. apply is_sep_blank; reflexivity. Qed.

Section Bin.
  Variable fx : fixes.
  Variable pol : policy.
  Variable numtxt : num -> string.
  Variable keepc : bool.
  Variable w : nat.
  Notation O := (printer_oracles fx pol numtxt keepc).
  Notation pt := (print_text fx pol numtxt).
  Notation fd := (fmtd O w).

  Fixpoint binfam (e : expr) : bool :=
    match e with
    | EBin _ l r => binfam l && binfam r
    | EAssign _ v => binfam v
    | EList _ | ERec _ | ELam _ _ | ECall _ _ | ECond _ _ _ | EDo _ _ | EOutput _ => false
    | _ => true
    end.

  Lemma fsl_pt : forall e, binfam e = true -> fsl O e = pt e.
  Proof.
    induction e; intro H; try reflexivity; try discriminate.
    cbn [binfam] in H. cbn [fsl print_text].
    match goal with IH : _ -> fsl _ ?v = _ |- _ => now rewrite (IH H) end.
  Qed.

  Lemma op_same : forall o, binop_text o = binary_op_str o.
  Proof. intros []; reflexivity. Qed.

  Lemma pt_bin : forall o l r,
    pt (EBin o l r) = paren_s (pL pol o l) (pt l) +++ " " +++ (binary_op_str o +++ " ") +++ paren_s (pR pol o r) (pt r).
  Proof. intros o l r. cbn [print_text]. rewrite op_same, !sapp_assoc. reflexivity. Qed.

  Lemma node_of : forall e, tok_ok O e = true ->
    ends_code (fsl O e) = true /\ ends_code (pt e) = true /\ contains_comments e = false.
  Proof.
    intros e H. assert (Hn : node_ok O e = true) by (destruct e; cbn [tok_ok] in H; apply andb_prop in H; tauto).
    unfold node_ok in Hn. apply andb_prop in Hn. destruct Hn as [Hn Hcc]. apply andb_prop in Hn.
    destruct Hn as [Hf He]. apply negb_true_iff in Hcc. auto.
  Qed.

  Lemma opaque_toks : forall e s, render [Opaque e s] = s.
  Proof. intros e s. cbn [render render_piece]. apply sapp_nil_r. Qed.

  Ltac enter e Hb :=
    rewrite fmtd_unfold; unfold impl_doc;
    match goal with |- context [if ?b then _ else _] => destruct b end;
    [rewrite opaque_toks, (fsl_pt e Hb); reflexivity|].

  Definition S (e : expr) : Prop := binfam e = true -> tok_ok O e = true ->
    forall i, toks (render (fd e i)) = toks (pt e).

  Ltac leaf :=
    match goal with |- S ?e =>
      let Hb := fresh in let Hk := fresh in let i := fresh in let Hcc := fresh in
      intros Hb Hk i; destruct (node_of e Hk) as [_ [_ Hcc]];
      enter e Hb; unfold multiline_doc; rewrite ?Hcc, ?andb_false_r; rewrite opaque_toks; reflexivity
    end.

  Lemma step_assign : forall x e, S e -> S (EAssign x e).
  Proof.
    intros x e IHe Hb Hk i. pose proof Hk as Hk'. cbn [tok_ok] in Hk'. apply andb_prop in Hk'. destruct Hk' as [_ Hk'].
    apply andb_prop in Hk'. destruct Hk' as [Hx Hv]. pose proof Hb as Hbv. cbn [binfam] in Hbv.
    enter (EAssign x e) Hb. unfold multiline_doc.
    destruct (kw_suffix x " = " Hx eq_refl eq_refl) as [_ [A2 _]].
    change (render (Code (x +++ " = ") :: fd e i)) with ((x +++ " = ") +++ render (fd e i)).
    rewrite (toks_app_closed _ _ A2), (IHe Hbv Hv i), <- (toks_app_closed _ _ A2).
    cbn [print_text]. now rewrite sapp_assoc.
  Qed.

  Lemma step_bin : forall o e1 e2, S e1 -> S e2 -> S (EBin o e1 e2).
  Proof.
    intros o e1 e2 IHe1 IHe2 Hb Hk i.
    pose proof Hk as Hk'. cbn [tok_ok] in Hk'. apply andb_prop in Hk'. destruct Hk' as [_ Hk'].
    apply andb_prop in Hk'. destruct Hk' as [H1 H2]. pose proof Hb as Hb'. cbn [binfam] in Hb'. apply andb_prop in Hb'.
    destruct Hb' as [B1 B2].
    enter (EBin o e1 e2) Hb. unfold multiline_doc, binop_doc.
    destruct (node_of e1 H1) as [_ [P1 _]]. destruct (node_of e2 H2) as [_ [P2 _]].
    change (o_needs_parens O o e1 true) with (pL pol o e1).
    change (o_needs_parens O o e2 false) with (pR pol o e2).
    (* the one-line text *)
    destruct (paren_facts (pL pol o e1) _ P1) as [TL1 EL1].
    destruct (paren_facts (pR pol o e2) _ P2) as [TR1 _].
    rewrite pt_bin, (toks_bin_shape _ " " o _ EL1 is_sep_space), TL1, TR1.
    (* the layouts *)
    assert (HL : forall j, toks (render (wrap_parens (pL pol o e1) (fd e1 j))) = wrapT (pL pol o e1) (toks (pt e1))
                           /\ ends_code (render (wrap_parens (pL pol o e1) (fd e1 j))) = true).
    { intro j. rewrite render_wrap. destruct (layout_toks O w e1 j H1) as [_ E].
      destruct (paren_facts (pL pol o e1) _ E) as [T E']. rewrite T, (IHe1 B1 H1 j). auto. }
    assert (HR : forall j, toks (render (wrap_parens (pR pol o e2) (fd e2 j))) = wrapT (pR pol o e2) (toks (pt e2))).
    { intro j. rewrite render_wrap. destruct (layout_toks O w e2 j H2) as [_ E].
      destruct (paren_facts (pR pol o e2) _ E) as [T _]. rewrite T, (IHe2 B2 H2 j). reflexivity. }
    destruct (HL i) as [TL EL].
    assert (MID : forall R, toks (render (wrap_parens (pL pol o e1) (fd e1 i) ++
                                   [Code (" " +++ binary_op_str o +++ " ")] ++ R))
                            = wrapT (pL pol o e1) (toks (pt e1)) ++ [binary_op_str o] ++ toks (render R)).
    { intro R. rewrite render_app'. cbn [app render render_piece].
      change ((" " +++ binary_op_str o +++ " ") +++ render R)
        with (" " +++ (binary_op_str o +++ " ") +++ render R).
      rewrite (toks_bin_shape _ " " o _ EL is_sep_space), TL. reflexivity. }
    assert (BRK : forall n R, toks (render (wrap_parens (pL pol o e1) (fd e1 i) ++
                                   [Nl; ind n; Code (binary_op_str o +++ " ")] ++ R))
                            = wrapT (pL pol o e1) (toks (pt e1)) ++ [binary_op_str o] ++ toks (render R)).
    { intros n R. rewrite render_app'. cbn [app render render_piece ind].
      rewrite <- (sapp_assoc nl (make_indent n)).
      rewrite (toks_bin_shape _ (nl +++ make_indent n) o _ EL (is_sep_nl_indent n)), TL. reflexivity. }
    destruct (is_via_like o && is_lambda e2).
    + match goal with |- context [if ?c then _ else _] => destruct c end.
      * destruct (contains_nl _) eqn:Enl.
        -- rewrite (relined_identity _ Enl), String.eqb_refl, MID, HR. reflexivity.
        -- rewrite MID, HR. reflexivity.
      * rewrite BRK, HR. reflexivity.
    + rewrite BRK, HR. reflexivity.
  Qed.

  Theorem binfam_toks : forall e, S e.
  Proof.
    induction e; try (intro Hd; discriminate Hd); try leaf.
    - apply step_assign; assumption.
    - apply step_bin; assumption.
  Qed.

  Corollary binfam_lview : forall e i, binfam e = true -> tok_ok O e = true ->
    lview (render (fd e i)) = lview (pt e).
  Proof. intros e i Hb Hk. unfold lview. now rewrite (binfam_toks e Hb Hk i). Qed.
End Bin.
