(* AllNoUnmList.v — the list / string / record built-ins of BuiltinsList.v never answer Unmodelled (when
   their callback does not): NoPanicList.v replayed for the outcome [Unmodelled] (generated from it by
   renaming, kept as a file of its own). *)
From Coq Require Import String Ascii List ZArith Bool Lia.
Require Import Blots.Num Blots.gen.Builtins Blots.Ast Blots.Value Blots.Outcome Blots.Binop
               Blots.Access Blots.BuiltinsList Blots.proofs.AllNoUnmEval.
Import ListNotations.
Open Scope list_scope.
Open Scope nat_scope.

Lemma barg_nu : forall args i, i < Datatypes.length args -> BuiltinsList.arg args i <> Unmodelled.
Proof.
  intros args i H. unfold BuiltinsList.arg. destruct (nth_error args i) eqn:E; [discriminate|].
  apply nth_error_None in E. lia.
Qed.
Lemma bas_number_nu : forall v, BuiltinsList.as_number v <> Unmodelled.
Proof. destruct v; discriminate. Qed.
Lemma bas_string_nu : forall v, BuiltinsList.as_string v <> Unmodelled.
Proof. destruct v; discriminate. Qed.
Lemma bas_list_nu : forall v, BuiltinsList.as_list v <> Unmodelled.
Proof. destruct v; discriminate. Qed.
Lemma bas_record_nu : forall v, BuiltinsList.as_record v <> Unmodelled.
Proof. destruct v; discriminate. Qed.

(* what the arity check gives, as a fact about [length args] usable by lia *)
Ltac arity_fact Ha :=
  cbn [builtin_arity] in Ha; unfold arity_can_accept in Ha;
  repeat match type of Ha with
         | (_ && _)%bool = true =>
             let H1 := fresh "Hb" in apply andb_true_iff in Ha; destruct Ha as [Ha H1];
             try apply Nat.leb_le in H1
         end;
  try apply Nat.eqb_eq in Ha; try apply Nat.leb_le in Ha.

(* one step of "the next monadic bind / match cannot be the Unmodelled" *)
Ltac np_step :=
  match goal with
  | |- Ok _ <> Unmodelled => discriminate
  | |- Err <> Unmodelled => discriminate
  | |- Unmodelled <> Unmodelled => discriminate
  | |- ErrDepth <> Unmodelled => discriminate
  | |- obind (BuiltinsList.arg _ _) _ <> Unmodelled => apply obind_nu; [apply barg_nu; lia|intros ? _]
  | |- obind (BuiltinsList.as_number _) _ <> Unmodelled => apply obind_nu; [apply bas_number_nu|intros ? _]
  | |- obind (BuiltinsList.as_string _) _ <> Unmodelled => apply obind_nu; [apply bas_string_nu|intros ? _]
  | |- obind (BuiltinsList.as_list _) _ <> Unmodelled => apply obind_nu; [apply bas_list_nu|intros ? _]
  | |- obind (BuiltinsList.as_record _) _ <> Unmodelled => apply obind_nu; [apply bas_record_nu|intros ? _]
  | |- (if ?b then _ else _) <> Unmodelled => destruct b
  | |- (match ?x with _ => _ end) <> Unmodelled => destruct x
  | |- (let _ := _ in _) <> Unmodelled => cbv zeta
  end.
Ltac nu_auto := repeat np_step.

Section Pure.
  Variable args : list value.

  Lemma len_nu : arity_can_accept (builtin_arity B_len) (Datatypes.length args) = true -> bi_len args <> Unmodelled.
  Proof. intros Ha. arity_fact Ha. unfold bi_len. nu_auto. Qed.
  Lemma head_nu : arity_can_accept (builtin_arity B_head) (Datatypes.length args) = true -> bi_head args <> Unmodelled.
  Proof. intros Ha. arity_fact Ha. unfold bi_head. nu_auto. Qed.
  Lemma tail_nu : arity_can_accept (builtin_arity B_tail) (Datatypes.length args) = true -> bi_tail args <> Unmodelled.
  Proof. intros Ha. arity_fact Ha. unfold bi_tail. nu_auto. Qed.
  Lemma slice_nu : arity_can_accept (builtin_arity B_slice) (Datatypes.length args) = true -> bi_slice args <> Unmodelled.
  Proof. intros Ha. arity_fact Ha. unfold bi_slice. nu_auto. Qed.
  Lemma concat_nu : bi_concat args <> Unmodelled.
  Proof. discriminate. Qed.
  Lemma unique_nu : arity_can_accept (builtin_arity B_unique) (Datatypes.length args) = true -> bi_unique args <> Unmodelled.
  Proof. intros Ha. arity_fact Ha. unfold bi_unique. nu_auto. Qed.
  Lemma sort_nu : arity_can_accept (builtin_arity B_sort) (Datatypes.length args) = true -> bi_sort args <> Unmodelled.
  Proof. intros Ha. arity_fact Ha. unfold bi_sort. nu_auto. Qed.
  Lemma reverse_nu : arity_can_accept (builtin_arity B_reverse) (Datatypes.length args) = true -> bi_reverse args <> Unmodelled.
  Proof. intros Ha. arity_fact Ha. unfold bi_reverse. nu_auto. Qed.
  Lemma split_nu : arity_can_accept (builtin_arity B_split) (Datatypes.length args) = true -> bi_split args <> Unmodelled.
  Proof. intros Ha. arity_fact Ha. unfold bi_split. nu_auto. Qed.
  Lemma replace_nu : arity_can_accept (builtin_arity B_replace) (Datatypes.length args) = true -> bi_replace args <> Unmodelled.
  Proof. intros Ha. arity_fact Ha. unfold bi_replace. nu_auto. Qed.
  Lemma keys_nu : arity_can_accept (builtin_arity B_keys) (Datatypes.length args) = true -> bi_keys args <> Unmodelled.
  Proof. intros Ha. arity_fact Ha. unfold bi_keys. nu_auto. Qed.
  Lemma values_nu : arity_can_accept (builtin_arity B_values) (Datatypes.length args) = true -> bi_values args <> Unmodelled.
  Proof. intros Ha. arity_fact Ha. unfold bi_values. nu_auto. Qed.
  Lemma entries_nu : arity_can_accept (builtin_arity B_entries) (Datatypes.length args) = true -> bi_entries args <> Unmodelled.
  Proof. intros Ha. arity_fact Ha. unfold bi_entries. nu_auto. Qed.
  Lemma flatten_nu : arity_can_accept (builtin_arity B_flatten) (Datatypes.length args) = true -> bi_flatten args <> Unmodelled.
  Proof. intros Ha. arity_fact Ha. unfold bi_flatten. nu_auto. Qed.
  Lemma chunk_nu : arity_can_accept (builtin_arity B_chunk) (Datatypes.length args) = true -> bi_chunk args <> Unmodelled.
  Proof. intros Ha. arity_fact Ha. unfold bi_chunk. nu_auto. Qed.

  (* zip indexes nothing: `list.get(i).unwrap_or(Null)` *)
  Lemma zip_nu : bi_zip args <> Unmodelled.
  Proof.
    unfold bi_zip. apply obind_nu; [|discriminate].
    apply mapM_nu. intros x _. destruct x; discriminate.
  Qed.

  (* includes: args[1] is touched inside the loop over the haystack *)
  Lemma includes_nu : arity_can_accept (builtin_arity B_includes) (Datatypes.length args) = true ->
    bi_includes args <> Unmodelled.
  Proof.
    intros Ha. arity_fact Ha. unfold bi_includes.
    apply obind_nu; [apply barg_nu; lia|]. intros a0 _.
    destruct a0; try discriminate.
    - nu_auto.
    - induction l as [|item rest IH]; [discriminate|].
      apply obind_nu; [apply barg_nu; lia|]. intros a1 _.
      destruct (equals item a1); [discriminate|exact IH].
  Qed.
End Pure.

Section Text.
  Variable str_trim str_upper str_lower : string -> string.
  Variable num_str : num -> string.
  Variable lam_str : list lamarg -> expr -> list (string * value) -> string.
  Variable args : list value.

  Lemma trim_nu : arity_can_accept (builtin_arity B_trim) (Datatypes.length args) = true ->
    bi_trim str_trim args <> Unmodelled.
  Proof. intros Ha. arity_fact Ha. unfold bi_trim. nu_auto. Qed.
  Lemma uppercase_nu : arity_can_accept (builtin_arity B_uppercase) (Datatypes.length args) = true ->
    bi_uppercase str_upper args <> Unmodelled.
  Proof. intros Ha. arity_fact Ha. unfold bi_uppercase. nu_auto. Qed.
  Lemma lowercase_nu : arity_can_accept (builtin_arity B_lowercase) (Datatypes.length args) = true ->
    bi_lowercase str_lower args <> Unmodelled.
  Proof. intros Ha. arity_fact Ha. unfold bi_lowercase. nu_auto. Qed.
  Lemma join_nu : arity_can_accept (builtin_arity B_join) (Datatypes.length args) = true ->
    bi_join num_str lam_str args <> Unmodelled.
  Proof. intros Ha. arity_fact Ha. unfold bi_join. nu_auto. Qed.
End Text.

(* the callback-taking ones: no panic when FunctionDef::call does not panic *)
Section WithCallNU.
  Variable St : Type.
  Variable call : value -> value -> list value -> St -> outcome value * St.
  Hypothesis call_nu : forall this f a st, fst (call this f a st) <> Unmodelled.

  Lemma sort_by_cmp_nu : forall func a b st, fst (sort_by_cmp St call func a b st) <> Unmodelled.
  Proof.
    intros func a b st. unfold sort_by_cmp. destruct (is_function func); [|discriminate].
    pose proof (call_nu func func [a] st) as Ha.
    destruct (call func func [a] st) as [ra st1]. cbn [fst] in Ha.
    destruct ra; try congruence; try discriminate;
      (pose proof (call_nu func func [b] st1) as Hb;
       destruct (call func func [b] st1) as [rb st2]; cbn [fst] in Hb;
       destruct rb; try congruence; discriminate).
  Qed.

  (* the merge loop of the stable merge sort (repo fix f7e0465) with the comparator closure *)
  Lemma merge_by_nu : forall func left right st,
    fst (merge_by St call func left right st) <> Unmodelled.
  Proof.
    intros func left. induction left as [|a left' IHl]; intros right st.
    - destruct right; cbn; discriminate.
    - induction right as [|b right' IHr] in st |- *; [cbn; discriminate|].
      cbn [merge_by].
      pose proof (sort_by_cmp_nu func b a st) as Hc.
      destruct (sort_by_cmp St call func b a st) as [c st1]. cbn [fst] in Hc.
      destruct c as [[]| | | |]; try congruence; try discriminate.
      + specialize (IHl (b :: right') st1).
        destruct (merge_by St call func left' (b :: right') st1) as [res st2].
        cbn [fst] in *. apply omap_nu. exact IHl.
      + specialize (IHr st1). cbn [merge_by] in IHr.
        match goal with |- context [(fix merge_right (r : list value) (s : St) {struct r} := _) right' st1] =>
          destruct ((fix merge_right (r : list value) (s : St) {struct r} := _) right' st1) as [res st2] end.
        cbn [fst] in *. apply omap_nu. exact IHr.
      + specialize (IHl (b :: right') st1).
        destruct (merge_by St call func left' (b :: right') st1) as [res st2].
        cbn [fst] in *. apply omap_nu. exact IHl.
  Qed.

  Lemma merge_sort_by_fuel_nu : forall fuel func l st,
    fst (merge_sort_by_fuel St call fuel func l st) <> Unmodelled.
  Proof.
    induction fuel as [|f IH]; intros func l st; cbn [merge_sort_by_fuel]; [discriminate|].
    destruct (Datatypes.length l <? 2); [discriminate|].
    pose proof (IH func (firstn (Datatypes.length l / 2) l) st) as H1.
    destruct (merge_sort_by_fuel St call f func (firstn (Datatypes.length l / 2) l) st) as [sl st1].
    cbn [fst] in H1. destruct sl; try congruence; try discriminate.
    pose proof (IH func (skipn (Datatypes.length l / 2) l) st1) as H2.
    destruct (merge_sort_by_fuel St call f func (skipn (Datatypes.length l / 2) l) st1) as [sr st2].
    cbn [fst] in H2. destruct sr; try congruence; try discriminate.
    apply merge_by_nu.
  Qed.

  Lemma sort_by_list_nu : forall func l st, fst (sort_by_list St call func l st) <> Unmodelled.
  Proof. intros func l st. unfold sort_by_list. apply merge_sort_by_fuel_nu. Qed.

  Lemma sort_by_nu : forall args st,
    arity_can_accept (builtin_arity B_sort_by) (Datatypes.length args) = true ->
    fst (bi_sort_by St call args st) <> Unmodelled.
  Proof.
    intros args st Ha. arity_fact Ha. unfold bi_sort_by.
    assert (H1 : exists func, BuiltinsList.arg args 1 = Ok func).
    { unfold BuiltinsList.arg. destruct (nth_error args 1) as [func|] eqn:E1; [eauto|].
      apply nth_error_None in E1. lia. }
    destruct H1 as [func H1]. rewrite H1.
    assert (H0 : obind (BuiltinsList.arg args 0) BuiltinsList.as_list <> Unmodelled).
    { apply obind_nu; [apply barg_nu; lia|]. intros a0 _. apply bas_list_nu. }
    destruct (obind (BuiltinsList.arg args 0) BuiltinsList.as_list) as [l| | | |];
      try congruence; try discriminate.
    pose proof (sort_by_list_nu func l st) as Hs.
    destruct (sort_by_list St call func l st) as [res st1]. cbn [fst] in *. apply omap_nu. exact Hs.
  Qed.

  Lemma keyed_items_nu : forall func l st, fst (keyed_items St call func l st) <> Unmodelled.
  Proof.
    intros func l. induction l as [|item rest IH]; intros st; cbn [keyed_items]; [discriminate|].
    pose proof (call_nu func func [item] st) as Hc.
    destruct (call func func [item] st) as [k st1]. cbn [fst] in Hc.
    destruct k as [v| | | |]; try congruence; try discriminate.
    destruct v; try discriminate.
    specialize (IH st1). destruct (keyed_items St call func rest st1) as [more st2].
    cbn [fst] in *. apply omap_nu. exact IH.
  Qed.

  Lemma by_prologue_nu : forall args, 2 <= Datatypes.length args -> by_prologue args <> Unmodelled.
  Proof. intros args H. unfold by_prologue. nu_auto. Qed.

  Lemma group_by_nu : forall args st,
    arity_can_accept (builtin_arity B_group_by) (Datatypes.length args) = true ->
    fst (bi_group_by St call args st) <> Unmodelled.
  Proof.
    intros args st Ha. arity_fact Ha. unfold bi_group_by.
    pose proof (by_prologue_nu args ltac:(lia)) as Hp.
    destruct (by_prologue args) as [[func l]| | | |]; try congruence; try discriminate.
    pose proof (keyed_items_nu func l st) as Hk.
    destruct (keyed_items St call func l st) as [keyed st1]. cbn [fst] in *. apply omap_nu. exact Hk.
  Qed.
  Lemma count_by_nu : forall args st,
    arity_can_accept (builtin_arity B_count_by) (Datatypes.length args) = true ->
    fst (bi_count_by St call args st) <> Unmodelled.
  Proof.
    intros args st Ha. arity_fact Ha. unfold bi_count_by.
    pose proof (by_prologue_nu args ltac:(lia)) as Hp.
    destruct (by_prologue args) as [[func l]| | | |]; try congruence; try discriminate.
    pose proof (keyed_items_nu func l st) as Hk.
    destruct (keyed_items St call func l st) as [keyed st1]. cbn [fst] in *. apply omap_nu. exact Hk.
  Qed.
End WithCallNU.

(* ---- one statement for the pure arms: a table (built-in, arm) and "no row panics" ---- *)
Definition list_builtin_arms_nu : list (builtin * (list value -> outcome value)) :=
  [(B_len, bi_len); (B_head, bi_head); (B_tail, bi_tail); (B_slice, bi_slice); (B_concat, bi_concat);
   (B_unique, bi_unique); (B_sort, bi_sort); (B_reverse, bi_reverse); (B_split, bi_split);
   (B_replace, bi_replace); (B_includes, bi_includes); (B_keys, bi_keys); (B_values, bi_values);
   (B_entries, bi_entries); (B_flatten, bi_flatten); (B_zip, bi_zip); (B_chunk, bi_chunk)].

Theorem list_builtins_no_unm : forall b arm args,
  In (b, arm) list_builtin_arms_nu ->
  arity_can_accept (builtin_arity b) (Datatypes.length args) = true ->
  arm args <> Unmodelled.
Proof.
  intros b arm args Hin Ha. unfold list_builtin_arms_nu in Hin. cbn [In] in Hin.
  repeat (destruct Hin as [Hin|Hin]; [inversion Hin; subst; clear Hin|]); try contradiction.
  - apply len_nu; exact Ha.
  - apply head_nu; exact Ha.
  - apply tail_nu; exact Ha.
  - apply slice_nu; exact Ha.
  - apply concat_nu.
  - apply unique_nu; exact Ha.
  - apply sort_nu; exact Ha.
  - apply reverse_nu; exact Ha.
  - apply split_nu; exact Ha.
  - apply replace_nu; exact Ha.
  - apply includes_nu; exact Ha.
  - apply keys_nu; exact Ha.
  - apply values_nu; exact Ha.
  - apply entries_nu; exact Ha.
  - apply flatten_nu; exact Ha.
  - apply zip_nu.
  - apply chunk_nu; exact Ha.
Qed.
