(* Closed.v — "closed after capture", hereditarily: the notion under which C04's call-site
   independence holds, with its closure properties under the value-level operations of the
   evaluator. *)
From Coq Require Import String Ascii List ZArith Bool Lia.
Require Import Blots.Num Blots.gen.Builtins Blots.Ast Blots.Value Blots.Outcome Blots.Binop
               Blots.Env Blots.Eval Blots.BuiltinsHof Blots.proofs.ValueInd Blots.proofs.StoreMono.
Import ListNotations.
Open Scope string_scope.
Open Scope list_scope.
Open Scope nat_scope.

(* assignments whose immutability check would inspect the caller's chain are excluded:
   an assignment may only be a direct statement (or the return expression) of a do-block,
   where no check is made (known finding F32 is exactly the excluded class) *)
Fixpoint nca (e : expr) {struct e} : bool :=
  match e with
  | EAssign _ _ => false
  | EId x => negb (is_builtin_name x)    (* the parser turns built-in names into Expr::BuiltIn *)
  | ELam _ body => nca body
  | EDo stmts (Cm _ ret _) =>
      (fix go (l : list (commented expr)) : bool :=
         match l with
         | [] => true
         | Cm _ s _ :: r => (match s with EAssign _ v => nca v | _ => nca s end) && go r
         end) stmts
      && (match ret with EAssign _ v => nca v | _ => nca ret end)
  | EList items =>
      (fix go (l : list (commented expr)) : bool :=
         match l with [] => true | Cm _ a _ :: r => nca a && go r end) items
  | ERec entries =>
      (fix go (l : list (commented rentry)) : bool :=
         match l with
         | [] => true
         | Cm _ (REntry k v) _ :: r =>
             (match k with
              | KDyn a => nca a && nca v
              | KSpread a => nca a
              | KStatic _ => nca v
              | KShort x => negb (is_builtin_name x)
              end) && go r
         end) entries
  | ECond c t f => nca c && nca t && nca f
  | EOutput _ => false                   (* never built by the parser; its free variables are not collected *)
  | EUn _ a | EFact a | ESpread a | EDot a _ => nca a
  | ECall f args =>
      nca f && (fix go (l : list expr) : bool :=
                  match l with [] => true | a :: r => nca a && go r end) args
  | EAccess a i => nca a && nca i
  | EBin _ l r => nca l && nca r
  | _ => true
  end.
Lemma nca_output_false : forall e, nca (EOutput e) = true -> False.
Proof. intros e H; discriminate H. Qed.

(* hereditarily closed values, relative to the current function-cell names *)
Fixpoint closed_value (st : store) (v : value) {struct v} : Prop :=
  match v with
  | VLam id args body scope =>
      nca body = true /\
      (forall x, In x (free_vars body (map arg_name args)) ->
                 lookup_frame scope x <> None \/ lam_name st id = Some x) /\
      (fix go (l : list (string * value)) : Prop :=
         match l with [] => True | kv :: r => closed_value st (snd kv) /\ go r end) scope
  | VList l =>
      (fix go (l : list value) : Prop :=
         match l with [] => True | w :: r => closed_value st w /\ go r end) l
  | VRec r =>
      (fix go (l : list (string * value)) : Prop :=
         match l with [] => True | kv :: r => closed_value st (snd kv) /\ go r end) r
  | VSpread w => closed_value st w
  | _ => True
  end.

Definition closed_list (st : store) (l : list value) : Prop := Forall (closed_value st) l.
Definition closed_frame (st : store) (f : frame) : Prop := Forall (fun kv => closed_value st (snd kv)) f.

Lemma closed_VList : forall st l, closed_value st (VList l) <-> closed_list st l.
Proof.
  intros st l. unfold closed_list. cbn [closed_value]. induction l as [|w r IH].
  - split; auto.
  - split.
    + intros [Hw Hr]. constructor; [exact Hw|apply IH; exact Hr].
    + intros H. inversion H; subst. split; [assumption|apply IH; assumption].
Qed.
Lemma closed_VRec : forall st r, closed_value st (VRec r) <-> closed_frame st r.
Proof.
  intros st r. unfold closed_frame. cbn [closed_value]. induction r as [|kv r IH].
  - split; auto.
  - split.
    + intros [Hw Hr]. constructor; [exact Hw|apply IH; exact Hr].
    + intros H. inversion H; subst. split; [assumption|apply IH; assumption].
Qed.
Lemma closed_VLam : forall st id args body scope,
  closed_value st (VLam id args body scope) <->
  (nca body = true /\
   (forall x, In x (free_vars body (map arg_name args)) ->
              lookup_frame scope x <> None \/ lam_name st id = Some x) /\
   closed_frame st scope).
Proof.
  intros st id args body scope. unfold closed_frame. cbn [closed_value].
  assert (HH : forall l, (fix go (l : list (string * value)) : Prop :=
         match l with [] => True | kv :: r => closed_value st (snd kv) /\ go r end) l
         <-> Forall (fun kv => closed_value st (snd kv)) l).
  { induction l as [|kv r IH]; [split; auto|]. split.
    - intros [Hw Hr]. constructor; [exact Hw|apply IH; exact Hr].
    - intros H. inversion H; subst. split; [assumption|apply IH; assumption]. }
  rewrite HH. tauto.
Qed.

(* names are write-once, so closedness survives every later store *)
Lemma closed_mono : forall v st st', store_le st st' -> closed_value st v -> closed_value st' v.
Proof.
  intros v st st' Hle. induction v using value_ind'; intros Hc; try exact I.
  - (* list *) apply closed_VList. apply closed_VList in Hc. unfold closed_list in *.
    rewrite Forall_forall in *. intros w Hw. apply (H w Hw). apply Hc; exact Hw.
  - (* record *) apply closed_VRec. apply closed_VRec in Hc. unfold closed_frame in *.
    rewrite Forall_forall in *. intros kv Hkv. apply (H kv Hkv). apply Hc; exact Hkv.
  - (* lambda *) apply closed_VLam. apply closed_VLam in Hc. destruct Hc as (Hn & Hf & Hs).
    split; [exact Hn|split].
    + intros x Hx. destruct (Hf x Hx) as [Hl|Hl]; [left; exact Hl|right].
      destruct Hle as [_ Hnm]. apply Hnm. exact Hl.
    + unfold closed_frame in *. rewrite Forall_forall in *. intros kv Hkv. apply (H kv Hkv). apply Hs; exact Hkv.
  - (* spread *) cbn [closed_value] in *. apply IHv. exact Hc.
Qed.

Lemma closed_list_mono : forall l st st', store_le st st' -> closed_list st l -> closed_list st' l.
Proof. intros l st st' Hle H. unfold closed_list in *. eapply Forall_impl; [|exact H]. intros a. apply closed_mono; exact Hle. Qed.
Lemma closed_frame_mono : forall f st st', store_le st st' -> closed_frame st f -> closed_frame st' f.
Proof. intros f st st' Hle H. unfold closed_frame in *. eapply Forall_impl; [|exact H]. intros a. apply closed_mono; exact Hle. Qed.

(* ---- frames ---- *)
Definition closed_frames (st : store) (fr : frames) : Prop := Forall (fun kf => closed_frame st (snd kf)) fr.
Lemma closed_frames_mono : forall fr st st', store_le st st' -> closed_frames st fr -> closed_frames st' fr.
Proof. intros fr st st' Hle H. unfold closed_frames in *. eapply Forall_impl; [|exact H]. intros a. apply closed_frame_mono; exact Hle. Qed.

Lemma lookup_frame_closed : forall st f x v, closed_frame st f -> lookup_frame f x = Some v -> closed_value st v.
Proof.
  intros st f x v Hc; induction Hc as [|[y w] f Hw _ IH]; cbn [lookup_frame]; [discriminate|].
  destruct (String.eqb x y); intros H; [inversion H; subst; exact Hw|apply IH; exact H].
Qed.
Lemma lookup_closed : forall st fr x v, closed_frames st fr -> lookup fr x = Some v -> closed_value st v.
Proof.
  intros st fr x v Hc; induction Hc as [|[k f] fr Hf _ IH]; cbn [lookup]; [discriminate|].
  destruct (lookup_frame f x) eqn:E; intros H.
  - inversion H; subst. eapply lookup_frame_closed; eauto.
  - apply IH; exact H.
Qed.
Lemma rec_get_closed : forall st r k v, closed_frame st r -> rec_get r k = Some v -> closed_value st v.
Proof.
  intros st r k v Hc; induction Hc as [|[y w] f Hw _ IH]; cbn [rec_get]; [discriminate|].
  destruct (String.eqb k y); intros H; [inversion H; subst; exact Hw|apply IH; exact H].
Qed.
Lemma rec_insert_closed : forall st r k v, closed_frame st r -> closed_value st v -> closed_frame st (rec_insert r k v).
Proof.
  intros st r k v Hc Hv; induction Hc as [|[y w] f Hw Hf IH]; cbn [rec_insert].
  - constructor; [exact Hv|constructor].
  - destruct (String.eqb k y); constructor; auto.
Qed.
Lemma rec_insert_all_closed : forall st es r, closed_frame st r -> closed_frame st es -> closed_frame st (rec_insert_all r es).
Proof.
  intros st es; induction es as [|[k v] es IH]; intros r Hr He; [exact Hr|].
  inversion He; subst. unfold rec_insert_all. cbn [fold_left fst snd]. apply IH; [|assumption].
  apply rec_insert_closed; assumption.
Qed.

(* ---- value-level operations of the evaluator preserve closedness ---- *)
Lemma atoms_closed : forall st (l : list string), closed_list st (map VStr l).
Proof. intros st l. induction l; constructor; [exact I|assumption]. Qed.

Lemma spread_items_closed : forall st v, closed_value st v -> closed_list st (spread_items v).
Proof.
  intros st v Hc. destruct v; try constructor; cbn [spread_items].
  - apply atoms_closed.
  - apply closed_VList; exact Hc.
  - apply closed_VRec in Hc. unfold closed_frame, closed_list in *.
    induction Hc as [|[k w] r Hw _ IH]; cbn [map]; constructor; [|exact IH].
    apply closed_VList. constructor; [exact I|constructor; [exact Hw|constructor]].
Qed.
Lemma flatten_spreads_closed : forall st l, closed_list st l -> closed_list st (flatten_spreads l).
Proof.
  intros st l H; induction H as [|v l Hv _ IH]; cbn [flatten_spreads]; [constructor|].
  destruct v; try (constructor; assumption).
  apply Forall_app; split; [|exact IH]. apply spread_items_closed. exact Hv.
Qed.
Lemma nth_closed : forall st l k, closed_list st l -> closed_value st (nth k l VNull).
Proof.
  intros st l k H; revert k; induction H as [|v l Hv _ IH]; intros [|k]; cbn [nth]; try exact I; auto.
Qed.
Lemma access_val_closed : forall st v i r, closed_value st v -> access_val v i = Ok r -> closed_value st r.
Proof.
  intros st v i r Hv H. unfold access_val in H. destruct v; try discriminate.
  - destruct (as_number i); try discriminate. cbn [obind] in H. inversion H; subst.
    destruct (index_from _ _); [|exact I]. destruct (nth_error (chars s) n); exact I.
  - destruct (as_number i); try discriminate. cbn [obind] in H. inversion H; subst.
    destruct (index_from _ _); [|exact I]. apply nth_closed. apply closed_VList. exact Hv.
  - destruct (as_string i); try discriminate. cbn [obind] in H. inversion H; subst.
    destruct (rec_get r0 a) eqn:E; [|exact I]. eapply rec_get_closed; [apply closed_VRec; exact Hv|exact E].
Qed.
Lemma dot_val_closed : forall st v f r, closed_value st v -> dot_val v f = Ok r -> closed_value st r.
Proof.
  intros st v f r Hv H. unfold dot_val in H. destruct v; try discriminate. inversion H; subst.
  destruct (rec_get r0 f) eqn:E; [|exact I]. eapply rec_get_closed; [apply closed_VRec; exact Hv|exact E].
Qed.
Lemma spread_val_closed : forall st v r, closed_value st v -> spread_val v = Ok r -> closed_value st r.
Proof. intros st v r Hv H. unfold spread_val in H. destruct v; inversion H; subst; exact Hv. Qed.
Lemma record_spread_entries_closed : forall st v, closed_value st v -> closed_frame st (record_spread_entries v).
Proof.
  intros st v Hv. unfold record_spread_entries. destruct v; try constructor.
  destruct v; try constructor; cbn [closed_value] in Hv.
  - (* string *) generalize 0. induction (chars s) as [|ch r IH]; intros n; cbn; constructor; [exact I|apply IH].
  - (* list *) apply closed_VList in Hv. generalize 0. induction Hv as [|w l Hw _ IH]; intros n; cbn; constructor; [exact Hw|apply IH].
  - (* record *) apply closed_VRec. exact Hv.
Qed.
Lemma constants_closed : forall st, closed_value st (VRec constants_record).
Proof. intros st. apply closed_VRec. repeat constructor. Qed.
