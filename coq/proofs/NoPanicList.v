(* NoPanicList.v — C01 for the list / string / record built-ins transcribed in BuiltinsList.v
   (owner: C14): once the arity check of FunctionDef::call has passed, none of the arms returns
   Panic — every `args[i]` is below the enforced arity (arities from the generated table
   coq/gen/Builtins.v).  `range` is the exception: its arm has a second partial operation (the
   i64 subtraction); Properties/C14.v (C14_range_no_panic) covers it with its exclusion.
   The callback-taking ones (sort_by, group_by, count_by) never panic when the callback does
   not.  The text functions are stated for every Unicode / number-printing oracle. *)
From Coq Require Import String Ascii List ZArith Bool Lia.
Require Import Blots.Num Blots.gen.Builtins Blots.Ast Blots.Value Blots.Outcome Blots.Binop
               Blots.Access Blots.BuiltinsList Blots.proofs.NoPanic.
Import ListNotations.
Open Scope list_scope.
Open Scope nat_scope.

Lemma barg_np : forall args i, i < Datatypes.length args -> BuiltinsList.arg args i <> Panic.
Proof.
  intros args i H. unfold BuiltinsList.arg. destruct (nth_error args i) eqn:E; [discriminate|].
  apply nth_error_None in E. lia.
Qed.
Lemma bas_number_np : forall v, BuiltinsList.as_number v <> Panic.
Proof. destruct v; discriminate. Qed.
Lemma bas_string_np : forall v, BuiltinsList.as_string v <> Panic.
Proof. destruct v; discriminate. Qed.
Lemma bas_list_np : forall v, BuiltinsList.as_list v <> Panic.
Proof. destruct v; discriminate. Qed.
Lemma bas_record_np : forall v, BuiltinsList.as_record v <> Panic.
Proof. destruct v; discriminate. Qed.

(* what the arity check gives, as a fact about [length args] usable by lia *)
Ltac arity_fact Ha :=
  cbn [builtin_arity] in Ha; unfold arity_can_accept in Ha;
  repeat match type of Ha with
         | (_ && _)%bool = true =>
             let H1 := fresh "Hb" in apply andb_true_iff in Ha; destruct Ha as [Ha H1];
             try apply Nat.leb_le in H1
         end;
  try apply Nat.eqb_eq in Ha; try apply Nat.leb_le in Ha.

(* one step of "the next monadic bind / match cannot be the Panic" *)
Ltac np_step :=
  match goal with
  | |- Ok _ <> Panic => discriminate
  | |- Err <> Panic => discriminate
  | |- Unmodelled <> Panic => discriminate
  | |- ErrDepth <> Panic => discriminate
  | |- obind (BuiltinsList.arg _ _) _ <> Panic => apply obind_np; [apply barg_np; lia|intros ? _]
  | |- obind (BuiltinsList.as_number _) _ <> Panic => apply obind_np; [apply bas_number_np|intros ? _]
  | |- obind (BuiltinsList.as_string _) _ <> Panic => apply obind_np; [apply bas_string_np|intros ? _]
  | |- obind (BuiltinsList.as_list _) _ <> Panic => apply obind_np; [apply bas_list_np|intros ? _]
  | |- obind (BuiltinsList.as_record _) _ <> Panic => apply obind_np; [apply bas_record_np|intros ? _]
  | |- (if ?b then _ else _) <> Panic => destruct b
  | |- (match ?x with _ => _ end) <> Panic => destruct x
  | |- (let _ := _ in _) <> Panic => cbv zeta
  end.
Ltac np_auto := repeat np_step.

Section Pure.
  Variable args : list value.

  Lemma len_np : arity_can_accept (builtin_arity B_len) (Datatypes.length args) = true -> bi_len args <> Panic.
  Proof. intros Ha. arity_fact Ha. unfold bi_len. np_auto. Qed.
  Lemma head_np : arity_can_accept (builtin_arity B_head) (Datatypes.length args) = true -> bi_head args <> Panic.
  Proof. intros Ha. arity_fact Ha. unfold bi_head. np_auto. Qed.
  Lemma tail_np : arity_can_accept (builtin_arity B_tail) (Datatypes.length args) = true -> bi_tail args <> Panic.
  Proof. intros Ha. arity_fact Ha. unfold bi_tail. np_auto. Qed.
  Lemma slice_np : arity_can_accept (builtin_arity B_slice) (Datatypes.length args) = true -> bi_slice args <> Panic.
  Proof. intros Ha. arity_fact Ha. unfold bi_slice. np_auto. Qed.
  Lemma concat_np : bi_concat args <> Panic.
  Proof. discriminate. Qed.
  Lemma unique_np : arity_can_accept (builtin_arity B_unique) (Datatypes.length args) = true -> bi_unique args <> Panic.
  Proof. intros Ha. arity_fact Ha. unfold bi_unique. np_auto. Qed.
  Lemma sort_np : arity_can_accept (builtin_arity B_sort) (Datatypes.length args) = true -> bi_sort args <> Panic.
  Proof. intros Ha. arity_fact Ha. unfold bi_sort. np_auto. Qed.
  Lemma reverse_np : arity_can_accept (builtin_arity B_reverse) (Datatypes.length args) = true -> bi_reverse args <> Panic.
  Proof. intros Ha. arity_fact Ha. unfold bi_reverse. np_auto. Qed.
  Lemma split_np : arity_can_accept (builtin_arity B_split) (Datatypes.length args) = true -> bi_split args <> Panic.
  Proof. intros Ha. arity_fact Ha. unfold bi_split. np_auto. Qed.
  Lemma replace_np : arity_can_accept (builtin_arity B_replace) (Datatypes.length args) = true -> bi_replace args <> Panic.
  Proof. intros Ha. arity_fact Ha. unfold bi_replace. np_auto. Qed.
  Lemma keys_np : arity_can_accept (builtin_arity B_keys) (Datatypes.length args) = true -> bi_keys args <> Panic.
  Proof. intros Ha. arity_fact Ha. unfold bi_keys. np_auto. Qed.
  Lemma values_np : arity_can_accept (builtin_arity B_values) (Datatypes.length args) = true -> bi_values args <> Panic.
  Proof. intros Ha. arity_fact Ha. unfold bi_values. np_auto. Qed.
  Lemma entries_np : arity_can_accept (builtin_arity B_entries) (Datatypes.length args) = true -> bi_entries args <> Panic.
  Proof. intros Ha. arity_fact Ha. unfold bi_entries. np_auto. Qed.
  Lemma flatten_np : arity_can_accept (builtin_arity B_flatten) (Datatypes.length args) = true -> bi_flatten args <> Panic.
  Proof. intros Ha. arity_fact Ha. unfold bi_flatten. np_auto. Qed.
  Lemma chunk_np : arity_can_accept (builtin_arity B_chunk) (Datatypes.length args) = true -> bi_chunk args <> Panic.
  Proof. intros Ha. arity_fact Ha. unfold bi_chunk. np_auto. Qed.

  (* zip indexes nothing: `list.get(i).unwrap_or(Null)` *)
  Lemma zip_np : bi_zip args <> Panic.
  Proof.
    unfold bi_zip. apply obind_np; [|discriminate].
    apply mapM_np. intros x _. destruct x; discriminate.
  Qed.

  (* includes: args[1] is touched inside the loop over the haystack *)
  Lemma includes_np : arity_can_accept (builtin_arity B_includes) (Datatypes.length args) = true ->
    bi_includes args <> Panic.
  Proof.
    intros Ha. arity_fact Ha. unfold bi_includes.
    apply obind_np; [apply barg_np; lia|]. intros a0 _.
    destruct a0; try discriminate.
    - np_auto.
    - induction l as [|item rest IH]; [discriminate|].
      apply obind_np; [apply barg_np; lia|]. intros a1 _.
      destruct (equals item a1); [discriminate|exact IH].
  Qed.
End Pure.

Section Text.
  Variable str_trim str_upper str_lower : string -> string.
  Variable num_str : num -> string.
  Variable lam_str : list lamarg -> expr -> list (string * value) -> string.
  Variable args : list value.

  Lemma trim_np : arity_can_accept (builtin_arity B_trim) (Datatypes.length args) = true ->
    bi_trim str_trim args <> Panic.
  Proof. intros Ha. arity_fact Ha. unfold bi_trim. np_auto. Qed.
  Lemma uppercase_np : arity_can_accept (builtin_arity B_uppercase) (Datatypes.length args) = true ->
    bi_uppercase str_upper args <> Panic.
  Proof. intros Ha. arity_fact Ha. unfold bi_uppercase. np_auto. Qed.
  Lemma lowercase_np : arity_can_accept (builtin_arity B_lowercase) (Datatypes.length args) = true ->
    bi_lowercase str_lower args <> Panic.
  Proof. intros Ha. arity_fact Ha. unfold bi_lowercase. np_auto. Qed.
  Lemma join_np : arity_can_accept (builtin_arity B_join) (Datatypes.length args) = true ->
    bi_join num_str lam_str args <> Panic.
  Proof. intros Ha. arity_fact Ha. unfold bi_join. np_auto. Qed.
End Text.

(* the callback-taking ones: no panic when FunctionDef::call does not panic *)
Section WithCallNP.
  Variable St : Type.
  Variable call : value -> value -> list value -> St -> outcome value * St.
  Hypothesis call_np : forall this f a st, fst (call this f a st) <> Panic.

  Lemma sort_by_cmp_np : forall func a b st, fst (sort_by_cmp St call func a b st) <> Panic.
  Proof.
    intros func a b st. unfold sort_by_cmp. destruct (is_function func); [|discriminate].
    pose proof (call_np func func [a] st) as Ha.
    destruct (call func func [a] st) as [ra st1]. cbn [fst] in Ha.
    destruct ra; try congruence; try discriminate;
      (pose proof (call_np func func [b] st1) as Hb;
       destruct (call func func [b] st1) as [rb st2]; cbn [fst] in Hb;
       destruct rb; try congruence; discriminate).
  Qed.

  Lemma insert_tail_by_np : forall func x prefix_rev st,
    fst (insert_tail_by St call func x prefix_rev st) <> Panic.
  Proof.
    intros func x prefix_rev. induction prefix_rev as [|y rest IH]; intros st; cbn [insert_tail_by];
      [discriminate|].
    pose proof (sort_by_cmp_np func x y st) as Hc.
    destruct (sort_by_cmp St call func x y st) as [c st1]. cbn [fst] in Hc.
    destruct c as [[]| | | |]; try congruence; try discriminate.
    specialize (IH st1). destruct (insert_tail_by St call func x rest st1) as [res st2].
    cbn [fst] in *. apply omap_np. exact IH.
  Qed.

  Lemma insertion_sort_by_np : forall func l prefix_rev st,
    fst (insertion_sort_by St call func l prefix_rev st) <> Panic.
  Proof.
    intros func l. induction l as [|x rest IH]; intros prefix_rev st; cbn [insertion_sort_by];
      [discriminate|].
    pose proof (insert_tail_by_np func x prefix_rev st) as Hi.
    destruct (insert_tail_by St call func x prefix_rev st) as [res st1]. cbn [fst] in Hi.
    destruct res; try congruence; try discriminate; try apply IH.
  Qed.

  Lemma keys_of_np : forall func l st, fst (keys_of St call func l st) <> Panic.
  Proof.
    intros func l. induction l as [|x rest IH]; intros st; cbn [keys_of]; [discriminate|].
    pose proof (call_np func func [x] st) as Hc.
    destruct (call func func [x] st) as [k st1]. cbn [fst] in Hc.
    destruct k; try congruence; try discriminate.
    specialize (IH st1). destruct (keys_of St call func rest st1) as [more st2].
    cbn [fst] in *. apply omap_np. exact IH.
  Qed.

  Lemma sort_by_list_np : forall func l st, fst (sort_by_list St call func l st) <> Panic.
  Proof.
    intros func l st. unfold sort_by_list.
    destruct (Datatypes.length l <=? 20); [apply insertion_sort_by_np|].
    destruct (negb (is_function func)); [discriminate|].
    pose proof (keys_of_np func l st) as Hk.
    destruct (keys_of St call func l st) as [keyed st1]. cbn [fst] in Hk.
    destruct keyed; try congruence; try discriminate.
    destruct (mutually_comparable _); discriminate.
  Qed.

  Lemma sort_by_np : forall args st,
    arity_can_accept (builtin_arity B_sort_by) (Datatypes.length args) = true ->
    fst (bi_sort_by St call args st) <> Panic.
  Proof.
    intros args st Ha. arity_fact Ha. unfold bi_sort_by.
    assert (H1 : exists func, BuiltinsList.arg args 1 = Ok func).
    { unfold BuiltinsList.arg. destruct (nth_error args 1) as [func|] eqn:E1; [eauto|].
      apply nth_error_None in E1. lia. }
    destruct H1 as [func H1]. rewrite H1.
    assert (H0 : obind (BuiltinsList.arg args 0) BuiltinsList.as_list <> Panic).
    { apply obind_np; [apply barg_np; lia|]. intros a0 _. apply bas_list_np. }
    destruct (obind (BuiltinsList.arg args 0) BuiltinsList.as_list) as [l| | | |];
      try congruence; try discriminate.
    pose proof (sort_by_list_np func l st) as Hs.
    destruct (sort_by_list St call func l st) as [res st1]. cbn [fst] in *. apply omap_np. exact Hs.
  Qed.

  Lemma keyed_items_np : forall func l st, fst (keyed_items St call func l st) <> Panic.
  Proof.
    intros func l. induction l as [|item rest IH]; intros st; cbn [keyed_items]; [discriminate|].
    pose proof (call_np func func [item] st) as Hc.
    destruct (call func func [item] st) as [k st1]. cbn [fst] in Hc.
    destruct k as [v| | | |]; try congruence; try discriminate.
    destruct v; try discriminate.
    specialize (IH st1). destruct (keyed_items St call func rest st1) as [more st2].
    cbn [fst] in *. apply omap_np. exact IH.
  Qed.

  Lemma by_prologue_np : forall args, 2 <= Datatypes.length args -> by_prologue args <> Panic.
  Proof. intros args H. unfold by_prologue. np_auto. Qed.

  Lemma group_by_np : forall args st,
    arity_can_accept (builtin_arity B_group_by) (Datatypes.length args) = true ->
    fst (bi_group_by St call args st) <> Panic.
  Proof.
    intros args st Ha. arity_fact Ha. unfold bi_group_by.
    pose proof (by_prologue_np args ltac:(lia)) as Hp.
    destruct (by_prologue args) as [[func l]| | | |]; try congruence; try discriminate.
    pose proof (keyed_items_np func l st) as Hk.
    destruct (keyed_items St call func l st) as [keyed st1]. cbn [fst] in *. apply omap_np. exact Hk.
  Qed.
  Lemma count_by_np : forall args st,
    arity_can_accept (builtin_arity B_count_by) (Datatypes.length args) = true ->
    fst (bi_count_by St call args st) <> Panic.
  Proof.
    intros args st Ha. arity_fact Ha. unfold bi_count_by.
    pose proof (by_prologue_np args ltac:(lia)) as Hp.
    destruct (by_prologue args) as [[func l]| | | |]; try congruence; try discriminate.
    pose proof (keyed_items_np func l st) as Hk.
    destruct (keyed_items St call func l st) as [keyed st1]. cbn [fst] in *. apply omap_np. exact Hk.
  Qed.
End WithCallNP.

(* ---- one statement for the pure arms: a table (built-in, arm) and "no row panics" ---- *)
Definition list_builtin_arms : list (builtin * (list value -> outcome value)) :=
  [(B_len, bi_len); (B_head, bi_head); (B_tail, bi_tail); (B_slice, bi_slice); (B_concat, bi_concat);
   (B_unique, bi_unique); (B_sort, bi_sort); (B_reverse, bi_reverse); (B_split, bi_split);
   (B_replace, bi_replace); (B_includes, bi_includes); (B_keys, bi_keys); (B_values, bi_values);
   (B_entries, bi_entries); (B_flatten, bi_flatten); (B_zip, bi_zip); (B_chunk, bi_chunk)].

Theorem list_builtins_no_panic : forall b arm args,
  In (b, arm) list_builtin_arms ->
  arity_can_accept (builtin_arity b) (Datatypes.length args) = true ->
  arm args <> Panic.
Proof.
  intros b arm args Hin Ha. unfold list_builtin_arms in Hin. cbn [In] in Hin.
  repeat (destruct Hin as [Hin|Hin]; [inversion Hin; subst; clear Hin|]); try contradiction.
  - apply len_np; exact Ha.
  - apply head_np; exact Ha.
  - apply tail_np; exact Ha.
  - apply slice_np; exact Ha.
  - apply concat_np.
  - apply unique_np; exact Ha.
  - apply sort_np; exact Ha.
  - apply reverse_np; exact Ha.
  - apply split_np; exact Ha.
  - apply replace_np; exact Ha.
  - apply includes_np; exact Ha.
  - apply keys_np; exact Ha.
  - apply values_np; exact Ha.
  - apply entries_np; exact Ha.
  - apply flatten_np; exact Ha.
  - apply zip_np.
  - apply chunk_np; exact Ha.
Qed.
