(* proofs/PegViewItems.v — tree-level half of C09_view_items: on a tree all of whose nodes satisfy PegView.C_view, the
   item view PegToItems.conv reads EVERY comment / eol_comment pair: item_comments (conv t) = tree_comments t for every
   pair that can occur in an expression position, and forest_view_ok for the forest of a parse.
   Rule classes, all COMPUTED from the regenerated grammar (PegView.vnames):
     Fb  comment-free rules (greatest set closed under inner-pair names that avoids comment / eol_comment):
         tree_comments = [];
     Vb  rules whose pair the item view reads completely (the ten structural arms of conv, or comment-free);
     Tb  transparent rules: not a comment rule and every inner pair is in Vb (conv reads them through `inner`). *)
From Coq Require Import String Ascii List NArith ZArith Bool Arith Lia.
Require Import Blots.Num Blots.gen.Builtins Blots.Ast Blots.Outcome Blots.PrattTypes Blots.Formatter.
Require Import Blots.Peg Blots.gen.Grammar Blots.PegToItems Blots.PegComments Blots.proofs.PegComments
               Blots.proofs.PegCommentsCompose Blots.proofs.PegGeneric Blots.proofs.PegShape Blots.proofs.PegShapeItems
               Blots.proofs.PegView.
Import ListNotations.
Local Open Scope list_scope.

(* ---------------------------------------------------------------- rule classes *)
Definition gmem (r : grule) (l : list grule) : bool := existsb (grule_eqb r) l.
Definition F_step (S : list grule) : list grule :=
  filter (fun r => negb (is_comment_rule r) && forallb (fun x => gmem x S) (vnames r)) all_grules.
Fixpoint F_iter (n : nat) (S : list grule) : list grule :=
  match n with O => S | S n' => F_iter n' (F_step S) end.
Definition Fset : list grule := Eval vm_compute in F_iter 12 all_grules.
Definition Fb (r : grule) : bool := gmem r Fset.

Definition structb (r : grule) : bool :=
  match r with
  | PG_expression | PG_lambda_expression | PG_list | PG_record | PG_lambda | PG_conditional | PG_do_block
  | PG_assignment | PG_access | PG_call_list => true
  | _ => false
  end.
Definition Vb (r : grule) : bool := structb r || Fb r.
Definition Tb (r : grule) : bool := negb (is_comment_rule r) && forallb Vb (vnames r).

Lemma F_closed : forall r, Fb r = true -> is_comment_rule r = false /\ forallb Fb (vnames r) = true.
Proof. intros r. destruct r; vm_compute; intro H; try discriminate H; split; reflexivity. Qed.

Lemma strs_eqb_refl : forall a, strs_eqb a a = true.
Proof. induction a as [|x a IH]; [reflexivity|]. cbn [strs_eqb]. rewrite String.eqb_refl, IH. reflexivity. Qed.

Lemma rels_comments_app : forall a b, rels_comments (a ++ b) = rels_comments a ++ rels_comments b.
Proof.
  induction a as [|x a IH]; intro b; [reflexivity|].
  destruct x as [c|k v eol|sh eol|g eol]; cbn [app rels_comments]; rewrite IH; rewrite <- ?app_assoc; reflexivity.
Qed.
Lemma dels_comments_app : forall a b, dels_comments (a ++ b) = dels_comments a ++ dels_comments b.
Proof.
  induction a as [|x a IH]; intro b; [reflexivity|].
  destruct x; cbn [app dels_comments]; rewrite IH; rewrite <- ?app_assoc; reflexivity.
Qed.

Section View.
  Variable text : string.
  Notation tcs := (tree_comments text).
  Definition vgood (t : tree grule) : Prop := tree_ok grule text C_view t.
  Definition wgood (f : nat) (t : tree grule) : Prop := vgood t /\ tree_depth t <= f.

  Lemma tcs_node : forall r s e kids,
    tcs (Node r s e kids) = (if is_comment_rule r then [slice text s e] else []) ++ flat_map tcs kids.
  Proof.
    intros r s e kids. cbn [tree_comments].
    assert (E : forall l, (fix go (l : list (tree grule)) : list string :=
                             match l with [] => [] | k :: l' => tcs k ++ go l' end) l = flat_map tcs l).
    { induction l as [|k l IH]; [reflexivity|]. cbn [flat_map]. rewrite <- IH. reflexivity. }
    rewrite E. reflexivity.
  Qed.

  Lemma vgood_node : forall r s e kids, vgood (Node r s e kids) -> vspec r (map trule kids) /\ Forall vgood kids.
  Proof. intros r s e kids H. apply tree_ok_node in H. exact H. Qed.

  Lemma depth_kids : forall r s e kids f, tree_depth (Node r s e kids) <= S f -> Forall (fun k => tree_depth k <= f) kids.
  Proof.
    intros r s e kids f H. cbn [tree_depth] in H. apply le_S_n in H.
    induction kids as [|k kids IH]; [constructor|]. cbn [fold_right] in H. constructor; [lia|apply IH; lia].
  Qed.
  Lemma wgood_kids_S : forall f r s e kids, wgood (S f) (Node r s e kids) -> Forall (wgood f) kids.
  Proof.
    intros f r s e kids [Hg Hd]. destruct (vgood_node _ _ _ _ Hg) as [_ Hk].
    pose proof (depth_kids _ _ _ _ _ Hd) as Hdk. rewrite Forall_forall in *. intros k Hin. split; auto.
  Qed.
  Lemma wgood_mono : forall f t, wgood f t -> wgood (S f) t.
  Proof. intros f t [H1 H2]. split; [exact H1|lia]. Qed.
  Lemma wgood_tkids : forall f t, wgood f t -> Forall (wgood f) (tkids t).
  Proof.
    intros f [r s e kids] H. cbn [tkids]. apply wgood_mono in H. apply wgood_kids_S in H. exact H.
  Qed.
  Lemma wgood_names : forall f t, wgood f t -> Forall (fun x => In x (vnames (trule t))) (map trule (tkids t)).
  Proof. intros f [r s e kids] [Hg _]. destruct (vgood_node _ _ _ _ Hg) as [[Hn _] _]. exact Hn. Qed.

  Lemma names_forall : forall (P : grule -> bool) r kids,
    Forall (fun x => In x (vnames r)) (map trule kids) -> forallb P (vnames r) = true ->
    Forall (fun k => P (trule k) = true) kids.
  Proof.
    intros P r kids Hn Hp. rewrite forallb_forall in Hp. rewrite Forall_forall in *. intros k Hk.
    apply Hp. apply Hn. apply in_map. exact Hk.
  Qed.
  Lemma wgood_enum : forall f t (P : list grule -> bool), wgood f t ->
    match venum (trule t) with Some ls => forallb P ls | None => false end = true -> P (map trule (tkids t)) = true.
  Proof.
    intros f [r s e kids] P [Hg _] H. destruct (vgood_node _ _ _ _ Hg) as [[_ He] _]. cbn [trule tkids] in *.
    destruct (venum r) as [ls|]; [|discriminate H]. rewrite forallb_forall in H. apply H. exact He.
  Qed.

  Lemma flat_map_nil : forall (l : list (tree grule)), Forall (fun k => tcs k = []) l -> flat_map tcs l = [].
  Proof. induction 1 as [|k l Hk _ IH]; [reflexivity|]. cbn [flat_map]. rewrite Hk, IH. reflexivity. Qed.

  (* comment-free rules *)
  Lemma F_free : forall f t, wgood f t -> Fb (trule t) = true -> tcs t = [].
  Proof.
    induction f as [|f IH]; intros [r s e kids] Hw HF.
    { destruct Hw as [_ Hd]. cbn [tree_depth] in Hd. lia. }
    cbn [trule] in HF. destruct (F_closed r HF) as [Hc Hn]. rewrite tcs_node, Hc. cbn [app].
    apply flat_map_nil. pose proof (wgood_kids_S _ _ _ _ _ Hw) as Hk.
    pose proof (names_forall Fb r kids (wgood_names _ _ Hw) Hn) as Hf.
    rewrite Forall_forall in *. intros k Hin. apply IH; auto.
  Qed.

  (* a comment / eol_comment pair has no inner pairs *)
  Definition is_nilb (l : list grule) : bool := match l with [] => true | _ => false end.
  Lemma comment_node : forall f t, wgood f t -> is_comment_rule (trule t) = true -> tcs t = [tspan text t].
  Proof.
    intros f t Hw Hc. assert (Hk : is_nilb (map trule (tkids t)) = true).
    { apply (wgood_enum f t is_nilb Hw). destruct (trule t); try discriminate Hc; vm_compute; reflexivity. }
    destruct t as [r s e kids]. cbn [trule tkids tspan] in *. rewrite tcs_node, Hc.
    destruct kids; [reflexivity|discriminate Hk].
  Qed.

  (* conv of a non-structural rule carries no comment *)
  Lemma leaf_conv : forall f r s e kids, structb r = false -> item_comments (conv text f (Node r s e kids)) = [].
  Proof.
    intros f r s e kids H. destruct f as [|f]; [reflexivity|].
    destruct r; try discriminate H; try reflexivity.
    cbn [conv]. unfold number_item.
    match goal with |- context [match ?X with Some _ => _ | None => _ end] => destruct X end; reflexivity.
  Qed.

  Definition tail_okb (l : list grule) : bool :=
    match l with [] => true | [c] => is_comment_rule c | _ => false end.
  Lemma eol_view : forall f more, Forall (wgood f) more -> tail_okb (map trule more) = true ->
    opt_list (opt_comment text more) = flat_map tcs more.
  Proof.
    intros f more Hg H. destruct more as [|m [|m2 more]]; [reflexivity| |discriminate H].
    cbn [map tail_okb] in H. inversion Hg; subst. cbn [opt_comment opt_list flat_map].
    rewrite (comment_node f m) by assumption. reflexivity.
  Qed.

  Section Cases.
    Variable f : nat.
    Hypothesis IH : forall t, wgood f t -> Vb (trule t) = true -> item_comments (conv text f t) = tcs t.
    Notation inner := (fun k => map (conv text f) (tkids k)).

    Lemma convs_view : forall l, Forall (wgood f) l -> Forall (fun k => Vb (trule k) = true) l ->
      items_comments (map (conv text f) l) = flat_map tcs l.
    Proof.
      induction l as [|k l IHl]; intros Hg Hv; [reflexivity|].
      inversion Hg; subst. inversion Hv; subst. cbn [map items_comments flat_map]. rewrite IH, IHl by assumption.
      reflexivity.
    Qed.
    Lemma inner_view_k : forall r s e kids, Forall (wgood f) kids -> vgood (Node r s e kids) -> Tb r = true ->
      items_comments (map (conv text f) kids) = tcs (Node r s e kids).
    Proof.
      intros r s e kids Hk Hg HT. unfold Tb in HT. apply andb_prop in HT. destruct HT as [Hc Hn].
      apply negb_true_iff in Hc. rewrite tcs_node, Hc. cbn [app]. apply convs_view; [exact Hk|].
      destruct (vgood_node _ _ _ _ Hg) as [[Hnm _] _]. exact (names_forall Vb r kids Hnm Hn).
    Qed.
    Lemma inner_view : forall k, wgood f k -> Tb (trule k) = true -> items_comments (inner k) = tcs k.
    Proof.
      intros k Hw HT. pose proof (wgood_tkids f k Hw) as Hk. destruct k as [r s e kids].
      exact (inner_view_k r s e kids Hk (proj1 Hw) HT).
    Qed.
    Lemma args_view : forall l, Forall (wgood f) l -> Forall (fun k => Tb (trule k) = true) l ->
      args_comments (map inner l) = flat_map tcs l.
    Proof.
      induction l as [|k l IHl]; intros Hg Hv; [reflexivity|].
      inversion Hg; subst. inversion Hv; subst. cbn [map args_comments flat_map].
      rewrite inner_view, IHl by assumption. reflexivity.
    Qed.

    (* ---- list *)
    Definition item_okb (l : list grule) : bool :=
      match l with [x] => Tb x | [x; c] => Tb x && is_comment_rule c | _ => false end.
    Lemma item_split : forall l, item_okb l = true ->
      exists x more, l = x :: more /\ Tb x = true /\ tail_okb more = true.
    Proof.
      intros [|x [|c [|? ?]]] H; try discriminate H; cbn [item_okb] in H.
      - exists x, []. auto.
      - apply andb_prop in H. destruct H. exists x, [c]. auto.
    Qed.
    Definition list_kidb (r : grule) : bool := match r with PG_comment | PG_list_item => true | _ => false end.
    Lemma list_elem_view : forall k, wgood f k -> list_kidb (trule k) = true ->
      lels_comments [list_elem text f k] = tcs k.
    Proof.
      intros k Hw Hr. unfold list_elem. destruct (trule k) eqn:Er; try discriminate Hr.
      - cbn [lels_comments]. rewrite (comment_node f k Hw) by (rewrite Er; reflexivity). reflexivity.
      - assert (Hi : item_okb (map trule (tkids k)) = true).
        { apply (wgood_enum f k item_okb Hw). rewrite Er. vm_compute. reflexivity. }
        destruct (item_split _ Hi) as (x & more0 & E & Hx & Hm).
        pose proof (wgood_tkids f k Hw) as Hk. destruct k as [r s e kids]. cbn [tkids trule] in *. subst r.
        destruct kids as [|first more]; [discriminate E|]. cbn [map] in E. inversion E; subst x more0.
        inversion Hk; subst. cbn [lels_comments]. rewrite tcs_node. cbn [is_comment_rule app flat_map].
        rewrite inner_view by assumption. rewrite (eol_view f more) by assumption. rewrite app_nil_r. reflexivity.
    Qed.
    Lemma lels_comments_cons : forall x l, lels_comments (x :: l) = lels_comments [x] ++ lels_comments l.
    Proof. intros [c|g eol] l; cbn [lels_comments]; rewrite ?app_nil_r, <- ?app_assoc; reflexivity. Qed.
    Lemma list_view : forall l, Forall (wgood f) l -> Forall (fun k => list_kidb (trule k) = true) l ->
      lels_comments (map (list_elem text f) l) = flat_map tcs l.
    Proof.
      induction l as [|k l IHl]; intros Hg Hv; [reflexivity|].
      inversion Hg; subst. inversion Hv; subst. cbn [map flat_map]. rewrite lels_comments_cons.
      rewrite list_elem_view, IHl by assumption. reflexivity.
    Qed.

    (* ---- record *)
    Definition entryb (r : grule) : bool :=
      match r with PG_record_pair | PG_record_shorthand | PG_spread_expression => true | _ => false end.
    Definition ritem_okb (l : list grule) : bool :=
      match l with [x] => entryb x | [x; c] => entryb x && is_comment_rule c | _ => false end.
    Lemma ritem_split : forall l, ritem_okb l = true ->
      exists x more, l = x :: more /\ entryb x = true /\ tail_okb more = true.
    Proof.
      intros [|x [|c [|? ?]]] H; try discriminate H; cbn [ritem_okb] in H.
      - exists x, []. auto.
      - apply andb_prop in H. destruct H. exists x, [c]. auto.
    Qed.
    Definition keyb (r : grule) : bool :=
      match r with PG_record_key_static | PG_record_key_dynamic => true | _ => false end.
    Definition pair_okb (l : list grule) : bool :=
      match l with [k; v] => keyb k && Tb v | _ => false end.
    Definition rec_kidb (r : grule) : bool := match r with PG_comment | PG_record_item => true | _ => false end.

    Lemma rec_elems_view : forall k, wgood f k -> rec_kidb (trule k) = true ->
      rels_comments (rec_elems text f k) = tcs k.
    Proof.
      intros k Hw Hr. unfold rec_elems. destruct (trule k) eqn:Er; try discriminate Hr.
      - cbn [rels_comments]. rewrite (comment_node f k Hw) by (rewrite Er; reflexivity). reflexivity.
      - assert (Hi : ritem_okb (map trule (tkids k)) = true).
        { apply (wgood_enum f k ritem_okb Hw). rewrite Er. vm_compute. reflexivity. }
        destruct (ritem_split _ Hi) as (x & more0 & E & Hx & Hm).
        pose proof (wgood_tkids f k Hw) as Hk. destruct k as [r s e kids]. cbn [tkids trule] in *. subst r.
        destruct kids as [|entry more]; [discriminate E|]. cbn [map] in E. inversion E; subst x more0.
        inversion Hk as [|? ? Hwe Hwm]; subst. cbv zeta.
        rewrite tcs_node. cbn [is_comment_rule app flat_map]. rewrite <- (eol_view f more) by assumption.
        destruct (trule entry) eqn:Ee; try discriminate Hx.
        + (* spread_expression *)
          cbn [rels_comments]. rewrite inner_view by (try assumption; rewrite Ee; reflexivity).
          rewrite app_nil_r. reflexivity.
        + (* record_pair *)
          assert (Hp : pair_okb (map trule (tkids entry)) = true).
          { apply (wgood_enum f entry pair_okb Hwe). rewrite Ee. vm_compute. reflexivity. }
          pose proof (wgood_tkids f entry Hwe) as Hke. destruct entry as [r0 s0 e0 ekids]. cbn [tkids trule] in *.
          subst r0. destruct ekids as [|key [|value [|? ?]]]; try discriminate Hp. cbn [map pair_okb] in Hp.
          apply andb_prop in Hp. destruct Hp as [Hkey Hval].
          inversion Hke as [|? ? Hwk Hke']; subst. inversion Hke' as [|? ? Hwv _]; subst.
          rewrite tcs_node. cbn [is_comment_rule app flat_map rels_comments]. rewrite app_nil_r.
          rewrite (inner_view value Hwv Hval). rewrite <- !app_assoc. f_equal.
          destruct (trule key) eqn:Ek; try discriminate Hkey.
          * (* static *)
            rewrite (F_free f key Hwk) by (rewrite Ek; reflexivity).
            destruct (tkids key) as [|ik ?]; [reflexivity|]. destruct (trule ik); reflexivity.
          * (* dynamic *)
            apply inner_view; [exact Hwk|rewrite Ek; reflexivity].
        + (* record_shorthand *)
          cbn [rels_comments]. rewrite (F_free f entry Hwe) by (rewrite Ee; reflexivity). rewrite app_nil_r. reflexivity.
    Qed.
    Lemma rec_view : forall l, Forall (wgood f) l -> Forall (fun k => rec_kidb (trule k) = true) l ->
      rels_comments (flat_map (rec_elems text f) l) = flat_map tcs l.
    Proof.
      induction l as [|k l IHl]; intros Hg Hv; [reflexivity|].
      inversion Hg; subst. inversion Hv; subst. cbn [flat_map]. rewrite rels_comments_app.
      rewrite rec_elems_view, IHl by assumption. reflexivity.
    Qed.

    (* ---- do-block *)
    Definition commentb (r : grule) : bool := match r with PG_comment => true | _ => false end.
    Definition exprcomb (r : grule) : bool := match r with PG_comment | PG_expression => true | _ => false end.
    Definition dostmt_okb (l : list grule) : bool :=
      match l with
      | [a] => exprcomb a
      | [a; b] => exprcomb a && commentb b
      | _ => false
      end.
    Definition ret_okb (l : list grule) : bool := match l with [x] => Tb x | _ => false end.
    Definition do_kidb (r : grule) : bool :=
      match r with PG_comment | PG_do_statement | PG_return_statement => true | _ => false end.
    Lemma is_rule_comment : forall m, trule m = PG_comment -> is_rule PG_comment m = true.
    Proof. intros m H. unfold is_rule. rewrite H. reflexivity. Qed.

    Lemma do_elems_view : forall k, wgood f k -> do_kidb (trule k) = true ->
      dels_comments (do_elems text f k) = tcs k.
    Proof.
      intros k Hw Hr. unfold do_elems. destruct (trule k) eqn:Er; try discriminate Hr.
      - cbn [dels_comments]. rewrite (comment_node f k Hw) by (rewrite Er; reflexivity). reflexivity.
      - (* do_statement *)
        assert (Hi : dostmt_okb (map trule (tkids k)) = true).
        { apply (wgood_enum f k dostmt_okb Hw). rewrite Er. vm_compute. reflexivity. }
        pose proof (wgood_tkids f k Hw) as Hk. destruct k as [r s e kids]. cbn [tkids trule] in *. subst r.
        rewrite tcs_node. cbn [is_comment_rule app].
        destruct kids as [|first [|m [|? ?]]]; try discriminate Hi; cbn [map dostmt_okb] in Hi.
        + inversion Hk as [|? ? Hwf _]; subst. cbv zeta. cbn [flat_map]. rewrite app_nil_r.
          destruct (trule first) eqn:Ef; try discriminate Hi.
          * cbn [dels_comments]. rewrite (comment_node f first Hwf) by (rewrite Ef; reflexivity). reflexivity.
          * cbn [dels_comments opt_list]. rewrite inner_view by (try assumption; rewrite Ef; reflexivity).
            rewrite app_nil_r. reflexivity.
        + inversion Hk as [|? ? Hwf Hk2]; subst. inversion Hk2 as [|? ? Hwm _]; subst. cbv zeta.
          cbn [flat_map]. rewrite app_nil_r. apply andb_prop in Hi. destruct Hi as [Hi Hi2].
          destruct (trule m) eqn:Em; try discriminate Hi2.
          rewrite (is_rule_comment m Em).
          destruct (trule first) eqn:Ef; try discriminate Hi; cbn [dels_comments opt_list];
            rewrite (comment_node f m Hwm) by (rewrite Em; reflexivity).
          * rewrite (comment_node f first Hwf) by (rewrite Ef; reflexivity). reflexivity.
          * rewrite inner_view by (try assumption; rewrite Ef; reflexivity). rewrite app_nil_r. reflexivity.
      - (* return_statement *)
        assert (Hi : ret_okb (map trule (tkids k)) = true).
        { apply (wgood_enum f k ret_okb Hw). rewrite Er. vm_compute. reflexivity. }
        pose proof (wgood_tkids f k Hw) as Hk. destruct k as [r s e kids]. cbn [tkids trule] in *. subst r.
        destruct kids as [|ex [|? ?]]; try discriminate Hi. cbn [map ret_okb] in Hi.
        inversion Hk; subst. rewrite tcs_node. cbn [is_comment_rule app flat_map dels_comments].
        rewrite inner_view by assumption. reflexivity.
    Qed.
    Lemma do_view : forall l, Forall (wgood f) l -> Forall (fun k => do_kidb (trule k) = true) l ->
      dels_comments (flat_map (do_elems text f) l) = flat_map tcs l.
    Proof.
      induction l as [|k l IHl]; intros Hg Hv; [reflexivity|].
      inversion Hg; subst. inversion Hv; subst. cbn [flat_map]. rewrite dels_comments_app.
      rewrite do_elems_view, IHl by assumption. reflexivity.
    Qed.
  End Cases.

  Definition lambda_okb (l : list grule) : bool :=
    match l with [a; b] => Fb a && Tb b | _ => false end.
  Definition cond_okb (l : list grule) : bool :=
    match l with [a; b; c] => Tb a && Tb b && Tb c | _ => false end.

  (* the item view reads every comment pair of a pair in expression position *)
  Theorem conv_view : forall f t, wgood f t -> Vb (trule t) = true -> item_comments (conv text f t) = tcs t.
  Proof.
    induction f as [|f IH]; intros t Hw HV.
    { destruct t as [r s e kids]. destruct Hw as [_ Hd]. cbn [tree_depth] in Hd. lia. }
    destruct (structb (trule t)) eqn:Est.
    2:{ unfold Vb in HV. rewrite Est in HV. cbn [orb] in HV. rewrite (F_free _ t Hw HV).
        destruct t as [r s e kids]. apply leaf_conv. exact Est. }
    pose proof (wgood_names _ _ Hw) as Hn.
    destruct t as [r s e kids]. cbn [trule tkids] in *.
    pose proof (wgood_kids_S _ _ _ _ _ Hw) as Hk. pose proof (proj1 Hw) as Hg.
    destruct r; try discriminate Est; clear Est HV.
    - (* lambda *)
      assert (Hi : lambda_okb (map trule kids) = true).
      { apply (wgood_enum _ _ lambda_okb Hw). vm_compute. reflexivity. }
      destruct kids as [|al [|body [|? ?]]]; try discriminate Hi. cbn [map lambda_okb] in Hi.
      apply andb_prop in Hi. destruct Hi as [Ha Hb].
      inversion Hk as [|? ? Hwa Hk2]; subst. inversion Hk2 as [|? ? Hwb _]; subst.
      cbn [conv]. rewrite ic_ILambda, tcs_node. cbn [is_comment_rule app flat_map].
      rewrite (F_free f al Hwa Ha), (inner_view f IH body Hwb Hb), app_nil_r. reflexivity.
    - (* lambda_expression *)
      cbn [conv]. rewrite ic_IExpr. apply (inner_view_k f IH); [exact Hk|exact Hg|vm_compute; reflexivity].
    - (* access *)
      cbn [conv]. rewrite ic_IAccess. apply (inner_view_k f IH); [exact Hk|exact Hg|vm_compute; reflexivity].
    - (* call_list *)
      cbn [conv]. rewrite ic_ICall, tcs_node. cbn [is_comment_rule app].
      apply (args_view f IH); [exact Hk|]. apply (names_forall Tb _ _ Hn). vm_compute. reflexivity.
    - (* list *)
      cbn [conv]. rewrite ic_IList, tcs_node. cbn [is_comment_rule app].
      change (lels_comments (map _ kids)) with (lels_comments (map (list_elem text f) kids)).
      apply (list_view f IH); [exact Hk|]. apply (names_forall list_kidb _ _ Hn). vm_compute. reflexivity.
    - (* record *)
      cbn [conv]. rewrite ic_IRecord, tcs_node. cbn [is_comment_rule app].
      change (rels_comments (flat_map _ kids)) with (rels_comments (flat_map (rec_elems text f) kids)).
      apply (rec_view f IH); [exact Hk|]. apply (names_forall rec_kidb _ _ Hn). vm_compute. reflexivity.
    - (* conditional *)
      assert (Hi : cond_okb (map trule kids) = true).
      { apply (wgood_enum _ _ cond_okb Hw). vm_compute. reflexivity. }
      destruct kids as [|c [|t1 [|e1 [|? ?]]]]; try discriminate Hi. cbn [map cond_okb] in Hi.
      apply andb_prop in Hi. destruct Hi as [Hi H3]. apply andb_prop in Hi. destruct Hi as [H1 H2].
      inversion Hk as [|? ? W1 Hk2]; subst. inversion Hk2 as [|? ? W2 Hk3]; subst. inversion Hk3 as [|? ? W3 _]; subst.
      cbn [conv]. rewrite ic_ICond, tcs_node. cbn [is_comment_rule app flat_map].
      rewrite (inner_view f IH c W1 H1), (inner_view f IH t1 W2 H2), (inner_view f IH e1 W3 H3), app_nil_r. reflexivity.
    - (* expression *)
      cbn [conv]. rewrite ic_IExpr. apply (inner_view_k f IH); [exact Hk|exact Hg|vm_compute; reflexivity].
    - (* assignment *)
      assert (Hi : lambda_okb (map trule kids) = true).
      { apply (wgood_enum _ _ lambda_okb Hw). vm_compute. reflexivity. }
      destruct kids as [|x [|v [|? ?]]]; try discriminate Hi. cbn [map lambda_okb] in Hi.
      apply andb_prop in Hi. destruct Hi as [Ha Hb].
      inversion Hk as [|? ? Hwa Hk2]; subst. inversion Hk2 as [|? ? Hwb _]; subst.
      cbn [conv]. rewrite ic_IAssign, tcs_node. cbn [is_comment_rule app flat_map].
      rewrite (F_free f x Hwa Ha), (inner_view f IH v Hwb Hb), app_nil_r. reflexivity.
    - (* do_block *)
      cbn [conv]. rewrite ic_IDo, tcs_node. cbn [is_comment_rule app].
      change (dels_comments (flat_map _ kids)) with (dels_comments (flat_map (do_elems text f) kids)).
      apply (do_view f IH); [exact Hk|]. apply (names_forall do_kidb _ _ Hn). vm_compute. reflexivity.
  Qed.

  (* ---------------------------------------------------------------- statements and the forest *)
  Lemma wgood_depth : forall t, vgood t -> wgood (tree_depth t) t.
  Proof. intros t H. split; [exact H|lia]. Qed.

  Definition stmt_okb (l : list grule) : bool :=
    match l with
    | [x] => commentb x || Tb x
    | [x; c] => (commentb x || Tb x) && commentb c
    | _ => false
    end.

  Lemma stmt_view : forall t, vgood t -> trule t = PG_statement -> stmt_view_comments text t = tcs t.
  Proof.
    intros t Hg Er. pose proof (wgood_depth t Hg) as Hw.
    assert (Hi : stmt_okb (map trule (tkids t)) = true).
    { apply (wgood_enum _ t stmt_okb Hw). rewrite Er. vm_compute. reflexivity. }
    pose proof (wgood_tkids _ t Hw) as Hk. unfold stmt_view_comments, stmt_eol.
    destruct t as [r s e kids]. cbn [tkids trule] in *. subst r. rewrite tcs_node. cbn [is_comment_rule app].
    set (d := tree_depth (Node PG_statement s e kids)) in *.
    assert (Hfirst : forall first, wgood d first -> commentb (trule first) || Tb (trule first) = true ->
              match trule first with
              | PG_comment => [tspan text first]
              | _ => items_comments (conv_kids text first)
              end = tcs first).
    { intros first Hwf Hx. unfold conv_kids.
      assert (Hin : Tb (trule first) = true ->
                    items_comments (map (conv text (S (tree_depth first))) (tkids first)) = tcs first).
      { intro HT. apply (inner_view (S (tree_depth first)) (conv_view (S (tree_depth first)))); [|exact HT].
        split; [exact (proj1 Hwf)|lia]. }
      destruct (trule first) eqn:Ef; cbn [commentb orb] in Hx; try (apply Hin; exact Hx).
      symmetry. apply (comment_node d first Hwf). rewrite Ef. reflexivity. }
    destruct kids as [|first [|m [|? ?]]]; try discriminate Hi; cbn [map stmt_okb] in Hi.
    - inversion Hk as [|? ? Hwf _]; subst. cbn [flat_map opt_list]. rewrite (Hfirst first Hwf Hi). reflexivity.
    - inversion Hk as [|? ? Hwf Hk2]; subst. inversion Hk2 as [|? ? Hwm _]; subst.
      apply andb_prop in Hi. destruct Hi as [Hi Hi2].
      destruct (trule m) eqn:Em; try discriminate Hi2.
      rewrite (is_rule_comment m Em). cbn [flat_map opt_list]. rewrite (Hfirst first Hwf Hi).
      rewrite (comment_node d m Hwm) by (rewrite Em; reflexivity). rewrite app_nil_r. reflexivity.
  Qed.

  Lemma forest_view : forall l, Forall vgood l ->
    Forall (fun t => trule t = PG_statement \/ trule t = PG_EOI) l ->
    forest_view_comments text l = forest_comments text l.
  Proof.
    intros l Hg Hn. unfold forest_view_comments, forest_comments.
    induction l as [|t l IH]; [reflexivity|]. inversion Hg; subst. inversion Hn as [|? ? Ht Hn']; subst.
    cbn [flat_map]. rewrite IH by assumption. f_equal. unfold is_rule. destruct Ht as [Ht|Ht]; rewrite Ht.
    - cbn. apply stmt_view; assumption.
    - cbn. symmetry. apply (F_free _ t (wgood_depth t ltac:(assumption))). rewrite Ht. reflexivity.
  Qed.
End View.

(* forest_view_ok — the last tested hypothesis of the parser half of C09 — holds of EVERY result of Peg.parse *)
Theorem parse_forest_view_ok : forall fuel text s',
  Peg.parse blots_grammar fuel PG_input text = Peg.Ok s' -> forest_view_ok text (rev (out s')) = true.
Proof.
  intros fuel text s' H. unfold forest_view_ok.
  rewrite (forest_view text (rev (out s')) (view_nodes fuel text s' H) (view_top_names fuel text s' H)).
  apply strs_eqb_refl.
Qed.

Theorem parse_program_c_view_ok : forall text forest p,
  parse_program_c text = PCOk forest p -> forest_view_ok text forest = true.
Proof.
  intros text forest p. unfold parse_program_c.
  pose proof (parse_forest_view_ok (peg_fuel text) text) as Hs. revert Hs.
  generalize (Peg.parse blots_grammar (peg_fuel text) PG_input text). intros r Hs H.
  destruct r as [s|s| |]; try discriminate H. specialize (Hs s eq_refl). revert H Hs.
  generalize (rev (out s)). intros fr H Hs.
  destruct (program_of_forest text fr) as [[q|]| | | |]; try discriminate H.
  injection H as <- <-. exact Hs.
Qed.
