(* LfInst.v — C05: the transcribed operators and built-ins of EvalInst.v satisfy the hypothesis of
   EmitSound.emit_equiv_first_order (impl_lf_respecting): on function-free values they treat their
   callback parametrically and return function-free results.  Obtained by instantiating GenOps.v with
   the full relation on stores and the predicate "contains no function value". *)
From Coq Require Import String Ascii List ZArith Bool Lia.
Require Import Blots.Num Blots.gen.Builtins Blots.Ast Blots.Value Blots.Outcome Blots.Binop
               Blots.Env Blots.Eval Blots.BuiltinsHof Blots.Program Blots.EvalInst Blots.Emit
               Blots.proofs.ValueInd Blots.proofs.GenOps Blots.proofs.EmitSound.
Import ListNotations.
Open Scope list_scope.

Definition anyst (_ _ : store) : Prop := True.
Definition lfp (_ : store) (v : value) : Prop := lf v = true.

Lemma anyst_refl : forall s, anyst s s.
Proof. intros; exact I. Qed.
Lemma anyst_trans : forall a b c, anyst a b -> anyst b c -> anyst a c.
Proof. intros; exact I. Qed.
Lemma lfp_mono : forall v st st', anyst st st' -> lfp st v -> lfp st' v.
Proof. intros v st st' _ H; exact H. Qed.
Lemma lfp_list_iff : forall st l, closed_list lfp st l <-> lfs l = true.
Proof.
  intros st l. unfold closed_list, lfp, lfs. rewrite forallb_forall, Forall_forall. reflexivity.
Qed.
Lemma lfp_VList : forall st l, lfp st (VList l) <-> closed_list lfp st l.
Proof. intros st l. rewrite lfp_list_iff. unfold lfp. rewrite lf_list. reflexivity. Qed.
Lemma lfp_atomic : forall st v, atomic v -> lfp st v.
Proof. intros st v H. destruct v; try contradiction; reflexivity. Qed.

Lemma equiv_agree : forall cb cb' s0, cb_lf_equiv cb cb' -> cb_agree anyst lfp s0 cb cb'.
Proof.
  intros cb cb' s0 H this f args st _ Hthis Hf Hargs. apply H; [exact Hthis|exact Hf|].
  apply (lfp_list_iff st). exact Hargs.
Qed.
Lemma closed_closed : forall cb s0, cb_lf_closed cb -> cb_closed anyst lfp s0 cb.
Proof.
  intros cb s0 H this f args st r st' _ Hthis Hf Hargs E. split; [exact I|].
  intros v ->. eapply H; [exact Hthis|exact Hf| |exact E]. apply (lfp_list_iff st). exact Hargs.
Qed.

Theorem impl_lf_respecting_inst : impl_lf_respecting binop_impl builtin_impl.
Proof.
  assert (HB : forall cb cb' op l r st, cb_lf_equiv cb cb' -> cb_lf_closed cb -> lf l = true -> lf r = true ->
            binop_impl cb op l r st = binop_impl cb' op l r st /\
            (forall v st', binop_impl cb op l r st = (Ok v, st') -> lf v = true)).
  { intros cb cb' op l r st He Hc Hl Hr. unfold binop_impl.
    destruct op;
      match goal with
      | |- eval_binop _ _ _ _ ?o _ _ _ = _ /\ _ =>
          destruct (eval_binop_agree anyst anyst_refl anyst_trans lfp lfp_mono lfp_VList lfp_atomic
                      cb cb' st (equiv_agree _ _ _ He) (closed_closed _ _ Hc)
                      fn_accepts2_of_value powf_stub o l r st I Hl Hr) as [Heq Hpost];
          split; [exact Heq|intros v st' E; destruct (Hpost _ _ E) as [_ Hv]; exact (Hv v eq_refl)]
      | |- _ => split; [reflexivity|intros v st' E; inversion E]
      end. }
  assert (HU : forall cb cb' b args st, cb_lf_equiv cb cb' -> cb_lf_closed cb -> lfs args = true ->
            builtin_impl cb b args st = builtin_impl cb' b args st /\
            (forall v st', builtin_impl cb b args st = (Ok v, st') -> lf v = true)).
  { intros cb cb' b args st He Hc Ha.
    destruct (builtin_impl_agree anyst anyst_refl anyst_trans lfp lfp_mono lfp_VList lfp_atomic
                cb cb' st (equiv_agree _ _ _ He) (closed_closed _ _ Hc) b args st I
                (proj2 (lfp_list_iff st args) Ha)) as [Heq [_ Hpost]].
    split; [exact Heq|]. intros v st' E. rewrite E in Hpost. cbn [fst snd] in Hpost. exact (Hpost v eq_refl). }
  repeat split.
  - intros cb cb' op l r st He Hc Hl Hr. exact (proj1 (HB cb cb' op l r st He Hc Hl Hr)).
  - intros cb op l r st v st' Hc Hl Hr E.
    exact (proj2 (HB cb cb op l r st (fun _ _ _ _ _ _ _ => eq_refl) Hc Hl Hr) v st' E).
  - intros cb cb' b args st He Hc Ha. exact (proj1 (HU cb cb' b args st He Hc Ha)).
  - intros cb b args st v st' Hc Ha E.
    exact (proj2 (HU cb cb b args st (fun _ _ _ _ _ _ _ => eq_refl) Hc Ha) v st' E).
Qed.
