(* JsonTextEcho.v — property C06, closing "Partial (ii)": the input direction at TEXT level.
     * the text round trip of JsonTextDoc.v re-proved for library hypotheses that are only required
       on a class [okf] of doubles (Section DocG): with okf = is_finite these are the two
       hypotheses of C06_json_text_roundtrip; with okf = "finite and a valid binary64 datum" they
       are what an honest printer/parser pair can satisfy (proofs/JsonInstance.v);
     * parse-print-parse: whatever document the parser returns for ANY input text is printed to a
       text that the parser reads as the same document (no hypothesis on the document: numbers in
       range and depth <= 127 are established by the parser, proofs/JsonNumsOk.v);
     * the echo program on text: input text -> serde_json::from_str -> parse_json_inputs ->
       `output <name> = inputs.<key>` -> write_outputs -> serde_json::to_string, and the text
       written parses to {<name>: jcanon x}, a document json_equiv to the member x supplied.
   Axiom-free except through JsonNumsOk.jnum_wf_ok (u64/i64 `as f64` is finite: Flocq). *)
From Coq Require Import String Ascii List ZArith Bool Lia.
Require Import ZifyBool ZifyNat.
Require Import Blots.Num Blots.gen.Builtins Blots.Ast Blots.Value Blots.Outcome.
Require Import Blots.Json Blots.JsonText Blots.JsonWf.
Require Import Blots.proofs.ValueInd Blots.proofs.JsonMaps Blots.proofs.JsonRT Blots.proofs.JsonEcho.
Require Import Blots.proofs.JsonTextRT Blots.proofs.JsonTextDoc Blots.proofs.JsonTextCli.
Require Import Blots.proofs.NumTextFloat Blots.proofs.JsonNumsOk.
Import ListNotations.
Open Scope Z_scope.

(* ------------------------------------------------------------------ integer tokens (no library part) *)
Lemma int_tok_wf neg z : 0 <= z < 10 ^ 40 -> tok_wf (NumTok neg (digits_of z) None None) = true.
Proof.
  intros Hz. destruct (digits_of_val z Hz) as [_ Hok].
  pose proof (dec_list_head 40 z [] ltac:(lia) ltac:(lia) ltac:(lia)) as Hh. fold (digits_of z) in Hh.
  unfold tok_wf. cbn [t_int t_frac t_exp]. rewrite Hok. clear Hok.
  destruct (digits_of z) as [|d0 [|d1 more]]; [contradiction|reflexivity|].
  destruct (d0 =? 0) eqn:E; [|reflexivity]. apply Z.eqb_eq in E. destruct (Hh E) as [_ Hm]. discriminate.
Qed.

(* the class of numbers a text round trip is claimed for, given the class of doubles *)
Definition okn_of (okf : num -> bool) (n : jnumber) : bool :=
  match n with
  | JPosInt z => (0 <=? z) && (z <=? U64_MAX)
  | JNegInt z => (I64_MIN <=? z) && (z <? 0)
  | JFloat x => okf x
  end.
Lemma okn_of_finite : forall n, okn_of is_finite n = jnum_wf n.
Proof. now intros [ | | ]. Qed.

Section DocG.
  Variable fmt_pieces : num -> numtok.
  Variable float_of_tok : numtok -> option num.
  Variable okf : num -> bool.
  (* the two library hypotheses, asked only for doubles of the class okf *)
  Hypothesis H_print_wf : forall x, okf x = true ->
    tok_wf (fmt_pieces x) = true /\ tok_is_float (fmt_pieces x) = true.
  Hypothesis H_roundtrip : forall x, okf x = true -> float_of_tok (fmt_pieces x) = Some x.
  Hypothesis H_okf_finite : forall x, okf x = true -> is_finite x = true.
  Notation jprint := (JsonText.jprint fmt_pieces).
  Notation parse_value := (JsonText.parse_value float_of_tok).
  Notation jitems := (JsonTextDoc.jitems fmt_pieces).
  Notation jmembers := (JsonTextDoc.jmembers fmt_pieces).
  Notation okn := (okn_of okf).

  Lemma okn_text_ok j : json_all okn j = true -> json_text_ok j = true.
  Proof.
    intros H. rewrite json_text_ok_wf. unfold json_wf. revert H. apply json_all_impl.
    intros [z|z|x]; cbn; auto.
  Qed.

  Lemma tok_of_jnumber_wf_g n : okn n = true -> tok_wf (tok_of_jnumber fmt_pieces n) = true.
  Proof.
    destruct n as [z|z|x]; cbn [okn_of tok_of_jnumber]; intros Hn.
    - apply int_tok_wf. unfold U64_MAX in Hn. lia.
    - apply int_tok_wf. unfold I64_MIN in Hn. lia.
    - now destruct (H_print_wf x Hn).
  Qed.

  Theorem parse_print_number_g n rest :
    okn n = true -> no_cont rest = true ->
    parse_number float_of_tok (render_tok (tok_of_jnumber fmt_pieces n) ++ rest) = Some (n, rest).
  Proof.
    intros Hn Hrest. unfold parse_number.
    rewrite (scan_render _ rest (tok_of_jnumber_wf_g n Hn) Hrest).
    destruct n as [z|z|x]; cbn [okn_of tok_of_jnumber] in *.
    - assert (Hz : 0 <= z < 10 ^ 40) by (unfold U64_MAX in Hn; lia).
      destruct (digits_of_val z Hz) as [Hv _].
      unfold classify_number. cbn [t_frac t_exp t_int t_neg negb]. rewrite Hv.
      replace (z <=? U64_MAX') with true by (unfold U64_MAX, U64_MAX' in *; lia). reflexivity.
    - assert (Hz : 0 <= - z < 10 ^ 40) by (unfold I64_MIN in Hn; lia).
      destruct (digits_of_val (- z) Hz) as [Hv _].
      unfold classify_number. cbn [t_frac t_exp t_int t_neg negb]. rewrite Hv.
      replace ((- z =? 0) || (2 ^ 63 <? - z)) with false by (unfold I64_MIN in Hn; lia).
      now rewrite Z.opp_involutive.
    - destruct (H_print_wf x Hn) as [_ Hfl]. unfold classify_number. unfold tok_is_float in Hfl.
      destruct (t_frac (fmt_pieces x)), (t_exp (fmt_pieces x)); try discriminate;
        now rewrite (H_roundtrip x Hn).
  Qed.

  Lemma jprint_head_g j rest : json_all okn j = true ->
    exists c r, (jprint j ++ rest)%string = String c r /\ value_start c = true.
  Proof.
    destruct j as [|[]|n|s|l|m]; intros H; try (eexists _, _; split; [reflexivity|reflexivity]).
    cbn [JsonText.jprint]. apply render_tok_head. now apply tok_of_jnumber_wf_g.
  Qed.

  Theorem parse_value_print_g j : forall fuel rd rest,
    json_all okn j = true -> (jsize j <= fuel)%nat -> (jdepth j < rd)%nat -> no_cont rest = true ->
    parse_value fuel rd (jprint j ++ rest)%string = Some (j, rest).
  Proof.
    induction j as [| |n|s|l IH|m IH] using Blots.proofs.JsonRT.json_ind'; intros fuel rd rest Hok Hsz Hd Hrest;
      (destruct fuel as [|f]; [cbn in Hsz; lia|]).
    - vm_compute. reflexivity.
    - destruct b; vm_compute; reflexivity.
    - (* number *)
      cbn [JsonText.jprint]. cbn [json_all] in Hok.
      destruct (render_tok_head (tok_of_jnumber fmt_pieces n) rest (tok_of_jnumber_wf_g n Hok)) as (c & r & E & Hc).
      pose proof (parse_print_number_g n rest Hok Hrest) as Hp.
      rewrite E in *. cbn [JsonText.parse_value]. destruct (value_start_facts c Hc) as (Hws & _).
      rewrite (skip_ws_start c r Hws).
      assert (Hnum : (byte c =? 45) || JsonText.is_digit c = true).
      { unfold JsonText.parse_number, scan_number in Hp. cbn [ch] in Hp.
        destruct (byte c =? 45) eqn:E45; [reflexivity|]. cbn [orb].
        cbn [JsonText.span_digits] in Hp. destruct (JsonText.is_digit c); [reflexivity|]. discriminate. }
      assert (Hn4 : byte c <> 110 /\ byte c <> 116 /\ byte c <> 102 /\ byte c <> 34 /\ byte c <> 91 /\ byte c <> 123).
      { unfold JsonText.is_digit in Hnum. lia. }
      destruct Hn4 as (N1 & N2 & N3 & N4 & N5 & N6).
      apply Z.eqb_neq in N1, N2, N3, N4, N5, N6. rewrite N1, N2, N3, N4, N5, N6, Hnum, Hp. reflexivity.
    - (* string *)
      unfold JsonText.jprint, print_str. cbn [append JsonText.parse_value skip_ws].
      change (is_ws QUOTE) with false. cbv iota.
      change (byte QUOTE =? 110) with false. change (byte QUOTE =? 116) with false.
      change (byte QUOTE =? 102) with false. change (byte QUOTE =? 34) with true. cbv iota.
      rewrite append_assoc. cbn [str1 append]. rewrite parse_str_escape. reflexivity.
    - (* array *)
      rewrite jprint_arr. cbn [json_all jsize jdepth] in *.
      destruct rd as [|[|rd']]; try lia.
      rewrite !append_assoc. change ("[" ++ jitems l ++ "]" ++ rest)%string with (String "[" (jitems l ++ String "]" rest))%string.
      rewrite parse_value_arr. cbv zeta.
      destruct l as [|x l'].
      + reflexivity.
      + assert (Hhead : exists c r, (jitems (x :: l') ++ String "]" rest)%string = String c r /\ value_start c = true).
        { cbn [forallb] in Hok. apply andb_prop in Hok as [Hx _].
          destruct l' as [|y l''].
          - cbn [JsonTextDoc.jitems]. now apply jprint_head_g.
          - change (jitems (x :: y :: l'')) with (jprint x ++ "," ++ jitems (y :: l''))%string.
            rewrite append_assoc. now apply jprint_head_g. }
        destruct Hhead as (c & r & E & Hc). destruct (value_start_facts c Hc) as (Hws & H93 & _).
        rewrite E, (skip_ws_start c r Hws). cbn [ch]. apply Z.eqb_neq in H93. rewrite H93. rewrite <- E.
        apply elems_items; [discriminate|pose proof (fold_size_ge_length (x :: l')); cbn in *; lia|].
        rewrite Forall_forall in *. rewrite forallb_forall in Hok. intros y Hy. split; [apply okn_text_ok; now apply Hok|].
        intros rest' Hr'. apply (IH y Hy); [now apply Hok| | |exact Hr'].
        * pose proof (size_in _ _ Hy). lia.
        * pose proof (depth_in _ _ Hy). lia.
    - (* object *)
      rewrite jprint_obj. cbn [json_all jsize jdepth] in *.
      destruct rd as [|[|rd']]; try lia.
      rewrite !append_assoc. change ("{" ++ jmembers m ++ "}" ++ rest)%string with (String "{" (jmembers m ++ String "}" rest))%string.
      rewrite parse_value_obj. cbv zeta.
      destruct m as [|[k x] m'].
      + reflexivity.
      + assert (Hhead : exists r, (jmembers ((k, x) :: m') ++ String "}" rest)%string = String QUOTE r).
        { destruct m' as [|[k2 y] m'']; eexists; unfold print_str; cbn; reflexivity. }
        destruct Hhead as (r & E).
        rewrite E. cbn [skip_ws]. change (is_ws QUOTE) with false. cbv iota. cbn [ch].
        change (byte QUOTE =? 125) with false. cbv iota. rewrite <- E.
        apply members_items; [discriminate|pose proof (fold_size_ge_length_m ((k, x) :: m')); cbn in *; lia|].
        rewrite Forall_forall in *. rewrite forallb_forall in Hok. intros y Hy. split; [apply okn_text_ok; now apply Hok|].
        intros rest' Hr'. apply (IH y Hy); [now apply Hok| | |exact Hr'].
        * pose proof (size_in_m _ _ Hy). lia.
        * pose proof (depth_in_m _ _ Hy). lia.
  Qed.

  Lemma jprint_length_g j : json_all okn j = true -> (jsize j <= String.length (jprint j))%nat.
  Proof.
    induction j as [| |n|s|l IH|m IH] using Blots.proofs.JsonRT.json_ind'; intros Hok.
    - cbn. lia.
    - destruct b; cbn; lia.
    - destruct (jprint_head_g (JNum n) "" Hok) as (c & r & E & _). rewrite append_nil_r in E. rewrite E. cbn. lia.
    - cbn. lia.
    - rewrite jprint_arr, !length_append. cbn [jsize json_all String.length] in *.
      assert (H : (fold_right (fun x acc => jsize x + acc) 0 l <= String.length (jitems l))%nat).
      { induction l as [|x l' IHl]; [cbn; lia|].
        inversion IH as [|? ? Hx IH']; subst. cbn [forallb] in Hok. apply andb_prop in Hok as [Hox Hol].
        specialize (IHl IH' Hol). specialize (Hx Hox). destruct l' as [|y l''].
        - cbn in *. lia.
        - change (jitems (x :: y :: l'')) with (jprint x ++ "," ++ jitems (y :: l''))%string.
          rewrite !length_append. cbn [fold_right String.length] in *. lia. }
      lia.
    - rewrite jprint_obj, !length_append. cbn [jsize json_all String.length] in *.
      assert (H : (fold_right (fun kv acc => jsize (snd kv) + acc) 0 m <= String.length (jmembers m))%nat).
      { induction m as [|[k x] m' IHm]; [cbn; lia|].
        inversion IH as [|? ? Hx IH']; subst. cbn [forallb snd] in *. apply andb_prop in Hok as [Hox Hom].
        specialize (IHm IH' Hom). specialize (Hx Hox). destruct m' as [|[k2 y] m''].
        - change (jmembers [(k, x)]) with (print_str k ++ ":" ++ jprint x)%string.
          rewrite !length_append. cbn [fold_right snd String.length] in *. lia.
        - change (jmembers ((k, x) :: (k2, y) :: m'')) with (print_str k ++ ":" ++ jprint x ++ "," ++ jmembers ((k2, y) :: m''))%string.
          rewrite !length_append. cbn [fold_right snd String.length] in *. lia. }
      lia.
  Qed.

  (* serde_json::from_str (serde_json::to_string j) = j for every document whose numbers are of
     the class and that is nested at most 127 deep *)
  Theorem json_text_roundtrip_g j :
    json_all okn j = true -> (jdepth j <= 127)%nat ->
    json_from_str float_of_tok (jprint j) = Some j.
  Proof.
    intros Hok Hd. unfold json_from_str.
    rewrite <- (append_nil_r (jprint j)) at 2.
    rewrite parse_value_print_g; [reflexivity|exact Hok| |lia|reflexivity].
    pose proof (jprint_length_g j Hok). lia.
  Qed.
End DocG.

(* ------------------------------------------------------------------ depth of the canonical form *)
Lemma jdepth_jcanon_le : forall d, (jdepth (jcanon d) <= jdepth d)%nat.
Proof.
  induction d as [| |n|s|l IH|m IH] using json_ind'; try (cbn; lia).
  - cbn [jcanon jdepth]. apply le_n_S. apply depth_fold_le. apply Forall_forall. intros y Hy.
    apply in_map_iff in Hy as (x & <- & Hx). rewrite Forall_forall in IH.
    pose proof (IH x Hx). pose proof (depth_in l x Hx). lia.
  - rewrite jcanon_obj. cbn [jdepth]. apply le_n_S. apply depth_fold_le_m. apply Forall_forall.
    intros [k y] Hy. apply bmap_collect_in in Hy. apply in_mapv in Hy as (x & Hx & ->). cbn [snd].
    rewrite Forall_forall in IH. pose proof (IH (k, x) Hx). pose proof (depth_in_m m (k, x) Hx). cbn [snd] in *. lia.
Qed.
Lemma jlookup_In m k x : jlookup m k = Some x -> In (k, x) m.
Proof. rewrite jlookup_get_last. apply get_last_In. Qed.

Lemma jdepth_echo name x : (jdepth x <= 126)%nat -> (jdepth (JObj [(name, jcanon x)]) <= 127)%nat.
Proof. intros H. cbn [jdepth fold_right snd]. pose proof (jdepth_jcanon_le x). lia. Qed.
Lemma jdepth_member m key x : In (key, x) m -> (jdepth (JObj m) <= 127)%nat -> (jdepth x <= 126)%nat.
Proof. intros Hin Hd. cbn [jdepth] in Hd. pose proof (depth_in_m m (key, x) Hin). cbn [snd] in *. lia. Qed.
Lemma okn_of_pos okf z : 0 <= z <= U64_MAX -> okn_of okf (JPosInt z) = true.
Proof. intros Hz. cbn [okn_of]. unfold U64_MAX in *. lia. Qed.
Lemma okn_of_neg okf z : I64_MIN <= z < 0 -> okn_of okf (JNegInt z) = true.
Proof. intros Hz. cbn [okn_of]. unfold I64_MIN in *. lia. Qed.

(* the canonical form has a reserved object exactly where the built Value has one: jcanon only
   rewrites numbers (and resolves duplicate keys the way sj_build does) *)
Lemma jstr_of_jcanon y : jstr_of (jcanon y) = jstr_of y.
Proof. now destruct y. Qed.
Lemma jstr_of_sj_build y : jstr_of (sj_build y) = jstr_of y.
Proof. now destruct y. Qed.
Lemma reserved_obj_collect pfs (g : json -> json) m :
  (forall y, jstr_of (g y) = jstr_of y) ->
  reserved_obj pfs jstr_of (bmap_collect (mapv g m)) = reserved_obj pfs jstr_of (bmap_collect m).
Proof.
  intros Hg. unfold reserved_obj. rewrite !rec_get_bmap_collect, get_last_mapv.
  destruct (get_last m FN_KEY) as [y|]; cbn [option_map]; [now rewrite Hg|reflexivity].
Qed.
Lemma forallb_map' {A B} (f : A -> B) (p : B -> bool) l : forallb p (map f l) = forallb (fun x => p (f x)) l.
Proof. induction l as [|a l IH]; cbn; [reflexivity|now rewrite IH]. Qed.
Lemma json_no_reserved_jcanon pfs : forall d,
  json_no_reserved pfs (jcanon d) = json_no_reserved pfs (sj_build d).
Proof.
  induction d as [| |n|s|l IH|m IH] using json_ind'; try reflexivity.
  - cbn [jcanon sj_build json_no_reserved]. rewrite !forallb_map'. apply forallb_ext_in'.
    rewrite Forall_forall in IH. exact IH.
  - rewrite jcanon_obj, sj_build_obj. cbn [json_no_reserved].
    rewrite (reserved_obj_collect pfs jcanon m jstr_of_jcanon), (reserved_obj_collect pfs sj_build m jstr_of_sj_build).
    f_equal. rewrite !bmap_collect_mapv. unfold mapv. rewrite !forallb_map'. apply forallb_ext_in'.
    intros [k x] Hx. cbn [snd]. apply bmap_collect_in in Hx. rewrite Forall_forall in IH. apply (IH (k, x) Hx).
Qed.
Lemma json_no_reserved_build_jcanon pfs d :
  json_no_reserved pfs (sj_build (jcanon d)) = json_no_reserved pfs (sj_build d).
Proof. now rewrite <- (json_no_reserved_jcanon pfs (jcanon d)), jcanon_idem, json_no_reserved_jcanon. Qed.
Lemma jlookup_single name (v : json) : jlookup [(name, v)] name = Some v.
Proof. cbn. now rewrite String.eqb_refl. Qed.

(* what to_json writes for a data value: already canonical, and without reserved object when the
   value has none *)
Lemma jstr_of_to_json_sv_of y : jstr_of (to_json (sv_of y)) = vstr_of y.
Proof. destruct y; reflexivity. Qed.
Lemma jcanon_to_json_data v : json_data v = true -> jcanon (to_json (sv_of v)) = to_json (sv_of v).
Proof.
  induction v as [x|x| |s|l IH|r IH|id ar bd sc _|bi|v _] using value_ind'; try reflexivity; try discriminate.
  - cbn. intros H. unfold jnum_of_f64. now rewrite H.
  - cbn [json_data sv_of]. rewrite to_json_list. intros H. cbn [jcanon]. f_equal.
    rewrite !map_map. apply map_ext_in. intros x Hx. rewrite Forall_forall in IH. rewrite forallb_forall in H. auto.
  - rewrite json_data_rec. intros H. apply andb_prop in H as [_ Hd].
    rewrite sv_of_rec, to_json_rec, mapv_mapv, jcanon_obj. f_equal.
    rewrite bmap_collect_mapv, bmap_collect_idem, <- bmap_collect_mapv, mapv_mapv. f_equal.
    apply mapv_ext_in. intros k x Hx. rewrite Forall_forall in IH. rewrite forallb_forall in Hd.
    apply (IH (k, x) Hx (Hd (k, x) Hx)).
Qed.
Lemma json_no_reserved_to_json pfs v :
  json_data v = true -> value_no_reserved pfs v = true -> json_no_reserved pfs (to_json (sv_of v)) = true.
Proof.
  induction v as [x|x| |s|l IH|r IH|id ar bd sc _|bi|v _] using value_ind'; try reflexivity; try discriminate.
  - cbn [json_data sv_of value_no_reserved]. rewrite to_json_list. cbn [json_no_reserved].
    rewrite !forallb_forall. intros Hd Hr y Hy. rewrite map_map in Hy.
    apply in_map_iff in Hy as (x & <- & Hx). rewrite Forall_forall in IH. auto.
  - rewrite json_data_rec. cbn [value_no_reserved]. intros Hd Hr.
    apply andb_prop in Hd as [Hnd Hd]. apply andb_prop in Hr as [Hr0 Hr].
    rewrite sv_of_rec, to_json_rec, mapv_mapv. cbn [json_no_reserved]. apply andb_true_intro. split.
    + rewrite <- Hr0. f_equal. unfold reserved_obj.
      rewrite rec_get_bmap_collect, get_last_mapv, get_last_NoDup by (now apply nodup_keys_keys).
      destruct (rec_get r FN_KEY) as [y|]; cbn [option_map]; [now rewrite jstr_of_to_json_sv_of|reflexivity].
    + apply forallb_forall. intros [k j] Hj. apply bmap_collect_in in Hj. apply in_mapv in Hj as (x & Hx & ->).
      cbn [snd]. rewrite Forall_forall in IH. rewrite forallb_forall in Hd, Hr.
      apply (IH (k, x) Hx (Hd (k, x) Hx) (Hr (k, x) Hx)).
Qed.

(* ------------------------------------------------------------------ parse-print-parse, echo on text *)
Section TextEchoProofs.
  Variable pfs : string -> option (list lamarg * string).
  Variable pbody : string -> outcome expr.
  Variable emit : expr -> list (string * svalue) -> string.
  Variable nameof : lam_id -> option string.
  Variable fmt_pieces : num -> numtok.
  Variable float_of_tok : numtok -> option num.
  Variable okf : num -> bool.
  (* the two library hypotheses of the text round trip, on the class okf of doubles *)
  Hypothesis H_print_wf : forall x, okf x = true ->
    tok_wf (fmt_pieces x) = true /\ tok_is_float (fmt_pieces x) = true.
  Hypothesis H_roundtrip : forall x, okf x = true -> float_of_tok (fmt_pieces x) = Some x.
  (* the class: finite doubles only; every double the parser returns is in it (serde_json answers
     "number out of range" instead of returning an infinity); so is every u64/i64 `as f64` *)
  Hypothesis H_okf_finite : forall x, okf x = true -> is_finite x = true.
  Hypothesis H_fot_okf : forall t x, float_of_tok t = Some x -> okf x = true.
  Hypothesis H_okf_int : forall z, I64_MIN <= z <= U64_MAX -> okf (num_of_Z z) = true.
  Notation okn := (okn_of okf).

  Lemma fot_finite_of_class : fot_finite float_of_tok.
  Proof. intros t x Hx. apply H_okf_finite. exact (H_fot_okf t x Hx). Qed.

  Lemma parsed_okn s d :
    json_from_str float_of_tok s = Some d -> json_all okn d = true /\ (jdepth d <= 127)%nat.
  Proof.
    apply (json_from_str_sound float_of_tok okn).
    - apply okn_of_pos.
    - apply okn_of_neg.
    - intros t x Hx. exact (H_fot_okf t x Hx).
  Qed.

  (* parse-print-parse: for EVERY input text the parser accepts, printing the document it returned
     gives a text the parser reads as that same document (so, a fortiori, a json_equiv one) *)
  Theorem parse_print_parse s d :
    json_from_str float_of_tok s = Some d ->
    json_from_str float_of_tok (jprint fmt_pieces d) = Some d.
  Proof.
    intros Hs. destruct (parsed_okn s d Hs) as [Hok Hd].
    exact (json_text_roundtrip_g fmt_pieces float_of_tok okf H_print_wf H_roundtrip H_okf_finite d Hok Hd).
  Qed.
  Corollary parse_print_parse_equiv s d :
    json_from_str float_of_tok s = Some d ->
    exists d', json_from_str float_of_tok (jprint fmt_pieces d) = Some d' /\ json_equiv d d'.
  Proof. intros Hs. exists d. split; [exact (parse_print_parse s d Hs)|reflexivity]. Qed.

  Lemma okn_jcanon d : json_all okn d = true -> json_all okn (jcanon d) = true.
  Proof.
    apply json_all_jcanon. intros [z|z|x] Hn; cbn [okn_of jnum_as_f64] in *.
    - apply H_okf_int. unfold I64_MIN, U64_MAX in *. lia.
    - apply H_okf_int. unfold I64_MIN, U64_MAX in *. lia.
    - exact Hn.
  Qed.

  (* what the echo program writes for a one-member outputs object is read back as that object *)
  Lemma echo_output_reads_back name x :
    json_all okn x = true -> (jdepth x <= 126)%nat ->
    json_from_str float_of_tok (jprint fmt_pieces (JObj [(name, jcanon x)])) = Some (JObj [(name, jcanon x)]).
  Proof.
    intros Hok Hd.
    apply (json_text_roundtrip_g fmt_pieces float_of_tok okf H_print_wf H_roundtrip H_okf_finite).
    - cbn [json_all forallb snd]. now rewrite (okn_jcanon x Hok).
    - now apply jdepth_echo.
  Qed.

  (* `blots -i '<text>' 'output <name> = inputs.<key>'` on an object document, text to text: the
     run succeeds, and the text it writes parses to {<name>: jcanon x} where x is the member of the
     input that counts for <key> (the last one written) — a document json_equiv to x *)
  Theorem cli_text_echo_object s m key name x :
    json_from_str float_of_tok s = Some (JObj m) ->
    forallb (fun kv => json_no_reserved pfs (sj_build (snd kv))) m = true ->
    jlookup m key = Some x ->
    cli_text_echo pfs pbody emit nameof fmt_pieces float_of_tok s key name
      = Ok (jprint fmt_pieces (JObj [(name, jcanon x)]))
    /\ json_from_str float_of_tok (jprint fmt_pieces (JObj [(name, jcanon x)])) = Some (JObj [(name, jcanon x)])
    /\ json_equiv (jcanon x) x.
  Proof.
    intros Hs Hr Hx. unfold cli_text_echo. rewrite Hs.
    rewrite (cli_echo_object_parsed pfs pbody emit nameof float_of_tok fot_finite_of_class s m key name x Hs Hr Hx).
    cbn [obind]. split; [reflexivity|]. split; [|apply jcanon_idem].
    destruct (parsed_okn s (JObj m) Hs) as [Hok Hd].
    pose proof (jlookup_In m key x Hx) as Hin.
    apply echo_output_reads_back.
    - rewrite json_all_obj, forallb_forall in Hok. exact (Hok (key, x) Hin).
    - exact (jdepth_member m key x Hin Hd).
  Qed.

  (* a document that is not an object is echoed through inputs.value_1; its echo is one level
     deeper than the input, so the statement needs nesting <= 126 (see cli_text_echo_depth_refuted) *)
  Theorem cli_text_echo_non_object s d name :
    json_from_str float_of_tok s = Some d -> (forall m, d <> JObj m) ->
    json_no_reserved pfs (sj_build d) = true -> (jdepth d <= 126)%nat ->
    cli_text_echo pfs pbody emit nameof fmt_pieces float_of_tok s "value_1" name
      = Ok (jprint fmt_pieces (JObj [(name, jcanon d)]))
    /\ json_from_str float_of_tok (jprint fmt_pieces (JObj [(name, jcanon d)])) = Some (JObj [(name, jcanon d)])
    /\ json_equiv (jcanon d) d.
  Proof.
    intros Hs Hno Hr Hd. unfold cli_text_echo. rewrite Hs.
    rewrite (cli_echo_non_object_parsed pfs pbody emit nameof float_of_tok fot_finite_of_class s d name Hs Hno Hr).
    cbn [obind]. split; [reflexivity|]. split; [|apply jcanon_idem].
    apply echo_output_reads_back; [|exact Hd]. exact (proj1 (parsed_okn s d Hs)).
  Qed.

  (* the output of the echo program is a FIXED POINT: fed back as the input of
     `output <name> = inputs.<name>` it is reproduced byte for byte (output -> JSON -> input
     unchanged, at the level of the bytes written) *)
  Theorem cli_text_echo_fixed_point s m key name x :
    json_from_str float_of_tok s = Some (JObj m) ->
    forallb (fun kv => json_no_reserved pfs (sj_build (snd kv))) m = true ->
    jlookup m key = Some x ->
    let out := jprint fmt_pieces (JObj [(name, jcanon x)]) in
    cli_text_echo pfs pbody emit nameof fmt_pieces float_of_tok s key name = Ok out /\
    cli_text_echo pfs pbody emit nameof fmt_pieces float_of_tok out name name = Ok out.
  Proof.
    intros Hs Hr Hx out.
    destruct (cli_text_echo_object s m key name x Hs Hr Hx) as (H1 & H2 & _). split; [exact H1|].
    destruct (cli_text_echo_object out [(name, jcanon x)] name name (jcanon x) H2) as (H3 & _).
    - cbn [forallb snd]. rewrite json_no_reserved_build_jcanon, andb_true_r.
      rewrite forallb_forall in Hr. exact (Hr (key, x) (jlookup_In m key x Hx)).
    - apply jlookup_single.
    - rewrite H3. unfold out. now rewrite jcanon_idem.
  Qed.

  (* sentence one at the level of the bytes: what a run writes for a data value under <name>, a
     second run `output <name> = inputs.<name>` reading those bytes writes again, byte for byte *)
  Theorem cli_text_out_echo_fixed_point v name :
    json_data v = true -> value_no_reserved pfs v = true ->
    json_all okn (to_json (sv_of v)) = true ->
    (jdepth (write_outputs [(name, sv_of v)]) <= 127)%nat ->
    let out := jprint fmt_pieces (write_outputs [(name, sv_of v)]) in
    cli_text_echo pfs pbody emit nameof fmt_pieces float_of_tok out name name = Ok out.
  Proof.
    intros Hd Hr Hok Hdepth out.
    assert (Hw : write_outputs [(name, sv_of v)] = JObj [(name, to_json (sv_of v))]) by reflexivity.
    assert (Hparse : json_from_str float_of_tok out = Some (JObj [(name, to_json (sv_of v))])).
    { unfold out. rewrite Hw in *.
      apply (json_text_roundtrip_g fmt_pieces float_of_tok okf H_print_wf H_roundtrip H_okf_finite); [|exact Hdepth].
      cbn [json_all forallb snd]. now rewrite Hok. }
    destruct (cli_text_echo_object out [(name, to_json (sv_of v))] name name (to_json (sv_of v)) Hparse) as (H1 & _).
    - cbn [forallb snd]. rewrite sj_build_to_json, andb_true_r. now apply json_no_reserved_to_json.
    - apply jlookup_single.
    - rewrite H1, (jcanon_to_json_data v Hd). unfold out. now rewrite Hw.
  Qed.

  (* the first sentence of the property on text, for the class: value -> text -> second run *)
  Theorem cli_text_out_in_roundtrip_g v name :
    json_data v = true -> value_no_reserved pfs v = true ->
    json_all okn (to_json (sv_of v)) = true ->
    (jdepth (write_outputs [(name, sv_of v)]) <= 127)%nat ->
    cli_text_out_in pfs pbody emit nameof fmt_pieces float_of_tok v name = Ok (vsort v)
    /\ equals (vsort v) v = true /\ same_data (vsort v) v = true.
  Proof.
    intros Hd Hr Hok Hdepth.
    destruct (cli_out_in_roundtrip pfs pbody emit nameof v name Hd Hr) as (H1 & H2 & H3).
    split; [|split; assumption].
    unfold cli_text_out_in. unfold cli_out_in in H1.
    rewrite (from_value_plain emit nameof v (json_data_plain v Hd)) in *. cbn [obind] in *.
    rewrite (json_text_roundtrip_g fmt_pieces float_of_tok okf H_print_wf H_roundtrip H_okf_finite);
      [exact H1| |exact Hdepth].
    unfold write_outputs. cbn [map fst snd json_all forallb]. now rewrite Hok.
  Qed.
End TextEchoProofs.

(* ------------------------------------------------------------------ the class "every finite datum" *)
(* under exactly the two library hypotheses of C06_json_text_roundtrip, plus: the reader never
   returns NaN or an infinity *)
Section FiniteClass.
  Variable pfs : string -> option (list lamarg * string).
  Variable pbody : string -> outcome expr.
  Variable emit : expr -> list (string * svalue) -> string.
  Variable nameof : lam_id -> option string.
  Variable fmt_pieces : num -> numtok.
  Variable float_of_tok : numtok -> option num.
  Hypothesis H_print_wf : forall x, is_finite x = true ->
    tok_wf (fmt_pieces x) = true /\ tok_is_float (fmt_pieces x) = true.
  Hypothesis H_roundtrip : forall x, is_finite x = true -> float_of_tok (fmt_pieces x) = Some x.
  Hypothesis H_fot : fot_finite float_of_tok.

  Lemma int_as_f64_finite z : I64_MIN <= z <= U64_MAX -> is_finite (num_of_Z z) = true.
  Proof. intros Hz. apply num_of_Z_finite. unfold I64_MIN, U64_MAX in Hz. lia. Qed.

  Theorem parse_print_parse_finite s d :
    json_from_str float_of_tok s = Some d ->
    exists d', json_from_str float_of_tok (jprint fmt_pieces d) = Some d' /\ json_equiv d d'.
  Proof.
    exact (parse_print_parse_equiv fmt_pieces float_of_tok is_finite H_print_wf H_roundtrip
             (fun x H => H) H_fot s d).
  Qed.

  Theorem cli_text_echo_object_finite s m key name x :
    json_from_str float_of_tok s = Some (JObj m) ->
    forallb (fun kv => json_no_reserved pfs (sj_build (snd kv))) m = true ->
    jlookup m key = Some x ->
    cli_text_echo pfs pbody emit nameof fmt_pieces float_of_tok s key name
      = Ok (jprint fmt_pieces (JObj [(name, jcanon x)]))
    /\ json_from_str float_of_tok (jprint fmt_pieces (JObj [(name, jcanon x)])) = Some (JObj [(name, jcanon x)])
    /\ json_equiv (jcanon x) x.
  Proof.
    exact (cli_text_echo_object pfs pbody emit nameof fmt_pieces float_of_tok is_finite H_print_wf H_roundtrip
             (fun x H => H) H_fot int_as_f64_finite s m key name x).
  Qed.
End FiniteClass.

(* F31 at the echo level: a bare array nested 127 deep is accepted as input, and the output of
   `output x = inputs.value_1` — one level deeper — is rejected as input *)
Lemma cli_text_echo_depth_refuted :
  let s := jprint no_tok (nest 126 (JArr [])) in
  let out := jprint no_tok (JObj [("x"%string, nest 126 (JArr []))]) in
  json_from_str sj_float_of_tok s = Some (nest 126 (JArr [])) /\
  cli_text_echo no_fn no_body no_emit no_name no_tok sj_float_of_tok s "value_1" "x" = Ok out /\
  json_from_str sj_float_of_tok out = None.
Proof. split; [|split]; vm_compute; reflexivity. Qed.
