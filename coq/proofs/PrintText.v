(* PrintText.v — items_render: the string expr_to_source returns is exactly the text of the token
   stream print_items emits (so the round-trip theorem about print_items is about the printed text,
   up to lexing).  For every version of the printer (fixes, policy) and every number-text oracle. *)
From Coq Require Import String Ascii List Bool Arith Lia.
Require Import Blots.Num Blots.gen.Builtins Blots.Ast Blots.Outcome Blots.PrattTypes Blots.gen.PrecTable
               Blots.Pratt Blots.PrattRender Blots.Printer Blots.proofs.PrattRT.
Import ListNotations.
Local Open Scope string_scope.

Lemma append_nil_r : forall s : string, s ++ "" = s.
Proof. induction s; cbn; [reflexivity | rewrite IHs; reflexivity]. Qed.
Lemma append_nil_l : forall s : string, "" ++ s = s.
Proof. reflexivity. Qed.
Lemma append_assoc : forall a b c : string, (a ++ b) ++ c = a ++ (b ++ c).
Proof. induction a; intros; cbn; [reflexivity | rewrite IHa; reflexivity]. Qed.

Section Text.
  Variable fx : fixes.
  Variable pol : policy.
  Variable numtxt : num -> string.
  Notation pt := (print_text fx pol numtxt).
  Notation pi := (print_items fx pol numtxt).
  Notation it := (item_text7 fx numtxt).
  Notation its := (items_text7 fx numtxt).

  Lemma its_app : forall a b, its (a ++ b) = its a ++ its b.
  Proof.
    induction a as [|x a IH]; intro b; cbn [app items_text7]; [reflexivity|].
    rewrite IH, append_assoc. reflexivity.
  Qed.
  Lemma its_one : forall x, its [x] = it x.
  Proof. intro x. cbn [items_text7]. apply append_nil_r. Qed.
  Lemma it_expr_true : forall g, it (IExpr true g) = "(" ++ its g ++ ")".
  Proof. reflexivity. Qed.
  Lemma it_expr_false : forall g, it (IExpr false g) = its g.
  Proof. reflexivity. Qed.
  Lemma its_wrapb : forall b l, its (wrapb b l) = paren_s b (its l).
  Proof. intros [|] l; cbn [wrapb paren_s]; [rewrite its_one; reflexivity | reflexivity]. Qed.

  Lemma op_text_binop : forall o, op_text7 (binop_rule o) = " " ++ binop_text o ++ " ".
  Proof. destruct o; reflexivity. Qed.

  Definition TR (e : expr) : Prop := wf e = true -> pt e = its (pi e).

  Lemma list_text : forall items,
    Forall (Pcm TR) items ->
    (fix go (l : list (commented expr)) : bool :=
       match l with [] => true | c :: l' => plain_cm c && (match c with Cm _ e _ => wf e end) && go l' end) items = true ->
    (fix go (l : list (commented expr)) : list string :=
       match l with [] => [] | Cm _ x _ :: l' => pt x :: go l' end) items
    = (fix go (l : list lelem) : list string :=
         match l with
         | [] => []
         | LCom _ :: r => go r
         | LItem g _ :: r => its g :: go r
         end)
        ((fix go (l : list (commented expr)) : list lelem :=
            match l with [] => [] | Cm _ x _ :: l' => LItem (pi x) None :: go l' end) items).
  Proof.
    induction items as [|c items IH]; intros HF Hwf; [reflexivity|].
    apply andb_prop in Hwf. destruct Hwf as [Hwf Hrest]. apply andb_prop in Hwf. destruct Hwf as [Hpl Hw].
    destruct c as [ld x tr]. inversion HF as [|? ? Hc HF']; subst. cbn [Pcm] in Hc.
    rewrite (Hc Hw). f_equal. apply IH; assumption.
  Qed.

  Lemma args_text : forall args,
    Forall TR args ->
    (fix go (l : list expr) : bool := match l with [] => true | a :: l' => wf a && go l' end) args = true ->
    (fix go (l : list expr) : list string :=
       match l with [] => [] | a :: l' => pt a :: go l' end) args
    = (fix go (l : list (list item)) : list string :=
         match l with [] => [] | g :: r => its g :: go r end)
        ((fix go (l : list expr) : list (list item) :=
            match l with [] => [] | a :: l' => pi a :: go l' end) args).
  Proof.
    induction args as [|a args IH]; intros HF Hwf; [reflexivity|].
    apply andb_prop in Hwf. destruct Hwf as [Hw Hrest]. inversion HF as [|? ? Hc HF']; subst.
    rewrite (Hc Hw). f_equal. apply IH; assumption.
  Qed.

  Lemma rec_text : forall entries,
    Forall (Pentry TR) entries ->
    (fix go (l : list (commented rentry)) : bool :=
       match l with
       | [] => true
       | c :: l' =>
           plain_cm c &&
           (match c with
            | Cm _ (REntry k v) _ =>
                match k with
                | KStatic _ => wf v
                | KDyn e => wf e && wf v
                | KShort _ => is_null v
                | KSpread e => wf e && is_null v
                end
            end) && go l'
       end) entries = true ->
    (fix go (l : list (commented rentry)) : list string :=
       match l with
       | [] => []
       | Cm _ (REntry k v) _ :: l' =>
           match k with
           | KStatic s => format_record_key fx s ++ ": " ++ pt v
           | KDyn d => "[" ++ pt d ++ "]: " ++ pt v
           | KShort s => s
           | KSpread x => pt x
           end :: go l'
       end) entries
    = (fix go (l : list relem) : list string :=
         match l with
         | [] => []
         | RCom _ :: r => go r
         | RPairI k v _ :: r =>
             (match k with
              | RKId s => s
              | RKStr s => quote_string fx s
              | RKDyn inner => "[" ++ its inner ++ "]"
              end ++ ": " ++ its v) :: go r
         | RShortI s _ :: r => s :: go r
         | RSpreadI g _ :: r => its g :: go r
         end)
        ((fix go (l : list (commented rentry)) : list relem :=
            match l with
            | [] => []
            | Cm _ (REntry k v) _ :: l' =>
                match k with
                | KStatic s => RPairI (key_item s) (pi v) None
                | KDyn d => RPairI (RKDyn [IExpr false (pi d)]) (pi v) None
                | KShort s => RShortI s None
                | KSpread x => RSpreadI (pi x) None
                end :: go l'
            end) entries).
  Proof.
    induction entries as [|c entries IH]; intros HF Hwf; [reflexivity|].
    apply andb_prop in Hwf. destruct Hwf as [Hwf Hrest]. apply andb_prop in Hwf. destruct Hwf as [Hpl Hw].
    destruct c as [ld [k v] tr]. inversion HF as [|? ? Hc HF']; subst.
    cbn [Pentry Pkey] in Hc. destruct Hc as [Hk Hv].
    specialize (IH HF' Hrest).
    destruct k as [s|d|s|x].
    - rewrite (Hv Hw). unfold key_item, format_record_key.
      destruct (is_valid_identifier s); (f_equal; exact IH).
    - apply andb_prop in Hw. destruct Hw as [Hd Hv'].
      rewrite (Hk Hd), (Hv Hv'). f_equal; [|exact IH].
      cbn [items_text7]. rewrite it_expr_false, append_nil_r.
      rewrite !append_assoc. reflexivity.
    - f_equal. exact IH.
    - apply andb_prop in Hw. destruct Hw as [Hx _]. rewrite (Hk Hx). f_equal. exact IH.
  Qed.

  Lemma do_text : forall stmts i ret rl,
    Forall (Pcm TR) stmts ->
    (fix go (l : list (commented expr)) : bool :=
       match l with [] => true | c :: l' => plain_cm c && (match c with Cm _ e _ => wf e end) && go l' end) stmts = true ->
    pt ret = its (pi ret) ->
    rl = [] ->
    (fix go (i : nat) (l : list (commented expr)) : string :=
       match l with
       | [] => ""
       | Cm lead x trail :: l' =>
           sconcat (map (fun c => nl ++ "  " ++ c) lead) ++
           nl ++ "  " ++ (let s := pt x in paren_s (dominus_text fx i s) s) ++
           match trail with Some t => "  " ++ t | None => "" end ++
           go (S i) l'
       end) i stmts ++
    sconcat (map (fun c => nl ++ "  " ++ c) rl) ++ nl ++ "  return " ++ pt ret ++ nl ++ "}"
    = (fix go (l : list delem) : string :=
         match l with
         | [] => ""
         | DStmt g _ :: r => nl ++ "  " ++ its g ++ go r
         | DComStmt s _ :: r => nl ++ "  " ++ s ++ go r
         | DCom s :: r => nl ++ "  " ++ s ++ go r
         | DRet g :: r => nl ++ "  return " ++ its g ++ go r
         end)
        ((fix go (i : nat) (l : list (commented expr)) : list delem :=
            match l with
            | [] => [DRet (pi ret)]
            | Cm _ x _ :: l' => DStmt (wrapb (dominus_text fx i (pt x)) (pi x)) None :: go (S i) l'
            end) i stmts) ++ nl ++ "}".
  Proof.
    induction stmts as [|c stmts IH]; intros i ret rl HF Hwf Hret ->.
    - cbn -[append its]. rewrite Hret. repeat rewrite append_assoc. repeat rewrite append_nil_l. reflexivity.
    - apply andb_prop in Hwf. destruct Hwf as [Hwf Hrest]. apply andb_prop in Hwf. destruct Hwf as [Hpl Hw].
      destruct (plain_cm_inv c Hpl) as [x ->]. inversion HF as [|? ? Hc HF']; subst. cbn [Pcm] in Hc.
      specialize (IH (S i) ret [] HF' Hrest Hret eq_refl).
      cbn -[append its wrapb paren_s dominus_text] in IH |- *.
      rewrite its_wrapb, <- (Hc Hw).
      repeat rewrite append_assoc. repeat rewrite append_nil_l.
      repeat rewrite append_assoc in IH. repeat rewrite append_nil_l in IH.
      do 3 f_equal. exact IH.
  Qed.

  Theorem items_render_all : forall e, TR e.
  Proof.
    induction e as [x|s|b| |x|x|b|items HF|entries HF|args body IHb|c t1 e IHc IHt IHe|stmts ret HF Hret
                   |x v IHv|e IHe|f args IHf HF|e i IHe IHi|e f IHe|o l r IHl IHr|uo e IHe|e IHe|e IHe]
      using expr_ind';
      intros Hwf; cbn [print_text print_items].
    - rewrite its_one. reflexivity.
    - rewrite its_one. reflexivity.
    - rewrite its_one. destruct b; reflexivity.
    - reflexivity.
    - rewrite its_one. reflexivity.
    - rewrite its_one. reflexivity.
    - rewrite its_one. reflexivity.
    - (* EList *)
      rewrite its_one. cbn [item_text7]. cbn [wf] in Hwf. rewrite (list_text items HF Hwf). reflexivity.
    - (* ERec *)
      rewrite its_one. cbn [item_text7]. cbn [wf] in Hwf. rewrite (rec_text entries HF Hwf). reflexivity.
    - (* ELam *)
      rewrite its_one. cbn [item_text7]. cbn [wf] in Hwf.
      change ((fix seq (l : list item) : string :=
                 match l with [] => "" | x :: r => it x ++ seq r end) (wrapb (pB pol body) (pi body)))
        with (its (wrapb (pB pol body) (pi body))).
      rewrite (its_wrapb (pB pol body) (pi body)), (IHb Hwf). reflexivity.
    - (* ECond *)
      cbn [wf] in Hwf. apply andb_prop in Hwf. destruct Hwf as [Hwf H3]. apply andb_prop in Hwf. destruct Hwf as [H1 H2].
      rewrite its_one. cbn [item_text7].
      change (fix seq (l : list item) : string :=
                 match l with [] => "" | x :: r => it x ++ seq r end) with its.
      rewrite (IHc H1), (IHt H2), (IHe H3). reflexivity.
    - (* EDo *)
      destruct ret as [rl r rt]. cbn [wf] in Hwf.
      apply andb_prop in Hwf. destruct Hwf as [Hwf Hr]. apply andb_prop in Hwf. destruct Hwf as [Hs Hpl].
      destruct (plain_cm_inv _ Hpl) as [r' Er]. inversion Er; subst.
      rewrite its_one. cbn [item_text7].
      change (fix seq (l : list item) : string :=
                 match l with [] => "" | x :: r => it x ++ seq r end) with its.
      f_equal. cbn [Pcm] in Hret.
      exact (do_text stmts 0 r' [] HF Hs (Hret Hr) eq_refl).
    - (* EAssign *)
      rewrite its_one. cbn [item_text7]. cbn [wf] in Hwf.
      change (fix seq (l : list item) : string :=
                 match l with [] => "" | x :: r => it x ++ seq r end) with its.
      rewrite (IHv Hwf). reflexivity.
    - discriminate.
    - (* ECall *)
      cbn [wf] in Hwf. apply andb_prop in Hwf. destruct Hwf as [Hwf1 Hwf2].
      rewrite its_app, (its_wrapb (pC pol f) (pi f)), its_one. cbn [item_text7].
      change (fix seq (l : list item) : string :=
                 match l with [] => "" | x :: r => it x ++ seq r end) with its.
      rewrite (IHf Hwf1), (args_text args HF Hwf2). reflexivity.
    - (* EAccess *)
      cbn [wf] in Hwf. apply andb_prop in Hwf. destruct Hwf as [Hwf1 Hwf2].
      rewrite its_app, (its_wrapb (pP pol e) (pi e)), its_one. cbn [item_text7].
      change (fix seq (l : list item) : string :=
                 match l with [] => "" | x :: r => it x ++ seq r end) with its.
      rewrite (IHe Hwf1), (IHi Hwf2). cbn [items_text7]. rewrite ?it_expr_false, ?append_nil_r. reflexivity.
    - (* EDot *)
      cbn [wf] in Hwf. rewrite its_app, (its_wrapb (pP pol e) (pi e)), its_one. cbn [item_text7]. rewrite (IHe Hwf). reflexivity.
    - (* EBin *)
      cbn [wf] in Hwf. apply andb_prop in Hwf. destruct Hwf as [Hwl Hwr].
      rewrite its_app. cbn [items_text7]. fold (its (wrapb (pR pol o r) (pi r))).
      rewrite (its_wrapb (pL pol o l) (pi l)), (its_wrapb (pR pol o r) (pi r)). cbn [item_text7]. rewrite op_text_binop, (IHl Hwl), (IHr Hwr).
      rewrite !append_assoc. reflexivity.
    - (* EUn *)
      cbn [wf] in Hwf. apply andb_prop in Hwf. destruct Hwf as [Hu Hwe].
      cbn [items_text7]. fold (its (wrapb (pU pol e) (pi e))). rewrite (its_wrapb (pU pol e) (pi e)), (IHe Hwe).
      destruct uo; try discriminate; reflexivity.
    - (* EFact *)
      cbn [wf] in Hwf. rewrite its_app, (its_wrapb (pP pol e) (pi e)), its_one. rewrite (IHe Hwf). reflexivity.
    - (* ESpread *)
      cbn [wf] in Hwf. cbn [items_text7]. rewrite it_expr_false, append_nil_r. rewrite (IHe Hwf). reflexivity.
  Qed.

  Theorem items_render : forall e, wf e = true -> pt e = its (pi e).
  Proof. intros e H. apply items_render_all. exact H. Qed.

  (* a token stream that starts with the prefix minus prints a text that starts with `-` *)
  Lemma starts_neg_text : forall l, starts_neg l = true -> starts_minus (its l) = true.
  Proof.
    intros [|x l]; cbn [starts_neg]; [discriminate|].
    destruct x; try discriminate. destruct r; try discriminate. intros _. reflexivity.
  Qed.
End Text.
