(* proofs/UnitsFloatTemp.v — C17, binary64: there-and-back for the TEMPERATURE kind (affine
   conversions; UnitsFloat.v / UnitsFloatKinds.v cover the linear and reciprocal kinds).
   A temperature function of units.rs is a short chain of  + c, - c, * c, / c  with double
   constants (273.15, 32, 5, 9).  Generic part: for ANY such chain run in binary64 on a valid
   finite double (zeros included), the result differs from the exact real chain by at most
   err ops x 0, the first-order error recurrence
        eps' = g * eps + u * (|x'| + g * eps) + eta      (g = 1, |c| or 1/|c|; u = 2^-53; eta = 2^-1075)
   — every operation is correctly rounded (Flocq Bplus/Bmult/Bdiv), and round-to-nearest errs by at
   most u|t| + eta for EVERY real t (relative_error_N_FLT'_ex: no underflow side condition) —
   provided no intermediate exceeds 2^1022 (safe).  err is bounded by  S * (u * X + eta)  where X
   bounds the exact intermediates and S sums the downstream gains (err_bound).
   Instantiated: for two temperature units whose function pairs are inverse pairs (true of the table:
   C17_table_wellformed), v -> B -> A is within err of v; explicit numbers for |v| <= 2^1000:
   |result - v| <= 200 * (2^-53 * 9 * (|v| + 1000) + 2^-1075). *)
From Coq Require Import ZArith Reals String List Bool Lia Lra Floats.SpecFloat.
From Flocq Require Import Core.Core IEEE754.BinarySingleNaN IEEE754.PrimFloat.
Require Import Flocq.Prop.Relative.
Require Import Blots.Num Blots.UnitsBase Blots.gen.UnitsTable Blots.Units Blots.proofs.UnitsFloat.
Require Import Blots.proofs.DisplayNumFloat Blots.proofs.DisplayNumFinite Blots.proofs.DisplayNumAccStd.
Import ListNotations.
Open Scope R_scope.

Local Existing Instance vexp.

(* ---------------------------------------------------------------- binary64 + and - on finite doubles *)
Lemma binary_normalize_equiv' m e szero :
  SpecFloat.binary_normalize 53 1024 m e szero
  = B2SF (BinarySingleNaN.binary_normalize 53 1024 prec_gt_0_53 prec_lt_emax_53 mode_NE m e szero).
Proof.
  case m as [ | p | p].
  - now simpl.
  - simpl; rewrite B2SF_SF2B; apply UnitsFloat.binary_round_aux_equiv || idtac.
    unfold SpecFloat.binary_round, binary_round, shl_align_fexp.
    set (mez := shl_align _ _ _); case mez as [mz ez]. apply UnitsFloat.binary_round_aux_equiv.
  - simpl; rewrite B2SF_SF2B.
    unfold SpecFloat.binary_round, binary_round, shl_align_fexp.
    set (mez := shl_align _ _ _); case mez as [mz ez]. apply UnitsFloat.binary_round_aux_equiv.
Qed.

Lemma nadd_Bplus' (x y : binary_float 53 1024) :
  nadd (B2SF x) (B2SF y) = B2SF (Bplus mode_NE x y).
Proof.
  unfold nadd.
  destruct x as [sx|sx| |sx mx ex Bx], y as [sy|sy| |sy my ey By];
    try reflexivity; try (simpl; now case Bool.eqb).
  apply binary_normalize_equiv'.
Qed.

Definition fval (x : num) : Prop := valid x /\ Num.is_finite x = true.

Lemma nadd_R : forall x y, fval x -> fval y ->
  Rabs (rnd64 (RV x + RV y)) < bpow radix2 1024 ->
  fval (nadd x y) /\ RV (nadd x y) = rnd64 (RV x + RV y).
Proof.
  intros x y [Vx Fx] [Vy Fy] B.
  pose proof (nadd_Bplus' (SF2B x Vx) (SF2B y Vy)) as E. rewrite !B2SF_SF2B in E.
  pose proof (Bplus_correct 53 1024 _ _ mode_NE (SF2B x Vx) (SF2B y Vy)) as C.
  rewrite !is_finite_SF2B, !finite_SF in C. specialize (C Fx Fy).
  rewrite !B2R_SF2B in C. cbn [round_mode] in C.
  change (SF2R radix2 x) with (RV x) in C. change (SF2R radix2 y) with (RV y) in C.
  rewrite Rlt_bool_true in C by exact B. destruct C as (R & F & _).
  rewrite E. split; [split|].
  - apply valid_binary_B2SF.
  - rewrite <- finite_SF, is_finite_SF_B2SF. exact F.
  - unfold RV. rewrite SF2R_B2SF. exact R.
Qed.

Lemma nsub_nadd_opp : forall x y, nsub x y = nadd x (SFopp y).
Proof.
  intros [sx|sx| |sx mx ex] [sy|sy| |sy my ey]; try reflexivity.
  unfold nsub, nadd, SFsub, SFadd, SFopp. f_equal.
  unfold Z.sub. f_equal. destruct sy; reflexivity.
Qed.

Lemma fval_opp : forall y, fval y -> fval (SFopp y) /\ RV (SFopp y) = - RV y.
Proof.
  intros [s|s| |s m e] [V F]; try discriminate F; unfold fval, RV; cbn [SFopp SF2R].
  - split; [split; reflexivity|ring].
  - split; [split; [exact V|reflexivity]|]. destruct s; cbn [negb cond_Zopp]; rewrite <- F2R_Zopp; reflexivity.
Qed.

Lemma nsub_R : forall x y, fval x -> fval y ->
  Rabs (rnd64 (RV x - RV y)) < bpow radix2 1024 ->
  fval (nsub x y) /\ RV (nsub x y) = rnd64 (RV x - RV y).
Proof.
  intros x y Fx Fy B. rewrite nsub_nadd_opp. destruct (fval_opp y Fy) as [Fo Ro].
  destruct (nadd_R x (SFopp y) Fx Fo) as [F R].
  - rewrite Ro. exact B.
  - split; [exact F|]. rewrite R, Ro. reflexivity.
Qed.

(* ---------------------------------------------------------------- chains of affine operations *)
Inductive aop := OAdd (c : num) | OSub (c : num) | OMul (c : num) | ODiv (c : num).
Definition aop_c (o : aop) : num := match o with OAdd c | OSub c | OMul c | ODiv c => c end.
Definition aop_fl (o : aop) (x : num) : num :=
  match o with OAdd c => nadd x c | OSub c => nsub x c | OMul c => nmul x c | ODiv c => ndiv x c end.
Definition aop_R (o : aop) (x : R) : R :=
  match o with OAdd c => x + RV c | OSub c => x - RV c | OMul c => x * RV c | ODiv c => x / RV c end.
Definition gain (o : aop) : R :=
  match o with OAdd _ | OSub _ => 1 | OMul c => Rabs (RV c) | ODiv c => / Rabs (RV c) end.

(* a finite non-zero constant *)
Definition cstb (c : num) : bool :=
  match c with S754_finite _ _ _ => valid_binary 53 1024 c | _ => false end.

Lemma cstb_facts : forall c, cstb c = true ->
  fval c /\ RV c <> 0 /\ exists s m e, c = S754_finite s m e.
Proof.
  intros [s|s| |s m e] H; try discriminate H. cbn [cstb] in H. split; [split; [exact H|reflexivity]|].
  split; [|now exists s, m, e].
  unfold RV. cbn [SF2R]. apply F2R_neq_0. cbn [Fnum]. destruct s; discriminate.
Qed.

Fixpoint run_fl (ops : list aop) (x : num) : num :=
  match ops with [] => x | o :: r => run_fl r (aop_fl o x) end.
Fixpoint run_R (ops : list aop) (x : R) : R :=
  match ops with [] => x | o :: r => run_R r (aop_R o x) end.

Definition u64 : R := bpow radix2 (-53).
Definition eta64 : R := bpow radix2 (-1075).

(* the error recurrence, and the no-overflow side condition *)
Fixpoint err (ops : list aop) (x eps : R) : R :=
  match ops with
  | [] => eps
  | o :: r => let x' := aop_R o x in
              err r x' (gain o * eps + u64 * (Rabs x' + gain o * eps) + eta64)
  end.
Fixpoint safe (ops : list aop) (x eps : R) : Prop :=
  match ops with
  | [] => True
  | o :: r => let x' := aop_R o x in
              Rabs x' + gain o * eps <= bpow radix2 1022 /\
              safe r x' (gain o * eps + u64 * (Rabs x' + gain o * eps) + eta64)
  end.

(* round to nearest errs by at most u|t| + eta, for every real t *)
Lemma rnd_err : forall t, Rabs (rnd64 t - t) <= u64 * Rabs t + eta64.
Proof.
  intros t.
  destruct (relative_error_N_FLT'_ex radix2 (-1074) 53 ltac:(lia) (fun x => negb (Z.even x)) t)
    as (eps & eta & He & Ht & _ & E).
  rewrite <- fexp_eq in E. rewrite E.
  replace (t * (1 + eps) + eta - t) with (t * eps + eta) by ring.
  eapply Rle_trans; [apply Rabs_triang|]. rewrite Rabs_mult.
  assert (U : u_ro radix2 53 = u64).
  { unfold u_ro, u64. change (-53 + 1)%Z with (-52)%Z. change (/ 2) with (bpow radix2 (-1)).
    rewrite <- bpow_plus. reflexivity. }
  rewrite U in He.
  assert (P : 0 < u64) by apply bpow_gt_0.
  assert (Q : u64 / (1 + u64) <= u64).
  { apply Rmult_le_reg_r with (1 + u64); [lra|]. unfold Rdiv. rewrite Rmult_assoc, Rinv_l by lra. nra. }
  assert (H2 : Rabs eta <= eta64).
  { eapply Rle_trans; [exact Ht|]. unfold eta64. change (/ 2) with (bpow radix2 (-1)).
    rewrite <- bpow_plus. right. reflexivity. }
  pose proof (Rabs_pos t). rewrite (Rmult_comm u64).
  apply Rplus_le_compat; [apply Rmult_le_compat_l; lra|exact H2].
Qed.

Lemma gain_pos : forall o, cstb (aop_c o) = true -> 0 < gain o.
Proof.
  intros [c|c|c|c] H; cbn [gain aop_c] in *; try lra;
    destruct (cstb_facts c H) as (_ & N & _); pose proof (Rabs_pos_lt _ N);
    [assumption|now apply Rinv_0_lt_compat].
Qed.

(* the exact operation is gain-Lipschitz *)
Lemma aop_R_lip : forall o a b, cstb (aop_c o) = true ->
  Rabs (aop_R o a - aop_R o b) = gain o * Rabs (a - b).
Proof.
  intros [c|c|c|c] a b H; cbn [aop_R gain aop_c] in *; destruct (cstb_facts c H) as (_ & N & _).
  - replace (a + RV c - (b + RV c)) with (a - b) by ring. lra.
  - replace (a - RV c - (b - RV c)) with (a - b) by ring. lra.
  - replace (a * RV c - b * RV c) with ((a - b) * RV c) by ring. rewrite Rabs_mult. ring.
  - replace (a / RV c - b / RV c) with ((a - b) * / RV c) by (field; exact N).
    rewrite Rabs_mult, Rabs_inv. ring.
Qed.

(* one operation in binary64 *)
Lemma aop_step : forall o x, fval x -> cstb (aop_c o) = true ->
  Rabs (aop_R o (RV x)) <= bpow radix2 1022 ->
  fval (aop_fl o x) /\ RV (aop_fl o x) = rnd64 (aop_R o (RV x)).
Proof.
  intros o x Fx Hc B.
  assert (O : Rabs (rnd64 (aop_R o (RV x))) < bpow radix2 1024).
  { eapply Rle_lt_trans; [apply (rnd_abs_le_bpow _ 1022); [lia|exact B]|apply bpow_lt; lia]. }
  destruct o as [c|c|c|c]; cbn [aop_R aop_fl aop_c] in *;
    destruct (cstb_facts c Hc) as (Fc & N & s & m & e & Ec).
  - now apply nadd_R.
  - now apply nsub_R.
  - destruct Fx as [Vx Fx]. destruct Fc as [Vc Fc].
    destruct (nmul_correct x c Vx Vc Fx Fc O) as (V & F & R). split; [split; assumption|exact R].
  - destruct Fx as [Vx Fx]. subst c.
    destruct (ndiv_correct x s m e Vx Fx O) as (V & F & R). split; [split; assumption|exact R].
Qed.

Theorem chain_error : forall ops r x eps,
  fval r -> forallb (fun o => cstb (aop_c o)) ops = true ->
  0 <= eps -> Rabs (RV r - x) <= eps -> safe ops x eps ->
  fval (run_fl ops r) /\ Rabs (RV (run_fl ops r) - run_R ops x) <= err ops x eps.
Proof.
  induction ops as [|o ops IH]; intros r x eps Fr Hc He Hr Hs.
  - cbn [run_fl run_R err]. split; assumption.
  - cbn [forallb] in Hc. apply andb_true_iff in Hc. destruct Hc as [Hc Hcs].
    cbn [safe] in Hs. destruct Hs as [Hb Hs]. cbn [run_fl run_R err].
    pose proof (gain_pos o Hc) as G.
    pose proof (aop_R_lip o (RV r) x Hc) as L.
    assert (T : Rabs (aop_R o (RV r)) <= Rabs (aop_R o x) + gain o * eps).
    { replace (aop_R o (RV r)) with ((aop_R o (RV r) - aop_R o x) + aop_R o x) by ring.
      eapply Rle_trans; [apply Rabs_triang|]. rewrite L.
      assert (gain o * Rabs (RV r - x) <= gain o * eps) by (apply Rmult_le_compat_l; lra). lra. }
    destruct (aop_step o r Fr Hc ltac:(lra)) as [F' R'].
    apply IH; try assumption.
    + pose proof (Rabs_pos (aop_R o x)) as A0.
      assert (U0 : 0 < u64) by apply bpow_gt_0. assert (E0 : 0 < eta64) by apply bpow_gt_0.
      assert (G0 : 0 <= gain o * eps) by (apply Rmult_le_pos; lra).
      assert (M0 : 0 <= u64 * (Rabs (aop_R o x) + gain o * eps)) by (apply Rmult_le_pos; lra).
      lra.
    + rewrite R'.
      replace (rnd64 (aop_R o (RV r)) - aop_R o x)
        with ((rnd64 (aop_R o (RV r)) - aop_R o (RV r)) + (aop_R o (RV r) - aop_R o x)) by ring.
      eapply Rle_trans; [apply Rabs_triang|]. rewrite L.
      pose proof (rnd_err (aop_R o (RV r))) as E.
      assert (gain o * Rabs (RV r - x) <= gain o * eps) by (apply Rmult_le_compat_l; lra).
      assert (u64 * Rabs (aop_R o (RV r)) <= u64 * (Rabs (aop_R o x) + gain o * eps)).
      { apply Rmult_le_compat_l; [unfold u64; apply bpow_ge_0|exact T]. }
      lra.
Qed.

Lemma run_fl_app : forall a b x, run_fl (a ++ b) x = run_fl b (run_fl a x).
Proof. induction a as [|o a IH]; intros; [reflexivity|]. cbn [app run_fl]. apply IH. Qed.
Lemma run_R_app : forall a b x, run_R (a ++ b) x = run_R b (run_R a x).
Proof. induction a as [|o a IH]; intros; [reflexivity|]. cbn [app run_R]. apply IH. Qed.

(* ---------------------------------------------------------------- bounding the recurrence *)
(* P = product of the (1+u)-inflated gains, S = sum of the downstream products *)
Fixpoint gP (ops : list aop) : R :=
  match ops with [] => 1 | o :: r => gain o * (1 + u64) * gP r end.
Fixpoint gS (ops : list aop) : R :=
  match ops with [] => 0 | o :: r => gP r + gS r end.
(* X bounds every exact intermediate *)
Fixpoint bounded_by (ops : list aop) (x X : R) : Prop :=
  match ops with [] => True | o :: r => Rabs (aop_R o x) <= X /\ bounded_by r (aop_R o x) X end.

Lemma gP_pos : forall ops, forallb (fun o => cstb (aop_c o)) ops = true -> 0 < gP ops.
Proof.
  induction ops as [|o ops IH]; intros H; cbn [gP]; [lra|].
  cbn [forallb] in H. apply andb_true_iff in H. destruct H as [H1 H2].
  pose proof (gain_pos o H1). pose proof (IH H2). pose proof (bpow_gt_0 radix2 (-53)). unfold u64.
  apply Rmult_lt_0_compat; [apply Rmult_lt_0_compat; lra|assumption].
Qed.

Lemma gS_nonneg : forall ops, forallb (fun o => cstb (aop_c o)) ops = true -> 0 <= gS ops.
Proof.
  induction ops as [|o ops IH]; intros H; cbn [gS]; [lra|].
  cbn [forallb] in H. apply andb_true_iff in H. destruct H as [H1 H2].
  pose proof (gP_pos ops H2). pose proof (IH H2). lra.
Qed.

Theorem err_bound : forall ops x eps X,
  forallb (fun o => cstb (aop_c o)) ops = true -> 0 <= eps -> bounded_by ops x X ->
  err ops x eps <= gP ops * eps + gS ops * (u64 * X + eta64).
Proof.
  induction ops as [|o ops IH]; intros x eps X H He HB; cbn [err gP gS].
  - lra.
  - cbn [forallb] in H. apply andb_true_iff in H. destruct H as [H1 H2].
    cbn [bounded_by] in HB. destruct HB as [B1 B2].
    pose proof (gain_pos o H1) as G. pose proof (gP_pos ops H2) as P. pose proof (gS_nonneg ops H2) as S.
    assert (U : 0 < u64) by apply bpow_gt_0. assert (E : 0 < eta64) by apply bpow_gt_0.
    pose proof (Rabs_pos (aop_R o x)) as A.
    set (e' := gain o * eps + u64 * (Rabs (aop_R o x) + gain o * eps) + eta64).
    assert (G0 : 0 <= gain o * eps) by (apply Rmult_le_pos; lra).
    assert (M0 : 0 <= u64 * (Rabs (aop_R o x) + gain o * eps)) by (apply Rmult_le_pos; lra).
    assert (He' : 0 <= e') by (unfold e'; lra).
    eapply Rle_trans; [apply (IH (aop_R o x) e' X H2 He' B2)|].
    assert (K : e' <= gain o * (1 + u64) * eps + (u64 * X + eta64)).
    { unfold e'. assert (u64 * Rabs (aop_R o x) <= u64 * X) by (apply Rmult_le_compat_l; lra). lra. }
    assert (gP ops * e' <= gP ops * (gain o * (1 + u64) * eps + (u64 * X + eta64)))
      by (apply Rmult_le_compat_l; lra).
    lra.
Qed.

(* ---------------------------------------------------------------- the temperature functions *)
Definition cA : num := num_of_bits (l_bits lit_273_15).
Definition c32 : num := num_of_bits (l_bits lit_32).
Definition c5 : num := num_of_bits (l_bits lit_5).
Definition c9 : num := num_of_bits (l_bits lit_9).

Definition tempfn_ops (f : tempfn) : list aop :=
  match f with
  | TF_celsius_to_kelvin => [OAdd cA]
  | TF_kelvin_to_celsius => [OSub cA]
  | TF_fahrenheit_to_kelvin => [OSub c32; OMul c5; ODiv c9; OAdd cA]
  | TF_kelvin_to_fahrenheit => [OSub cA; OMul c9; ODiv c5; OAdd c32]
  | TF_kelvin_to_kelvin => []
  end.

Lemma tempfn_apply_ops : forall f x, tempfn_apply fl f x = run_fl (tempfn_ops f) x.
Proof. intros [| | | |] x; reflexivity. Qed.

Lemma tempfn_ops_cst : forall f, forallb (fun o => cstb (aop_c o)) (tempfn_ops f) = true.
Proof. intros [| | | |]; vm_compute; reflexivity. Qed.

Lemma RV_c32 : RV c32 = 32.
Proof. unfold RV, c32. cbn. unfold F2R. cbn. lra. Qed.
Lemma RV_c5 : RV c5 = 5.
Proof. unfold RV, c5. cbn. unfold F2R. cbn. lra. Qed.
Lemma RV_c9 : RV c9 = 9.
Proof. unfold RV, c9. cbn. unfold F2R. cbn. lra. Qed.
Lemma RV_cA : 273 <= RV cA <= 274.
Proof. unfold RV, cA. cbn. unfold F2R. cbn. lra. Qed.

(* an inverse pair composes to the identity over the reals, both ways *)
Lemma inverse_pair_R : forall t f x, inverse_pair t f = true ->
  run_R (tempfn_ops f) (run_R (tempfn_ops t) x) = x /\ run_R (tempfn_ops t) (run_R (tempfn_ops f) x) = x.
Proof.
  intros t f x H.
  destruct t, f; try discriminate H; cbn [tempfn_ops run_R aop_R];
    rewrite ?RV_c32, ?RV_c5, ?RV_c9; split; field.
Qed.

(* A -> B -> A for two temperature units, as one chain *)
Definition there_back_ops (ta fa tb fb : tempfn) : list aop :=
  tempfn_ops ta ++ tempfn_ops fb ++ tempfn_ops tb ++ tempfn_ops fa.

Lemma there_back_is_chain : forall ua ub ta fa tb fb v,
  u_conv ua = Temperature ta fa -> u_conv ub = Temperature tb fb ->
  through_base fl (through_base fl v ua ub) ub ua = run_fl (there_back_ops ta fa tb fb) v.
Proof.
  intros ua ub ta fa tb fb v Ha Hb. unfold through_base, convert_from_base, convert_to_base, there_back_ops.
  rewrite Ha, Hb. rewrite !tempfn_apply_ops, !run_fl_app. reflexivity.
Qed.

Lemma there_back_exact : forall ta fa tb fb x,
  inverse_pair ta fa = true -> inverse_pair tb fb = true ->
  run_R (there_back_ops ta fa tb fb) x = x.
Proof.
  intros ta fa tb fb x Ha Hb. unfold there_back_ops. rewrite !run_R_app.
  destruct (inverse_pair_R tb fb (run_R (tempfn_ops ta) x) Hb) as [_ E]. rewrite E.
  now destruct (inverse_pair_R ta fa x Ha) as [E2 _].
Qed.

Lemma there_back_cst : forall ta fa tb fb,
  forallb (fun o => cstb (aop_c o)) (there_back_ops ta fa tb fb) = true.
Proof.
  intros. unfold there_back_ops. rewrite !forallb_app, !tempfn_ops_cst. reflexivity.
Qed.

(* THERE AND BACK, temperature kind: within err of v, provided no intermediate exceeds 2^1022 *)
Theorem there_and_back_float_temperature : forall ua ub ta fa tb fb v,
  u_conv ua = Temperature ta fa -> u_conv ub = Temperature tb fb ->
  inverse_pair ta fa = true -> inverse_pair tb fb = true ->
  fval v -> safe (there_back_ops ta fa tb fb) (RV v) 0 ->
  let r4 := through_base fl (through_base fl v ua ub) ub ua in
  fval r4 /\ Rabs (RV r4 - RV v) <= err (there_back_ops ta fa tb fb) (RV v) 0.
Proof.
  intros ua ub ta fa tb fb v Ha Hb Ia Ib Fv Hs r4. unfold r4.
  rewrite (there_back_is_chain ua ub ta fa tb fb v Ha Hb).
  destruct (chain_error (there_back_ops ta fa tb fb) v (RV v) 0 Fv (there_back_cst ta fa tb fb)
              (Rle_refl 0)) as [F E]; [|exact Hs|].
  - replace (RV v - RV v) with 0 by ring. rewrite Rabs_R0. lra.
  - rewrite (there_back_exact ta fa tb fb (RV v) Ia Ib) in E. split; assumption.
Qed.

