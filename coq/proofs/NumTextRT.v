(* proofs/NumTextRT.v — C16 round trips: every finite double reads back identically through
   source emission / formatter / function emission (print_num -> grammar -> literal conversion ->
   prefix negation), under the library contracts stated below; radix literal values. *)
From Coq Require Import ZArith Floats.SpecFloat Bool List String Ascii Lia.
Require Import Blots.Num Blots.Outcome Blots.gen.Builtins Blots.Ast Blots.NumText.
Require Import Blots.proofs.NumText Blots.proofs.NumTextStr Blots.proofs.NumTextFloat.
Import ListNotations.
Open Scope string_scope.
Open Scope Z_scope.

(* ---------------------------------------------------------------- library contracts (pointwise) *)
(* Rust Display for f64: optional '-', digits, optional '.digits', never an exponent; the text
   denotes x exactly enough to round back to x ("Display round-trips") *)
Definition display_contract (t : string) (x : num) : Prop :=
  exists ip fp, t = sign_str (nsign x) ++ plain ip fp /\
    all_digits ip = true /\ ip <> "" /\ all_digits fp = true /\
    rn_decimal (nsign x) (digits_val (ip ++ fp) 0) (0 - slen fp) = x.
(* format!("{:.0}", x) of an integral value: optional '-', then the exact integer in decimal *)
Definition prec0_contract (t : string) (x : num) : Prop :=
  exists ip, t = sign_str (nsign x) ++ ip /\ all_digits ip = true /\ ip <> "" /\
    digits_val ip 0 = int_abs x.
(* str::parse::<f64> is correctly rounded on plain decimal texts *)
Definition parse_contract (sp : string -> option num) : Prop :=
  forall ip fp, all_digits ip = true -> ip <> "" -> all_digits fp = true ->
    sp (plain ip fp) = ref_str_parse (plain ip fp).

Lemma digits_val_nonneg : forall d acc, all_digits d = true -> 0 <= acc -> 0 <= digits_val d acc.
Proof.
  induction d as [|c d IH]; intros acc H Ha; simpl in *; auto.
  apply andb_prop in H. destruct H as [Hc Hd]. apply IH; auto.
  unfold is_digit in Hc. cbv zeta in Hc. apply andb_prop in Hc. unfold digit_val. lia.
Qed.

(* ---------------------------------------------------------------- the parser on plain texts *)
Lemma parse_numexpr_no_paren : forall sp src k c r,
  count_neg src = (k, String c r) -> is_digit c = true ->
  parse_numexpr sp src = parse_numexpr_flat sp src.
Proof.
  intros sp src k c r H Hc. unfold parse_numexpr. rewrite H.
  ascii_cases c; try discriminate Hc; reflexivity.
Qed.
Lemma split_last_snoc : forall t c, split_last (t ++ String c "") = Some (t, c).
Proof.
  induction t as [|a t IH]; intros c; [reflexivity|].
  cbn [append split_last]. rewrite IH. destruct (t ++ String c "") eqn:E; [|reflexivity].
  destruct t; discriminate E.
Qed.
Lemma read_source_paren : forall sp t,
  parse_numexpr sp t = parse_numexpr_flat sp t ->
  read_source sp ("(" ++ t ++ ")") = read_source sp t.
Proof.
  intros sp t H. unfold read_source. rewrite H. unfold parse_numexpr.
  change (count_neg ("(" ++ t ++ ")")) with (O, String "(" (t ++ ")")). cbv beta iota.
  rewrite (split_last_snoc t ")"). cbv beta iota.
  destruct (parse_numexpr_flat sp t); reflexivity.
Qed.

Lemma read_source_plain : forall sp s ip fp,
  parse_contract sp -> all_digits ip = true -> ip <> "" -> all_digits fp = true ->
  read_source sp (sign_str s ++ plain ip fp)
  = Ok (rn_decimal s (digits_val (ip ++ fp) 0) (0 - slen fp)).
Proof.
  intros sp s ip fp Hsp Hi Hne Hf.
  assert (Hhd : exists c r, plain ip fp = String c r /\ is_digit c = true).
  { destruct ip as [|c ip']; [congruence|]. pose proof Hi as Hi'. simpl in Hi'. apply andb_prop in Hi'.
    exists c, (ip' ++ frac_text fp). split; [reflexivity | tauto]. }
  destruct Hhd as (c & r & Hpl & Hc).
  assert (Hcn : count_neg (sign_str s ++ plain ip fp) = ((if s then 1 else 0)%nat, plain ip fp)).
  { destruct s; cbn [sign_str append].
    - change (count_neg (String "-" (plain ip fp)))
        with (let '(n, t) := count_neg (plain ip fp) in (S n, t)).
      rewrite Hpl. now rewrite (count_neg_digit c r Hc).
    - rewrite Hpl. apply (count_neg_digit c r Hc). }
  unfold read_source.
  assert (Hcn' : count_neg (sign_str s ++ plain ip fp) = ((if s then 1 else 0)%nat, String c r))
    by (rewrite Hcn; now rewrite Hpl).
  rewrite (parse_numexpr_no_paren sp _ _ c r Hcn' Hc).
  unfold parse_numexpr_flat. rewrite Hcn. rewrite Hpl at 1. rewrite Hc. cbn [orb].
  rewrite (lex_number_plain ip fp Hi Hne Hf).
  rewrite (literal_value_plain sp ip fp Hi Hne Hf), (Hsp ip fp Hi Hne Hf).
  unfold ref_str_parse.
  change (plain ip fp) with (sign_str false ++ plain ip fp) at 1.
  rewrite (rust_float_syntax_plain false ip fp Hi Hne Hf). cbn [option_map fnum_value].
  assert (Hm : 0 <= digits_val (ip ++ fp) 0).
  { apply digits_val_nonneg; [|lia]. now rewrite all_digits_app, Hi, Hf. }
  rewrite (rn_decimal_sign s _ _ Hm).
  destruct s; reflexivity.
Qed.

(* ---------------------------------------------------------------- print_num -> parser *)
Section RoundTrip.
  Variable fmt_prec0 : num -> string.
  Variable display : num -> string.
  Variable str_parse : string -> option num.

  (* what print_num prints, under the two printing contracts: [-]ddd[.ddd] denoting x *)
  Lemma print_num_shape : forall x,
    valid_binary 53 1024 x = true -> is_finite x = true ->
    (nfract_is_zero x && nltb (nabs x) c1e15 = true -> prec0_contract (fmt_prec0 x) x) ->
    (nfract_is_zero x && nltb (nabs x) c1e15 = false -> display_contract (display x) x) ->
    display_contract (print_num fmt_prec0 display x) x.
  Proof.
    intros x Hv Hf Hp0 Hd. unfold print_num.
    destruct (nfract_is_zero x && nltb (nabs x) c1e15) eqn:Hb.
    - destruct (Hp0 eq_refl) as (ip & Ht & Hi & Hne & Hval).
      apply andb_prop in Hb. destruct Hb as [Hz _].
      exists ip, "". unfold plain, frac_text. cbn [is_empty]. rewrite !app_nil_r'.
      repeat split; auto. rewrite Hval. change (0 - slen "") with 0.
      apply rn_decimal_integral; auto.
    - exact (Hd eq_refl).
  Qed.

  Theorem source_reads_back : forall x,
    valid_binary 53 1024 x = true -> is_finite x = true ->
    parse_contract str_parse ->
    (nfract_is_zero x && nltb (nabs x) c1e15 = true -> prec0_contract (fmt_prec0 x) x) ->
    (nfract_is_zero x && nltb (nabs x) c1e15 = false -> display_contract (display x) x) ->
    read_source str_parse (print_num fmt_prec0 display x) = Ok x.
  Proof.
    intros x Hv Hf Hsp Hp0 Hd.
    destruct (print_num_shape x Hv Hf Hp0 Hd) as (ip & fp & Ht & Hi & Hne & Hfp & Hval).
    rewrite Ht, (read_source_plain str_parse (nsign x) ip fp Hsp Hi Hne Hfp). now f_equal.
  Qed.

  (* function-source emission (serializable_value_to_source): negative numbers are parenthesised *)
  Theorem emission_reads_back : forall x,
    valid_binary 53 1024 x = true -> is_finite x = true ->
    parse_contract str_parse ->
    (nfract_is_zero x && nltb (nabs x) c1e15 = true -> prec0_contract (fmt_prec0 x) x) ->
    (nfract_is_zero x && nltb (nabs x) c1e15 = false -> display_contract (display x) x) ->
    read_source str_parse (emit_num fmt_prec0 display x) = Ok x.
  Proof.
    intros x Hv Hf Hsp Hp0 Hd. unfold emit_num. cbv zeta.
    assert (Hn : is_nan x = false) by (destruct x; try discriminate Hf; reflexivity).
    rewrite Hn.
    destruct (nsign x) eqn:Hs; [|now apply source_reads_back].
    destruct (print_num_shape x Hv Hf Hp0 Hd) as (ip & fp & Ht & Hi & Hne & Hfp & Hval).
    rewrite read_source_paren; [now apply source_reads_back|].
    rewrite Ht, Hs. cbn [sign_str append].
    destruct ip as [|c ip']; [congruence|]. pose proof Hi as Hi'. simpl in Hi'. apply andb_prop in Hi'.
    apply (parse_numexpr_no_paren str_parse _ 1%nat c (ip' ++ frac_text fp)); [|tauto].
    change (count_neg (String "-" (plain (String c ip') fp)))
      with (let '(n, t) := count_neg (plain (String c ip') fp) in (S n, t)).
    unfold plain. change (String c ip' ++ frac_text fp) with (String c (ip' ++ frac_text fp)).
    now rewrite (count_neg_digit c _ (proj1 Hi')).
  Qed.

  (* the formatter prints a number exactly as expr_to_source does, at every width *)
  Theorem formatter_reads_back : forall x w,
    valid_binary 53 1024 x = true -> is_finite x = true ->
    parse_contract str_parse ->
    (nfract_is_zero x && nltb (nabs x) c1e15 = true -> prec0_contract (fmt_prec0 x) x) ->
    (nfract_is_zero x && nltb (nabs x) c1e15 = false -> display_contract (display x) x) ->
    read_source str_parse (format_num fmt_prec0 display x w) = Ok x.
  Proof. intros x w. unfold format_num. apply source_reads_back. Qed.
End RoundTrip.

(* ---------------------------------------------------------------- JSON *)
Section Json.
  Variable json_print : num -> string.
  Variable json_parse : string -> outcome num.
  Theorem json_reads_back : forall x,
    is_finite x = true ->
    json_parse (json_print x) = of_option (ref_str_parse (json_print x)) ->  (* input correctly rounded *)
    ref_str_parse (json_print x) = Some x ->                                  (* output text denotes x *)
    json_parse (json_out json_print x) = Ok x.
  Proof. intros x Hf Hp Hd. unfold json_out. rewrite Hf, Hp, Hd. reflexivity. Qed.
End Json.

(* ---------------------------------------------------------------- radix literals *)
Lemma radix_val_nonneg : forall radix s acc v,
  0 <= radix -> 0 <= acc -> radix_val radix s acc = Some v -> 0 <= v.
Proof.
  induction s as [|c s IH]; intros acc v Hr Ha H; simpl in H.
  - inversion H; subst; assumption.
  - destruct (radix_digit radix c) as [d|] eqn:E; [|discriminate].
    apply (IH (acc * radix + d) v Hr); auto.
    unfold radix_digit in E. cbv zeta in E.
    destruct (_ <? radix); [|discriminate]. inversion E; subst d. clear E.
    assert (0 <= (if is_digit c then acode c - 48
            else if (97 <=? acode c) && (acode c <=? 122) then acode c - 87
            else if (65 <=? acode c) && (acode c <=? 90) then acode c - 55 else 99)).
    { unfold is_digit. cbv zeta.
      destruct ((48 <=? acode c) && (acode c <=? 57)) eqn:E1; [apply andb_prop in E1; lia|].
      destruct ((97 <=? acode c) && (acode c <=? 122)) eqn:E2; [apply andb_prop in E2; lia|].
      destruct ((65 <=? acode c) && (acode c <=? 90)) eqn:E3; [apply andb_prop in E3; lia|]. lia. }
    nia.
Qed.

Lemma hexbit_not_sign : forall c, is_hex c = true ->
  forall r, match String c r with
            | String "-" r' => (true, r') | String "+" r' => (false, r') | _ => (false, String c r)
            end = (false, String c r).
Proof. intros c H r. ascii_cases c; try discriminate H; reflexivity. Qed.
Lemma bit_is_hex : forall c, is_bit c = true -> is_hex c = true.
Proof. intros c H. ascii_cases c; try discriminate H; reflexivity. Qed.

Lemma i64_from_str_radix_unsigned : forall radix c cl v,
  is_hex c = true -> 0 <= radix -> radix_val radix (String c cl) 0 = Some v ->
  i64_from_str_radix (String c cl) radix = if v <? 2 ^ 63 then Some v else None.
Proof.
  intros radix c cl v Hc Hr Hv. unfold i64_from_str_radix.
  rewrite (hexbit_not_sign c Hc cl). cbn [is_empty]. rewrite Hv.
  pose proof (radix_val_nonneg radix _ 0 v Hr (Z.le_refl 0) Hv) as Hn.
  unfold I64_MIN, I64_MAX.
  destruct (v <? 2 ^ 63) eqn:E.
  - apply Z.ltb_lt in E. replace (- 2 ^ 63 <=? v) with true by (symmetry; apply Z.leb_le; lia).
    replace (v <=? 2 ^ 63 - 1) with true by (symmetry; apply Z.leb_le; lia). reflexivity.
  - apply Z.ltb_ge in E. replace (v <=? 2 ^ 63 - 1) with false by (symmetry; apply Z.leb_gt; lia).
    now rewrite andb_false_r.
Qed.

(* 0x literals: `_` erased, value below 2^63 -> nearest double of the integer, otherwise rejected *)
Theorem hex_literal_value : forall sp body c cl v,
  remove_char "_" body = String c cl -> is_hex c = true ->
  radix_val 16 (String c cl) 0 = Some v ->
  literal_value sp ("0x" ++ body) = if v <? 2 ^ 63 then Some (num_of_Z v) else None.
Proof.
  intros sp body c cl v Hcl Hc Hv. unfold literal_value.
  change (starts_with "0b" ("0x" ++ body)) with false.
  change (starts_with "-0b" ("0x" ++ body)) with false.
  change (starts_with "+0b" ("0x" ++ body)) with false.
  change (starts_with "0x" ("0x" ++ body)) with true. cbn [orb].
  unfold radix_literal.
  change (strip_prefix ("-" ++ "0x") ("0x" ++ body)) with (@None string).
  change (strip_prefix ("+" ++ "0x") ("0x" ++ body)) with (@None string).
  change (drop 2 ("0x" ++ body)) with body. cbv beta iota.
  rewrite Hcl, (i64_from_str_radix_unsigned 16 c cl v Hc ltac:(lia) Hv).
  destruct (v <? 2 ^ 63); [|reflexivity].
  now rewrite (nmul_one_l _ (num_of_Z_valid v)).
Qed.

(* 0b literals *)
Theorem bin_literal_value : forall sp body c cl v,
  remove_char "_" body = String c cl -> is_bit c = true ->
  radix_val 2 (String c cl) 0 = Some v ->
  literal_value sp ("0b" ++ body) = if v <? 2 ^ 63 then Some (num_of_Z v) else None.
Proof.
  intros sp body c cl v Hcl Hc Hv. unfold literal_value.
  change (starts_with "0b" ("0b" ++ body)) with true. cbn [orb].
  unfold radix_literal.
  change (strip_prefix ("-" ++ "0b") ("0b" ++ body)) with (@None string).
  change (strip_prefix ("+" ++ "0b") ("0b" ++ body)) with (@None string).
  change (drop 2 ("0b" ++ body)) with body. cbv beta iota.
  rewrite Hcl, (i64_from_str_radix_unsigned 2 c cl v (bit_is_hex c Hc) ltac:(lia) Hv).
  destruct (v <? 2 ^ 63); [|reflexivity].
  now rewrite (nmul_one_l _ (num_of_Z_valid v)).
Qed.

(* decimal literals: `_` is erased and the rest is handed to str::parse::<f64> *)
Theorem decimal_literal_erasure : forall sp c r,
  is_digit c = true \/ c = "."%char ->
  (c = "0"%char -> match r with String c2 _ => c2 <> "b"%char /\ c2 <> "x"%char | EmptyString => True end) ->
  literal_value sp (String c r) = sp (remove_char "_" (String c r)).
Proof.
  intros sp c r Hc H0. unfold literal_value.
  assert (Hs : forall mk, starts_with (String "-" (String "0" (String mk ""))) (String c r) = false
                       /\ starts_with (String "+" (String "0" (String mk ""))) (String c r) = false).
  { intros mk. unfold starts_with. cbn [strip_prefix].
    destruct Hc as [Hc|Hc].
    - destruct (digit_facts c Hc) as (_&_&_&_&E1&E2&_). now rewrite E1, E2.
    - subst c. split; reflexivity. }
  assert (Hm : forall mk, (mk = "b" \/ mk = "x")%char ->
                starts_with (String "0" (String mk "")) (String c r) = false).
  { intros mk Hmk. unfold starts_with. cbn [strip_prefix].
    destruct (Ascii.eqb "0" c) eqn:E; [|reflexivity].
    apply Ascii.eqb_eq in E. symmetry in E. specialize (H0 E).
    destruct r as [|c2 r2]; [reflexivity|]. destruct H0 as [Hb Hx].
    destruct (Ascii.eqb mk c2) eqn:E2; [|reflexivity].
    apply Ascii.eqb_eq in E2. destruct Hmk; subst; congruence. }
  change "0b" with (String "0" (String "b" "")). change "0x" with (String "0" (String "x" "")).
  change "-0b" with (String "-" (String "0" (String "b" ""))).
  change "+0b" with (String "+" (String "0" (String "b" ""))).
  change "-0x" with (String "-" (String "0" (String "x" ""))).
  change "+0x" with (String "+" (String "0" (String "x" ""))).
  rewrite (Hm "b"%char (or_introl eq_refl)), (Hm "x"%char (or_intror eq_refl)).
  rewrite (proj1 (Hs "b"%char)), (proj2 (Hs "b"%char)), (proj1 (Hs "x"%char)), (proj2 (Hs "x"%char)).
  reflexivity.
Qed.

(* decimal / scientific / leading-dot literals denote the obvious rational, correctly rounded:
   if the token, with `_` erased, is  ip[.fp][e|E[+|-]ed]  (or .fp[...]) and str::parse::<f64> is
   correctly rounded on that text, the literal is RNE of  (ip fp as an integer) * 10^(exp - |fp|) *)
Theorem decimal_literal_value : forall sp c r ip fp ex,
  is_digit c = true \/ c = "."%char ->
  (c = "0"%char -> match r with String c2 _ => c2 <> "b"%char /\ c2 <> "x"%char | EmptyString => True end) ->
  remove_char "_" (String c r) = dec_text ip fp ex ->
  all_digits ip = true -> all_digits fp = true -> (ip <> "" \/ fp <> "") -> exp_ok ex ->
  sp (dec_text ip fp ex) = ref_str_parse (dec_text ip fp ex) ->
  literal_value sp (String c r)
  = Some (rn_decimal false (digits_val (ip ++ fp) 0) (exp_val ex - slen fp)).
Proof.
  intros sp c r ip fp ex Hc H0 Hcl Hi Hf Hne Hex Hsp.
  rewrite (decimal_literal_erasure sp c r Hc H0), Hcl, Hsp.
  unfold ref_str_parse. now rewrite (rust_float_syntax_dec_text ip fp ex Hi Hf Hne Hex).
Qed.

(* ---------------------------------------------------------------- to_string -> to_number, from the
   same Display contract (here str::parse sees the sign itself) *)
Definition parse_contract_signed (sp : string -> option num) : Prop :=
  forall s ip fp, all_digits ip = true -> ip <> "" -> all_digits fp = true ->
    sp (sign_str s ++ plain ip fp) = ref_str_parse (sign_str s ++ plain ip fp).

Theorem to_string_to_number_contract : forall (display : num -> string) sp x,
  parse_contract_signed sp -> display_contract (display x) x ->
  to_number_str sp (to_string_num display x) = Ok x.
Proof.
  intros display sp x Hsp (ip & fp & Ht & Hi & Hne & Hf & Hval).
  unfold to_number_str, to_string_num. rewrite Ht, (Hsp _ ip fp Hi Hne Hf).
  unfold ref_str_parse. rewrite (rust_float_syntax_plain _ ip fp Hi Hne Hf).
  cbn [option_map fnum_value of_option]. now rewrite Hval.
Qed.
