(* DisplayNumAccAll.v — C20: the accuracy clause as ONE theorem over every valid finite non-zero
   double (code as it is, fx = true), relative to explicit specifications of the library calls:
   it combines display_integers_exact (error 0), display_scientific_accurate (rational
   statement, converted to reals here) and display_standard_accurate'. *)
From Coq Require Import ZArith Reals Bool String Ascii List Lia Lra QArith Qreals Qabs Qpower Floats.SpecFloat.
From Flocq Require Import Core.Core IEEE754.BinarySingleNaN.
Require Import Blots.Num Blots.Outcome Blots.DisplayNum.
Require Import Blots.proofs.DisplayNumGroup Blots.proofs.DisplayNumSpec Blots.proofs.DisplayNumText
               Blots.proofs.DisplayNumInt Blots.proofs.DisplayNum Blots.proofs.DisplayNumAcc
               Blots.proofs.DisplayNumFloat Blots.proofs.DisplayNumFinite Blots.proofs.DisplayNumAccStd.
Import ListNotations.
Open Scope R_scope.

(* ---------- rationals to reals ---------- *)
Lemma Q2R_0 : Q2R 0 = 0.
Proof. unfold Q2R. cbn. lra. Qed.

Lemma Q2R_inject_Z : forall z, Q2R (inject_Z z) = IZR z.
Proof. intros. unfold Q2R, inject_Z. cbn [Qnum Qden]. rewrite Rinv_1. ring. Qed.

Lemma Q2R_Qabs : forall q, Q2R (Qabs q) = Rabs (Q2R q).
Proof.
  intros q. destruct (Qlt_le_dec q 0) as [N|P].
  - rewrite (Qeq_eqR _ _ (Qabs_neg q (Qlt_le_weak _ _ N))), Q2R_opp. symmetry. apply Rabs_left.
    rewrite <- Q2R_0. now apply Qlt_Rlt.
  - rewrite (Qeq_eqR _ _ (Qabs_pos q P)). symmetry. apply Rabs_pos_eq.
    rewrite <- Q2R_0. now apply Qle_Rle.
Qed.

Lemma Q2R_pow_nonneg : forall (r : radix) k, (0 <= k)%Z ->
  Q2R (Qpower (inject_Z (radix_val r)) k) = bpow r k.
Proof.
  intros r k Hk. rewrite <- (Qeq_eqR _ _ (Zpower_Qpower (radix_val r) k Hk)).
  rewrite Q2R_inject_Z. apply (IZR_Zpower r k Hk).
Qed.

Lemma Q2R_pow_neg : forall (r : radix) p, (0 <= p)%Z ->
  Q2R (Qpower (inject_Z (radix_val r)) (- p)) = bpow r (- p).
Proof.
  intros r p Hp.
  rewrite (Qeq_eqR _ _ (Qpower_opp (inject_Z (radix_val r)) p)).
  rewrite Q2R_inv.
  - rewrite Q2R_pow_nonneg by exact Hp. now rewrite bpow_opp.
  - intros E. apply Qeq_eqR in E. rewrite Q2R_pow_nonneg, Q2R_0 in E by exact Hp.
    pose proof (bpow_gt_0 r p). lra.
Qed.

Lemma Q2R_pow : forall (r : radix) k, Q2R (Qpower (inject_Z (radix_val r)) k) = bpow r k.
Proof.
  intros r k. destruct (Z_le_gt_dec 0 k) as [P|N]; [apply Q2R_pow_nonneg; exact P|].
  replace k with (- (- k))%Z by lia. apply Q2R_pow_neg. lia.
Qed.

Lemma Q2R_p10 : forall k, Q2R (Qpower (10 # 1) k) = p10 k.
Proof. intros. apply (Q2R_pow radix10). Qed.
Lemma Q2R_p2 : forall k, Q2R (Qpower (2 # 1) k) = bpow radix2 k.
Proof. intros. apply (Q2R_pow radix2). Qed.

Lemma Q2R_num : forall x, Q2R (num_to_Q x) = RV x.
Proof.
  intros [s|s| |s m e]; unfold num_to_Q, RV; cbn [SF2R]; try apply Q2R_0.
  rewrite Q2R_mult, Q2R_inject_Z, Q2R_p2. reflexivity.
Qed.

Lemma in_decade_of_R : forall x K, p10 K <= Rabs (RV x) < p10 (K + 1) -> in_decade x K.
Proof.
  intros x K [L U]. split.
  - apply Rle_Qle. now rewrite Q2R_p10, Q2R_Qabs, Q2R_num.
  - apply Rlt_Qlt. now rewrite Q2R_p10, Q2R_Qabs, Q2R_num.
Qed.

Section All.
  Variable log10 : num -> num.
  Variable powi : num -> Z -> num.
  Variable fmt_prec : num -> Z -> text.
  Variable fmt_exp14 : num -> text.
  Variable parse_f64 : text -> option num.
  Notation est a := (as_i32 (nfloor (log10 a))).

  (* library specifications: scientific path (rational form) *)
  Hypothesis HE : forall x k, Num.is_finite x = true -> in_decade x k ->
    exists ms es kk, split_once "e"%char (fmt_exp14 x) = Some (ms, es) /\ mant14_shape ms = true /\
      parse_i32 es = Some kk /\
      (Qabs (denote_plain ms * Qpower (10 # 1) kk - num_to_Q x) <= (1 # 2) * Qpower (10 # 1) (k - 14)%Z)%Q.
  Hypothesis HP : forall s, mant14_shape s = true ->
    exists m, parse_f64 s = Some m /\ Num.is_finite m = true /\
      (Qabs (num_to_Q m - denote_plain s) <= 2 # 1000000000000000)%Q.
  (* library specifications: standard path (real form) *)
  Hypothesis HL : forall a K, valid a -> Num.is_finite a = true ->
    p10 K <= RV a < p10 (K + 1) -> (K <= est a <= K + 1)%Z.
  Hypothesis HW0 : forall j, (0 <= j <= 22)%Z ->
    valid (powi c_ten j) /\ (exists s m e, powi c_ten j = S754_finite s m e) /\ RV (powi c_ten j) = p10 j.
  Hypothesis HWn : forall j, (-4 <= j <= -1)%Z ->
    valid (powi c_ten j) /\ (exists s m e, powi c_ten j = S754_finite s m e) /\
    RV (powi c_ten j) = rnd64 (p10 j) /\ p10 j <= RV (powi c_ten j).
  (* {:.N$}: documented shape; nearest multiple of 10^-N for N <= 18 *)
  Hypothesis Hprec : forall x n, Num.is_finite x = true -> (0 <= n)%Z -> prec_shape n (fmt_prec x n) = true.
  Hypothesis HF : forall m dp, Num.is_finite m = true -> (0 <= dp <= 18)%Z ->
    Rabs (Q2R (denote_plain (fmt_prec m dp)) - RV m) <= / 2 * p10 (- dp).

  Lemma HF_Q : forall m, Num.is_finite m = true ->
    prec_shape 14 (fmt_prec m 14) = true /\
    (Qabs (denote_plain (fmt_prec m 14) - num_to_Q m) <= 1 # 200000000000000)%Q.
  Proof.
    intros m Fm. split; [apply Hprec; [exact Fm|lia]|].
    apply Rle_Qle. rewrite Q2R_Qabs, Q2R_minus, Q2R_num.
    eapply Rle_trans; [apply (HF m 14 Fm); lia|].
    unfold Q2R. cbn [Qnum Qden]. change (p10 (- (14))) with (/ 100000000000000). lra.
  Qed.

  Theorem display_accurate : forall x K t,
    valid x -> Num.is_finite x = true -> neqb x nzero = false ->
    p10 K <= Rabs (RV x) < p10 (K + 1) ->
    format_display_number log10 powi fmt_prec fmt_exp14 parse_f64 true x = Ok t ->
    Rabs (Q2R (denote t) - RV x) < p10 (K - 14).
  Proof.
    intros x K t Vx Fx Hz HA Ht.
    destruct (scientific_range (nabs x)) eqn:Hs.
    - (* scientific notation *)
      destruct (display_scientific_accurate log10 powi fmt_prec fmt_exp14 parse_f64 true HE HP HF_Q
                  x K Fx Hz Hs (in_decade_of_R x K HA)) as (t' & Et & _ & Lt).
      rewrite Ht in Et. injection Et as <-.
      apply Qlt_Rlt in Lt. now rewrite Q2R_Qabs, Q2R_minus, Q2R_num, Q2R_p10 in Lt.
    - destruct (nfract_is_zero x) eqn:Hi.
      + (* integer: exact *)
        destruct x as [s|s| |s m e]; try discriminate Fx; try discriminate Hz.
        destruct (display_integers_exact log10 powi fmt_prec fmt_exp14 parse_f64 true s m e Vx Hs Hi)
          as (t' & Et & _ & V).
        rewrite Ht in Et. injection Et as <-.
        apply Qeq_eqR in V. rewrite V, Q2R_num.
        replace (RV (S754_finite s m e) - RV (S754_finite s m e)) with 0 by ring.
        rewrite Rabs_R0. apply p10_pos.
      + (* standard notation, non-integer *)
        assert (Hp : std_nonint_path x = true).
        { unfold std_nonint_path. rewrite Fx, Hz, Hs, Hi. reflexivity. }
        now destruct (display_standard_accurate' log10 powi fmt_prec fmt_exp14 parse_f64
                        HL HW0 HWn Hprec HF x K t Vx Hp HA Ht).
  Qed.
End All.
