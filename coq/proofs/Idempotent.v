(* Idempotent.v — C08: blank-line spacing between statements is stable under re-formatting. *)
From Coq Require Import String Ascii List ZArith Bool Lia.
Require Import Blots.Num Blots.gen.Builtins Blots.Ast Blots.Formatter.
Import ListNotations.
Open Scope Z_scope.

(* join_statements_with_spacing emits between 1 and 3 newlines *)
Lemma gap_newlines_range : forall e s, 1 <= gap_newlines e s <= 3.
Proof. intros; unfold gap_newlines, line_gap, sat_sub; lia. Qed.

(* = one more than the number of blank lines, capped at two blank lines *)
Lemma gap_newlines_spec : forall e s, gap_newlines e s = Z.min (Z.max 0 (s - e - 1)) 2 + 1.
Proof. intros; unfold gap_newlines, line_gap, sat_sub; lia. Qed.

(* re-reading the emitted newlines: a statement ending on line e' followed by n newlines puts
   the next statement on line e' + n; the gap read back is the clamped gap, and the newlines
   emitted for it are the same n *)
Lemma reread_gap : forall e s e',
  line_gap e' (e' + gap_newlines e s) = Z.min (line_gap e s) 2.
Proof. intros; unfold gap_newlines, line_gap, sat_sub; lia. Qed.

Lemma reread_newlines : forall e s e',
  gap_newlines e' (e' + gap_newlines e s) = gap_newlines e s.
Proof. intros; unfold gap_newlines, line_gap, sat_sub; lia. Qed.

(* the clamp is idempotent *)
Definition clamp_gap (g : Z) : Z := Z.min (Z.max 0 g) 2.
Lemma clamp_gap_idem : forall g, clamp_gap (clamp_gap g) = clamp_gap g.
Proof. intros; unfold clamp_gap; lia. Qed.

(* spacing_idempotent: with the positions the statements have in the emitted text,
   join_statements_with_spacing emits the same text again *)
Theorem spacing_idempotent : forall l start, join_spacing (relayout start l) = join_spacing l.
Proof.
  induction l as [|[[d s] e] rest IH]; intros start; [reflexivity|].
  destruct rest as [|[[d2 s2] e2] rest'].
  - reflexivity.
  - change (relayout start ((d, s, e) :: (d2, s2, e2) :: rest'))
      with ((d, start, start + doc_height d) ::
            relayout (start + doc_height d + gap_newlines e s2) ((d2, s2, e2) :: rest')).
    remember (start + doc_height d + gap_newlines e s2) as st2.
    specialize (IH st2).
    change (relayout st2 ((d2, s2, e2) :: rest')) with
      ((d2, st2, st2 + doc_height d2) ::
       match rest' with [] => [] | (_, s', _) :: _ => relayout (st2 + doc_height d2 + gap_newlines e2 s') rest' end) in *.
    cbn [join_spacing] in *. rewrite IH. subst st2.
    rewrite reread_newlines. reflexivity.
Qed.

(* relayout is a fixed point: laying out the re-laid-out program changes no position *)
Theorem relayout_idem : forall l start, relayout start (relayout start l) = relayout start l.
Proof.
  induction l as [|[[d s] e] rest IH]; intros start; [reflexivity|].
  destruct rest as [|[[d2 s2] e2] rest'].
  - reflexivity.
  - change (relayout start ((d, s, e) :: (d2, s2, e2) :: rest'))
      with ((d, start, start + doc_height d) ::
            relayout (start + doc_height d + gap_newlines e s2) ((d2, s2, e2) :: rest')).
    remember (start + doc_height d + gap_newlines e s2) as st2.
    specialize (IH st2).
    change (relayout st2 ((d2, s2, e2) :: rest')) with
      ((d2, st2, st2 + doc_height d2) ::
       match rest' with [] => [] | (_, s', _) :: _ => relayout (st2 + doc_height d2 + gap_newlines e2 s') rest' end) in *.
    cbn [relayout]. f_equal.
    replace (start + doc_height d + gap_newlines (start + doc_height d) st2) with st2.
    + exact IH.
    + subst st2. rewrite reread_newlines. reflexivity.
Qed.

(* ------------------------------------------------------------------ comment re-attachment *)
Open Scope list_scope.
Open Scope nat_scope.

Lemma split_nl_nonempty : forall t, split_nl t <> [].
Proof.
  induction t as [|c r IH]; cbn; [discriminate|].
  destruct (Ascii.eqb c NLc); [discriminate|]. destruct (split_nl r); discriminate.
Qed.

Lemma append_nil_r' : forall a, a +++ EmptyString = a.
Proof. induction a; cbn; [reflexivity|now rewrite IHa]. Qed.

(* lines().join("\n") of split('\n') is the identity *)
Lemma sjoin_split_nl : forall t, sjoin nl (split_nl t) = t.
Proof.
  induction t as [|c r IH]; [reflexivity|].
  cbn [split_nl]. destruct (Ascii.eqb c NLc) eqn:E.
  - apply Ascii.eqb_eq in E; subst c.
    pose proof (split_nl_nonempty r) as NE.
    destruct (split_nl r) as [|x t] eqn:S; [contradiction|].
    change (sjoin nl (EmptyString :: x :: t)) with (EmptyString +++ nl +++ sjoin nl (x :: t)).
    rewrite IH. reflexivity.
  - pose proof (split_nl_nonempty r) as NE.
    destruct (split_nl r) as [|x t] eqn:S; [contradiction|].
    assert (J : forall x t, sjoin nl (String c x :: t) = String c (sjoin nl (x :: t)))
      by (intros; destruct t0; reflexivity).
    rewrite J, IH. reflexivity.
Qed.

Section Reattach.
  Context {A : Type}.
  Notation lp := (lpair A).

  Lemma attach_loop_app : forall (p1 p2 : list lp) pend els,
    attach_loop (p1 ++ p2) pend els =
    let (e1, pe1) := attach_loop p1 pend els in attach_loop p2 pe1 e1.
  Proof.
    induction p1 as [|[c|x eol] r IH]; intros; cbn [app attach_loop]; [reflexivity| |]; apply IH.
  Qed.

  Lemma attach_loop_comments : forall cs pend (els : list (commented A)),
    attach_loop (map PComment cs) pend els = (els, pend ++ cs).
  Proof.
    induction cs as [|c r IH]; intros; cbn [map attach_loop]; [now rewrite app_nil_r|].
    rewrite IH. now rewrite <- app_assoc.
  Qed.

  Lemma attach_loop_item : forall lead (x : A) tr pend els,
    attach_loop (map PComment lead ++ [PItem x None] ++ map PComment (trailing_comments tr)) pend els
    = (els ++ [Cm (pend ++ lead) x None], trailing_comments tr).
  Proof.
    intros. rewrite attach_loop_app, attach_loop_comments. cbn [app attach_loop].
    now rewrite attach_loop_comments.
  Qed.

  Lemma attach_after_last_snoc : forall els l (x : A) tr,
    attach_after_last (els ++ [Cm l x None]) (trailing_comments tr) = els ++ [Cm l x tr].
  Proof.
    intros els l x [t|]; cbn [trailing_comments]; [|reflexivity].
    unfold attach_after_last. pose proof (split_nl_nonempty t) as NE.
    destruct (split_nl t) as [|a b] eqn:S; [contradiction|]. rewrite <- S.
    rewrite rev_app_distr. cbn [rev app]. rewrite rev_involutive, sjoin_split_nl. reflexivity.
  Qed.

  (* reparse normal form, lists and records: parsing the formatter's layout of items whose
     comments are where the parser puts them (only the last item has a trailing comment)
     attaches every comment to the same item in the same role *)
  Lemma reattach_gen : forall (items : list (commented A)) els,
    items <> [] -> only_last_trailing items = true ->
    (let (e, p) := attach_loop (layout_pairs items) [] els in attach_after_last e p) = els ++ items.
  Proof.
    induction items as [|[lead x tr] r IH]; intros els NE H; [contradiction|].
    destruct r as [|c2 r'].
    - unfold layout_pairs. cbn [flat_map cleading cnode ctrailing]. rewrite app_nil_r.
      rewrite attach_loop_item. cbn [app]. apply attach_after_last_snoc.
    - cbn [only_last_trailing] in H. destruct tr as [t|]; [discriminate|].
      change (layout_pairs (Cm lead x None :: c2 :: r'))
        with ((map PComment lead ++ [PItem x None] ++ map PComment (trailing_comments None)) ++
              layout_pairs (c2 :: r')).
      rewrite attach_loop_app, attach_loop_item. cbn [trailing_comments app].
      specialize (IH (els ++ [Cm lead x None])). rewrite IH; [|discriminate|exact H].
      now rewrite <- app_assoc.
  Qed.

  Theorem list_reattach_fixed_point : forall items : list (commented A),
    only_last_trailing items = true -> attach (layout_pairs items) = items.
  Proof.
    intros items H. destruct items as [|c r]; [reflexivity|].
    unfold attach. apply (reattach_gen (c :: r) []); [discriminate|exact H].
  Qed.

  (* ... and whatever the parser attaches has that shape, given the grammar's constraint that
     an eol_comment can only follow the last item *)
  Definition all_none (l : list (commented A)) : Prop := Forall (fun c => ctrailing c = None) l.

  Lemma olt_cons : forall a (x : A) t c0 l,
    only_last_trailing (Cm a x t :: c0 :: l) =
    match t with None => only_last_trailing (c0 :: l) | Some _ => false end.
  Proof. reflexivity. Qed.

  Lemma only_last_trailing_snoc : forall l (c : commented A), all_none l -> only_last_trailing (l ++ [c]) = true.
  Proof.
    induction l as [|[a x t] r IH]; intros c H; [destruct c; reflexivity|].
    inversion H as [|? ? Ht Hr]; subst. cbn in Ht; subst t.
    cbn [app]. destruct (r ++ [c]) eqn:E; [destruct r; discriminate|].
    rewrite olt_cons, <- E. now apply IH.
  Qed.

  Lemma only_last_trailing_all_none : forall l : list (commented A), all_none l -> only_last_trailing l = true.
  Proof.
    induction l as [|[a x t] r IH]; intros H; [reflexivity|].
    inversion H as [|? ? Ht Hr]; subst. cbn in Ht; subst t.
    destruct r; [reflexivity|]. rewrite olt_cons. now apply IH.
  Qed.

  Lemma attach_loop_shape : forall (pairs : list lp) pend els,
    all_none els -> eol_only_last pairs = true ->
    only_last_trailing (fst (attach_loop pairs pend els)) = true.
  Proof.
    induction pairs as [|[c|x [eol|]] r IH]; intros pend els Hn H; cbn [attach_loop fst].
    - now apply only_last_trailing_all_none.
    - apply IH; [exact Hn|exact H].
    - cbn [eol_only_last] in H.
      assert (R : exists cs, r = map PComment cs).
      { clear -H. induction r as [|[c|y e] r' IHr]; [now exists []| |discriminate].
        cbn in H. destruct (IHr H) as [cs ->]. now exists (c :: cs). }
      destruct R as [cs ->]. rewrite attach_loop_comments. cbn [fst].
      now apply only_last_trailing_snoc.
    - apply IH; [|exact H]. unfold all_none. rewrite Forall_app. split; [exact Hn|]. now repeat constructor.
  Qed.

  Lemma olt_change_last : forall before l (x : A) tr tr',
    only_last_trailing (before ++ [Cm l x tr]) = true ->
    only_last_trailing (before ++ [Cm l x tr']) = true.
  Proof.
    induction before as [|[a y t] r IH]; intros l x tr tr' H; [reflexivity|].
    cbn [app] in *. destruct (r ++ [Cm l x tr]) eqn:E1; [destruct r; discriminate|].
    destruct (r ++ [Cm l x tr']) eqn:E2; [destruct r; discriminate|].
    rewrite olt_cons in H. rewrite olt_cons. destruct t; [discriminate|].
    rewrite <- E2. apply (IH l x tr tr'). rewrite E1. exact H.
  Qed.

  Theorem attach_shape : forall pairs : list lp,
    eol_only_last pairs = true -> only_last_trailing (attach pairs) = true.
  Proof.
    intros pairs H. unfold attach.
    pose proof (attach_loop_shape pairs [] [] (Forall_nil _) H) as S.
    destruct (attach_loop pairs [] []) as [els pend]. cbn [fst] in S.
    unfold attach_after_last. destruct pend as [|p ps]; [exact S|].
    destruct (rev els) as [|[l x tr] before] eqn:E; [exact S|].
    assert (Els : els = rev before ++ [Cm l x tr]).
    { rewrite <- (rev_involutive els), E. reflexivity. }
    subst els.
    (* only the last element's trailing changes *)
    eapply olt_change_last. exact S.
  Qed.

  (* one formatting pass reaches the fixed point of comment placement: parse, format, parse
     again gives the first parse's attachment *)
  Corollary reattach_after_one_pass : forall pairs : list lp,
    eol_only_last pairs = true -> attach (layout_pairs (attach pairs)) = attach pairs.
  Proof. intros. apply list_reattach_fixed_point. now apply attach_shape. Qed.

  (* do-blocks *)
  Notation dp := (dpair A).
  Lemma attach_do_loop_app : forall (p1 p2 : list dp) pend els,
    attach_do_loop (p1 ++ p2) pend els =
    let (e1, pe1) := attach_do_loop p1 pend els in attach_do_loop p2 pe1 e1.
  Proof.
    induction p1 as [|[c|x tr] r IH]; intros; cbn [app attach_do_loop]; [reflexivity| |]; apply IH.
  Qed.
  Lemma attach_do_loop_comments : forall cs pend (els : list (commented A)),
    attach_do_loop (map DComment cs) pend els = (els, pend ++ cs).
  Proof.
    induction cs as [|c r IH]; intros; cbn [map attach_do_loop]; [now rewrite app_nil_r|].
    rewrite IH. now rewrite <- app_assoc.
  Qed.

  Lemma attach_do_loop_stmts : forall (stmts : list (commented A)) els,
    attach_do_loop (flat_map (fun c => map DComment (cleading c) ++ [DStmt (cnode c) (ctrailing c)]) stmts) [] els
    = (els ++ stmts, []).
  Proof.
    induction stmts as [|[lead x tr] r IH]; intros els; cbn [flat_map]; [now rewrite app_nil_r|].
    cbn [cleading cnode ctrailing]. rewrite attach_do_loop_app, attach_do_loop_app, attach_do_loop_comments.
    cbn [attach_do_loop app]. rewrite IH. now rewrite <- app_assoc.
  Qed.

  (* reparse normal form, do-blocks: statements keep their leading and same-line comments, the
     return expression keeps its leading comments *)
  Theorem do_reattach_fixed_point : forall (stmts : list (commented A)) ret,
    ctrailing ret = None ->
    attach_do (do_layout_pairs stmts ret) (cnode ret) = (stmts, ret).
  Proof.
    intros stmts [rl rx rt] H. cbn in H; subst rt.
    unfold attach_do, do_layout_pairs. cbn [cleading cnode].
    rewrite attach_do_loop_app, attach_do_loop_stmts, attach_do_loop_comments. reflexivity.
  Qed.
End Reattach.

(* ------------------------------------------------------------------ the drivers, second pass *)
Definition stmt_content (s : stmt) : stmt_kind * option string := match s with St k eol _ _ => (k, eol) end.
Definition stmt_pos (s : stmt) : Z * Z := match s with St _ _ a b => (a, b) end.
Definition triple_pos (x : doc * Z * Z) : Z * Z := (snd (fst x), snd x).
Definition triple_doc (x : doc * Z * Z) : doc := fst (fst x).

Lemma relayout_docs : forall l start, map triple_doc (relayout start l) = map triple_doc l.
Proof.
  induction l as [|[[d s] e] rest IH]; intros start; [reflexivity|].
  destruct rest as [|[[d2 s2] e2] rest']; [reflexivity|].
  change (relayout start ((d, s, e) :: (d2, s2, e2) :: rest'))
    with ((d, start, (start + doc_height d)%Z) ::
          relayout (start + doc_height d + gap_newlines e s2)%Z ((d2, s2, e2) :: rest')).
  cbn [map]. now rewrite IH.
Qed.

Lemma triples_eq : forall l1 l2 : list (doc * Z * Z),
  map triple_doc l1 = map triple_doc l2 -> map triple_pos l1 = map triple_pos l2 -> l1 = l2.
Proof.
  induction l1 as [|[[d s] e] r IH]; intros [|[[d' s'] e'] r'] Hd Hp; try discriminate; [reflexivity|].
  cbn in Hd, Hp. injection Hd as -> Hd. injection Hp as -> -> Hp. f_equal. now apply IH.
Qed.

Section Second.
  Variable O : oracles.

  Lemma lib_stmt_doc_content : forall mw first s t, stmt_content s = stmt_content t ->
    triple_doc (lib_stmt O mw first s) = triple_doc (lib_stmt O mw first t).
  Proof. intros mw first [k eol a b] [k' eol' a' b'] H. cbn in H. injection H as -> ->. reflexivity. Qed.
  Lemma lib_stmt_pos : forall mw first s, triple_pos (lib_stmt O mw first s) = stmt_pos s.
  Proof. intros mw first [k eol a b]. reflexivity. Qed.

  Lemma map_lib_docs : forall mw first p q, map stmt_content q = map stmt_content p ->
    map triple_doc (map (lib_stmt O mw first) q) = map triple_doc (map (lib_stmt O mw first) p).
  Proof.
    intros mw first p. induction p as [|t r' IH]; intros [|s r] Hc; try discriminate; [reflexivity|].
    cbn [map] in *. injection Hc as Hs Hr. f_equal; [now apply lib_stmt_doc_content|now apply IH].
  Qed.

  (* If the first output re-parses to statements q with the same content as p (same
     expressions with the same comment attachment, same end-of-line comments) at the positions
     the text gives them, the second pass of the library driver prints the same text. *)
  Theorem lib_driver_second_pass : forall mw p q,
    map stmt_content q = map stmt_content p ->
    map stmt_pos q = map triple_pos (relayout 1 (map_first (lib_stmt O mw) p)) ->
    format_lib O mw q = format_lib O mw p.
  Proof.
    intros mw p q Hc Hp.
    assert (E : map_first (lib_stmt O mw) q = relayout 1 (map_first (lib_stmt O mw) p)).
    { apply triples_eq.
      - rewrite relayout_docs. destruct p as [|t r']; destruct q as [|s r]; try discriminate; [reflexivity|].
        cbn [map_first map] in *. injection Hc as Hs Hr.
        f_equal; [now apply lib_stmt_doc_content|now apply map_lib_docs].
      - rewrite <- Hp. destruct q as [|s r]; [reflexivity|].
        cbn [map_first map]. rewrite lib_stmt_pos. f_equal.
        rewrite map_map. apply map_ext. intros x. apply lib_stmt_pos. }
    unfold format_lib.
    destruct p as [|t r']; destruct q as [|s r]; try discriminate; [reflexivity|].
    rewrite E, spacing_idempotent. reflexivity.
  Qed.

  (* the CLI driver does not look at positions *)
  Theorem cli_driver_second_pass : forall p q,
    map stmt_content q = map stmt_content p -> format_cli O q = format_cli O p.
  Proof.
    assert (S : forall first s t, stmt_content s = stmt_content t -> cli_stmt O first s = cli_stmt O first t).
    { intros first [k eol a b] [k' eol' a' b'] H. cbn in H. injection H as -> ->. reflexivity. }
    assert (M : forall first p q, map stmt_content q = map stmt_content p ->
                map (cli_stmt O first) q = map (cli_stmt O first) p).
    { intros first p. induction p as [|t r' IH]; intros [|s r] Hc; try discriminate; [reflexivity|].
      cbn [map] in *. injection Hc as Hs Hr. f_equal; [now apply S|now apply IH]. }
    unfold format_cli. intros [|t r'] [|s r] Hc; try discriminate; [reflexivity|].
    cbn [map_first map] in *. injection Hc as Hs Hr. now rewrite (S true s t Hs), (M false r' r Hr).
  Qed.
End Second.
