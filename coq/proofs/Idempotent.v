(* Idempotent.v — C08: blank-line spacing between statements is stable under re-formatting. *)
From Coq Require Import String Ascii List ZArith Bool Lia.
Require Import Blots.Num Blots.gen.Builtins Blots.Ast Blots.Formatter.
Import ListNotations.
Open Scope Z_scope.

(* join_statements_with_spacing emits between 1 and 3 newlines *)
Lemma gap_newlines_range : forall e s, 1 <= gap_newlines e s <= 3.
Proof. intros; unfold gap_newlines, line_gap, sat_sub; lia. Qed.

(* = one more than the number of blank lines, capped at two blank lines *)
Lemma gap_newlines_spec : forall e s, gap_newlines e s = Z.min (Z.max 0 (s - e - 1)) 2 + 1.
Proof. intros; unfold gap_newlines, line_gap, sat_sub; lia. Qed.

(* re-reading the emitted newlines: a statement ending on line e' followed by n newlines puts
   the next statement on line e' + n; the gap read back is the clamped gap, and the newlines
   emitted for it are the same n *)
Lemma reread_gap : forall e s e',
  line_gap e' (e' + gap_newlines e s) = Z.min (line_gap e s) 2.
Proof. intros; unfold gap_newlines, line_gap, sat_sub; lia. Qed.

Lemma reread_newlines : forall e s e',
  gap_newlines e' (e' + gap_newlines e s) = gap_newlines e s.
Proof. intros; unfold gap_newlines, line_gap, sat_sub; lia. Qed.

(* the clamp is idempotent *)
Definition clamp_gap (g : Z) : Z := Z.min (Z.max 0 g) 2.
Lemma clamp_gap_idem : forall g, clamp_gap (clamp_gap g) = clamp_gap g.
Proof. intros; unfold clamp_gap; lia. Qed.

(* spacing_idempotent: with the positions the statements have in the emitted text,
   join_statements_with_spacing emits the same text again *)
Theorem spacing_idempotent : forall l start, join_spacing (relayout start l) = join_spacing l.
Proof.
  induction l as [|[[d s] e] rest IH]; intros start; [reflexivity|].
  destruct rest as [|[[d2 s2] e2] rest'].
  - reflexivity.
  - change (relayout start ((d, s, e) :: (d2, s2, e2) :: rest'))
      with ((d, start, start + doc_height d) ::
            relayout (start + doc_height d + gap_newlines e s2) ((d2, s2, e2) :: rest')).
    remember (start + doc_height d + gap_newlines e s2) as st2.
    specialize (IH st2).
    change (relayout st2 ((d2, s2, e2) :: rest')) with
      ((d2, st2, st2 + doc_height d2) ::
       match rest' with [] => [] | (_, s', _) :: _ => relayout (st2 + doc_height d2 + gap_newlines e2 s') rest' end) in *.
    cbn [join_spacing] in *. rewrite IH. subst st2.
    rewrite reread_newlines. reflexivity.
Qed.

(* relayout is a fixed point: laying out the re-laid-out program changes no position *)
Theorem relayout_idem : forall l start, relayout start (relayout start l) = relayout start l.
Proof.
  induction l as [|[[d s] e] rest IH]; intros start; [reflexivity|].
  destruct rest as [|[[d2 s2] e2] rest'].
  - reflexivity.
  - change (relayout start ((d, s, e) :: (d2, s2, e2) :: rest'))
      with ((d, start, start + doc_height d) ::
            relayout (start + doc_height d + gap_newlines e s2) ((d2, s2, e2) :: rest')).
    remember (start + doc_height d + gap_newlines e s2) as st2.
    specialize (IH st2).
    change (relayout st2 ((d2, s2, e2) :: rest')) with
      ((d2, st2, st2 + doc_height d2) ::
       match rest' with [] => [] | (_, s', _) :: _ => relayout (st2 + doc_height d2 + gap_newlines e2 s') rest' end) in *.
    cbn [relayout]. f_equal.
    replace (start + doc_height d + gap_newlines (start + doc_height d) st2) with st2.
    + exact IH.
    + subst st2. rewrite reread_newlines. reflexivity.
Qed.
