(* TextRunFacts.v — facts about coq/TextRun.v (program TEXT -> outputs as one model) that follow by composition
   from the theorems about its stages:
     - the PEG stage never runs out of fuel (PegFuelBlots.blots_peg_total) and its result does not depend on the
       fuel above [peg_fuel text]               => [run_text_res] is never TParseFuel, is fuel-independent;
     - the evaluator over the complete dispatcher never answers Unmodelled (AllNoUnm)
                                                => the only Unmodelled in a text run is the Pratt MODEL's own fuel
                                                   ([TGlueFuel], counted by the TEXT-EVAL stream: 0);
     - every pair lies inside the text (PegGeneric.parse_spans_inside_text)
                                                => the span of every statement the loop executes, hence every slice
                                                   `as_str()` the glue reads, lies inside the text. *)
From Coq Require Import String Ascii List NArith ZArith Bool Lia.
Require Import Blots.Peg Blots.gen.Grammar Blots.proofs.PegGeneric Blots.proofs.PegFuelBlots.
Require Import Blots.Num Blots.gen.Builtins Blots.Ast Blots.Value Blots.Outcome Blots.Env Blots.Eval
               Blots.Program Blots.EvalInst Blots.EvalFull Blots.EvalAll Blots.AllRun Blots.TextRun.
Require Import Blots.proofs.NoPanic Blots.proofs.AllNoUnmEval Blots.proofs.AllNoUnm.
Import ListNotations.

(* ------------------------------------------------------------------ the parse stage is total *)
(* one-step unfoldings as equations: rewriting with them keeps Coq's conversion away from [Peg.parse] applied to
   the concrete grammar (comparing the folded and unfolded forms by conversion does not terminate in practice) *)
Lemma parse_text_stmts_unfold : forall text, parse_text_stmts text = parse_text_stmts_fuel (peg_fuel text) text.
Proof. intro text. unfold parse_text_stmts. reflexivity. Qed.
Lemma parse_text_ast_unfold : forall text, parse_text_ast text = parse_text_ast_fuel (peg_fuel text) text.
Proof. intro text. unfold parse_text_ast. reflexivity. Qed.
Lemma run_text_res_unfold : forall eval inputs text,
    run_text_res eval inputs text = run_text_res_fuel eval (peg_fuel text) inputs text.
Proof. intros. unfold run_text_res. reflexivity. Qed.

Lemma parse_text_stmts_fuel_not_fuel : forall fuel text,
    Peg.parse blots_grammar fuel PG_input text <> Peg.OutOfFuel -> parse_text_stmts_fuel fuel text <> TIFuel.
Proof.
  intros fuel text H. unfold parse_text_stmts_fuel.
  destruct (Peg.parse blots_grammar fuel PG_input text); try discriminate. exfalso; apply H; reflexivity.
Qed.
Theorem parse_text_stmts_total : forall text, parse_text_stmts text <> TIFuel.
Proof.
  intro text. rewrite parse_text_stmts_unfold. apply parse_text_stmts_fuel_not_fuel. apply blots_peg_total.
Qed.

Lemma parse_text_stmts_fuel_eq : forall f f' text,
    Peg.parse blots_grammar f PG_input text = Peg.parse blots_grammar f' PG_input text ->
    parse_text_stmts_fuel f text = parse_text_stmts_fuel f' text.
Proof. intros f f' text H. unfold parse_text_stmts_fuel. rewrite H. reflexivity. Qed.
Theorem parse_text_stmts_fuel_independent : forall fuel text,
    peg_fuel text <= fuel -> parse_text_stmts_fuel fuel text = parse_text_stmts text.
Proof.
  intros fuel text L. rewrite parse_text_stmts_unfold. apply parse_text_stmts_fuel_eq.
  apply blots_parse_fuel_independent. exact L.
Qed.

Lemma parse_text_ast_fuel_eq : forall f f' text,
    parse_text_stmts_fuel f text = parse_text_stmts_fuel f' text ->
    parse_text_ast_fuel f text = parse_text_ast_fuel f' text.
Proof. intros f f' text H. unfold parse_text_ast_fuel. rewrite H. reflexivity. Qed.
Theorem parse_text_ast_fuel_independent : forall fuel text,
    peg_fuel text <= fuel -> parse_text_ast_fuel fuel text = parse_text_ast text.
Proof.
  intros fuel text L. rewrite parse_text_ast_unfold. apply parse_text_ast_fuel_eq.
  rewrite (parse_text_stmts_fuel_independent fuel text L). apply parse_text_stmts_unfold.
Qed.

Lemma run_text_res_fuel_not_fuel : forall eval fuel inputs text,
    parse_text_stmts_fuel fuel text <> TIFuel -> run_text_res_fuel eval fuel inputs text <> TParseFuel.
Proof.
  intros eval fuel inputs text H. unfold run_text_res_fuel.
  destruct (parse_text_stmts_fuel fuel text); try discriminate. exfalso; apply H; reflexivity.
Qed.
Theorem run_text_never_parse_fuel : forall eval inputs text, run_text_res eval inputs text <> TParseFuel.
Proof.
  intros eval inputs text. rewrite run_text_res_unfold. apply run_text_res_fuel_not_fuel.
  rewrite <- parse_text_stmts_unfold. apply parse_text_stmts_total.
Qed.

Lemma run_text_res_fuel_eq : forall eval f f' inputs text,
    parse_text_stmts_fuel f text = parse_text_stmts_fuel f' text ->
    run_text_res_fuel eval f inputs text = run_text_res_fuel eval f' inputs text.
Proof. intros eval f f' inputs text H. unfold run_text_res_fuel. rewrite H. reflexivity. Qed.
Theorem run_text_fuel_independent : forall eval fuel inputs text,
    peg_fuel text <= fuel -> run_text_res_fuel eval fuel inputs text = run_text_res eval inputs text.
Proof.
  intros eval fuel inputs text L. rewrite run_text_res_unfold. apply run_text_res_fuel_eq.
  rewrite (parse_text_stmts_fuel_independent fuel text L). apply parse_text_stmts_unfold.
Qed.

(* ------------------------------------------------------------------ never Unmodelled *)
Section TextNoUnm.
  Variable eval : cfg -> Ast.expr -> result.
  Hypothesis eval_nu : forall c e, wf c -> fst (eval c e) <> Unmodelled.
  Hypothesis eval_keeps : forall c e r c', eval c e = (r, c') -> wf c -> wf c'.

  Lemma run_tstmts_nu : forall l s, wf (s_cfg s) -> Forall (fun t => t <> TGlueFuel) l ->
      Forall (fun rs => fst rs <> RFail Unmodelled) (snd (run_tstmts eval s l)).
  Proof.
    induction l as [|t rest IH]; intros s Hw Hl; cbn [run_tstmts]; [constructor|].
    inversion Hl as [|? ? Ht Hrest]; subst.
    destruct t as [t| | |]; try (cbn [snd]; constructor; [discriminate|constructor]).
    - destruct (exec_stmt eval s t) as [s' r] eqn:E.
      destruct (exec_stmt_nu eval eval_nu eval_keeps _ _ _ _ E Hw) as [Hw' Hr].
      destruct r.
      + specialize (IH s' Hw' Hrest). destruct (run_tstmts eval s' rest) as [s'' rs]. cbn [snd] in *.
        constructor; [discriminate|exact IH].
      + cbn [snd]. constructor; [exact Hr|constructor].
      + cbn [snd]. constructor; [discriminate|constructor].
      + apply IH; assumption.
    - congruence.
  Qed.
End TextNoUnm.

(* on statement lists without glue trouble the text loop IS Program.run *)
Lemma run_tstmts_is_run : forall eval p s, run_tstmts eval s (map TStmt p) = Program.run eval s p.
Proof.
  intros eval. induction p as [|t rest IH]; intro s; cbn [map run_tstmts Program.run]; [reflexivity|].
  destruct (exec_stmt eval s t) as [s' r]. destruct r; rewrite ?IH; reflexivity.
Qed.

Theorem run_text_never_unmodelled : forall o inputs text l,
    parse_text_stmts text = TIOk l -> Forall (fun t => t <> TGlueFuel) l ->
    exists sr, run_text_res (eval_all o) inputs text = TRun sr
               /\ Forall (fun rs => fst rs <> RFail Unmodelled) (snd sr).
Proof.
  intros o inputs text l H Hl. rewrite run_text_res_unfold. unfold run_text_res_fuel.
  rewrite parse_text_stmts_unfold in H. rewrite H.
  eexists. split; [reflexivity|].
  apply run_tstmts_nu; [| |apply init_session_wf|exact Hl].
  - intros c e Hw. apply evalD_all_no_unm. exact Hw.
  - intros c e r c' E Hw. unfold eval_all, eval_top in E. eapply evalD_keeps_wf; eauto.
Qed.

(* ------------------------------------------------------------------ spans inside the text *)
Definition span_inside (hi : N) (t : tree grule) : Prop :=
  match t with Node _ s e _ => (s <= e)%N /\ (e <= hi)%N end.

Lemma forest_ok_inside : forall lo hi l, forest_ok grule lo hi l -> Forall (span_inside hi) l.
Proof.
  induction 1; constructor.
  - simpl. split; [eapply forest_ok_le; eassumption|].
    pose proof (forest_ok_le _ _ _ _ H1). lia.
  - exact IHforest_ok2.
Qed.

(* every top-level pair (statement / EOI) the loop walks over lies inside the text, for every accepted text *)
Theorem text_statement_spans_inside : forall fuel text s',
    Peg.parse blots_grammar fuel PG_input text = Peg.Ok s' ->
    Forall (span_inside (slen text)) (rev (out s')) /\ forest_ok grule 0 (slen text) (rev (out s')).
Proof.
  intros fuel text s' H. destruct (parse_spans_inside_text grule blots_grammar fuel PG_input text s' H) as [F _].
  split; [eapply forest_ok_inside; exact F|exact F].
Qed.
