(* PrintRefute.v — the witnesses: on the pinned printer (FX_PINNED over the pinned precedence table)
   each known-finding class contains a tree the parser can produce whose printed token stream does
   not come back as the tree (or absorbs what follows a lambda / conditional / assignment, or does
   not re-lex as the same string).  All by computation. *)
From Coq Require Import String List Bool Arith.
Require Import Blots.Num Blots.gen.Builtins Blots.Ast Blots.Outcome Blots.PrattTypes Blots.gen.PrecTable
               Blots.Pratt Blots.PrattRender Blots.Printer Blots.proofs.PrattRT.
Import ListNotations.
Local Open Scope string_scope.

Definition pinned_rt (e : expr) : bool := predict_rt FX_PINNED pinned_opinfo num_text e.
Definition refuted_in (k : kcls) : Prop :=
  exists e, wf (stmt_body e) = true /\ known_classes e = [k] /\ pinned_rt e = false.

Definition w_unary := EAssign "y" (EUn Negate (EBin Add (EId "x") (EId "k"))).
Definition w_postfix := EFact (EBin Add (EId "x") (EId "one")).
Definition w_open := EBin Add (ECond (EId "c") (EId "p") (EId "q")) (EId "z").
Definition w_binr := EBin NaturalAnd (EId "a") (EBin NaturalOr (EId "b") (EId "c")).
Definition w_binl := EBin Coalesce (EBin Power (EId "a") (EId "b")) (EId "c").
Definition w_lam := EAssign "f" (ELam [AReq "x"] (EBin Via (EId "a") (EId "g"))).
Definition w_quote := EAssign "s" (EStr "a""b").
Definition w_dominus := EDo [Cm [] (EId "a") None; Cm [] (EUn Negate (EId "b")) None] (Cm [] (EId "r") None).

Lemma unary_operand_refuted : refuted_in KUnary.
Proof. exists w_unary. vm_compute. repeat split; reflexivity. Qed.
Lemma postfix_operand_refuted : refuted_in KPostfix.
Proof. exists w_postfix. vm_compute. repeat split; reflexivity. Qed.
Lemma open_left_refuted : refuted_in KOpenL.
Proof. exists w_open. vm_compute. repeat split; reflexivity. Qed.
Lemma binary_right_refuted : refuted_in KBinR.
Proof. exists w_binr. vm_compute. repeat split; reflexivity. Qed.
Lemma binary_left_refuted : refuted_in KBinL.
Proof. exists w_binl. vm_compute. repeat split; reflexivity. Qed.
Lemma lambda_body_refuted : refuted_in KLamBody.
Proof. exists w_lam. vm_compute. repeat split; reflexivity. Qed.
Lemma quote_refuted : refuted_in KQuote.
Proof. exists w_quote. vm_compute. repeat split; reflexivity. Qed.
Lemma do_minus_refuted : refuted_in KDoMinus.
Proof. exists w_dominus. vm_compute. repeat split; reflexivity. Qed.

(* the same witnesses pass with every repair applied *)
Lemma witnesses_repaired :
  forallb (predict_rt FX_ALL fixed_opinfo num_text)
          [w_unary; w_postfix; w_open; w_binr; w_binl; w_lam; w_quote; w_dominus] = true.
Proof. vm_compute. reflexivity. Qed.
