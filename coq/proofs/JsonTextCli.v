(* JsonTextCli.v — property C06 end to end in the model: value -> from_value -> to_json ->
   serde_json text -> serde_json parse -> map building -> parse_json_inputs -> inputs.<name>. *)
From Coq Require Import String Ascii List ZArith Bool Lia.
Require Import Blots.Num Blots.gen.Builtins Blots.Ast Blots.Value Blots.Outcome Blots.Json Blots.JsonText.
Require Import Blots.proofs.ValueInd Blots.proofs.JsonMaps Blots.proofs.JsonRT Blots.proofs.JsonEcho.
Require Import Blots.proofs.JsonTextRT Blots.proofs.JsonTextDoc.
Import ListNotations.
Open Scope list_scope.

(* a data value is written with in-range numbers only *)
Lemma json_text_ok_to_json v : json_data v = true -> json_text_ok (to_json (sv_of v)) = true.
Proof.
  induction v as [x|x| |s|l IH|r IH|id ar bd sc _|bi|v _] using value_ind'; try reflexivity; try discriminate.
  - cbn. intros H. unfold jnum_of_f64. rewrite H. exact H.
  - cbn [json_data sv_of]. rewrite to_json_list. cbn [json_text_ok]. rewrite !forallb_forall. intros H y Hy.
    rewrite map_map in Hy. apply in_map_iff in Hy as (x & <- & Hx). rewrite Forall_forall in IH. auto.
  - rewrite json_data_rec. intros H. apply andb_prop in H as [_ Hd].
    rewrite sv_of_rec, to_json_rec. cbn [json_text_ok]. rewrite forallb_forall. intros [k y] Hy.
    apply bmap_collect_in in Hy. rewrite mapv_mapv in Hy. apply in_mapv in Hy as (x & Hx & ->). cbn.
    rewrite Forall_forall in IH. rewrite forallb_forall in Hd. apply (IH (k, x) Hx (Hd (k, x) Hx)).
Qed.

Section TextCli.
  Variable pfs : string -> option (list lamarg * string).
  Variable pbody : string -> outcome expr.
  Variable emit : expr -> list (string * svalue) -> string.
  Variable nameof : lam_id -> option string.
  Variable fmt_pieces : num -> numtok.
  Variable float_of_tok : numtok -> option num.

  (* first run: `output <name> = v` prints the outputs object; second run reads that text as its
     inputs and looks at inputs.<name> *)
  Definition cli_text_out_in (v : value) (name : string) : outcome value :=
    do s <- from_value emit nameof v;
    match json_from_str float_of_tok (jprint fmt_pieces (write_outputs [(name, s)])) with
    | None => Err
    | Some d =>
        do inputs <- fst (parse_json_inputs pfs pbody (sj_build d) 0);
        match rec_get inputs name with
        | Some v' => Ok v'
        | None => Ok VNull
        end
    end.

  Hypothesis H_print_wf : forall x, is_finite x = true ->
    tok_wf (fmt_pieces x) = true /\ tok_is_float (fmt_pieces x) = true.
  Hypothesis H_roundtrip : forall x, is_finite x = true -> float_of_tok (fmt_pieces x) = Some x.

  Theorem cli_text_out_in_roundtrip v name :
    json_data v = true -> value_no_reserved pfs v = true ->
    (jdepth (write_outputs [(name, sv_of v)]) <= 127)%nat ->
    cli_text_out_in v name = Ok (vsort v)
    /\ equals (vsort v) v = true /\ same_data (vsort v) v = true.
  Proof.
    intros Hd Hr Hdepth.
    destruct (cli_out_in_roundtrip pfs pbody emit nameof v name Hd Hr) as (H1 & H2 & H3).
    split; [|split; assumption].
    unfold cli_text_out_in. unfold cli_out_in in H1.
    rewrite (from_value_plain emit nameof v (json_data_plain v Hd)) in *. cbn [obind] in *.
    rewrite (json_text_roundtrip fmt_pieces float_of_tok H_print_wf H_roundtrip); [exact H1| |exact Hdepth].
    unfold write_outputs. cbn [map fst snd json_text_ok forallb]. rewrite andb_true_r.
    now apply json_text_ok_to_json.
  Qed.
End TextCli.
