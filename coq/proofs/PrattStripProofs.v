(* PrattStripProofs.v — comments never change the parsed program (token level): for every table,
   every fuel and every token stream, the conversion of the stream with all comment pairs and
   comment annotations removed equals the conversion of the stream itself (same Ok / Err / Panic /
   out-of-fuel outcome, same tree). *)
From Coq Require Import String List Bool Arith Lia.
Require Import Blots.Num Blots.gen.Builtins Blots.Ast Blots.Outcome Blots.PrattTypes Blots.Pratt
               Blots.PrattStrip.
Import ListNotations.
Local Open Scope nat_scope.
Local Open Scope list_scope.

Lemma strip_IExpr : forall b g, strip_item (IExpr b g) = IExpr b (strip_items g).
Proof. reflexivity. Qed.
Lemma strip_IList : forall els, strip_item (IList els) = IList (strip_lels els).
Proof. reflexivity. Qed.
Lemma strip_IRecord : forall els, strip_item (IRecord els) = IRecord (strip_rels els).
Proof. reflexivity. Qed.
Lemma strip_ILambda : forall a g, strip_item (ILambda a g) = ILambda a (strip_items g).
Proof. reflexivity. Qed.
Lemma strip_ICond : forall c t e, strip_item (ICond c t e) = ICond (strip_items c) (strip_items t) (strip_items e).
Proof. reflexivity. Qed.
Lemma strip_IDo : forall els, strip_item (IDo els) = IDo (strip_dels els).
Proof. reflexivity. Qed.
Lemma strip_IAssign : forall x v, strip_item (IAssign x v) = IAssign x (strip_items v).
Proof. reflexivity. Qed.
Lemma strip_IAccess : forall g, strip_item (IAccess g) = IAccess (strip_items g).
Proof. reflexivity. Qed.
Lemma strip_ICall : forall args, strip_item (ICall args) = ICall (strip_args args).
Proof. reflexivity. Qed.

Lemma item_op_strip : forall i, item_op (strip_item i) = item_op i.
Proof. destruct i; reflexivity. Qed.

Definition srest (x : tres * list item) : tres * list item := (fst x, strip_items (snd x)).

Section Strip.
  Variable tbl : ops_map.
  Variable imap : list (oprule * binop).
  Variable pmap : list (oprule * prefix_ctor).
  Notation pexpr' := (pexpr tbl imap pmap).
  Notation ploop' := (ploop tbl imap pmap).
  Notation mpost' := (map_postfix tbl imap pmap).
  Notation primary' := (primary tbl imap pmap).
  Notation parse' := (parse_items tbl imap pmap).

  Lemma lbp_strip : forall its, lbp tbl (strip_items its) = lbp tbl its.
  Proof. destruct its as [|i its]; [reflexivity|]. cbn [strip_items lbp]. rewrite item_op_strip. reflexivity. Qed.

  (* unfolding equations (definitional) *)
  Lemma pexpr_S : forall f rbp its,
    pexpr' (S f) rbp its =
    match its with
    | [] => Panic
    | pr0 :: rest =>
        obind (match item_op pr0 with
               | Some r =>
                   match ops_get tbl r with
                   | Some (Prefix, p) =>
                       obind (pexpr' f (p - 1) rest) (fun rr =>
                       obind (map_prefix pmap r (fst rr)) (fun e => Ok (e, snd rr)))
                   | Some _ => Panic
                   | None => Panic
                   end
               | None => obind (primary' f pr0) (fun e => Ok (e, rest))
               end) (fun lr => ploop' f rbp (fst lr) (snd lr))
    end.
  Proof. reflexivity. Qed.
  Lemma ploop_S2 : forall m rbp lhs its,
    ploop' (S m) rbp lhs its =
    obind (lbp tbl its) (fun l =>
      if Nat.ltb rbp l then
        match its with
        | [] => Panic
        | pr0 :: rest =>
            match item_op pr0 with
            | Some r =>
                match ops_get tbl r with
                | Some (Infix a, p) =>
                    obind (pexpr' m (match a with ALeft => p | ARight => p - 1 end) rest) (fun rr =>
                    obind (map_infix imap lhs r (fst rr)) (fun e => ploop' m rbp e (snd rr)))
                | Some (Postfix, _) => obind (mpost' m lhs pr0) (fun e => ploop' m rbp e rest)
                | _ => Panic
                end
            | None => Panic
            end
        end
      else Ok (lhs, its)).
  Proof. reflexivity. Qed.
  Lemma parse_S : forall f its, parse' (S f) its = obind (pexpr' f 0 its) (fun r => Ok (fst r)).
  Proof. reflexivity. Qed.

  (* element loops, given that the converter of nested streams is insensitive *)
  Section LoopsStrip.
    Variable parse : list item -> outcome tres.
    Hypothesis Hp : forall g, parse (strip_items g) = parse g.

    Lemma omapM_strip : forall args, omapM parse (strip_args args) = omapM parse args.
    Proof.
      induction args as [|g args IH]; [reflexivity|].
      cbn [strip_args omapM]. rewrite Hp. destruct (parse g) as [[e|]| | | |]; cbn; try reflexivity.
      rewrite IH. reflexivity.
    Qed.
    Lemma list_loop_strip : forall els, list_loop parse (strip_lels els) = list_loop parse els.
    Proof.
      induction els as [|[s|g eol] els IH]; [reflexivity | exact IH |].
      cbn [strip_lels list_loop]. rewrite Hp. destruct (parse g) as [[e|]| | | |]; cbn; try reflexivity.
      rewrite IH. reflexivity.
    Qed.
    Lemma key_of_strip : forall k, key_of parse (strip_key k) = key_of parse k.
    Proof. destruct k; try reflexivity. cbn [strip_key key_of]. rewrite Hp. reflexivity. Qed.
    Lemma rec_loop_strip : forall els, rec_loop parse (strip_rels els) = rec_loop parse els.
    Proof.
      induction els as [|[s|k v eol|s eol|g eol] els IH]; [reflexivity | exact IH | | |].
      - cbn [strip_rels rec_loop]. rewrite key_of_strip.
        destruct (key_of parse k) as [[key|]| | | |]; cbn; try reflexivity.
        rewrite Hp. destruct (parse v) as [[val|]| | | |]; cbn; try reflexivity. rewrite IH. reflexivity.
      - cbn [strip_rels rec_loop]. rewrite IH. reflexivity.
      - cbn [strip_rels rec_loop]. rewrite Hp. destruct (parse g) as [[e|]| | | |]; cbn; try reflexivity.
        rewrite IH. reflexivity.
    Qed.
    Lemma do_loop_strip : forall els stmts ret,
      do_loop parse (strip_dels els) stmts ret = do_loop parse els stmts ret.
    Proof.
      induction els as [|[g c|s c|g|s] els IH]; intros stmts ret; [reflexivity | | apply IH | | apply IH].
      - cbn [strip_dels do_loop]. rewrite Hp. destruct (parse g) as [[e|]| | | |]; cbn; try reflexivity. apply IH.
      - cbn [strip_dels do_loop]. rewrite Hp. destruct (parse g) as [[e|]| | | |]; cbn; try reflexivity. apply IH.
    Qed.
  End LoopsStrip.

  Definition P_pexpr (f : nat) := forall rbp its, pexpr' f rbp (strip_items its) = omap srest (pexpr' f rbp its).
  Definition P_ploop (f : nat) := forall rbp lhs its, ploop' f rbp lhs (strip_items its) = omap srest (ploop' f rbp lhs its).
  Definition P_post (f : nat) := forall lhs i, mpost' f lhs (strip_item i) = mpost' f lhs i.
  Definition P_prim (f : nat) := forall i, primary' f (strip_item i) = primary' f i.
  Definition P_parse (f : nat) := forall its, parse' f (strip_items its) = parse' f its.

  Lemma strip_all : forall f, P_pexpr f /\ P_ploop f /\ P_post f /\ P_prim f /\ P_parse f.
  Proof.
    induction f as [|f (IHe & IHl & IHpo & IHpr & IHpa)].
    - repeat split; intro; intros; reflexivity.
    - assert (He : P_pexpr (S f)).
      { intros rbp its. rewrite !pexpr_S. destruct its as [|i rest]; [reflexivity|].
        cbn [strip_items]. rewrite item_op_strip.
        destruct (item_op i) as [r|] eqn:Eop.
        - destruct (ops_get tbl r) as [[[| |a] p]|]; try reflexivity.
          rewrite IHe. destruct (pexpr' f (p - 1) rest) as [[r1 rest1]| | | |]; try reflexivity.
          cbn [omap obind srest fst snd].
          destruct (map_prefix pmap r r1) as [e| | | |]; try reflexivity.
          cbn [obind fst snd]. apply IHl.
        - rewrite IHpr. destruct (primary' f i) as [e| | | |]; try reflexivity.
          cbn [obind fst snd]. apply IHl. }
      assert (Hl : P_ploop (S f)).
      { intros rbp lhs its. rewrite !ploop_S2, lbp_strip.
        destruct (lbp tbl its) as [l| | | |]; try reflexivity. cbn [obind].
        destruct (Nat.ltb rbp l); [|reflexivity].
        destruct its as [|i rest]; [reflexivity|]. cbn [strip_items]. rewrite item_op_strip.
        destruct (item_op i) as [r|]; [|reflexivity].
        destruct (ops_get tbl r) as [[[| |a] p]|]; try reflexivity.
        - rewrite IHpo. destruct (mpost' f lhs i) as [e| | | |]; try reflexivity. cbn [obind]. apply IHl.
        - rewrite IHe. destruct (pexpr' f (match a with ALeft => p | ARight => p - 1 end) rest) as [[r1 rest1]| | | |];
            try reflexivity.
          cbn [omap obind srest fst snd].
          destruct (map_infix imap lhs r r1) as [e| | | |]; try reflexivity. cbn [obind]. apply IHl. }
      assert (Hpa : P_parse (S f)).
      { intros its. rewrite !parse_S, IHe. destruct (pexpr' f 0 its) as [[r rest]| | | |]; reflexivity. }
      assert (Hpo : P_post (S f)).
      { intros lhs i. destruct i; try reflexivity.
        - rewrite strip_IAccess. cbn [map_postfix]. rewrite IHpa. reflexivity.
        - rewrite strip_ICall. cbn [map_postfix]. rewrite (omapM_strip (parse' f) IHpa). reflexivity. }
      assert (Hpr : P_prim (S f)).
      { intros i. destruct i; try reflexivity.
        - rewrite strip_IExpr. cbn [primary]. apply IHpa.
        - rewrite strip_IList. cbn [primary]. rewrite (list_loop_strip (parse' f) IHpa). reflexivity.
        - rewrite strip_IRecord. cbn [primary]. rewrite (rec_loop_strip (parse' f) IHpa). reflexivity.
        - rewrite strip_ILambda. cbn [primary]. rewrite IHpa. reflexivity.
        - rewrite strip_ICond. cbn [primary]. rewrite !IHpa. reflexivity.
        - rewrite strip_IDo. cbn [primary]. apply (do_loop_strip (parse' f) IHpa).
        - rewrite strip_IAssign. cbn [primary]. rewrite IHpa. reflexivity. }
      repeat split; assumption.
  Qed.

  Theorem comments_irrelevant : forall fuel its,
    parse' fuel (strip_items its) = parse' fuel its.
  Proof. intros fuel its. exact (proj2 (proj2 (proj2 (proj2 (strip_all fuel)))) its). Qed.
End Strip.
