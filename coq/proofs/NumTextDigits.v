(* proofs/NumTextDigits.v — the executable `{:.0}` reference satisfies its contract for every
   integral double: Z_to_dec produces a non-empty digit string whose value is the integer. *)
From Coq Require Import ZArith Floats.SpecFloat Bool List String Ascii Lia.
Require Import Blots.Num Blots.Outcome Blots.gen.Builtins Blots.Ast Blots.NumText.
Require Import Blots.proofs.NumTextStr.
Open Scope string_scope.
Open Scope Z_scope.

Lemma dchar_digit : forall d, 0 <= d <= 9 -> is_digit (dchar d) = true /\ digit_val (dchar d) = d.
Proof.
  intros d H.
  assert (C : d = 0 \/ d = 1 \/ d = 2 \/ d = 3 \/ d = 4 \/ d = 5 \/ d = 6 \/ d = 7 \/ d = 8 \/ d = 9) by lia.
  destruct C as [->|[->|[->|[->|[->|[->|[->|[->|[->| ->]]]]]]]]]; split; reflexivity.
Qed.

(* reading the produced digits continues the accumulator: D(z) ++ acc read from k *)
Lemma Z_digits_fuel_val : forall fuel z acc,
  0 <= z < 10 ^ Z.of_nat fuel -> (1 <= fuel)%nat ->
  digits_val (Z_digits_fuel fuel z acc) 0 = digits_val acc z.
Proof.
  induction fuel as [|f IH]; intros z acc Hz Hf; [lia|].
  cbn [Z_digits_fuel]. cbv zeta.
  assert (Hm : 0 <= z mod 10 <= 9) by (pose proof (Z.mod_pos_bound z 10); lia).
  destruct (dchar_digit _ Hm) as [_ Hv].
  destruct (z <? 10) eqn:E.
  - apply Z.ltb_lt in E. cbn [digits_val]. rewrite Hv. rewrite Z.mod_small by lia. f_equal.
  - apply Z.ltb_ge in E.
    assert (Hf' : (1 <= f)%nat).
    { destruct f; [|lia]. simpl in Hz. lia. }
    rewrite IH; [| |exact Hf'].
    + cbn [digits_val]. rewrite Hv. f_equal. pose proof (Z.div_mod z 10). lia.
    + rewrite Nat2Z.inj_succ, Z.pow_succ_r in Hz by lia.
      split; [apply Z.div_pos; lia | apply Z.div_lt_upper_bound; lia].
Qed.

Lemma Z_digits_fuel_digits : forall fuel z acc,
  0 <= z -> all_digits acc = true -> all_digits (Z_digits_fuel fuel z acc) = true.
Proof.
  induction fuel as [|f IH]; intros z acc Hz Ha; [exact Ha|].
  cbn [Z_digits_fuel]. cbv zeta.
  assert (Hm : 0 <= z mod 10 <= 9) by (pose proof (Z.mod_pos_bound z 10); lia).
  destruct (dchar_digit _ Hm) as [Hd _].
  assert (Ha' : all_digits (String (dchar (z mod 10)) acc) = true) by (cbn [all_digits]; now rewrite Hd).
  destruct (z <? 10); [exact Ha'|]. apply IH; [apply Z.div_pos; lia | exact Ha'].
Qed.

Lemma Z_digits_fuel_nonempty : forall fuel z acc, (1 <= fuel)%nat -> Z_digits_fuel fuel z acc <> "".
Proof.
  induction fuel as [|f IH]; intros z acc Hf; [lia|].
  cbn [Z_digits_fuel]. cbv zeta. destruct (z <? 10); [discriminate|].
  destruct f.
  - cbn [Z_digits_fuel]. discriminate.
  - apply IH. lia.
Qed.

Lemma Z_to_dec_spec : forall z, 0 <= z ->
  all_digits (Z_to_dec z) = true /\ Z_to_dec z <> "" /\ digits_val (Z_to_dec z) 0 = z.
Proof.
  intros z Hz. unfold Z_to_dec. repeat split.
  - apply Z_digits_fuel_digits; auto.
  - apply Z_digits_fuel_nonempty. lia.
  - rewrite Z_digits_fuel_val; [reflexivity | | lia].
    split; [lia|].
    rewrite Nat2Z.inj_succ, Z2Nat.id by apply Z.log2_nonneg.
    destruct (Z.eq_dec z 0) as [->|Hnz]; [reflexivity|].
    destruct (Z.log2_spec z ltac:(lia)) as [_ Hlt].
    apply Z.lt_le_trans with (1 := Hlt). apply Z.pow_le_mono_l. pose proof (Z.log2_nonneg z). lia.
Qed.

Lemma int_abs_nonneg : forall x, 0 <= int_abs x.
Proof.
  intros [s|s| |s m e]; simpl; try lia. unfold split_int.
  destruct (0 <=? e) eqn:E.
  - apply Z.leb_le in E. apply Z.mul_nonneg_nonneg; [lia | apply Z.pow_nonneg; lia].
  - apply Z.div_pos; [lia | apply Z.pow_pos_nonneg; apply Z.leb_gt in E; lia].
Qed.

(* the exact-integer printer satisfies the `{:.0}` contract for every number *)
Theorem ref_prec0_contract : forall x,
  exists ip, ref_prec0 x = sign_str (nsign x) ++ ip /\ all_digits ip = true /\ ip <> "" /\
             digits_val ip 0 = int_abs x.
Proof.
  intros x. exists (Z_to_dec (int_abs x)).
  destruct (Z_to_dec_spec (int_abs x) (int_abs_nonneg x)) as (H1 & H2 & H3).
  repeat split; auto.
Qed.
