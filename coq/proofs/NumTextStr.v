(* proofs/NumTextStr.v — string-level lemmas for C16: how the number grammar, the literal
   conversion and Rust's float grammar behave on plain decimal texts  ddd  and  ddd.ddd . *)
From Coq Require Import ZArith Floats.SpecFloat Bool List String Ascii Lia.
Require Import Blots.Num Blots.Outcome Blots.gen.Builtins Blots.Ast Blots.NumText.
Import ListNotations.
Open Scope string_scope.

(* ---------------------------------------------------------------- characters *)
Ltac ascii_cases c := destruct c as [[|] [|] [|] [|] [|] [|] [|] [|]].

Lemma digit_facts : forall c, is_digit c = true ->
  Ascii.eqb c "+" = false /\ Ascii.eqb c "-" = false /\ Ascii.eqb c "." = false /\
  Ascii.eqb c "_" = false /\ Ascii.eqb "+" c = false /\ Ascii.eqb "-" c = false /\
  Ascii.eqb "b" c = false /\ Ascii.eqb "x" c = false /\ Ascii.eqb "_" c = false /\
  Ascii.eqb "." c = false /\ lower_c c = c /\ Ascii.eqb c "i" = false /\ Ascii.eqb c "n" = false.
Proof. intros c H. ascii_cases c; try discriminate H; repeat split; reflexivity. Qed.

Lemma split_sign_digit : forall c r, is_digit c = true -> split_sign (String c r) = (false, String c r).
Proof. intros c r H. ascii_cases c; try discriminate H; reflexivity. Qed.
Lemma count_neg_digit : forall c r, is_digit c = true -> count_neg (String c r) = (O, String c r).
Proof. intros c r H. ascii_cases c; try discriminate H; reflexivity. Qed.
Lemma dot_not_digit : is_digit "." = false. Proof. reflexivity. Qed.

Definition no_digit_head (r : string) : Prop :=
  match r with String c _ => is_digit c = false | EmptyString => True end.
(* what may follow the integer digits of a plain decimal text: nothing, or ".ddd" *)
Definition dot_or_end (r : string) : Prop :=
  match r with String c _ => c = "."%char | EmptyString => True end.
Lemma dot_or_end_no_digit : forall r, dot_or_end r -> no_digit_head r.
Proof. intros [|c r] H; simpl in *; auto. subst. reflexivity. Qed.

(* ---------------------------------------------------------------- digit strings *)
Lemma app_nil_r' : forall s : string, s ++ "" = s.
Proof. induction s; simpl; auto. now rewrite IHs. Qed.
Lemma span_digits_app : forall d r, all_digits d = true -> no_digit_head r -> span_digits (d ++ r) = (d, r).
Proof.
  induction d as [|c d IH]; intros r Hd Hr; simpl in *.
  - destruct r as [|c r]; simpl in *; [reflexivity | now rewrite Hr].
  - apply andb_prop in Hd. destruct Hd as [Hc Hd]. rewrite Hc, (IH r Hd Hr). reflexivity.
Qed.
Lemma span_digits_all : forall d, all_digits d = true -> span_digits d = (d, "").
Proof. intros d H. rewrite <- (app_nil_r' d) at 1. now apply span_digits_app. Qed.
  
Lemma digits_val_app : forall a b acc, digits_val (a ++ b) acc = digits_val b (digits_val a acc).
Proof. induction a; intros; simpl; auto. Qed.

Lemma remove_underscore_digits : forall d, all_digits d = true -> remove_char "_" d = d.
Proof.
  induction d as [|c d IH]; intros H; simpl in *; auto.
  apply andb_prop in H. destruct H as [Hc Hd].
  destruct (digit_facts c Hc) as (_ & _ & _ & E & _). rewrite E, (IH Hd). reflexivity.
Qed.
Lemma remove_char_app : forall x a b, remove_char x (a ++ b) = remove_char x a ++ remove_char x b.
Proof. induction a; intros; simpl; auto. destruct (Ascii.eqb a x); simpl; now rewrite IHa. Qed.
Lemma all_digits_app : forall a b, all_digits (a ++ b) = all_digits a && all_digits b.
Proof. induction a; intros; simpl; auto. now rewrite IHa, andb_assoc. Qed.

Lemma length_app : forall a b, String.length (a ++ b) = (String.length a + String.length b)%nat.
Proof. induction a; intros; simpl; auto. Qed.
Lemma take_all : forall s, take (String.length s) s = s.
Proof. induction s; simpl; auto. now rewrite IHs. Qed.

(* ---------------------------------------------------------------- PEG combinators on digits *)
Lemma p_star_f_digits : forall d r fuel,
  all_digits d = true -> no_digit_head r -> (String.length d < fuel)%nat ->
  p_star_f fuel ASCII_DIGIT (d ++ r) = Some r.
Proof.
  induction d as [|c d IH]; intros r fuel Hd Hr Hf; simpl in *.
  - destruct fuel; [lia|]. simpl. unfold ASCII_DIGIT, p_class.
    destruct r as [|c r]; simpl in *; [reflexivity | now rewrite Hr].
  - apply andb_prop in Hd. destruct Hd as [Hc Hd].
    destruct fuel; [lia|]. simpl. unfold ASCII_DIGIT at 1, p_class. rewrite Hc.
    apply IH; auto. lia.
Qed.
Lemma p_plus_digits : forall d r,
  all_digits d = true -> d <> "" -> no_digit_head r -> p_plus ASCII_DIGIT (d ++ r) = Some r.
Proof.
  intros [|c d] r Hd Hne Hr; [congruence|]. simpl in Hd. apply andb_prop in Hd. destruct Hd as [Hc Hd].
  unfold p_plus, p_seq. simpl. unfold ASCII_DIGIT at 1, p_class. rewrite Hc.
  unfold p_star. apply p_star_f_digits; auto. rewrite length_app. lia.
Qed.
Lemma g_sign_digit : forall c r, is_digit c = true -> g_sign (String c r) = Some (String c r).
Proof.
  intros c r H. destruct (digit_facts c H) as (_ & _ & _ & _ & E1 & E2 & _).
  unfold g_sign, p_opt, p_alt, p_lit. cbn [strip_prefix]. now rewrite E1, E2.
Qed.
Lemma g_integer_digits : forall d r,
  all_digits d = true -> d <> "" -> no_digit_head r -> g_integer (d ++ r) = Some r.
Proof.
  intros d r Hd Hne Hr. unfold g_integer, p_seq. change (p_opt (p_lit "+" </> p_lit "-")) with g_sign.
  destruct d as [|c d]; [congruence|]. simpl in Hd. pose proof Hd as Hd'. apply andb_prop in Hd. destruct Hd as [Hc Hd].
  change (String c d ++ r) with (String c (d ++ r)). rewrite (g_sign_digit c (d ++ r) Hc).
  change (String c (d ++ r)) with (String c d ++ r). apply p_plus_digits; auto.
Qed.

(* "0b" / "0x" cannot start a plain decimal text *)
Lemma strip_radix_mark_none : forall (mk : ascii) d r,
  (forall c, is_digit c = true -> Ascii.eqb mk c = false) -> Ascii.eqb mk "." = false ->
  all_digits d = true -> d <> "" -> dot_or_end r ->
  strip_prefix (String "0" (String mk "")) (d ++ r) = None.
Proof.
  intros mk d r Hmk Hdot Hd Hne Hr.
  destruct d as [|c d]; [congruence|]. simpl in Hd. apply andb_prop in Hd. destruct Hd as [Hc Hd].
  cbn [strip_prefix append]. destruct (Ascii.eqb "0" c); [|reflexivity].
  destruct d as [|c2 d]; cbn [strip_prefix append].
  - destruct r as [|c3 r]; [reflexivity|]. simpl in Hr. subst c3. now rewrite Hdot.
  - simpl in Hd. apply andb_prop in Hd. destruct Hd as [Hc2 _]. now rewrite (Hmk c2 Hc2).
Qed.
Lemma mark_b : forall c, is_digit c = true -> Ascii.eqb "b" c = false.
Proof. intros c H. now destruct (digit_facts c H) as (_&_&_&_&_&_&E&_). Qed.
Lemma mark_x : forall c, is_digit c = true -> Ascii.eqb "x" c = false.
Proof. intros c H. now destruct (digit_facts c H) as (_&_&_&_&_&_&_&E&_). Qed.

Lemma g_binary_number_plain : forall d r,
  all_digits d = true -> d <> "" -> dot_or_end r -> g_binary_number (d ++ r) = None.
Proof.
  intros d r Hd Hne Hr. unfold g_binary_number, p_seq. change (p_opt (p_lit "+" </> p_lit "-")) with g_sign.
  assert (Hs : g_sign (d ++ r) = Some (d ++ r)).
  { destruct d as [|c d']; [congruence|]. simpl in Hd. apply andb_prop in Hd.
    apply (g_sign_digit c (d' ++ r)). tauto. }
  rewrite Hs. unfold p_lit.
  rewrite (strip_radix_mark_none "b" d r mark_b eq_refl Hd Hne Hr). reflexivity.
Qed.
Lemma g_hex_number_plain : forall d r,
  all_digits d = true -> d <> "" -> dot_or_end r -> g_hex_number (d ++ r) = None.
Proof.
  intros d r Hd Hne Hr. unfold g_hex_number, p_seq. change (p_opt (p_lit "+" </> p_lit "-")) with g_sign.
  assert (Hs : g_sign (d ++ r) = Some (d ++ r)).
  { destruct d as [|c d']; [congruence|]. simpl in Hd. apply andb_prop in Hd.
    apply (g_sign_digit c (d' ++ r)). tauto. }
  rewrite Hs. unfold p_lit.
  rewrite (strip_radix_mark_none "x" d r mark_x eq_refl Hd Hne Hr). reflexivity.
Qed.

(* the fraction of a plain decimal text: "" or ".ddd" *)
Definition frac_text (fp : string) : string := if is_empty fp then "" else "." ++ fp.
Definition plain (ip fp : string) : string := ip ++ frac_text fp.
Lemma frac_text_dot_or_end : forall fp, dot_or_end (frac_text fp).
Proof. intros [|c fp]; simpl; auto. Qed.

Lemma p_star_none : forall p r, p r = None -> p_star p r = Some r.
Proof. intros p r H. unfold p_star. cbn [p_star_f]. now rewrite H. Qed.
Lemma underscore_group_none : forall r, dot_or_end r -> (p_plus (p_lit "_") &> g_integer) r = None.
Proof.
  intros [|c r] H; unfold p_seq, p_plus, p_seq, p_lit; cbn [strip_prefix]; [reflexivity|].
  simpl in H. subst c. reflexivity.
Qed.

Lemma g_decimal_number_plain : forall ip fp,
  all_digits ip = true -> ip <> "" -> all_digits fp = true ->
  g_decimal_number (plain ip fp) = Some "".
Proof.
  intros ip fp Hi Hne Hf. unfold g_decimal_number, plain.
  unfold p_seq at 1. unfold p_alt. unfold p_seq at 1.
  rewrite (g_integer_digits ip (frac_text fp) Hi Hne (dot_or_end_no_digit _ (frac_text_dot_or_end fp))).
  unfold p_seq at 1.
  assert (Hstar : p_star (p_plus (p_lit "_") &> g_integer) (frac_text fp) = Some (frac_text fp)).
  { apply p_star_none, underscore_group_none, frac_text_dot_or_end. }
  rewrite Hstar.
  destruct fp as [|c fp].
  - reflexivity.
  - unfold frac_text. simpl is_empty. cbv iota.
    unfold p_opt at 1, p_seq at 1, p_lit at 1. simpl strip_prefix.
    rewrite <- (app_nil_r' (String c fp)).
    rewrite (p_plus_digits (String c fp) "" Hf); [reflexivity | discriminate | exact I].
Qed.

Lemma lex_number_plain : forall ip fp,
  all_digits ip = true -> ip <> "" -> all_digits fp = true ->
  lex g_number (plain ip fp) = Some (plain ip fp, "").
Proof.
  intros ip fp Hi Hne Hf. unfold lex, g_number, p_alt.
  unfold plain at 1 2.
  rewrite (g_binary_number_plain ip _ Hi Hne (frac_text_dot_or_end fp)).
  rewrite (g_hex_number_plain ip _ Hi Hne (frac_text_dot_or_end fp)).
  fold (plain ip fp). rewrite (g_decimal_number_plain ip fp Hi Hne Hf).
  simpl String.length. rewrite Nat.sub_0_r, take_all. reflexivity.
Qed.

(* ---------------------------------------------------------------- literal conversion *)
Lemma starts_with_signed_mark : forall (sg mk : ascii) c r,
  is_digit c = true -> Ascii.eqb sg c = false ->
  starts_with (String sg (String "0" (String mk ""))) (String c r) = false.
Proof. intros. unfold starts_with. cbn [strip_prefix]. now rewrite H0. Qed.

Lemma remove_underscore_frac : forall fp, all_digits fp = true -> remove_char "_" (frac_text fp) = frac_text fp.
Proof.
  intros [|c fp] H; [reflexivity|]. unfold frac_text. cbn [is_empty].
  change ("." ++ String c fp) with (String "." (String c fp)).
  change (remove_char "_" (String "." (String c fp))) with (String "." (remove_char "_" (String c fp))).
  now rewrite (remove_underscore_digits _ H).
Qed.

Lemma literal_value_plain : forall sp ip fp,
  all_digits ip = true -> ip <> "" -> all_digits fp = true ->
  literal_value sp (plain ip fp) = sp (plain ip fp).
Proof.
  intros sp ip fp Hi Hne Hf. unfold literal_value.
  assert (Hb : starts_with "0b" (plain ip fp) = false).
  { unfold starts_with, plain.
    now rewrite (strip_radix_mark_none "b" ip _ mark_b eq_refl Hi Hne (frac_text_dot_or_end fp)). }
  assert (Hx : starts_with "0x" (plain ip fp) = false).
  { unfold starts_with, plain.
    now rewrite (strip_radix_mark_none "x" ip _ mark_x eq_refl Hi Hne (frac_text_dot_or_end fp)). }
  rewrite Hb, Hx.
  destruct ip as [|c ip]; [congruence|]. pose proof Hi as Hi'. simpl in Hi'. apply andb_prop in Hi'.
  destruct Hi' as [Hc Hi'].
  destruct (digit_facts c Hc) as (_ & _ & _ & _ & E1 & E2 & _).
  unfold plain. change (String c ip ++ frac_text fp) with (String c (ip ++ frac_text fp)).
  rewrite !starts_with_signed_mark by assumption. simpl orb. cbv iota.
  f_equal. change (String c (ip ++ frac_text fp)) with (String c ip ++ frac_text fp).
  now rewrite remove_char_app, (remove_underscore_digits _ Hi), (remove_underscore_frac _ Hf).
Qed.

(* ---------------------------------------------------------------- Rust float grammar *)
Lemma lower_s_digits_head : forall c r, is_digit c = true ->
  String.eqb (lower_s (String c r)) "inf" = false /\
  String.eqb (lower_s (String c r)) "infinity" = false /\
  String.eqb (lower_s (String c r)) "nan" = false.
Proof.
  intros c r H. destruct (digit_facts c H) as (_&_&_&_&_&_&_&_&_&_&L&Ei&En).
  simpl. rewrite L, Ei, En. auto.
Qed.

Lemma scan_mantissa_plain : forall ip fp,
  all_digits ip = true -> ip <> "" -> all_digits fp = true ->
  scan_mantissa (plain ip fp) = Some (ip, fp, "").
Proof.
  intros ip fp Hi Hne Hf. unfold scan_mantissa, plain.
  rewrite (span_digits_app ip _ Hi (dot_or_end_no_digit _ (frac_text_dot_or_end fp))).
  destruct fp as [|c fp].
  - simpl. destruct ip; [congruence | reflexivity].
  - unfold frac_text. simpl is_empty. cbv iota. simpl append.
    cbv beta iota. rewrite (span_digits_all _ Hf). destruct ip; [congruence | reflexivity].
Qed.

Lemma rust_float_syntax_plain : forall s ip fp,
  all_digits ip = true -> ip <> "" -> all_digits fp = true ->
  rust_float_syntax (sign_str s ++ plain ip fp)
  = Some (FDec s (digits_val (ip ++ fp) 0) (0 - slen fp)).
Proof.
  intros s ip fp Hi Hne Hf. unfold rust_float_syntax.
  assert (Hhd : exists c r, plain ip fp = String c r /\ is_digit c = true).
  { destruct ip as [|c ip']; [congruence|]. simpl in Hi. apply andb_prop in Hi.
    exists c, (ip' ++ frac_text fp). split; [reflexivity | tauto]. }
  destruct Hhd as (c & r & Hpl & Hc).
  assert (Hs : split_sign (sign_str s ++ plain ip fp) = (s, plain ip fp)).
  { destruct s; [reflexivity|]. cbn [sign_str append]. rewrite Hpl. now apply split_sign_digit. }
  rewrite Hs. unfold rust_float_unsigned.
  destruct (lower_s_digits_head c r Hc) as (E1 & E2 & E3).
  cbv zeta. rewrite <- Hpl in E1, E2, E3. rewrite E1, E2, E3. cbn [orb].
  rewrite (scan_mantissa_plain ip fp Hi Hne Hf). reflexivity.
Qed.

(* ---------------------------------------------------------------- general decimal texts
   ddd | ddd.ddd | .ddd, each optionally followed by e|E [+|-] ddd  — every decimal / scientific /
   leading-dot literal of the documented grammar after `_` erasure *)
Inductive esign := ENone | EPlus | EMinus.
Definition esign_text (s : esign) : string := match s with ENone => "" | EPlus => "+" | EMinus => "-" end.
Definition exp_text (ex : option (bool * esign * string)) : string :=
  match ex with
  | None => ""
  | Some (up, sg, ed) => String (if up then "E" else "e")%char (esign_text sg ++ ed)
  end.
Definition exp_val (ex : option (bool * esign * string)) : Z :=
  match ex with
  | None => 0%Z
  | Some (_, EMinus, ed) => (- digits_val ed 0)%Z
  | Some (_, _, ed) => digits_val ed 0
  end.
Definition exp_ok (ex : option (bool * esign * string)) : Prop :=
  match ex with None => True | Some (_, _, ed) => all_digits ed = true /\ ed <> "" end.
Definition dec_text (ip fp : string) ex : string := ip ++ frac_text fp ++ exp_text ex.

Lemma exp_text_no_digit : forall ex, no_digit_head (exp_text ex).
Proof. intros [[[[|] sg] ed]|]; simpl; auto. Qed.
Lemma exp_text_not_dot : forall ex,
  match exp_text ex with String "." r' => span_digits r' | _ => ("", exp_text ex) end = ("", exp_text ex).
Proof. intros [[[[|] sg] ed]|]; reflexivity. Qed.

Lemma scan_exponent_exp_text : forall ex, exp_ok ex -> scan_exponent (exp_text ex) = Some (exp_val ex).
Proof.
  intros [[[up sg] ed]|] H; [|reflexivity]. destruct H as [Hd Hne].
  unfold exp_text, scan_exponent.
  assert (He : Ascii.eqb (lower_c (if up then "E" else "e")) "e" = true) by (destruct up; reflexivity).
  rewrite He.
  assert (Hs : split_sign (esign_text sg ++ ed) = (match sg with EMinus => true | _ => false end, ed)).
  { destruct sg; cbn [esign_text append]; try reflexivity.
    destruct ed as [|c ed']; [congruence|]. simpl in Hd. apply andb_prop in Hd.
    apply split_sign_digit. tauto. }
  rewrite Hs, (span_digits_all ed Hd).
  destruct ed as [|c ed']; [congruence|]. cbn [is_empty orb negb]. destruct sg; reflexivity.
Qed.

Lemma scan_mantissa_dec_text : forall ip fp ex,
  all_digits ip = true -> all_digits fp = true -> (ip <> "" \/ fp <> "") ->
  scan_mantissa (dec_text ip fp ex) = Some (ip, fp, exp_text ex).
Proof.
  intros ip fp ex Hi Hf Hne. unfold scan_mantissa, dec_text.
  destruct fp as [|c fp'].
  - cbn [frac_text is_empty append].
    rewrite (span_digits_app ip _ Hi (exp_text_no_digit ex)).
    rewrite (exp_text_not_dot ex).
    destruct ip; [destruct Hne; congruence | reflexivity].
  - unfold frac_text. cbn [is_empty]. cbv iota.
    change (("." ++ String c fp') ++ exp_text ex) with (String "." (String c fp' ++ exp_text ex)).
    rewrite (span_digits_app ip _ Hi); [|reflexivity].
    cbv beta iota.
    rewrite (span_digits_app (String c fp') _ Hf (exp_text_no_digit ex)).
    cbn [is_empty]. now rewrite andb_false_r.
Qed.

Lemma rust_float_unsigned_dec_text : forall s ip fp ex,
  all_digits ip = true -> all_digits fp = true -> (ip <> "" \/ fp <> "") -> exp_ok ex ->
  rust_float_unsigned s (dec_text ip fp ex)
  = Some (FDec s (digits_val (ip ++ fp) 0) (exp_val ex - slen fp)).
Proof.
  intros s ip fp ex Hi Hf Hne Hex. unfold rust_float_unsigned.
  assert (Hhd : exists c r, dec_text ip fp ex = String c r /\ (is_digit c = true \/ c = "."%char)).
  { unfold dec_text. destruct ip as [|c ip'].
    - destruct fp as [|c2 fp']; [destruct Hne; congruence|].
      exists "."%char, (String c2 fp' ++ exp_text ex). split; [reflexivity | now right].
    - simpl in Hi. apply andb_prop in Hi. exists c, (ip' ++ frac_text fp ++ exp_text ex).
      split; [reflexivity | left; tauto]. }
  destruct Hhd as (c & r & Ht & Hc). cbv zeta.
  assert (E : String.eqb (lower_s (dec_text ip fp ex)) "inf" = false /\
              String.eqb (lower_s (dec_text ip fp ex)) "infinity" = false /\
              String.eqb (lower_s (dec_text ip fp ex)) "nan" = false).
  { rewrite Ht. destruct Hc as [Hc|Hc]; [now apply lower_s_digits_head | subst c; repeat split; reflexivity]. }
  destruct E as (E1 & E2 & E3). rewrite E1, E2, E3. cbn [orb].
  rewrite (scan_mantissa_dec_text ip fp ex Hi Hf Hne), (scan_exponent_exp_text ex Hex). reflexivity.
Qed.

Lemma dec_text_head : forall ip fp ex, all_digits ip = true -> all_digits fp = true -> (ip <> "" \/ fp <> "") ->
  exists c r, dec_text ip fp ex = String c r /\ (is_digit c = true \/ c = "."%char).
Proof.
  intros ip fp ex Hi Hf Hne. unfold dec_text. destruct ip as [|c ip'].
  - destruct fp as [|c2 fp']; [destruct Hne; congruence|].
    exists "."%char, (String c2 fp' ++ exp_text ex). split; [reflexivity | now right].
  - simpl in Hi. apply andb_prop in Hi. exists c, (ip' ++ frac_text fp ++ exp_text ex).
    split; [reflexivity | left; tauto].
Qed.

(* with an optional leading '-' (what Display, serde_json and to_number texts carry) *)
Lemma rust_float_syntax_signed_dec_text : forall s ip fp ex,
  all_digits ip = true -> all_digits fp = true -> (ip <> "" \/ fp <> "") -> exp_ok ex ->
  rust_float_syntax (sign_str s ++ dec_text ip fp ex)
  = Some (FDec s (digits_val (ip ++ fp) 0) (exp_val ex - slen fp)).
Proof.
  intros s ip fp ex Hi Hf Hne Hex. unfold rust_float_syntax.
  assert (Hs : split_sign (sign_str s ++ dec_text ip fp ex) = (s, dec_text ip fp ex)).
  { destruct s; [reflexivity|]. cbn [sign_str append].
    destruct (dec_text_head ip fp ex Hi Hf Hne) as (c & r & Ht & Hc). rewrite Ht.
    destruct Hc as [Hc|Hc]; [now apply split_sign_digit | subst c; reflexivity]. }
  rewrite Hs. now apply rust_float_unsigned_dec_text.
Qed.

Lemma rust_float_syntax_dec_text : forall ip fp ex,
  all_digits ip = true -> all_digits fp = true -> (ip <> "" \/ fp <> "") -> exp_ok ex ->
  rust_float_syntax (dec_text ip fp ex)
  = Some (FDec false (digits_val (ip ++ fp) 0) (exp_val ex - slen fp)).
Proof. intros. now apply (rust_float_syntax_signed_dec_text false). Qed.
