(* proofs/PegCommentsAttach.v — the C08 ATTACH composition: the three container loops of the parser model
   (PegComments.list_loop_c / rec_loop_c / do_loop_c = the `for pair in …` loops of pairs_to_expr_with_comments,
   run by the commented Pratt parser on the item view of the PEG tree) ARE Formatter.attach / attach_do — the
   abstract pair-level model C08's re-attachment theorems (Properties/C08.v, proofs/Idempotent.v) are about —
   applied to the pair sequence obtained by parsing every item of the container ([lels_pairs] / [rels_pairs] /
   [dels_pairs]: `comment` pair -> PComment, item pair -> PItem (parsed item) (eol_comment)).
   So C08's theorems (`attach (layout_pairs items) = items`, `attach_do (do_layout_pairs ..) = ..`) apply to what
   `parse_program_c` builds from the Peg tree of a formatted text; what remains a tested claim is only the grammar
   step "the tree of the text the layout prints has the pair sequence layout_pairs items" (ATTACH stream part 2 and
   the REPARSE stream of checks/c08.py). *)
From Coq Require Import String Ascii List NArith ZArith Bool Arith Lia.
Require Import Blots.Num Blots.gen.Builtins Blots.Ast Blots.Outcome Blots.PrattTypes Blots.gen.PrecTable
               Blots.Pratt Blots.Formatter Blots.proofs.Idempotent.
Require Import Blots.Peg Blots.gen.Grammar Blots.PegToItems Blots.PegComments Blots.proofs.PegComments.
Import ListNotations.
Local Open Scope string_scope.
Local Open Scope list_scope.
Local Open Scope nat_scope.
Local Notation expr := Ast.expr.

Section PairsOf.
  Variable parse : list item -> outcome tres.

  (* the inner pairs of a `list` pair as C08's pair sequence; effects (first failing item wins) in loop order *)
  Fixpoint lels_pairs (els : list lelem) : outcome (option (list (lpair expr))) :=
    match els with
    | [] => Outcome.Ok (Some [])
    | LCom c :: r => do ps <- lels_pairs r; Outcome.Ok (option_map (cons (PComment c)) ps)
    | LItem g eol :: r =>
        do e <- parse g;
        match e with
        | None => Outcome.Ok None
        | Some e' => do ps <- lels_pairs r; Outcome.Ok (option_map (cons (PItem e' eol)) ps)
        end
    end.

  Fixpoint rels_pairs (els : list relem) : outcome (option (list (lpair rentry))) :=
    match els with
    | [] => Outcome.Ok (Some [])
    | RCom c :: r => do ps <- rels_pairs r; Outcome.Ok (option_map (cons (PComment c)) ps)
    | RPairI k v eol :: r =>
        do key <- key_of parse k;
        match key with
        | None => Outcome.Ok None
        | Some key' =>
            do val <- parse v;
            match val with
            | None => Outcome.Ok None
            | Some val' =>
                do ps <- rels_pairs r; Outcome.Ok (option_map (cons (PItem (REntry key' val') eol)) ps)
            end
        end
    | RShortI s eol :: r =>
        do ps <- rels_pairs r; Outcome.Ok (option_map (cons (PItem (REntry (KShort s) ENull) eol)) ps)
    | RSpreadI g eol :: r =>
        do e <- parse g;
        match e with
        | None => Outcome.Ok None
        | Some e' =>
            do ps <- rels_pairs r; Outcome.Ok (option_map (cons (PItem (REntry (KSpread e') ENull) eol)) ps)
        end
    end.

  (* the inner pairs of a `do_block` BEFORE its return_statement (a DRet here is outside the grammar: [no_ret]) *)
  Definition d_not_ret (x : delem) : bool := match x with DRet _ => false | _ => true end.
  Fixpoint dels_pairs (els : list delem) : outcome (option (list (dpair expr))) :=
    match els with
    | [] => Outcome.Ok (Some [])
    | PrattTypes.DStmt g c :: r =>
        do e <- parse g;
        match e with
        | None => Outcome.Ok None
        | Some e' => do ps <- dels_pairs r; Outcome.Ok (option_map (cons (Formatter.DStmt e' c)) ps)
        end
    | DComStmt s _ :: r => do ps <- dels_pairs r; Outcome.Ok (option_map (cons (DComment s)) ps)
    | DCom s :: r => do ps <- dels_pairs r; Outcome.Ok (option_map (cons (DComment s)) ps)
    | DRet _ :: r => dels_pairs r
    end.

  (* ---------------------------------------------------------------- list *)
  Lemma list_loop_c_attach : forall els pending elements,
    list_loop_c parse els pending elements =
    do ps <- lels_pairs els; Outcome.Ok (option_map (fun ps => attach_loop ps pending elements) ps).
  Proof.
    induction els as [|[c|g eol] r IH]; intros pending elements.
    - reflexivity.
    - cbn [list_loop_c lels_pairs]. rewrite IH.
      destruct (lels_pairs r) as [[ps|]| | | |]; reflexivity.
    - cbn [list_loop_c lels_pairs]. destruct (parse g) as [[e|]| | | |]; cbn [obind]; try reflexivity.
      rewrite IH. destruct (lels_pairs r) as [[ps|]| | | |]; reflexivity.
  Qed.

  Theorem list_arm_c_attach : forall els,
    list_arm_c parse els = do ps <- lels_pairs els; Outcome.Ok (option_map (fun ps => EList (attach ps)) ps).
  Proof.
    intro els. unfold list_arm_c. rewrite list_loop_c_attach.
    destruct (lels_pairs els) as [[ps|]| | | |]; cbn [obind option_map]; try reflexivity.
    unfold attach. destruct (attach_loop ps [] []) as [el pd]. reflexivity.
  Qed.

  (* ---------------------------------------------------------------- record *)
  Lemma rec_loop_c_attach : forall els pending entries,
    rec_loop_c parse els pending entries =
    do ps <- rels_pairs els; Outcome.Ok (option_map (fun ps => attach_loop ps pending entries) ps).
  Proof.
    induction els as [|[c|k v eol|s eol|g eol] r IH]; intros pending entries.
    - reflexivity.
    - cbn [rec_loop_c rels_pairs]. rewrite IH. destruct (rels_pairs r) as [[ps|]| | | |]; reflexivity.
    - cbn [rec_loop_c rels_pairs]. destruct (key_of parse k) as [[key|]| | | |]; cbn [obind]; try reflexivity.
      destruct (parse v) as [[val|]| | | |]; cbn [obind]; try reflexivity.
      rewrite IH. destruct (rels_pairs r) as [[ps|]| | | |]; reflexivity.
    - cbn [rec_loop_c rels_pairs]. rewrite IH. destruct (rels_pairs r) as [[ps|]| | | |]; reflexivity.
    - cbn [rec_loop_c rels_pairs]. destruct (parse g) as [[e|]| | | |]; cbn [obind]; try reflexivity.
      rewrite IH. destruct (rels_pairs r) as [[ps|]| | | |]; reflexivity.
  Qed.

  Theorem rec_arm_c_attach : forall els,
    rec_arm_c parse els = do ps <- rels_pairs els; Outcome.Ok (option_map (fun ps => ERec (attach ps)) ps).
  Proof.
    intro els. unfold rec_arm_c. rewrite rec_loop_c_attach.
    destruct (rels_pairs els) as [[ps|]| | | |]; cbn [obind option_map]; try reflexivity.
    unfold attach. destruct (attach_loop ps [] []) as [el pd]. reflexivity.
  Qed.

  (* ---------------------------------------------------------------- do-block *)
  Definition do_result (ps : list (dpair expr)) (e : expr) : expr :=
    let (stmts, ret) := attach_do ps e in EDo stmts ret.

  Lemma do_loop_c_attach : forall body g pending stmts ret0,
    forallb d_not_ret body = true ->
    do_loop_c parse (body ++ [DRet g]) pending stmts ret0 =
    do ps <- dels_pairs body;
    match ps with
    | None => Outcome.Ok None
    | Some ps' =>
        do e <- parse g;
        Outcome.Ok (option_map (fun e' => let (st, pd) := attach_do_loop ps' pending stmts in EDo st (Cm pd e' None)) e)
    end.
  Proof.
    induction body as [|[g0 c|s c|g0|s] r IH]; intros g pending stmts ret0 Hn.
    - cbn [app do_loop_c dels_pairs obind attach_do_loop].
      destruct (parse g) as [[e|]| | | |]; reflexivity.
    - cbn [forallb d_not_ret andb] in Hn. cbn [app do_loop_c dels_pairs].
      destruct (parse g0) as [[e|]| | | |]; cbn [obind]; try reflexivity.
      rewrite (IH g _ _ ret0 Hn). destruct (dels_pairs r) as [[ps|]| | | |]; reflexivity.
    - cbn [forallb d_not_ret andb] in Hn. cbn [app do_loop_c dels_pairs].
      rewrite (IH g _ _ ret0 Hn). destruct (dels_pairs r) as [[ps|]| | | |]; reflexivity.
    - discriminate Hn.
    - cbn [forallb d_not_ret andb] in Hn. cbn [app do_loop_c dels_pairs].
      rewrite (IH g _ _ ret0 Hn). destruct (dels_pairs r) as [[ps|]| | | |]; reflexivity.
  Qed.

  Theorem do_arm_c_attach : forall body g,
    forallb d_not_ret body = true ->
    do_arm_c parse (body ++ [DRet g]) =
    do ps <- dels_pairs body;
    match ps with
    | None => Outcome.Ok None
    | Some ps' => do e <- parse g; Outcome.Ok (option_map (do_result ps') e)
    end.
  Proof.
    intros body g Hn. unfold do_arm_c. rewrite (do_loop_c_attach body g _ _ _ Hn).
    destruct (dels_pairs body) as [[ps|]| | | |]; cbn [obind]; try reflexivity.
    destruct (parse g) as [[e|]| | | |]; cbn [obind option_map]; try reflexivity.
    unfold do_result, attach_do. destruct (attach_do_loop ps [] []) as [st pd]. reflexivity.
  Qed.

  (* the grammar's do_block shape (PegComments.do_shape: one return_statement, last) gives the decomposition *)
  Lemma do_shape_split : forall els, do_shape els = true ->
    exists body g, els = body ++ [DRet g] /\ forallb d_not_ret body = true.
  Proof.
    induction els as [|x r IH]; intro H; [discriminate H|].
    destruct x as [g0 c|s c|g0|s].
    - cbn [do_shape] in H. apply andb_prop in H as [_ H]. destruct (IH H) as (b & g & E & Hb).
      exists (PrattTypes.DStmt g0 c :: b), g. subst r. split; [reflexivity|exact Hb].
    - cbn [do_shape] in H. apply andb_prop in H as [_ H]. destruct (IH H) as (b & g & E & Hb).
      exists (DComStmt s c :: b), g. subst r. split; [reflexivity|exact Hb].
    - destruct r; [|discriminate H]. exists [], g0. split; reflexivity.
    - cbn [do_shape] in H. apply andb_prop in H as [_ H]. destruct (IH H) as (b & g & E & Hb).
      exists (DCom s :: b), g. subst r. split; [reflexivity|exact Hb].
  Qed.

  (* ---------------------------------------------------------------- composition with C08's fixed points *)
  (* IF the inner pairs of the `list` pair of the formatted text are the pairs of the layout (grammar step:
     tested), THEN the parser model rebuilds exactly the items that were formatted *)
  Theorem reparse_list_fixed_point : forall els items,
    lels_pairs els = Outcome.Ok (Some (layout_pairs items)) -> only_last_trailing items = true ->
    list_arm_c parse els = Outcome.Ok (Some (EList items)).
  Proof.
    intros els items H Ho. rewrite list_arm_c_attach, H. cbn [obind option_map].
    rewrite (list_reattach_fixed_point items Ho). reflexivity.
  Qed.
  Theorem reparse_record_fixed_point : forall els entries,
    rels_pairs els = Outcome.Ok (Some (layout_pairs entries)) -> only_last_trailing entries = true ->
    rec_arm_c parse els = Outcome.Ok (Some (ERec entries)).
  Proof.
    intros els entries H Ho. rewrite rec_arm_c_attach, H. cbn [obind option_map].
    rewrite (list_reattach_fixed_point entries Ho). reflexivity.
  Qed.
  Theorem reparse_do_fixed_point : forall body g stmts ret,
    forallb d_not_ret body = true ->
    dels_pairs body = Outcome.Ok (Some (do_layout_pairs stmts ret)) ->
    parse g = Outcome.Ok (Some (cnode ret)) -> ctrailing ret = None ->
    do_arm_c parse (body ++ [DRet g]) = Outcome.Ok (Some (EDo stmts ret)).
  Proof.
    intros body g stmts ret Hn H Hg Ht. rewrite (do_arm_c_attach body g Hn), H. cbn [obind]. rewrite Hg.
    cbn [obind option_map]. unfold do_result. rewrite (do_reattach_fixed_point stmts ret Ht). reflexivity.
  Qed.
  (* whatever the pairs are, after ONE pass the attachment is stable (C08_reattach_after_one_pass on the model) *)
  Theorem reparse_list_stable_after_one_pass : forall els els2 ps,
    lels_pairs els = Outcome.Ok (Some ps) -> eol_only_last ps = true ->
    lels_pairs els2 = Outcome.Ok (Some (layout_pairs (attach ps))) ->
    list_arm_c parse els2 = list_arm_c parse els.
  Proof.
    intros els els2 ps H He H2. rewrite !list_arm_c_attach, H, H2. cbn [obind option_map].
    rewrite (reattach_after_one_pass ps He). reflexivity.
  Qed.
End PairsOf.

(* ------------------------------------------------------------------ inside the commented Pratt parser
   every IList / IRecord / IDo pair, at any nesting depth of a token stream, is handled by these arms *)
Section InParser.
  Variable tbl : ops_map.
  Variable imap : list (oprule * binop).
  Variable pmap : list (oprule * prefix_ctor).
  Local Notation PR := (primary_c tbl imap pmap).
  Local Notation PI := (parse_items_c tbl imap pmap).

  Theorem reparse_attach_matches_model : forall f,
    (forall els, PR (S f) (IList els) =
                 do ps <- lels_pairs (PI f) els; Outcome.Ok (option_map (fun ps => EList (attach ps)) ps))
    /\ (forall els, PR (S f) (IRecord els) =
                    do ps <- rels_pairs (PI f) els; Outcome.Ok (option_map (fun ps => ERec (attach ps)) ps))
    /\ (forall els, do_shape els = true ->
          exists body g, els = body ++ [DRet g] /\ forallb d_not_ret body = true /\
          PR (S f) (IDo els) =
          do ps <- dels_pairs (PI f) body;
          match ps with
          | None => Outcome.Ok None
          | Some ps' => do e <- PI f g; Outcome.Ok (option_map (do_result ps') e)
          end).
  Proof.
    intro f. split; [|split].
    - intro els. cbn [primary_c]. apply list_arm_c_attach.
    - intro els. cbn [primary_c]. apply rec_arm_c_attach.
    - intros els Hs. destruct (do_shape_split els Hs) as (body & g & E & Hn). exists body, g.
      split; [exact E|split; [exact Hn|]]. subst els. cbn [primary_c]. apply do_arm_c_attach. exact Hn.
  Qed.
End InParser.

(* a statement that is a bare container: pairs_to_expr_with_comments IS the arm (no operator loop involved) *)
Lemma obind_ok_eta : forall (A : Type) (x : outcome A), obind x (fun e => Outcome.Ok e) = x.
Proof. intros A x. destruct x; reflexivity. Qed.

Lemma parse_items_c_single : forall c i,
  item_op i = None ->
  parse_items_c impl_table infix_map prefix_map (S (S (S c))) [i] = primary_c impl_table infix_map prefix_map (S c) i.
Proof.
  intros c i Hop. rewrite PI_S, PE_S, Hop.
  destruct (primary_c impl_table infix_map prefix_map (S c) i) as [e| | | |]; cbn [obind fst snd]; reflexivity.
Qed.

Lemma pratt_c_single : forall i,
  item_op i = None ->
  pratt_c [i] = primary_c impl_table infix_map prefix_map (S (4 * items_size [i] + 1)) i.
Proof.
  intros i Hop. unfold pratt_c.
  replace (4 * items_size [i] + 4) with (S (S (S (4 * items_size [i] + 1)))) by lia.
  apply parse_items_c_single. exact Hop.
Qed.

Theorem pratt_c_bare_list : forall els,
  pratt_c [IList els] =
  do ps <- lels_pairs (parse_items_c impl_table infix_map prefix_map (4 * items_size [IList els] + 1)) els;
  Outcome.Ok (option_map (fun ps => EList (attach ps)) ps).
Proof.
  intro els. rewrite pratt_c_single by reflexivity. cbn [primary_c]. apply list_arm_c_attach.
Qed.
Theorem pratt_c_bare_record : forall els,
  pratt_c [IRecord els] =
  do ps <- rels_pairs (parse_items_c impl_table infix_map prefix_map (4 * items_size [IRecord els] + 1)) els;
  Outcome.Ok (option_map (fun ps => ERec (attach ps)) ps).
Proof.
  intro els. rewrite pratt_c_single by reflexivity. cbn [primary_c]. apply rec_arm_c_attach.
Qed.

(* ------------------------------------------------------------------ driver level: C08's second-pass theorems with the
   re-parse done by the parser model.  The two hypotheses are exactly the ones of C08_lib_driver_second_pass, now
   about `parse_program_c (render d)` — a Coq term — instead of an unmodelled parser. *)
Theorem reparse_second_pass_lib : forall O mw p d forest q,
  format_lib O mw p = Some d ->
  parse_program_c (render d) = PCOk forest q ->
  map stmt_content q = map stmt_content p ->
  map stmt_pos q = map triple_pos (relayout 1 (map_first (lib_stmt O mw) p)) ->
  format_lib O mw q = Some d.
Proof.
  intros O mw p d forest q Hd _ Hc Hp. rewrite <- Hd. apply lib_driver_second_pass; assumption.
Qed.
Theorem reparse_second_pass_cli : forall O p forest q,
  parse_program_c (render (format_cli O p)) = PCOk forest q ->
  map stmt_content q = map stmt_content p ->
  format_cli O q = format_cli O p.
Proof. intros O p forest q _ Hc. apply cli_driver_second_pass. exact Hc. Qed.
