(* FmtToksCanon.v — `canon` and the trailing comma (property C07, extension TOK).

   canon is a one-pass rewriting with a look-ahead of three chunks.  A `,` directly before a
   closer at the END of a chunk list is invisible to it, whatever precedes (unless that is
   another `,`):   canon (X ++ [","; c]) = canon (X ++ [c]).
   This is the step from "same chunks up to the layout's final trailing comma" to "same view"
   for a list / record / call whose elements have chunk-equal layouts. *)
From Coq Require Import String Ascii List Bool Arith Lia.
Require Import Blots.Formatter Blots.FmtTokens.
Import ListNotations.
Local Open Scope list_scope.
Local Open Scope string_scope.

Lemma canon_cons : forall t r,
  canon (t :: r) =
  if (t =? ",") && match r with c :: _ => is_closer c | [] => false end then canon r
  else match r with
       | x :: p :: a :: r' =>
           if (t =? "(") && is_name x && (p =? ")") && (a =? "=>") then x :: a :: canon r'
           else t :: canon r
       | _ => t :: canon r
       end.
Proof. reflexivity. Qed.

Lemma closer_cases : forall c, is_closer c = true -> c = ")" \/ c = "]" \/ c = "}".
Proof.
  intros c H. unfold is_closer in H. apply orb_prop in H. destruct H as [H|H].
  - apply orb_prop in H. destruct H as [H|H]; apply String.eqb_eq in H; auto.
  - apply String.eqb_eq in H. auto.
Qed.

Lemma canon_trailing_len : forall n X c, List.length X <= n -> is_closer c = true ->
  (X = [] \/ last X "" <> ",") ->
  canon (X ++ [","; c]) = canon (X ++ [c]).
Proof.
  induction n as [|n IH]; intros X c Hn Hc Hl.
  - destruct X as [|t0 X0]; [|exfalso; cbn [List.length] in Hn; inversion Hn]. cbn [app]. rewrite canon_cons. rewrite Hc. reflexivity.
  - destruct X as [|t X']; [cbn [app]; rewrite canon_cons, Hc; reflexivity|].
    cbn [List.length] in Hn. assert (Hn' : List.length X' <= n) by (apply le_S_n; exact Hn).
    assert (Hc3 := closer_cases c Hc).
    destruct X' as [|x [|p [|a X'']]].
    + (* [t] *)
      destruct Hl as [Hl|Hl]; [discriminate|]. cbn [last] in Hl. apply String.eqb_neq in Hl.
      cbn [app]. rewrite (canon_cons t [","; c]), (canon_cons t [c]), Hl. cbn [andb].
      rewrite (canon_cons "," [c]), Hc. reflexivity.
    + (* [t; x] *)
      assert (Hx : canon ([x] ++ [","; c]) = canon ([x] ++ [c])).
      { apply IH; [exact Hn'|exact Hc|]. right. destruct Hl as [Hl|Hl]; [discriminate|exact Hl]. }
      cbn [app] in Hx |- *. rewrite (canon_cons t [x; ","; c]), (canon_cons t [x; c]).
      destruct ((t =? ",") && is_closer x); [exact Hx|].
      destruct (t =? "("), (is_name x); cbn [andb]; rewrite Hx; reflexivity.
    + (* [t; x; p] *)
      assert (Hx : canon ([x; p] ++ [","; c]) = canon ([x; p] ++ [c])).
      { apply IH; [exact Hn'|exact Hc|]. right. destruct Hl as [Hl|Hl]; [discriminate|exact Hl]. }
      cbn [app] in Hx |- *. rewrite (canon_cons t [x; p; ","; c]), (canon_cons t [x; p; c]).
      destruct ((t =? ",") && is_closer x); [exact Hx|].
      assert (Ec : (c =? "=>") = false) by (destruct Hc3 as [E|[E|E]]; subst c; reflexivity).
      rewrite Ec. change ("," =? "=>") with false. rewrite !andb_false_r, Hx. reflexivity.
    + (* t :: x :: p :: a :: X'' *)
      assert (Hx : canon ((x :: p :: a :: X'') ++ [","; c]) = canon ((x :: p :: a :: X'') ++ [c])).
      { apply IH; [exact Hn'|exact Hc|]. right. destruct Hl as [Hl|Hl]; [discriminate|exact Hl]. }
      assert (Hy : canon (X'' ++ [","; c]) = canon (X'' ++ [c])).
      { apply IH; [cbn [List.length] in Hn'; lia|exact Hc|].
        destruct X'' as [|y Y]; [left; reflexivity|right].
        destruct Hl as [Hl|Hl]; [discriminate|exact Hl]. }
      cbn [app] in Hx |- *.
      rewrite (canon_cons t (x :: p :: a :: X'' ++ [","; c])), (canon_cons t (x :: p :: a :: X'' ++ [c])).
      destruct ((t =? ",") && is_closer x); [exact Hx|].
      destruct ((t =? "(") && is_name x && (p =? ")") && (a =? "=>")); [rewrite Hy|rewrite Hx]; reflexivity.
Qed.

Theorem canon_trailing : forall X c, is_closer c = true -> (X = [] \/ last X "" <> ",") ->
  canon (X ++ [","; c]) = canon (X ++ [c]).
Proof. intros X c. exact (canon_trailing_len (List.length X) X c (le_n _)). Qed.

(* the condition on X is needed *)
Example canon_trailing_needs_condition :
  canon ([","] ++ [","; "]"]) <> canon ([","] ++ ["]"]).
Proof. vm_compute. discriminate. Qed.
