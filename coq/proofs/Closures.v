(* Closures.v — C04: parameter binding, capture at definition time, lookup order in a call. *)
From Coq Require Import String Ascii List ZArith Bool Lia.
Require Import Blots.Num Blots.gen.Builtins Blots.Ast Blots.Value Blots.Outcome Blots.Binop
               Blots.Env Blots.Eval.
Import ListNotations.
Open Scope string_scope.
Open Scope list_scope.
Open Scope nat_scope.

(* ------------------------------------------------------------------ parameter binding *)

(* [min_args] is one past the last Required position *)
Lemma min_args_ge_acc : forall ps i acc, acc <= i -> acc <= min_args ps i acc /\ min_args ps i acc <= i + Datatypes.length ps.
Proof.
  induction ps as [|p ps IH]; intros i acc H; cbn [min_args Datatypes.length]; [lia|].
  destruct (arg_is_req p).
  - destruct (IH (S i) (S i)) as [A B]; lia.
  - destruct (IH (S i) acc) as [A B]; lia.
Qed.

Lemma min_args_covers_required : forall ps i acc k x,
  nth_error ps k = Some (AReq x) -> i + k < min_args ps i acc.
Proof.
  induction ps as [|p ps IH]; intros i acc k x H; [destruct k; discriminate|].
  destruct k as [|k]; cbn [nth_error] in H; cbn [min_args].
  - inversion H; subst. cbn [arg_is_req].
    destruct (min_args_ge_acc ps (S i) (S i)) as [A _]; lia.
  - specialize (IH (S i) (if arg_is_req p then S i else acc) k x H). lia.
Qed.

(* binding never indexes past the argument vector when every Required position is covered *)
Lemma bind_params_total_gen : forall ps idx args acc,
  (forall k x, nth_error ps k = Some (AReq x) -> idx + k < Datatypes.length args) ->
  bind_params ps idx args acc <> None.
Proof.
  induction ps as [|p ps IH]; intros idx args acc H; cbn [bind_params]; [discriminate|].
  destruct p as [x|x|x].
  - assert (Hlt : idx + 0 < Datatypes.length args) by (apply (H 0 x); reflexivity).
    destruct (nth_error args idx) eqn:E.
    + apply IH. intros k y Hk. specialize (H (S k) y Hk). lia.
    + apply nth_error_None in E. lia.
  - apply IH. intros k y Hk. specialize (H (S k) y Hk). lia.
  - apply IH. intros k y Hk. specialize (H (S k) y Hk). lia.
Qed.

Lemma arity_min_le : forall ps n,
  can_accept (lambda_arity ps) n = true -> min_args ps 0 0 <= n.
Proof.
  intros ps n H. unfold can_accept, lambda_arity, arity_can_accept in H.
  destruct (existsb arg_is_rest ps).
  - apply Nat.leb_le in H. exact H.
  - destruct (Nat.eqb (min_args ps 0 0) (Datatypes.length ps)) eqn:E.
    + apply Nat.eqb_eq in H. lia.
    + apply andb_true_iff in H. destruct H as [H _]. apply Nat.leb_le in H. exact H.
Qed.

(* for EVERY parameter list (documented shape or not): once the arity check has passed,
   binding the parameters cannot fail (no index out of bounds) *)
Theorem bind_params_total : forall ps args acc,
  can_accept (lambda_arity ps) (Datatypes.length args) = true ->
  bind_params ps 0 args acc <> None.
Proof.
  intros ps args acc H. apply bind_params_total_gen. intros k x Hk.
  pose proof (min_args_covers_required ps 0 0 k x Hk). pose proof (arity_min_le ps _ H). lia.
Qed.

(* the documented shape: required*, optional*, rest? *)
Fixpoint shape_ok (ps : list lamarg) (stage : nat) : bool :=   (* 0 required, 1 optional, 2 after rest *)
  match ps with
  | [] => true
  | AReq _ :: r => Nat.eqb stage 0 && shape_ok r 0
  | AOpt _ :: r => Nat.leb stage 1 && shape_ok r 1
  | ARest _ :: r => Nat.leb stage 1 && match r with [] => true | _ => false end
  end.
Definition documented_shape (ps : list lamarg) : bool := shape_ok ps 0.

Definition n_required (ps : list lamarg) : nat := Datatypes.length (filter arg_is_req ps).
Definition has_rest (ps : list lamarg) : bool := existsb arg_is_rest ps.

Lemma shape_min_args : forall ps i acc stage, shape_ok ps stage = true ->
  (stage = 0 -> acc = i) ->
  min_args ps i acc = (if Nat.eqb stage 0 then i + n_required ps else acc).
Proof.
  induction ps as [|p ps IH]; intros i acc stage Hs Hacc; cbn [min_args].
  - unfold n_required; cbn. destruct (Nat.eqb stage 0) eqn:E; [apply Nat.eqb_eq in E; rewrite (Hacc E); lia|reflexivity].
  - destruct p as [x|x|x]; cbn [shape_ok] in Hs; cbn [arg_is_req].
    + apply andb_true_iff in Hs. destruct Hs as [Hz Hs]. apply Nat.eqb_eq in Hz. subst stage.
      rewrite (IH (S i) (S i) 0 Hs (fun _ => eq_refl)). cbn [Nat.eqb].
      unfold n_required. cbn [filter arg_is_req Datatypes.length]. lia.
    + apply andb_true_iff in Hs. destruct Hs as [Hz Hs].
      rewrite (IH (S i) acc 1 Hs) by discriminate. cbn [Nat.eqb].
      unfold n_required. cbn [filter arg_is_req].
      destruct (Nat.eqb stage 0) eqn:E; [|reflexivity].
      apply Nat.eqb_eq in E. rewrite (Hacc E).
      (* no Required parameter follows an Optional one in a documented shape *)
      assert (Hn : forall q st, shape_ok q st = true -> 1 <= st -> filter arg_is_req q = []).
      { clear. induction q as [|a q IHq]; intros st Hq Hst; [reflexivity|].
        destruct a; cbn [shape_ok] in Hq; cbn [filter arg_is_req].
        - apply andb_true_iff in Hq. destruct Hq as [Hz _]. apply Nat.eqb_eq in Hz. lia.
        - apply andb_true_iff in Hq. destruct Hq as [_ Hq]. apply (IHq 1 Hq). lia.
        - apply andb_true_iff in Hq. destruct Hq as [_ Hq]. destruct q; [reflexivity|discriminate]. }
      rewrite (Hn ps 1 Hs) by lia. cbn. lia.
    + apply andb_true_iff in Hs. destruct Hs as [Hz Hs]. destruct ps; [|discriminate].
      cbn [min_args]. unfold n_required. cbn.
      destruct (Nat.eqb stage 0) eqn:E; [apply Nat.eqb_eq in E; rewrite (Hacc E); lia|reflexivity].
Qed.

(* ARITY CLASSES of the documented shape: required parameters must be supplied; optional ones
   may be omitted; a rest parameter admits any surplus; any other count is rejected *)
Theorem documented_arity : forall ps n, documented_shape ps = true ->
  can_accept (lambda_arity ps) n =
  (Nat.leb (n_required ps) n && (has_rest ps || Nat.leb n (Datatypes.length ps))).
Proof.
  intros ps n Hs. unfold documented_shape in Hs.
  pose proof (shape_min_args ps 0 0 0 Hs (fun _ => eq_refl)) as Hm. cbn [Nat.eqb] in Hm.
  unfold can_accept, lambda_arity, has_rest. rewrite Hm. cbn [Nat.add].
  destruct (existsb arg_is_rest ps); cbn [arity_can_accept orb].
  - rewrite andb_true_r. reflexivity.
  - destruct (Nat.eqb (n_required ps) (Datatypes.length ps)) eqn:E; cbn [arity_can_accept].
    + apply Nat.eqb_eq in E. rewrite <- E.
      destruct (Nat.eqb n (n_required ps)) eqn:E2.
      * apply Nat.eqb_eq in E2. subst. rewrite Nat.leb_refl. reflexivity.
      * apply Nat.eqb_neq in E2.
        destruct (Nat.leb (n_required ps) n) eqn:L1, (Nat.leb n (n_required ps)) eqn:L2; cbn; auto.
        apply Nat.leb_le in L1, L2. lia.
    + reflexivity.
Qed.

(* positional binding: the i-th parameter is bound to the i-th argument (null for an omitted
   optional, the list of the remaining arguments for rest) — stated through lookup in the
   resulting frame, for parameter lists with distinct names *)
Definition param_value (p : lamarg) (idx : nat) (args : list value) : value :=
  match p with
  | AReq _ | AOpt _ => match nth_error args idx with Some v => v | None => VNull end
  | ARest _ => VList (skipn idx args)
  end.

Lemma bind_params_keeps : forall ps idx args acc fr y,
  bind_params ps idx args acc = Some fr ->
  ~ In y (map arg_name ps) -> lookup_frame fr y = lookup_frame acc y.
Proof.
  induction ps as [|p ps IH]; intros idx args acc fr y H Hy; cbn [bind_params] in H.
  - inversion H; reflexivity.
  - cbn [map In] in Hy.
    assert (Hne : arg_name p <> y) by tauto. assert (Hni : ~ In y (map arg_name ps)) by tauto.
    destruct p as [x|x|x]; cbn [arg_name] in Hne.
    + destruct (nth_error args idx); [|discriminate].
      rewrite (IH _ _ _ _ y H Hni). cbn [lookup_frame].
      destruct (String.eqb y x) eqn:E; [apply String.eqb_eq in E; congruence|reflexivity].
    + rewrite (IH _ _ _ _ y H Hni). cbn [lookup_frame].
      destruct (String.eqb y x) eqn:E; [apply String.eqb_eq in E; congruence|reflexivity].
    + rewrite (IH _ _ _ _ y H Hni). cbn [lookup_frame].
      destruct (String.eqb y x) eqn:E; [apply String.eqb_eq in E; congruence|reflexivity].
Qed.

Theorem bind_params_positional : forall ps idx args acc fr,
  bind_params ps idx args acc = Some fr -> NoDup (map arg_name ps) ->
  forall k p, nth_error ps k = Some p ->
    lookup_frame fr (arg_name p) = Some (param_value p (idx + k) args).
Proof.
  induction ps as [|q ps IH]; intros idx args acc fr H Hnd k p Hk; [destruct k; discriminate|].
  cbn [map] in Hnd. inversion Hnd as [|? ? Hnotin Hnd']; subst.
  destruct k as [|k]; cbn [nth_error] in Hk.
  - inversion Hk; subst p. replace (idx + 0) with idx by lia.
    cbn [bind_params] in H.
    destruct q as [x|x|x]; cbn [arg_name param_value] in *.
    + destruct (nth_error args idx) eqn:E; [|discriminate].
      rewrite (bind_params_keeps _ _ _ _ _ x H Hnotin). cbn [lookup_frame]. rewrite String.eqb_refl. reflexivity.
    + rewrite (bind_params_keeps _ _ _ _ _ x H Hnotin). cbn [lookup_frame]. rewrite String.eqb_refl. reflexivity.
    + rewrite (bind_params_keeps _ _ _ _ _ x H Hnotin). cbn [lookup_frame]. rewrite String.eqb_refl. reflexivity.
  - cbn [bind_params] in H. replace (idx + S k) with (S idx + k) by lia.
    destruct q as [x|x|x].
    + destruct (nth_error args idx); [|discriminate]. eapply IH; eauto.
    + eapply IH; eauto.
    + eapply IH; eauto.
Qed.

(* ------------------------------------------------------------------ capture *)

Lemma capture_acc : forall fr vars acc x v,
  lookup_frame acc x = Some v -> ~ In x vars -> lookup_frame (capture fr vars acc) x = Some v.
Proof.
  intros fr vars; induction vars as [|y vars IH]; intros acc x v Ha Hn; cbn [capture]; [exact Ha|].
  cbn [In] in Hn. assert (y <> x) by tauto. assert (~ In x vars) by tauto.
  destruct (lookup fr y); [|apply IH; auto].
  destruct (is_builtin_name y); [apply IH; auto|].
  apply IH; auto. cbn [lookup_frame].
  destruct (String.eqb x y) eqn:E; [apply String.eqb_eq in E; congruence|exact Ha].
Qed.

(* CAPTURE BY VALUE: every referenced name that is bound when the function is created (and
   is not a built-in name) is in the captured scope with the value it has at that moment *)
Theorem capture_sound : forall fr vars acc x v,
  In x vars -> lookup fr x = Some v -> is_builtin_name x = false ->
  lookup_frame (capture fr vars acc) x = Some v.
Proof.
  intros fr vars; induction vars as [|y vars IH]; intros acc x v Hin Hl Hb; [destruct Hin|].
  cbn [capture]. destruct (string_dec y x) as [->|Hne].
  - rewrite Hl, Hb.
    destruct (in_dec string_dec x vars) as [Hi|Hi].
    + apply IH; auto.
    + apply capture_acc; auto. cbn [lookup_frame]. rewrite String.eqb_refl. reflexivity.
  - destruct Hin as [Heq|Hin]; [congruence|].
    destruct (lookup fr y); [destruct (is_builtin_name y)|]; apply IH; auto.
Qed.

(* nothing else is captured: a captured name was referenced and bound *)
Theorem capture_only : forall fr vars acc x v,
  lookup_frame (capture fr vars acc) x = Some v ->
  lookup_frame acc x = Some v \/ (In x vars /\ lookup fr x = Some v).
Proof.
  intros fr vars; induction vars as [|y vars IH]; intros acc x v H; cbn [capture] in H; [left; exact H|].
  destruct (lookup fr y) as [w|] eqn:El.
  - destruct (is_builtin_name y).
    + destruct (IH _ _ _ H) as [Ha|[Hi Hl]]; [left; exact Ha|right; split; [right; exact Hi|exact Hl]].
    + destruct (IH _ _ _ H) as [Ha|[Hi Hl]].
      * cbn [lookup_frame] in Ha. destruct (String.eqb x y) eqn:E.
        -- apply String.eqb_eq in E; subst. inversion Ha; subst. right; split; [left; reflexivity|exact El].
        -- left; exact Ha.
      * right; split; [right; exact Hi|exact Hl].
  - destruct (IH _ _ _ H) as [Ha|[Hi Hl]]; [left; exact Ha|right; split; [right; exact Hi|exact Hl]].
Qed.

(* ------------------------------------------------------------------ lookup order in a call *)
(* the environment a lambda body runs in: parameters, then the function's own name and
   `inputs`, then the captured scope, then the caller's chain *)
Definition call_frames (st : store) (id : lam_id) (this : value) (local_params : frame)
           (scope : frame) (fr : frames) (inputs_self : frame) : frames :=
  (FOwned, local_params) :: match scope with [] => fr | _ => (FShared, scope) :: fr end.

Theorem lookup_order : forall (local scope : frame) (fr : frames) x,
  lookup ((FOwned, local) :: match scope with [] => fr | _ => (FShared, scope) :: fr end) x =
  match lookup_frame local x with
  | Some v => Some v
  | None => match lookup_frame scope x with
            | Some v => Some v
            | None => lookup fr x
            end
  end.
Proof.
  intros local scope fr x. cbn [lookup]. destruct (lookup_frame local x); [reflexivity|].
  destruct scope as [|p scope]; [reflexivity|]. cbn [lookup]. reflexivity.
Qed.
