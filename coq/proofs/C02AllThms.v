(* C02AllThms.v — C02's theorems for the evaluator the ALL / TEXT-EVAL streams run
   (EvalAll.binop_all o / builtin_all o: every row of the regenerated built-in table and `^`), for EVERY oracle
   record o.  Instances of the generic theorems of C02Twice.v / C02Wf.v / C02Weak.v / C02LetGen.v /
   C02LetProg.v with the three facts of C02AllOps.v.

     no hypothesis on o        : old cells untouched, cfg_wf preserved (also after any program), weakening
     lam_str_blind o           : store-extension invariance, eval-twice (exact / osame / equals / after any
                                 program), let-abstraction (sequential contexts), let-program (one / several
                                 occurrences)

   THE CLOCK.  EvalAll models time_now() as the CONSTANT field o_now of the oracle record: one oracle = one
   reading of the clock, so inside the model "evaluate e twice" reads the same instant twice and eval-twice
   holds with no exclusion.  What the model cannot (and must not) say is that two evaluations at DIFFERENT
   instants agree: [eval_twice_across_clock_stmt] (first evaluation under o, second under o with another
   o_now) is refuted by `time_now()` ([eval_twice_across_clock_refuted]).  That is the documented behaviour of
   a clock, not a defect; the eval-twice theorems below are statements about evaluations that observe the same
   clock reading (exactly: the same oracle record). *)
From Coq Require Import String Ascii List ZArith Bool Lia.
Require Import Blots.Num Blots.gen.Builtins Blots.Ast Blots.Value Blots.Outcome Blots.Binop
               Blots.Env Blots.Eval Blots.BuiltinsHof Blots.Program Blots.EvalInst Blots.EvalFull
               Blots.EvalAll Blots.AllRun
               Blots.proofs.ValueInd Blots.proofs.StoreMono Blots.proofs.Frames Blots.proofs.Scoping
               Blots.proofs.C02Ren Blots.proofs.C02Sim Blots.proofs.C02Ops Blots.proofs.C02Keep
               Blots.proofs.C02Twice Blots.proofs.C02Let Blots.proofs.C02OpsFull Blots.proofs.C02Wf
               Blots.proofs.C02Weak Blots.proofs.C02LetGen Blots.proofs.C02LetProg Blots.proofs.C02AllOps.
Import ListNotations.
Open Scope list_scope.
Open Scope nat_scope.
Open Scope string_scope.

(* ---- the hypothesis is satisfiable: every lookup-table oracle of AllRun.v, and the trivial oracle ---- *)
Lemma lam_str_blind_tables : forall T, lam_str_blind (oracle_of T).
Proof. intros T rho _ a b sc. reflexivity. Qed.
Lemma lam_str_blind_trivial : lam_str_blind oracle_trivial.
Proof. intros rho _ a b sc. reflexivity. Qed.

Section NoHyp.
  Variable o : oracle.
  Notation bi := (binop_all o).
  Notation bu := (builtin_all o).

  Theorem old_cells_untouched_all : forall release d c e r c',
    evalD release bi bu d c e = (r, c') -> store_keep (fst c) (fst c').
  Proof. exact (evalD_store_keep_all o). Qed.

  Theorem evalD_cfg_wf_all : forall release d e c r c',
    cfg_wf c = true -> evalD release bi bu d c e = (r, c') ->
    cfg_wf c' = true /\ length (fst c) <= length (fst c') /\ (forall v, r = Ok v -> ids_lt (length (fst c')) v = true).
  Proof.
    intros release d e c r c' Hc H. apply cfg_wf_iff in Hc.
    destruct (evalD_wf release bi bu (binop_all_wf o) (builtin_all_wf o) d e c Hc) as (L & W & V).
    rewrite H in L, W, V. cbn [fst snd] in *. split; [apply cfg_wf_iff; exact W|split; [exact L|exact V]].
  Qed.

  Theorem program_cfg_wf_all : forall release d0 inputs prog,
    frame_lt 0 inputs = true ->
    cfg_wf (s_cfg (fst (run (evalD release bi bu d0) (init_session inputs) prog))) = true.
  Proof.
    intros release d0 inputs prog Hi. apply cfg_wf_iff. apply run_wf; [|apply init_wf; exact Hi].
    intros e. apply evalD_wf; [exact (binop_all_wf o)|exact (builtin_all_wf o)].
  Qed.
  Theorem session_cfg_wf_all : forall release d0 stop inputs prog,
    frame_lt 0 inputs = true ->
    Forall (fun rc => cfg_wf (snd rc) = true)
           (run_trace (evalD release bi bu d0) stop (init_session inputs) prog).
  Proof.
    intros release d0 stop inputs prog Hi.
    eapply Forall_impl; [|apply (run_trace_wf (evalD release bi bu d0))].
    - intros rc H. apply cfg_wf_iff. exact H.
    - intros e. apply evalD_wf; [exact (binop_all_wf o)|exact (builtin_all_wf o)].
    - apply init_wf; exact Hi.
  Qed.

  Theorem weakening_all : forall release d x w e st k f fr r st' fr',
    String.eqb "inputs" x = false ->
    nocc x e = true -> no_assign e = true -> frames_nm x ((k, f) :: fr) = true -> vnm x w = true ->
    evalD release bi bu d (st, (k, f) :: fr) e = (r, (st', fr')) ->
    fr' = (k, f) :: fr /\
    evalD release bi bu d (st, (k, (x, w) :: f) :: fr) e = (r, (st', (k, (x, w) :: f) :: fr)).
  Proof. intros release. exact (weakening_pure release bi bu (ops_nm_all o)). Qed.

  (* assignments allowed: the final chains agree off x *)
  Theorem weakening_general_all : forall release d x w e st k f fr r st' fr',
    String.eqb "inputs" x = false ->
    nocc x e = true -> frames_nm x ((k, f) :: fr) = true -> vnm x w = true ->
    evalD release bi bu d (st, (k, f) :: fr) e = (r, (st', fr')) ->
    exists frB', evalD release bi bu d (st, (k, (x, w) :: f) :: fr) e = (r, (st', frB')) /\
                 (forall y, String.eqb y x = false -> lookup fr' y = lookup frB' y) /\
                 frames_nm x fr' = true /\ (forall v, r = Ok v -> vnm x v = true).
  Proof. intros release. exact (weakening_generic release bi bu (ops_nm_all o)). Qed.
End NoHyp.

Section Blind.
  Variable o : oracle.
  Hypothesis Hb : lam_str_blind o.
  Notation bi := (binop_all o).
  Notation bu := (builtin_all o).
  Let Hops := ops_commute_all o Hb.

  Theorem store_extension_invariance_all : forall release rho, (forall a b : nat, rho a = rho b -> a = b) ->
    forall d e sA sB fr r sA' fr',
      sinv rho sA sB -> evalD release bi bu d (sA, fr) e = (r, (sA', fr')) ->
      exists sB', evalD release bi bu d (sB, renFr rho fr) e = (oren rho r, (sB', renFr rho fr')) /\
                  sinv rho sA' sB'.
  Proof. intros release. exact (store_extension_invariance release bi bu Hops). Qed.

  Theorem eval_twice_exact_all : forall release d e st fr r1 st1 fr1,
    no_assign e = true -> frames_lt (length st) fr = true ->
    evalD release bi bu d (st, fr) e = (r1, (st1, fr1)) ->
    fr1 = fr /\
    exists st2, evalD release bi bu d (st1, fr) e =
                  (oren (shift (length st) (length st1 - length st)) r1, (st2, fr)) /\
                sinv (shift (length st) (length st1 - length st)) st1 st2.
  Proof.
    intros release d e st fr r1 st1 fr1 Hna Hwf HA.
    destruct (store_keep_old_names _ _ (evalD_store_keep_all o release d (st, fr) e r1 (st1, fr1) HA)) as [Hlen Hk].
    exact (eval_twice_shift release bi bu Hops d e st fr r1 st1 fr1 Hna Hwf HA Hlen Hk).
  Qed.

  Theorem eval_twice_all : forall release d e c r1 c1 r2 c2,
    no_assign e = true -> cfg_wf c = true ->
    evalD release bi bu d c e = (r1, c1) ->
    evalD release bi bu d c1 e = (r2, c2) ->
    osame r1 r2 /\ snd c2 = snd c /\ snd c1 = snd c.
  Proof.
    intros release d e c r1 c1 r2 c2 Hna Hwf HA HB.
    destruct (store_keep_old_names _ _ (evalD_store_keep_all o release d c e r1 c1 HA)) as [Hlen Hk].
    exact (eval_twice_same release bi bu Hops d e c r1 c1 r2 c2 Hna Hwf HA Hlen Hk HB).
  Qed.

  Corollary eval_twice_equals_all : forall release d e c v1 c1 v2 c2,
    no_assign e = true -> cfg_wf c = true ->
    evalD release bi bu d c e = (Ok v1, c1) ->
    evalD release bi bu d c1 e = (Ok v2, c2) ->
    equals v1 v2 = equals v1 v1.
  Proof.
    intros release d e c v1 c1 v2 c2 Hna Hwf HA HB.
    destruct (eval_twice_all release d e c (Ok v1) c1 (Ok v2) c2 Hna Hwf HA HB) as [Hs _].
    apply same_equals. exact Hs.
  Qed.

  Theorem eval_twice_after_any_program_all : forall release d0 d inputs prog e r1 c1 r2 c2,
    frame_lt 0 inputs = true -> no_assign e = true ->
    let c := s_cfg (fst (run (evalD release bi bu d0) (init_session inputs) prog)) in
    evalD release bi bu d c e = (r1, c1) ->
    evalD release bi bu d c1 e = (r2, c2) ->
    osame r1 r2 /\ snd c2 = snd c /\ snd c1 = snd c.
  Proof.
    intros release d0 d inputs prog e r1 c1 r2 c2 Hi Hna c HA HB.
    exact (eval_twice_all release d e c r1 c1 r2 c2 Hna (program_cfg_wf_all o release d0 inputs prog Hi) HA HB).
  Qed.

  Theorem let_abstraction_seq_all : forall release d x s st st1 fr v eA eB rA cA rB cB,
    frames_lt (length st) fr = true ->
    evalD release bi bu d (st, fr) (EId x) = (Ok v, (st, fr)) ->
    evalD release bi bu d (st, fr) s = (Ok v, (st1, fr)) ->
    cell_free v = true ->
    sctx x s eA eB ->
    evalD release bi bu d (st, fr) eA = (rA, cA) ->
    evalD release bi bu d (st, fr) eB = (rB, cB) ->
    osame rA rB.
  Proof.
    intros release d x s st st1 fr v eA eB rA cA rB cB Hwf Hx Hs Hv H HA HB.
    eapply (let_abstraction_seq release bi bu Hops (ops_wf_all o)
              (evalD_store_keep_all o release) d x s fr v Hv st eA eB rA cA rB cB); try eassumption.
    split; [exact Hwf|split; [exact Hx|exists st1; exact Hs]].
  Qed.

  Theorem let_abstraction_seq_multi_all : forall release d x s st st1 fr v eA eB,
    frames_lt (length st) fr = true ->
    evalD release bi bu d (st, fr) (EId x) = (Ok v, (st, fr)) ->
    evalD release bi bu d (st, fr) s = (Ok v, (st1, fr)) ->
    cell_free v = true ->
    sctxs x s eA eB ->
    osame (fst (evalD release bi bu d (st, fr) eA)) (fst (evalD release bi bu d (st, fr) eB)).
  Proof.
    intros release d x s st st1 fr v eA eB Hwf Hx Hs Hv H.
    apply (let_abstraction_seq_multi release bi bu Hops (ops_wf_all o)
             (evalD_store_keep_all o release) d x s fr v Hv st eA eB); [|exact H].
    split; [exact Hwf|split; [exact Hx|exists st1; exact Hs]].
  Qed.

  Theorem let_program_all : forall release d x s C_x C_s st fr v c1 rA cA rB cB,
    frames_lt (length st) fr = true -> no_assign s = true -> no_assign C_s = true ->
    sctx x s C_x C_s ->
    nocc x s = true -> nocc x C_s = true -> frames_nm x fr = true ->
    evalD release bi bu d (st, fr) (EAssign x s) = (Ok v, c1) ->
    cell_free v = true ->
    evalD release bi bu d c1 C_x = (rA, cA) ->
    evalD release bi bu d (st, fr) C_s = (rB, cB) ->
    osame rA rB.
  Proof.
    intros release d.
    exact (let_program release bi bu Hops (ops_wf_all o) (evalD_store_keep_all o release) (ops_nm_all o) d).
  Qed.

  Theorem let_program_multi_all : forall release d x s C_x C_s st fr v c1 rA cA rB cB,
    frames_lt (length st) fr = true -> no_assign s = true -> no_assign C_s = true ->
    sctxs x s C_x C_s ->
    nocc x s = true -> nocc x C_s = true -> frames_nm x fr = true ->
    evalD release bi bu d (st, fr) (EAssign x s) = (Ok v, c1) ->
    cell_free v = true ->
    evalD release bi bu d c1 C_x = (rA, cA) ->
    evalD release bi bu d (st, fr) C_s = (rB, cB) ->
    osame rA rB.
  Proof.
    intros release d.
    exact (let_program_multi release bi bu Hops (ops_wf_all o) (evalD_store_keep_all o release) (ops_nm_all o) d).
  Qed.
  (* after ANY top-level program prefix (function-free inputs): the well-formedness hypothesis is discharged *)
  Theorem let_program_multi_after_prefix_all : forall release d0 d inputs prog x s C_x C_s v c1 rA cA rB cB,
    frame_lt 0 inputs = true ->
    let c := s_cfg (fst (run (evalD release bi bu d0) (init_session inputs) prog)) in
    no_assign s = true -> no_assign C_s = true -> sctxs x s C_x C_s ->
    nocc x s = true -> nocc x C_s = true -> frames_nm x (snd c) = true ->
    evalD release bi bu d c (EAssign x s) = (Ok v, c1) ->
    cell_free v = true ->
    evalD release bi bu d c1 C_x = (rA, cA) ->
    evalD release bi bu d c C_s = (rB, cB) ->
    osame rA rB.
  Proof.
    intros release d0 d inputs prog x s C_x C_s v c1 rA cA rB cB Hin c Hna HnaC Hctx Hns HnC Hfn EA Hv HA HB.
    pose proof (program_cfg_wf_all o release d0 inputs prog Hin) as Hwf. fold c in Hwf.
    destruct c as [st fr]. cbn [snd] in Hfn. unfold cfg_wf in Hwf. cbn [fst snd] in Hwf.
    exact (let_program_multi_all release d x s C_x C_s st fr v c1 rA cA rB cB Hwf Hna HnaC Hctx Hns HnC Hfn EA Hv HA HB).
  Qed.
End Blind.

(* ================= the hypothesis on the text oracle is NECESSARY ================= *)
(* an oracle whose function text prints the cell index of the first captured function *)
Definition peeking_lam_str (_ : list lamarg) (_ : expr) (sc : list (string * value)) : string :=
  match sc with
  | (_, VLam id _ _ _) :: _ => if Nat.eqb id 0 then "cell0" else "other cell"
  | _ => "no captured function"
  end.
Definition oracle_peeking : oracle := {|
  o_sin := o_sin oracle_trivial; o_cos := o_cos oracle_trivial; o_tan := o_tan oracle_trivial;
  o_asin := o_asin oracle_trivial; o_acos := o_acos oracle_trivial; o_atan := o_atan oracle_trivial;
  o_ln := o_ln oracle_trivial; o_log10 := o_log10 oracle_trivial; o_exp := o_exp oracle_trivial;
  o_powf := o_powf oracle_trivial;
  o_trim := o_trim oracle_trivial; o_upper := o_upper oracle_trivial; o_lower := o_lower oracle_trivial;
  o_lam_str := peeking_lam_str;
  o_powi := o_powi oracle_trivial; o_fmt_prec := o_fmt_prec oracle_trivial; o_fmt_exp14 := o_fmt_exp14 oracle_trivial;
  o_parse_f64 := o_parse_f64 oracle_trivial;
  o_now := o_now oracle_trivial
|}.
Definition peek_inner : value := VLam 0 [] (ENum (num_of_Z 1)) [].
Definition peek_outer : value := VLam 1 [] (EId "g") [("g", peek_inner)].

Lemma oracle_peeking_not_blind : ~ lam_str_blind oracle_peeking.
Proof.
  intros H. specialize (H S (fun a b E => eq_add_S a b E) [] (EId "g") [("g", peek_inner)]).
  vm_compute in H. discriminate H.
Qed.

Lemma ops_commute_all_needs_blind : ~ (forall o, ops_commute (binop_all o) (builtin_all o)).
Proof.
  intros H. destruct (H oracle_peeking S (fun a b E => eq_add_S a b E)) as [_ Hbu].
  set (cb := (fun (_ _ : value) (_ : list value) (s : store) => (Err : outcome value, s)) : callback).
  assert (Hcb : cb_eqv S cb cb).
  { intros this f args sA sB Hs. unfold cb. cbn [fst snd]. split; [reflexivity|exact Hs]. }
  assert (Hs : sinv S [] [None]).
  { split; [|split].
    - intros id. unfold lam_name. cbn [nth_error]. destruct id; reflexivity.
    - intros id Hid. cbn [length] in Hid. lia.
    - intros k. reflexivity. }
  destruct (Hbu cb cb Hcb B_to_string [peek_outer] [] [None] Hs) as [E _].
  vm_compute in E. discriminate E.
Qed.

(* ================= the clock ================= *)
Definition with_now (o : oracle) (t : num) : oracle := {|
  o_sin := o_sin o; o_cos := o_cos o; o_tan := o_tan o; o_asin := o_asin o; o_acos := o_acos o; o_atan := o_atan o;
  o_ln := o_ln o; o_log10 := o_log10 o; o_exp := o_exp o; o_powf := o_powf o;
  o_trim := o_trim o; o_upper := o_upper o; o_lower := o_lower o; o_lam_str := o_lam_str o;
  o_powi := o_powi o; o_fmt_prec := o_fmt_prec o; o_fmt_exp14 := o_fmt_exp14 o; o_parse_f64 := o_parse_f64 o;
  o_now := t
|}.
Lemma with_now_blind : forall o t, lam_str_blind o -> lam_str_blind (with_now o t).
Proof. intros o t H rho Hinj a b sc. exact (H rho Hinj a b sc). Qed.

(* eval-twice with the clock ADVANCING between the two evaluations: not a property of a language with a clock *)
Definition eval_twice_across_clock_stmt : Prop :=
  forall o t, lam_str_blind o ->
  forall release d e c r1 c1 r2 c2,
    no_assign e = true -> cfg_wf c = true ->
    evalD release (binop_all o) (builtin_all o) d c e = (r1, c1) ->
    evalD release (binop_all (with_now o t)) (builtin_all (with_now o t)) d c1 e = (r2, c2) ->
    osame r1 r2.

Definition clock_cfg : cfg := ([], [(FOwned, [])]).
Definition clock_expr : expr := ECall (EBuiltin B_time_now) [].
Lemma eval_twice_across_clock_refuted : ~ eval_twice_across_clock_stmt.
Proof.
  intros H.
  specialize (H oracle_trivial (num_of_Z 2) lam_str_blind_trivial true 5 clock_expr clock_cfg
                (fst (evalD true (binop_all oracle_trivial) (builtin_all oracle_trivial) 5 clock_cfg clock_expr))
                (snd (evalD true (binop_all oracle_trivial) (builtin_all oracle_trivial) 5 clock_cfg clock_expr))
                (fst (evalD true (binop_all (with_now oracle_trivial (num_of_Z 2)))
                            (builtin_all (with_now oracle_trivial (num_of_Z 2))) 5
                            (snd (evalD true (binop_all oracle_trivial) (builtin_all oracle_trivial) 5 clock_cfg clock_expr))
                            clock_expr))
                (snd (evalD true (binop_all (with_now oracle_trivial (num_of_Z 2)))
                            (builtin_all (with_now oracle_trivial (num_of_Z 2))) 5
                            (snd (evalD true (binop_all oracle_trivial) (builtin_all oracle_trivial) 5 clock_cfg clock_expr))
                            clock_expr))
                eq_refl eq_refl (surjective_pairing _) (surjective_pairing _)).
  vm_compute in H. discriminate H.
Qed.

(* the same expression under ONE reading of the clock: the instance of eval_twice_all *)
Example eval_twice_time_now_same_clock :
  let ev := evalD true (binop_all oracle_trivial) (builtin_all oracle_trivial) 5 in
  fst (ev clock_cfg clock_expr) = Ok (VNum (num_of_Z 1)) /\
  fst (ev (snd (ev clock_cfg clock_expr)) clock_expr) = Ok (VNum (num_of_Z 1)).
Proof. vm_compute. split; reflexivity. Qed.
