(* proofs/PegCommentsWf.v — `wf_ast` (Comments.v: the return expression of every do-block carries no trailing
   comment), a hypothesis of the formatter-half theorems inside `stmt_ok`, DERIVED from the parser model: every
   expression `pairs_to_expr_with_comments` (PegComments.pratt_c) returns is wf_ast, for EVERY token stream — no
   shape hypothesis needed (do_loop_c builds the return element as `Cm pending e None` or leaves the initial
   `uncommented ENull`; attach_after_last only rewrites trailing fields of list / record elements). *)
From Coq Require Import String Ascii List NArith ZArith Bool Arith Lia.
Require Import Blots.Num Blots.gen.Builtins Blots.Ast Blots.Outcome Blots.PrattTypes Blots.gen.PrecTable
               Blots.Pratt Blots.Formatter Blots.proofs.Comments.
Require Import Blots.Peg Blots.gen.Grammar Blots.PegToItems Blots.PegComments Blots.proofs.PegComments.
Import ListNotations.
Local Open Scope string_scope.
Local Open Scope list_scope.
Local Open Scope nat_scope.
Local Notation expr := Ast.expr.

Definition wf_items (l : list (commented expr)) : bool := forallb (fun c => wf_ast (cnode c)) l.
Definition wf_entry (r : rentry) : bool :=
  match r with
  | REntry (KStatic _) v => wf_ast v
  | REntry (KDyn k) v => wf_ast k && wf_ast v
  | REntry (KShort _) _ => true
  | REntry (KSpread x) _ => wf_ast x
  end.
Definition wf_entries (l : list (commented rentry)) : bool := forallb (fun c => wf_entry (cnode c)) l.

Lemma wf_ast_EList l : wf_ast (EList l) = wf_items l.
Proof. reflexivity. Qed.
Lemma forallb_ext' {A} (f g : A -> bool) : (forall x, f x = g x) -> forall l, forallb f l = forallb g l.
Proof. intros H l. induction l as [|x r IH]; [reflexivity|]. cbn. rewrite H, IH. reflexivity. Qed.

Lemma wf_ast_ERec l : wf_ast (ERec l) = wf_entries l.
Proof.
  cbn [wf_ast]. unfold wf_entries. apply forallb_ext'. intros [ld [[k|k|k|k] v] tr]; reflexivity.
Qed.

(* attach_after_last keeps the nodes *)
Lemma attach_after_last_nodes {A} (P : A -> bool) (els : list (commented A)) pending :
  forallb (fun c => P (cnode c)) els = true ->
  forallb (fun c => P (cnode c)) (attach_after_last els pending) = true.
Proof.
  intro H. unfold attach_after_last. destruct pending as [|p ps]; [exact H|].
  destruct (rev els) as [|[l x tr] before] eqn:Hr; [exact H|].
  assert (He : els = rev before ++ [Cm l x tr]).
  { apply (f_equal (@rev _)) in Hr. rewrite rev_involutive in Hr. cbn in Hr. exact Hr. }
  rewrite He in H. rewrite forallb_app in H. apply andb_prop in H as [H1 H2].
  rewrite forallb_app, H1. cbn [forallb cnode andb] in *. exact H2.
Qed.

Section Loops.
  Variable parse : list item -> outcome tres.
  Hypothesis parse_wf : forall g e, parse g = Outcome.Ok (Some e) -> wf_ast e = true.

  Lemma list_loop_wf : forall els pending elements el' pd',
    wf_items elements = true ->
    list_loop_c parse els pending elements = Outcome.Ok (Some (el', pd')) -> wf_items el' = true.
  Proof.
    induction els as [|[c|g eol] r IH]; intros pending elements el' pd' Hw H.
    - cbn in H. inversion H; subst. exact Hw.
    - cbn [list_loop_c] in H. eapply IH; [exact Hw|exact H].
    - cbn [list_loop_c] in H. destruct (parse g) as [[e|]| | | |] eqn:Hp; cbn [obind] in H; try discriminate H.
      eapply IH; [|exact H]. unfold wf_items in *. rewrite forallb_app, Hw. cbn [forallb cnode].
      rewrite (parse_wf g e Hp). reflexivity.
  Qed.

  Lemma key_of_wf : forall k key, key_of parse k = Outcome.Ok (Some key) ->
    match key with KDyn d => wf_ast d = true | KStatic _ => True | _ => False end.
  Proof.
    intros [s|s|inner] key H; cbn [key_of] in H.
    - inversion H; exact I.
    - inversion H; exact I.
    - destruct (parse inner) as [[d|]| | | |] eqn:Hp; cbn in H; try discriminate H.
      inversion H; subst key. exact (parse_wf _ _ Hp).
  Qed.

  Lemma rec_loop_wf : forall els pending entries el' pd',
    wf_entries entries = true ->
    rec_loop_c parse els pending entries = Outcome.Ok (Some (el', pd')) -> wf_entries el' = true.
  Proof.
    induction els as [|[c|k v eol|s eol|g eol] r IH]; intros pending entries el' pd' Hw H.
    - cbn in H. inversion H; subst. exact Hw.
    - cbn [rec_loop_c] in H. eapply IH; [exact Hw|exact H].
    - cbn [rec_loop_c] in H.
      destruct (key_of parse k) as [[key|]| | | |] eqn:Hk; cbn [obind] in H; try discriminate H.
      destruct (parse v) as [[val|]| | | |] eqn:Hv; cbn [obind] in H; try discriminate H.
      eapply IH; [|exact H]. unfold wf_entries in *. rewrite forallb_app, Hw. cbn [forallb cnode andb].
      rewrite andb_true_r. pose proof (key_of_wf k key Hk) as Hkw. pose proof (parse_wf v val Hv) as Hvw.
      destruct key; cbn [wf_entry]; try contradiction; [exact Hvw|rewrite Hkw, Hvw; reflexivity].
    - cbn [rec_loop_c] in H. eapply IH; [|exact H]. unfold wf_entries in *. rewrite forallb_app, Hw. reflexivity.
    - cbn [rec_loop_c] in H. destruct (parse g) as [[e|]| | | |] eqn:Hp; cbn [obind] in H; try discriminate H.
      eapply IH; [|exact H]. unfold wf_entries in *. rewrite forallb_app, Hw. cbn [forallb cnode andb wf_entry].
      rewrite (parse_wf g e Hp). reflexivity.
  Qed.

  Lemma list_arm_wf : forall els t, list_arm_c parse els = Outcome.Ok (Some t) -> wf_ast t = true.
  Proof.
    intros els t H. unfold list_arm_c in H.
    destruct (list_loop_c parse els [] []) as [[[el' pd']|]| | | |] eqn:Hl; cbn in H; try discriminate H.
    inversion H. rewrite wf_ast_EList. unfold wf_items. apply attach_after_last_nodes.
    exact (list_loop_wf els [] [] el' pd' eq_refl Hl).
  Qed.
  Lemma rec_arm_wf : forall els t, rec_arm_c parse els = Outcome.Ok (Some t) -> wf_ast t = true.
  Proof.
    intros els t H. unfold rec_arm_c in H.
    destruct (rec_loop_c parse els [] []) as [[[el' pd']|]| | | |] eqn:Hl; cbn in H; try discriminate H.
    inversion H. rewrite wf_ast_ERec. unfold wf_entries. apply attach_after_last_nodes.
    exact (rec_loop_wf els [] [] el' pd' eq_refl Hl).
  Qed.

  Lemma do_loop_wf : forall els pending stmts ret t,
    wf_items stmts = true -> wf_ast (cnode ret) = true -> ctrailing ret = None ->
    do_loop_c parse els pending stmts ret = Outcome.Ok (Some t) -> wf_ast t = true.
  Proof.
    induction els as [|[g c|s c|g|s] r IH]; intros pending stmts ret t Hw Hr Ht H.
    - cbn in H. inversion H; subst t. cbn [wf_ast]. fold (wf_items stmts). rewrite Hw, Hr, Ht. reflexivity.
    - cbn [do_loop_c] in H. destruct (parse g) as [[e|]| | | |] eqn:Hp; cbn [obind] in H; try discriminate H.
      eapply IH; [|exact Hr|exact Ht|exact H]. unfold wf_items in *. rewrite forallb_app, Hw. cbn [forallb cnode].
      rewrite (parse_wf g e Hp). reflexivity.
    - cbn [do_loop_c] in H. eapply IH; eassumption.
    - cbn [do_loop_c] in H. destruct (parse g) as [[e|]| | | |] eqn:Hp; cbn [obind] in H; try discriminate H.
      eapply IH; [exact Hw| | |exact H]; [exact (parse_wf g e Hp)|reflexivity].
    - cbn [do_loop_c] in H. eapply IH; eassumption.
  Qed.

  Lemma do_arm_wf : forall els t, do_arm_c parse els = Outcome.Ok (Some t) -> wf_ast t = true.
  Proof.
    intros els t H. unfold do_arm_c in H.
    exact (do_loop_wf els [] [] (uncommented ENull) t eq_refl eq_refl eq_refl H).
  Qed.

  Lemma omapM_wf : forall args es, omapM parse args = Outcome.Ok (Some es) -> forallb wf_ast es = true.
  Proof.
    induction args as [|g r IH]; intros es H.
    - cbn in H. inversion H; reflexivity.
    - cbn [omapM] in H. destruct (parse g) as [[e|]| | | |] eqn:Hp; cbn [obind] in H; try discriminate H.
      destruct (omapM parse r) as [[es'|]| | | |] eqn:Hm; cbn [obind option_map] in H; try discriminate H.
      inversion H; subst es. cbn [forallb]. rewrite (parse_wf g e Hp), (IH es' eq_refl). reflexivity.
  Qed.
End Loops.

Section Main.
  Variable tbl : ops_map.
  Variable imap : list (oprule * binop).
  Variable pmap : list (oprule * prefix_ctor).
  Local Notation PE := (pexpr_c tbl imap pmap).
  Local Notation PL := (ploop_c tbl imap pmap).
  Local Notation PO := (map_postfix_c tbl imap pmap).
  Local Notation PR := (primary_c tbl imap pmap).
  Local Notation PI := (parse_items_c tbl imap pmap).

  Ltac bind_ok H x Hx :=
    match type of H with
    | obind ?e _ = _ => destruct e as [x| | | |] eqn:Hx; cbn [obind] in H; try discriminate H
    end.

  Definition wfS (f : nat) : Prop :=
    (forall rbp its t rest, PE f rbp its = Outcome.Ok (Some t, rest) -> wf_ast t = true)
    /\ (forall rbp lhs its t rest, wf_ast lhs = true -> PL f rbp (Some lhs) its = Outcome.Ok (Some t, rest) ->
                                   wf_ast t = true)
    /\ (forall lhs pr0 t, wf_ast lhs = true -> PO f (Some lhs) pr0 = Outcome.Ok (Some t) -> wf_ast t = true)
    /\ (forall pr0 t, PR f pr0 = Outcome.Ok (Some t) -> wf_ast t = true)
    /\ (forall its t, PI f its = Outcome.Ok (Some t) -> wf_ast t = true).

  Lemma wf_all : forall f, wfS f.
  Proof.
    induction f as [|f (IHa & IHb & IHc & IHd & IHe)].
    { repeat split; intros; discriminate. }
    assert (Hpk : forall g e, PI f g = Outcome.Ok (Some e) -> wf_ast e = true) by exact IHe.
    split; [|split; [|split; [|split]]].
    - (* pexpr *)
      intros rbp its t rest H. rewrite (PE_S tbl imap pmap) in H.
      destruct its as [|pr0 rest0]; [discriminate H|].
      bind_ok H lr Hlr. destruct lr as [e mid]. cbn [fst snd] in H.
      destruct e as [e|]; [|apply (PL_none tbl imap pmap) in H; discriminate H].
      refine (IHb _ _ _ _ _ _ H).
      destruct (item_op pr0) as [r|] eqn:Hop.
      + destruct (ops_get tbl r) as [[[| |a] p]|] eqn:Hops; try discriminate Hlr.
        bind_ok Hlr rr Hrr. destruct rr as [x mid']. cbn [fst snd] in Hlr.
        bind_ok Hlr e' He'. inversion Hlr; subst e' mid'. clear Hlr.
        unfold map_prefix in He'.
        destruct x as [x|]; [|destruct (assoc_find r pmap) as [[u|]|]; inversion He'].
        pose proof (IHa _ _ _ _ Hrr) as Hx.
        destruct (assoc_find r pmap) as [[u|]|]; inversion He'; subst e; cbn [wf_ast]; exact Hx.
      + bind_ok Hlr e' He'. inversion Hlr; subst e' mid. exact (IHd _ _ He').
    - (* ploop *)
      intros rbp lhs its t rest Hl H. rewrite (PL_S tbl imap pmap) in H. bind_ok H l Hlb.
      destruct (Nat.ltb rbp l).
      2:{ inversion H; subst. exact Hl. }
      destruct its as [|pr0 rest0]; [discriminate H|].
      destruct (item_op pr0) as [r|] eqn:Hop; [|discriminate H].
      destruct (ops_get tbl r) as [[[| |a] p]|] eqn:Hops; try discriminate H.
      + bind_ok H e He. destruct e as [e|]; [|apply (PL_none tbl imap pmap) in H; discriminate H].
        exact (IHb _ _ _ _ _ (IHc _ _ _ Hl He) H).
      + bind_ok H rr Hrr. destruct rr as [x mid]. cbn [fst snd] in H.
        bind_ok H e He. destruct e as [e|]; [|apply (PL_none tbl imap pmap) in H; discriminate H].
        unfold map_infix in He. destruct (assoc_find r imap) as [o|]; [|discriminate He].
        destruct x as [x|]; [|inversion He]. inversion He; subst e. clear He.
        refine (IHb _ _ _ _ _ _ H). cbn [wf_ast]. rewrite Hl, (IHa _ _ _ _ Hrr). reflexivity.
    - (* map_postfix *)
      intros lhs pr0 t Hl H. cbn [map_postfix_c] in H.
      destruct pr0; try discriminate H.
      + destruct r; try discriminate H. inversion H; subst t. exact Hl.
      + bind_ok H i Hi. destruct i as [i|]; inversion H; subst t. cbn [wf_ast]. rewrite Hl, (Hpk _ _ Hi). reflexivity.
      + inversion H; subst t. exact Hl.
      + bind_ok H a Ha. destruct a as [a|]; inversion H; subst t. cbn [wf_ast].
        rewrite Hl, (omapM_wf _ Hpk _ _ Ha). reflexivity.
    - (* primary *)
      intros pr0 t H. cbn [primary_c] in H.
      destruct pr0; try discriminate H; try (inversion H; subst t; reflexivity).
      + inversion H; try subst t. destruct (builtin_of_name s); reflexivity.
      + exact (Hpk _ _ H).
      + exact (list_arm_wf _ Hpk _ _ H).
      + exact (rec_arm_wf _ Hpk _ _ H).
      + bind_ok H b Hb. destruct b as [b|]; inversion H; try subst t. cbn [wf_ast]. exact (Hpk _ _ Hb).
      + bind_ok H c' Hc. destruct c' as [c'|]; [|inversion H].
        bind_ok H t' Ht. destruct t' as [t'|]; [|inversion H].
        bind_ok H e' He. destruct e' as [e'|]; inversion H; try subst t.
        cbn [wf_ast]. rewrite (Hpk _ _ Hc), (Hpk _ _ Ht), (Hpk _ _ He). reflexivity.
      + exact (do_arm_wf _ Hpk _ _ H).
      + bind_ok H v' Hv. destruct v' as [v'|]; inversion H; try subst t. cbn [wf_ast]. exact (Hpk _ _ Hv).
    - (* parse_items *)
      intros its t H. rewrite (PI_S tbl imap pmap) in H. bind_ok H r Hr. destruct r as [x rest]. cbn [fst] in H.
      inversion H; subst x. exact (IHa _ _ _ _ Hr).
  Qed.
End Main.

(* every expression pairs_to_expr_with_comments returns is wf_ast *)
Theorem pratt_c_wf_ast : forall its t, pratt_c its = Outcome.Ok (Some t) -> wf_ast t = true.
Proof.
  intros its t H.
  destruct (wf_all impl_table infix_map prefix_map (4 * items_size its + 4)) as (_ & _ & _ & _ & He).
  exact (He _ _ H).
Qed.

(* ... hence every statement of every program the statement loop builds *)
Definition stmt_wf_ast (s : stmt) : bool :=
  match s with St (SExpr e) _ _ _ | St (SOut e) _ _ _ => wf_ast e | St (SComment _) _ _ _ => true end.

Lemma stmt_of_tree_wf : forall text t s,
  stmt_of_tree text t = Outcome.Ok (Some (Some s)) -> stmt_wf_ast s = true.
Proof.
  intros text [r s0 e0 kids] s H. cbn [stmt_of_tree] in H.
  destruct kids as [|first more]; [inversion H|].
  destruct (trule first);
    try (destruct (pratt_c (conv_kids text first)) as [[x|]| | | |] eqn:Hp; cbn [obind] in H; try discriminate H;
         inversion H; subst s; cbn [stmt_wf_ast]; exact (pratt_c_wf_ast _ _ Hp)).
  inversion H; subst s. reflexivity.
Qed.

Theorem program_of_forest_wf : forall text l p,
  program_of_forest text l = Outcome.Ok (Some p) -> forallb stmt_wf_ast p = true.
Proof.
  intros text. induction l as [|t l IH]; intros p H.
  - cbn in H. inversion H; reflexivity.
  - cbn [program_of_forest] in H. destruct (is_rule PG_statement t); [|exact (IH p H)].
    destruct (stmt_of_tree text t) as [[s|]| | | |] eqn:Hst; cbn [obind] in H; try discriminate H.
    destruct (program_of_forest text l) as [[p'|]| | | |] eqn:Hp; cbn [obind option_map] in H; try discriminate H.
    inversion H; subst p. destruct s as [x|]; [|exact (IH p' eq_refl)].
    cbn [forallb]. rewrite (stmt_of_tree_wf text t x Hst), (IH p' eq_refl). reflexivity.
Qed.

(* the forest / program pair parse_program_c returns is a run of the statement loop *)
Lemma parse_program_c_inv : forall text forest p,
  parse_program_c text = PCOk forest p -> program_of_forest text forest = Outcome.Ok (Some p).
Proof.
  intros text forest p. unfold parse_program_c.
  generalize (Peg.parse blots_grammar (peg_fuel text) PG_input text). intros r H.
  destruct r as [s|s| |]; try discriminate H.
  revert H. generalize (rev (out s)). intros fr H.
  destruct (program_of_forest text fr) as [[q|]| | | |] eqn:Hp; try discriminate H.
  injection H as <- <-. exact Hp.
Qed.

Theorem parse_program_c_wf : forall text forest p,
  parse_program_c text = PCOk forest p -> forallb stmt_wf_ast p = true.
Proof.
  intros text forest p H. exact (program_of_forest_wf _ _ _ (parse_program_c_inv _ _ _ H)).
Qed.

(* ------------------------------------------------------------------ the formatter-half hypothesis with wf_ast discharged
   [stmt_ok_parsed] = DriverText.stmt_ok without its `wf_ast e = true` conjunct; for a program that comes out of the
   parser model the two are equivalent, so the end-to-end theorems (tree -> emitted text) need one hypothesis less. *)
Require Import Blots.proofs.Scan Blots.proofs.ScanFmt Blots.proofs.DriverText Blots.proofs.PegCommentsCompose.

Definition stmt_ok_parsed (O : oracles) (key_ok : string -> bool) (mw : option nat) (s : stmt) : Prop :=
  let w := match mw with Some n => n | None => DEFAULT_MAX_COLUMNS end in
  match s with
  | St k eol _ _ =>
      (match k with
       | SComment c => comment_ok c = true
       | SExpr e =>
           atoms_ok key_ok e = true /\
           forallb cfree (doc_opaque (fmtd O w e 0)) = true /\
           opaque_texts_neutral (fmtd O w e 0)
       | SOut e =>
           atoms_ok key_ok e = true /\
           forallb cfree (doc_opaque (fmtd O w (EOutput e) 0)) = true /\
           opaque_texts_neutral (fmtd O w (EOutput e) 0)
       end) /\
      match eol with
      | Some c => comment_ok c = true /\ match k with SComment _ => False | _ => True end
      | None => True
      end
  end.

Lemma stmt_ok_of_parsed : forall O key_ok mw s,
  stmt_wf_ast s = true -> stmt_ok_parsed O key_ok mw s -> stmt_ok O key_ok mw s.
Proof.
  intros O key_ok mw [k eol sl el] Hw H. unfold stmt_ok, stmt_ok_parsed in *. destruct H as [Hk He]. split; [|exact He].
  destruct k; cbn [stmt_wf_ast] in Hw; try exact Hk; (split; [exact Hw|exact Hk]).
Qed.

Lemma program_ok_of_parsed : forall O key_ok mw p,
  forallb stmt_wf_ast p = true -> Forall (stmt_ok_parsed O key_ok mw) p -> Forall (stmt_ok O key_ok mw) p.
Proof.
  intros O key_ok mw p Hw H. induction H as [|s p Hs _ IH]; [constructor|].
  cbn [forallb] in Hw. apply andb_prop in Hw as [H1 H2]. constructor; [apply stmt_ok_of_parsed; assumption|exact (IH H2)].
Qed.

Theorem tree_to_text_lib_parsed :
  forall O key_ok, (forall k, key_ok k = true -> neutral (o_record_key O k)) ->
  forall text forest p mw d,
  forest_view_ok text forest = true -> forest_shape_ok text forest = true ->
  forest_no_empty_container text forest = true ->
  program_of_forest text forest = Outcome.Ok (Some p) ->
  Forall (stmt_ok_parsed O key_ok mw) p -> format_lib O mw p = Some d ->
  scan_comments (render d) = forest_comments text forest.
Proof.
  intros O key_ok Hk text forest p mw d Hv Hs Hn Hp Hok Hd.
  apply (tree_to_text_lib O key_ok Hk text forest p mw d Hv Hs Hn Hp); [|exact Hd].
  apply program_ok_of_parsed; [exact (program_of_forest_wf _ _ _ Hp)|exact Hok].
Qed.

Theorem tree_to_text_cli_parsed :
  forall O key_ok, (forall k, key_ok k = true -> neutral (o_record_key O k)) ->
  forall text forest p,
  forest_view_ok text forest = true -> forest_shape_ok text forest = true ->
  forest_no_empty_container text forest = true ->
  program_of_forest text forest = Outcome.Ok (Some p) ->
  Forall (stmt_ok_parsed O key_ok None) p ->
  scan_comments (render (format_cli O p)) = forest_comments text forest.
Proof.
  intros O key_ok Hk text forest p Hv Hs Hn Hp Hok.
  apply (tree_to_text_cli O key_ok Hk text forest p Hv Hs Hn Hp).
  apply program_ok_of_parsed; [exact (program_of_forest_wf _ _ _ Hp)|exact Hok].
Qed.
