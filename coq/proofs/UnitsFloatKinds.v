(* proofs/UnitsFloatKinds.v — C17, binary64: there-and-back for LINEAR AND RECIPROCAL units in any
   mixture (UnitsFloat.v proves the linear/linear case).  Going A -> B -> A through the base
   unit is four operations, each `x * c`, `x / c` (linear) or `c / x` (reciprocal; the value is a
   finite non-zero double, so the `value == 0.0` branch is not taken); each is correctly rounded
   (nmul_rel / ndiv_rel), and over the reals the four compose to the identity whatever the kinds,
   so the result is v * (1+d1)(1+d2)(1+d3)(1+d4) with |di| <= u/(1-u), u = 2^-53 (a rounding error
   that ends up in a denominator is 1/(1+e) = 1+d, |d| <= u/(1-u)).  Hence
   |result - v| <= ((1+u/(1-u))^4 - 1) |v|  (< 4.0000000000000005 * 2^-53 |v|), provided the four
   exact intermediate results lie in the normal range.  Temperature units (affine) are not
   covered.  Flocq real-number layer (allow-listed axioms). *)
From Coq Require Import ZArith Reals String List Bool Lia Lra Floats.SpecFloat.
From Flocq Require Import Core.Core IEEE754.BinarySingleNaN.
Require Import Blots.Num Blots.UnitsBase Blots.gen.UnitsTable Blots.Units Blots.proofs.UnitsFloat.
Open Scope R_scope.

(* kind (false = linear, true = reciprocal) and coefficient of a unit; None for temperature *)
Definition kind_coef (u : unit) : option (bool * literal) :=
  match u_conv u with
  | Linear c => Some (false, c)
  | Reciprocal c => Some (true, c)
  | Temperature _ _ => None
  end.

(* the exact real operation of one conversion step *)
Definition step_R (recip to_base : bool) (c x : R) : R :=
  if recip then c / x else if to_base then x * c else x / c.

Definition step_fl (to_base : bool) (u : unit) (x : num) : num :=
  if to_base then convert_to_base fl u x else convert_from_base fl u x.

Lemma fin_not_zero : forall x, fin x -> neqb x nzero = false.
Proof. intros [| | |s m e] F; simpl in F; try contradiction. destruct s; reflexivity. Qed.

Lemma fin_Rv_neq_0 : forall x, fin x -> Rv x <> 0.
Proof.
  intros [| | |s m e] F; simpl in F; try contradiction. unfold Rv. simpl.
  apply F2R_neq_0. simpl. destruct s; discriminate.
Qed.

(* one step, any kind, either direction: correctly rounded *)
Lemma step_rel : forall u k l x to_base,
  kind_coef u = Some (k, l) ->
  let c := num_of_bits (l_bits l) in
  fin x -> fin c -> in_range (step_R k to_base (Rv c) (Rv x)) ->
  exists e, Rabs e <= u53 /\ fin (step_fl to_base u x) /\
            Rv (step_fl to_base u x) = step_R k to_base (Rv c) (Rv x) * (1 + e).
Proof.
  intros u k l x to_base K c Fx Fc HR. unfold kind_coef in K.
  unfold step_fl, convert_to_base, convert_from_base.
  destruct (u_conv u) as [c0|c0|f g] eqn:E; try discriminate K; injection K as <- <-;
    destruct to_base; cbn [step_R] in HR |- *; cbn [a_mul a_div a_lit a_is_zero a_inf fl T].
  - exact (nmul_rel x c Fx Fc HR).
  - exact (ndiv_rel x c Fx Fc HR).
  - rewrite (fin_not_zero x Fx). exact (ndiv_rel c x Fc Fx HR).
  - rewrite (fin_not_zero x Fx). exact (ndiv_rel c x Fc Fx HR).
Qed.

(* an error factor in a denominator *)
Definition u53' : R := u53 / (1 - u53).

Lemma u53'_bounds : 0 <= u53 <= u53' /\ u53' < 1.
Proof.
  unfold u53'. assert (E : u53 = / 9007199254740992).
  { unfold u53. change (-53 + 1)%Z with (-52)%Z. change (bpow radix2 (-52)) with (/ 4503599627370496). lra. }
  rewrite E. split; [split; [lra|]|].
  - apply Rmult_le_reg_r with (1 - / 9007199254740992); [lra|].
    unfold Rdiv. rewrite Rmult_assoc, Rinv_l by lra. lra.
  - apply Rmult_lt_reg_r with (1 - / 9007199254740992); [lra|].
    unfold Rdiv. rewrite Rmult_assoc, Rinv_l by lra. lra.
Qed.

Lemma err_id : forall e, Rabs e <= u53 -> Rabs ((1 + e) - 1) <= u53'.
Proof. intros e H. replace (1 + e - 1) with e by ring. destruct u53'_bounds as [[_ L] _]. lra. Qed.

Lemma err_inv : forall e, Rabs e <= u53 -> 1 + e <> 0 /\ Rabs (/ (1 + e) - 1) <= u53'.
Proof.
  intros e H. pose proof u53_lt1 as U. apply Rabs_le_inv in H.
  assert (P : 0 < 1 + e) by lra. split; [lra|].
  replace (/ (1 + e) - 1) with (- e * / (1 + e)) by (field; lra).
  rewrite Rabs_mult, Rabs_Ropp, (Rabs_pos_eq (/ (1 + e))) by (left; now apply Rinv_0_lt_compat).
  unfold u53', Rdiv.
  apply Rmult_le_compat; try apply Rabs_pos.
  - left. now apply Rinv_0_lt_compat.
  - apply Rabs_le. lra.
  - apply Rinv_le_contravar; lra.
Qed.

(* four factors, each within u53' of 1 *)
Lemma four_factors : forall a b c d,
  Rabs (a - 1) <= u53' -> Rabs (b - 1) <= u53' -> Rabs (c - 1) <= u53' -> Rabs (d - 1) <= u53' ->
  Rabs (a * b * c * d - 1) <= (1 + u53') * (1 + u53') * (1 + u53') * (1 + u53') - 1.
Proof.
  intros a b c d Ha Hb Hc Hd. destruct u53'_bounds as [[U0 U1] U2].
  assert (P : 0 <= u53') by lra.
  pose proof (prod_err a b u53' u53' P P Ha Hb) as Q12.
  assert (H12 : 0 <= (1 + u53') * (1 + u53') - 1) by nra.
  pose proof (prod_err _ c _ u53' H12 P Q12 Hc) as Q123.
  assert (H123 : 0 <= (1 + ((1 + u53') * (1 + u53') - 1)) * (1 + u53') - 1) by nra.
  pose proof (prod_err _ d _ u53' H123 P Q123 Hd) as Q.
  eapply Rle_trans; [exact Q|]. right. ring.
Qed.

Theorem there_and_back_float_lin_recip : forall ua ub ka kb la lb v,
  kind_coef ua = Some (ka, la) -> kind_coef ub = Some (kb, lb) ->
  let ca := num_of_bits (l_bits la) in
  let cb := num_of_bits (l_bits lb) in
  fin v -> fin ca -> fin cb ->
  let r1 := convert_to_base fl ua v in
  let r2 := through_base fl v ua ub in
  let r3 := convert_to_base fl ub r2 in
  let r4 := through_base fl r2 ub ua in
  in_range (step_R ka true (Rv ca) (Rv v)) -> in_range (step_R kb false (Rv cb) (Rv r1)) ->
  in_range (step_R kb true (Rv cb) (Rv r2)) -> in_range (step_R ka false (Rv ca) (Rv r3)) ->
  exists d1 d2 d3 d4,
    Rabs d1 <= u53' /\ Rabs d2 <= u53' /\ Rabs d3 <= u53' /\ Rabs d4 <= u53' /\
    Rv r4 = Rv v * ((1 + d1) * (1 + d2) * (1 + d3) * (1 + d4)) /\
    Rabs (Rv r4 - Rv v) <= ((1 + u53') * (1 + u53') * (1 + u53') * (1 + u53') - 1) * Rabs (Rv v).
Proof.
  intros ua ub ka kb la lb v Ka Kb ca cb Fv Fa Fb r1 r2 r3 r4.
  change r1 with (step_fl true ua v). change r2 with (step_fl false ub (step_fl true ua v)).
  change r3 with (step_fl true ub (step_fl false ub (step_fl true ua v))).
  change r4 with (step_fl false ua (step_fl true ub (step_fl false ub (step_fl true ua v)))).
  clear r1 r2 r3 r4. intros R1 R2 R3 R4.
  destruct (step_rel ua ka la v true Ka Fv Fa R1) as (e1 & He1 & F1 & V1).
  set (x1 := step_fl true ua v) in *.
  destruct (step_rel ub kb lb x1 false Kb F1 Fb R2) as (e2 & He2 & F2 & V2).
  set (x2 := step_fl false ub x1) in *.
  destruct (step_rel ub kb lb x2 true Kb F2 Fb R3) as (e3 & He3 & F3 & V3).
  set (x3 := step_fl true ub x2) in *.
  destruct (step_rel ua ka la x3 false Ka F3 Fa R4) as (e4 & He4 & F4 & V4).
  set (x4 := step_fl false ua x3) in *.
  fold ca in V1, V4. fold cb in V2, V3.
  pose proof (fin_Rv_neq_0 _ Fa) as Na. pose proof (fin_Rv_neq_0 _ Fb) as Nb.
  pose proof (fin_Rv_neq_0 _ Fv) as Nv.
  pose proof (fin_Rv_neq_0 _ F1) as N1. pose proof (fin_Rv_neq_0 _ F2) as N2.
  pose proof (fin_Rv_neq_0 _ F3) as N3.
  destruct (err_inv e1 He1) as [P1 I1]. destruct (err_inv e2 He2) as [P2 I2].
  destruct (err_inv e3 He3) as [P3 I3]. destruct (err_inv e4 He4) as [P4 I4].
  pose proof (err_id e1 He1) as J1. pose proof (err_id e2 He2) as J2.
  pose proof (err_id e3 He3) as J3. pose proof (err_id e4 He4) as J4.
  assert (D : forall a b c d, Rabs (a - 1) <= u53' -> Rabs (b - 1) <= u53' -> Rabs (c - 1) <= u53' ->
                Rabs (d - 1) <= u53' -> Rv x4 = Rv v * (a * b * c * d) ->
    exists d1 d2 d3 d4,
      Rabs d1 <= u53' /\ Rabs d2 <= u53' /\ Rabs d3 <= u53' /\ Rabs d4 <= u53' /\
      Rv x4 = Rv v * ((1 + d1) * (1 + d2) * (1 + d3) * (1 + d4)) /\
      Rabs (Rv x4 - Rv v) <= ((1 + u53') * (1 + u53') * (1 + u53') * (1 + u53') - 1) * Rabs (Rv v)).
  { intros a b c d Ha Hb Hc Hd EQ. exists (a - 1), (b - 1), (c - 1), (d - 1).
    repeat (split; [assumption|]). split.
    - rewrite EQ. ring.
    - rewrite EQ. replace (Rv v * (a * b * c * d) - Rv v) with ((a * b * c * d - 1) * Rv v) by ring.
      rewrite Rabs_mult. apply Rmult_le_compat_r; [apply Rabs_pos|]. now apply four_factors. }
  destruct ka, kb; cbn [step_R] in V1, V2, V3, V4.
  - (* reciprocal, reciprocal *)
    apply (D (/ (1 + e1)) (1 + e2) (/ (1 + e3)) (1 + e4)); auto.
    rewrite V4, V3, V2, V1. field. repeat split; assumption.
  - (* reciprocal A, linear B *)
    apply (D (/ (1 + e1)) (/ (1 + e2)) (/ (1 + e3)) (1 + e4)); auto.
    rewrite V4, V3, V2, V1. field. repeat split; assumption.
  - (* linear A, reciprocal B *)
    apply (D (1 + e1) (/ (1 + e2)) (1 + e3) (1 + e4)); auto.
    rewrite V4, V3, V2, V1. field. repeat split; assumption.
  - (* linear, linear *)
    apply (D (1 + e1) (1 + e2) (1 + e3) (1 + e4)); auto.
    rewrite V4, V3, V2, V1. field. repeat split; assumption.
Qed.

(* ---------------------------------------------------------------- composition A -> B -> C vs A -> C *)
(* Both routes start with the same rounded step (A to its base, r1).  The direct route then makes one step
   (from base to C); the route via B makes three (from base to B, B to base, base to C).  Over the reals the two
   middle steps cancel, so  via = direct * (1+d1)(1+d2)(1+d3)(1+d4), |di| <= u/(1-u): the two results differ by
   at most ((1+u/(1-u))^4 - 1) |direct|, whatever the (linear / reciprocal) kinds of A, B, C. *)
Theorem composition_float_lin_recip : forall ua ub uc ka kb kc la lb lc v,
  kind_coef ua = Some (ka, la) -> kind_coef ub = Some (kb, lb) -> kind_coef uc = Some (kc, lc) ->
  let ca := num_of_bits (l_bits la) in
  let cb := num_of_bits (l_bits lb) in
  let cc := num_of_bits (l_bits lc) in
  fin v -> fin ca -> fin cb -> fin cc ->
  let r1 := convert_to_base fl ua v in
  let direct := through_base fl v ua uc in
  let r2 := through_base fl v ua ub in
  let r3 := convert_to_base fl ub r2 in
  let via := through_base fl r2 ub uc in
  in_range (step_R ka true (Rv ca) (Rv v)) ->
  in_range (step_R kc false (Rv cc) (Rv r1)) ->
  in_range (step_R kb false (Rv cb) (Rv r1)) ->
  in_range (step_R kb true (Rv cb) (Rv r2)) ->
  in_range (step_R kc false (Rv cc) (Rv r3)) ->
  exists d1 d2 d3 d4,
    Rabs d1 <= u53' /\ Rabs d2 <= u53' /\ Rabs d3 <= u53' /\ Rabs d4 <= u53' /\
    Rv via = Rv direct * ((1 + d1) * (1 + d2) * (1 + d3) * (1 + d4)) /\
    Rabs (Rv via - Rv direct) <= ((1 + u53') * (1 + u53') * (1 + u53') * (1 + u53') - 1) * Rabs (Rv direct).
Proof.
  intros ua ub uc ka kb kc la lb lc v Ka Kb Kc ca cb cc Fv Fa Fb Fc r1 direct r2 r3 via.
  change r1 with (step_fl true ua v). change direct with (step_fl false uc (step_fl true ua v)).
  change r2 with (step_fl false ub (step_fl true ua v)).
  change r3 with (step_fl true ub (step_fl false ub (step_fl true ua v))).
  change via with (step_fl false uc (step_fl true ub (step_fl false ub (step_fl true ua v)))).
  clear r1 direct r2 r3 via. intros R1 Rd R2 R3 R4.
  destruct (step_rel ua ka la v true Ka Fv Fa R1) as (e1 & He1 & F1 & V1).
  set (x1 := step_fl true ua v) in *.
  destruct (step_rel uc kc lc x1 false Kc F1 Fc Rd) as (ed & Hed & Fd & Vd).
  set (xd := step_fl false uc x1) in *.
  destruct (step_rel ub kb lb x1 false Kb F1 Fb R2) as (e2 & He2 & F2 & V2).
  set (x2 := step_fl false ub x1) in *.
  destruct (step_rel ub kb lb x2 true Kb F2 Fb R3) as (e3 & He3 & F3 & V3).
  set (x3 := step_fl true ub x2) in *.
  destruct (step_rel uc kc lc x3 false Kc F3 Fc R4) as (e4 & He4 & F4 & V4).
  set (x4 := step_fl false uc x3) in *.
  fold cb in V2, V3. fold cc in Vd, V4.
  pose proof (fin_Rv_neq_0 _ Fb) as Nb. pose proof (fin_Rv_neq_0 _ Fc) as Nc.
  pose proof (fin_Rv_neq_0 _ F1) as N1. pose proof (fin_Rv_neq_0 _ F2) as N2.
  pose proof (fin_Rv_neq_0 _ F3) as N3.
  destruct (err_inv ed Hed) as [Pd Id]. destruct (err_inv e2 He2) as [P2 I2].
  destruct (err_inv e3 He3) as [P3 I3].
  pose proof (err_id e2 He2) as J2. pose proof (err_id e3 He3) as J3. pose proof (err_id e4 He4) as J4.
  assert (D : forall a b c d, Rabs (a - 1) <= u53' -> Rabs (b - 1) <= u53' -> Rabs (c - 1) <= u53' ->
                Rabs (d - 1) <= u53' -> Rv x4 = Rv xd * (a * b * c * d) ->
    exists d1 d2 d3 d4,
      Rabs d1 <= u53' /\ Rabs d2 <= u53' /\ Rabs d3 <= u53' /\ Rabs d4 <= u53' /\
      Rv x4 = Rv xd * ((1 + d1) * (1 + d2) * (1 + d3) * (1 + d4)) /\
      Rabs (Rv x4 - Rv xd) <= ((1 + u53') * (1 + u53') * (1 + u53') * (1 + u53') - 1) * Rabs (Rv xd)).
  { intros a b c d Ha Hb Hc Hd EQ. exists (a - 1), (b - 1), (c - 1), (d - 1).
    repeat (split; [assumption|]). split.
    - rewrite EQ. ring.
    - rewrite EQ. replace (Rv xd * (a * b * c * d) - Rv xd) with ((a * b * c * d - 1) * Rv xd) by ring.
      rewrite Rabs_mult. apply Rmult_le_compat_r; [apply Rabs_pos|]. now apply four_factors. }
  destruct kb, kc; cbn [step_R] in Vd, V2, V3, V4.
  - (* B reciprocal, C reciprocal *)
    apply (D (1 + e2) (/ (1 + e3)) (1 + e4) (/ (1 + ed))); auto.
    rewrite V4, V3, V2, Vd. field. repeat split; assumption.
  - (* B reciprocal, C linear *)
    apply (D (/ (1 + e2)) (1 + e3) (1 + e4) (/ (1 + ed))); auto.
    rewrite V4, V3, V2, Vd. field. repeat split; assumption.
  - (* B linear, C reciprocal *)
    apply (D (/ (1 + e2)) (/ (1 + e3)) (1 + e4) (/ (1 + ed))); auto.
    rewrite V4, V3, V2, Vd. field. repeat split; assumption.
  - (* B linear, C linear *)
    apply (D (1 + e2) (1 + e3) (1 + e4) (/ (1 + ed))); auto.
    rewrite V4, V3, V2, Vd. field. repeat split; assumption.
Qed.

(* ---------------------------------------------------------------- no range hypotheses, for the table *)
(* within k x :  2^-k <= |x| <= 2^k *)
Definition within (k : Z) (x : R) : Prop := bpow radix2 (- k) <= Rabs x <= bpow radix2 k.

Lemma within_mul : forall a b x y, within a x -> within b y -> within (a + b) (x * y).
Proof.
  intros a b x y [X1 X2] [Y1 Y2]. unfold within. rewrite Rabs_mult.
  replace (- (a + b))%Z with (- a + - b)%Z by lia. rewrite !bpow_plus.
  pose proof (bpow_gt_0 radix2 (- a)). pose proof (bpow_gt_0 radix2 (- b)).
  split; apply Rmult_le_compat; lra.
Qed.

Lemma within_inv : forall a x, within a x -> within a (/ x).
Proof.
  intros a x [X1 X2]. pose proof (bpow_gt_0 radix2 (- a)) as P.
  assert (Nx : x <> 0) by (intros Z; rewrite Z, Rabs_R0 in X1; lra).
  unfold within. rewrite Rabs_inv. split.
  - rewrite bpow_opp. apply Rinv_le_contravar; lra.
  - replace (bpow radix2 a) with (/ bpow radix2 (- a)) by (rewrite bpow_opp, Rinv_inv; reflexivity).
    apply Rinv_le_contravar; lra.
Qed.

Lemma within_step : forall a b k to_base c x, within a x -> within b c ->
  within (a + b) (step_R k to_base c x).
Proof.
  intros a b k to_base c x X C. unfold step_R. destruct k; [|destruct to_base].
  - unfold Rdiv. rewrite Z.add_comm. apply within_mul; [exact C|now apply within_inv].
  - now apply within_mul.
  - unfold Rdiv. apply within_mul; [exact X|now apply within_inv].
Qed.

Lemma within_in_range : forall k x, (k <= 1022)%Z -> within k x -> in_range x.
Proof.
  intros k x Hk [X1 X2]. unfold in_range. split.
  - eapply Rle_trans; [|exact X1]. apply bpow_le. lia.
  - eapply Rle_trans; [exact X2|]. apply bpow_le. lia.
Qed.

(* a correctly rounded result stays within a factor 2 of the exact one *)
Lemma within_rounded : forall k x e, Rabs e <= u53 -> within k x -> within (k + 1) (x * (1 + e)).
Proof.
  intros k x e He X. replace (k + 1)%Z with (k + 1)%Z by lia. apply within_mul; [exact X|].
  pose proof u53_lt1 as U. apply Rabs_le_inv in He.
  assert (E : u53 = / 9007199254740992).
  { unfold u53. change (-53 + 1)%Z with (-52)%Z. change (bpow radix2 (-52)) with (/ 4503599627370496). lra. }
  unfold within. change (bpow radix2 (- (1))) with (/ 2). change (bpow radix2 1) with 2.
  rewrite Rabs_pos_eq by lra. lra.
Qed.

(* magnitude of a coefficient from its exponent and bit length: decidable *)
Definition coef_mag_ok (c : num) : bool :=
  match c with
  | S754_finite _ m e => ((-100 <=? e + Z.log2 (Zpos m)) && (e + Z.log2 (Zpos m) <=? 100))%Z%bool
  | _ => false
  end.

Lemma coef_mag_within : forall c, coef_mag_ok c = true -> within 101 (Rv c).
Proof.
  intros [| | |s m e] H; try discriminate H. cbn [coef_mag_ok] in H.
  apply andb_true_iff in H. destruct H as [H1 H2]. apply Z.leb_le in H1. apply Z.leb_le in H2.
  destruct (Z.log2_spec (Zpos m) ltac:(lia)) as [L1 L2]. pose proof (Z.log2_nonneg (Zpos m)) as L0.
  set (l := Z.log2 (Zpos m)) in *.
  apply IZR_le in L1. apply IZR_lt in L2.
  rewrite (IZR_Zpower radix2) in L1, L2 by lia.
  unfold within, Rv. cbn [SF2R]. rewrite <- F2R_Zabs, abs_cond_Zopp. unfold F2R. cbn [Fnum Fexp Z.abs].
  pose proof (bpow_gt_0 radix2 e) as Pe. split.
  - apply Rle_trans with (bpow radix2 l * bpow radix2 e).
    + rewrite <- bpow_plus. apply bpow_le. lia.
    + apply Rmult_le_compat_r; lra.
  - apply Rle_trans with (bpow radix2 (Z.succ l) * bpow radix2 e).
    + apply Rmult_le_compat_r; lra.
    + rewrite <- bpow_plus. apply bpow_le. lia.
Qed.

Lemma table_coefficients_mag_ok :
  forallb (fun u => match coef_of u with Some c => coef_mag_ok (num_of_bits (l_bits c)) | None => true end)
          all_units = true.
Proof. vm_compute. reflexivity. Qed.

Lemma kind_coef_coef_of : forall u k l, kind_coef u = Some (k, l) -> coef_of u = Some l.
Proof.
  intros u k l H. unfold kind_coef in H. unfold coef_of.
  destruct (u_conv u); try discriminate H; injection H as _ <-; reflexivity.
Qed.

Lemma table_coef_facts : forall u k l, In u all_units -> kind_coef u = Some (k, l) ->
  fin (num_of_bits (l_bits l)) /\ within 101 (Rv (num_of_bits (l_bits l))).
Proof.
  intros u k l Hu K. pose proof (kind_coef_coef_of u k l K) as C. split.
  - exact (table_coefficients_finite u l Hu C).
  - apply coef_mag_within. pose proof table_coefficients_mag_ok as H. rewrite forallb_forall in H.
    specialize (H u Hu). now rewrite C in H.
Qed.

(* THERE AND BACK, no range hypotheses: every pair of linear / reciprocal units of the table, every valid finite
   double v with 2^-400 <= |v| <= 2^400 *)
Theorem there_and_back_float_table : forall ua ub ka kb la lb v,
  In ua all_units -> In ub all_units ->
  kind_coef ua = Some (ka, la) -> kind_coef ub = Some (kb, lb) ->
  fin v -> within 400 (Rv v) ->
  let r2 := through_base fl v ua ub in
  let r4 := through_base fl r2 ub ua in
  Rabs (Rv r4 - Rv v) <= ((1 + u53') * (1 + u53') * (1 + u53') * (1 + u53') - 1) * Rabs (Rv v).
Proof.
  intros ua ub ka kb la lb v Ia Ib Ka Kb Fv Wv r2 r4.
  destruct (table_coef_facts ua ka la Ia Ka) as [Fa Wa].
  destruct (table_coef_facts ub kb lb Ib Kb) as [Fb Wb].
  set (ca := num_of_bits (l_bits la)) in *. set (cb := num_of_bits (l_bits lb)) in *.
  (* track the magnitudes through the four steps *)
  pose proof (within_step 400 101 ka true _ _ Wv Wa) as W1.
  destruct (step_rel ua ka la v true Ka Fv Fa (within_in_range (400 + 101) _ ltac:(lia) W1)) as (e1 & He1 & F1 & V1).
  fold ca in V1.
  assert (X1 : within 502 (Rv (step_fl true ua v))) by (rewrite V1; now apply (within_rounded 501)).
  pose proof (within_step 502 101 kb false _ _ X1 Wb) as W2.
  destruct (step_rel ub kb lb _ false Kb F1 Fb (within_in_range (502 + 101) _ ltac:(lia) W2)) as (e2 & He2 & F2 & V2).
  fold cb in V2.
  assert (X2 : within 604 (Rv (step_fl false ub (step_fl true ua v)))) by (rewrite V2; now apply (within_rounded 603)).
  pose proof (within_step 604 101 kb true _ _ X2 Wb) as W3.
  destruct (step_rel ub kb lb _ true Kb F2 Fb (within_in_range (604 + 101) _ ltac:(lia) W3)) as (e3 & He3 & F3 & V3).
  fold cb in V3.
  assert (X3 : within 706 (Rv (step_fl true ub (step_fl false ub (step_fl true ua v)))))
    by (rewrite V3; now apply (within_rounded 705)).
  pose proof (within_step 706 101 ka false _ _ X3 Wa) as W4.
  destruct (there_and_back_float_lin_recip ua ub ka kb la lb v Ka Kb Fv Fa Fb
              (within_in_range (400 + 101) _ ltac:(lia) W1) (within_in_range (502 + 101) _ ltac:(lia) W2)
              (within_in_range (604 + 101) _ ltac:(lia) W3) (within_in_range (706 + 101) _ ltac:(lia) W4))
    as (d1 & d2 & d3 & d4 & _ & _ & _ & _ & _ & B).
  exact B.
Qed.

(* COMPOSITION, no range hypotheses: every triple of linear / reciprocal units of the table *)
Theorem composition_float_table : forall ua ub uc ka kb kc la lb lc v,
  In ua all_units -> In ub all_units -> In uc all_units ->
  kind_coef ua = Some (ka, la) -> kind_coef ub = Some (kb, lb) -> kind_coef uc = Some (kc, lc) ->
  fin v -> within 400 (Rv v) ->
  let direct := through_base fl v ua uc in
  let via := through_base fl (through_base fl v ua ub) ub uc in
  Rabs (Rv via - Rv direct) <= ((1 + u53') * (1 + u53') * (1 + u53') * (1 + u53') - 1) * Rabs (Rv direct).
Proof.
  intros ua ub uc ka kb kc la lb lc v Ia Ib Ic Ka Kb Kc Fv Wv direct via.
  destruct (table_coef_facts ua ka la Ia Ka) as [Fa Wa].
  destruct (table_coef_facts ub kb lb Ib Kb) as [Fb Wb].
  destruct (table_coef_facts uc kc lc Ic Kc) as [Fc Wc].
  set (ca := num_of_bits (l_bits la)) in *. set (cb := num_of_bits (l_bits lb)) in *.
  set (cc := num_of_bits (l_bits lc)) in *.
  pose proof (within_step 400 101 ka true _ _ Wv Wa) as W1.
  destruct (step_rel ua ka la v true Ka Fv Fa (within_in_range (400 + 101) _ ltac:(lia) W1)) as (e1 & He1 & F1 & V1).
  fold ca in V1.
  assert (X1 : within 502 (Rv (step_fl true ua v))) by (rewrite V1; now apply (within_rounded 501)).
  pose proof (within_step 502 101 kc false _ _ X1 Wc) as Wd.
  pose proof (within_step 502 101 kb false _ _ X1 Wb) as W2.
  destruct (step_rel ub kb lb _ false Kb F1 Fb (within_in_range (502 + 101) _ ltac:(lia) W2)) as (e2 & He2 & F2 & V2).
  fold cb in V2.
  assert (X2 : within 604 (Rv (step_fl false ub (step_fl true ua v)))) by (rewrite V2; now apply (within_rounded 603)).
  pose proof (within_step 604 101 kb true _ _ X2 Wb) as W3.
  destruct (step_rel ub kb lb _ true Kb F2 Fb (within_in_range (604 + 101) _ ltac:(lia) W3)) as (e3 & He3 & F3 & V3).
  fold cb in V3.
  assert (X3 : within 706 (Rv (step_fl true ub (step_fl false ub (step_fl true ua v)))))
    by (rewrite V3; now apply (within_rounded 705)).
  pose proof (within_step 706 101 kc false _ _ X3 Wc) as W4.
  destruct (composition_float_lin_recip ua ub uc ka kb kc la lb lc v Ka Kb Kc Fv Fa Fb Fc
              (within_in_range (400 + 101) _ ltac:(lia) W1) (within_in_range (502 + 101) _ ltac:(lia) Wd)
              (within_in_range (502 + 101) _ ltac:(lia) W2) (within_in_range (604 + 101) _ ltac:(lia) W3)
              (within_in_range (706 + 101) _ ltac:(lia) W4))
    as (d1 & d2 & d3 & d4 & _ & _ & _ & _ & _ & B).
  exact B.
Qed.

Lemma within_mono : forall a b x, (a <= b)%Z -> within a x -> within b x.
Proof.
  intros a b x H [X1 X2]. split.
  - eapply Rle_trans; [|exact X1]. apply bpow_le. lia.
  - eapply Rle_trans; [exact X2|]. apply bpow_le. lia.
Qed.

(* the hypotheses of there_and_back_float_table are satisfiable: the table has a reciprocal and a linear unit of
   one category (miles per gallon / liters per 100 kilometers), and v = 30.0 is in range *)
Lemma table_theorem_hypotheses_satisfiable :
  existsb (fun ua => existsb (fun ub =>
     match kind_coef ua, kind_coef ub with
     | Some (true, _), Some (false, _) => String.eqb (u_cat ua) (u_cat ub)
     | _, _ => false
     end) all_units) all_units = true /\
  fin (num_of_bits 0x403e000000000000) /\ within 400 (Rv (num_of_bits 0x403e000000000000)).
Proof.
  split; [vm_compute; reflexivity|]. split; [vm_compute; reflexivity|].
  apply (within_mono 101); [lia|]. apply coef_mag_within. vm_compute. reflexivity.
Qed.

(* the table: which units are reciprocal (so that the theorem's scope is visible) *)
Definition reciprocal_units : list string :=
  map (fun u => hd ""%string (u_ids u))
      (filter (fun u => match u_conv u with Reciprocal _ => true | _ => false end) all_units).
