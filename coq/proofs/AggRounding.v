(* AggRounding.v — "sum equals the sum of the elements up to double-precision rounding":
   the left fold of SFadd from -0.0 is within ((1+u)^(n-1) - 1) * sum|x_i| of the exact real
   sum (u = 2^-53), provided no partial sum overflows (Higham's bound for recursive summation;
   addition needs no underflow side condition).  Uses Flocq (classical real-number axioms). *)
From Coq Require Import ZArith String List Bool Lia Lra Reals Floats.SpecFloat Arith.
From Flocq Require Import Core.Core Core.Round_pred Core.Generic_fmt Core.FLT Core.Raux Core.Zaux
  Core.Defs Core.Float_prop Core.Ulp Relative Plus_error IEEE754.BinarySingleNaN.
Require Import Blots.Num Blots.gen.Builtins Blots.Ast Blots.Value Blots.Show Blots.Outcome
  Blots.BuiltinsAgg Blots.proofs.Order Blots.proofs.Aggregates Blots.proofs.AggPercentile.
Import ListNotations.
Open Scope Z_scope.

#[local] Existing Instance Hprec.
#[local] Existing Instance Hmax.

Notation fexp := (SpecFloat.fexp prec emax).
Notation rnd := (round radix2 fexp ZnearestE).
Notation R_of := (SF2R radix2).

(* ---------- SFadd is Flocq's Bplus ---------- *)
Lemma binary_normalize_equiv m e szero :
  SpecFloat.binary_normalize prec emax m e szero
  = B2SF (BinarySingleNaN.binary_normalize prec emax Hprec Hmax mode_NE m e szero).
Proof.
  case m as [ | p | p].
  - now simpl.
  - simpl; rewrite B2SF_SF2B; apply binary_round_equiv.
  - simpl; rewrite B2SF_SF2B; apply binary_round_equiv.
Qed.

Lemma nadd_Bplus (x y : binary_float prec emax) :
  nadd (B2SF x) (B2SF y) = B2SF (Bplus mode_NE x y).
Proof.
  unfold nadd.
  destruct x as [sx|sx| |sx mx ex Bx], y as [sy|sy| |sy my ey By];
    try reflexivity; try (simpl; now case Bool.eqb).
  apply binary_normalize_equiv.
Qed.

Definition finv (x : num) : bool := valid x && is_finite_SF x.   (* a genuine finite double *)

Lemma nadd_finite_correct a b : finv a = true -> finv b = true ->
  is_finite_SF (nadd a b) = true ->
  finv (nadd a b) = true /\ R_of (nadd a b) = rnd (R_of a + R_of b).
Proof.
  unfold finv. rewrite !andb_true_iff. intros [Va Fa] [Vb Fb] F.
  assert (E := nadd_Bplus (@SF2B prec emax a Va) (@SF2B prec emax b Vb)).
  rewrite !B2SF_SF2B in E.
  assert (C := Bplus_correct prec emax Hprec Hmax mode_NE (@SF2B prec emax a Va) (@SF2B prec emax b Vb)).
  rewrite !is_finite_SF2B in C. specialize (C Fa Fb). rewrite !B2R_SF2B in C. cbn [round_mode] in C.
  rewrite E in *. split; [split; [unfold valid; apply valid_binary_B2SF|exact F]|].
  destruct (Rlt_bool _ _).
  - destruct C as (C & _). now rewrite SF2R_B2SF.
  - destruct C as (C & _). rewrite C in F. cbn in F. discriminate.
Qed.

Lemma finv_format x : finv x = true -> generic_format radix2 fexp (R_of x).
Proof.
  unfold finv. rewrite andb_true_iff. intros [V _].
  rewrite <- (B2SF_SF2B prec emax x V), SF2R_B2SF. apply generic_format_B2R.
Qed.

(* ---------- the bound ---------- *)
Definition u : R := u_ro radix2 prec.             (* 2^-53 *)
Lemma u_value : u = bpow radix2 (-53).
Proof. unfold u, u_ro. change (- prec + 1) with (-52). change (/2)%R with (bpow radix2 (-1)).
       rewrite <- bpow_plus. reflexivity. Qed.
Lemma u_pos : (0 <= u)%R.
Proof. apply u_ro_pos. Qed.

Lemma rnd_plus_rel x y : generic_format radix2 fexp x -> generic_format radix2 fexp y ->
  exists d, (Rabs d <= u)%R /\ rnd (x + y) = ((x + y) * (1 + d))%R.
Proof.
  intros Fx Fy.
  destruct (FLT_plus_error_N_ex radix2 (SpecFloat.emin prec emax) prec (fun z => negb (Z.even z)) x y Fx Fy)
    as (d & Hd & E).
  exists d. split; [|exact E].
  eapply Rle_trans; [exact Hd|]. apply u_rod1pu_ro_le_u_ro.
Qed.

Definition rsum (l : list num) : R := fold_right (fun x s => (R_of x + s)%R) 0%R l.
Definition rabs_sum (l : list num) : R := fold_right (fun x s => (Rabs (R_of x) + s)%R) 0%R l.

(* no partial sum overflows (decidable; checked on the model) *)
Fixpoint partial_finite (acc : num) (l : list num) : bool :=
  match l with
  | [] => true
  | x :: r => let s := nadd acc x in is_finite_SF s && partial_finite s r
  end.

Lemma rabs_sum_nonneg l : (0 <= rabs_sum l)%R.
Proof.
  induction l as [|a l IH]; [cbn; lra|].
  change (rabs_sum (a :: l)) with (Rabs (R_of a) + rabs_sum l)%R.
  assert (H := Rabs_pos (R_of a)). lra.
Qed.

Lemma pow_ge_1 k : (1 <= (1 + u) ^ k)%R.
Proof. apply pow_R1_Rle. assert (H := u_pos). lra. Qed.

Lemma fold_bound l : forall acc S T k,
  finv acc = true -> forallb finv l = true -> partial_finite acc l = true ->
  (Rabs (R_of acc - S) <= ((1 + u) ^ k - 1) * T)%R -> (Rabs S <= T)%R ->
  (Rabs (R_of (fold_left nadd l acc) - (S + rsum l))
   <= ((1 + u) ^ (k + length l) - 1) * (T + rabs_sum l))%R.
Proof.
  induction l as [|x l IH]; intros acc S T k Fa Fl Pf HE HS.
  - change (rsum []) with 0%R. change (rabs_sum []) with 0%R. cbn [fold_left length].
    rewrite Nat.add_0_r, !Rplus_0_r. exact HE.
  - cbn [forallb] in Fl. apply andb_true_iff in Fl. destruct Fl as [Fx Fl].
    cbn [partial_finite] in Pf. apply andb_true_iff in Pf. destruct Pf as [Fs Pf].
    destruct (nadd_finite_correct acc x Fa Fx Fs) as [Fa' Ra'].
    destruct (rnd_plus_rel (R_of acc) (R_of x) (finv_format _ Fa) (finv_format _ Fx)) as (d & Hd & Ed).
    change (rsum (x :: l)) with (R_of x + rsum l)%R.
    change (rabs_sum (x :: l)) with (Rabs (R_of x) + rabs_sum l)%R. cbn [fold_left length].
    specialize (IH (nadd acc x) (S + R_of x)%R (T + Rabs (R_of x))%R (Datatypes.S k) Fa' Fl Pf).
    replace (k + Datatypes.S (length l))%nat with (Datatypes.S k + length l)%nat by lia.
    replace (S + (R_of x + rsum l))%R with (S + R_of x + rsum l)%R by ring.
    replace (T + (Rabs (R_of x) + rabs_sum l))%R with (T + Rabs (R_of x) + rabs_sum l)%R by ring.
    apply IH.
    + rewrite Ra', Ed.
      set (a := R_of acc) in *. set (xr := R_of x) in *.
      replace ((a + xr) * (1 + d) - (S + xr))%R with ((a - S) * (1 + d) + d * (S + xr))%R by ring.
      eapply Rle_trans; [apply Rabs_triang|]. rewrite !Rabs_mult.
      assert (P1 := pow_ge_1 k). assert (Pu := u_pos).
      assert (H1 : (Rabs (1 + d) <= 1 + u)%R).
      { eapply Rle_trans; [apply Rabs_triang|]. rewrite Rabs_R1. lra. }
      assert (H2 : (Rabs (S + xr) <= T + Rabs xr)%R).
      { eapply Rle_trans; [apply Rabs_triang|]. lra. }
      assert (T0 : (0 <= T)%R) by (eapply Rle_trans; [apply Rabs_pos|exact HS]).
      assert (X0 := Rabs_pos xr).
      assert (A1 : (Rabs (a - S) * Rabs (1 + d) <= ((1 + u) ^ k - 1) * T * (1 + u))%R).
      { apply Rmult_le_compat; try apply Rabs_pos; assumption. }
      assert (A2 : (Rabs d * Rabs (S + xr) <= u * (T + Rabs xr))%R).
      { apply Rmult_le_compat; try apply Rabs_pos; assumption. }
      cbn [pow].
      assert (A3 : (((1 + u) ^ k - 1) * T * (1 + u) <= ((1 + u) ^ k - 1) * (T + Rabs xr) * (1 + u))%R).
      { apply Rmult_le_compat_r; [lra|]. apply Rmult_le_compat_l; lra. }
      replace (((1 + u) * (1 + u) ^ k - 1) * (T + Rabs xr))%R
        with (((1 + u) ^ k - 1) * (T + Rabs xr) * (1 + u) + u * (T + Rabs xr))%R by ring.
      lra.
    + eapply Rle_trans; [apply Rabs_triang|]. lra.
Qed.

(* -0.0 + x = x exactly for every finite x (as a real number) *)
Lemma nadd_nnzero x : finv x = true -> finv (nadd nnzero x) = true /\ R_of (nadd nnzero x) = R_of x.
Proof.
  intros F. destruct x as [s|s| |s m e]; try (unfold finv in F; cbn in F; rewrite ?andb_false_r in F; discriminate).
  - destruct s; cbn; auto.
  - cbn. auto.
Qed.

Theorem sum_rounding_bound l : l <> [] ->
  forallb finv l = true -> partial_finite nnzero l = true ->
  (Rabs (R_of (fold_sum l) - rsum l) <= ((1 + u) ^ (length l - 1) - 1) * rabs_sum l)%R.
Proof.
  intros Hne Fl Pf. destruct l as [|x l]; [contradiction|].
  cbn [forallb] in Fl. apply andb_true_iff in Fl. destruct Fl as [Fx Fl].
  cbn [partial_finite] in Pf. apply andb_true_iff in Pf. destruct Pf as [_ Pf].
  destruct (nadd_nnzero x Fx) as [F0 R0].
  unfold fold_sum. change (rsum (x :: l)) with (R_of x + rsum l)%R.
  change (rabs_sum (x :: l)) with (Rabs (R_of x) + rabs_sum l)%R. cbn [fold_left length].
  replace (Datatypes.S (length l) - 1)%nat with (0 + length l)%nat by lia.
  apply (fold_bound l (nadd nnzero x) (R_of x) (Rabs (R_of x)) 0%nat F0 Fl Pf).
  - rewrite R0. cbn [pow]. replace (R_of x - R_of x)%R with 0%R by ring. rewrite Rabs_R0. lra.
  - lra.
Qed.

(* permutation invariance of sum "up to rounding": both orders are within the bound of the same
   exact sum *)
Lemma rsum_perm l l' : Permutation.Permutation l l' -> rsum l = rsum l'.
Proof.
  induction 1; try reflexivity.
  - change (rsum (x :: l)) with (R_of x + rsum l)%R. change (rsum (x :: l')) with (R_of x + rsum l')%R.
    now rewrite IHPermutation.
  - change (rsum (y :: x :: l)) with (R_of y + (R_of x + rsum l))%R.
    change (rsum (x :: y :: l)) with (R_of x + (R_of y + rsum l))%R. ring.
  - congruence.
Qed.
Lemma rabs_sum_perm l l' : Permutation.Permutation l l' -> rabs_sum l = rabs_sum l'.
Proof.
  induction 1; try reflexivity.
  - change (rabs_sum (x :: l)) with (Rabs (R_of x) + rabs_sum l)%R.
    change (rabs_sum (x :: l')) with (Rabs (R_of x) + rabs_sum l')%R. now rewrite IHPermutation.
  - change (rabs_sum (y :: x :: l)) with (Rabs (R_of y) + (Rabs (R_of x) + rabs_sum l))%R.
    change (rabs_sum (x :: y :: l)) with (Rabs (R_of x) + (Rabs (R_of y) + rabs_sum l))%R. ring.
  - congruence.
Qed.

Theorem sum_perm_rounding l l' : Permutation.Permutation l l' -> l <> [] ->
  forallb finv l = true -> partial_finite nnzero l = true -> partial_finite nnzero l' = true ->
  (Rabs (R_of (fold_sum l) - R_of (fold_sum l'))
   <= 2 * (((1 + u) ^ (length l - 1) - 1) * rabs_sum l))%R.
Proof.
  intros P Hne Fl Pf Pf'.
  assert (Hne' : l' <> []).
  { intros ->. apply Permutation.Permutation_sym, Permutation.Permutation_nil in P. auto. }
  assert (Fl' : forallb finv l' = true).
  { rewrite forallb_forall in *. intros x Hx. apply Fl.
    eapply Permutation.Permutation_in; [apply Permutation.Permutation_sym|]; eauto. }
  assert (B := sum_rounding_bound l Hne Fl Pf). assert (B' := sum_rounding_bound l' Hne' Fl' Pf').
  rewrite <- (rsum_perm _ _ P), <- (rabs_sum_perm _ _ P), <- (Permutation.Permutation_length P) in B'.
  replace (R_of (fold_sum l) - R_of (fold_sum l'))%R
    with ((R_of (fold_sum l) - rsum l) - (R_of (fold_sum l') - rsum l))%R by ring.
  eapply Rle_trans; [apply Rabs_triang|]. rewrite Rabs_Ropp. lra.
Qed.

(* ================================================================== prod *)
(* SFmul is Flocq's Bmult *)
Lemma nmul_Bmult (x y : binary_float prec emax) :
  nmul (B2SF x) (B2SF y) = B2SF (Bmult mode_NE x y).
Proof.
  unfold nmul.
  destruct x as [sx|sx| |sx mx ex Bx], y as [sy|sy| |sy my ey By]; try reflexivity.
  simpl. rewrite B2SF_SF2B. apply binary_round_aux_equiv.
Qed.

Lemma nmul_finite_correct a b : finv a = true -> finv b = true ->
  is_finite_SF (nmul a b) = true ->
  finv (nmul a b) = true /\ R_of (nmul a b) = rnd (R_of a * R_of b).
Proof.
  unfold finv. rewrite !andb_true_iff. intros [Va Fa] [Vb Fb] F.
  assert (E := nmul_Bmult (@SF2B prec emax a Va) (@SF2B prec emax b Vb)).
  rewrite !B2SF_SF2B in E.
  assert (C := Bmult_correct prec emax Hprec Hmax mode_NE (@SF2B prec emax a Va) (@SF2B prec emax b Vb)).
  rewrite !B2R_SF2B in C. cbn [round_mode] in C.
  rewrite E in *. split; [split; [unfold valid; apply valid_binary_B2SF|exact F]|].
  destruct (Rlt_bool _ _).
  - destruct C as (C & _). now rewrite SF2R_B2SF.
  - rewrite C in F. unfold binary_overflow in F. cbn in F. discriminate.
Qed.

(* a lower bound 2^(mag_lo x) <= |x| for finite non-zero x, read off the representation *)
Definition mag_lo (x : num) : Z :=
  match x with S754_finite _ m e => Z.pos (digits2_pos m) - 1 + e | _ => 0 end.
(* the exact product cannot fall into the subnormal range (or a factor is zero): decidable *)
Definition mul_safe (a b : num) : bool :=
  is_zero a || is_zero b || (-1022 <=? mag_lo a + mag_lo b).

Lemma mag_lo_bound s m e : (bpow radix2 (mag_lo (S754_finite s m e)) <= Rabs (R_of (S754_finite s m e)))%R.
Proof.
  cbn [mag_lo SF2R]. rewrite <- F2R_Zabs, abs_cond_Zopp. cbn [Z.abs].
  unfold F2R. cbn [Fnum Fexp]. rewrite bpow_plus. apply Rmult_le_compat_r; [apply bpow_ge_0|].
  rewrite Zpos_digits2_pos. rewrite <- IZR_Zpower.
  - apply IZR_le. exact (proj1 (Digits.Zdigits_correct radix2 (Z.pos m))).
  - assert (H := Digits.Zdigits_gt_0 radix2 (Z.pos m) ltac:(discriminate)). lia.
Qed.

Lemma rnd_mult_rel a b : finv a = true -> finv b = true -> mul_safe a b = true ->
  exists d, (Rabs d <= u)%R /\ rnd (R_of a * R_of b) = (R_of a * R_of b * (1 + d))%R.
Proof.
  intros Fa Fb S.
  assert (Z0 : forall x, is_zero x = true -> R_of x = 0%R) by (intros [ | | | ]; cbn; congruence).
  unfold mul_safe in S. apply orb_true_iff in S. destruct S as [S|S].
  - exists 0%R. split; [rewrite Rabs_R0; apply u_pos|].
    apply orb_true_iff in S. destruct S as [S|S]; rewrite (Z0 _ S);
      rewrite ?Rmult_0_l, ?Rmult_0_r, ?Rmult_0_l; apply round_0; apply valid_rnd_N.
  - apply Z.leb_le in S.
    destruct a as [sa|sa| |sa ma ea]; try (unfold finv in Fa; cbn in Fa; rewrite ?andb_false_r in Fa; discriminate);
    destruct b as [sb|sb| |sb mb eb]; try (unfold finv in Fb; cbn in Fb; rewrite ?andb_false_r in Fb; discriminate).
    1-3: exists 0%R; split; [rewrite Rabs_R0; apply u_pos|];
         cbn [SF2R]; rewrite ?Rmult_0_l, ?Rmult_0_r, ?Rmult_0_l; apply round_0; apply valid_rnd_N.
    destruct (relative_error_N_FLT_ex radix2 (SpecFloat.emin prec emax) prec Hprec
                (fun z => negb (Z.even z))
                (R_of (S754_finite sa ma ea) * R_of (S754_finite sb mb eb))%R) as (d & Hd & E).
    + rewrite Rabs_mult. change (SpecFloat.emin prec emax + prec - 1) with (-1022).
      eapply Rle_trans; [apply bpow_le; exact S|]. rewrite bpow_plus.
      apply Rmult_le_compat; try apply bpow_ge_0; apply mag_lo_bound.
    + exists d. split; [exact Hd|exact E].
Qed.

Definition rprod (l : list num) : R := fold_right (fun x s => (R_of x * s)%R) 1%R l.

(* every multiplication of the fold is safe from underflow and does not overflow *)
Fixpoint prod_ok (acc : num) (l : list num) : bool :=
  match l with
  | [] => true
  | x :: r => let p := nmul acc x in mul_safe acc x && is_finite_SF p && prod_ok p r
  end.

Lemma fold_prod_bound l : forall acc P k,
  finv acc = true -> forallb finv l = true -> prod_ok acc l = true ->
  (Rabs (R_of acc - P) <= ((1 + u) ^ k - 1) * Rabs P)%R ->
  (Rabs (R_of (fold_left nmul l acc) - P * rprod l)
   <= ((1 + u) ^ (k + length l) - 1) * Rabs (P * rprod l))%R.
Proof.
  induction l as [|x l IH]; intros acc P k Fa Fl Ok HE.
  - change (rprod []) with 1%R. cbn [fold_left length]. rewrite Nat.add_0_r, !Rmult_1_r. exact HE.
  - cbn [forallb] in Fl. apply andb_true_iff in Fl. destruct Fl as [Fx Fl].
    cbn [prod_ok] in Ok. apply andb_true_iff in Ok. destruct Ok as [Ok Ok2].
    apply andb_true_iff in Ok. destruct Ok as [Sf Fs].
    destruct (nmul_finite_correct acc x Fa Fx Fs) as [Fa' Ra'].
    destruct (rnd_mult_rel acc x Fa Fx Sf) as (d & Hd & Ed).
    change (rprod (x :: l)) with (R_of x * rprod l)%R. cbn [fold_left length].
    specialize (IH (nmul acc x) (P * R_of x)%R (Datatypes.S k) Fa' Fl Ok2).
    replace (k + Datatypes.S (length l))%nat with (Datatypes.S k + length l)%nat by lia.
    replace (P * (R_of x * rprod l))%R with (P * R_of x * rprod l)%R by ring.
    apply IH. rewrite Ra', Ed.
    set (a := R_of acc) in *. set (xr := R_of x) in *.
    replace (a * xr * (1 + d) - P * xr)%R with ((a - P) * xr * (1 + d) + d * (P * xr))%R by ring.
    eapply Rle_trans; [apply Rabs_triang|]. rewrite !Rabs_mult.
    assert (P1 := pow_ge_1 k). assert (Pu := u_pos).
    assert (H1 : (Rabs (1 + d) <= 1 + u)%R).
    { eapply Rle_trans; [apply Rabs_triang|]. rewrite Rabs_R1. lra. }
    assert (X0 := Rabs_pos xr). assert (P0 := Rabs_pos P).
    assert (A1 : (Rabs (a - P) * Rabs xr * Rabs (1 + d) <= ((1 + u) ^ k - 1) * Rabs P * Rabs xr * (1 + u))%R).
    { apply Rmult_le_compat.
      - apply Rmult_le_pos; apply Rabs_pos.
      - apply Rabs_pos.
      - apply Rmult_le_compat_r; assumption.
      - exact H1. }
    assert (A2 : (Rabs d * (Rabs P * Rabs xr) <= u * (Rabs P * Rabs xr))%R).
    { apply Rmult_le_compat_r; [apply Rmult_le_pos; assumption|assumption]. }
    cbn [pow].
    replace (((1 + u) * (1 + u) ^ k - 1) * (Rabs P * Rabs xr))%R
      with (((1 + u) ^ k - 1) * Rabs P * Rabs xr * (1 + u) + u * (Rabs P * Rabs xr))%R by ring.
    lra.
Qed.

Lemma finv_n1 : finv n1 = true.
Proof. vm_compute. reflexivity. Qed.
Lemma R_n1 : R_of n1 = 1%R.
Proof. destruct (num_of_Z_correct 1 ltac:(lia)) as (_ & H & _). exact H. Qed.

(* prod equals the exact product up to a relative error of (1+u)^n - 1 *)
Theorem prod_rounding_bound l :
  forallb finv l = true -> prod_ok n1 l = true ->
  (Rabs (R_of (fold_prod l) - rprod l) <= ((1 + u) ^ length l - 1) * Rabs (rprod l))%R.
Proof.
  intros Fl Ok.
  assert (B := fold_prod_bound l n1 1%R 0%nat finv_n1 Fl Ok).
  rewrite R_n1, !Rmult_1_l in B. cbn [pow Nat.add] in B. apply B.
  replace (1 - 1)%R with 0%R by ring. rewrite Rabs_R0. lra.
Qed.

Lemma rprod_perm l l' : Permutation.Permutation l l' -> rprod l = rprod l'.
Proof.
  induction 1; try reflexivity.
  - change (rprod (x :: l)) with (R_of x * rprod l)%R. change (rprod (x :: l')) with (R_of x * rprod l')%R.
    now rewrite IHPermutation.
  - change (rprod (y :: x :: l)) with (R_of y * (R_of x * rprod l))%R.
    change (rprod (x :: y :: l)) with (R_of x * (R_of y * rprod l))%R. ring.
  - congruence.
Qed.

Theorem prod_perm_rounding l l' : Permutation.Permutation l l' ->
  forallb finv l = true -> prod_ok n1 l = true -> prod_ok n1 l' = true ->
  (Rabs (R_of (fold_prod l) - R_of (fold_prod l'))
   <= 2 * (((1 + u) ^ length l - 1) * Rabs (rprod l)))%R.
Proof.
  intros P Fl Ok Ok'.
  assert (Fl' : forallb finv l' = true).
  { rewrite forallb_forall in *. intros x Hx. apply Fl.
    eapply Permutation.Permutation_in; [apply Permutation.Permutation_sym|]; eauto. }
  assert (B := prod_rounding_bound l Fl Ok). assert (B' := prod_rounding_bound l' Fl' Ok').
  rewrite <- (rprod_perm _ _ P), <- (Permutation.Permutation_length P) in B'.
  replace (R_of (fold_prod l) - R_of (fold_prod l'))%R
    with ((R_of (fold_prod l) - rprod l) - (R_of (fold_prod l') - rprod l))%R by ring.
  eapply Rle_trans; [apply Rabs_triang|]. rewrite Rabs_Ropp. lra.
Qed.

(* ================================================================== avg *)
Lemma fold_finv l : forall acc, finv acc = true -> forallb finv l = true ->
  partial_finite acc l = true -> finv (fold_left nadd l acc) = true.
Proof.
  induction l as [|x l IH]; intros acc Fa Fl Pf; [exact Fa|].
  cbn [forallb] in Fl. apply andb_true_iff in Fl. destruct Fl as [Fx Fl].
  cbn [partial_finite] in Pf. apply andb_true_iff in Pf. destruct Pf as [Fs Pf].
  cbn [fold_left]. apply IH; auto. now destruct (nadd_finite_correct acc x Fa Fx Fs).
Qed.

Lemma finv_nnzero : finv nnzero = true.
Proof. reflexivity. Qed.

Lemma finv_abs_lt_emax x : finv x = true -> (Rabs (R_of x) < bpow radix2 emax)%R.
Proof.
  unfold finv. rewrite andb_true_iff. intros [V _].
  rewrite <- (B2SF_SF2B prec emax x V), SF2R_B2SF. apply abs_B2R_lt_emax.
Qed.

(* s / (n as f64) for a finite s and 1 <= n <= 2^53: correctly rounded, with the standard error
   decomposition (relative u, or absolute 2^-1075 in the subnormal range) *)
Lemma ndiv_count_error s n : finv s = true -> 1 <= n <= 2^53 ->
  exists eps eta, (Rabs eps <= u)%R /\ (Rabs eta <= bpow radix2 (-1075))%R /\
    R_of (ndiv s (num_of_Z n)) = (R_of s / IZR n * (1 + eps) + eta)%R.
Proof.
  intros Fs Hn.
  destruct (num_of_Z_correct n ltac:(lia)) as (Vn & Rn & Fn).
  assert (Hrel : forall x, exists eps eta, (Rabs eps <= u)%R /\ (Rabs eta <= bpow radix2 (-1075))%R /\
             rnd x = (x * (1 + eps) + eta)%R).
  { intros x. destruct (error_N_FLT radix2 (SpecFloat.emin prec emax) prec ltac:(reflexivity)
                          (fun z => negb (Z.even z)) x) as (eps & eta & A & B & _ & D).
    exists eps, eta. split; [exact A|split; [|exact D]].
    eapply Rle_trans; [exact B|]. change (/2)%R with (bpow radix2 (-1)). rewrite <- bpow_plus.
    apply bpow_le. vm_compute. discriminate. }
  assert (N1 : (1 <= IZR n)%R) by (apply IZR_le; lia).
  destruct (num_of_Z n) as [sn|sn| |sn mn en] eqn:En; try contradiction.
  { cbn in Rn. assert (IZR n = 0)%R by congruence. lra. }
  destruct sn; [contradiction|].
  destruct s as [ss|ss| |ss ms es];
    try (unfold finv in Fs; cbn in Fs; rewrite ?andb_false_r in Fs; discriminate).
  - (* s = +-0 *)
    exists 0%R, 0%R. rewrite !Rabs_R0. split; [apply u_pos|split; [apply bpow_ge_0|]].
    cbn. lra.
  - destruct (ndiv_correct ss ms es false mn en) as (_ & E & _).
    + rewrite Rn.
      apply Rle_lt_trans with (Rabs (R_of (S754_finite ss ms es))); [|now apply finv_abs_lt_emax].
      apply abs_round_le_generic; [apply fexp_correct; reflexivity|apply valid_rnd_N| |].
      * apply generic_format_abs. now apply finv_format.
      * unfold Rdiv. rewrite Rabs_mult. rewrite <- (Rmult_1_r (Rabs (R_of (S754_finite ss ms es)))) at 2.
        apply Rmult_le_compat_l; [apply Rabs_pos|]. rewrite Rabs_inv.
        rewrite Rabs_pos_eq by lra. rewrite <- Rinv_1. apply Rinv_le_contravar; lra.
    + rewrite E, Rn. destruct (Hrel (R_of (S754_finite ss ms es) / IZR n)%R) as (eps & eta & A & B & D).
      exists eps, eta. auto.
Qed.

(* avg is within ((1+u)^n - 1) * mean|x_i| + 2^-1075 of the exact mean *)
Theorem avg_rounding_bound l : l <> [] -> Z.of_nat (length l) <= 2^53 ->
  forallb finv l = true -> partial_finite nnzero l = true ->
  (Rabs (R_of (ndiv (fold_sum l) (num_of_Z (Z.of_nat (length l)))) - rsum l / INR (length l))
   <= ((1 + u) ^ length l - 1) * (rabs_sum l / INR (length l)) + bpow radix2 (-1075))%R.
Proof.
  intros Hne Hlen Fl Pf.
  assert (Hn : 1 <= Z.of_nat (length l) <= 2^53) by (destruct l; [contradiction|cbn [length] in *; lia]).
  assert (Fs : finv (fold_sum l) = true) by (apply fold_finv; auto).
  destruct (ndiv_count_error (fold_sum l) _ Fs Hn) as (eps & eta & He & Ht & E).
  assert (B := sum_rounding_bound l Hne Fl Pf).
  rewrite E, <- INR_IZR_INZ.
  set (n := INR (length l)). set (s := R_of (fold_sum l)) in *. set (Sx := rsum l) in *.
  set (T := rabs_sum l) in *. set (k := length l) in *.
  assert (Nn : (1 <= n)%R).
  { unfold n. change 1%R with (INR 1). apply le_INR. destruct l; [contradiction|cbn; lia]. }
  assert (Pu := u_pos). assert (P1 := pow_ge_1 (k - 1)). assert (T0 := rabs_sum_nonneg l). fold T in T0.
  assert (ST : (Rabs Sx <= T)%R).
  { unfold Sx, T. clear. induction l as [|a l IH]; [cbn; rewrite Rabs_R0; lra|].
    change (rsum (a :: l)) with (R_of a + rsum l)%R.
    change (rabs_sum (a :: l)) with (Rabs (R_of a) + rabs_sum l)%R.
    eapply Rle_trans; [apply Rabs_triang|]. lra. }
  assert (Pk : ((1 + u) ^ k = (1 + u) * (1 + u) ^ (k - 1))%R).
  { unfold k. destruct l; [contradiction|]. cbn [length]. replace (S (length l) - 1)%nat with (length l) by lia.
    reflexivity. }
  replace (s / n * (1 + eps) + eta - Sx / n)%R
    with ((s - Sx) / n * (1 + eps) + eps * (Sx / n) + eta)%R by (field; lra).
  assert (In0 : (0 < / n)%R) by (apply Rinv_0_lt_compat; lra).
  assert (H1 : (Rabs (1 + eps) <= 1 + u)%R).
  { eapply Rle_trans; [apply Rabs_triang|]. rewrite Rabs_R1. lra. }
  assert (A1 : (Rabs ((s - Sx) / n * (1 + eps)) <= ((1 + u) ^ (k - 1) - 1) * T / n * (1 + u))%R).
  { rewrite Rabs_mult. apply Rmult_le_compat; try apply Rabs_pos; [|exact H1].
    unfold Rdiv. rewrite Rabs_mult, (Rabs_pos_eq (/ n)) by lra.
    apply Rmult_le_compat_r; [lra|exact B]. }
  assert (A2 : (Rabs (eps * (Sx / n)) <= u * (T / n))%R).
  { rewrite Rabs_mult. apply Rmult_le_compat; try apply Rabs_pos; [exact He|].
    unfold Rdiv. rewrite Rabs_mult, (Rabs_pos_eq (/ n)) by lra. apply Rmult_le_compat_r; lra. }
  eapply Rle_trans; [apply Rabs_triang|]. eapply Rle_trans; [apply Rplus_le_compat_r, Rabs_triang|].
  rewrite Pk.
  replace (((1 + u) * (1 + u) ^ (k - 1) - 1) * (T / n))%R
    with (((1 + u) ^ (k - 1) - 1) * T / n * (1 + u) + u * (T / n))%R by (field; lra).
  lra.
Qed.

Definition avg_of (l : list num) : num := ndiv (fold_sum l) (num_of_Z (Z.of_nat (length l))).

Theorem avg_perm_rounding l l' : Permutation.Permutation l l' -> l <> [] ->
  Z.of_nat (length l) <= 2^53 ->
  forallb finv l = true -> partial_finite nnzero l = true -> partial_finite nnzero l' = true ->
  (Rabs (R_of (avg_of l) - R_of (avg_of l'))
   <= 2 * (((1 + u) ^ length l - 1) * (rabs_sum l / INR (length l)) + bpow radix2 (-1075)))%R.
Proof.
  intros P Hne Hlen Fl Pf Pf'.
  assert (Hne' : l' <> []).
  { intros ->. apply Permutation.Permutation_sym, Permutation.Permutation_nil in P. auto. }
  assert (Fl' : forallb finv l' = true).
  { rewrite forallb_forall in *. intros x Hx. apply Fl.
    eapply Permutation.Permutation_in; [apply Permutation.Permutation_sym|]; eauto. }
  assert (L := Permutation.Permutation_length P).
  assert (B := avg_rounding_bound l Hne Hlen Fl Pf).
  assert (B' := avg_rounding_bound l' Hne' ltac:(rewrite <- L; exact Hlen) Fl' Pf').
  rewrite <- (rsum_perm _ _ P), <- (rabs_sum_perm _ _ P), <- L in B'.
  unfold avg_of. rewrite <- L.
  set (a := R_of (ndiv (fold_sum l) _)) in *. set (a' := R_of (ndiv (fold_sum l') _)) in *.
  set (m := (rsum l / INR (length l))%R) in *.
  replace (a - a')%R with ((a - m) - (a' - m))%R by ring.
  eapply Rle_trans; [apply Rabs_triang|]. rewrite Rabs_Ropp. lra.
Qed.

Lemma avg_of_is_avg l : l <> [] -> bi_avg (nums l) = Ok (VNum (avg_of l)).
Proof.
  intros H. destruct (avg_is_sum_div_count l H) as (s & A & B & _).
  destruct (sum_is_fold l H) as [_ C]. rewrite C in A. injection A as <-. exact B.
Qed.
