(* proofs/PegViewCompose.v — the parser-half and end-to-end theorems of C09 with BOTH tree hypotheses discharged:
   forest_shape_ok (PegShapeItems) and forest_view_ok (PegViewItems.parse_program_c_view_ok) hold of every Peg.parse
   result.  Remaining hypotheses: the exclusion forest_no_empty_container (finding C09-empty-container) and the
   formatter-half hypotheses stmt_ok_parsed. *)
From Coq Require Import String Ascii List NArith ZArith Bool Arith Lia.
Require Import Blots.Num Blots.gen.Builtins Blots.Ast Blots.Outcome Blots.Formatter
               Blots.proofs.Scan Blots.proofs.ScanFmt Blots.proofs.DriverText.
Require Import Blots.Peg Blots.gen.Grammar Blots.PegToItems Blots.PegComments Blots.proofs.PegComments
               Blots.proofs.PegCommentsCompose Blots.proofs.PegCommentsWf Blots.proofs.PegShape
               Blots.proofs.PegShapeItems Blots.proofs.PegShapeCompose Blots.proofs.PegViewItems.
Import ListNotations.

Theorem parse_keeps_comments_text_total : forall text forest p,
  parse_program_c text = PCOk forest p ->
  forest_no_empty_container text forest = true ->
  program_comments p = forest_comments text forest.
Proof.
  intros text forest p H Hn.
  exact (parse_keeps_comments_text text forest p H (parse_program_c_view_ok text forest p H) Hn).
Qed.

Theorem parsed_program_comment_texts_total : forall text forest p,
  parse_program_c text = PCOk forest p ->
  forest_no_empty_container text forest = true ->
  Forall comment_text_ok (program_comments p).
Proof.
  intros text forest p H Hn.
  exact (parsed_program_comment_texts_text text forest p H (parse_program_c_view_ok text forest p H) Hn).
Qed.

Theorem text_to_text_lib_total :
  forall O key_ok, (forall k, key_ok k = true -> neutral (o_record_key O k)) ->
  forall text forest p mw d,
  parse_program_c text = PCOk forest p ->
  forest_no_empty_container text forest = true ->
  Forall (stmt_ok_parsed O key_ok mw) p -> format_lib O mw p = Some d ->
  scan_comments (render d) = forest_comments text forest.
Proof.
  intros O key_ok Hk text forest p mw d H Hn Hok Hd.
  exact (text_to_text_lib O key_ok Hk text forest p mw d H (parse_program_c_view_ok text forest p H) Hn Hok Hd).
Qed.

Theorem text_to_text_cli_total :
  forall O key_ok, (forall k, key_ok k = true -> neutral (o_record_key O k)) ->
  forall text forest p,
  parse_program_c text = PCOk forest p ->
  forest_no_empty_container text forest = true ->
  Forall (stmt_ok_parsed O key_ok None) p ->
  scan_comments (render (format_cli O p)) = forest_comments text forest.
Proof.
  intros O key_ok Hk text forest p H Hn Hok.
  exact (text_to_text_cli O key_ok Hk text forest p H (parse_program_c_view_ok text forest p H) Hn Hok).
Qed.

(* the hypotheses of the _total theorems are satisfiable on a text with comments at every position class the item view
   reads (statement, list leading / end-of-line / after the last item, record, do-block comment and do_statement) *)
Local Open Scope string_scope.
Definition view_witness : string :=
  "// top" +++ nl +++ "x = [ // lead" +++ nl +++ "  1, // eol" +++ nl +++ "  ...y // e2" +++ nl +++ "] // stmt" +++ nl +++
  "r = {a: 1, // ra" +++ nl +++ "  b}" +++ nl +++ "f = do {" +++ nl +++ "  // dc" +++ nl +++ "  z = 1 // ds" +++ nl +++
  "  return z" +++ nl +++ "}" +++ nl +++ "g = k(1, 2)[0]".
Lemma total_hypotheses_satisfiable :
  exists forest p,
    parse_program_c view_witness = PCOk forest p
    /\ forest_no_empty_container view_witness forest = true
    /\ forest_comments view_witness forest =
       ["// top"; "// lead"; "// eol"; "// e2"; "// stmt"; "// ra"; "// dc"; "// ds"]
    /\ program_comments p = forest_comments view_witness forest.
Proof.
  destruct (parse_program_c view_witness) as [forest p| | | |] eqn:H;
    try (vm_compute in H; discriminate H).
  exists forest, p. split; [reflexivity|].
  assert (Hf : forest = match parse_program_c view_witness with PCOk f _ => f | _ => [] end)
    by (rewrite H; reflexivity).
  assert (Hp : p = match parse_program_c view_witness with PCOk _ q => q | _ => [] end)
    by (rewrite H; reflexivity).
  subst forest p. vm_compute. repeat split; reflexivity.
Qed.
