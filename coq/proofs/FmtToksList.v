(* FmtToksList.v — the list family at the VIEW level (property C07, extension TOK).

   format_list_multiline prints `,` after EVERY element, expr_to_source between elements: with
   chunk-equal elements the two chunk lists differ exactly by one `,` before the final `]`, which
   `canon` drops (FmtToksCanon.canon_trailing).  Family theorem with the elements' equalities as
   hypotheses (`lchild_ok`), any printer version and policy, every width and indentation. *)
From Coq Require Import String Ascii List Bool Arith Lia.
Require Import Blots.Num Blots.Ast Blots.PrattRender Blots.Printer Blots.Formatter Blots.FmtTokens
               Blots.proofs.FmtToks Blots.proofs.FmtToksDoc Blots.proofs.FmtToksAll Blots.proofs.FmtToksBin
               Blots.proofs.FmtToksCanon.
Import ListNotations.
Local Open Scope list_scope.

Fixpoint joinc (l : list (list string)) : list string :=
  match l with
  | [] => []
  | [x] => x
  | x :: r => x ++ [","%string] ++ joinc r
  end.

Lemma sjoin_same : forall sep l, Formatter.sjoin sep l = PrattRender.sjoin sep l.
Proof.
  intros sep l. induction l as [|x l IH]; [reflexivity|]. destruct l as [|y r]; [reflexivity|].
  change (Formatter.sjoin sep (x :: y :: r)) with (x +++ sep +++ Formatter.sjoin sep (y :: r)).
  change (PrattRender.sjoin sep (x :: y :: r)) with (x +++ sep +++ PrattRender.sjoin sep (y :: r)).
  now rewrite IH.
Qed.

Section ListFam.
  Variable fx : fixes.
  Variable pol : policy.
  Variable numtxt : num -> string.
  Variable keepc : bool.
  Variable w : nat.
  Notation O := (printer_oracles fx pol numtxt keepc).
  Notation pt := (print_text fx pol numtxt).
  Notation fd := (fmtd O w).

  Definition Tc (c : commented expr) : list string := toks (pt (cnode c)).
  Definition lchild_ok (x : expr) : Prop :=
    tok_ok O x = true /\ fsl O x = pt x /\ forall j, toks (render (fd x j)) = toks (pt x).
  Definition go_texts (items : list (commented expr)) : list string :=
    (fix go (l : list (commented expr)) : list string :=
       match l with [] => [] | Cm _ x _ :: l' => pt x :: go l' end) items.

  Ltac norm := repeat (progress (repeat rewrite <- app_assoc; cbn [app])).

  Lemma L_items : forall items inner, plain_items items = true ->
    Forall (fun c => lchild_ok (cnode c)) items ->
    flat_map piece_toks (list_items_doc fd items inner) = flat_map (fun c => Tc c ++ [","%string]) items.
  Proof.
    induction items as [|[lead x tr] items IH]; intros inner Hp HF; [reflexivity|].
    inversion HF as [|? ? Hx HF']; subst. cbn [cnode] in Hx. destruct Hx as [Hk [_ HS]].
    cbn [plain_items] in Hp. destruct lead; [|discriminate]. destruct tr; [discriminate|].
    cbn [list_items_doc leading_doc trailing_doc flat_map]. norm.
    rewrite fm_nl, fm_ind, flat_map_app, (pieces_toks fx pol numtxt keepc w x inner Hk), HS, fm_code.
    rewrite (IH inner Hp HF'). reflexivity.
  Qed.

  Lemma trailing_join : forall r x,
    flat_map (fun c => Tc c ++ [","%string]) (x :: r) = joinc (map Tc (x :: r)) ++ [","%string].
  Proof.
    induction r as [|y r IH]; intro x.
    - cbn [flat_map map joinc]. now rewrite app_nil_r.
    - change (flat_map (fun c => Tc c ++ [","%string]) (x :: y :: r))
        with ((Tc x ++ [","%string]) ++ flat_map (fun c => Tc c ++ [","%string]) (y :: r)).
      rewrite (IH y). change (joinc (map Tc (x :: y :: r))) with (Tc x ++ [","%string] ++ joinc (map Tc (y :: r))).
      now rewrite <- !app_assoc.
  Qed.

  Local Open Scope string_scope.
  Lemma T_join : forall r x A, ends_closed A = true ->
    Forall (fun c => lchild_ok (cnode c)) (x :: r) ->
    toks (A ++ PrattRender.sjoin ", " (go_texts (x :: r)) ++ "]") =
    (toks A ++ joinc (map Tc (x :: r)) ++ ["]"])%list.
  Proof.
    induction r as [|y r IH]; intros [lx x tx] A HA HF; inversion HF as [|? ? Hx HF']; subst;
      cbn [cnode] in Hx; destruct Hx as [Hk _]; destruct (node_of fx pol numtxt keepc x Hk) as [_ [Ex _]].
    - cbn [go_texts PrattRender.sjoin map joinc]. unfold Tc. cbn [cnode].
      rewrite (toks_app_closed A _ HA), (toks_app_break (pt x) "]" Ex eq_refl). reflexivity.
    - destruct y as [ly y ty].
      change (PrattRender.sjoin ", " (go_texts (Cm lx x tx :: Cm ly y ty :: r)))
        with (pt x ++ ", " ++ PrattRender.sjoin ", " (go_texts (Cm ly y ty :: r))).
      change (joinc (map Tc (Cm lx x tx :: Cm ly y ty :: r)))
        with (toks (pt x) ++ [","] ++ joinc (map Tc (Cm ly y ty :: r)))%list.
      set (S' := PrattRender.sjoin ", " (go_texts (Cm ly y ty :: r))).
      set (A' := A ++ pt x ++ ", ").
      assert (EQ : A ++ (pt x ++ ", " ++ S') ++ "]" = A' ++ S' ++ "]")
        by (unfold A'; rewrite !sapp_assoc; reflexivity).
      destruct (kw_suffix (pt x) ", " Ex eq_refl eq_refl) as [K1 [K2 K3]].
      assert (Bd : boundary A (pt x ++ ", ") = true).
      { unfold boundary. unfold ends_closed in HA. apply andb_prop in HA. destruct HA as [H1 H2].
        rewrite H1. unfold ends_closed. rewrite H1, H2. reflexivity. }
      assert (TA : toks A' = (toks A ++ toks (pt x) ++ [","])%list).
      { unfold A'. rewrite (toks_app_boundary _ _ Bd).
        rewrite (toks_app_break (pt x) ", " Ex eq_refl). reflexivity. }
      assert (CA : ends_closed A' = true).
      { unfold A'. rewrite (ends_closed_tst _ (pt x ++ ", ")); [rewrite K2; reflexivity|].
        apply tst_boundary; [exact Bd|]. destruct (pt x); discriminate. }
      rewrite EQ. unfold S'. rewrite (IH (Cm ly y ty) A' CA HF'), TA. now rewrite <- !app_assoc.
  Qed.
  Local Close Scope string_scope.

  Lemma fsl_list : forall items, plain_items items = true ->
    Forall (fun c => lchild_ok (cnode c)) items -> fsl O (EList items) = pt (EList items).
  Proof.
    intros items Hp HF. cbn [fsl print_text].
    assert (Hc : existsb has_comments items = false).
    { clear HF. induction items as [|[lead x tr] items IH]; [reflexivity|].
      cbn [plain_items] in Hp. destruct lead; [|discriminate]. destruct tr; [discriminate|].
      cbn [existsb]. rewrite (IH Hp). reflexivity. }
    rewrite Hc, sjoin_same.
    assert (EL : map (fun c : commented expr => fsl O (cnode c)) items = go_texts items).
    { clear Hc Hp. induction items as [|[lead x tr] items IH]; [reflexivity|].
      inversion HF as [|? ? Hx HF']; subst. cbn [cnode] in Hx. destruct Hx as [_ [E _]].
      change (go_texts (Cm lead x tr :: items)) with (pt x :: go_texts items).
      cbn [map cnode]. rewrite E, (IH HF'). reflexivity. }
    rewrite EL. reflexivity.
  Qed.

  Theorem list_family : forall items i, plain_items items = true ->
    tok_ok O (EList items) = true ->
    Forall (fun c => lchild_ok (cnode c)) items ->
    last ("["%string :: joinc (map Tc items)) ""%string <> ","%string ->
    lview (render (fd (EList items) i)) = lview (pt (EList items)).
  Proof.
    intros items i Hp Hk HF Hlast.
    rewrite fmtd_unfold. unfold impl_doc.
    match goal with |- context [if ?b then _ else _] => destruct b end.
    { rewrite opaque_toks, (fsl_list items Hp HF). reflexivity. }
    unfold multiline_doc, lview.
    assert (Hd : dok true (list_doc fd items i) = true).
    { pose proof (proj1 (dok_fmtd_all O w (EList items) Hk) i) as H. rewrite fmtd_unfold in H.
      unfold impl_doc in H.
      destruct items as [|c items]; [reflexivity|].
      apply dok_list_doc with (G := Gd O w); [exact (Hrec_fd O w)|exact Hp|].
      clear - HF. induction HF as [|c' l [Hk' _] _ IH]; constructor; [|exact IH].
      exact (proj1 (dok_fmtd_all O w (cnode c') Hk')). }
    rewrite (proj1 (doc_toks _ Hd)).
    destruct items as [|c items].
    - reflexivity.
    - unfold list_doc. norm. rewrite fm_code, flat_map_app, (L_items _ _ Hp HF), trailing_join.
      rewrite fm_nl, fm_ind, fm_code. cbn [flat_map app].
      change (pt (EList (c :: items))) with ("[" +++ PrattRender.sjoin ", " (go_texts (c :: items)) +++ "]").
      rewrite (T_join items c "[" eq_refl HF).
      change (toks "[") with ["["%string]. change (toks "]") with ["]"%string].
      cbn [app]. rewrite <- app_assoc. cbn [app].
      exact (canon_trailing ("["%string :: joinc (map Tc (c :: items))) "]" eq_refl (or_intror Hlast)).
  Qed.
End ListFam.
