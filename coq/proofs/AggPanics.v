(* AggPanics.v — exactly when an arity-respecting call of an aggregate built-in aborts (the C01
   side of C15: the two open known-finding classes), and that the proposed repair
   (bi_median_fixed / bi_percentile_fixed) never aborts and changes nothing else. *)
From Coq Require Import ZArith String List Bool Lia Floats.SpecFloat Permutation Arith.
Require Import Blots.Num Blots.gen.Builtins Blots.Ast Blots.Value Blots.Show Blots.Outcome
  Blots.BuiltinsAgg Blots.proofs.Order Blots.proofs.Aggregates Blots.proofs.AggPercentile.
Import ListNotations.
Open Scope Z_scope.

(* class KNanSort: at least two numbers, one of them a NaN, reach the sort *)
Definition nan_sort_class (ns : list num) : bool := (2 <=? len ns) && has_nan ns.

(* the open known-finding classes of C15, as a decidable predicate on (built-in, arguments) *)
Definition known_C15 (a : agg) (args : list value) : bool :=
  match a with
  | AMedian =>
      match collect_nums_median args with Ok ns => nan_sort_class ns | _ => false end
  | APercentile =>
      match args with
      | [VList vs; VNum p] =>
          in_0_100 p &&
          match mapM as_number vs with
          | Ok ns => is_empty ns              (* class KPercentileEmpty *)
                     || nan_sort_class ns     (* class KNanSort *)
          | _ => false
          end
      | _ => false
      end
  | _ => false
  end.

(* side conditions on a percentile call: p is a genuine double, the list fits in memory *)
Definition args_ok (args : list value) : Prop :=
  forall vs p, args = [VList vs; VNum p] -> valid p = true /\ len vs <= 2^53.

Definition ok_or_err {A} (o : outcome A) : Prop := (exists v, o = Ok v) \/ o = Err.

Lemma mapM_as_number_cases l :
  (exists ns, mapM as_number l = Ok ns /\ length ns = length l) \/ mapM as_number l = Err.
Proof.
  induction l as [|v l IH]; [left; exists []; auto|]. cbn [mapM].
  destruct v; cbn; auto. destruct IH as [(ns & -> & E)| ->]; cbn; [|auto].
  left. eexists; split; [reflexivity|]. cbn. now rewrite E.
Qed.

Lemma collect_nums_cases args : ok_or_err (collect_nums args).
Proof.
  unfold ok_or_err.
  assert (M : forall l, (exists v, mapM as_number l = Ok v) \/ mapM as_number l = Err).
  { intros l. destruct (mapM_as_number_cases l) as [(ns & -> & _)| ->]; eauto. }
  destruct args as [|a [|b r]]; [apply M| |]; destruct a; cbn [collect_nums]; try apply M; cbn; eauto.
Qed.

Lemma insert_pc_length x : forall l s, insert_pc x l = Ok s -> length s = S (length l).
Proof.
  induction l as [|y r IH]; intros s H; cbn in H.
  - now injection H as <-.
  - destruct (ncmp x y) as [[]|]; try discriminate.
    + destruct (insert_pc x r) eqn:E; try discriminate. injection H as <-. cbn. now rewrite (IH _ eq_refl).
    + now injection H as <-.
    + destruct (insert_pc x r) eqn:E; try discriminate. injection H as <-. cbn. now rewrite (IH _ eq_refl).
Qed.
Lemma sort_from_length l : forall acc s,
  sort_from (Ok acc) l = Ok s -> length s = (length acc + length l)%nat.
Proof.
  induction l as [|x l IH]; intros acc s H.
  - cbn in H. injection H as <-. cbn. lia.
  - rewrite sort_from_cons in H. destruct (insert_pc x acc) eqn:E.
    + apply insert_pc_length in E. rewrite (IH _ _ H), E. cbn. lia.
    + clear - H. exfalso. induction l; cbn in H; auto; discriminate.
    + clear - H. exfalso. induction l; cbn in H; auto; discriminate.
    + rewrite sort_from_panic in H. discriminate.
    + clear - H. exfalso. induction l; cbn in H; auto; discriminate.
Qed.
Lemma sort_pc_length l s : sort_pc l = Ok s -> length s = length l.
Proof. intros H. now rewrite (sort_from_length l [] s H). Qed.

Lemma sort_pc_panic_class l : sort_pc l = Panic <-> nan_sort_class l = true.
Proof.
  rewrite sort_pc_panic_iff. unfold nan_sort_class, len. rewrite andb_true_iff, Z.leb_le. intuition lia.
Qed.

(* the tail of median after a successful sort never aborts *)
Lemma median_tail_ok s : s <> [] ->
  exists v, (let n := len s in
             if n mod 2 =? 0
             then do x <- index_num s (n / 2 - 1); do y <- index_num s (n / 2); Ok (VNum (ndiv (nadd x y) n2))
             else do x <- index_num s (n / 2); Ok (VNum x)) = Ok v.
Proof.
  intros Hne. cbv zeta.
  assert (L : 1 <= len s) by (unfold len; destruct s; [contradiction|cbn; lia]).
  destruct (len s mod 2 =? 0) eqn:E.
  - apply Z.eqb_eq in E.
    assert (2 <= len s) by (destruct (Z.eq_dec (len s) 1) as [X|X]; [rewrite X in E; discriminate|lia]).
    destruct (index_num_nth s (len s / 2 - 1)) as (x & -> & _).
    { split; [assert (1 <= len s / 2) by (apply Z.div_le_lower_bound; lia); lia|].
      assert (len s / 2 < len s) by (apply Z.div_lt; lia). lia. }
    destruct (index_num_nth s (len s / 2)) as (y & -> & _).
    { split; [apply Z.div_pos; lia|apply Z.div_lt; lia]. }
    cbn. eauto.
  - destruct (index_num_nth s (len s / 2)) as (y & -> & _).
    { split; [apply Z.div_pos; lia|apply Z.div_lt; lia]. }
    cbn. eauto.
Qed.

Lemma bi_median_outcome args :
  match collect_nums args with
  | Ok ns => if is_empty ns then bi_median args = Err
             else if nan_sort_class ns then bi_median args = Panic
             else exists v, bi_median args = Ok v
  | _ => bi_median args = Err
  end.
Proof.
  assert (E := bi_agg_collect AMedian args eq_refl). cbn [bi_agg] in E. rewrite E. clear E.
  destruct (collect_nums_cases args) as [(ns & ->)| ->]; [|reflexivity]. cbn [obind].
  destruct ns as [|x ns]; [reflexivity|]. cbn [is_empty reduce].
  destruct (nan_sort_class (x :: ns)) eqn:C.
  - apply sort_pc_panic_class in C. now rewrite C.
  - destruct (sort_pc_ok_or_panic (x :: ns)) as [(s & Hs)|Hp].
    + rewrite Hs. cbn [obind]. apply median_tail_ok.
      apply sort_pc_length in Hs. destruct s; [discriminate|congruence].
    + apply sort_pc_panic_class in Hp. congruence.
Qed.

Lemma index_num_nil i : index_num [] i = Panic.
Proof.
  unfold index_num, len. cbn [length Z.of_nat].
  destruct (i <? 0) eqn:E; [reflexivity|]. replace (0 <=? i) with true by lia. reflexivity.
Qed.

Lemma dot_loop_cases b : forall a s, ok_or_err (dot_loop s a b).
Proof.
  unfold ok_or_err. induction b as [|y b IH]; intros a s; destruct a as [|x a]; cbn; eauto.
  destruct x; cbn; auto. destruct y; cbn; auto.
Qed.

Lemma percentile_outcome vs p : valid p = true -> len vs <= 2^53 ->
  let args := [VList vs; VNum p] in
  if in_0_100 p then
    match mapM as_number vs with
    | Ok ns => if is_empty ns || nan_sort_class ns then bi_percentile args = Panic
               else exists v, bi_percentile args = Ok v
    | _ => bi_percentile args = Err
    end
  else bi_percentile args = Err.
Proof.
  intros Vp Hlen args. unfold args, bi_percentile, bi_percentile_gen.
  cbn [arg nth_error obind as_number as_list].
  destruct (in_0_100 p) eqn:Hp; [|reflexivity]. cbn [negb].
  destruct (mapM_as_number_cases vs) as [(ns & -> & L)| ->]; [|reflexivity]. cbn [obind].
  destruct (nan_sort_class ns) eqn:C.
  - rewrite orb_true_r. apply sort_pc_panic_class in C. now rewrite C.
  - rewrite orb_false_r. destruct (sort_pc_ok_or_panic ns) as [(s & Hs)|Hpn].
    2:{ apply sort_pc_panic_class in Hpn. congruence. }
    rewrite Hs. cbn [obind]. assert (Ls := sort_pc_length _ _ Hs).
    destruct ns as [|x ns]; cbn [is_empty].
    + destruct s; [|discriminate]. unfold usize_sub.
      destruct (len [] <? 1); cbn [obind]; rewrite index_num_nil; reflexivity.
    + assert (L1 : 1 <= len s) by (unfold len; rewrite Ls; cbn; lia).
      unfold usize_sub. replace (len s <? 1) with false by lia. cbn [obind].
      assert (LS : len s <= 2^53) by (unfold len in *; rewrite Ls, L; lia).
      assert (R := index_in_range p (len s - 1) Vp Hp ltac:(lia)).
      destruct (index_num_nth s (percentile_index p (len s - 1))) as (v & -> & _); [lia|].
      cbn. eauto.
Qed.

(* ---------- the theorem: panics = known classes ---------- *)
Theorem panic_iff_known a args : args_ok args ->
  (checked_call a args = Panic <-> known_C15 a args = true).
Proof.
  intros Hok. unfold checked_call.
  destruct (arity_ok (builtin_arity (agg_builtin a)) (length args)) eqn:Ar.
  2:{ split; [discriminate|]. intros K. exfalso.
      destruct a; cbn in K; try discriminate.
      - (* median with no argument *)
        cbn in Ar. destruct args; [cbn in K; discriminate|discriminate].
      - destruct args as [|[] [|[] [|? ?]]]; cbn in K, Ar; discriminate. }
  destruct a; cbn [bi_agg known_C15].
  1-5: split; [|discriminate];
         intros H;
         first [change (bi_min args) with (bi_agg AMin args) in H; rewrite (bi_agg_collect AMin args eq_refl) in H
               |change (bi_max args) with (bi_agg AMax args) in H; rewrite (bi_agg_collect AMax args eq_refl) in H
               |change (bi_avg args) with (bi_agg AAvg args) in H; rewrite (bi_agg_collect AAvg args eq_refl) in H
               |change (bi_sum args) with (bi_agg ASum args) in H; rewrite (bi_agg_collect ASum args eq_refl) in H
               |change (bi_prod args) with (bi_agg AProd args) in H; rewrite (bi_agg_collect AProd args eq_refl) in H];
       destruct (collect_nums_cases args) as [(ns & E)|E]; rewrite E in H; cbn in H;
       try discriminate; destruct ns; discriminate.
  - (* median *)
    assert (O := bi_median_outcome args). change collect_nums_median with collect_nums_min.
    rewrite collect_min_eq. destruct (collect_nums args) as [ns| | | |]; try (rewrite O; split; discriminate).
    destruct ns as [|x ns]; [rewrite O; split; discriminate|]. cbn [is_empty] in O.
    destruct (nan_sort_class (x :: ns)); [rewrite O; tauto|].
    destruct O as (v & ->). split; discriminate.
  - (* percentile *)
    cbn in Ar. destruct args as [|a0 [|a1 [|? ?]]]; try discriminate.
    destruct a1; try (split; [unfold bi_percentile, bi_percentile_gen; cbn; discriminate|
                              destruct a0; discriminate]).
    destruct a0; try (split; [unfold bi_percentile, bi_percentile_gen; cbn; discriminate|discriminate]).
    destruct (Hok l x eq_refl) as [Vp Hl].
    assert (O := percentile_outcome l x Vp Hl). cbv zeta in O.
    destruct (in_0_100 x); [|rewrite O; split; discriminate]. cbn [andb].
    destruct (mapM as_number l) as [ns| | | |]; try (rewrite O; split; discriminate).
    destruct (is_empty ns || nan_sort_class ns); [rewrite O; tauto|].
    destruct O as (v & ->). split; discriminate.
  - (* any *)
    cbn in Ar. destruct args as [|a0 [|? ?]]; try discriminate.
    split; [|discriminate]. unfold bi_any. cbn. destruct a0; cbn; discriminate.
  - cbn in Ar. destruct args as [|a0 [|? ?]]; try discriminate.
    split; [|discriminate]. unfold bi_all. cbn. destruct a0; cbn; discriminate.
  - (* dot *)
    cbn in Ar. destruct args as [|a0 [|a1 [|? ?]]]; try discriminate.
    split; [|discriminate]. unfold bi_dot. cbn. destruct a0; cbn; try discriminate.
    destruct a1; cbn; try discriminate.
    destruct (negb (length l =? length l0)%nat); [discriminate|].
    destruct (dot_loop_cases l0 l n0) as [(v & ->)| ->]; cbn; discriminate.
Qed.

(* ---------- debug and release builds agree on percentile ---------- *)
Theorem percentile_build_independent args :
  bi_percentile_gen true args = bi_percentile_gen false args.
Proof.
  unfold bi_percentile_gen.
  destruct (arg args 1) as [a1| | | |]; cbn [obind]; try reflexivity.
  destruct (as_number a1) as [p| | | |]; cbn [obind]; try reflexivity.
  destruct (arg args 0) as [a0| | | |]; cbn [obind]; try reflexivity.
  destruct (as_list a0) as [vs| | | |]; cbn [obind]; try reflexivity.
  destruct (negb (in_0_100 p)); [reflexivity|].
  destruct (mapM as_number vs) as [ns| | | |]; cbn [obind]; try reflexivity.
  destruct (sort_pc ns) as [s| | | |] eqn:Hs; cbn [obind]; try reflexivity.
  unfold usize_sub. destruct (len s <? 1) eqn:E; [|reflexivity]. cbn [obind].
  assert (s = []) as -> by (destruct s; [reflexivity|apply Z.ltb_lt in E; unfold len in E; cbn [length] in E; lia]).
  now rewrite index_num_nil.
Qed.

(* ---------- the proposed repair ---------- *)
Lemma single_nan_sort x : sort_pc [x] = Ok [x].
Proof. reflexivity. Qed.

Lemma has_nan_not_class ns : ns <> [] -> has_nan ns = true -> nan_sort_class ns = false ->
  exists x, ns = [x] /\ is_nan x = true.
Proof.
  intros Hne Hn C. destruct ns as [|x [|y r]]; [contradiction| |].
  - exists x. split; [reflexivity|]. cbn in Hn. now rewrite orb_false_r in Hn.
  - unfold nan_sort_class, len in C. rewrite Hn, andb_true_r in C. cbn [length] in C. apply Z.leb_gt in C. lia.
Qed.

(* outside the known-finding classes the repair changes nothing *)
Theorem fixed_conservative a args : args_ok args ->
  known_C15 a args = false -> checked_call_fixed a args = checked_call a args.
Proof.
  intros Hok K. unfold checked_call_fixed, checked_call.
  destruct (arity_ok _ _) eqn:Ar; [|reflexivity].
  destruct a; try reflexivity; cbn [bi_agg_fixed bi_agg known_C15] in *.
  - (* median *)
    unfold bi_median_fixed, bi_median.
    destruct (collect_nums_median args) as [ns| | | |]; cbn [obind]; try reflexivity.
    destruct ns as [|x ns]; [reflexivity|]. cbn [is_empty].
    destruct (has_nan (x :: ns)) eqn:Hn; [|reflexivity].
    destruct (has_nan_not_class (x :: ns) ltac:(discriminate) Hn K) as (y & E & Hy).
    injection E as -> ->. destruct y; try discriminate. reflexivity.
  - (* percentile *)
    unfold bi_percentile_fixed, bi_percentile, bi_percentile_gen.
    destruct (arg args 1) as [a1| | | |] eqn:E1; cbn [obind]; try reflexivity.
    destruct (as_number a1) as [p| | | |] eqn:Ep; cbn [obind]; try reflexivity.
    destruct (arg args 0) as [a0| | | |] eqn:E0; cbn [obind]; try reflexivity.
    destruct (as_list a0) as [vs| | | |] eqn:Ev; cbn [obind]; try reflexivity.
    destruct (in_0_100 p) eqn:Hp; [|reflexivity]. cbn [negb].
    cbn in Ar. destruct args as [|b0 [|b1 [|? ?]]]; try discriminate.
    cbn in E1, E0. injection E1 as ->. injection E0 as ->.
    destruct a1; try discriminate. injection Ep as ->.
    destruct a0; try discriminate. injection Ev as ->.
    destruct (Hok vs p eq_refl) as [Vp Hl]. rewrite Hp in K. cbn [andb] in K.
    destruct (mapM_as_number_cases vs) as [(ns & E & L)|E]; rewrite E in *; cbn [obind]; [|reflexivity].
    apply orb_false_iff in K. destruct K as [K1 K2].
    destruct ns as [|x ns]; [discriminate|]. cbn [is_empty].
    destruct (has_nan (x :: ns)) eqn:Hn.
    + destruct (has_nan_not_class (x :: ns) ltac:(discriminate) Hn K2) as (y & Ey & Hy).
      injection Ey as -> ->. rewrite single_nan_sort. cbn [obind].
      change (len [y]) with 1. unfold usize_sub. change (1 <? 1) with false. cbn [obind].
      change (1 - 1) with 0.
      assert (R := index_in_range p 0 Vp Hp ltac:(lia)).
      replace (percentile_index p 0) with 0 by lia.
      destruct y; try discriminate. reflexivity.
    + destruct (sort_pc (x :: ns)) as [s| | | |] eqn:Hs; cbn [obind]; try reflexivity.
      assert (Ls := sort_pc_length _ _ Hs).
      unfold usize_sub. replace (len s <? 1) with false; [reflexivity|].
      symmetry. apply Z.ltb_ge. unfold len. rewrite Ls. cbn [length]. lia.
Qed.

(* the repaired built-ins never abort on an arity-respecting call *)
Theorem fixed_no_panic a args : args_ok args -> checked_call_fixed a args <> Panic.
Proof.
  intros Hok. destruct (known_C15 a args) eqn:K.
  2:{ rewrite (fixed_conservative a args Hok K). intros H.
      apply (panic_iff_known a args Hok) in H. congruence. }
  unfold checked_call_fixed. destruct (arity_ok _ _) eqn:Ar; [|discriminate].
  destruct a; try discriminate; cbn [bi_agg_fixed known_C15] in *.
  - unfold bi_median_fixed.
    destruct (collect_nums_median args) as [ns| | | |]; try discriminate. cbn [obind].
    destruct ns as [|x ns]; [discriminate|]. cbn [is_empty].
    unfold nan_sort_class in K. apply andb_true_iff in K. destruct K as [_ ->]. discriminate.
  - destruct args as [|[] [|[] [|? ?]]]; try discriminate.
    apply andb_true_iff in K. destruct K as [Hp K].
    unfold bi_percentile_fixed. cbn [arg nth_error obind as_number as_list]. rewrite Hp. cbn [negb].
    destruct (mapM as_number l) as [ns| | | |]; try discriminate. cbn [obind].
    destruct ns as [|y ns]; [discriminate|]. cbn [is_empty orb] in *.
    unfold nan_sort_class in K. apply andb_true_iff in K. destruct K as [_ ->]. discriminate.
Qed.

(* what the repair returns on the known classes *)
Theorem fixed_on_known a args : known_C15 a args = true ->
  bi_agg_fixed a args = Ok (VNum nnan) \/ (a = APercentile /\ bi_agg_fixed a args = Err).
Proof.
  intros K. destruct a; try discriminate; cbn [bi_agg_fixed known_C15] in *.
  - left. unfold bi_median_fixed.
    destruct (collect_nums_median args) as [ns| | | |]; try discriminate. cbn [obind].
    destruct ns as [|x ns]; [discriminate|]. cbn [is_empty].
    unfold nan_sort_class in K. apply andb_true_iff in K. destruct K as [_ ->]. reflexivity.
  - destruct args as [|[] [|[] [|? ?]]]; try discriminate.
    apply andb_true_iff in K. destruct K as [Hp K].
    unfold bi_percentile_fixed. cbn [arg nth_error obind as_number as_list]. rewrite Hp. cbn [negb].
    destruct (mapM as_number l) as [ns| | | |]; try discriminate. cbn [obind].
    destruct ns as [|y ns]; [right; split; reflexivity|]. cbn [is_empty orb] in *. left.
    unfold nan_sort_class in K. apply andb_true_iff in K. destruct K as [_ ->]. reflexivity.
Qed.
