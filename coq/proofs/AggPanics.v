(* AggPanics.v — no arity-respecting call of an aggregate built-in aborts (the C01 side of C15).
   Before /repo commit 710ac9a two input classes did abort (DESIGN section 7, F1 and F2): a NaN
   among >= 2 numbers reaching the sort of median / percentile, and percentile of an empty list.
   The guards added by that commit are transcribed in BuiltinsAgg.v; this file proves that with
   them every partial operation on the modelled paths is guarded, and what the guards return. *)
From Coq Require Import ZArith String List Bool Lia Floats.SpecFloat Permutation Arith.
Require Import Blots.Num Blots.gen.Builtins Blots.Ast Blots.Value Blots.Show Blots.Outcome
  Blots.BuiltinsAgg Blots.proofs.Order Blots.proofs.Aggregates Blots.proofs.AggPercentile.
Import ListNotations.
Open Scope Z_scope.

(* side conditions on a percentile call: p is a genuine double, the list fits in memory *)
Definition args_ok (args : list value) : Prop :=
  forall vs p, args = [VList vs; VNum p] -> valid p = true /\ len vs <= 2^53.

Definition ok_or_err {A} (o : outcome A) : Prop := (exists v, o = Ok v) \/ o = Err.

Lemma mapM_as_number_cases l :
  (exists ns, mapM as_number l = Ok ns /\ length ns = length l) \/ mapM as_number l = Err.
Proof.
  induction l as [|v l IH]; [left; exists []; auto|]. cbn [mapM].
  destruct v; cbn; auto. destruct IH as [(ns & -> & E)| ->]; cbn; [|auto].
  left. eexists; split; [reflexivity|]. cbn. now rewrite E.
Qed.

Lemma collect_nums_cases args : ok_or_err (collect_nums args).
Proof.
  unfold ok_or_err.
  assert (M : forall l, (exists v, mapM as_number l = Ok v) \/ mapM as_number l = Err).
  { intros l. destruct (mapM_as_number_cases l) as [(ns & -> & _)| ->]; eauto. }
  destruct args as [|a [|b r]]; [apply M| |]; destruct a; cbn [collect_nums]; try apply M; cbn; eauto.
Qed.

Lemma insert_pc_length x : forall l s, insert_pc x l = Ok s -> length s = S (length l).
Proof.
  induction l as [|y r IH]; intros s H; cbn in H.
  - now injection H as <-.
  - destruct (ncmp x y) as [[]|]; try discriminate.
    + destruct (insert_pc x r) eqn:E; try discriminate. injection H as <-. cbn. now rewrite (IH _ eq_refl).
    + now injection H as <-.
    + destruct (insert_pc x r) eqn:E; try discriminate. injection H as <-. cbn. now rewrite (IH _ eq_refl).
Qed.
Lemma sort_from_length l : forall acc s,
  sort_from (Ok acc) l = Ok s -> length s = (length acc + length l)%nat.
Proof.
  induction l as [|x l IH]; intros acc s H.
  - cbn in H. injection H as <-. cbn. lia.
  - rewrite sort_from_cons in H. destruct (insert_pc x acc) eqn:E.
    + apply insert_pc_length in E. rewrite (IH _ _ H), E. cbn. lia.
    + clear - H. exfalso. induction l; cbn in H; auto; discriminate.
    + clear - H. exfalso. induction l; cbn in H; auto; discriminate.
    + rewrite sort_from_panic in H. discriminate.
    + clear - H. exfalso. induction l; cbn in H; auto; discriminate.
Qed.
Lemma sort_pc_length l s : sort_pc l = Ok s -> length s = length l.
Proof. intros H. now rewrite (sort_from_length l [] s H). Qed.

(* the tail of median after a successful sort never aborts *)
Lemma median_tail_ok s : s <> [] ->
  exists v, (let n := len s in
             if n mod 2 =? 0
             then do x <- index_num s (n / 2 - 1); do y <- index_num s (n / 2); Ok (VNum (ndiv (nadd x y) n2))
             else do x <- index_num s (n / 2); Ok (VNum x)) = Ok v.
Proof.
  intros Hne. cbv zeta.
  assert (L : 1 <= len s) by (unfold len; destruct s; [contradiction|cbn; lia]).
  destruct (len s mod 2 =? 0) eqn:E.
  - apply Z.eqb_eq in E.
    assert (2 <= len s) by (destruct (Z.eq_dec (len s) 1) as [X|X]; [rewrite X in E; discriminate|lia]).
    destruct (index_num_nth s (len s / 2 - 1)) as (x & -> & _).
    { split; [assert (1 <= len s / 2) by (apply Z.div_le_lower_bound; lia); lia|].
      assert (len s / 2 < len s) by (apply Z.div_lt; lia). lia. }
    destruct (index_num_nth s (len s / 2)) as (y & -> & _).
    { split; [apply Z.div_pos; lia|apply Z.div_lt; lia]. }
    cbn. eauto.
  - destruct (index_num_nth s (len s / 2)) as (y & -> & _).
    { split; [apply Z.div_pos; lia|apply Z.div_lt; lia]. }
    cbn. eauto.
Qed.

Lemma nan_free_of_has_nan ns : has_nan ns = false -> nan_free ns = true.
Proof. intros H. rewrite has_nan_nan_free in H. now apply negb_false_iff in H. Qed.

Lemma index_num_nil i : index_num [] i = Panic.
Proof.
  unfold index_num, len. cbn [length Z.of_nat].
  destruct (i <? 0) eqn:E; [reflexivity|]. replace (0 <=? i) with true by lia. reflexivity.
Qed.

Lemma dot_loop_cases b : forall a s, ok_or_err (dot_loop s a b).
Proof.
  unfold ok_or_err. induction b as [|y b IH]; intros a s; destruct a as [|x a]; cbn; eauto.
  destruct x; cbn; auto. destruct y; cbn; auto.
Qed.

(* what median returns, case by case *)
Lemma bi_median_outcome args :
  match collect_nums args with
  | Ok ns => if is_empty ns then bi_median args = Err
             else if has_nan ns then bi_median args = Ok (VNum nnan)
             else exists v, bi_median args = Ok v
  | _ => bi_median args = Err
  end.
Proof.
  assert (E := bi_agg_collect AMedian args eq_refl). cbn [bi_agg] in E. rewrite E. clear E.
  destruct (collect_nums_cases args) as [(ns & ->)| ->]; [|reflexivity]. cbn [obind].
  destruct ns as [|x ns]; [reflexivity|]. cbn [is_empty reduce].
  destruct (has_nan (x :: ns)) eqn:C; [reflexivity|].
  destruct (sort_pc_sorts (x :: ns) (nan_free_of_has_nan _ C)) as (s & Hs & P & _).
  rewrite Hs. cbn [obind]. apply median_tail_ok.
  intros ->. apply Permutation_sym, Permutation_nil in P. discriminate.
Qed.

(* what percentile returns, case by case *)
Lemma percentile_outcome vs p : valid p = true -> len vs <= 2^53 ->
  let args := [VList vs; VNum p] in
  if in_0_100 p then
    match mapM as_number vs with
    | Ok ns => if is_empty ns then bi_percentile args = Err
               else if has_nan ns then bi_percentile args = Ok (VNum nnan)
               else exists v, bi_percentile args = Ok v
    | _ => bi_percentile args = Err
    end
  else bi_percentile args = Err.
Proof.
  intros Vp Hlen args. unfold args, bi_percentile, bi_percentile_gen.
  cbn [arg nth_error obind as_number as_list].
  destruct (in_0_100 p) eqn:Hp; [|reflexivity]. cbn [negb].
  destruct (mapM_as_number_cases vs) as [(ns & -> & L)| ->]; [|reflexivity]. cbn [obind].
  destruct ns as [|x ns]; [reflexivity|]. cbn [is_empty].
  destruct (has_nan (x :: ns)) eqn:C; [reflexivity|].
  destruct (sort_pc_sorts (x :: ns) (nan_free_of_has_nan _ C)) as (s & Hs & P & _).
  rewrite Hs. cbn [obind]. assert (Ls := Permutation_length P). cbn [length] in Ls.
  assert (L1 : 1 <= len s) by (unfold len; lia).
  unfold usize_sub. replace (len s <? 1) with false by lia. cbn [obind].
  assert (LS : len s <= 2^53) by (unfold len in *; cbn [length] in L; lia).
  assert (R := index_in_range p (len s - 1) Vp Hp ltac:(lia)).
  destruct (index_num_nth s (percentile_index p (len s - 1))) as (v & -> & _); [lia|].
  cbn. eauto.
Qed.

(* ---------- the theorem: an arity-respecting call returns a value or an error ---------- *)
Theorem checked_call_total a args : args_ok args -> ok_or_err (checked_call a args).
Proof.
  intros Hok. unfold checked_call, ok_or_err.
  destruct (arity_ok (builtin_arity (agg_builtin a)) (length args)) eqn:Ar; [|now right].
  assert (V : forall f, is_varargs f = true -> f <> AMedian ->
              (exists v, bi_agg f args = Ok v) \/ bi_agg f args = Err).
  { intros f Hf Hm. rewrite (bi_agg_collect f args Hf).
    destruct (collect_nums_cases args) as [(ns & ->)| ->]; [|now right]. cbn [obind].
    destruct ns; [now right|]. cbn [is_empty]. destruct f; try discriminate; try congruence; cbn; eauto. }
  destruct a; cbn [bi_agg].
  1-5: (apply (V AMin) || apply (V AMax) || apply (V AAvg) || apply (V ASum) || apply (V AProd));
       [reflexivity|discriminate].
  - (* median *)
    assert (O := bi_median_outcome args).
    destruct (collect_nums args) as [ns| | | |]; try (rewrite O; now right).
    destruct ns as [|x ns]; [rewrite O; now right|]. cbn [is_empty] in O.
    destruct (has_nan (x :: ns)); [rewrite O; eauto|]. destruct O as (v & ->). eauto.
  - (* percentile *)
    cbn in Ar. destruct args as [|a0 [|a1 [|? ?]]]; try discriminate.
    destruct a1; try (right; unfold bi_percentile, bi_percentile_gen; reflexivity).
    destruct a0; try (right; unfold bi_percentile, bi_percentile_gen; reflexivity).
    destruct (Hok l x eq_refl) as [Vp Hl].
    assert (O := percentile_outcome l x Vp Hl). cbv zeta in O.
    destruct (in_0_100 x); [|rewrite O; now right].
    destruct (mapM as_number l) as [ns| | | |]; try (rewrite O; now right).
    destruct ns as [|y ns]; [rewrite O; now right|]. cbn [is_empty] in O.
    destruct (has_nan (y :: ns)); [rewrite O; eauto|]. destruct O as (v & ->). eauto.
  - (* any *)
    cbn in Ar. destruct args as [|a0 [|? ?]]; try discriminate.
    unfold bi_any. cbn. destruct a0; cbn; eauto.
  - cbn in Ar. destruct args as [|a0 [|? ?]]; try discriminate.
    unfold bi_all. cbn. destruct a0; cbn; eauto.
  - (* dot *)
    cbn in Ar. destruct args as [|a0 [|a1 [|? ?]]]; try discriminate.
    unfold bi_dot. cbn. destruct a0; cbn; eauto. destruct a1; cbn; eauto.
    destruct (negb (length l =? length l0)%nat); [now right|].
    destruct (dot_loop_cases l0 l n0) as [(v & ->)| ->]; cbn; eauto.
Qed.

Corollary no_panic a args : args_ok args -> checked_call a args <> Panic.
Proof.
  intros H. destruct (checked_call_total a args H) as [(v & ->)| ->]; discriminate.
Qed.

(* ---------- what the guards return ---------- *)
Theorem median_nan args ns : collect_nums args = Ok ns -> ns <> [] -> has_nan ns = true ->
  bi_median args = Ok (VNum nnan).
Proof.
  intros C Hne Hn. assert (O := bi_median_outcome args). rewrite C in O.
  destruct ns; [contradiction|]. cbn [is_empty] in O. now rewrite Hn in O.
Qed.

Theorem percentile_nan vs p ns : valid p = true -> len vs <= 2^53 -> in_0_100 p = true ->
  mapM as_number vs = Ok ns -> ns <> [] -> has_nan ns = true ->
  bi_percentile [VList vs; VNum p] = Ok (VNum nnan).
Proof.
  intros Vp Hl Hp M Hne Hn. assert (O := percentile_outcome vs p Vp Hl). cbv zeta in O.
  rewrite Hp, M in O. destruct ns; [contradiction|]. cbn [is_empty] in O. now rewrite Hn in O.
Qed.

Theorem percentile_empty p : in_0_100 p = true -> bi_percentile [VList []; VNum p] = Err.
Proof.
  intros Hp. unfold bi_percentile, bi_percentile_gen. cbn [arg nth_error obind as_number as_list].
  rewrite Hp. reflexivity.
Qed.

(* ---------- debug and release builds agree on percentile ---------- *)
Theorem percentile_build_independent args :
  bi_percentile_gen true args = bi_percentile_gen false args.
Proof.
  unfold bi_percentile_gen.
  destruct (arg args 1) as [a1| | | |]; cbn [obind]; try reflexivity.
  destruct (as_number a1) as [p| | | |]; cbn [obind]; try reflexivity.
  destruct (arg args 0) as [a0| | | |]; cbn [obind]; try reflexivity.
  destruct (as_list a0) as [vs| | | |]; cbn [obind]; try reflexivity.
  destruct (negb (in_0_100 p)); [reflexivity|].
  destruct (mapM as_number vs) as [ns| | | |]; cbn [obind]; try reflexivity.
  destruct ns as [|x ns]; [reflexivity|]. cbn [is_empty].
  destruct (has_nan (x :: ns)); [reflexivity|].
  destruct (sort_pc (x :: ns)) as [s| | | |] eqn:Hs; cbn [obind]; try reflexivity.
  assert (Ls := sort_pc_length _ _ Hs). cbn [length] in Ls.
  unfold usize_sub. replace (len s <? 1) with false; [reflexivity|].
  symmetry. apply Z.ltb_ge. unfold len. lia.
Qed.
