(* CallSite.v — C04: a function that is closed after capture (hereditarily, Closed.v) returns
   the same outcome and store for the same arguments from EVERY call site: FunctionDef::call
   does not depend on the caller's scope chain except through `inputs`.

   Structure: (1) evaluating an expression in a chain H ++ T, where every name the expression
   can look up is bound in the prefix H, does not depend on T except through T's `inputs`
   binding, and leaves T untouched; (2) by induction on the depth budget, the same for
   FunctionDef::call on closed functions and closed arguments. *)
From Coq Require Import String Ascii List ZArith Bool Lia.
Require Import Blots.Num Blots.gen.Builtins Blots.Ast Blots.Value Blots.Outcome Blots.Binop
               Blots.Env Blots.Eval Blots.BuiltinsHof Blots.Program Blots.EvalInst
               Blots.proofs.ExprInd Blots.proofs.ValueInd Blots.proofs.StoreMono
               Blots.proofs.Closed Blots.proofs.ClosedOps Blots.proofs.FreeVars Blots.proofs.Closures.
Import ListNotations.
Open Scope string_scope.
Open Scope list_scope.
Open Scope nat_scope.

(* ------------------------------------------------------------------ chains H ++ T *)
Lemma lookup_app : forall H T x,
  lookup (H ++ T) x = match lookup H x with Some v => Some v | None => lookup T x end.
Proof.
  induction H as [|[k f] H IH]; intros T x; cbn [app lookup]; [reflexivity|].
  destruct (lookup_frame f x); [reflexivity|apply IH].
Qed.

Definition inputs_of (T : frames) : option value := lookup T "inputs".
Definition covered (H : frames) (vars : list string) : Prop := forall x, In x vars -> lookup H x <> None.

(* the head frame got some bindings added; everything else is as it was *)
Definition grows (H H' : frames) : Prop :=
  exists k f added rest, H = (k, f) :: rest /\ H' = (k, added ++ f) :: rest.
Lemma grows_refl : forall H, H <> [] -> grows H H.
Proof. intros [|[k f] r] Hne; [congruence|]. exists k, f, [], r. split; reflexivity. Qed.
Lemma grows_trans : forall A B C, grows A B -> grows B C -> grows A C.
Proof.
  intros A B C (k & f & a1 & r & -> & ->) (k' & f' & a2 & r' & E & ->). inversion E; subst.
  exists k', f, (a2 ++ a1), r'. split; [reflexivity|rewrite app_assoc; reflexivity].
Qed.
Lemma grows_ne : forall H H', grows H H' -> H' <> [].
Proof. intros H H' (k & f & a & r & _ & ->). discriminate. Qed.
Lemma lookup_frame_app_some : forall a f x, lookup_frame f x <> None -> lookup_frame (a ++ f) x <> None.
Proof.
  induction a as [|[y v] a IH]; intros f x Hx; cbn [app lookup_frame]; [exact Hx|].
  destruct (String.eqb x y); [discriminate|apply IH; exact Hx].
Qed.
Lemma grows_covered : forall H H' vars, grows H H' -> covered H vars -> covered H' vars.
Proof.
  intros H H' vars (k & f & a & r & -> & ->) Hc x Hx. specialize (Hc x Hx). cbn [lookup] in *.
  destruct (lookup_frame f x) eqn:E.
  - assert (Hn : lookup_frame (a ++ f) x <> None) by (apply lookup_frame_app_some; congruence).
    destruct (lookup_frame (a ++ f) x); [discriminate|congruence].
  - destruct (lookup_frame (a ++ f) x); [discriminate|exact Hc].
Qed.

Lemma insert_head_app : forall H T x v,
  H <> [] ->
  insert_head (H ++ T) x v =
  match insert_head H x v with Some H' => Some (H' ++ T) | None => None end.
Proof. intros [|[[|] f] r] T x v Hne; [congruence| |]; reflexivity. Qed.
Lemma insert_head_grows : forall H x v H', insert_head H x v = Some H' -> grows H H' /\ lookup H' x <> None.
Proof.
  intros [|[[|] f] r] x v H' E; try discriminate. inversion E; subst. split.
  - exists FOwned, f, [(x, v)], r. split; reflexivity.
  - cbn [lookup lookup_frame]. rewrite String.eqb_refl. discriminate.
Qed.

Lemma capture_covered : forall H T vars acc,
  covered H vars -> capture (H ++ T) vars acc = capture H vars acc.
Proof.
  intros H T vars; induction vars as [|x vars IH]; intros acc Hc; [reflexivity|].
  cbn [capture]. rewrite lookup_app.
  assert (Hx : lookup H x <> None) by (apply Hc; left; reflexivity).
  assert (Hc' : covered H vars) by (intros y Hy; apply Hc; right; exact Hy).
  destruct (lookup H x); [|congruence]. destruct (is_builtin_name x); apply IH; exact Hc'.
Qed.

Lemma capture_closed : forall st H vars acc,
  closed_frames st H -> closed_frame st acc -> closed_frame st (capture H vars acc).
Proof.
  intros st H vars; induction vars as [|x vars IH]; intros acc HH Ha; [exact Ha|].
  cbn [capture]. destruct (lookup H x) eqn:E; [|apply IH; assumption].
  destruct (is_builtin_name x); [apply IH; assumption|].
  apply IH; [assumption|]. constructor; [|exact Ha]. cbn [snd]. eapply lookup_closed; eauto.
Qed.

Lemma closed_frames_app_grow : forall st k f a r,
  closed_frames st ((k, f) :: r) -> closed_frame st a -> closed_frames st ((k, a ++ f) :: r).
Proof.
  intros st k f a r HH Ha. inversion HH; subst. constructor; [|assumption]. cbn [snd] in *.
  apply Forall_app; split; assumption.
Qed.

(* nca implies that every identifier and shorthand key has a non-built-in name *)
Definition nonbuiltin (x : string) : Prop := is_builtin_name x = false.
Definition nca_stmt (s : expr) : bool := match s with EAssign _ v => nca v | _ => nca s end.
Lemma nca_ids_ok_gen : forall e,
  (nca e = true -> ids_ok nonbuiltin e) /\ (nca_stmt e = true -> ids_ok nonbuiltin e).
Proof.
  induction e using expr_ind';
    (match goal with |- (nca ?e0 = true -> _) /\ _ =>
       assert (Hmain : nca_stmt e0 = true -> ids_ok nonbuiltin e0);
       [|split; [first [exact Hmain|intros Hx; discriminate Hx]|exact Hmain]] end);
    unfold nca_stmt; intros Hn; cbn [nca ids_ok] in *; try exact I; try discriminate.
  - unfold nonbuiltin. destruct (is_builtin_name x); [discriminate|reflexivity].
  - (* EInRef: reads `inputs`, which is not the name of a built-in *) reflexivity.
  - match goal with HF : Forall _ items |- _ => induction HF as [|[ld a tr] l Ha _ IHl] end; [exact I|].
    cbn [cnode] in Ha. apply andb_true_iff in Hn. destruct Hn as [H1 H2]. split; [apply (proj1 Ha); exact H1|apply IHl; exact H2].
  - match goal with HF : Forall _ entries |- _ => induction HF as [|[ld [k v] tr] l Ha _ IHl] end; [exact I|].
    cbn [cnode Pentry] in Ha. destruct Ha as [Hk Hv]. apply andb_true_iff in Hn. destruct Hn as [H1 H2].
    split; [|apply IHl; exact H2]. destruct k as [key|ke|z|se]; cbn [Pkey] in Hk.
    + apply (proj1 Hv); exact H1.
    + apply andb_true_iff in H1. destruct H1; split; [apply (proj1 Hk)|apply (proj1 Hv)]; assumption.
    + unfold nonbuiltin. destruct (is_builtin_name z); [discriminate|reflexivity].
    + apply (proj1 Hk); exact H1.
  - apply (proj1 IHe); exact Hn.
  - apply andb_true_iff in Hn. destruct Hn as [Hn H3]. apply andb_true_iff in Hn. destruct Hn as [H1 H2].
    split; [apply (proj1 IHe1); exact H1|split; [apply (proj1 IHe2); exact H2|apply (proj1 IHe3); exact H3]].
  - match goal with HF : Forall _ stmts, HR : _ /\ _ |- _ => rename HF into HFs; rename HR into HRet end.
    destruct ret as [ld rt tr]. cbn [cnode] in HRet. apply andb_true_iff in Hn. destruct Hn as [Hs Hr]. split.
    + clear Hr HRet. induction HFs as [|[l1 s t1] l Hs1 _ IHl]; [exact I|].
      cbn [cnode] in Hs1. apply andb_true_iff in Hs. destruct Hs as [Ha Hb]. split; [|apply IHl; exact Hb].
      apply (proj2 Hs1). exact Ha.
    + apply (proj2 HRet). exact Hr.
  - (* EAssign as a statement *) apply (proj1 IHe); exact Hn.
  - apply andb_true_iff in Hn. destruct Hn as [H1 H2]. split; [apply (proj1 IHe); exact H1|].
    match goal with HF : Forall _ args |- _ => induction HF as [|a l Ha _ IHl] end; [exact I|].
    apply andb_true_iff in H2. destruct H2 as [H2a H2b]; split; [apply (proj1 Ha); assumption|apply IHl; exact H2b].
  - apply andb_true_iff in Hn. destruct Hn; split; [apply (proj1 IHe1)|apply (proj1 IHe2)]; assumption.
  - apply (proj1 IHe); exact Hn.
  - apply andb_true_iff in Hn. destruct Hn; split; [apply (proj1 IHe1)|apply (proj1 IHe2)]; assumption.
  - apply (proj1 IHe); exact Hn.
  - apply (proj1 IHe); exact Hn.
  - apply (proj1 IHe); exact Hn.
Qed.
Lemma nca_ids_ok : forall e, nca e = true -> ids_ok nonbuiltin e.
Proof. intros e. exact (proj1 (nca_ids_ok_gen e)). Qed.

(* ------------------------------------------------------------------ the simulation *)
Definition closed_res (st : store) (r : outcome value) : Prop := forall v, r = Ok v -> closed_value st v.

Section Sim.
  Variable release : bool.
  Variable bi : callback -> binop -> value -> value -> store -> outcome value * store.
  Variable bu : callback -> builtin -> list value -> store -> outcome value * store.
  Hypothesis Hbi : forall cb1 cb2 s0, cb_agree s0 cb1 cb2 -> cb_closed s0 cb1 ->
    forall op l r st, store_le s0 st -> closed_value st l -> closed_value st r ->
      bi cb1 op l r st = bi cb2 op l r st /\
      (forall res st', bi cb1 op l r st = (res, st') -> store_le st st' /\ closed_res st' res).
  Hypothesis Hbu : forall cb1 cb2 s0, cb_agree s0 cb1 cb2 -> cb_closed s0 cb1 ->
    forall b args st, store_le s0 st -> closed_list st args ->
      bu cb1 b args st = bu cb2 b args st /\
      (forall res st', bu cb1 b args st = (res, st') -> store_le st st' /\ closed_res st' res).

  Definition inputs_closed (st : store) (fr : frames) : Prop :=
    forall v, lookup fr "inputs" = Some v -> closed_value st v.

  Section E.
  Variable apply : frames -> callback.
  Hypothesis Hap_agree : forall fr1 fr2 s0, lookup fr1 "inputs" = lookup fr2 "inputs" ->
    inputs_closed s0 fr1 -> cb_agree s0 (apply fr1) (apply fr2).
  Hypothesis Hap_closed : forall fr s0, inputs_closed s0 fr -> cb_closed s0 (apply fr).
  Notation evalE := (evalE release bi apply).

  (* the state in which an expression is evaluated: prefix H (non-empty, closed values) and the
     `inputs` binding [oi] of whatever tail follows (closed) *)
  Record st_ok (st : store) (H : frames) (oi : option value) : Prop := {
    ok_ne : H <> [];
    ok_closed : closed_frames st H;
    ok_inputs : forall v, oi = Some v -> closed_value st v }.

  Lemma st_ok_mono : forall st st' H oi, store_le st st' -> st_ok st H oi -> st_ok st' H oi.
  Proof.
    intros st st' H oi Hle [A B C]. split; [exact A|eapply closed_frames_mono; eauto|].
    intros v Hv. eapply closed_mono; eauto.
  Qed.

  (* RESULT of evaluating e from (st, H ++ T): independent of T, T untouched *)
  Definition indep (ev : cfg -> expr -> result) (st : store) (H : frames) (oi : option value) (e : expr) : Prop :=
    exists r st' H',
      (forall T, inputs_of T = oi -> ev (st, H ++ T) e = (r, (st', H' ++ T))) /\
      store_le st st' /\ grows H H' /\ closed_frames st' H' /\ closed_res st' r.

  Definition sim_ok (e : expr) : Prop :=
    forall bound st H oi, st_ok st H oi -> nca e = true ->
      covered H (free_vars e bound) -> covered H bound -> indep evalE st H oi e.

  Lemma inputs_closed_app : forall st H T oi, st_ok st H oi -> inputs_of T = oi -> inputs_closed st (H ++ T).
  Proof.
    intros st H T oi Hok HT v Hv. rewrite lookup_app in Hv. destruct (lookup H "inputs") eqn:E.
    - inversion Hv; subst. eapply lookup_closed; [apply (ok_closed _ _ _ Hok)|exact E].
    - apply (ok_inputs _ _ _ Hok). unfold inputs_of in HT. congruence.
  Qed.

  (* a canonical tail with a given inputs binding *)
  Definition tail_of (oi : option value) : frames :=
    match oi with Some v => [(FOwned, [("inputs", v)])] | None => [] end.
  Lemma inputs_tail_of : forall oi, inputs_of (tail_of oi) = oi.
  Proof. intros [v|]; reflexivity. Qed.

  (* calls made from H ++ T do not depend on T *)
  Lemma apply_indep : forall st H oi this f args,
    st_ok st H oi -> closed_value st this -> closed_value st f -> closed_list st args ->
    exists r st',
      (forall T, inputs_of T = oi -> apply (H ++ T) this f args st = (r, st')) /\
      store_le st st' /\ closed_res st' r.
  Proof.
    intros st H oi this f args Hok Ht Hf Ha.
    destruct (apply (H ++ tail_of oi) this f args st) as [r st'] eqn:E.
    exists r, st'. split.
    - intros T HT. rewrite <- E. symmetry.
      apply (Hap_agree (H ++ tail_of oi) (H ++ T) st); auto.
      + rewrite !lookup_app. unfold inputs_of in HT. rewrite HT.
        pose proof (inputs_tail_of oi) as Hc. unfold inputs_of in Hc. rewrite Hc. reflexivity.
      + eapply inputs_closed_app; [exact Hok|apply inputs_tail_of].
      + apply store_le_refl.
    - pose proof (Hap_closed (H ++ tail_of oi) st
                    (inputs_closed_app st H _ oi Hok (inputs_tail_of oi))) as Hc.
      destruct (Hc this f args st r st' (store_le_refl st) Ht Hf Ha E) as [A B]. split; assumption.
  Qed.

  Lemma indep_const : forall st H oi e v,
    st_ok st H oi -> (forall c, evalE c e = (Ok v, c)) -> closed_value st v -> indep evalE st H oi e.
  Proof.
    intros st H oi e v Hok He Hv. exists (Ok v), st, H. split; [intros T _; apply He|].
    split; [apply store_le_refl|split; [apply grows_refl; apply (ok_ne _ _ _ Hok)|]].
    split; [apply (ok_closed _ _ _ Hok)|]. intros w Hw. inversion Hw; subst. exact Hv.
  Qed.

  Lemma indep_fail : forall st H oi e o,
    st_ok st H oi -> (forall a, o <> Ok a) -> (forall T, evalE (st, H ++ T) e = (o, (st, H ++ T))) ->
    indep evalE st H oi e.
  Proof.
    intros st H oi e o Hok Ho He. exists o, st, H. split; [intros T _; apply He|].
    split; [apply store_le_refl|split; [apply grows_refl; apply (ok_ne _ _ _ Hok)|]].
    split; [apply (ok_closed _ _ _ Hok)|]. intros w Hw. exfalso. apply (Ho w). exact Hw.
  Qed.

  Lemma covered_app : forall H a b, covered H (a ++ b) -> covered H a /\ covered H b.
  Proof. intros H a b Hc. split; intros x Hx; apply Hc; apply in_or_app; [left|right]; exact Hx. Qed.

  (* one sub-evaluation, with the bookkeeping needed to continue from its result *)
  Lemma step : forall e bound st H oi,
    sim_ok e -> st_ok st H oi -> nca e = true ->
    covered H (free_vars e bound) -> covered H bound ->
    exists r st1 H1,
      (forall T, inputs_of T = oi -> evalE (st, H ++ T) e = (r, (st1, H1 ++ T))) /\
      store_le st st1 /\ grows H H1 /\ st_ok st1 H1 oi /\ closed_res st1 r.
  Proof.
    intros e bound st H oi He Hok Hn Hc Hb.
    destruct (He bound st H oi Hok Hn Hc Hb) as (r & st1 & H1 & E & Hle & Hg & Hcl & Hr).
    exists r, st1, H1. split; [exact E|split; [exact Hle|split; [exact Hg|split; [|exact Hr]]]].
    split; [eapply grows_ne; eauto|exact Hcl|].
    intros v Hv. eapply closed_mono; [exact Hle|]. apply (ok_inputs _ _ _ Hok). exact Hv.
  Qed.

  (* closing an [indep] goal *)
  Ltac fin :=
    repeat match goal with
    | |- _ /\ _ => split
    | |- store_le ?a ?a => apply store_le_refl
    | |- store_le _ _ => solve [eauto using store_le_trans]
    | |- grows ?a ?a => apply grows_refl
    | |- grows _ _ => solve [eauto using grows_trans]
    | |- closed_frames _ _ => solve [eauto using closed_frames_mono, ok_closed]
    | |- closed_res _ _ => solve [intros ? Hq; discriminate Hq | eauto]
    end.

  Lemma st_ok_grow : forall st H H1 oi, st_ok st H oi -> grows H H1 -> closed_frames st H1 -> st_ok st H1 oi.
  Proof. intros st H H1 oi [A B C] Hg Hc. split; [eapply grows_ne; eauto|exact Hc|exact C]. Qed.

  Lemma evalL_sim : forall l, Forall sim_ok l ->
    forall bound st H oi, st_ok st H oi ->
      (fix go (l : list expr) : bool := match l with [] => true | a :: r => nca a && go r end) l = true ->
      covered H ((fix go (l : list expr) : list string :=
                    match l with [] => [] | a :: r => free_vars a bound ++ go r end) l) ->
      covered H bound ->
      exists r st1 H1,
        (forall T, inputs_of T = oi -> evalL evalE (st, H ++ T) l = (r, (st1, H1 ++ T))) /\
        store_le st st1 /\ grows H H1 /\ st_ok st1 H1 oi /\
        (forall vs, r = Ok vs -> closed_list st1 vs).
  Proof.
    intros l HF; induction HF as [|x l Hx _ IH]; intros bound st H oi Hok Hn Hc Hb.
    - exists (Ok []), st, H. split; [intros T _; reflexivity|].
      split; [apply store_le_refl|split; [apply grows_refl; apply (ok_ne _ _ _ Hok)|split; [exact Hok|]]].
      intros vs Hv. inversion Hv; constructor.
    - apply andb_true_iff in Hn. destruct Hn as [Hn1 Hn2]. apply covered_app in Hc. destruct Hc as [Hc1 Hc2].
      destruct (step x bound st H oi Hx Hok Hn1 Hc1 Hb) as (r & st1 & H1 & E1 & Hle1 & Hg1 & Hok1 & Hr1).
      destruct r as [v| | | |];
        try (eexists _, st1, H1; split;
             [intros T HT; cbn [evalL]; rewrite (E1 T HT); reflexivity|];
             split; [exact Hle1|split; [exact Hg1|split; [exact Hok1|intros ? Hq; discriminate Hq]]]).
      destruct (IH bound st1 H1 oi Hok1 Hn2 (grows_covered _ _ _ Hg1 Hc2) (grows_covered _ _ _ Hg1 Hb))
        as (r2 & st2 & H2 & E2 & Hle2 & Hg2 & Hok2 & Hr2).
      destruct r2 as [vs| | | |];
        try (eexists _, st2, H2; split;
             [intros T HT; cbn [evalL]; rewrite (E1 T HT), (E2 T HT); reflexivity|];
             split; [eapply store_le_trans; eauto|split; [eapply grows_trans; eauto|split; [exact Hok2|intros ? Hq; discriminate Hq]]]).
      exists (Ok (v :: vs)), st2, H2. split; [intros T HT; cbn [evalL]; rewrite (E1 T HT), (E2 T HT); reflexivity|].
      split; [eapply store_le_trans; eauto|split; [eapply grows_trans; eauto|split; [exact Hok2|]]].
      intros ws Hw. inversion Hw; subst. constructor; [eapply closed_mono; [exact Hle2|apply Hr1; reflexivity]|apply Hr2; reflexivity].
  Qed.

  Lemma evalCL_sim : forall (l : list (commented expr)), Forall (fun cm => sim_ok (cnode cm)) l ->
    forall bound st H oi, st_ok st H oi ->
      (fix go (l : list (commented expr)) : bool :=
         match l with [] => true | Cm _ a _ :: r => nca a && go r end) l = true ->
      covered H ((fix go (l : list (commented expr)) : list string :=
                    match l with [] => [] | Cm _ a _ :: r => free_vars a bound ++ go r end) l) ->
      covered H bound ->
      exists r st1 H1,
        (forall T, inputs_of T = oi -> evalCL evalE (st, H ++ T) l = (r, (st1, H1 ++ T))) /\
        store_le st st1 /\ grows H H1 /\ st_ok st1 H1 oi /\
        (forall vs, r = Ok vs -> closed_list st1 vs).
  Proof.
    intros l HF; induction HF as [|[ld x tr] l Hx _ IH]; intros bound st H oi Hok Hn Hc Hb.
    - exists (Ok []), st, H. split; [intros T _; reflexivity|].
      split; [apply store_le_refl|split; [apply grows_refl; apply (ok_ne _ _ _ Hok)|split; [exact Hok|]]].
      intros vs Hv. inversion Hv; constructor.
    - cbn [cnode] in Hx.
      apply andb_true_iff in Hn. destruct Hn as [Hn1 Hn2]. apply covered_app in Hc. destruct Hc as [Hc1 Hc2].
      destruct (step x bound st H oi Hx Hok Hn1 Hc1 Hb) as (r & st1 & H1 & E1 & Hle1 & Hg1 & Hok1 & Hr1).
      destruct r as [v| | | |];
        try (eexists _, st1, H1; split;
             [intros T HT; cbn [evalCL]; rewrite (E1 T HT); reflexivity|];
             split; [exact Hle1|split; [exact Hg1|split; [exact Hok1|intros ? Hq; discriminate Hq]]]).
      destruct (IH bound st1 H1 oi Hok1 Hn2 (grows_covered _ _ _ Hg1 Hc2) (grows_covered _ _ _ Hg1 Hb))
        as (r2 & st2 & H2 & E2 & Hle2 & Hg2 & Hok2 & Hr2).
      destruct r2 as [vs| | | |];
        try (eexists _, st2, H2; split;
             [intros T HT; cbn [evalCL]; rewrite (E1 T HT), (E2 T HT); reflexivity|];
             split; [eapply store_le_trans; eauto|split; [eapply grows_trans; eauto|split; [exact Hok2|intros ? Hq; discriminate Hq]]]).
      exists (Ok (v :: vs)), st2, H2. split; [intros T HT; cbn [evalCL]; rewrite (E1 T HT), (E2 T HT); reflexivity|].
      split; [eapply store_le_trans; eauto|split; [eapply grows_trans; eauto|split; [exact Hok2|]]].
      intros ws Hw. inversion Hw; subst. constructor; [eapply closed_mono; [exact Hle2|apply Hr1; reflexivity]|apply Hr2; reflexivity].
  Qed.

  Lemma lookup_covered_app : forall H T x, lookup H x <> None -> lookup (H ++ T) x = lookup H x.
  Proof. intros H T x Hx. rewrite lookup_app. destruct (lookup H x); [reflexivity|congruence]. Qed.

  Definition rec_fv (bound : list string) :=
    fix go (l : list (commented rentry)) : list string :=
      match l with
      | [] => []
      | Cm _ (REntry k v) _ :: r =>
          (match k with
           | KDyn a => free_vars a bound ++ free_vars v bound
           | KSpread a => free_vars a bound
           | KStatic _ => free_vars v bound
           | KShort x => if mem x bound then [] else [x]
           end) ++ go r
      end.
  Definition rec_nca :=
    fix go (l : list (commented rentry)) : bool :=
      match l with
      | [] => true
      | Cm _ (REntry k v) _ :: r =>
          (match k with
           | KDyn a => nca a && nca v
           | KSpread a => nca a
           | KStatic _ => nca v
           | KShort x => negb (is_builtin_name x)
           end) && go r
      end.

  Lemma evalRecL_sim : forall (l : list (commented rentry)),
    Forall (fun cm => Pentry sim_ok (cnode cm)) l ->
    forall bound st H oi acc, st_ok st H oi -> closed_frame st acc ->
      rec_nca l = true -> covered H (rec_fv bound l) -> covered H bound ->
      exists r st1 H1,
        (forall T, inputs_of T = oi -> evalRecL evalE (st, H ++ T) acc l = (r, (st1, H1 ++ T))) /\
        store_le st st1 /\ grows H H1 /\ st_ok st1 H1 oi /\ closed_res st1 r.
  Proof.
    intros l HF; induction HF as [|[ld [k v] tr] l Hx _ IH]; intros bound st H oi acc Hok Hacc Hn Hc Hb.
    - exists (Ok (VRec acc)), st, H. split; [intros T _; reflexivity|].
      split; [apply store_le_refl|split; [apply grows_refl; apply (ok_ne _ _ _ Hok)|split; [exact Hok|]]].
      intros w Hw. inversion Hw; subst. apply closed_VRec. exact Hacc.
    - cbn [cnode Pentry] in Hx. destruct Hx as [Hk Hv].
      cbn [rec_nca] in Hn. apply andb_true_iff in Hn. destruct Hn as [Hn1 Hn2].
      cbn [rec_fv] in Hc. apply covered_app in Hc. destruct Hc as [Hc1 Hc2].
      destruct k as [key|ke|x|se]; cbn [Pkey] in Hk.
      + (* static key *)
        destruct (step v bound st H oi Hv Hok Hn1 Hc1 Hb) as (r & st1 & H1 & E1 & Hle1 & Hg1 & Hok1 & Hr1).
        destruct r as [w| | | |];
          try (eexists _, st1, H1; split;
               [intros T HT; cbn [evalRecL]; rewrite (E1 T HT); reflexivity|];
               split; [exact Hle1|split; [exact Hg1|split; [exact Hok1|intros ? Hq; discriminate Hq]]]).
        destruct (IH bound st1 H1 oi (rec_insert acc key w) Hok1
                    (rec_insert_closed _ _ _ _ (closed_frame_mono _ _ _ Hle1 Hacc) (Hr1 w eq_refl))
                    Hn2 (grows_covered _ _ _ Hg1 Hc2) (grows_covered _ _ _ Hg1 Hb))
          as (r2 & st2 & H2 & E2 & Hle2 & Hg2 & Hok2 & Hr2).
        exists r2, st2, H2. split; [intros T HT; cbn [evalRecL]; rewrite (E1 T HT); apply (E2 T HT)|].
        split; [eapply store_le_trans; eauto|split; [eapply grows_trans; eauto|split; [exact Hok2|exact Hr2]]].
      + (* dynamic key *)
        apply andb_true_iff in Hn1. destruct Hn1 as [Hna Hnv]. apply covered_app in Hc1. destruct Hc1 as [Hca Hcv].
        destruct (step ke bound st H oi Hk Hok Hna Hca Hb) as (r & st1 & H1 & E1 & Hle1 & Hg1 & Hok1 & Hr1).
        destruct r as [kv| | | |];
          try (eexists _, st1, H1; split;
               [intros T HT; cbn [evalRecL]; rewrite (E1 T HT); reflexivity|];
               split; [exact Hle1|split; [exact Hg1|split; [exact Hok1|intros ? Hq; discriminate Hq]]]).
        destruct (as_string kv) as [key| | | |] eqn:Ek;
          try (eexists _, st1, H1; split;
               [intros T HT; cbn [evalRecL]; rewrite (E1 T HT), Ek; reflexivity|];
               split; [exact Hle1|split; [exact Hg1|split; [exact Hok1|intros ? Hq; discriminate Hq]]]).
        destruct (step v bound st1 H1 oi Hv Hok1 Hnv (grows_covered _ _ _ Hg1 Hcv) (grows_covered _ _ _ Hg1 Hb))
          as (r2 & st2 & H2 & E2 & Hle2 & Hg2 & Hok2 & Hr2).
        destruct r2 as [w| | | |];
          try (eexists _, st2, H2; split;
               [intros T HT; cbn [evalRecL]; rewrite (E1 T HT), Ek, (E2 T HT); reflexivity|];
               split; [eapply store_le_trans; eauto|split; [eapply grows_trans; eauto|split; [exact Hok2|intros ? Hq; discriminate Hq]]]).
        assert (Hle12 : store_le st st2) by (eapply store_le_trans; eauto).
        assert (Hg12 : grows H H2) by (eapply grows_trans; eauto).
        destruct (IH bound st2 H2 oi (rec_insert acc key w) Hok2
                    (rec_insert_closed _ _ _ _ (closed_frame_mono _ _ _ Hle12 Hacc) (Hr2 w eq_refl))
                    Hn2 (grows_covered _ _ _ Hg12 Hc2) (grows_covered _ _ _ Hg12 Hb))
          as (r3 & st3 & H3 & E3 & Hle3 & Hg3 & Hok3 & Hr3).
        exists r3, st3, H3. split; [intros T HT; cbn [evalRecL]; rewrite (E1 T HT), Ek, (E2 T HT); apply (E3 T HT)|].
        split; [eapply store_le_trans; eauto|split; [eapply grows_trans; eauto|split; [exact Hok3|exact Hr3]]].
      + (* shorthand *)
        assert (Hx : lookup H x <> None).
        { destruct (mem x bound) eqn:Em; [apply Hb; apply mem_In; exact Em|apply Hc1; left; reflexivity]. }
        destruct (lookup H x) as [w|] eqn:El; [|congruence].
        assert (Hw : closed_value st w) by (eapply lookup_closed; [apply (ok_closed _ _ _ Hok)|exact El]).
        destruct (IH bound st H oi (rec_insert acc x w) Hok (rec_insert_closed _ _ _ _ Hacc Hw) Hn2 Hc2 Hb)
          as (r2 & st2 & H2 & E2 & Hle2 & Hg2 & Hok2 & Hr2).
        exists r2, st2, H2. split; [|split; [exact Hle2|split; [exact Hg2|split; [exact Hok2|exact Hr2]]]].
        intros T HT. cbn [evalRecL snd]. rewrite lookup_covered_app by congruence. rewrite El. apply (E2 T HT).
      + (* spread *)
        destruct (step se bound st H oi Hk Hok Hn1 Hc1 Hb) as (r & st1 & H1 & E1 & Hle1 & Hg1 & Hok1 & Hr1).
        destruct r as [sv| | | |];
          try (eexists _, st1, H1; split;
               [intros T HT; cbn [evalRecL]; rewrite (E1 T HT); reflexivity|];
               split; [exact Hle1|split; [exact Hg1|split; [exact Hok1|intros ? Hq; discriminate Hq]]]).
        destruct (IH bound st1 H1 oi (rec_insert_all acc (record_spread_entries sv)) Hok1
                    (rec_insert_all_closed _ _ _ (closed_frame_mono _ _ _ Hle1 Hacc)
                       (record_spread_entries_closed _ _ (Hr1 sv eq_refl)))
                    Hn2 (grows_covered _ _ _ Hg1 Hc2) (grows_covered _ _ _ Hg1 Hb))
          as (r2 & st2 & H2 & E2 & Hle2 & Hg2 & Hok2 & Hr2).
        exists r2, st2, H2. split; [intros T HT; cbn [evalRecL]; rewrite (E1 T HT); apply (E2 T HT)|].
        split; [eapply store_le_trans; eauto|split; [eapply grows_trans; eauto|split; [exact Hok2|exact Hr2]]].
  Qed.

  Lemma name_if_lambda_closed : forall n0 st v x, closed_value st v -> closed_value (name_if_created n0 st v x) v.
  Proof. intros n0 st v x Hv. eapply closed_mono; [apply name_if_created_le|exact Hv]. Qed.

  Lemma bind_value_sim : forall n0 st H oi x v,
    st_ok st H oi -> closed_value st v ->
    exists r st1 H1,
      (forall T, bind_value n0 (st, H ++ T) x v = (r, (st1, H1 ++ T))) /\
      store_le st st1 /\ grows H H1 /\ st_ok st1 H1 oi /\ closed_res st1 r /\
      (is_ok r = true -> lookup H1 x <> None).
  Proof.
    intros n0 st H oi x v Hok Hv. pose proof (ok_ne _ _ _ Hok) as Hne.
    pose proof (name_if_created_le n0 st v x) as Hle.
    destruct (insert_head H x v) as [H'|] eqn:Ei.
    - destruct (insert_head_grows _ _ _ _ Ei) as [Hg Hl].
      exists (Ok v), (name_if_created n0 st v x), H'.
      split; [intros T; unfold bind_value; cbn [fst snd]; rewrite insert_head_app by exact Hne; rewrite Ei; reflexivity|].
      split; [exact Hle|split; [exact Hg|]].
      assert (Hcf : closed_frames (name_if_created n0 st v x) H').
      { pose proof (ok_closed _ _ _ Hok) as Hc. clear Hg Hl Hok.
        destruct H as [|[k0 f0] r0]; [congruence|]. cbn [insert_head] in Ei. destruct k0; [|discriminate].
        inversion Ei; subst.
        apply closed_frames_mono with (st' := name_if_created n0 st v x) in Hc; [|exact Hle].
        inversion Hc; subst. constructor; [|assumption]. cbn [snd] in *. constructor; [|assumption].
        cbn [snd]. apply name_if_lambda_closed. exact Hv. }
      split; [split; [eapply grows_ne; eauto|exact Hcf|]|].
      + intros w Hw. eapply closed_mono; [exact Hle|]. apply (ok_inputs _ _ _ Hok). exact Hw.
      + split; [intros w Hw; inversion Hw; subst; apply name_if_lambda_closed; exact Hv|intros _; exact Hl].
    - exists Panic, (name_if_created n0 st v x), H.
      split; [intros T; unfold bind_value; cbn [fst snd]; rewrite insert_head_app by exact Hne; rewrite Ei; reflexivity|].
      split; [exact Hle|split; [apply grows_refl; exact Hne|split; [eapply st_ok_mono; eauto|]]].
      split; [intros ? Hq; discriminate Hq|intros Hq; discriminate Hq].
  Qed.

  Definition sim_stmt (s : expr) : Prop := sim_ok s /\ (forall x v, s = EAssign x v -> sim_ok v).

  Lemma do_step_sim : forall s bound st H oi,
    sim_stmt s -> st_ok st H oi -> nca_stmt s = true ->
    covered H (free_vars s bound) -> covered H bound ->
    exists r st1 H1,
      (forall T, inputs_of T = oi -> do_step evalE (st, H ++ T) s = (r, (st1, H1 ++ T))) /\
      store_le st st1 /\ grows H H1 /\ st_ok st1 H1 oi /\ closed_res st1 r /\
      (forall x v, s = EAssign x v -> is_ok r = true -> lookup H1 x <> None).
  Proof.
    intros s bound st H oi [Hs Hsub] Hok Hn Hc Hb.
    assert (Hplain : (forall x v, s <> EAssign x v) ->
      exists r st1 H1,
        (forall T, inputs_of T = oi -> do_step evalE (st, H ++ T) s = (r, (st1, H1 ++ T))) /\
        store_le st st1 /\ grows H H1 /\ st_ok st1 H1 oi /\ closed_res st1 r /\
        (forall x v, s = EAssign x v -> is_ok r = true -> lookup H1 x <> None)).
    { intros Hne.
      assert (Hn' : nca s = true) by (destruct s; try exact Hn; exfalso; eapply Hne; reflexivity).
      destruct (step s bound st H oi Hs Hok Hn' Hc Hb) as (r & st1 & H1 & E1 & Hle1 & Hg1 & Hok1 & Hr1).
      exists r, st1, H1. split.
      - intros T HT. rewrite <- (E1 T HT). destruct s; try reflexivity. exfalso; eapply Hne; reflexivity.
      - split; [exact Hle1|split; [exact Hg1|split; [exact Hok1|split; [exact Hr1|]]]].
        intros x v Heq. exfalso; eapply Hne; exact Heq. }
    destruct s; try (apply Hplain; intros ? ? Hq; discriminate Hq).
    (* EAssign x s *)
    cbn [nca_stmt] in Hn. cbn [free_vars] in Hc. unfold do_step.
    destruct (mem x do_assign_keywords) eqn:Ek.
    - exists Err, st, H. split; [intros T _; reflexivity|].
      split; [apply store_le_refl|split; [apply grows_refl; apply (ok_ne _ _ _ Hok)|split; [exact Hok|]]].
      split; [intros ? Hq; discriminate Hq|intros ? ? _ Hq; discriminate Hq].
    - destruct (step s bound st H oi (Hsub x s eq_refl) Hok Hn Hc Hb) as (r & st1 & H1 & E1 & Hle1 & Hg1 & Hok1 & Hr1).
      destruct r as [w| | | |];
        try (eexists _, st1, H1; split;
             [intros T HT; unfold assign_value; rewrite (E1 T HT); reflexivity|];
             split; [exact Hle1|split; [exact Hg1|split; [exact Hok1|split;
               [intros ? Hq; discriminate Hq|intros ? ? _ Hq; discriminate Hq]]]]).
      destruct (bind_value_sim (Datatypes.length st) st1 H1 oi x w Hok1 (Hr1 w eq_refl)) as (r2 & st2 & H2 & E2 & Hle2 & Hg2 & Hok2 & Hr2 & Hl2).
      exists r2, st2, H2. split; [intros T HT; unfold assign_value; rewrite (E1 T HT); apply E2|].
      split; [eapply store_le_trans; eauto|split; [eapply grows_trans; eauto|split; [exact Hok2|split; [exact Hr2|]]]].
      intros x0 v0 Heq Hq. inversion Heq; subst. apply Hl2. exact Hq.
  Qed.

  (* free variables / nca of a do-block body, as computed by free_vars and nca *)
  Definition do_fv (rt : expr) :=
    fix go (l : list (commented expr)) (bnd : list string) {struct l} : list string :=
      match l with
      | [] => free_vars rt bnd
      | Cm _ s _ :: r =>
          match s with
          | EAssign x v => free_vars v bnd ++ go r (x :: bnd)
          | _ => free_vars s bnd ++ go r bnd
          end
      end.
  Definition do_nca :=
    fix go (l : list (commented expr)) : bool :=
      match l with
      | [] => true
      | Cm _ s _ :: r => (match s with EAssign _ v => nca v | _ => nca s end) && go r
      end.

  Lemma do_all_sim : forall (l : list (commented expr)) rt,
    Forall (fun cm => sim_stmt (cnode cm)) l -> sim_stmt rt ->
    forall bound st H oi, st_ok st H oi ->
      do_nca l = true -> nca_stmt rt = true ->
      covered H (do_fv rt l bound) -> covered H bound ->
      exists r st1 H1,
        (forall T, inputs_of T = oi ->
           (match evalDoL evalE (st, H ++ T) l with
            | (Ok _, c1) => do_step evalE c1 rt
            | (o, c1) => (cast_fail o, c1)
            end) = (r, (st1, H1 ++ T))) /\
        store_le st st1 /\ closed_res st1 r.
  Proof.
    intros l rt HF Hrt; induction HF as [|[ld s tr] l Hs _ IH]; intros bound st H oi Hok Hn Hnr Hc Hb.
    - cbn [do_fv] in Hc.
      destruct (do_step_sim rt bound st H oi Hrt Hok Hnr Hc Hb) as (r & st1 & H1 & E1 & Hle1 & Hg1 & Hok1 & Hr1 & _).
      exists r, st1, H1. split; [intros T HT; cbn [evalDoL]; apply (E1 T HT)|split; assumption].
    - cbn [cnode] in Hs. cbn [do_nca] in Hn. apply andb_true_iff in Hn. destruct Hn as [Hn1 Hn2].
      assert (Hn1' : nca_stmt s = true) by exact Hn1.
      assert (Hcs : covered H (free_vars s bound) /\
                    covered H (do_fv rt l (match s with EAssign x _ => x :: bound | _ => bound end))).
      { cbn [do_fv] in Hc. destruct s; apply covered_app in Hc; exact Hc. }
      destruct Hcs as [Hc1 Hc2].
      destruct (do_step_sim s bound st H oi Hs Hok Hn1' Hc1 Hb) as (r & st1 & H1 & E1 & Hle1 & Hg1 & Hok1 & Hr1 & Hl1).
      destruct r as [w| | | |];
        try (eexists _, st1, H1; split;
             [intros T HT; cbn [evalDoL]; rewrite (E1 T HT); reflexivity|];
             split; [exact Hle1|intros ? Hq; discriminate Hq]).
      assert (Hb' : covered H1 (match s with EAssign x _ => x :: bound | _ => bound end)).
      { destruct s; try (apply (grows_covered _ _ _ Hg1 Hb)).
        intros y [<-|Hy]; [apply (Hl1 _ _ eq_refl eq_refl)|apply (grows_covered _ _ _ Hg1 Hb); exact Hy]. }
      destruct (IH _ st1 H1 oi Hok1 Hn2 Hnr (grows_covered _ _ _ Hg1 Hc2) Hb') as (r2 & st2 & H2 & E2 & Hle2 & Hr2).
      exists r2, st2, H2. split; [intros T HT; cbn [evalDoL]; rewrite (E1 T HT); apply (E2 T HT)|].
      split; [eapply store_le_trans; eauto|exact Hr2].
  Qed.

  (* results that do not touch the chain *)
  Ltac leaf Hok :=
    eexists _, _, _; split; [intros T HT; reflexivity|];
    split; [apply store_le_refl|split; [apply grows_refl; apply (ok_ne _ _ _ Hok)|split; [apply (ok_closed _ _ _ Hok)|]]].

  Theorem evalE_sim : forall e, sim_stmt e.
  Proof.
    induction e using expr_ind';
      (split; [intros bound st Hf oi Hok Hn Hc Hb|try (intros ? ? Heq; discriminate Heq)]);
      cbn [nca] in *; try discriminate.
    - leaf Hok. intros v Hv; inversion Hv; exact I.
    - leaf Hok. intros v Hv; inversion Hv; exact I.
    - leaf Hok. intros v Hv; inversion Hv; exact I.
    - leaf Hok. intros v Hv; inversion Hv; exact I.
    - (* EId *)
      cbn [free_vars] in Hc.
      destruct (String.eqb x "infinity" || String.eqb x "inf") eqn:Einf.
      { eexists _, st, Hf. split; [intros T HT; cbn [Eval.evalE]; rewrite Einf; reflexivity|].
        split; [apply store_le_refl|split; [apply grows_refl; apply (ok_ne _ _ _ Hok)|split; [apply (ok_closed _ _ _ Hok)|]]].
        intros v Hv; inversion Hv; exact I. }
      destruct (String.eqb x "constants") eqn:Ec.
      { eexists _, st, Hf. split; [intros T HT; cbn [Eval.evalE]; rewrite Einf, Ec; reflexivity|].
        split; [apply store_le_refl|split; [apply grows_refl; apply (ok_ne _ _ _ Hok)|split; [apply (ok_closed _ _ _ Hok)|]]].
        intros v Hv; inversion Hv; subst. apply constants_closed. }
      assert (Hx : lookup Hf x <> None).
      { destruct (mem x bound) eqn:Em; [apply Hb; apply mem_In; exact Em|].
        apply Hc. apply orb_false_iff in Einf. destruct Einf as [E1 E2]. rewrite ?Em, ?E1, ?E2, ?Ec. cbn [orb]. left; reflexivity. }
      destruct (lookup Hf x) as [w|] eqn:El; [|congruence].
      exists (Ok w), st, Hf. split.
      + intros T HT. cbn [Eval.evalE snd]. rewrite Einf, Ec. rewrite lookup_covered_app by congruence. rewrite El. reflexivity.
      + split; [apply store_le_refl|split; [apply grows_refl; apply (ok_ne _ _ _ Hok)|split; [apply (ok_closed _ _ _ Hok)|]]].
        intros v Hv; inversion Hv; subst. eapply lookup_closed; [apply (ok_closed _ _ _ Hok)|exact El].
    - (* EInRef *)
      eexists _, st, Hf. split.
      + intros T HT. cbn [Eval.evalE snd]. rewrite lookup_app. unfold inputs_of in HT. rewrite HT. reflexivity.
      + split; [apply store_le_refl|split; [apply grows_refl; apply (ok_ne _ _ _ Hok)|split; [apply (ok_closed _ _ _ Hok)|]]].
        intros v Hv.
        assert (Hin : forall w, match lookup Hf "inputs" with Some v0 => Some v0 | None => oi end = Some w -> closed_value st w).
        { intros w Hw. destruct (lookup Hf "inputs") eqn:El.
          - inversion Hw; subst. eapply lookup_closed; [apply (ok_closed _ _ _ Hok)|exact El].
          - apply (ok_inputs _ _ _ Hok). exact Hw. }
        destruct (match lookup Hf "inputs" with Some v0 => Some v0 | None => oi end) as [[]|]; try discriminate.
        inversion Hv; subst. destruct (rec_get r x) eqn:Eg; [|exact I].
        eapply rec_get_closed; [|exact Eg]. apply closed_VRec. apply Hin. reflexivity.
    - leaf Hok. intros v Hv; inversion Hv; exact I.
    - (* EList *)
      assert (HF : Forall (fun cm => sim_ok (cnode cm)) items).
      { eapply Forall_impl; [|eassumption]. intros a Ha; apply Ha. }
      destruct (evalCL_sim items HF bound st Hf oi Hok Hn Hc Hb) as (r & st1 & H1 & E1 & Hle1 & Hg1 & Hok1 & Hr1).
      exists (omap (fun vs => VList (flatten_spreads vs)) r), st1, H1.
      split; [intros T HT; cbn [Eval.evalE]; rewrite (E1 T HT); reflexivity|].
      split; [exact Hle1|split; [exact Hg1|split; [apply (ok_closed _ _ _ Hok1)|]]].
      intros v Hv. destruct r; try discriminate. cbn in Hv. inversion Hv; subst.
      apply closed_VList. apply flatten_spreads_closed. apply Hr1. reflexivity.
    - (* ERec *)
      assert (HF : Forall (fun cm => Pentry sim_ok (cnode cm)) entries).
      { eapply Forall_impl; [|eassumption]. intros [ld [k v] tr] Ha. cbn [cnode Pentry] in *.
        destruct Ha as [Hk Hv]. split; [|apply Hv]. destruct k; cbn [Pkey] in *; auto; apply Hk. }
      destruct (evalRecL_sim entries HF bound st Hf oi [] Hok (Forall_nil _) Hn Hc Hb)
        as (r & st1 & H1 & E1 & Hle1 & Hg1 & Hok1 & Hr1).
      exists r, st1, H1. split; [intros T HT; cbn [Eval.evalE]; apply (E1 T HT)|].
      split; [exact Hle1|split; [exact Hg1|split; [apply (ok_closed _ _ _ Hok1)|exact Hr1]]].
    - (* ELam *)
      cbn [free_vars] in Hc.
      set (vars := free_vars e (map arg_name args)).
      assert (Hcv : covered Hf vars).
      { intros x Hx. destruct (fv_weaken e _ (map arg_name args ++ bound) x Hx) as [A|A]; [apply Hc; exact A|].
        apply in_app_or in A. destruct A as [A|A]; [exfalso; exact (fv_not_bound _ _ _ Hx A)|apply Hb; exact A]. }
      pose proof (ok_closed _ _ _ Hok) as HcH.
      exists (Ok (VLam (Datatypes.length st) args e (capture Hf vars []))), (st ++ [None]), Hf.
      assert (Hle : store_le st (st ++ [None])).
      { apply (fresh_lambda_le st args e (capture Hf vars []) _ _ eq_refl). }
      split.
      + intros T HT. cbn [Eval.evalE snd fst]. fold vars. rewrite capture_covered by exact Hcv. reflexivity.
      + split; [exact Hle|split; [apply grows_refl; apply (ok_ne _ _ _ Hok)|split; [eapply closed_frames_mono; eauto|]]].
        intros v Hv. inversion Hv; subst. apply closed_VLam. split; [exact Hn|split].
        * intros x Hx. left. specialize (Hcv x Hx). destruct (lookup Hf x) as [w|] eqn:El; [|congruence].
          rewrite (capture_sound Hf vars [] x w Hx El); [discriminate|].
          exact (fv_ids_ok nonbuiltin e _ x (nca_ids_ok e Hn) Hx).
        * apply capture_closed; [eapply closed_frames_mono; eauto|constructor].
    - (* ECond *)
      destruct IHe1 as [IH1 _], IHe2 as [IH2 _], IHe3 as [IH3 _].
      apply andb_true_iff in Hn. destruct Hn as [Hn H3]. apply andb_true_iff in Hn. destruct Hn as [H1 H2].
      cbn [free_vars] in Hc. apply covered_app in Hc. destruct Hc as [Hc1 Hc23].
      apply covered_app in Hc23. destruct Hc23 as [Hc2 Hc3].
      destruct (step e1 bound st Hf oi IH1 Hok H1 Hc1 Hb) as (r & st1 & Hh1 & E1 & Hle1 & Hg1 & Hok1 & Hr1).
      destruct r as [cv| | | |];
        try (eexists _, st1, Hh1; split;
             [intros T HT; cbn [Eval.evalE]; rewrite (E1 T HT); reflexivity|];
             split; [exact Hle1|split; [exact Hg1|split; [apply (ok_closed _ _ _ Hok1)|intros ? Hq; discriminate Hq]]]).
      destruct (as_bool cv) as [[|]| | | |] eqn:Eb;
        try (eexists _, st1, Hh1; split;
             [intros T HT; cbn [Eval.evalE]; rewrite (E1 T HT), Eb; reflexivity|];
             split; [exact Hle1|split; [exact Hg1|split; [apply (ok_closed _ _ _ Hok1)|intros ? Hq; discriminate Hq]]]).
      + destruct (step e2 bound st1 Hh1 oi IH2 Hok1 H2 (grows_covered _ _ _ Hg1 Hc2) (grows_covered _ _ _ Hg1 Hb))
          as (r2 & st2 & Hh2 & E2 & Hle2 & Hg2 & Hok2 & Hr2).
        exists r2, st2, Hh2. split; [intros T HT; cbn [Eval.evalE]; rewrite (E1 T HT), Eb; apply (E2 T HT)|].
        split; [eapply store_le_trans; eauto|split; [eapply grows_trans; eauto|split; [apply (ok_closed _ _ _ Hok2)|exact Hr2]]].
      + destruct (step e3 bound st1 Hh1 oi IH3 Hok1 H3 (grows_covered _ _ _ Hg1 Hc3) (grows_covered _ _ _ Hg1 Hb))
          as (r2 & st2 & Hh2 & E2 & Hle2 & Hg2 & Hok2 & Hr2).
        exists r2, st2, Hh2. split; [intros T HT; cbn [Eval.evalE]; rewrite (E1 T HT), Eb; apply (E2 T HT)|].
        split; [eapply store_le_trans; eauto|split; [eapply grows_trans; eauto|split; [apply (ok_closed _ _ _ Hok2)|exact Hr2]]].
    - (* EDo *)
      match goal with HF : Forall _ stmts, HR : sim_stmt _ |- _ => rename HF into HFs; rename HR into HRet end.
      destruct ret as [ld rt tr]. cbn [cnode] in HRet.
      apply andb_true_iff in Hn. destruct Hn as [Hns Hnr].
      cbn [free_vars] in Hc.
      assert (Hok0 : st_ok st ((FOwned, []) :: Hf) oi).
      { split; [discriminate|constructor; [constructor|apply (ok_closed _ _ _ Hok)]|apply (ok_inputs _ _ _ Hok)]. }
      assert (Hcov0 : forall vars, covered Hf vars -> covered ((FOwned, []) :: Hf) vars).
      { intros vars Hv x Hx. cbn [lookup lookup_frame]. apply Hv. exact Hx. }
      destruct (do_all_sim stmts rt HFs HRet bound st ((FOwned, []) :: Hf) oi Hok0 Hns Hnr (Hcov0 _ Hc) (Hcov0 _ Hb))
        as (r & st1 & H1 & E1 & Hle1 & Hr1).
      exists r, st1, Hf. split.
      + intros T HT. specialize (E1 T HT). cbn [app] in E1. cbn [Eval.evalE]. cbn [fst snd].
        match goal with |- (fst ?X, (fst (snd ?X), _)) = _ =>
          assert (Hx : X = (r, (st1, H1 ++ T))) by exact E1; rewrite Hx end.
        reflexivity.
      + split; [exact Hle1|split; [apply grows_refl; apply (ok_ne _ _ _ Hok)|split;
          [eapply closed_frames_mono; [exact Hle1|apply (ok_closed _ _ _ Hok)]|exact Hr1]]].
    - (* EAssign: second component *)
      intros x0 v0 Heq. inversion Heq; subst. apply IHe.
    - (* ECall *)
      destruct IHe as [IH _].
      apply andb_true_iff in Hn. destruct Hn as [Hn1 Hn2].
      cbn [free_vars] in Hc. apply covered_app in Hc. destruct Hc as [Hc1 Hc2].
      destruct (step e bound st Hf oi IH Hok Hn1 Hc1 Hb) as (r & st1 & Hh1 & E1 & Hle1 & Hg1 & Hok1 & Hr1).
      destruct r as [fv| | | |];
        try (eexists _, st1, Hh1; split;
             [intros T HT; cbn [Eval.evalE]; rewrite (E1 T HT); reflexivity|];
             split; [exact Hle1|split; [exact Hg1|split; [apply (ok_closed _ _ _ Hok1)|intros ? Hq; discriminate Hq]]]).
      assert (HF : Forall sim_ok args).
      { eapply Forall_impl; [|eassumption]. intros a0 Ha; apply Ha. }
      destruct (evalL_sim args HF bound st1 Hh1 oi Hok1 Hn2 (grows_covered _ _ _ Hg1 Hc2) (grows_covered _ _ _ Hg1 Hb))
        as (r2 & st2 & Hh2 & E2 & Hle2 & Hg2 & Hok2 & Hr2).
      destruct r2 as [raw| | | |];
        try (eexists _, st2, Hh2; split;
             [intros T HT; cbn [Eval.evalE]; rewrite (E1 T HT), (E2 T HT); reflexivity|];
             split; [eapply store_le_trans; eauto|split; [eapply grows_trans; eauto|split;
               [apply (ok_closed _ _ _ Hok2)|intros ? Hq; discriminate Hq]]]).
      destruct (negb (is_function fv)) eqn:Efn.
      { eexists _, st2, Hh2. split; [intros T HT; cbn [Eval.evalE]; rewrite (E1 T HT), (E2 T HT), Efn; reflexivity|].
        split; [eapply store_le_trans; eauto|split; [eapply grows_trans; eauto|split;
          [apply (ok_closed _ _ _ Hok2)|intros ? Hq; discriminate Hq]]]. }
      assert (Hfv : closed_value st2 fv) by (eapply closed_mono; [exact Hle2|apply Hr1; reflexivity]).
      assert (Hargs : closed_list st2 (flatten_spreads raw)) by (apply flatten_spreads_closed; apply Hr2; reflexivity).
      destruct (apply_indep st2 Hh2 oi fv fv (flatten_spreads raw) Hok2 Hfv Hfv Hargs) as (r3 & st3 & E3 & Hle3 & Hr3).
      exists r3, st3, Hh2. split.
      + intros T HT. cbn [Eval.evalE]. rewrite (E1 T HT), (E2 T HT), Efn, (E3 T HT). reflexivity.
      + split; [eapply store_le_trans; [exact Hle1|eapply store_le_trans; eauto]|split; [eapply grows_trans; eauto|split;
          [eapply closed_frames_mono; [exact Hle3|apply (ok_closed _ _ _ Hok2)]|exact Hr3]]].
    - (* EAccess *)
      destruct IHe1 as [IH1 _], IHe2 as [IH2 _].
      apply andb_true_iff in Hn. destruct Hn as [Hn1 Hn2].
      cbn [free_vars] in Hc. apply covered_app in Hc. destruct Hc as [Hc1 Hc2].
      destruct (step e1 bound st Hf oi IH1 Hok Hn1 Hc1 Hb) as (r & st1 & Hh1 & E1 & Hle1 & Hg1 & Hok1 & Hr1).
      destruct r as [v| | | |];
        try (eexists _, st1, Hh1; split;
             [intros T HT; cbn [Eval.evalE]; rewrite (E1 T HT); reflexivity|];
             split; [exact Hle1|split; [exact Hg1|split; [apply (ok_closed _ _ _ Hok1)|intros ? Hq; discriminate Hq]]]).
      destruct (step e2 bound st1 Hh1 oi IH2 Hok1 Hn2 (grows_covered _ _ _ Hg1 Hc2) (grows_covered _ _ _ Hg1 Hb))
        as (r2 & st2 & Hh2 & E2 & Hle2 & Hg2 & Hok2 & Hr2).
      destruct r2 as [i| | | |];
        try (eexists _, st2, Hh2; split;
             [intros T HT; cbn [Eval.evalE]; rewrite (E1 T HT), (E2 T HT); reflexivity|];
             split; [eapply store_le_trans; eauto|split; [eapply grows_trans; eauto|split;
               [apply (ok_closed _ _ _ Hok2)|intros ? Hq; discriminate Hq]]]).
      exists (access_val v i), st2, Hh2. split; [intros T HT; cbn [Eval.evalE]; rewrite (E1 T HT), (E2 T HT); reflexivity|].
      split; [eapply store_le_trans; eauto|split; [eapply grows_trans; eauto|split; [apply (ok_closed _ _ _ Hok2)|]]].
      intros w Hw. eapply access_val_closed; [|exact Hw]. eapply closed_mono; [exact Hle2|apply Hr1; reflexivity].
    - (* EDot *)
      destruct IHe as [IH _]. cbn [free_vars] in Hc.
      destruct (step e bound st Hf oi IH Hok Hn Hc Hb) as (r & st1 & Hh1 & E1 & Hle1 & Hg1 & Hok1 & Hr1).
      destruct r as [v| | | |];
        try (eexists _, st1, Hh1; split;
             [intros T HT; cbn [Eval.evalE]; rewrite (E1 T HT); reflexivity|];
             split; [exact Hle1|split; [exact Hg1|split; [apply (ok_closed _ _ _ Hok1)|intros ? Hq; discriminate Hq]]]).
      exists (dot_val v f), st1, Hh1. split; [intros T HT; cbn [Eval.evalE]; rewrite (E1 T HT); reflexivity|].
      split; [exact Hle1|split; [exact Hg1|split; [apply (ok_closed _ _ _ Hok1)|]]].
      intros w Hw. eapply dot_val_closed; [|exact Hw]. apply Hr1; reflexivity.
    - (* EBin *)
      destruct IHe1 as [IH1 _], IHe2 as [IH2 _].
      apply andb_true_iff in Hn. destruct Hn as [Hn1 Hn2].
      cbn [free_vars] in Hc. apply covered_app in Hc. destruct Hc as [Hc1 Hc2].
      destruct (step e1 bound st Hf oi IH1 Hok Hn1 Hc1 Hb) as (r & st1 & Hh1 & E1 & Hle1 & Hg1 & Hok1 & Hr1).
      destruct r as [lv| | | |];
        try (eexists _, st1, Hh1; split;
             [intros T HT; cbn [Eval.evalE]; rewrite (E1 T HT); reflexivity|];
             split; [exact Hle1|split; [exact Hg1|split; [apply (ok_closed _ _ _ Hok1)|intros ? Hq; discriminate Hq]]]).
      destruct (step e2 bound st1 Hh1 oi IH2 Hok1 Hn2 (grows_covered _ _ _ Hg1 Hc2) (grows_covered _ _ _ Hg1 Hb))
        as (r2 & st2 & Hh2 & E2 & Hle2 & Hg2 & Hok2 & Hr2).
      destruct r2 as [rv| | | |];
        try (eexists _, st2, Hh2; split;
             [intros T HT; cbn [Eval.evalE]; rewrite (E1 T HT), (E2 T HT); reflexivity|];
             split; [eapply store_le_trans; eauto|split; [eapply grows_trans; eauto|split;
               [apply (ok_closed _ _ _ Hok2)|intros ? Hq; discriminate Hq]]]).
      assert (Hlv : closed_value st2 lv) by (eapply closed_mono; [exact Hle2|apply Hr1; reflexivity]).
      assert (Hrv : closed_value st2 rv) by (apply Hr2; reflexivity).
      set (Tc := tail_of oi).
      destruct (bi (apply (Hh2 ++ Tc)) op lv rv st2) as [res st3] eqn:Eb.
      assert (Hcbc : cb_closed st2 (apply (Hh2 ++ Tc))).
      { apply Hap_closed. eapply inputs_closed_app; [exact Hok2|apply inputs_tail_of]. }
      exists res, st3, Hh2. split.
      + intros T HT. cbn [Eval.evalE]. rewrite (E1 T HT), (E2 T HT).
        assert (Hag : cb_agree st2 (apply (Hh2 ++ Tc)) (apply (Hh2 ++ T))).
        { apply Hap_agree.
          - rewrite !lookup_app. unfold inputs_of in HT. rewrite HT.
            pose proof (inputs_tail_of oi) as Hc'. unfold inputs_of in Hc'. unfold Tc. rewrite Hc'. reflexivity.
          - eapply inputs_closed_app; [exact Hok2|apply inputs_tail_of]. }
        destruct (Hbi _ _ st2 Hag Hcbc op lv rv st2 (store_le_refl _) Hlv Hrv) as [Heq _].
        rewrite <- Heq, Eb. reflexivity.
      + assert (Hag0 : cb_agree st2 (apply (Hh2 ++ Tc)) (apply (Hh2 ++ Tc))) by (intros ? ? ? ? ? ? ? ?; reflexivity).
        destruct (Hbi _ _ st2 Hag0 Hcbc op lv rv st2 (store_le_refl _) Hlv Hrv) as [_ Hpost].
        destruct (Hpost res st3 Eb) as [Hle3 Hr3].
        split; [eapply store_le_trans; [exact Hle1|eapply store_le_trans; eauto]|split; [eapply grows_trans; eauto|split;
          [eapply closed_frames_mono; [exact Hle3|apply (ok_closed _ _ _ Hok2)]|exact Hr3]]].
    - (* EUn *)
      destruct IHe as [IH _]. cbn [free_vars] in Hc.
      destruct (step e bound st Hf oi IH Hok Hn Hc Hb) as (r & st1 & Hh1 & E1 & Hle1 & Hg1 & Hok1 & Hr1).
      destruct r as [v| | | |];
        try (eexists _, st1, Hh1; split;
             [intros T HT; cbn [Eval.evalE]; rewrite (E1 T HT); reflexivity|];
             split; [exact Hle1|split; [exact Hg1|split; [apply (ok_closed _ _ _ Hok1)|intros ? Hq; discriminate Hq]]]).
      eexists _, st1, Hh1. split; [intros T HT; cbn [Eval.evalE]; rewrite (E1 T HT); reflexivity|].
      split; [exact Hle1|split; [exact Hg1|split; [apply (ok_closed _ _ _ Hok1)|]]].
      intros w Hw. destruct op; [destruct (as_number v)|destruct (as_bool v)|destruct (as_bool v)];
        try discriminate; inversion Hw; exact I.
    - (* EFact *)
      destruct IHe as [IH _]. cbn [free_vars] in Hc.
      destruct (step e bound st Hf oi IH Hok Hn Hc Hb) as (r & st1 & Hh1 & E1 & Hle1 & Hg1 & Hok1 & Hr1).
      destruct r as [v| | | |];
        try (eexists _, st1, Hh1; split;
             [intros T HT; cbn [Eval.evalE]; rewrite (E1 T HT); reflexivity|];
             split; [exact Hle1|split; [exact Hg1|split; [apply (ok_closed _ _ _ Hok1)|intros ? Hq; discriminate Hq]]]).
      eexists _, st1, Hh1. split; [intros T HT; cbn [Eval.evalE]; rewrite (E1 T HT); reflexivity|].
      split; [exact Hle1|split; [exact Hg1|split; [apply (ok_closed _ _ _ Hok1)|]]].
      intros w Hw. destruct (as_number v) as [n| | | |]; try discriminate.
      unfold factorial_val in Hw. destruct (_ && _); [|discriminate]. inversion Hw; exact I.
    - (* ESpread *)
      destruct IHe as [IH _]. cbn [free_vars] in Hc.
      destruct (step e bound st Hf oi IH Hok Hn Hc Hb) as (r & st1 & Hh1 & E1 & Hle1 & Hg1 & Hok1 & Hr1).
      destruct r as [v| | | |];
        try (eexists _, st1, Hh1; split;
             [intros T HT; cbn [Eval.evalE]; rewrite (E1 T HT); reflexivity|];
             split; [exact Hle1|split; [exact Hg1|split; [apply (ok_closed _ _ _ Hok1)|intros ? Hq; discriminate Hq]]]).
      exists (spread_val v), st1, Hh1. split; [intros T HT; cbn [Eval.evalE]; rewrite (E1 T HT); reflexivity|].
      split; [exact Hle1|split; [exact Hg1|split; [apply (ok_closed _ _ _ Hok1)|]]].
      intros w Hw. eapply spread_val_closed; [|exact Hw]. apply Hr1; reflexivity.
  Qed.
  End E.

  (* ------------------------------------------------------------------ FunctionDef::call *)
  Lemma bind_params_binds : forall ps idx args acc fr,
    bind_params ps idx args acc = Some fr ->
    (forall p, In p ps -> lookup_frame fr (arg_name p) <> None) /\
    (forall y, lookup_frame acc y <> None -> lookup_frame fr y <> None).
  Proof.
    induction ps as [|p ps IH]; intros idx args acc fr Hb; cbn [bind_params] in Hb.
    - inversion Hb; subst. split; [intros p []|auto].
    - assert (Hstep : forall x v, bind_params ps (S idx) args ((x, v) :: acc) = Some fr -> arg_name p = x ->
               (forall q, In q (p :: ps) -> lookup_frame fr (arg_name q) <> None) /\
               (forall y, lookup_frame acc y <> None -> lookup_frame fr y <> None)).
      { intros x v Hb' Hx. destruct (IH _ _ _ _ Hb') as [A B]. split.
        - intros q [<-|Hq]; [|apply A; exact Hq]. apply B. cbn [lookup_frame]. rewrite Hx, String.eqb_refl. discriminate.
        - intros y Hy. apply B. cbn [lookup_frame]. destruct (String.eqb y x); [discriminate|exact Hy]. }
      destruct p as [x|x|x]; cbn [arg_name] in *.
      + destruct (nth_error args idx); [|discriminate]. eapply Hstep; eauto.
      + eapply Hstep; eauto.
      + eapply Hstep; eauto.
  Qed.
  Lemma skipn_closed : forall st n l, closed_list st l -> closed_list st (skipn n l).
  Proof.
    intros st n; induction n as [|n IH]; intros l Hl; [exact Hl|]. destruct l; [constructor|].
    inversion Hl; subst. cbn [skipn]. apply IH; assumption.
  Qed.
  Lemma bind_params_closed : forall st ps idx args acc fr,
    closed_list st args -> closed_frame st acc -> bind_params ps idx args acc = Some fr -> closed_frame st fr.
  Proof.
    intros st ps; induction ps as [|p ps IH]; intros idx args acc fr Ha Hacc Hb; cbn [bind_params] in Hb.
    - inversion Hb; subst; exact Hacc.
    - destruct p as [x|x|x].
      + destruct (nth_error args idx) eqn:E; [|discriminate]. eapply IH; [exact Ha| |exact Hb].
        constructor; [|exact Hacc]. cbn [snd]. unfold closed_list in Ha. rewrite Forall_forall in Ha.
        apply Ha. eapply nth_error_In; eauto.
      + eapply IH; [exact Ha| |exact Hb]. constructor; [|exact Hacc]. cbn [snd].
        destruct (nth_error args idx) eqn:E; [|exact I]. unfold closed_list in Ha. rewrite Forall_forall in Ha.
        apply Ha. eapply nth_error_In; eauto.
      + eapply IH; [exact Ha| |exact Hb]. constructor; [|exact Hacc]. cbn [snd].
        apply closed_VList. apply skipn_closed. exact Ha.
  Qed.

  Lemma let_pair3 : forall (X : result) r st' (fr' : frames),
    X = (r, (st', fr')) -> (let '(r0, (st'0, _)) := X in (r0, st'0)) = (r, st').
  Proof. intros X r st' fr' ->. reflexivity. Qed.

  Notation AD := (AD release bi bu).

  Definition indep_at (d : nat) : Prop :=
    (forall fr1 fr2 s0, lookup fr1 "inputs" = lookup fr2 "inputs" -> inputs_closed s0 fr1 ->
                        cb_agree s0 (AD d fr1) (AD d fr2)) /\
    (forall fr s0, inputs_closed s0 fr -> cb_closed s0 (AD d fr)).

  Lemma too_deep_agree : forall s0, cb_agree s0 (fun _ f a s => call_too_deep f a s) (fun _ f a s => call_too_deep f a s).
  Proof. intros ? ? ? ? ? ? ? ? ?; reflexivity. Qed.
  Lemma too_deep_closed : forall s0, cb_closed s0 (fun _ f a s => call_too_deep f a s).
  Proof.
    intros s0 this f args st r st' _ _ _ _ Hc. unfold call_too_deep in Hc.
    destruct (check_arity f (Datatypes.length args)); inversion Hc; subst;
      (split; [apply store_le_refl|intros ? Hq; discriminate Hq]).
  Qed.

  (* the lambda arm of FunctionDef::call, for a closed function, in two chains with equal inputs *)
  Lemma lambda_call_indep : forall d' id params body scope this args st,
    indep_at d' ->
    closed_value st (VLam id params body scope) -> closed_value st this -> closed_list st args ->
    forall oi, (forall v, oi = Some v -> closed_value st v) ->
    exists r st',
      (forall fr cb, lookup fr "inputs" = oi ->
         call_passed bu (evalE release bi (AD d')) cb fr this (VLam id params body scope) args st = (r, st')) /\
      store_le st st' /\ closed_res st' r.
  Proof.
    intros d' id params body scope this args st [IHa IHc] Hf Hthis Hargs oi Hoi.
    apply closed_VLam in Hf. destruct Hf as (Hn & Hfv & Hsc).
    set (self := match lam_name st id with
                 | Some n => match lookup_frame scope n with Some _ => [] | None => [(n, this)] end
                 | None => []
                 end).
    (* F9 repaired: the caller's `inputs` only when the scope did not capture the name *)
    set (inp := match lookup_frame scope "inputs" with
                | Some _ => []
                | None => match oi with Some i => [("inputs", i)] | None => [] end
                end).
    destruct (bind_params params 0 args (inp ++ self)) as [local|] eqn:Eb.
    2:{ exists Panic, st. split; [|split; [apply store_le_refl|intros ? Hq; discriminate Hq]].
        intros fr cb Hfr. unfold call_passed. rewrite Hfr. fold inp. fold self. rewrite Eb. reflexivity. }
    set (Hh := (FOwned, local) :: match scope with [] => [] | _ => [(FShared, scope)] end).
    assert (Hacc : closed_frame st (inp ++ self)).
    { apply Forall_app; split.
      - unfold inp. destruct (lookup_frame scope "inputs"); [constructor|].
        destruct oi; [constructor; [apply Hoi; reflexivity|constructor]|constructor].
      - unfold self. destruct (lam_name st id) as [nm|]; [|constructor].
        destruct (lookup_frame scope nm); [constructor|constructor; [exact Hthis|constructor]]. }
    assert (Hlocal : closed_frame st local) by (eapply bind_params_closed; eauto).
    assert (Hok : st_ok st Hh oi).
    { split; [discriminate| |exact Hoi]. unfold Hh. constructor; [exact Hlocal|].
      destruct scope; [constructor|constructor; [exact Hsc|constructor]]. }
    destruct (bind_params_binds _ _ _ _ _ Eb) as [Hbp Hkeep].
    assert (Hcb : covered Hh (map arg_name params)).
    { intros x Hx. apply in_map_iff in Hx. destruct Hx as [p [<- Hp]]. unfold Hh. cbn [lookup].
      specialize (Hbp p Hp). destruct (lookup_frame local (arg_name p)); [discriminate|congruence]. }
    assert (Hcf : covered Hh (free_vars body (map arg_name params))).
    { intros x Hx. unfold Hh. cbn [lookup]. destruct (lookup_frame local x) eqn:El; [discriminate|].
      assert (Hcase : lookup_frame scope x <> None \/ (lookup_frame scope x = None /\ lam_name st id = Some x)).
      { destruct (Hfv x Hx) as [Hs|Hs]; [left; exact Hs|].
        destruct (lookup_frame scope x) eqn:Esc; [left; discriminate|right; split; [reflexivity|exact Hs]]. }
      destruct Hcase as [Hs|[Esc Hs]].
      - destruct scope as [|kv sc]; [exfalso; apply Hs; reflexivity|]. cbn [lookup].
        destruct (lookup_frame (kv :: sc) x); [discriminate|congruence].
      - exfalso. assert (Hl : lookup_frame (inp ++ self) x <> None).
        { unfold self. rewrite Hs, Esc. clear. induction inp as [|[y v] r IH]; cbn [app lookup_frame].
          - rewrite String.eqb_refl. discriminate.
          - destruct (String.eqb x y); [discriminate|exact IH]. }
        apply Hkeep in Hl. congruence. }
    destruct (evalE_sim (AD d') IHa IHc body) as [Hsim _].
    destruct (Hsim (map arg_name params) st Hh oi Hok Hn Hcf Hcb) as (r & st' & H' & E & Hle & _ & _ & Hr).
    exists r, st'. split; [|split; [exact Hle|exact Hr]].
    intros fr cb Hfr. unfold call_passed. rewrite Hfr. fold inp. fold self. rewrite Eb.
    specialize (E fr Hfr). unfold Hh in E.
    destruct scope as [|kv sc]; cbn [app] in E; apply (let_pair3 _ r st' (H' ++ fr)); exact E.
  Qed.

  Theorem AD_indep : forall d, indep_at d.
  Proof.
    intros d. induction d as [d IH] using lt_wf_ind.
    assert (Hcommon : forall fr oi this f args st,
              lookup fr "inputs" = oi -> (forall v, oi = Some v -> closed_value st v) ->
              closed_value st this -> closed_value st f -> closed_list st args ->
              exists r st', (forall fr', lookup fr' "inputs" = oi -> AD d fr' this f args st = (r, st')) /\
                            store_le st st' /\ closed_res st' r).
    { intros fr oi this f args st Hfr Hoi Hthis Hf Hargs.
      destruct (negb (check_arity f (Datatypes.length args))) eqn:Har.
      { exists Err, st. split; [|split; [apply store_le_refl|intros ? Hq; discriminate Hq]].
        intros fr' _. destruct d; cbn [Eval.AD]; unfold apply_at; rewrite Har; reflexivity. }
      destruct d as [|d'].
      { exists ErrDepth, st. split; [|split; [apply store_le_refl|intros ? Hq; discriminate Hq]].
        intros fr' _. cbn [Eval.AD]. unfold apply_at. rewrite Har. reflexivity. }
      destruct f; try (exists Err, st; split; [|split; [apply store_le_refl|intros ? Hq; discriminate Hq]];
                       intros fr' _; cbn [Eval.AD]; unfold apply_at; rewrite Har; reflexivity).
      - (* lambda *)
        destruct (lambda_call_indep d' id args0 body scope this args st (IH d' (Nat.lt_succ_diag_r d')) Hf Hthis Hargs oi Hoi)
          as (r & st' & E & Hle & Hr).
        exists r, st'. split; [|split; assumption].
        intros fr' Hfr'. cbn [Eval.AD]. unfold apply_at. rewrite Har. apply E. exact Hfr'.
      - (* built-in *)
        set (cbof := fun fr0 : frames => match d' with
                                        | O => fun _ f a s => call_too_deep f a s
                                        | S d'' => AD d'' fr0
                                        end).
        assert (Hag : forall fr1 fr2, lookup fr1 "inputs" = oi -> lookup fr2 "inputs" = oi -> cb_agree st (cbof fr1) (cbof fr2)).
        { intros fr1 fr2 Hi1 Hi2. unfold cbof. destruct d' as [|d'']; [apply too_deep_agree|].
          apply (proj1 (IH d'' ltac:(lia))); [congruence|]. intros v Hv. apply Hoi. congruence. }
        assert (Hcl : forall fr0, lookup fr0 "inputs" = oi -> cb_closed st (cbof fr0)).
        { intros fr0 Hi. unfold cbof. destruct d' as [|d'']; [apply too_deep_closed|].
          apply (proj2 (IH d'' ltac:(lia))). intros v Hv. apply Hoi. congruence. }
        destruct (bu (cbof fr) b args st) as [r st'] eqn:Eb.
        destruct (Hbu (cbof fr) (cbof fr) st (Hag fr fr Hfr Hfr) (Hcl fr Hfr) b args st (store_le_refl _) Hargs) as [_ Hpost].
        destruct (Hpost r st' Eb) as [Hle Hr].
        exists r, st'. split; [|split; assumption].
        intros fr' Hfr'. cbn [Eval.AD]. unfold apply_at. rewrite Har. unfold call_passed. fold (cbof fr').
        destruct (Hbu (cbof fr) (cbof fr') st (Hag fr fr' Hfr Hfr') (Hcl fr Hfr) b args st (store_le_refl _) Hargs) as [Heq _].
        rewrite <- Heq. exact Eb. }
    split.
    - intros fr1 fr2 s0 Hi Hic this f args st Hs0 Hthis Hf Hargs.
      destruct (Hcommon fr1 (lookup fr1 "inputs") this f args st eq_refl) as (r0 & st0 & E & _ & _); auto.
      { intros v Hv. eapply closed_mono; [exact Hs0|]. apply Hic. exact Hv. }
      rewrite (E fr1 eq_refl), (E fr2 (eq_sym Hi)). reflexivity.
    - intros fr s0 Hic this f args st r st' Hs0 Hthis Hf Hargs Hc.
      destruct (Hcommon fr (lookup fr "inputs") this f args st eq_refl) as (r0 & st0 & E & Hle & Hr); auto.
      { intros v Hv. eapply closed_mono; [exact Hs0|]. apply Hic. exact Hv. }
      rewrite (E fr eq_refl) in Hc. inversion Hc; subst. split; assumption.
  Qed.
End Sim.

(* ------------------------------------------------------------------ the concrete evaluator *)
Lemma binop_impl_agree : forall cb1 cb2 s0, cb_agree s0 cb1 cb2 -> cb_closed s0 cb1 ->
  forall op l r st, store_le s0 st -> closed_value st l -> closed_value st r ->
    binop_impl cb1 op l r st = binop_impl cb2 op l r st /\
    (forall res st', binop_impl cb1 op l r st = (res, st') -> store_le st st' /\ closed_res st' res).
Proof.
  intros cb1 cb2 s0 Hag Hcl op l r st Hs0 Hl Hr. unfold binop_impl.
  destruct op;
    try (exact (eval_binop_agree cb1 cb2 s0 Hag Hcl fn_accepts2_of_value powf_stub _ l r st Hs0 Hl Hr)).
  split; [reflexivity|]. intros res st' H. inversion H; subst. split; [apply store_le_refl|intros ? Hq; discriminate Hq].
Qed.

Lemma builtin_impl_agree' : forall cb1 cb2 s0, cb_agree s0 cb1 cb2 -> cb_closed s0 cb1 ->
  forall b args st, store_le s0 st -> closed_list st args ->
    builtin_impl cb1 b args st = builtin_impl cb2 b args st /\
    (forall res st', builtin_impl cb1 b args st = (res, st') -> store_le st st' /\ closed_res st' res).
Proof.
  intros cb1 cb2 s0 Hag Hcl b args st Hs0 Ha.
  destruct (builtin_impl_agree cb1 cb2 s0 Hag Hcl b args st Hs0 Ha) as [Heq [Hle Hq]].
  split; [exact Heq|]. intros res st' H. rewrite H in Hle, Hq. cbn [fst snd] in *. split; [exact Hle|exact Hq].
Qed.

(* CALL-SITE INDEPENDENCE (C04): FunctionDef::call of a hereditarily closed function on closed
   arguments gives the same outcome and the same store from every scope chain with the same
   `inputs` — at every call depth. *)
Theorem call_site_independent : forall release d fr1 fr2 this f args st,
  lookup fr1 "inputs" = lookup fr2 "inputs" ->
  (forall v, lookup fr1 "inputs" = Some v -> closed_value st v) ->
  closed_value st this -> closed_value st f -> closed_list st args ->
  AD release binop_impl builtin_impl d fr1 this f args st =
  AD release binop_impl builtin_impl d fr2 this f args st.
Proof.
  intros release d fr1 fr2 this f args st Hi Hic Hthis Hf Hargs.
  destruct (AD_indep release binop_impl builtin_impl binop_impl_agree builtin_impl_agree' d) as [HA _].
  apply (HA fr1 fr2 st Hi Hic this f args st (store_le_refl st) Hthis Hf Hargs).
Qed.

(* ... and what it returns is again closed *)
Theorem call_result_closed : forall release d fr this f args st r st',
  (forall v, lookup fr "inputs" = Some v -> closed_value st v) ->
  closed_value st this -> closed_value st f -> closed_list st args ->
  AD release binop_impl builtin_impl d fr this f args st = (r, st') ->
  store_le st st' /\ (forall v, r = Ok v -> closed_value st' v).
Proof.
  intros release d fr this f args st r st' Hic Hthis Hf Hargs H.
  destruct (AD_indep release binop_impl builtin_impl binop_impl_agree builtin_impl_agree' d) as [_ HB].
  exact (HB fr st Hic this f args st r st' (store_le_refl st) Hthis Hf Hargs H).
Qed.
