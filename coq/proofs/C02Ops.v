(* C02Ops.v — the transcribed operators (Binop.v: evaluate_binary_op_ast, all three arms) and the
   callback-taking / simple built-ins of EvalInst.builtin_impl commute with the renaming of
   function-cell indices whenever their callback does: the two hypotheses of C02Sim.v, discharged
   arm by arm.  Nothing in these functions observes a cell index: Value::equals compares functions
   by parameters and body, Value::compare gives None, typeof/arity read the definition only. *)
From Coq Require Import String Ascii List ZArith Bool Lia.
Require Import Blots.Num Blots.gen.Builtins Blots.Ast Blots.Value Blots.Outcome Blots.Binop
               Blots.Env Blots.Eval Blots.BuiltinsHof Blots.Program Blots.EvalInst
               Blots.proofs.ValueInd Blots.proofs.StoreMono Blots.proofs.C02Ren Blots.proofs.C02Sim.
Import ListNotations.
Open Scope list_scope.
Open Scope nat_scope.

Section Ops.
  Variable rho : nat -> nat.
  Hypothesis rho_inj : forall a b, rho a = rho b -> a = b.
  Notation ren := (ren rho).
  Notation oren := (oren rho).
  Notation sinv := (sinv rho).
  Notation Mfun := (Mfun rho).
  Notation cb_eqv := (cb_eqv rho).

  Ltac stepM H :=
    match type of H with _ = omap _ (fst ?XA) /\ C02Ren.sinv _ (snd ?XA) (snd ?XB) =>
      revert H; destruct XA as [?rA ?sA]; destruct XB as [?rB ?sB];
      intros (?E & ?Hs); cbn [fst snd] in *; subst end.
  Ltac fin := split; [reflexivity|assumption].

  (* ---- the monad of Binop.v ---- *)
  Lemma lift_Mfun : forall A B (f : A -> B) (oa : outcome A) (ob : outcome B),
    ob = omap f oa -> Mfun f (lift store oa) (lift store ob).
  Proof. intros A B f oa ob -> sA sB Hs. unfold lift. fin. Qed.

  Lemma bindM_Mfun : forall A A' B B' (f : A -> A') (g : B -> B') mA mB kA kB,
    Mfun f mA mB -> (forall a, Mfun g (kA a) (kB (f a))) ->
    Mfun g (bindM store mA kA) (bindM store mB kB).
  Proof.
    intros A A' B B' f g mA mB kA kB Hm Hk sA sB Hs. unfold bindM.
    pose proof (Hm sA sB Hs) as H1. stepM H1.
    destruct rA; cbn [omap obind]; try fin. apply Hk; assumption.
  Qed.

  Lemma for_each_Mfun : forall B B' (f : B -> B') idxs bA bB,
    (forall i, Mfun f (bA i) (bB i)) ->
    Mfun (map f) (for_each store idxs bA) (for_each store idxs bB).
  Proof.
    intros B B' f idxs bA bB Hb. induction idxs as [|i r IH]; cbn [for_each].
    - apply lift_Mfun. reflexivity.
    - eapply bindM_Mfun; [apply Hb|]. intros y.
      eapply bindM_Mfun; [apply IH|]. intros ys. apply lift_Mfun. reflexivity.
  Qed.

  Lemma call_fn_Mfun : forall cbA cbB f args, cb_eqv cbA cbB ->
    Mfun ren (call_fn store cbA f args) (call_fn store cbB (ren f) (map ren args)).
  Proof. intros cbA cbB f args Hcb. unfold call_fn. apply Hcb. Qed.

  (* ---- scalar pieces ---- *)
  Lemma num2_ren : forall f a b, num2 f (ren a) (ren b) = oren (num2 f a b).
  Proof.
    intros f a b. unfold num2. rewrite !as_number_ren. destruct (as_number a); try reflexivity.
    cbn [obind]. destruct (as_number b); reflexivity.
  Qed.
  Lemma and_q_ren : forall a b, and_q (ren a) (ren b) = oren (and_q a b).
  Proof.
    intros a b. unfold and_q. rewrite !as_bool_ren. destruct (as_bool a) as [[|]| | | |]; try reflexivity.
    cbn [obind]. destruct (as_bool b); reflexivity.
  Qed.
  Lemma or_q_ren : forall a b, or_q (ren a) (ren b) = oren (or_q a b).
  Proof.
    intros a b. unfold or_q. rewrite !as_bool_ren. destruct (as_bool a) as [[|]| | | |]; try reflexivity.
    cbn [obind]. destruct (as_bool b); reflexivity.
  Qed.
  Lemma add_match_ren : forall a b, add_match (ren a) (ren b) = oren (add_match a b).
  Proof. intros a b. destruct a; try reflexivity; destruct b; reflexivity. Qed.
  Lemma ord_ren : forall a b e,
    (do r <- check_ord (compare (ren a) (ren b)) e; Ok (VBool r)) =
    oren (do r <- check_ord (compare a b) e; Ok (VBool r)).
  Proof. intros a b e. rewrite compare_ren. destruct (check_ord (compare a b) e); reflexivity. Qed.
  Lemma strcat_ren : forall a b,
    (do l_str <- as_string (ren a); do r_str <- as_string (ren b); Ok (VStr (l_str ++ r_str))) =
    oren (do l_str <- as_string a; do r_str <- as_string b; Ok (VStr (l_str ++ r_str))).
  Proof.
    intros a b. rewrite !as_string_ren. destruct (as_string a); try reflexivity. cbn [obind].
    destruct (as_string b); reflexivity.
  Qed.

  Lemma omap_VList_ren : forall (o : outcome (list value)),
    omap VList (omap (map ren) o) = oren (omap VList o).
  Proof. destruct o; reflexivity. Qed.
  Definition ren2 (lr : value * value) : value * value := (ren (fst lr), ren (snd lr)).
  Lemma combine_ren : forall l r, combine (map ren l) (map ren r) = map ren2 (combine l r).
  Proof. induction l as [|x l IH]; intros [|y r]; try reflexivity. cbn [map combine]. f_equal. apply IH. Qed.
  Lemma filter_some_ren : forall (l : list (option value)),
    filter_some (map (option_map ren) l) = map ren (filter_some l).
  Proof. induction l as [|[x|] l IH]; cbn [map filter_some option_map]; [reflexivity|f_equal; exact IH|exact IH]. Qed.

  (* a pure list result: `lift (omap VList (mapM g xs))` *)
  Lemma pure_list_Mfun : forall {X X'} (h : X -> X') (gA : X -> outcome value) (gB : X' -> outcome value) xs,
    (forall x, gB (h x) = oren (gA x)) ->
    Mfun ren (lift store (omap VList (mapM gA xs))) (lift store (omap VList (mapM gB (map h xs)))).
  Proof.
    intros X X' h gA gB xs Hg. apply lift_Mfun.
    rewrite (mapM_ren h ren gA gB xs Hg). apply omap_VList_ren.
  Qed.
  Lemma pure_list_same_Mfun : forall {X} (gA gB : X -> outcome value) xs,
    (forall x, gB x = oren (gA x)) ->
    Mfun ren (lift store (omap VList (mapM gA xs))) (lift store (omap VList (mapM gB xs))).
  Proof.
    intros X gA gB xs Hg. pose proof (pure_list_Mfun (fun x : X => x) gA gB xs Hg) as H.
    rewrite map_id in H. exact H.
  Qed.
  Lemma pure_list_exp_Mfun : forall {X X'} (h : X -> X') (gA : list comparison -> X -> outcome value)
      (gB : list comparison -> X' -> outcome value) xs (oe : outcome (list comparison)),
    (forall e x, gB e (h x) = oren (gA e x)) ->
    Mfun ren (lift store (do e <- oe; omap VList (mapM (gA e) xs)))
             (lift store (do e <- oe; omap VList (mapM (gB e) (map h xs)))).
  Proof.
    intros X X' h gA gB xs oe Hg. apply lift_Mfun. destruct oe; try reflexivity. cbn [obind].
    rewrite (mapM_ren h ren (gA a) (gB a) xs (Hg a)). apply omap_VList_ren.
  Qed.

  Section Arms.
    Variable cbA cbB : callback.
    Hypothesis Hcb : cb_eqv cbA cbB.
    Variable fa2 : value -> bool.
    Hypothesis fa2_ren : forall v, fa2 (ren v) = fa2 v.
    Variable powf : num -> num -> num.

    Lemma arm_scalar_sim : forall op l r,
      Mfun ren (arm_scalar store cbA powf op l r) (arm_scalar store cbB powf op (ren l) (ren r)).
    Proof.
      intros op l r. unfold arm_scalar.
      destruct op;
        try (apply lift_Mfun;
             first [ rewrite equals_ren; reflexivity | apply ord_ren | apply and_q_ren | apply or_q_ren
                   | apply num2_ren | reflexivity ]).
      - (* Add *) rewrite is_string_ren. destruct (is_string l); apply lift_Mfun; [apply strcat_ren|apply num2_ren].
      - (* Via *) rewrite is_callable_ren. destruct (negb (is_callable r)); [apply lift_Mfun; reflexivity|].
        apply (call_fn_Mfun cbA cbB r [l] Hcb).
      - (* Into *) rewrite is_callable_ren. destruct (negb (is_callable r)); [apply lift_Mfun; reflexivity|].
        apply (call_fn_Mfun cbA cbB r [l] Hcb).
      - (* Coalesce *) apply lift_Mfun. rewrite is_null_ren. destruct (is_null l); reflexivity.
    Qed.

    Ltac elt :=
      intros; cbn [fst snd ren2];
      rewrite ?equals_ren, ?compare_ren, ?is_null_ren;
      first [ reflexivity | apply num2_ren | apply and_q_ren | apply or_q_ren | apply add_match_ren
            | match goal with |- context [check_ord ?c ?e] => destruct (check_ord c e); reflexivity end
            | match goal with |- context [is_null ?c] => destruct (is_null c); reflexivity end ].

    Lemma arm_list_scalar_sim : forall op b l sc,
      Mfun ren (arm_list_scalar store cbA fa2 powf op b l sc)
               (arm_list_scalar store cbB fa2 powf op b (map ren l) (ren sc)).
    Proof.
      intros op b l sc. unfold arm_list_scalar. rewrite map_length.
      destruct op;
        try (apply lift_Mfun; reflexivity);
        try (apply (pure_list_Mfun ren); elt);
        try (apply (pure_list_exp_Mfun ren (fun e v => do result <- check_ord (if b then compare v sc else compare sc v) e; Ok (VBool result)));
             intros e x; destruct b; elt);
        try (destruct b; apply (pure_list_Mfun ren); elt).
      - (* Add *) apply (pure_list_same_Mfun
                     (fun idx => do item <- index l idx; if b then add_match item sc else add_match sc item)).
        intros idx. rewrite index_ren. destruct (index l idx); try reflexivity. cbn [omap obind].
        destruct b; apply add_match_ren.
      - (* Via *)
        destruct b; [|apply lift_Mfun; reflexivity].
        rewrite is_callable_ren. destruct (negb (is_callable sc)); [apply lift_Mfun; reflexivity|].
        rewrite fa2_ren.
        eapply bindM_Mfun with (f := map ren).
        + apply for_each_Mfun. intros i. eapply bindM_Mfun with (f := ren).
          * apply lift_Mfun. apply index_ren.
          * intros item. destruct (fa2 sc); [apply (call_fn_Mfun cbA cbB sc [item; VNum (num_of_idx i)] Hcb)
                                            |apply (call_fn_Mfun cbA cbB sc [item] Hcb)].
        + intros mapped. apply lift_Mfun. reflexivity.
      - (* Into *)
        destruct b; [|apply lift_Mfun; reflexivity].
        rewrite is_callable_ren. destruct (negb (is_callable sc)); [apply lift_Mfun; reflexivity|].
        apply (call_fn_Mfun cbA cbB sc [VList l] Hcb).
      - (* Where *)
        destruct b; [|apply lift_Mfun; reflexivity].
        rewrite is_callable_ren. destruct (negb (is_callable sc)); [apply lift_Mfun; reflexivity|].
        rewrite fa2_ren.
        eapply bindM_Mfun with (f := map (option_map ren)).
        + apply for_each_Mfun. intros i. eapply bindM_Mfun with (f := ren).
          * apply lift_Mfun. apply index_ren.
          * intros item. eapply bindM_Mfun with (f := ren).
            -- destruct (fa2 sc); [apply (call_fn_Mfun cbA cbB sc [item; VNum (num_of_idx i)] Hcb)
                                  |apply (call_fn_Mfun cbA cbB sc [item] Hcb)].
            -- intros result. eapply bindM_Mfun with (f := fun k : bool => k).
               ++ apply lift_Mfun. rewrite as_bool_ren. destruct (as_bool result); reflexivity.
               ++ intros keep. apply lift_Mfun. destruct keep; reflexivity.
        + intros kept. apply lift_Mfun. cbn [omap obind C02Ren.ren]. rewrite filter_some_ren. reflexivity.
    Qed.

    Lemma arm_list_list_sim : forall op l r,
      Mfun ren (arm_list_list store cbA powf op l r)
               (arm_list_list store cbB powf op (map ren l) (map ren r)).
    Proof.
      intros op l r. unfold arm_list_list. rewrite !map_length, combine_ren.
      destruct (negb (Nat.eqb (length l) (length r))); [apply lift_Mfun; reflexivity|].
      destruct op;
        try (apply lift_Mfun; reflexivity);
        try (apply (pure_list_Mfun ren2); elt);
        try (apply (pure_list_exp_Mfun ren2 (fun e lr => do result <- check_ord (compare (fst lr) (snd lr)) e; Ok (VBool result)));
             elt).
      - (* Add *) apply (pure_list_same_Mfun
                     (fun idx => do a <- index l idx; do b <- index r idx; add_match a b)).
        intros idx. rewrite !index_ren. destruct (index l idx); try reflexivity. cbn [omap obind].
        destruct (index r idx); try reflexivity. cbn [omap obind]. apply add_match_ren.
      - (* Via *)
        eapply bindM_Mfun with (f := map ren).
        + apply for_each_Mfun. intros i. eapply bindM_Mfun with (f := ren2).
          * apply lift_Mfun. rewrite !index_ren. destruct (index l i); try reflexivity. cbn [omap obind].
            destruct (index r i); reflexivity.
          * intros lr. cbn [ren2 fst snd]. rewrite is_lambda_ren, is_built_in_ren.
            destruct (negb (is_lambda (snd lr)) && negb (is_built_in (snd lr))); [apply lift_Mfun; reflexivity|].
            apply (call_fn_Mfun cbA cbB (snd lr) [fst lr] Hcb).
        + intros mapped. apply lift_Mfun. reflexivity.
    Qed.

    Theorem eval_binop_sim : forall op l r,
      Mfun ren (eval_binop store cbA fa2 powf op l r) (eval_binop store cbB fa2 powf op (ren l) (ren r)).
    Proof.
      intros op l r.
      assert (Hdot : forall e, Mfun ren (fun st => (do x <- check_ord (compare l r) e; Ok (VBool x), st))
                                        (fun st => (do x <- check_ord (compare (ren l) (ren r)) e; Ok (VBool x), st))).
      { intros e sA sB Hs. cbn [fst snd]. split; [apply ord_ren|assumption]. }
      assert (Heq : forall (k : bool -> bool),
                Mfun ren (fun st => (Ok (VBool (k (equals l r))), st))
                         (fun st => (Ok (VBool (k (equals (ren l) (ren r)))), st))).
      { intros k sA sB Hs. cbn [fst snd]. rewrite equals_ren. fin. }
      unfold eval_binop.
      destruct op; try apply Hdot; try apply (Heq (fun x => x)); try apply (Heq negb);
        rewrite is_list_ren;
        (destruct (is_list r && binop_eqb _ Into); [intros sA sB Hs; fin|]);
        destruct l; destruct r; cbn [C02Ren.ren];
        first [ apply arm_list_list_sim | apply (arm_list_scalar_sim _ true) | apply (arm_list_scalar_sim _ false)
              | apply arm_scalar_sim ].
    Qed.
  End Arms.

  (* Hypothesis Hbi of C02Sim.v for the operator implementation of EvalInst.v *)
  Theorem binop_impl_sim : forall cbA cbB, cb_eqv cbA cbB ->
    forall op l r, Mfun ren (binop_impl cbA op l r) (binop_impl cbB op (ren l) (ren r)).
  Proof.
    intros cbA cbB Hcb op l r. unfold binop_impl.
    destruct op; try (apply eval_binop_sim; [exact Hcb|apply fn_accepts2_ren]).
    intros sA sB Hs. fin.
  Qed.

  (* ---- the callback-taking built-ins ---- *)
  Section Hof.
    Variable cbA cbB : callback.
    Hypothesis Hcb : cb_eqv cbA cbB.

    Lemma cb_args_ren : forall two x i, cb_args two (ren x) i = map ren (cb_args two x i).
    Proof. intros [|] x i; reflexivity. Qed.

    Lemma map_loop_sim : forall f two l i,
      Mfun (map ren) (map_loop cbA f two l i) (map_loop cbB (ren f) two (map ren l) i).
    Proof.
      intros f two l; induction l as [|x l IH]; intros i sA sB Hs; cbn [map_loop map]; [fin|].
      rewrite cb_args_ren. pose proof (Hcb f f (cb_args two x i) sA sB Hs) as H1. stepM H1.
      destruct rA; cbn [omap obind cast_fail]; try fin.
      pose proof (IH (S i) sA0 sB0 Hs0) as H2. stepM H2. destruct rA; cbn [omap obind]; fin.
    Qed.
    Lemma filter_loop_sim : forall f two l i,
      Mfun (map ren) (filter_loop cbA f two l i) (filter_loop cbB (ren f) two (map ren l) i).
    Proof.
      intros f two l; induction l as [|x l IH]; intros i sA sB Hs; cbn [filter_loop map]; [fin|].
      rewrite cb_args_ren. pose proof (Hcb f f (cb_args two x i) sA sB Hs) as H1. stepM H1.
      destruct rA; cbn [omap obind cast_fail]; try fin.
      rewrite as_bool_ren. destruct (as_bool a) as [keep| | | |]; cbn [cast_fail]; try fin.
      pose proof (IH (S i) sA0 sB0 Hs0) as H2. stepM H2. destruct rA; cbn [omap obind]; try fin.
      destruct keep; fin.
    Qed.
    Lemma reduce_loop_sim : forall f three l i acc,
      Mfun ren (reduce_loop cbA f three l i acc) (reduce_loop cbB (ren f) three (map ren l) i (ren acc)).
    Proof.
      intros f three l; induction l as [|x l IH]; intros i acc sA sB Hs; cbn [reduce_loop map]; [fin|].
      assert (Ea : (if three then [ren acc; ren x; idx_num i] else [ren acc; ren x]) =
                   map ren (if three then [acc; x; idx_num i] else [acc; x])) by (destruct three; reflexivity).
      rewrite Ea. pose proof (Hcb f f (if three then [acc; x; idx_num i] else [acc; x]) sA sB Hs) as H1. stepM H1.
      destruct rA; cbn [omap obind]; try fin. apply IH; assumption.
    Qed.
    Lemma every_loop_sim : forall f two l i,
      Mfun ren (every_loop cbA f two l i) (every_loop cbB (ren f) two (map ren l) i).
    Proof.
      intros f two l; induction l as [|x l IH]; intros i sA sB Hs; cbn [every_loop map]; [fin|].
      rewrite cb_args_ren. pose proof (Hcb f f (cb_args two x i) sA sB Hs) as H1. stepM H1.
      destruct rA; cbn [omap obind]; try fin.
      rewrite as_bool_ren. destruct (as_bool a) as [[|]| | | |]; cbn [cast_fail]; try fin. apply IH; assumption.
    Qed.
    Lemma some_loop_sim : forall f two l i,
      Mfun ren (some_loop cbA f two l i) (some_loop cbB (ren f) two (map ren l) i).
    Proof.
      intros f two l; induction l as [|x l IH]; intros i sA sB Hs; cbn [some_loop map]; [fin|].
      rewrite cb_args_ren. pose proof (Hcb f f (cb_args two x i) sA sB Hs) as H1. stepM H1.
      destruct rA; cbn [omap obind]; try fin.
      rewrite as_bool_ren. destruct (as_bool a) as [[|]| | | |]; cbn [cast_fail]; try fin. apply IH; assumption.
    Qed.

    Definition renFL (p : value * list value) : value * list value := (ren (fst p), map ren (snd p)).
    Lemma hof_prelude_ren : forall args, hof_prelude (map ren args) = omap renFL (hof_prelude args).
    Proof.
      intros args. unfold hof_prelude. rewrite !arg_ren.
      destruct (arg args 1) as [f| | | |]; try reflexivity. cbn [omap obind].
      destruct (arg args 0) as [l0| | | |]; try reflexivity. cbn [omap obind].
      rewrite as_list_ren. destruct (as_list l0); try reflexivity. cbn [omap obind].
      rewrite as_function_ren. destruct (as_function f); reflexivity.
    Qed.
  End Hof.

  (* pure built-ins *)
  Lemma pure_bi_Mfun : forall (fA fB : list value -> outcome value) args,
    fB (map ren args) = oren (fA args) -> Mfun ren (pure_bi fA args) (pure_bi fB (map ren args)).
  Proof. intros fA fB args E sA sB Hs. unfold pure_bi. cbn [fst snd]. split; assumption. Qed.

  Lemma num1_ren : forall g args, num1 g (map ren args) = oren (num1 g args).
  Proof.
    intros g args. unfold num1. rewrite arg_ren. destruct (arg args 0); try reflexivity. cbn [omap obind].
    rewrite as_number_ren. destruct (as_number a); reflexivity.
  Qed.
  Lemma cmp2_ren : forall g args, (forall a b, g (ren a) (ren b) = g a b) ->
    cmp2 g (map ren args) = oren (cmp2 g args).
  Proof.
    intros g args Hg. unfold cmp2. rewrite !arg_ren. destruct (arg args 0); try reflexivity. cbn [omap obind].
    destruct (arg args 1); try reflexivity. cbn [omap obind]. rewrite Hg. reflexivity.
  Qed.
  Lemma boolish_ren : forall v, boolish (ren v) = boolish v.
  Proof. destruct v; reflexivity. Qed.

  Lemma existsb_boolish_ren : forall l, existsb boolish (map ren l) = existsb boolish l.
  Proof. induction l as [|x l IH]; [reflexivity|]. cbn [map existsb]. rewrite boolish_ren, IH. reflexivity. Qed.
  Lemma forallb_boolish_ren : forall l, forallb boolish (map ren l) = forallb boolish l.
  Proof. induction l as [|x l IH]; [reflexivity|]. cbn [map forallb]. rewrite boolish_ren, IH. reflexivity. Qed.

  (* Hypothesis Hbu of C02Sim.v for the built-in dispatcher of EvalInst.v *)
  Theorem builtin_impl_sim : forall cbA cbB, cb_eqv cbA cbB ->
    forall b args, Mfun ren (builtin_impl cbA b args) (builtin_impl cbB b (map ren args)).
  Proof.
    intros cbA cbB Hcb b args.
    assert (Hun : Mfun ren (fun st => (Unmodelled : outcome value, st)) (fun st => (Unmodelled : outcome value, st))).
    { intros sA sB Hs. fin. }
    assert (Hfail : forall (o : outcome value), (forall v, o <> Ok v) ->
              Mfun ren (fun st => (o, st)) (fun st => (o, st))).
    { intros o Ho sA sB Hs. cbn [fst snd]. split; [|assumption]. destruct o; try reflexivity. exfalso; eapply Ho; reflexivity. }
    destruct b; cbn [builtin_impl]; try exact Hun;
      try (apply pure_bi_Mfun;
           first [ apply num1_ren
                 | apply cmp2_ren; intros a0 b0; unfold ugt, ult, ugte, ulte; rewrite compare_ren; reflexivity ]).
    - (* any *) apply pure_bi_Mfun. unfold bi_any. rewrite arg_ren. destruct (arg args 0); try reflexivity.
      cbn [omap obind]. rewrite as_list_ren. destruct (as_list a); try reflexivity. cbn [omap obind].
      rewrite existsb_boolish_ren. reflexivity.
    - (* all *) apply pure_bi_Mfun. unfold bi_all. rewrite arg_ren. destruct (arg args 0); try reflexivity.
      cbn [omap obind]. rewrite as_list_ren. destruct (as_list a); try reflexivity. cbn [omap obind].
      rewrite forallb_boolish_ren. reflexivity.
    - (* map *) unfold bi_map. rewrite hof_prelude_ren.
      destruct (hof_prelude args) as [[f l]| | | |]; cbn [omap obind renFL fst snd cast_fail];
        try (intros sA sB Hs; fin).
      rewrite accepts_ren. intros sA sB Hs.
      pose proof (map_loop_sim cbA cbB Hcb f (accepts f 2) l 0 sA sB Hs) as H1. stepM H1.
      destruct rA; cbn [omap obind]; fin.
    - (* reduce *) unfold bi_reduce. rewrite !arg_ren.
      destruct (arg args 1) as [f| | | |]; cbn [omap obind cast_fail]; try (intros sA sB Hs; fin).
      destruct (arg args 2) as [i0| | | |]; cbn [omap obind cast_fail]; try (intros sA sB Hs; fin).
      destruct (arg args 0) as [l0| | | |]; cbn [omap obind cast_fail]; try (intros sA sB Hs; fin).
      rewrite as_list_ren. destruct (as_list l0) as [l| | | |]; cbn [omap obind cast_fail]; try (intros sA sB Hs; fin).
      rewrite as_function_ren. destruct (as_function f) as [f'| | | |] eqn:Ef; cbn [omap obind cast_fail];
        try (intros sA sB Hs; fin).
      rewrite accepts_ren. apply reduce_loop_sim; assumption.
    - (* filter *) unfold bi_filter. rewrite hof_prelude_ren.
      destruct (hof_prelude args) as [[f l]| | | |]; cbn [omap obind renFL fst snd cast_fail];
        try (intros sA sB Hs; fin).
      rewrite accepts_ren. intros sA sB Hs.
      pose proof (filter_loop_sim cbA cbB Hcb f (accepts f 2) l 0 sA sB Hs) as H1. stepM H1.
      destruct rA; cbn [omap obind]; fin.
    - (* every *) unfold bi_every. rewrite hof_prelude_ren.
      destruct (hof_prelude args) as [[f l]| | | |]; cbn [omap obind renFL fst snd cast_fail];
        try (intros sA sB Hs; fin).
      rewrite accepts_ren. apply every_loop_sim; assumption.
    - (* some *) unfold bi_some. rewrite hof_prelude_ren.
      destruct (hof_prelude args) as [[f l]| | | |]; cbn [omap obind renFL fst snd cast_fail];
        try (intros sA sB Hs; fin).
      rewrite accepts_ren. apply some_loop_sim; assumption.
    - (* to_bool *) apply pure_bi_Mfun. unfold bi_to_bool. rewrite arg_ren.
      destruct (arg args 0) as [a| | | |]; try reflexivity. destruct a; reflexivity.
    - (* typeof *) apply pure_bi_Mfun. unfold bi_typeof. rewrite arg_ren.
      destruct (arg args 0) as [a| | | |]; try reflexivity. cbn [omap obind]. rewrite type_of_ren. reflexivity.
    - (* arity *) apply pure_bi_Mfun. unfold bi_arity. rewrite arg_ren.
      destruct (arg args 0) as [a| | | |]; try reflexivity. cbn [omap obind]. rewrite fn_arity_ren.
      destruct (fn_arity a) as [[?|?|? ?]|]; reflexivity.
  Qed.
End Ops.
