(* AllValidBuiltins.v — the built-in hypothesis of AllValidEval.v discharged for the COMPLETE built-in set
   (EvalAll.builtin_all o with percentile's list-length guard: Valid.builtin_all_fit): after the arity check,
   on an argument vector of valid values and with a callback that neither panics nor returns an invalid value on
   valid arguments, no arm panics and the result is a valid value — for every oracle with oracle_valid o and
   oracle_display_safe o.
     never Panic  pure arms: C01_builtin_call_no_panic_all (AllNoPanic.v) — a pure arm does not look at its
                  callback — with its two side conditions DISCHARGED from validity (percentile: args_ok;
                  format: format_display_safe);  callback arms (map filter reduce every some sort_by group_by
                  count_by): by induction on their loops, the callback being applied to valid values only;
     valid result pure arms: AllValidPure.v;  the 17 oracle arms: a string / null / an oracle number;
                  callback arms: elements of the argument list, callback results, `idx as f64`, counts. *)
From Coq Require Import String Ascii List ZArith Bool Lia Floats.SpecFloat.
Require Import Blots.Num Blots.gen.Builtins Blots.Ast Blots.Value Blots.Outcome Blots.Binop
               Blots.Env Blots.Eval Blots.BuiltinsHof Blots.Program Blots.EvalInst Blots.EvalFull
               Blots.EvalAll Blots.BuiltinsList Blots.BuiltinsAgg Blots.BuiltinsText Blots.Valid
               Blots.proofs.NoPanic Blots.proofs.AggPanics Blots.proofs.AllNoPanic
               Blots.proofs.AllValidNum Blots.proofs.AllValidEval Blots.proofs.AllValidOps
               Blots.proofs.AllValidPure.
Import ListNotations.
Open Scope list_scope.
Open Scope nat_scope.

(* ---------------- which arms take the callback ---------------- *)
Definition cb_arm (b : builtin) : bool :=
  match b with
  | B_map | B_filter | B_reduce | B_every | B_some | B_sort_by | B_group_by | B_count_by => true
  | _ => false
  end.
Definition cb0 : callback := fun _ _ _ st => (Err, st).
Lemma cb0_safe : cb_safe cb0. Proof. intros ? ? ? ?. discriminate. Qed.
Lemma pure_arm_indep : forall o b cb cb', cb_arm b = false -> builtin_all o cb b = builtin_all o cb' b.
Proof. intros o b cb cb' H. destruct b; try discriminate H; reflexivity. Qed.

(* ---------------- the side conditions of the per-call theorem, from validity ---------------- *)
Lemma nums_in_valid : forall v, valid_value v -> Forall valid_num (nums_in v).
Proof.
  induction v using ValueInd.value_ind'; intros Hv; cbn [nums_in]; try constructor; try exact Hv; try constructor.
  - (* list *)
    apply vv_list in Hv. induction H as [|x l Hx _ IH]; cbn [flat_map]; [constructor|].
    inversion Hv; subst. apply Forall_app. split; [apply Hx; assumption|apply IH; assumption].
  - (* record *)
    apply closed_VRec with (st := []) in Hv. unfold closed_frame, closed_value in Hv.
    induction H as [|kv l Hx _ IH]; cbn [flat_map]; [constructor|].
    inversion Hv; subst. apply Forall_app. split; [apply Hx; assumption|apply IH; assumption].
  - (* spread *) apply IHv. exact Hv.
Qed.

Lemma format_safe_of_valid : forall o args, oracle_display_safe o -> valid_values args -> format_display_safe o args.
Proof.
  intros o args Hd Hv. unfold format_display_safe. apply mapM_np. intros v Hin.
  assert (Hvv : valid_value v).
  { eapply vvs_in; [exact Hv|]. destruct args; [destruct Hin|right; exact Hin]. }
  unfold stringify_display_all. destruct (display_panics o v) eqn:E; [exfalso|discriminate].
  unfold display_panics in E. apply existsb_exists in E. destruct E as [x [Hx Hpx]].
  pose proof (nums_in_valid v Hvv) as Hn. rewrite Forall_forall in Hn.
  specialize (Hd x (Hn x Hx)). destruct (display_text o x); try discriminate Hpx. apply Hd. reflexivity.
Qed.

Lemma args_ok_of_valid : forall args, valid_values args -> percentile_fits args = true -> args_ok args.
Proof.
  intros args Hv Hf vs p ->. cbn [percentile_fits] in Hf. apply Z.leb_le in Hf.
  split; [|exact Hf]. apply vvs_cons in Hv. destruct Hv as [_ Hv]. apply vvs_cons in Hv. exact (proj1 Hv).
Qed.

(* ---------------- pure arms: never Panic ---------------- *)
Lemma pure_arm_np : forall o b cb args st, cb_arm b = false ->
  oracle_display_safe o -> can_accept (builtin_arity b) (Datatypes.length args) = true ->
  valid_values args -> (b = B_percentile -> percentile_fits args = true) ->
  fst (builtin_all o cb b args st) <> Panic.
Proof.
  intros o b cb args st Hp Hd Ha Hv Hf. rewrite (pure_arm_indep o b cb cb0 Hp).
  apply builtin_all_no_panic; [exact cb0_safe|exact Ha| |].
  - intros E. apply args_ok_of_valid; [exact Hv|exact (Hf E)].
  - intros _. apply format_safe_of_valid; assumption.
Qed.

(* ---------------- the callback arms ---------------- *)
Section Hof.
  Variable call : callback.
  Hypothesis Hc : vcb call.

  Lemma call_v : forall f args st, valid_value f -> valid_values args -> vresP valid_value (fst (call f f args st)).
  Proof. intros f args st Hf Ha. apply Hc; assumption. Qed.
  Lemma idx_num_v : forall i, valid_value (idx_num i).
  Proof. intros i. apply num_of_Z_valid. Qed.
  Lemma cb_args_v : forall two x i, valid_value x -> valid_values (cb_args two x i).
  Proof.
    intros two x i Hx. unfold cb_args. destruct two; repeat (apply vvs_cons; split); auto using idx_num_v; reflexivity.
  Qed.

  Ltac callcase f a st y st1 Hy :=
    let C := fresh "C" in
    pose proof (call_v f a st) as C;
    destruct (call f f a st) as [[y| | | |] st1]; cbn [fst cast_fail] in *;
    [ assert (Hy : valid_value y) by (apply C; [assumption|auto using cb_args_v|reflexivity])
    | try (split; [discriminate|intros ? HH; discriminate HH])
    | try (split; [discriminate|intros ? HH; discriminate HH])
    | exfalso; apply C; [assumption|auto using cb_args_v|reflexivity]
    | try (split; [discriminate|intros ? HH; discriminate HH]) ].

  Lemma map_loop_v : forall f two l i st, valid_value f -> valid_values l ->
    vresP valid_values (fst (map_loop call f two l i st)).
  Proof.
    intros f two l. induction l as [|x r IH]; intros i st Hf Hl; cbn [map_loop]; [vok; reflexivity|].
    apply vvs_cons in Hl. destruct Hl as [Hx Hr].
    callcase f (cb_args two x i) st y st1 Hy.
    specialize (IH (S i) st1 Hf Hr). destruct (map_loop call f two r (S i) st1) as [[ys| | | |] st2];
      cbn [fst] in *; try exact IH.
    vok. apply vvs_cons. split; [exact Hy|apply IH; reflexivity].
  Qed.
  Lemma filter_loop_v : forall f two l i st, valid_value f -> valid_values l ->
    vresP valid_values (fst (filter_loop call f two l i st)).
  Proof.
    intros f two l. induction l as [|x r IH]; intros i st Hf Hl; cbn [filter_loop]; [vok; reflexivity|].
    apply vvs_cons in Hl. destruct Hl as [Hx Hr].
    callcase f (cb_args two x i) st y st1 Hy.
    destruct y; cbn [Binop.as_bool cast_fail fst]; try (split; [discriminate|intros ? HH; discriminate HH]).
    specialize (IH (S i) st1 Hf Hr). destruct (filter_loop call f two r (S i) st1) as [[ys| | | |] st2];
      cbn [fst] in *; try exact IH.
    vok. assert (Hys : valid_values ys) by (apply IH; reflexivity).
    destruct b; [apply vvs_cons; split; assumption|exact Hys].
  Qed.
  Lemma reduce_loop_v : forall f three l i acc st, valid_value f -> valid_values l -> valid_value acc ->
    vresP valid_value (fst (reduce_loop call f three l i acc st)).
  Proof.
    intros f three l. induction l as [|x r IH]; intros i acc st Hf Hl Hacc; cbn [reduce_loop]; [vok; exact Hacc|].
    apply vvs_cons in Hl. destruct Hl as [Hx Hr].
    assert (Ha : valid_values (if three then [acc; x; idx_num i] else [acc; x])).
    { destruct three; repeat (apply vvs_cons; split); auto using idx_num_v; reflexivity. }
    pose proof (call_v f _ st Hf Ha) as C.
    destruct (call f f (if three then [acc; x; idx_num i] else [acc; x]) st) as [[y| | | |] st1];
      cbn [fst] in *; try exact C.
    apply IH; [exact Hf|exact Hr|apply C; reflexivity].
  Qed.
  Lemma every_loop_v : forall f two l i st, valid_value f -> valid_values l ->
    vresP valid_value (fst (every_loop call f two l i st)).
  Proof.
    intros f two l. induction l as [|x r IH]; intros i st Hf Hl; cbn [every_loop]; [vok; reflexivity|].
    apply vvs_cons in Hl. destruct Hl as [Hx Hr].
    pose proof (call_v f _ st Hf (cb_args_v two x i Hx)) as C.
    destruct (call f f (cb_args two x i) st) as [[y| | | |] st1]; cbn [fst] in *; try exact C.
    destruct y; cbn [Binop.as_bool cast_fail fst]; try (split; [discriminate|intros ? HH; discriminate HH]).
    destruct b; [apply IH; assumption|vok; reflexivity].
  Qed.
  Lemma some_loop_v : forall f two l i st, valid_value f -> valid_values l ->
    vresP valid_value (fst (some_loop call f two l i st)).
  Proof.
    intros f two l. induction l as [|x r IH]; intros i st Hf Hl; cbn [some_loop]; [vok; reflexivity|].
    apply vvs_cons in Hl. destruct Hl as [Hx Hr].
    pose proof (call_v f _ st Hf (cb_args_v two x i Hx)) as C.
    destruct (call f f (cb_args two x i) st) as [[y| | | |] st1]; cbn [fst] in *; try exact C.
    destruct y; cbn [Binop.as_bool cast_fail fst]; try (split; [discriminate|intros ? HH; discriminate HH]).
    destruct b; [vok; reflexivity|apply IH; assumption].
  Qed.

  Lemma harg_v : forall args i, valid_values args -> i < Datatypes.length args -> vresP valid_value (BuiltinsHof.arg args i).
  Proof.
    intros args i Hv Hi. unfold BuiltinsHof.arg. destruct (nth_error args i) eqn:E.
    - vok. eapply vvs_in; [exact Hv|eapply nth_error_In; eauto].
    - apply nth_error_None in E. lia.
  Qed.
  Lemma has_list_v : forall v, valid_value v -> vresP valid_values (BuiltinsHof.as_list v).
  Proof. intros v Hv. destruct v; try verr. vok. exact Hv. Qed.
  Lemma has_function_v : forall v, valid_value v -> vresP valid_value (as_function v).
  Proof. intros v Hv. unfold as_function. destruct (Eval.is_function v); [vok; exact Hv|verr]. Qed.

  Lemma hof_prelude_v : forall args, valid_values args -> 2 <= Datatypes.length args ->
    vresP (fun fl => valid_value (fst fl) /\ valid_values (snd fl)) (hof_prelude args).
  Proof.
    intros args Hv Hl. unfold hof_prelude.
    eapply obind_v; [apply harg_v; [exact Hv|lia]|]. intros f Hf.
    eapply obind_v; [apply harg_v; [exact Hv|lia]|]. intros l0 Hl0.
    eapply obind_v; [apply has_list_v; exact Hl0|]. intros l Hll.
    eapply obind_v; [apply has_function_v; exact Hf|]. intros f' Hf'. vok. split; assumption.
  Qed.

  Ltac prelude args Hv Hl f l Hf Hll :=
    let P := fresh "P" in
    pose proof (hof_prelude_v args Hv Hl) as P;
    destruct (hof_prelude args) as [[f l]| | | |]; cbn [cast_fail fst];
    [ destruct P as [_ P]; destruct (P _ eq_refl) as [Hf Hll]; cbn [fst snd] in Hf, Hll
    | verr | split; [discriminate|intros ? HH; discriminate HH]
    | exfalso; apply P; reflexivity | split; [discriminate|intros ? HH; discriminate HH] ].

  Lemma bi_map_v : forall args st, valid_values args -> 2 <= Datatypes.length args -> vresP valid_value (fst (bi_map call args st)).
  Proof.
    intros args st Hv Hl. unfold bi_map. prelude args Hv Hl f l Hf Hll.
    pose proof (map_loop_v f (accepts f 2) l 0 st Hf Hll) as M.
    destruct (map_loop call f (accepts f 2) l 0 st) as [r st']. cbn [fst] in *.
    eapply omap_v; [exact M|]. intros ys Hys. exact Hys.
  Qed.
  Lemma bi_filter_v : forall args st, valid_values args -> 2 <= Datatypes.length args -> vresP valid_value (fst (bi_filter call args st)).
  Proof.
    intros args st Hv Hl. unfold bi_filter. prelude args Hv Hl f l Hf Hll.
    pose proof (filter_loop_v f (accepts f 2) l 0 st Hf Hll) as M.
    destruct (filter_loop call f (accepts f 2) l 0 st) as [r st']. cbn [fst] in *.
    eapply omap_v; [exact M|]. intros ys Hys. exact Hys.
  Qed.
  Lemma bi_every_v : forall args st, valid_values args -> 2 <= Datatypes.length args -> vresP valid_value (fst (bi_every call args st)).
  Proof.
    intros args st Hv Hl. unfold bi_every. prelude args Hv Hl f l Hf Hll. apply every_loop_v; assumption.
  Qed.
  Lemma bi_some_v : forall args st, valid_values args -> 2 <= Datatypes.length args -> vresP valid_value (fst (bi_some call args st)).
  Proof.
    intros args st Hv Hl. unfold bi_some. prelude args Hv Hl f l Hf Hll. apply some_loop_v; assumption.
  Qed.
  Lemma bi_reduce_v : forall args st, valid_values args -> 3 <= Datatypes.length args -> vresP valid_value (fst (bi_reduce call args st)).
  Proof.
    intros args st Hv Hl. unfold bi_reduce.
    assert (P : vresP (fun t => valid_value (fst (fst t)) /\ valid_value (snd (fst t)) /\ valid_values (snd t))
                  (do f <- BuiltinsHof.arg args 1; do init <- BuiltinsHof.arg args 2; do l0 <- BuiltinsHof.arg args 0;
                   do l <- BuiltinsHof.as_list l0; do f' <- as_function f; Ok (f', init, l))).
    { eapply obind_v; [apply harg_v; [exact Hv|lia]|]. intros f Hf.
      eapply obind_v; [apply harg_v; [exact Hv|lia]|]. intros init Hi.
      eapply obind_v; [apply harg_v; [exact Hv|lia]|]. intros l0 Hl0.
      eapply obind_v; [apply has_list_v; exact Hl0|]. intros l Hll.
      eapply obind_v; [apply has_function_v; exact Hf|]. intros f' Hf'. vok. cbn [fst snd]. auto. }
    match goal with |- context [match ?X with Ok _ => _ | _ => _ end] => destruct X as [[[f init] l]| | | |] end;
      cbn [cast_fail fst];
      [|verr|split; [discriminate|intros ? HH; discriminate HH]|exfalso; apply P; reflexivity
       |split; [discriminate|intros ? HH; discriminate HH]].
    destruct P as [_ P]. destruct (P _ eq_refl) as (Hf & Hi & Hll). cbn [fst snd] in *.
    apply reduce_loop_v; assumption.
  Qed.
End Hof.

Section ByArms.
  Variable call : callback.
  Hypothesis Hc : vcb call.
  Let cv := call_v call Hc.

  Ltac nonpanic := split; [discriminate|intros ? HH; discriminate HH].

  Lemma sort_by_cmp_v : forall func a b st, valid_value func -> valid_value a -> valid_value b ->
    vresP (fun _ => True) (fst (sort_by_cmp store call func a b st)).
  Proof.
    intros func a b st Hf Ha Hb. unfold sort_by_cmp.
    match goal with |- context [if ?c then _ else _] => destruct c end; [|vok; exact I].
    pose proof (cv func [a] st Hf ltac:(apply vvs_cons; split; [exact Ha|reflexivity])) as C1.
    destruct (call func func [a] st) as [ra st1]. cbn [fst] in C1.
    destruct ra; cbn [fst]; try nonpanic; [|exfalso; apply C1; reflexivity].
    pose proof (cv func [b] st1 Hf ltac:(apply vvs_cons; split; [exact Hb|reflexivity])) as C2.
    destruct (call func func [b] st1) as [rb st2]. cbn [fst] in C2.
    destruct rb; cbn [fst]; try nonpanic; [vok; exact I|exfalso; apply C2; reflexivity].
  Qed.

  Lemma omap_cons_v : forall x (r : outcome (list value)), valid_value x -> vresP valid_values r ->
    vresP valid_values (omap (cons x) r).
  Proof. intros x r Hx Hr. eapply omap_v; [exact Hr|]. intros l Hl. apply vvs_cons. split; assumption. Qed.

  Lemma merge_by_v : forall func left right st, valid_value func -> valid_values left -> valid_values right ->
    vresP valid_values (fst (merge_by store call func left right st)).
  Proof.
    intros func left. induction left as [|a left' IHl]; intros right st Hf Hl Hr.
    - destruct right; cbn; vok; assumption.
    - apply vvs_cons in Hl. destruct Hl as [Ha Hl'].
      induction right as [|b right' IHr] in st, Hr |- *; [cbn; vok; apply vvs_cons; split; assumption|].
      apply vvs_cons in Hr. destruct Hr as [Hb Hr'].
      cbn [merge_by].
      pose proof (sort_by_cmp_v func b a st Hf Hb Ha) as C.
      destruct (sort_by_cmp store call func b a st) as [c st1]. cbn [fst] in C.
      destruct c as [[]| | | |]; cbn [fst]; try nonpanic; try (exfalso; apply C; reflexivity).
      + specialize (IHl (b :: right') st1 Hf Hl' ltac:(apply vvs_cons; split; assumption)).
        destruct (merge_by store call func left' (b :: right') st1) as [res st2].
        cbn [fst] in *. apply omap_cons_v; assumption.
      + specialize (IHr st1 Hr'). cbn [merge_by] in IHr.
        match goal with |- context [(fix merge_right (r : list value) (s : store) {struct r} := _) right' st1] =>
          destruct ((fix merge_right (r : list value) (s : store) {struct r} := _) right' st1) as [res st2] end.
        cbn [fst] in *. apply omap_cons_v; assumption.
      + specialize (IHl (b :: right') st1 Hf Hl' ltac:(apply vvs_cons; split; assumption)).
        destruct (merge_by store call func left' (b :: right') st1) as [res st2].
        cbn [fst] in *. apply omap_cons_v; assumption.
  Qed.

  Lemma vvs_firstn : forall n l, valid_values l -> valid_values (firstn n l).
  Proof. intros n l H. eapply vvs_incl; [exact H|]. intros v Hv. rewrite <- (firstn_skipn n l). apply in_or_app. left. exact Hv. Qed.
  Lemma vvs_skipn : forall n l, valid_values l -> valid_values (skipn n l).
  Proof. intros n l H. eapply vvs_incl; [exact H|]. intros v Hv. rewrite <- (firstn_skipn n l). apply in_or_app. right. exact Hv. Qed.

  Lemma merge_sort_by_fuel_v : forall fuel func l st, valid_value func -> valid_values l ->
    vresP valid_values (fst (merge_sort_by_fuel store call fuel func l st)).
  Proof.
    induction fuel as [|f IH]; intros func l st Hf Hl; cbn [merge_sort_by_fuel]; [vok; exact Hl|].
    destruct (Datatypes.length l <? 2); [vok; exact Hl|].
    pose proof (IH func (firstn (Datatypes.length l / 2) l) st Hf (vvs_firstn _ _ Hl)) as H1.
    destruct (merge_sort_by_fuel store call f func (firstn (Datatypes.length l / 2) l) st) as [sl st1].
    cbn [fst] in H1. destruct sl as [left'| | | |]; cbn [fst]; try nonpanic; try (exfalso; apply H1; reflexivity).
    pose proof (IH func (skipn (Datatypes.length l / 2) l) st1 Hf (vvs_skipn _ _ Hl)) as H2.
    destruct (merge_sort_by_fuel store call f func (skipn (Datatypes.length l / 2) l) st1) as [sr st2].
    cbn [fst] in H2. destruct sr as [right'| | | |]; cbn [fst]; try nonpanic; try (exfalso; apply H2; reflexivity).
    apply merge_by_v; [exact Hf|apply H1; reflexivity|apply H2; reflexivity].
  Qed.

  Lemma barg_v : forall args i, valid_values args -> i < Datatypes.length args -> vresP valid_value (BuiltinsList.arg args i).
  Proof.
    intros args i Hv Hi. unfold BuiltinsList.arg. destruct (nth_error args i) eqn:E.
    - vok. eapply vvs_in; [exact Hv|eapply nth_error_In; eauto].
    - apply nth_error_None in E. lia.
  Qed.
  Lemma blist_v : forall v, valid_value v -> vresP valid_values (BuiltinsList.as_list v).
  Proof. intros v Hv. destruct v; try verr. vok. exact Hv. Qed.

  Lemma bi_sort_by_v : forall args st, valid_values args -> 2 <= Datatypes.length args ->
    vresP valid_value (fst (bi_sort_by store call args st)).
  Proof.
    intros args st Hv Hl. unfold bi_sort_by.
    assert (H1 : exists func, BuiltinsList.arg args 1 = Ok func /\ valid_value func).
    { unfold BuiltinsList.arg. destruct (nth_error args 1) eqn:E1.
      - eexists; split; [reflexivity|eapply vvs_in; [exact Hv|eapply nth_error_In; eauto]].
      - apply nth_error_None in E1. lia. }
    destruct H1 as [func [H1 Hf]]. rewrite H1.
    assert (A0 : vresP valid_values (obind (BuiltinsList.arg args 0) BuiltinsList.as_list)).
    { eapply obind_v; [apply barg_v; [exact Hv|lia]|]. intros a0 Ha0. apply blist_v. exact Ha0. }
    destruct (obind (BuiltinsList.arg args 0) BuiltinsList.as_list) as [l| | | |]; cbn [fst];
      try nonpanic; try (exfalso; apply A0; reflexivity).
    pose proof (merge_sort_by_fuel_v (Datatypes.length l) func l st Hf ltac:(apply A0; reflexivity)) as S.
    unfold sort_by_list. destruct (merge_sort_by_fuel store call (Datatypes.length l) func l st) as [res st1].
    cbn [fst] in *. eapply omap_v; [exact S|]. intros ys Hys. exact Hys.
  Qed.

  Lemma keyed_items_v : forall func l st, valid_value func -> valid_values l ->
    vresP (fun k => valid_frame k) (fst (keyed_items store call func l st)).
  Proof.
    intros func l. induction l as [|item rest IH]; intros st Hf Hl; cbn [keyed_items]; [vok; reflexivity|].
    apply vvs_cons in Hl. destruct Hl as [Hi Hr].
    pose proof (cv func [item] st Hf ltac:(apply vvs_cons; split; [exact Hi|reflexivity])) as C.
    destruct (call func func [item] st) as [k st1]. cbn [fst] in C.
    destruct k as [v| | | |]; cbn [fst]; try nonpanic; try (exfalso; apply C; reflexivity).
    destruct v; cbn [fst]; try nonpanic.
    specialize (IH st1 Hf Hr). destruct (keyed_items store call func rest st1) as [more st2].
    cbn [fst] in *. eapply omap_v; [exact IH|]. intros k Hk. apply vf_cons. split; assumption.
  Qed.

  Lemma by_prologue_v : forall args, valid_values args -> 2 <= Datatypes.length args ->
    vresP (fun fl => valid_value (fst fl) /\ valid_values (snd fl)) (by_prologue args).
  Proof.
    intros args Hv Hl. unfold by_prologue.
    eapply obind_v; [apply barg_v; [exact Hv|lia]|]. intros f Hf.
    eapply obind_v; [apply barg_v; [exact Hv|lia]|]. intros a0 Ha0.
    eapply obind_v; [apply blist_v; exact Ha0|]. intros l Hll.
    match goal with |- context [if ?c then _ else _] => destruct c end; [vok; split; assumption|verr].
  Qed.

  (* groups: every item of every group is an item of the keyed list *)
  Definition groups_valid (g : list (string * list value)) : Prop := Forall (fun kg => valid_values (snd kg)) g.
  Lemma group_push_valid : forall g key item, groups_valid g -> valid_value item -> groups_valid (group_push g key item).
  Proof.
    induction g as [|[k items] rest IH]; intros key item Hg Hi; cbn [group_push].
    - constructor; [cbn [snd]; apply vvs_cons; split; [exact Hi|reflexivity]|constructor].
    - inversion Hg; subst. destruct (String.eqb key k).
      + constructor; [cbn [snd] in *; apply vvs_app; split; [assumption|apply vvs_cons; split; [exact Hi|reflexivity]]|assumption].
      + constructor; [assumption|apply IH; assumption].
  Qed.
  Lemma groups_of_valid : forall keyed, valid_frame keyed -> groups_valid (groups_of keyed).
  Proof.
    intros keyed. unfold groups_of.
    assert (G : forall keyed acc, valid_frame keyed -> groups_valid acc ->
                groups_valid (fold_left (fun groups kv => group_push groups (fst kv) (snd kv)) keyed acc)).
    { clear keyed. induction keyed as [|[k v] r IH]; intros acc Hk Ha; cbn [fold_left]; [exact Ha|].
      apply vf_cons in Hk. destruct Hk as [Hv Hr]. apply IH; [exact Hr|apply group_push_valid; assumption]. }
    intros Hk. apply G; [exact Hk|constructor].
  Qed.
  Definition counts_valid (c : list (string * num)) : Prop := Forall (fun kc => valid_num (snd kc)) c.
  Lemma count_push_valid : forall c key, counts_valid c -> counts_valid (count_push c key).
  Proof.
    induction c as [|[k n] rest IH]; intros key Hc0; cbn [count_push].
    - constructor; [cbn [snd]; apply nadd_valid; [reflexivity|apply one_valid]|constructor].
    - inversion Hc0; subst. destruct (String.eqb key k).
      + constructor; [cbn [snd] in *; apply nadd_valid; [assumption|apply one_valid]|assumption].
      + constructor; [assumption|apply IH; assumption].
  Qed.
  Lemma counts_of_valid : forall keyed, counts_valid (counts_of keyed).
  Proof.
    intros keyed. unfold counts_of.
    assert (G : forall (keyed : list (string * value)) acc, counts_valid acc ->
                counts_valid (fold_left (fun counts kv => count_push counts (fst kv)) keyed acc)).
    { clear keyed. induction keyed as [|kv r IH]; intros acc Ha; cbn [fold_left]; [exact Ha|].
      apply IH. apply count_push_valid. exact Ha. }
    apply G. constructor.
  Qed.

  Lemma bi_group_by_v : forall args st, valid_values args -> 2 <= Datatypes.length args ->
    vresP valid_value (fst (bi_group_by store call args st)).
  Proof.
    intros args st Hv Hl. unfold bi_group_by.
    pose proof (by_prologue_v args Hv Hl) as P.
    destruct (by_prologue args) as [[func l]| | | |]; cbn [fst]; try nonpanic; try (exfalso; apply P; reflexivity).
    destruct P as [_ P]. destruct (P _ eq_refl) as [Hf Hll]. cbn [fst snd] in *.
    pose proof (keyed_items_v func l st Hf Hll) as K.
    destruct (keyed_items store call func l st) as [keyed st1]. cbn [fst] in *.
    eapply omap_v; [exact K|]. intros k Hk. apply vv_rec. apply vf_of_in. intros kv Hin.
    apply in_map_iff in Hin. destruct Hin as [g [<- Hg]]. cbn [snd].
    pose proof (groups_of_valid k Hk) as G. unfold groups_valid in G. rewrite Forall_forall in G. exact (G g Hg).
  Qed.
  Lemma bi_count_by_v : forall args st, valid_values args -> 2 <= Datatypes.length args ->
    vresP valid_value (fst (bi_count_by store call args st)).
  Proof.
    intros args st Hv Hl. unfold bi_count_by.
    pose proof (by_prologue_v args Hv Hl) as P.
    destruct (by_prologue args) as [[func l]| | | |]; cbn [fst]; try nonpanic; try (exfalso; apply P; reflexivity).
    destruct P as [_ P]. destruct (P _ eq_refl) as [Hf Hll]. cbn [fst snd] in *.
    pose proof (keyed_items_v func l st Hf Hll) as K.
    destruct (keyed_items store call func l st) as [keyed st1]. cbn [fst] in *.
    eapply omap_v; [exact K|]. intros k Hk. apply vv_rec. apply vf_of_in. intros kv Hin.
    apply in_map_iff in Hin. destruct Hin as [c [<- Hcin]]. cbn [snd].
    pose proof (counts_of_valid k) as G. unfold counts_valid in G. rewrite Forall_forall in G. exact (G c Hcin).
  Qed.
End ByArms.

(* ---------------- the simple arms of EvalInst.builtin_impl and the 17 oracle arms: results ---------------- *)
Lemma obind_ok3 : forall {A B} (m : outcome A) (f : A -> outcome B) v,
  obind m f = Ok v -> exists a, m = Ok a /\ f a = Ok v.
Proof. intros A B m f v H. destruct m; try discriminate H. eexists; split; [reflexivity|exact H]. Qed.
Ltac ob3 H x := apply obind_ok3 in H; destruct H as [x [_ H]].
Ltac ob3k H x Hx := apply obind_ok3 in H; destruct H as [x [Hx H]].

Lemma harg_in : forall args i a, valid_values args -> BuiltinsHof.arg args i = Ok a -> valid_value a.
Proof.
  intros args i a Hv E. unfold BuiltinsHof.arg in E. destruct (nth_error args i) eqn:En; inversion E; subst.
  eapply vvs_in; [exact Hv|eapply nth_error_In; eauto].
Qed.
Lemma num1_valid : forall f args v, (forall x, valid_num x -> valid_num (f x)) -> valid_values args ->
  num1 f args = Ok v -> valid_value v.
Proof.
  intros f args v Hf Hv E. unfold num1 in E. ob3k E a Ha. pose proof (harg_in _ _ _ Hv Ha) as Hva.
  destruct a; cbn [Binop.as_number obind] in E; try discriminate E. injection E as <-. apply Hf. exact Hva.
Qed.

Theorem builtin_all_fit_valid : forall o, oracle_valid o -> oracle_display_safe o ->
  forall cb b args st, vcb cb -> can_accept (builtin_arity b) (Datatypes.length args) = true ->
  valid_values args -> vres (fst (builtin_all_fit o cb b args st)).
Proof.
  intros o Ho Hd cb b args st Hcb Ha Hv.
  destruct (cb_arm b) eqn:Harm.
  - (* the callback arms *)
    destruct b; try discriminate Harm; cbn [builtin_all_fit builtin_all builtin_full builtin_impl];
      arity_facts Ha.
    all: (first [apply bi_map_v|apply bi_filter_v|apply bi_reduce_v|apply bi_every_v|apply bi_some_v
                |apply bi_sort_by_v|apply bi_group_by_v|apply bi_count_by_v]; [exact Hcb|exact Hv|lia]).
  - split.
    + (* never Panic: the per-call theorem, side conditions from validity *)
      destruct (percentile_fits args) eqn:Hfit.
      * assert (E : builtin_all_fit o cb b args st = builtin_all o cb b args st).
        { unfold builtin_all_fit. destruct b; try reflexivity. rewrite Hfit. reflexivity. }
        rewrite E. apply pure_arm_np; auto.
      * destruct b; try (unfold builtin_all_fit; apply pure_arm_np; auto; intros; discriminate).
        unfold builtin_all_fit. rewrite Hfit. discriminate.
    + (* the result *)
      intros v E.
      assert (Hc : closed_list st args) by (apply closed_list_vvs; exact Hv).
      destruct b; try discriminate Harm;
        cbn [builtin_all_fit builtin_all builtin_full builtin_impl pure_bi fst] in E;
        try (destruct (percentile_fits args); [|discriminate E]; cbn [pure_bi fst] in E);
        first
        [ (* libm through the oracle *)
          eapply num1_valid; [|exact Hv|exact E]; first [exact (ov_sin o Ho)|exact (ov_cos o Ho)|exact (ov_tan o Ho)
            |exact (ov_asin o Ho)|exact (ov_acos o Ho)|exact (ov_atan o Ho)|exact (ov_ln o Ho)|exact (ov_log10 o Ho)
            |exact (ov_exp o Ho)|exact nabs_valid|exact nfloor_valid|exact nceil_valid|exact ntrunc_valid|exact nsqrt_valid]
        | eapply (bi_min_closed st); [exact Hc|exact E] | eapply (bi_max_closed st); [exact Hc|exact E]
        | eapply (bi_avg_closed st); [exact Hc|exact E] | eapply (bi_sum_closed st); [exact Hc|exact E]
        | eapply (bi_prod_closed st); [exact Hc|exact E] | eapply (bi_median_closed st); [exact Hc|exact E]
        | eapply (bi_percentile_closed st); [exact Hc|exact E] | eapply (bi_dot_closed st); [exact Hc|exact E]
        | eapply (bi_range_closed st); exact E | eapply (bi_len_closed st); exact E
        | eapply (bi_head_closed st); [exact Hc|exact E] | eapply (bi_tail_closed st); [exact Hc|exact E]
        | eapply (bi_slice_closed st); [exact Hc|exact E] | eapply (bi_concat_closed st); [exact Hc|exact E]
        | eapply (bi_unique_closed st); [exact Hc|exact E] | eapply (bi_sort_closed st); [exact Hc|exact E]
        | eapply (bi_reverse_closed st); [exact Hc|exact E] | eapply (bi_split_closed st); exact E
        | eapply (bi_replace_closed st); exact E | eapply (bi_includes_closed st); exact E
        | eapply (bi_keys_closed st); exact E | eapply (bi_values_closed st); [exact Hc|exact E]
        | eapply (bi_entries_closed st); [exact Hc|exact E] | eapply (bi_flatten_closed st); [exact Hc|exact E]
        | eapply (bi_zip_closed st); [exact Hc|exact E] | eapply (bi_chunk_closed st); [exact Hc|exact E]
        | eapply (bi_convert_closed st); [exact Hc|exact E] | eapply (bi_round_closed st); [exact Hc|exact E]
        | eapply (bi_random_closed st); exact E | eapply (bi_to_number_closed st); [exact Hc|exact E]
        | idtac ].
      all: try (unfold bi_typeof in E; ob3 E a; injection E as <-; reflexivity).
      all: try (unfold bi_arity in E; ob3 E a; destruct (fn_arity a) as [[n|n|n m]|]; try discriminate E;
                injection E as <-; apply num_of_Z_valid).
      all: try (unfold bi_to_bool in E; ob3k E a Hga; pose proof (harg_in _ _ _ Hv Hga);
                destruct a; try discriminate E; injection E as <-; first [assumption|reflexivity]).
      all: try (unfold bi_ugt, bi_ult, bi_ugte, bi_ulte, cmp2 in E; ob3 E a; ob3 E c; injection E as <-; reflexivity).
      all: try (unfold BuiltinsHof.bi_any, BuiltinsHof.bi_all in E; ob3 E a; ob3 E l; injection E as <-; reflexivity).
      all: try (unfold bi_trim, bi_uppercase, bi_lowercase in E; ob3 E a; ob3 E x; injection E as <-; reflexivity).
      all: try (unfold bi_join_all in E; ob3 E a1; ob3 E d; ob3 E a0; ob3 E l; injection E as <-; reflexivity).
      all: try (unfold bi_to_string_all in E; ob3k E a Hga; pose proof (harg_in _ _ _ Hv Hga);
                destruct a; injection E as <-; first [assumption|reflexivity]).
      all: try (unfold bi_format in E; ob3 E a0; ob3 E f; ob3 E rest; ob3 E fa; ob3 E s; injection E as <-; reflexivity).
      all: try (unfold bi_print in E; ob3 E l; injection E as <-; reflexivity).
      all: try (unfold bi_time_now in E; injection E as <-; exact (ov_now o Ho)).
Qed.
