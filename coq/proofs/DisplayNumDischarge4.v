(* DisplayNumDischarge4.v — C20: the accuracy clause for the EXECUTABLE library models.
   display_accurate (proofs/DisplayNumAccAll.v) with the {:.14e} specification asked of valid
   doubles only, instantiated with fmt_prec_exec / fmt_exp14_exec / parse_f64_exec / powi_exec,
   whose specifications are now theorems (DisplayNumDischarge1/2, DisplayNumExec).  The only
   hypothesis left is the sanity of libm's log10 (floor(log10 a) is the decimal exponent of a
   or one more). *)
From Coq Require Import ZArith Reals Bool String Ascii List Lia Lra QArith Qreals Qabs Qpower Floats.SpecFloat.
From Flocq Require Import Core.Core IEEE754.BinarySingleNaN.
Require Import Blots.Num Blots.Outcome Blots.DisplayNum.
Require Import Blots.proofs.DisplayNumGroup Blots.proofs.DisplayNumSpec Blots.proofs.DisplayNumText
               Blots.proofs.DisplayNumInt Blots.proofs.DisplayNum Blots.proofs.DisplayNumAcc
               Blots.proofs.DisplayNumFloat Blots.proofs.DisplayNumFinite Blots.proofs.DisplayNumAccStd
               Blots.proofs.DisplayNumAccAll Blots.proofs.DisplayNumExec
               Blots.proofs.DisplayNumDischarge1 Blots.proofs.DisplayNumDischarge2
               Blots.proofs.DisplayNumDischarge3.
Import ListNotations.
Open Scope R_scope.

Section AllValid.
  Variable log10 : num -> num.
  Variable powi : num -> Z -> num.
  Variable fmt_prec : num -> Z -> text.
  Variable fmt_exp14 : num -> text.
  Variable parse_f64 : text -> option num.
  Notation est a := (as_i32 (nfloor (log10 a))).

  Hypothesis HE : forall x k, valid x -> Num.is_finite x = true -> in_decade x k ->
    exists ms es kk, split_once "e"%char (fmt_exp14 x) = Some (ms, es) /\ mant14_shape ms = true /\
      parse_i32 es = Some kk /\
      (Qabs (denote_plain ms * Qpower (10 # 1) kk - num_to_Q x) <= (1 # 2) * Qpower (10 # 1) (k - 14)%Z)%Q.
  Hypothesis HP : forall s, mant14_shape s = true ->
    exists m, parse_f64 s = Some m /\ Num.is_finite m = true /\
      (Qabs (num_to_Q m - denote_plain s) <= 2 # 1000000000000000)%Q.
  Hypothesis HL : forall a K, valid a -> Num.is_finite a = true ->
    p10 K <= RV a < p10 (K + 1) -> (K <= est a <= K + 1)%Z.
  Hypothesis HW0 : forall j, (0 <= j <= 22)%Z ->
    valid (powi c_ten j) /\ (exists s m e, powi c_ten j = S754_finite s m e) /\ RV (powi c_ten j) = p10 j.
  Hypothesis HWn : forall j, (-4 <= j <= -1)%Z ->
    valid (powi c_ten j) /\ (exists s m e, powi c_ten j = S754_finite s m e) /\
    RV (powi c_ten j) = rnd64 (p10 j) /\ p10 j <= RV (powi c_ten j).
  Hypothesis Hprec : forall x n, Num.is_finite x = true -> (0 <= n)%Z -> prec_shape n (fmt_prec x n) = true.
  Hypothesis HF : forall m dp, Num.is_finite m = true -> (0 <= dp <= 18)%Z ->
    Rabs (Q2R (denote_plain (fmt_prec m dp)) - RV m) <= / 2 * p10 (- dp).

  Lemma HF_Qv : forall m, Num.is_finite m = true ->
    prec_shape 14 (fmt_prec m 14) = true /\
    (Qabs (denote_plain (fmt_prec m 14) - num_to_Q m) <= 1 # 200000000000000)%Q.
  Proof.
    intros m Fm. split; [apply Hprec; [exact Fm|lia]|].
    apply Rle_Qle. rewrite Q2R_Qabs, Q2R_minus, Q2R_num.
    eapply Rle_trans; [apply (HF m 14 Fm); lia|].
    unfold Q2R. cbn [Qnum Qden]. change (p10 (- (14))) with (/ 100000000000000). lra.
  Qed.

  Theorem display_accurate_valid : forall x K t,
    valid x -> Num.is_finite x = true -> neqb x nzero = false ->
    p10 K <= Rabs (RV x) < p10 (K + 1) ->
    format_display_number log10 powi fmt_prec fmt_exp14 parse_f64 true x = Ok t ->
    Rabs (Q2R (denote t) - RV x) < p10 (K - 14).
  Proof.
    intros x K t Vx Fx Hz HA Ht.
    destruct (scientific_range (nabs x)) eqn:Hs.
    - (* scientific notation *)
      destruct (display_scientific_accurate_valid log10 powi fmt_prec fmt_exp14 parse_f64 true HE HP HF_Qv
                  x K Vx Fx Hz Hs (in_decade_of_R x K HA)) as (t' & Et & _ & Lt).
      rewrite Ht in Et. injection Et as <-.
      apply Qlt_Rlt in Lt. now rewrite Q2R_Qabs, Q2R_minus, Q2R_num, Q2R_p10 in Lt.
    - destruct (nfract_is_zero x) eqn:Hi.
      + (* integer: exact *)
        destruct x as [s|s| |s m e]; try discriminate Fx; try discriminate Hz.
        destruct (display_integers_exact log10 powi fmt_prec fmt_exp14 parse_f64 true s m e Vx Hs Hi)
          as (t' & Et & _ & V).
        rewrite Ht in Et. injection Et as <-.
        apply Qeq_eqR in V. rewrite V, Q2R_num.
        replace (RV (S754_finite s m e) - RV (S754_finite s m e)) with 0 by ring.
        rewrite Rabs_R0. apply p10_pos.
      + (* standard notation, non-integer *)
        assert (Hp : std_nonint_path x = true).
        { unfold std_nonint_path. rewrite Fx, Hz, Hs, Hi. reflexivity. }
        now destruct (display_standard_accurate' log10 powi fmt_prec fmt_exp14 parse_f64
                        HL HW0 HWn Hprec HF x K t Vx Hp HA Ht).
  Qed.
End AllValid.

(* ---- the accuracy clause with the executable library models; the only hypothesis is that
        floor(log10 a) is the decimal exponent of a or one more (log10_sane in Properties/C20.v) ---- *)
(* log10 is only ever applied to absolute values, so its sanity is needed on POSITIVE doubles only (the real
   f64::log10 returns NaN on negative arguments) *)
Theorem display_accurate_exec_pos : forall log10,
  (forall a k, valid_binary prec emax a = true -> nsign a = false -> in_decade a k ->
               (k <= as_i32 (nfloor (log10 a)) <= k + 1)%Z) ->
  forall x t, valid_binary prec emax x = true -> Num.is_finite x = true -> neqb x nzero = false ->
    format_display_number log10 powi_exec fmt_prec_exec fmt_exp14_exec parse_f64_exec true x = Ok t ->
    forall k, in_decade x k -> (Qabs (denote t - num_to_Q x) < Qpower (10 # 1) (k - 14)%Z)%Q.
Proof.
  intros log10 HL x t V F NZ Ht k Hk.
  apply Rlt_Qlt. rewrite Q2R_Qabs, Q2R_minus, Q2R_num, Q2R_p10.
  apply (display_accurate_valid log10 powi_exec fmt_prec_exec fmt_exp14_exec parse_f64_exec
           fmt_exp14_exec_correct parse_f64_exec_close); try assumption.
  - intros a K Va Fa HA. pose proof (p10_pos K) as PK. apply (HL a K Va).
    + apply RV_pos_nsign. lra.
    + apply in_decade_of_R. rewrite Rabs_pos_eq; [exact HA|lra].
  - exact powi_exec_exact.
  - exact powi_exec_neg.
  - exact fmt_prec_exec_shape.
  - intros m dp Fm Hd. apply fmt_prec_exec_accurate; [exact Fm|lia].
  - now apply in_decade_R.
Qed.

Theorem display_accurate_exec : forall log10,
  (forall a k, valid_binary prec emax a = true -> in_decade a k ->
               (k <= as_i32 (nfloor (log10 a)) <= k + 1)%Z) ->
  forall x t, valid_binary prec emax x = true -> Num.is_finite x = true -> neqb x nzero = false ->
    format_display_number log10 powi_exec fmt_prec_exec fmt_exp14_exec parse_f64_exec true x = Ok t ->
    forall k, in_decade x k -> (Qabs (denote t - num_to_Q x) < Qpower (10 # 1) (k - 14)%Z)%Q.
Proof. intros log10 HL. apply display_accurate_exec_pos. intros a k V _ D. exact (HL a k V D). Qed.
