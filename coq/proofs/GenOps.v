(* GenOps.v — ClosedOps.v once more, for an ARBITRARY predicate on values and an arbitrary preorder on
   stores: operators (Binop.v) and callback-taking built-ins (BuiltinsHof.v, the EvalInst dispatcher)
   treat their callback parametrically on values satisfying the predicate, provided the predicate holds of
   every atomic value, of a list exactly when it holds of its elements, and is kept along the preorder.
   ClosedOps.v is the instance (store_le, closed_value) used by C04; LfInst.v is the instance
   (the full relation, "contains no function") that discharges C05's hypothesis on the operator and
   built-in implementations.  The proofs are ClosedOps.v's, verbatim, inside a Section whose variables
   carry the names those proofs use. *)
From Coq Require Import String Ascii List ZArith Bool Lia.
Require Import Blots.Num Blots.gen.Builtins Blots.Ast Blots.Value Blots.Outcome Blots.Binop
               Blots.Env Blots.Eval Blots.BuiltinsHof Blots.Program Blots.EvalInst
               Blots.proofs.ValueInd.
Import ListNotations.
Open Scope list_scope.
Open Scope nat_scope.

Definition atomic (v : value) : Prop :=
  match v with VNum _ | VBool _ | VStr _ | VNull => True | _ => False end.

Section Abstract.
  Variable store_le : store -> store -> Prop.
  Hypothesis store_le_refl : forall s, store_le s s.
  Hypothesis store_le_trans : forall a b c, store_le a b -> store_le b c -> store_le a c.
  Variable closed_value : store -> value -> Prop.
  Definition closed_list (st : store) (l : list value) : Prop := Forall (closed_value st) l.
  Hypothesis closed_mono : forall v st st', store_le st st' -> closed_value st v -> closed_value st' v.
  Hypothesis closed_VList : forall st l, closed_value st (VList l) <-> closed_list st l.
  Hypothesis atomic_closed : forall st v, atomic v -> closed_value st v.

  Ltac triv := first [exact I | apply atomic_closed; exact I].

  Lemma closed_list_mono : forall l st st', store_le st st' -> closed_list st l -> closed_list st' l.
  Proof. intros l st st' Hle H. unfold closed_list in *. eapply Forall_impl; [|exact H]. intros a. apply closed_mono; exact Hle. Qed.

(* two callbacks agree on closed inputs; the first returns closed results and grows the store *)
Definition cb_agree (s0 : store) (cb1 cb2 : callback) : Prop :=
  forall this f args st, store_le s0 st ->
    closed_value st this -> closed_value st f -> closed_list st args ->
    cb1 this f args st = cb2 this f args st.
(* ... from every store above s0 (below s0 the values the callback closes over, e.g. the
   caller's `inputs`, need not be closed yet) *)
Definition cb_closed (s0 : store) (cb : callback) : Prop :=
  forall this f args st r st', store_le s0 st ->
    closed_value st this -> closed_value st f -> closed_list st args ->
    cb this f args st = (r, st') -> store_le st st' /\ (forall v, r = Ok v -> closed_value st' v).

Section Framework.
  Variable cb1 cb2 : callback.
  Variable s0 : store.
  Hypothesis Hag : cb_agree s0 cb1 cb2.
  Hypothesis Hcl : cb_closed s0 cb1.

  (* from every store above s: same computation, store grows, Ok results satisfy Q there *)
  Definition MIs {A} (s : store) (Q : store -> A -> Prop) (m1 m2 : M store A) : Prop :=
    forall st, store_le s st ->
      m1 st = m2 st /\
      (forall r st', m1 st = (r, st') -> store_le st st' /\ (forall a, r = Ok a -> Q st' a)).

  Definition monoQ {A} (Q : store -> A -> Prop) : Prop :=
    forall a st st', store_le st st' -> Q st a -> Q st' a.

  Lemma lift_MIs : forall A s (Q : store -> A -> Prop) (o : outcome A),
    (forall a st, store_le s st -> o = Ok a -> Q st a) -> MIs s Q (lift store o) (lift store o).
  Proof.
    intros A s Q o HQ st Hst. split; [reflexivity|]. intros r st' H. inversion H; subst.
    split; [apply store_le_refl|]. intros a Ha. apply HQ; auto.
  Qed.

  Lemma bindM_MIs : forall A B s (Q : store -> A -> Prop) (Q' : store -> B -> Prop)
                          (m1 m2 : M store A) (f1 f2 : A -> M store B),
    MIs s Q m1 m2 ->
    (forall a s1, store_le s s1 -> Q s1 a -> MIs s1 Q' (f1 a) (f2 a)) ->
    MIs s Q' (bindM store m1 f1) (bindM store m2 f2).
  Proof.
    intros A B s Q Q' m1 m2 f1 f2 Hm Hf st Hst. destruct (Hm st Hst) as [Heq Hpost].
    unfold bindM. rewrite <- Heq. destruct (m1 st) as [o st1] eqn:E.
    destruct (Hpost o st1 eq_refl) as [Hle HQ].
    destruct o; try (split; [reflexivity|intros r st' H; inversion H; subst; split; [exact Hle|intros ? Hx; discriminate Hx]]).
    assert (Hs1 : store_le s st1) by (eapply store_le_trans; eauto).
    destruct (Hf a st1 Hs1 (HQ a eq_refl) st1 (store_le_refl _)) as [Heq2 Hpost2].
    split; [exact Heq2|]. intros r st' H. destruct (Hpost2 r st' H) as [Hle2 HQ2].
    split; [eapply store_le_trans; eauto|exact HQ2].
  Qed.

  Lemma for_each_MIs : forall B s (Q : store -> B -> Prop) idxs (b1 b2 : nat -> M store B),
    monoQ Q ->
    (forall i s1, store_le s s1 -> MIs s1 Q (b1 i) (b2 i)) ->
    MIs s (fun st l => Forall (Q st) l) (for_each store idxs b1) (for_each store idxs b2).
  Proof.
    intros B s Q idxs b1 b2 HmQ Hb. revert s Hb. induction idxs as [|i r IH]; intros s Hb; cbn [for_each].
    - apply lift_MIs. intros a st _ Ha. inversion Ha; subst. constructor.
    - eapply bindM_MIs; [apply Hb; apply store_le_refl|].
      intros y s1 Hs1 Hy. eapply bindM_MIs.
      + apply IH. intros i0 s2 Hs2. apply Hb. eapply store_le_trans; eauto.
      + intros ys s2 Hs2 Hys. apply lift_MIs. intros a st Hst Ha. inversion Ha; subst.
        constructor.
        * eapply HmQ; [|exact Hy]. eapply store_le_trans; eauto.
        * eapply Forall_impl; [|exact Hys]. intros b Hb'. eapply HmQ; eauto.
  Qed.

  Definition Qc : store -> value -> Prop := closed_value.
  Lemma Qc_mono : monoQ Qc.
  Proof. intros a st st' Hle H. eapply closed_mono; eauto. Qed.

  Lemma call_fn_MIs : forall s f args,
    store_le s0 s -> closed_value s f -> closed_list s args ->
    MIs s Qc (call_fn store cb1 f args) (call_fn store cb2 f args).
  Proof.
    intros s f args Hs0 Hf Ha st Hst. unfold call_fn.
    assert (Hf' : closed_value st f) by (eapply closed_mono; eauto).
    assert (Ha' : closed_list st args) by (eapply closed_list_mono; eauto).
    assert (Hs0st : store_le s0 st) by (eapply store_le_trans; eauto).
    split; [apply Hag; assumption|].
    intros r st' H. eapply Hcl in H; eauto.
  Qed.
End Framework.

(* ---- closedness of purely computed results ---- *)
Lemma mapM_Forall : forall {A B} (P : B -> Prop) (f : A -> outcome B) l ys,
  (forall x y, In x l -> f x = Ok y -> P y) -> mapM f l = Ok ys -> Forall P ys.
Proof.
  intros A B P f l; induction l as [|x l IH]; intros ys Hf H; cbn [mapM] in H.
  - inversion H; constructor.
  - destruct (f x) eqn:E; try discriminate. cbn [obind] in H.
    destruct (mapM f l) eqn:E2; try discriminate. cbn [obind] in H. inversion H; subst.
    constructor; [eapply Hf; [left; reflexivity|exact E]|].
    apply IH; auto. intros x0 y Hin Hy. eapply Hf; [right; exact Hin|exact Hy].
Qed.
Lemma omap_VList_closed : forall st (o : outcome (list value)) a,
  (forall ys, o = Ok ys -> closed_list st ys) -> omap VList o = Ok a -> closed_value st a.
Proof.
  intros st o a H Ha. destruct o; try discriminate. cbn in Ha. inversion Ha; subst.
  apply closed_VList. apply H. reflexivity.
Qed.
Lemma num2_atomic : forall f a b y, num2 f a b = Ok y -> atomic y.
Proof. intros f a b y H. unfold num2 in H. destruct (as_number a); try discriminate. cbn [obind] in H.
  destruct (as_number b); try discriminate. inversion H; exact I. Qed.
Lemma and_q_atomic : forall a b y, and_q a b = Ok y -> atomic y.
Proof. intros a b y H. unfold and_q in H. destruct (as_bool a) as [[|]| | | |]; try discriminate; cbn [obind] in H.
  - destruct (as_bool b); try discriminate. inversion H; exact I.
  - inversion H; exact I. Qed.
Lemma or_q_atomic : forall a b y, or_q a b = Ok y -> atomic y.
Proof. intros a b y H. unfold or_q in H. destruct (as_bool a) as [[|]| | | |]; try discriminate; cbn [obind] in H.
  - inversion H; exact I.
  - destruct (as_bool b); try discriminate. inversion H; exact I. Qed.
Lemma add_match_atomic : forall a b y, add_match a b = Ok y -> atomic y.
Proof. intros a b y H. unfold add_match in H. destruct a; try discriminate; destruct b; try discriminate.
  - eapply num2_atomic; exact H.
  - cbn in H. inversion H; exact I. Qed.
Lemma check_ord_bool_atomic : forall o e y, (do r <- check_ord o e; Ok (VBool r)) = Ok y -> atomic y.
Proof. intros o e y H. destruct (check_ord o e); try discriminate. inversion H; exact I. Qed.
Lemma index_closed : forall st l i v, closed_list st l -> index l i = Ok v -> closed_value st v.
Proof.
  intros st l i v Hc H. unfold index in H. destruct (nth_error l i) eqn:E; inversion H; subst.
  unfold closed_list in Hc. rewrite Forall_forall in Hc. apply Hc. eapply nth_error_In; eauto.
Qed.
Lemma filter_some_closed : forall st (l : list (option value)),
  Forall (fun o => match o with Some v => closed_value st v | None => True end) l ->
  closed_list st (filter_some l).
Proof.
  intros st l H; induction H as [|o l Ho _ IH]; cbn [filter_some]; [constructor|].
  destruct o; [constructor; assumption|assumption].
Qed.

Section Arms.
  Variable cb1 cb2 : callback.
  Variable s0 : store.
  Hypothesis Hag : cb_agree s0 cb1 cb2.
  Hypothesis Hcl : cb_closed s0 cb1.
  Variable fa2 : value -> bool.
  Variable powf : num -> num -> num.

  (* the closedness obligations of purely computed results *)
  Ltac atom_goal H :=
    apply atomic_closed;
    first [ eapply num2_atomic; exact H | eapply and_q_atomic; exact H | eapply or_q_atomic; exact H
          | eapply check_ord_bool_atomic; exact H | eapply add_match_atomic; exact H
          | inversion H; exact I ].

  Lemma arm_scalar_MIs : forall s op l r,
    store_le s0 s -> closed_value s l -> closed_value s r ->
    MIs s Qc (arm_scalar store cb1 powf op l r) (arm_scalar store cb2 powf op l r).
  Proof.
    intros s op l r Hs0 Hl Hr. unfold arm_scalar.
    destruct op;
      try (apply lift_MIs; intros a st Hst Ha; atom_goal Ha).
    - (* Add *) destruct (is_string l); apply lift_MIs; intros a st Hst Ha.
      + apply atomic_closed. destruct (as_string l); try discriminate. cbn [obind] in Ha.
        destruct (as_string r); try discriminate. inversion Ha; exact I.
      + atom_goal Ha.
    - (* Via *) destruct (negb (is_callable r)); [apply lift_MIs; intros a st Hst Ha; discriminate|].
      apply (call_fn_MIs cb1 cb2 s0 Hag Hcl); auto. constructor; [exact Hl|constructor].
    - (* Into *) destruct (negb (is_callable r)); [apply lift_MIs; intros a st Hst Ha; discriminate|].
      apply (call_fn_MIs cb1 cb2 s0 Hag Hcl); auto. constructor; [exact Hl|constructor].
    - (* Coalesce *) apply lift_MIs; intros a st Hst Ha. inversion Ha; subst.
      destruct (is_null l); eapply closed_mono; eauto.
  Qed.

  Ltac pure_list Ha :=
    eapply omap_VList_closed; [|exact Ha];
    let ys := fresh "ys" in let Hys := fresh "Hys" in intros ys Hys;
    eapply mapM_Forall; [|exact Hys];
    let x := fresh "x" in let y := fresh "y" in let Hin := fresh "Hin" in let Hy := fresh "Hy" in
    intros x y Hin Hy; cbv beta in Hy.

  Lemma arm_list_scalar_MIs : forall s op b l sc,
    store_le s0 s -> closed_list s l -> closed_value s sc ->
    MIs s Qc (arm_list_scalar store cb1 fa2 powf op b l sc) (arm_list_scalar store cb2 fa2 powf op b l sc).
  Proof.
    intros s op b l sc Hs0 Hl Hsc. unfold arm_list_scalar.
    destruct op.
    - (* Add *) apply lift_MIs; intros a st Hst Ha. pure_list Ha.
      destruct (index l x) eqn:Ei; try rewrite Ei in Hy; try discriminate. cbn [obind] in Hy.
      destruct b; atom_goal Hy.
    - apply lift_MIs; intros a st Hst Ha. pure_list Ha. destruct b; atom_goal Hy.
    - apply lift_MIs; intros a st Hst Ha. pure_list Ha. atom_goal Hy.
    - apply lift_MIs; intros a st Hst Ha. pure_list Ha. destruct b; atom_goal Hy.
    - apply lift_MIs; intros a st Hst Ha. pure_list Ha. destruct b; atom_goal Hy.
    - apply lift_MIs; intros a st Hst Ha. pure_list Ha. destruct b; atom_goal Hy.
    - apply lift_MIs; intros a st Hst Ha. pure_list Ha. atom_goal Hy.
    - apply lift_MIs; intros a st Hst Ha. pure_list Ha. atom_goal Hy.
    - apply lift_MIs; intros a st Hst Ha. cbn [expected_of obind] in Ha. pure_list Ha. destruct b; atom_goal Hy.
    - apply lift_MIs; intros a st Hst Ha. cbn [expected_of obind] in Ha. pure_list Ha. destruct b; atom_goal Hy.
    - apply lift_MIs; intros a st Hst Ha. cbn [expected_of obind] in Ha. pure_list Ha. destruct b; atom_goal Hy.
    - apply lift_MIs; intros a st Hst Ha. cbn [expected_of obind] in Ha. pure_list Ha. destruct b; atom_goal Hy.
    - apply lift_MIs; intros a st Hst Ha; discriminate.
    - apply lift_MIs; intros a st Hst Ha; discriminate.
    - apply lift_MIs; intros a st Hst Ha; discriminate.
    - apply lift_MIs; intros a st Hst Ha; discriminate.
    - apply lift_MIs; intros a st Hst Ha; discriminate.
    - apply lift_MIs; intros a st Hst Ha; discriminate.
    - (* And *) apply lift_MIs; intros a st Hst Ha. destruct b; pure_list Ha; atom_goal Hy.
    - apply lift_MIs; intros a st Hst Ha. destruct b; pure_list Ha; atom_goal Hy.
    - apply lift_MIs; intros a st Hst Ha. destruct b; pure_list Ha; atom_goal Hy.
    - apply lift_MIs; intros a st Hst Ha. destruct b; pure_list Ha; atom_goal Hy.
    - (* Via *)
      destruct b; [|apply lift_MIs; intros a st Hst Ha; discriminate].
      destruct (negb (is_callable sc)); [apply lift_MIs; intros a st Hst Ha; discriminate|].
      eapply bindM_MIs.
      + apply for_each_MIs; [apply Qc_mono|]. intros i s1 Hs1.
        eapply bindM_MIs with (Q := fun st v => closed_value st v).
        * apply lift_MIs. intros a st Hst Ha. eapply index_closed; [|exact Ha].
          eapply closed_list_mono; [|exact Hl]. eapply store_le_trans; eauto.
        * intros a s2 Hs2 Ha. apply (call_fn_MIs cb1 cb2 s0 Hag Hcl).
          -- eapply store_le_trans; [exact Hs0|]. eapply store_le_trans; eauto.
          -- eapply closed_mono; [|exact Hsc]. eapply store_le_trans; eauto.
          -- destruct (fa2 sc); repeat (first [constructor | apply atomic_closed; exact I]); auto.
      + intros mapped s1 Hs1 Hm. apply lift_MIs. intros a st Hst Ha. inversion Ha; subst.
        apply closed_VList. eapply closed_list_mono; [exact Hst|exact Hm].
    - (* Into *)
      destruct b; [|apply lift_MIs; intros a st Hst Ha; discriminate].
      destruct (negb (is_callable sc)); [apply lift_MIs; intros a st Hst Ha; discriminate|].
      apply (call_fn_MIs cb1 cb2 s0 Hag Hcl); auto. constructor; [apply closed_VList; exact Hl|constructor].
    - (* Where *)
      destruct b; [|apply lift_MIs; intros a st Hst Ha; discriminate].
      destruct (negb (is_callable sc)); [apply lift_MIs; intros a st Hst Ha; discriminate|].
      eapply bindM_MIs with
        (Q := fun st l0 => Forall (fun o => match o with Some v => closed_value st v | None => True end) l0).
      + apply for_each_MIs.
        { intros o st st' Hle Ho. destruct o; [eapply closed_mono; eauto|exact I]. }
        intros i s1 Hs1.
        eapply bindM_MIs with (Q := fun st v => closed_value st v).
        * apply lift_MIs. intros a st Hst Ha. eapply index_closed; [|exact Ha].
          eapply closed_list_mono; [|exact Hl]. eapply store_le_trans; eauto.
        * intros item s2 Hs2 Hitem.
          eapply bindM_MIs with (Q := fun st v => closed_value st v).
          -- apply (call_fn_MIs cb1 cb2 s0 Hag Hcl).
             ++ eapply store_le_trans; [exact Hs0|]. eapply store_le_trans; eauto.
             ++ eapply closed_mono; [|exact Hsc]. eapply store_le_trans; eauto.
             ++ destruct (fa2 sc); repeat (first [constructor | apply atomic_closed; exact I]); auto.
          -- intros result s3 Hs3 Hres.
             eapply bindM_MIs with (Q := fun _ (_ : bool) => True).
             ++ apply lift_MIs. intros; exact I.
             ++ intros keep s4 Hs4 _. apply lift_MIs. intros a st Hst Ha. inversion Ha; subst.
                destruct keep; [|exact I]. eapply closed_mono; [|exact Hitem].
                eapply store_le_trans; [exact Hs3|]. eapply store_le_trans; eauto.
      + intros kept s1 Hs1 Hk. apply lift_MIs. intros a st Hst Ha. inversion Ha; subst.
        apply closed_VList. apply filter_some_closed.
        eapply Forall_impl; [|exact Hk]. intros o Ho. destruct o; [eapply closed_mono; eauto|exact I].
    - (* Coalesce *) apply lift_MIs; intros a st Hst Ha. pure_list Ha. inversion Hy; subst.
      assert (Hx : closed_value st x).
      { unfold closed_list in Hl. rewrite Forall_forall in Hl. eapply closed_mono; [exact Hst|]. apply Hl; exact Hin. }
      assert (Hs' : closed_value st sc) by (eapply closed_mono; eauto).
      destruct b; [destruct (is_null x)|destruct (is_null sc)]; assumption.
  Qed.

  Lemma arm_list_list_MIs : forall s op l r,
    store_le s0 s -> closed_list s l -> closed_list s r ->
    MIs s Qc (arm_list_list store cb1 powf op l r) (arm_list_list store cb2 powf op l r).
  Proof.
    intros s op l r Hs0 Hl Hr. unfold arm_list_list.
    destruct (negb (Nat.eqb (Datatypes.length l) (Datatypes.length r)));
      [apply lift_MIs; intros a st Hst Ha; discriminate|].
    destruct op;
      try (apply lift_MIs; intros a st Hst Ha; discriminate);
      try (apply lift_MIs; intros a st Hst Ha; cbn [expected_of obind] in Ha; pure_list Ha; atom_goal Hy).
    - (* Add *) apply lift_MIs; intros a st Hst Ha. pure_list Ha.
      destruct (index l x) eqn:Ei; try rewrite Ei in Hy; try discriminate. cbn [obind] in Hy.
      destruct (index r x) eqn:Ej; try rewrite Ej in Hy; try discriminate. cbn [obind] in Hy.
      atom_goal Hy.
    - (* Via *)
      eapply bindM_MIs.
      + apply for_each_MIs; [apply Qc_mono|]. intros i s1 Hs1.
        eapply bindM_MIs with (Q := fun st (lr : value * value) => closed_value st (fst lr) /\ closed_value st (snd lr)).
        * apply lift_MIs. intros a st Hst Ha.
          destruct (index l i) eqn:Ei; try discriminate. cbn [obind] in Ha.
          destruct (index r i) eqn:Ej; try discriminate. cbn [obind] in Ha. inversion Ha; subst. cbn [fst snd].
          assert (Hss : store_le s st) by (eapply store_le_trans; eauto).
          split; eapply index_closed; try eassumption; eapply closed_list_mono; eauto.
        * intros lr s2 Hs2 [Hlr1 Hlr2].
          destruct (negb (is_lambda (snd lr)) && negb (is_built_in (snd lr)));
            [apply lift_MIs; intros a st Hst Ha; discriminate|].
          apply (call_fn_MIs cb1 cb2 s0 Hag Hcl); auto.
          -- eapply store_le_trans; [exact Hs0|]. eapply store_le_trans; eauto.
          -- constructor; [exact Hlr1|constructor].
      + intros mapped s1 Hs1 Hm. apply lift_MIs. intros a st Hst Ha. inversion Ha; subst.
        apply closed_VList. eapply closed_list_mono; [exact Hst|exact Hm].
    - (* Coalesce *) apply lift_MIs; intros a st Hst Ha. pure_list Ha. inversion Hy; subst.
      destruct x as [xl xr]. cbn [fst snd].
      assert (Hxl : closed_value st xl).
      { unfold closed_list in Hl. rewrite Forall_forall in Hl. eapply closed_mono; [exact Hst|].
        apply Hl. eapply in_combine_l; exact Hin. }
      assert (Hxr : closed_value st xr).
      { unfold closed_list in Hr. rewrite Forall_forall in Hr. eapply closed_mono; [exact Hst|].
        apply Hr. eapply in_combine_r; exact Hin. }
      destruct (is_null xl); assumption.
  Qed.

  (* the whole operator function *)
  Theorem eval_binop_agree : forall op l r st,
    store_le s0 st -> closed_value st l -> closed_value st r ->
    eval_binop store cb1 fa2 powf op l r st = eval_binop store cb2 fa2 powf op l r st /\
    (forall res st', eval_binop store cb1 fa2 powf op l r st = (res, st') ->
       store_le st st' /\ (forall v, res = Ok v -> closed_value st' v)).
  Proof.
    intros op l r st Hs0 Hl Hr.
    assert (Hgen : MIs st Qc (fun s => eval_binop store cb1 fa2 powf op l r s)
                              (fun s => eval_binop store cb2 fa2 powf op l r s)).
    { unfold eval_binop.
      destruct op;
        try (apply (lift_MIs _ st Qc); intros a st1 Hst Ha; atom_goal Ha);
        (destruct (is_list r && binop_eqb _ Into);
         [apply (lift_MIs _ st Qc Err); intros a st1 Hst Ha; discriminate|]);
        destruct l; destruct r;
        first [ apply arm_list_list_MIs; [assumption|apply closed_VList; assumption|apply closed_VList; assumption]
              | apply arm_list_scalar_MIs; [assumption|apply closed_VList; assumption|assumption]
              | apply arm_scalar_MIs; assumption ]. }
    exact (Hgen st (store_le_refl st)).
  Qed.
End Arms.

(* ---- the callback-taking built-ins ---- *)
Section HofAgree.
  Variable cb1 cb2 : callback.
  Variable s0 : store.
  Hypothesis Hag : cb_agree s0 cb1 cb2.
  Hypothesis Hcl : cb_closed s0 cb1.

  Definition post {A} (Q : store -> A -> Prop) (st : store) (x : outcome A * store) : Prop :=
    store_le st (snd x) /\ (forall a, fst x = Ok a -> Q (snd x) a).

  Lemma cb_args_closed : forall st two x i, closed_value st x -> closed_list st (cb_args two x i).
  Proof. intros st two x i Hx. unfold cb_args. destruct two; repeat (first [constructor | apply atomic_closed; exact I]); auto. Qed.

  (* one callback step: same on both sides, closed result, store grows *)
  Ltac cbstep f args st :=
    let E := fresh "E" in let Hs := fresh "Hs" in let Hr := fresh "Hr" in
    rewrite <- (Hag f f args st) by assumption;
    destruct (cb1 f f args st) as [?o ?s1] eqn:E;
    destruct (Hcl f f args st _ _ ltac:(assumption) ltac:(assumption) ltac:(assumption) ltac:(assumption) E) as [Hs Hr].

  Lemma map_loop_agree : forall f two l i st,
    store_le s0 st -> closed_value st f -> closed_list st l ->
    map_loop cb1 f two l i st = map_loop cb2 f two l i st /\
    post (fun s ys => closed_list s ys) st (map_loop cb1 f two l i st).
  Proof.
    intros f two l; induction l as [|x l IH]; intros i st Hs0 Hf Hl; cbn [map_loop].
    - split; [reflexivity|split; [apply store_le_refl|intros a Ha; inversion Ha; constructor]].
    - inversion Hl as [|? ? Hx Hl']; subst.
      assert (Ha : closed_list st (cb_args two x i)) by (apply cb_args_closed; exact Hx).
      cbstep f (cb_args two x i) st.
      destruct o; try (split; [reflexivity|split; [exact Hs|intros ? Hq; discriminate Hq]]).
      assert (Hf1 : closed_value s1 f) by (eapply closed_mono; eauto).
      assert (Hl1 : closed_list s1 l) by (eapply closed_list_mono; eauto).
      destruct (IH (S i) s1 (store_le_trans _ _ _ Hs0 Hs) Hf1 Hl1) as [Heq [Hle Hq]]. rewrite <- Heq.
      destruct (map_loop cb1 f two l (S i) s1) as [o2 s2]. cbn [fst snd] in *.
      destruct o2; (split; [reflexivity|split; [eapply store_le_trans; eauto|]]);
        intros ys Hys; inversion Hys; subst.
      constructor; [eapply closed_mono; [exact Hle|apply Hr; reflexivity]|apply Hq; reflexivity].
  Qed.

  Lemma filter_loop_agree : forall f two l i st,
    store_le s0 st -> closed_value st f -> closed_list st l ->
    filter_loop cb1 f two l i st = filter_loop cb2 f two l i st /\
    post (fun s ys => closed_list s ys) st (filter_loop cb1 f two l i st).
  Proof.
    intros f two l; induction l as [|x l IH]; intros i st Hs0 Hf Hl; cbn [filter_loop].
    - split; [reflexivity|split; [apply store_le_refl|intros a Ha; inversion Ha; constructor]].
    - inversion Hl as [|? ? Hx Hl']; subst.
      assert (Ha : closed_list st (cb_args two x i)) by (apply cb_args_closed; exact Hx).
      cbstep f (cb_args two x i) st.
      destruct o; try (split; [reflexivity|split; [exact Hs|intros ? Hq; discriminate Hq]]).
      destruct (as_bool a) as [keep| | | |];
        try (split; [reflexivity|split; [exact Hs|intros ? Hq; discriminate Hq]]).
      assert (Hf1 : closed_value s1 f) by (eapply closed_mono; eauto).
      assert (Hl1 : closed_list s1 l) by (eapply closed_list_mono; eauto).
      destruct (IH (S i) s1 (store_le_trans _ _ _ Hs0 Hs) Hf1 Hl1) as [Heq [Hle Hq]]. rewrite <- Heq.
      destruct (filter_loop cb1 f two l (S i) s1) as [o2 s2]. cbn [fst snd] in *.
      destruct o2; (split; [reflexivity|split; [eapply store_le_trans; eauto|]]);
        intros ys Hys; inversion Hys; subst.
      destruct keep; [constructor|]; try (apply Hq; reflexivity).
      eapply closed_mono; [|exact Hx]. eapply store_le_trans; eauto.
  Qed.

  Lemma reduce_loop_agree : forall f three l i acc st,
    store_le s0 st -> closed_value st f -> closed_list st l -> closed_value st acc ->
    reduce_loop cb1 f three l i acc st = reduce_loop cb2 f three l i acc st /\
    post (fun s v => closed_value s v) st (reduce_loop cb1 f three l i acc st).
  Proof.
    intros f three l; induction l as [|x l IH]; intros i acc st Hs0 Hf Hl Hacc; cbn [reduce_loop].
    - split; [reflexivity|split; [apply store_le_refl|intros a Ha; inversion Ha; subst; exact Hacc]].
    - inversion Hl as [|? ? Hx Hl']; subst.
      assert (Ha : closed_list st (if three then [acc; x; idx_num i] else [acc; x]))
        by (destruct three; repeat (first [constructor | apply atomic_closed; exact I]); auto).
      cbstep f (if three then [acc; x; idx_num i] else [acc; x]) st.
      destruct o; try (split; [reflexivity|split; [exact Hs|intros ? Hq; discriminate Hq]]).
      assert (Hf1 : closed_value s1 f) by (eapply closed_mono; eauto).
      assert (Hl1 : closed_list s1 l) by (eapply closed_list_mono; eauto).
      destruct (IH (S i) a s1 (store_le_trans _ _ _ Hs0 Hs) Hf1 Hl1 (Hr a eq_refl)) as [Heq [Hle Hq]].
      split; [exact Heq|split; [eapply store_le_trans; eauto|exact Hq]].
  Qed.

  Lemma every_loop_agree : forall f two l i st,
    store_le s0 st -> closed_value st f -> closed_list st l ->
    every_loop cb1 f two l i st = every_loop cb2 f two l i st /\
    post (fun s v => closed_value s v) st (every_loop cb1 f two l i st).
  Proof.
    intros f two l; induction l as [|x l IH]; intros i st Hs0 Hf Hl; cbn [every_loop].
    - split; [reflexivity|split; [apply store_le_refl|intros a Ha; inversion Ha; triv]].
    - inversion Hl as [|? ? Hx Hl']; subst.
      assert (Ha : closed_list st (cb_args two x i)) by (apply cb_args_closed; exact Hx).
      cbstep f (cb_args two x i) st.
      destruct o; try (split; [reflexivity|split; [exact Hs|intros ? Hq; discriminate Hq]]).
      destruct (as_bool a) as [[|]| | | |];
        try (split; [reflexivity|split; [exact Hs|intros ? Hq; inversion Hq; triv]]);
        try (split; [reflexivity|split; [exact Hs|intros ? Hq; discriminate Hq]]).
      assert (Hf1 : closed_value s1 f) by (eapply closed_mono; eauto).
      assert (Hl1 : closed_list s1 l) by (eapply closed_list_mono; eauto).
      destruct (IH (S i) s1 (store_le_trans _ _ _ Hs0 Hs) Hf1 Hl1) as [Heq [Hle Hq]].
      split; [exact Heq|split; [eapply store_le_trans; eauto|exact Hq]].
  Qed.

  Lemma some_loop_agree : forall f two l i st,
    store_le s0 st -> closed_value st f -> closed_list st l ->
    some_loop cb1 f two l i st = some_loop cb2 f two l i st /\
    post (fun s v => closed_value s v) st (some_loop cb1 f two l i st).
  Proof.
    intros f two l; induction l as [|x l IH]; intros i st Hs0 Hf Hl; cbn [some_loop].
    - split; [reflexivity|split; [apply store_le_refl|intros a Ha; inversion Ha; triv]].
    - inversion Hl as [|? ? Hx Hl']; subst.
      assert (Ha : closed_list st (cb_args two x i)) by (apply cb_args_closed; exact Hx).
      cbstep f (cb_args two x i) st.
      destruct o; try (split; [reflexivity|split; [exact Hs|intros ? Hq; discriminate Hq]]).
      destruct (as_bool a) as [[|]| | | |];
        try (split; [reflexivity|split; [exact Hs|intros ? Hq; inversion Hq; triv]]);
        try (split; [reflexivity|split; [exact Hs|intros ? Hq; discriminate Hq]]).
      assert (Hf1 : closed_value s1 f) by (eapply closed_mono; eauto).
      assert (Hl1 : closed_list s1 l) by (eapply closed_list_mono; eauto).
      destruct (IH (S i) s1 (store_le_trans _ _ _ Hs0 Hs) Hf1 Hl1) as [Heq [Hle Hq]].
      split; [exact Heq|split; [eapply store_le_trans; eauto|exact Hq]].
  Qed.

  Lemma arg_closed : forall st args i v, closed_list st args -> arg args i = Ok v -> closed_value st v.
  Proof.
    intros st args i v Hc H. unfold arg in H. destruct (nth_error args i) eqn:E; inversion H; subst.
    unfold closed_list in Hc. rewrite Forall_forall in Hc. apply Hc. eapply nth_error_In; eauto.
  Qed.
  Lemma hof_prelude_closed : forall st args f l, closed_list st args ->
    hof_prelude args = Ok (f, l) -> closed_value st f /\ closed_list st l.
  Proof.
    intros st args f l Hc H. unfold hof_prelude in H.
    destruct (arg args 1) as [f0| | | |] eqn:E1; try discriminate. cbn [obind] in H.
    destruct (arg args 0) as [l0| | | |] eqn:E0; try discriminate. cbn [obind] in H.
    destruct (as_list l0) as [l1| | | |] eqn:El; try discriminate. cbn [obind] in H.
    unfold as_function in H. destruct (is_function f0); try discriminate. cbn [obind] in H.
    inversion H; subst. split; [eapply arg_closed; eauto|].
    pose proof (arg_closed _ _ _ _ Hc E0) as Hl0. destruct l0; try discriminate. inversion El; subst.
    apply closed_VList. exact Hl0.
  Qed.

  (* the built-in dispatcher of EvalInst.v *)
  Theorem builtin_impl_agree : forall b args st,
    store_le s0 st -> closed_list st args ->
    builtin_impl cb1 b args st = builtin_impl cb2 b args st /\
    post (fun s v => closed_value s v) st (builtin_impl cb1 b args st).
  Proof.
    intros b args st Hs0 Hc.
    assert (Hpure : forall f, (forall v, f args = Ok v -> closed_value st v) ->
              pure_bi f args st = pure_bi f args st /\ post (fun s v => closed_value s v) st (pure_bi f args st)).
    { intros f Hf. split; [reflexivity|]. unfold pure_bi, post. cbn [fst snd].
      split; [apply store_le_refl|exact Hf]. }
    assert (Hun : (Unmodelled : outcome value, st) = (Unmodelled, st) /\
                  post (fun s v => closed_value s v) st (Unmodelled : outcome value, st)).
    { split; [reflexivity|split; [apply store_le_refl|intros ? Hq; discriminate Hq]]. }
    assert (Hnum1 : forall g v, num1 g args = Ok v -> closed_value st v).
    { intros g v H. unfold num1 in H. destruct (arg args 0); try discriminate. cbn [obind] in H.
      destruct (as_number a); try discriminate. inversion H; triv. }
    assert (Hcmp : forall g v, cmp2 g args = Ok v -> closed_value st v).
    { intros g v H. unfold cmp2 in H. destruct (arg args 0); try discriminate. cbn [obind] in H.
      destruct (arg args 1); try discriminate. inversion H; triv. }
    destruct b; cbn [builtin_impl]; try exact Hun;
      try (apply Hpure; first [apply Hnum1|apply Hcmp]).
    - (* any *) apply Hpure. intros v H. unfold bi_any in H. destruct (arg args 0); try discriminate. cbn [obind] in H.
      destruct (as_list a); try discriminate. inversion H; triv.
    - (* all *) apply Hpure. intros v H. unfold bi_all in H. destruct (arg args 0); try discriminate. cbn [obind] in H.
      destruct (as_list a); try discriminate. inversion H; triv.
    - (* map *) unfold bi_map. destruct (hof_prelude args) as [[f l]| | | |] eqn:E; try exact Hun;
        try (split; [reflexivity|split; [apply store_le_refl|intros ? Hq; discriminate Hq]]).
      destruct (hof_prelude_closed _ _ _ _ Hc E) as [Hf Hl].
      destruct (map_loop_agree f (accepts f 2) l 0 st Hs0 Hf Hl) as [Heq [Hle Hq]]. rewrite <- Heq.
      destruct (map_loop cb1 f (accepts f 2) l 0 st) as [o s1]. cbn [fst snd] in *.
      split; [reflexivity|split; [exact Hle|]]. intros v Hv. destruct o; try discriminate.
      inversion Hv; subst. apply closed_VList. apply Hq; reflexivity.
    - (* reduce *) unfold bi_reduce.
      match goal with |- context [match ?x with _ => _ end] => destruct x as [[[f i0] l]| | | |] eqn:E end;
        try (split; [reflexivity|split; [apply store_le_refl|intros ? Hq; discriminate Hq]]).
      destruct (arg args 1) as [f0| | | |] eqn:E1; try discriminate. cbn [obind] in E.
      destruct (arg args 2) as [i1| | | |] eqn:E2; try discriminate. cbn [obind] in E.
      destruct (arg args 0) as [l0| | | |] eqn:E0; try discriminate. cbn [obind] in E.
      destruct (as_list l0) as [l1| | | |] eqn:El; try discriminate. cbn [obind] in E.
      unfold as_function in E. destruct (is_function f0); try discriminate. cbn [obind] in E.
      inversion E; subst.
      pose proof (arg_closed _ _ _ _ Hc E0) as Hl0. destruct l0; try discriminate. inversion El; subst.
      apply reduce_loop_agree; [assumption|eapply arg_closed; eauto|apply closed_VList; exact Hl0|eapply arg_closed; eauto].
    - (* filter *) unfold bi_filter. destruct (hof_prelude args) as [[f l]| | | |] eqn:E;
        try (split; [reflexivity|split; [apply store_le_refl|intros ? Hq; discriminate Hq]]).
      destruct (hof_prelude_closed _ _ _ _ Hc E) as [Hf Hl].
      destruct (filter_loop_agree f (accepts f 2) l 0 st Hs0 Hf Hl) as [Heq [Hle Hq]]. rewrite <- Heq.
      destruct (filter_loop cb1 f (accepts f 2) l 0 st) as [o s1]. cbn [fst snd] in *.
      split; [reflexivity|split; [exact Hle|]]. intros v Hv. destruct o; try discriminate.
      inversion Hv; subst. apply closed_VList. apply Hq; reflexivity.
    - (* every *) unfold bi_every. destruct (hof_prelude args) as [[f l]| | | |] eqn:E;
        try (split; [reflexivity|split; [apply store_le_refl|intros ? Hq; discriminate Hq]]).
      destruct (hof_prelude_closed _ _ _ _ Hc E) as [Hf Hl]. apply every_loop_agree; assumption.
    - (* some *) unfold bi_some. destruct (hof_prelude args) as [[f l]| | | |] eqn:E;
        try (split; [reflexivity|split; [apply store_le_refl|intros ? Hq; discriminate Hq]]).
      destruct (hof_prelude_closed _ _ _ _ Hc E) as [Hf Hl]. apply some_loop_agree; assumption.
    - (* to_bool *) apply Hpure. intros v H. unfold bi_to_bool in H.
      destruct (arg args 0) eqn:E0; try discriminate. cbn [obind] in H.
      destruct a; inversion H; triv.
    - (* typeof *) apply Hpure. intros v H. unfold bi_typeof in H. destruct (arg args 0); try discriminate. inversion H; triv.
    - (* arity *) apply Hpure. intros v H. unfold bi_arity in H. destruct (arg args 0); try discriminate. cbn [obind] in H.
      destruct (fn_arity a) as [[?|?|? ?]|]; inversion H; triv.
  Qed.
End HofAgree.

End Abstract.
