(* AllHigherOrder.v — C13 at evaluator level for the evaluator with EVERY built-in of the table
   (EvalAll.builtin_all o, operators EvalAll.binop_all o), for every oracle o: the built-in forms
   map / filter are the depth error or exactly the operator forms via / where; `x into f` is `f(x)`.
   Same proofs as FullHigherOrder.v over the larger dispatcher. *)
From Coq Require Import String Ascii List ZArith Bool Lia.
Require Import Blots.Num Blots.gen.Builtins Blots.Ast Blots.Value Blots.Outcome Blots.Binop
               Blots.Env Blots.Eval Blots.BuiltinsHof Blots.Program Blots.EvalInst Blots.EvalFull Blots.EvalAll
               Blots.proofs.DepthMono Blots.proofs.InstDepth Blots.proofs.HigherOrder
               Blots.proofs.FullInst Blots.proofs.AllInst.
Import ListNotations.
Open Scope list_scope.
Open Scope nat_scope.

Section DepthAll.
  Variable o : oracle.
  Variable release : bool.
  Notation AD := (AD release (binop_all o) (builtin_all o)).

  Lemma AD_le2_all : forall d fr, cb_le (AD d fr) (AD (S (S d)) fr).
  Proof.
    intros d fr this f args st.
    destruct (AD_le release (binop_all o) (builtin_all o) (binop_all_le o) (builtin_all_le o) d fr this f args st) as [H|H];
      [left; exact H|]. rewrite H.
    apply (AD_le release (binop_all o) (builtin_all o) (binop_all_le o) (builtin_all_le o) (S d) fr).
  Qed.

  Lemma AD_builtin2_all : forall d fr b x y st,
    can_accept (builtin_arity b) 2 = true ->
    AD d fr (VBuiltin b) (VBuiltin b) [x; y] st =
    match d with
    | O => (ErrDepth, st)
    | S O => builtin_all o (fun _ f a s => call_too_deep f a s) b [x; y] st
    | S (S d'') => builtin_all o (AD d'' fr) b [x; y] st
    end.
  Proof.
    intros d fr b x y st Ha. rewrite AD_unfold. unfold apply_at, check_arity, accepts. cbn [fn_arity Datatypes.length].
    rewrite Ha. cbn [negb]. destruct d as [|[|d'']]; reflexivity.
  Qed.

  Lemma too_deep_le_all : forall fr, cb_le (fun _ f a s => call_too_deep f a s) (AD 1 fr).
  Proof.
    intros fr this f args st. unfold call_too_deep. rewrite AD_unfold. unfold apply_at.
    destruct (check_arity f (Datatypes.length args)); cbn [negb]; [left; reflexivity|right; reflexivity].
  Qed.

  Theorem map_form_le_via_form_all : forall d fr l f st,
    is_callable f = true ->
    rle (AD d fr (VBuiltin B_map) (VBuiltin B_map) [VList l; f] st)
        (binop_all o (AD d fr) Via (VList l) f st).
  Proof.
    intros d fr l f st Hf. rewrite AD_builtin2_all by reflexivity.
    unfold binop_all, binop_impl. rewrite via_is_map by exact Hf.
    destruct d as [|[|d'']].
    - left; reflexivity.
    - cbn [builtin_all builtin_full builtin_impl]. apply builtin_impl_le with (b := B_map). apply too_deep_le_all.
    - cbn [builtin_all builtin_full builtin_impl]. apply builtin_impl_le with (b := B_map). intros t0 f0 a0 s0. apply AD_le2_all.
  Qed.

  Theorem filter_form_le_where_form_all : forall d fr l f st,
    is_callable f = true ->
    rle (AD d fr (VBuiltin B_filter) (VBuiltin B_filter) [VList l; f] st)
        (binop_all o (AD d fr) Where (VList l) f st).
  Proof.
    intros d fr l f st Hf. rewrite AD_builtin2_all by reflexivity.
    unfold binop_all, binop_impl. rewrite where_is_filter by exact Hf.
    destruct d as [|[|d'']].
    - left; reflexivity.
    - cbn [builtin_all builtin_full builtin_impl]. apply builtin_impl_le with (b := B_filter). apply too_deep_le_all.
    - cbn [builtin_all builtin_full builtin_impl]. apply builtin_impl_le with (b := B_filter). intros t0 f0 a0 s0. apply AD_le2_all.
  Qed.

  Theorem into_form_is_call_form_all : forall d fr x f st,
    is_callable f = true ->
    binop_all o (AD d fr) Into x f st = AD d fr f f [x] st.
  Proof. intros d fr x f st Hf. unfold binop_all, binop_impl. apply into_is_apply. exact Hf. Qed.
End DepthAll.
