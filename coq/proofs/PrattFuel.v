(* PrattFuel.v — an explicit fuel bound: whatever the relations derive for a token stream `its`, the
   function returns with any fuel >= 3 * items_size its + 2; in particular with the fuel
   4 * items_size its + 4 of `pratt`. *)
From Coq Require Import String List Bool Arith Lia.
Require Import Blots.Num Blots.gen.Builtins Blots.Ast Blots.Outcome Blots.PrattTypes Blots.Pratt.
Import ListNotations.
Local Open Scope nat_scope.
Local Open Scope list_scope.

Definition evb {A} (f : nat -> outcome A) (v : A) (n : nat) : Prop := forall m, n <= m -> f m = Ok v.

Lemma evb_S {A} (f F : nat -> outcome A) v n : (forall m, f (S m) = F m) -> evb F v n -> evb f v (S n).
Proof. intros E H [|m] Hm; [lia|]. rewrite E. apply H. lia. Qed.
Lemma evb_const {A} (v : A) n : evb (fun _ => Ok v) v n.
Proof. intros m _. reflexivity. Qed.
Lemma evb_bind {A B} (g : nat -> outcome A) (h : nat -> A -> outcome B) a v n1 n2 :
  evb g a n1 -> evb (fun m => h m a) v n2 -> evb (fun m => obind (g m) (h m)) v (Nat.max n1 n2).
Proof. intros H1 H2 m Hm. rewrite H1 by lia. cbn. apply H2. lia. Qed.
Lemma evb_weaken {A} (f : nat -> outcome A) v n n' : evb f v n -> n <= n' -> evb f v n'.
Proof. intros H Hle m Hm. apply H. lia. Qed.

(* ---- sizes ---- *)
Fixpoint lels_size (l : list lelem) : nat :=
  match l with
  | [] => 0
  | LCom _ :: r => 1 + lels_size r
  | LItem g _ :: r => 1 + items_size g + lels_size r
  end.
Fixpoint rels_size (l : list relem) : nat :=
  match l with
  | [] => 0
  | RCom _ :: r => 1 + rels_size r
  | RPairI k v _ :: r => 2 + match k with RKDyn inner => items_size inner | _ => 0 end + items_size v + rels_size r
  | RShortI _ _ :: r => 1 + rels_size r
  | RSpreadI g _ :: r => 1 + items_size g + rels_size r
  end.
Fixpoint dels_size (l : list delem) : nat :=
  match l with
  | [] => 0
  | DStmt g _ :: r => 1 + items_size g + dels_size r
  | DRet g :: r => 1 + items_size g + dels_size r
  | _ :: r => 1 + dels_size r
  end.
Fixpoint args_size (l : list (list item)) : nat :=
  match l with [] => 0 | g :: r => 1 + items_size g + args_size r end.

Lemma sz_eq : forall l,
  (fix sz (l : list item) : nat := match l with [] => 0 | x :: r => item_size x + sz r end) l = items_size l.
Proof. induction l as [|x l IH]; [reflexivity|]. unfold items_size in *. cbn [fold_right]. rewrite <- IH. reflexivity. Qed.

Lemma items_size_cons : forall i l, items_size (i :: l) = item_size i + items_size l.
Proof. reflexivity. Qed.
Lemma item_size_pos : forall i, 1 <= item_size i.
Proof. destruct i; cbn; lia. Qed.

Lemma size_IExpr : forall b g, item_size (IExpr b g) = 1 + items_size g.
Proof. reflexivity. Qed.
Lemma size_ILambda : forall a g, item_size (ILambda a g) = 1 + items_size g.
Proof. reflexivity. Qed.
Lemma size_IAssign : forall x g, item_size (IAssign x g) = 1 + items_size g.
Proof. reflexivity. Qed.
Lemma size_IAccess : forall g, item_size (IAccess g) = 1 + items_size g.
Proof. reflexivity. Qed.
Lemma size_ICond : forall c t e, item_size (ICond c t e) = 1 + items_size c + items_size t + items_size e.
Proof. reflexivity. Qed.
Lemma size_IList : forall els, item_size (IList els) = 1 + lels_size els.
Proof. reflexivity. Qed.
Lemma size_IRecord : forall els, item_size (IRecord els) = 1 + rels_size els.
Proof. reflexivity. Qed.
Lemma size_IDo : forall els, item_size (IDo els) = 1 + dels_size els.
Proof. reflexivity. Qed.
Lemma size_ICall : forall args, item_size (ICall args) = 1 + args_size args.
Proof. reflexivity. Qed.

Section Bound.
  Variable tbl : ops_map.
  Variable imap : list (oprule * binop).
  Variable pmap : list (oprule * prefix_ctor).
  Notation pexpr' := (pexpr tbl imap pmap).
  Notation ploop' := (ploop tbl imap pmap).
  Notation mpost' := (map_postfix tbl imap pmap).
  Notation primary' := (primary tbl imap pmap).
  Notation parse' := (parse_items tbl imap pmap).

  Lemma ploop_S' : forall m rbp lhs its,
    ploop' (S m) rbp lhs its =
    obind (lbp tbl its) (fun l =>
      if Nat.ltb rbp l then
        match its with
        | [] => Panic
        | pr0 :: rest =>
            match item_op pr0 with
            | Some r =>
                match ops_get tbl r with
                | Some (Infix a, p) =>
                    obind (pexpr' m (match a with ALeft => p | ARight => p - 1 end) rest) (fun rr =>
                    obind (map_infix imap lhs r (fst rr)) (fun e => ploop' m rbp e (snd rr)))
                | Some (Postfix, _) => obind (mpost' m lhs pr0) (fun e => ploop' m rbp e rest)
                | _ => Panic
                end
            | None => Panic
            end
        end
      else Ok (lhs, its)).
  Proof. reflexivity. Qed.
  Lemma primary_ident' : forall m s,
    primary' (S m) (IIdent s) =
    Ok (Some (match builtin_of_name s with Some b => EBuiltin b | None => EId s end)).
  Proof. reflexivity. Qed.
  Lemma pexpr_primary' : forall i, item_op i = None ->
    forall m rbp its,
      pexpr' (S m) rbp (i :: its) =
      obind (obind (primary' m i) (fun e => Ok (e, its))) (fun lr => ploop' m rbp (fst lr) (snd lr)).
  Proof. intros i H m rbp its. cbn. rewrite H. reflexivity. Qed.

  Theorem rel_bound :
    (forall rbp its t rest, Expr tbl imap pmap rbp its t rest ->
        evb (fun m => pexpr' m rbp its) (Some t, rest) (3 * items_size its + 1) /\
        items_size rest <= items_size its) /\
    (forall rbp lhs its t rest, Loop tbl imap pmap rbp lhs its t rest ->
        evb (fun m => ploop' m rbp (Some lhs) its) (Some t, rest) (3 * items_size its + 1) /\
        items_size rest <= items_size its) /\
    (forall lhs i u, Post tbl imap pmap lhs i u ->
        evb (fun m => mpost' m (Some lhs) i) (Some u) (3 * item_size i)) /\
    (forall i x, Prim tbl imap pmap i x -> evb (fun m => primary' m i) (Some x) (3 * item_size i)) /\
    (forall its t, Items tbl imap pmap its t ->
        evb (fun m => parse' m its) (Some t) (3 * items_size its + 2)) /\
    (forall args es, Args tbl imap pmap args es ->
        evb (fun m => omapM (parse' m) args) (Some es) (3 * args_size args)) /\
    (forall els es, LEls tbl imap pmap els es ->
        evb (fun m => list_loop (parse' m) els) (Some es) (3 * lels_size els)) /\
    (forall els es, REls tbl imap pmap els es ->
        evb (fun m => rec_loop (parse' m) els) (Some es) (3 * rels_size els)) /\
    (forall els stmts ret t, DEls tbl imap pmap els stmts ret t ->
        evb (fun m => do_loop (parse' m) els stmts ret) (Some t) (3 * dels_size els)).
  Proof.
    apply parse_rel_mutind.
    - (* E_prefix *)
      intros rbp i r p its x mid u t rest Hop Hops _ [IH1 S1] Hpre _ [IH2 S2].
      rewrite items_size_cons. pose proof (item_size_pos i). split; [|lia].
      eapply evb_weaken.
      + eapply evb_S; [intro m; cbn; rewrite Hop, Hops; reflexivity|].
        eapply evb_bind; [eapply evb_bind; [exact IH1|]; cbn; rewrite Hpre; cbn; apply (evb_const _ 0)|].
        exact IH2.
      + lia.
    - (* E_primary *)
      intros rbp i its x t rest Hop _ IH1 _ [IH2 S2].
      rewrite items_size_cons. pose proof (item_size_pos i). split; [|lia].
      eapply evb_weaken.
      + eapply evb_S; [intro m; apply pexpr_primary'; exact Hop|].
        eapply evb_bind; [eapply evb_bind; [exact IH1|]; apply (evb_const _ 0)|]. exact IH2.
      + lia.
    - (* L_stop *)
      intros rbp lhs its l Hl Hle. split; [|lia].
      assert (Hf : Nat.ltb rbp l = false) by (apply Nat.ltb_ge; exact Hle).
      eapply evb_weaken.
      + eapply evb_S; [intro m; rewrite ploop_S', Hl; cbn [obind]; rewrite Hf; reflexivity|].
        apply (evb_const _ 0).
      + lia.
    - (* L_infix *)
      intros rbp lhs i r a p its rhs mid u t rest Hop Hops Hlt _ [IH1 S1] Hin _ [IH2 S2].
      rewrite items_size_cons. pose proof (item_size_pos i). split; [|lia].
      assert (Hf : Nat.ltb rbp p = true) by (apply Nat.ltb_lt; exact Hlt).
      eapply evb_weaken.
      + eapply evb_S; [intro m; rewrite ploop_S'; unfold lbp; rewrite Hop, Hops; cbn [obind];
                       rewrite Hf; reflexivity|].
        eapply evb_bind; [exact IH1|]. cbn. rewrite Hin. cbn. exact IH2.
      + lia.
    - (* L_postfix *)
      intros rbp lhs i r p its u t rest Hop Hops Hlt _ IH1 _ [IH2 S2].
      rewrite items_size_cons. pose proof (item_size_pos i). split; [|lia].
      assert (Hf : Nat.ltb rbp p = true) by (apply Nat.ltb_lt; exact Hlt).
      eapply evb_weaken.
      + eapply evb_S; [intro m; rewrite ploop_S'; unfold lbp; rewrite Hop, Hops; cbn [obind];
                       rewrite Hf; reflexivity|].
        eapply evb_bind; [exact IH1|]. exact IH2.
      + lia.
    - (* Po_fact *)
      intros lhs. eapply evb_weaken; [eapply evb_S; [intro m; reflexivity|]; apply (evb_const _ 0)|cbn; lia].
    - (* Po_access *)
      intros lhs inner i _ IH. rewrite size_IAccess.
      eapply evb_weaken; [eapply evb_S; [intro m; reflexivity|];
                          eapply evb_bind; [exact IH|]; apply (evb_const _ 0)|lia].
    - (* Po_dot *)
      intros lhs f. eapply evb_weaken; [eapply evb_S; [intro m; reflexivity|]; apply (evb_const _ 0)|cbn; lia].
    - (* Po_call *)
      intros lhs args es _ IH. rewrite size_ICall.
      eapply evb_weaken; [eapply evb_S; [intro m; reflexivity|];
                          eapply evb_bind; [exact IH|]; apply (evb_const _ 0)|lia].
    - intros x. eapply evb_weaken; [eapply evb_S; [intro m; reflexivity|]; apply (evb_const _ 0)|cbn; lia].
    - intros s. eapply evb_weaken; [eapply evb_S; [intro m; reflexivity|]; apply (evb_const _ 0)|cbn; lia].
    - intros b. eapply evb_weaken; [eapply evb_S; [intro m; reflexivity|]; apply (evb_const _ 0)|cbn; lia].
    - eapply evb_weaken; [eapply evb_S; [intro m; reflexivity|]; apply (evb_const _ 0)|cbn; lia].
    - intros s b H. eapply evb_weaken; [eapply evb_S; [intro m; rewrite primary_ident', H; reflexivity|];
                                        apply (evb_const _ 0)|cbn; lia].
    - intros s H. eapply evb_weaken; [eapply evb_S; [intro m; rewrite primary_ident', H; reflexivity|];
                                      apply (evb_const _ 0)|cbn; lia].
    - intros s. eapply evb_weaken; [eapply evb_S; [intro m; reflexivity|]; apply (evb_const _ 0)|cbn; lia].
    - (* P_expr *)
      intros b g t _ IH. rewrite size_IExpr.
      eapply evb_weaken; [eapply evb_S; [intro m; reflexivity|]; exact IH|lia].
    - (* P_list *)
      intros els es _ IH. rewrite size_IList.
      eapply evb_weaken; [eapply evb_S; [intro m; reflexivity|];
                          eapply evb_bind; [exact IH|]; apply (evb_const _ 0)|lia].
    - (* P_rec *)
      intros els es _ IH. rewrite size_IRecord.
      eapply evb_weaken; [eapply evb_S; [intro m; reflexivity|];
                          eapply evb_bind; [exact IH|]; apply (evb_const _ 0)|lia].
    - (* P_lam *)
      intros args body b _ IH. rewrite size_ILambda.
      eapply evb_weaken; [eapply evb_S; [intro m; reflexivity|];
                          eapply evb_bind; [exact IH|]; apply (evb_const _ 0)|lia].
    - (* P_cond *)
      intros c t e c' t' e' _ IH1 _ IH2 _ IH3. rewrite size_ICond.
      eapply evb_weaken.
      + eapply evb_S; [intro m; reflexivity|].
        eapply evb_bind; [exact IH1|]. cbn. eapply evb_bind; [exact IH2|]. cbn.
        eapply evb_bind; [exact IH3|]. apply (evb_const _ 0).
      + lia.
    - (* P_do *)
      intros els t _ IH. rewrite size_IDo.
      eapply evb_weaken; [eapply evb_S; [intro m; reflexivity|]; exact IH|lia].
    - (* P_assign *)
      intros x v v' _ IH. rewrite size_IAssign.
      eapply evb_weaken; [eapply evb_S; [intro m; reflexivity|];
                          eapply evb_bind; [exact IH|]; apply (evb_const _ 0)|lia].
    - (* I_intro *)
      intros its t rest _ [IH _].
      eapply evb_weaken; [eapply evb_S; [intro m; reflexivity|];
                          eapply evb_bind; [exact IH|]; apply (evb_const _ 0)|lia].
    - (* A_nil *) apply evb_const.
    - (* A_cons *)
      intros g e gs es _ IH1 _ IH2. cbn [args_size omapM].
      eapply evb_weaken; [eapply evb_bind; [exact IH1|]; cbn; eapply evb_bind; [exact IH2|];
                          apply (evb_const _ 0)|lia].
    - (* LE_nil *) apply evb_const.
    - (* LE_com *) intros s els es _ IH. cbn [lels_size list_loop]. eapply evb_weaken; [exact IH|lia].
    - (* LE_item *)
      intros g eol e els es _ IH1 _ IH2. cbn [lels_size list_loop].
      eapply evb_weaken; [eapply evb_bind; [exact IH1|]; cbn; eapply evb_bind; [exact IH2|];
                          apply (evb_const _ 0)|lia].
    - (* RE_nil *) apply evb_const.
    - (* RE_com *) intros s els es _ IH. cbn [rels_size rec_loop]. eapply evb_weaken; [exact IH|lia].
    - (* RE_pair_id *)
      intros s v eol v' els es _ IH1 _ IH2. cbn [rels_size rec_loop key_of obind].
      eapply evb_weaken; [eapply evb_bind; [exact IH1|]; cbn; eapply evb_bind; [exact IH2|];
                          apply (evb_const _ 0)|lia].
    - (* RE_pair_str *)
      intros s v eol v' els es _ IH1 _ IH2. cbn [rels_size rec_loop key_of obind].
      eapply evb_weaken; [eapply evb_bind; [exact IH1|]; cbn; eapply evb_bind; [exact IH2|];
                          apply (evb_const _ 0)|lia].
    - (* RE_pair_dyn *)
      intros inner k v eol v' els es _ IH0 _ IH1 _ IH2. cbn [rels_size rec_loop key_of].
      eapply evb_weaken.
      + eapply evb_bind; [eapply evb_bind; [exact IH0|]; apply (evb_const _ 0)|]. cbn.
        eapply evb_bind; [exact IH1|]. cbn. eapply evb_bind; [exact IH2|]. apply (evb_const _ 0).
      + lia.
    - (* RE_short *)
      intros s eol els es _ IH. cbn [rels_size rec_loop].
      eapply evb_weaken; [eapply evb_bind; [exact IH|]; apply (evb_const _ 0)|lia].
    - (* RE_spread *)
      intros g eol e els es _ IH1 _ IH2. cbn [rels_size rec_loop].
      eapply evb_weaken; [eapply evb_bind; [exact IH1|]; cbn; eapply evb_bind; [exact IH2|];
                          apply (evb_const _ 0)|lia].
    - (* DE_nil *) intros. apply evb_const.
    - (* DE_stmt *)
      intros g c e els stmts ret t _ IH1 _ IH2. cbn [dels_size do_loop].
      eapply evb_weaken; [eapply evb_bind; [exact IH1|]; exact IH2|lia].
    - intros s c els stmts ret t _ IH. cbn [dels_size do_loop]. eapply evb_weaken; [exact IH|lia].
    - intros s els stmts ret t _ IH. cbn [dels_size do_loop]. eapply evb_weaken; [exact IH|lia].
    - (* DE_ret *)
      intros g e els stmts ret t _ IH1 _ IH2. cbn [dels_size do_loop].
      eapply evb_weaken; [eapply evb_bind; [exact IH1|]; exact IH2|lia].
  Qed.

  Corollary items_bound : forall its t,
    Items tbl imap pmap its t -> forall m, 3 * items_size its + 2 <= m -> parse' m its = Ok (Some t).
  Proof. intros its t H. exact (proj1 (proj2 (proj2 (proj2 (proj2 rel_bound)))) its t H). Qed.
End Bound.
