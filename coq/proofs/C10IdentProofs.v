(* C10IdentProofs.v — every plain name that is not a reserved word is read as an identifier by the
   ordered choice of `term` (symbolic in the name), except — while bool / null lack the word-boundary
   look-ahead — names that extend true / false / null (refuted with a witness). *)
From Coq Require Import String Ascii List Bool Arith Lia.
Require Import Blots.PrattTypes Blots.C10Ident.
Import ListNotations.
Local Open Scope string_scope.

Lemma ascii_eqb_true : forall a b, Ascii.eqb a b = true -> a = b.
Proof. intros a b H. apply Ascii.eqb_eq. exact H. Qed.

(* a literal that matches a prefix of s ++ rest either lies inside s or runs into rest *)
Lemma lit_app : forall w s rest r,
  lit w (s ++ rest) = Some r ->
  (exists s', s = w ++ s' /\ r = s' ++ rest) \/
  (exists w1 w2, w = w1 ++ w2 /\ w2 <> "" /\ s = w1 /\ lit w2 rest = Some r).
Proof.
  induction w as [|a w IH]; intros s rest r H.
  - cbn in H. inversion H; subst. left. exists s. split; reflexivity.
  - destruct s as [|b s].
    + right. exists "", (String a w). repeat split; try reflexivity; [discriminate | exact H].
    + cbn in H. destruct (Ascii.eqb a b) eqn:E; [|discriminate].
      apply ascii_eqb_true in E. subst b.
      destruct (IH s rest r H) as [(s' & Hs & Hr) | (w1 & w2 & Hw & Hne & Hs & Hl)].
      * left. exists s'. split; [cbn; congruence | exact Hr].
      * right. exists (String a w1), w2. repeat split; try assumption; cbn; congruence.
Qed.

Lemma lit_head : forall w2 rest r, w2 <> "" -> lit w2 rest = Some r ->
  exists c w' rest', w2 = String c w' /\ rest = String c rest'.
Proof.
  intros [|c w'] rest r Hne H; [congruence|].
  destruct rest as [|b rest']; cbn in H; [discriminate|].
  destruct (Ascii.eqb c b) eqn:E; [|discriminate]. apply ascii_eqb_true in E. subst. eauto.
Qed.

Lemma all_chars_app : forall f a b, all_chars f (a ++ b) = all_chars f a && all_chars f b.
Proof. induction a as [|c a IH]; intro b; cbn; [reflexivity|]. rewrite IH. apply andb_assoc. Qed.

(* a word of identifier characters that matches a prefix of s ++ rest lies inside s *)
Lemma lit_inside : forall w s rest r,
  all_chars ident_char w = true -> boundary rest = true ->
  lit w (s ++ rest) = Some r -> exists s', s = w ++ s' /\ r = s' ++ rest.
Proof.
  intros w s rest r Hw Hb H.
  destruct (lit_app w s rest r H) as [Hin | (w1 & w2 & Hweq & Hne & Hs & Hl)]; [exact Hin|].
  exfalso. destruct (lit_head w2 rest r Hne Hl) as (c & w' & rest' & -> & ->).
  subst w. rewrite all_chars_app in Hw. apply andb_prop in Hw. destruct Hw as [_ Hw].
  cbn in Hw. apply andb_prop in Hw. destruct Hw as [Hc _].
  cbn in Hb. rewrite Hc in Hb. discriminate.
Qed.

(* ---- the greedy loops on  s2 ++ rest  (s2 identifier characters, rest a boundary) ---- *)
Definition sub_ident (f : ascii -> bool) : Prop := forall c, f c = true -> ident_char c = true.

Lemma star_class_shrinks : forall f s2 rest,
  sub_ident f -> all_chars ident_char s2 = true -> boundary rest = true ->
  exists s2', star_class f (s2 ++ rest) = s2' ++ rest /\ all_chars ident_char s2' = true /\
              String.length s2' <= String.length s2.
Proof.
  intros f s2 rest Hf. induction s2 as [|c s2 IH]; intros Hall Hb.
  - exists "". cbn. split; [|split; [reflexivity|lia]].
    destruct rest as [|c r]; [reflexivity|]. cbn.
    destruct (f c) eqn:E; [|reflexivity]. apply Hf in E. cbn in Hb. rewrite E in Hb. discriminate.
  - cbn in Hall. apply andb_prop in Hall. destruct Hall as [Hc Hall].
    cbn [append star_class]. destruct (f c) eqn:E.
    + destruct (IH Hall Hb) as (s2' & H1 & H2 & H3). exists s2'. repeat split; try assumption. cbn. lia.
    + exists (String c s2). cbn. rewrite Hc, Hall. repeat split; lia.
Qed.

Lemma sub_alpha : sub_ident is_alpha.
Proof. intros c H. unfold ident_char. rewrite H. reflexivity. Qed.
Lemma sub_digit : sub_ident is_digit.
Proof. intros c H. unfold ident_char. rewrite H. apply orb_true_r || (destruct (is_alpha c); reflexivity). Qed.
Lemma sub_us : sub_ident is_us.
Proof. intros c H. unfold ident_char. rewrite H. apply orb_true_r. Qed.
Lemma sub_alpha_us : sub_ident is_alpha_us.
Proof.
  intros c H. unfold is_alpha_us in H. apply orb_prop in H. destruct H as [H|H];
    [apply sub_alpha | apply sub_us]; exact H.
Qed.

Lemma plus_class_shrinks : forall f c s2 rest,
  sub_ident f -> f c = true -> all_chars ident_char s2 = true -> boundary rest = true ->
  exists s2', plus_class f (String c s2 ++ rest) = Some (s2' ++ rest) /\
              all_chars ident_char s2' = true /\ String.length s2' <= String.length s2.
Proof.
  intros f c s2 rest Hf Hc Hall Hb. cbn. rewrite Hc.
  destruct (star_class_shrinks f s2 rest Hf Hall Hb) as (s2' & H1 & H2 & H3).
  exists s2'. rewrite H1. auto.
Qed.

Lemma identifier_rest_boundary : forall rest, boundary rest = true -> identifier_rest rest = None.
Proof.
  intros [|c r] H; [reflexivity|]. cbn in H. unfold identifier_rest, plus_class.
  unfold ident_char in H. destruct (is_alpha c), (is_digit c), (is_us c); cbn in H; try discriminate.
  reflexivity.
Qed.

Lemma identifier_rest_shrinks : forall c s2 rest,
  ident_char c = true -> all_chars ident_char s2 = true -> boundary rest = true ->
  exists s2', identifier_rest (String c s2 ++ rest) = Some (s2' ++ rest) /\
              all_chars ident_char s2' = true /\ String.length s2' <= String.length s2.
Proof.
  intros c s2 rest Hc Hall Hb. unfold identifier_rest.
  destruct (is_alpha c) eqn:Ea.
  - destruct (plus_class_shrinks is_alpha c s2 rest sub_alpha Ea Hall Hb) as (s2' & H1 & H2 & H3).
    exists s2'. rewrite H1. auto.
  - assert (H0 : plus_class is_alpha (String c s2 ++ rest) = None) by (cbn; rewrite Ea; reflexivity).
    rewrite H0. cbn [orelse]. destruct (is_digit c) eqn:Ed.
    + destruct (plus_class_shrinks is_digit c s2 rest sub_digit Ed Hall Hb) as (s2' & H1 & H2 & H3).
      exists s2'. rewrite H1. auto.
    + assert (H0' : plus_class is_digit (String c s2 ++ rest) = None) by (cbn; rewrite Ed; reflexivity).
      rewrite H0'. cbn [orelse].
      assert (Eu : is_us c = true) by (unfold ident_char in Hc; rewrite Ea, Ed in Hc; exact Hc).
      destruct (plus_class_shrinks is_us c s2 rest sub_us Eu Hall Hb) as (s2' & H1 & H2 & H3).
      exists s2'. rewrite H1. auto.
Qed.

Lemma star_rest_all : forall fuel s2 rest,
  all_chars ident_char s2 = true -> boundary rest = true -> String.length s2 <= fuel ->
  star_rest fuel (s2 ++ rest) = rest.
Proof.
  induction fuel as [|fuel IH]; intros s2 rest Hall Hb Hlen.
  - destruct s2; [reflexivity | cbn in Hlen; lia].
  - destruct s2 as [|c s2].
    + cbn [append star_rest]. rewrite (identifier_rest_boundary rest Hb). reflexivity.
    + cbn in Hall. apply andb_prop in Hall. destruct Hall as [Hc Hall].
      destruct (identifier_rest_shrinks c s2 rest Hc Hall Hb) as (s2' & H1 & H2 & H3).
      cbn [star_rest]. rewrite H1. apply IH; try assumption. cbn in Hlen. lia.
Qed.

Lemma length_app : forall a b, String.length (a ++ b) = String.length a + String.length b.
Proof. induction a as [|c a IH]; intro b; cbn; [reflexivity|]. rewrite IH. reflexivity. Qed.

Section IdentRule.
  Variable reserved : list string.
  Variables bb nb : bool.
  (* facts about the generated list, discharged by vm_compute at instantiation *)
  Hypothesis reserved_ident : forallb (all_chars ident_char) reserved = true.
  Hypothesis reserved_lits : is_reserved reserved "true" = true /\ is_reserved reserved "false" = true /\
                             is_reserved reserved "null" = true.

  Lemma first_lit_inside : forall ws s rest r,
    forallb (all_chars ident_char) ws = true -> boundary rest = true ->
    first_lit ws (s ++ rest) = Some r ->
    exists w s', In w ws /\ s = w ++ s' /\ r = s' ++ rest.
  Proof.
    induction ws as [|w ws IH]; intros s rest r Hws Hb H; [discriminate|].
    cbn in Hws. apply andb_prop in Hws. destruct Hws as [Hw Hws].
    cbn in H. destruct (lit w (s ++ rest)) as [r0|] eqn:E.
    - cbn in H. inversion H; subst r0.
      destruct (lit_inside w s rest r Hw Hb E) as (s' & Hs & Hr).
      exists w, s'. split; [left; reflexivity | split; assumption].
    - cbn in H. destruct (IH s rest r Hws Hb H) as (w' & s' & Hin & Hs & Hr).
      exists w', s'. split; [right; exact Hin | split; assumption].
  Qed.

  Lemma is_reserved_In : forall w, In w reserved -> is_reserved reserved w = true.
  Proof.
    intros w H. unfold is_reserved. apply existsb_exists. exists w. split; [exact H | apply String.eqb_refl].
  Qed.

  Lemma app_nil_r_str : forall s, s ++ "" = s.
  Proof. induction s as [|c s IH]; cbn; [reflexivity | rewrite IH; reflexivity]. Qed.

  Lemma identifier_ok : forall s rest,
    valid_name s = true -> is_reserved reserved s = false -> boundary rest = true ->
    identifier reserved (s ++ rest) = Some rest.
  Proof.
    intros s rest Hv Hr Hb. unfold identifier.
    assert (Hall : all_chars ident_char s = true).
    { destruct s as [|c s]; [discriminate|]. cbn in Hv. apply andb_prop in Hv. destruct Hv as [Hc Hs].
      cbn. rewrite Hs, (sub_alpha_us c Hc). reflexivity. }
    (* the negative look-ahead lets the name through *)
    assert (Hblk : match first_lit reserved (s ++ rest) with
                   | Some r => fails (identifier_rest r)
                   | None => false
                   end = false).
    { destruct (first_lit reserved (s ++ rest)) as [r|] eqn:E; [|reflexivity].
      destruct (first_lit_inside reserved s rest r reserved_ident Hb E) as (w & s' & Hin & Hs & Hrr).
      destruct s' as [|c s'].
      - exfalso. rewrite app_nil_r_str in Hs. subst s. rewrite (is_reserved_In w Hin) in Hr. discriminate.
      - subst s r. rewrite all_chars_app in Hall. apply andb_prop in Hall. destruct Hall as [_ Hall].
        cbn in Hall. apply andb_prop in Hall. destruct Hall as [Hc Hall].
        destruct (identifier_rest_shrinks c s' rest Hc Hall Hb) as (s2' & H1 & _).
        rewrite H1. reflexivity. }
    rewrite Hblk.
    destruct s as [|c s]; [discriminate|]. cbn in Hv. apply andb_prop in Hv. destruct Hv as [Hc Hs].
    destruct (plus_class_shrinks is_alpha_us c s rest sub_alpha_us Hc Hs Hb) as (s2' & H1 & H2 & H3).
    rewrite H1. f_equal. apply star_rest_all; try assumption. rewrite length_app. lia.
  Qed.

  Lemma guarded_lit_fails : forall (w : string) (g : bool) s rest,
    all_chars ident_char w = true -> is_reserved reserved w = true ->
    valid_name s = true -> is_reserved reserved s = false -> boundary rest = true ->
    (fails (lit w s) = true \/ g = true) ->
    guard g (lit w (s ++ rest)) = None \/ (lit w (s ++ rest) = None).
  Proof.
    intros w g s rest Hw Hres Hv Hr Hb Hor.
    destruct (lit w (s ++ rest)) as [r|] eqn:E; [|right; reflexivity].
    left. destruct (lit_inside w s rest r Hw Hb E) as (s' & Hs & Hrr).
    destruct Hor as [Hf | Hg].
    - exfalso. subst s. clear - Hf. induction w as [|a w IH]; cbn in Hf; [discriminate|].
      rewrite Ascii.eqb_refl in Hf. auto.
    - subst g. cbn. destruct s' as [|c s'].
      + exfalso. rewrite app_nil_r_str in Hs. subst s. rewrite Hres in Hr. discriminate.
      + assert (Hall : all_chars ident_char s = true).
        { destruct s as [|c0 s0]; [discriminate|]. cbn in Hv. apply andb_prop in Hv. destruct Hv as [Hc Hs0].
          cbn. rewrite Hs0, (sub_alpha_us c0 Hc). reflexivity. }
        subst s r. rewrite all_chars_app in Hall. apply andb_prop in Hall. destruct Hall as [_ Hall].
        cbn in Hall. apply andb_prop in Hall. destruct Hall as [Hc Hall].
        destruct (identifier_rest_shrinks c s' rest Hc Hall Hb) as (s2' & H1 & _).
        rewrite H1. reflexivity.
  Qed.

  Lemma lit_fails_app : forall w s rest,
    all_chars ident_char w = true -> boundary rest = true -> fails (lit w s) = true ->
    lit w (s ++ rest) = None.
  Proof.
    intros w s rest Hw Hb Hf. destruct (lit w (s ++ rest)) as [r|] eqn:E; [|reflexivity].
    exfalso. destruct (lit_inside w s rest r Hw Hb E) as (s' & Hs & _). subst s.
    clear - Hf. induction w as [|a w IH]; cbn in Hf; [discriminate|]. rewrite Ascii.eqb_refl in Hf. auto.
  Qed.

  (* the literals do not match: the name does not extend them, or they carry the look-ahead *)
  Lemma bool_rule_fails : forall s rest,
    valid_name s = true -> is_reserved reserved s = false -> boundary rest = true ->
    (known_C10 s = false \/ bb = true) -> bool_rule bb (s ++ rest) = None.
  Proof.
    intros s rest Hv Hr Hb Hor. destruct reserved_lits as (Rt & Rf & _). unfold bool_rule.
    assert (Ht : fails (lit "true" s) = true \/ bb = true).
    { destruct Hor as [Hk|]; [left|right; assumption]. unfold known_C10 in Hk.
      destruct (fails (lit "true" s)); [reflexivity | discriminate]. }
    assert (Hf : fails (lit "false" s) = true \/ bb = true).
    { destruct Hor as [Hk|]; [left|right; assumption]. unfold known_C10 in Hk.
      destruct (fails (lit "false" s)); [reflexivity|]. destruct (fails (lit "true" s)); discriminate. }
    destruct (lit "true" (s ++ rest)) as [r|] eqn:E1.
    - cbn [orelse].
      destruct (guarded_lit_fails "true" bb s rest eq_refl Rt Hv Hr Hb Ht) as [G|G]; rewrite E1 in G;
        [exact G | discriminate].
    - cbn [orelse].
      destruct (guarded_lit_fails "false" bb s rest eq_refl Rf Hv Hr Hb Hf) as [G|G];
        [exact G | rewrite G; reflexivity].
  Qed.

  Lemma null_rule_fails : forall s rest,
    valid_name s = true -> is_reserved reserved s = false -> boundary rest = true ->
    (known_C10 s = false \/ nb = true) -> null_rule nb (s ++ rest) = None.
  Proof.
    intros s rest Hv Hr Hb Hor. destruct reserved_lits as (_ & _ & Rn). unfold null_rule.
    assert (Hn : fails (lit "null" s) = true \/ nb = true).
    { destruct Hor as [Hk|]; [left|right; assumption]. unfold known_C10 in Hk.
      destruct (fails (lit "null" s)); [reflexivity|].
      destruct (fails (lit "true" s)), (fails (lit "false" s)); discriminate. }
    destruct (guarded_lit_fails "null" nb s rest eq_refl Rn Hv Hr Hb Hn) as [G|G];
      [exact G | rewrite G; reflexivity].
  Qed.

  (* P1  ident_rule: a valid name that is not a reserved word, followed by the end of input or by a
     character that cannot continue a name, is matched as `identifier` — whole, and whatever the
     order of the three alternatives — provided it does not extend true/false/null, or both literals
     carry the word-boundary look-ahead. *)
  Theorem ident_rule : forall order s rest,
    In AIdent order ->
    valid_name s = true -> is_reserved reserved s = false -> boundary rest = true ->
    (known_C10 s = false \/ (bb = true /\ nb = true)) ->
    term_word reserved bb nb order (s ++ rest) = Some (AIdent, rest).
  Proof.
    intros order s rest Hin Hv Hr Hb Hor.
    assert (HB : bool_rule bb (s ++ rest) = None).
    { apply bool_rule_fails; try assumption. destruct Hor as [|[? ?]]; auto. }
    assert (HN : null_rule nb (s ++ rest) = None).
    { apply null_rule_fails; try assumption. destruct Hor as [|[? ?]]; auto. }
    assert (HI : identifier reserved (s ++ rest) = Some rest) by (apply identifier_ok; assumption).
    induction order as [|a order IH]; [destruct Hin|].
    cbn [term_word]. destruct a; cbn [alt_rule].
    - rewrite HB. apply IH. destruct Hin as [|]; [discriminate | assumption].
    - rewrite HN. apply IH. destruct Hin as [|]; [discriminate | assumption].
    - rewrite HI. reflexivity.
  Qed.
End IdentRule.

(* ------------------------------------------------------------------ the generated rules *)
Require Import Blots.gen.IdentRules Blots.C10IdentImpl.

Theorem ident_rule_impl : forall s rest,
  valid_name s = true -> is_reserved reserved_words s = false -> boundary rest = true ->
  (known_C10 s = false \/ (bool_boundary = true /\ null_boundary = true)) ->
  term_word_impl (s ++ rest) = Some (AIdent, rest).
Proof.
  intros s rest. unfold term_word_impl. apply ident_rule.
  - vm_compute. reflexivity.
  - vm_compute. repeat split.
  - vm_compute. tauto.
Qed.

(* the statement of the property, without the exclusion *)
Definition ident_rule_full : Prop := forall s rest,
  valid_name s = true -> is_reserved reserved_words s = false -> boundary rest = true ->
  term_word_impl (s ++ rest) = Some (AIdent, rest).

(* ... is refuted while `bool` has no word boundary: `trueish + 1` reads the literal `true` and
   leaves `ish + 1` *)
Lemma ident_rule_full_refuted : bool_boundary = false -> ~ ident_rule_full.
Proof.
  intros Hb H. specialize (H "trueish" " + 1" eq_refl eq_refl eq_refl).
  unfold term_word_impl in H. rewrite Hb in H. vm_compute in H. discriminate H.
Qed.
Lemma ident_refuted_witness : bool_boundary = false ->
  term_word_impl "trueish + 1" = Some (ABool, "ish + 1").
Proof. intro Hb. unfold term_word_impl. rewrite Hb. vm_compute. reflexivity. Qed.

(* with both look-aheads (the proposed fix) the full statement holds *)
Lemma ident_rule_full_when_guarded : bool_boundary = true -> null_boundary = true -> ident_rule_full.
Proof. intros Hb Hn s rest Hv Hr Hbd. apply ident_rule_impl; auto. Qed.


(* ------------------------------------------------------------------ symbol operators after an operand *)
Definition after_is (a : after_operand) (nf nd : nat) (r : oprule) (rest : string) : bool :=
  match a with
  | AfterOp nf' nd' r' rest' => Nat.eqb nf nf' && Nat.eqb nd nd' && oprule_eqb r r' && String.eqb rest rest'
  | _ => false
  end.

(* every symbol operator, written WITHOUT blanks directly after an operand and directly before the
   next one, is read as itself (the ordered choice `infix_op` never lets a shorter operator win and no
   postfix operator takes its first character) — except `!=` while `factorial` is the bare "!" *)
Lemma tight_ops_all :
  forallb (fun rw => (known_bang (fst rw) && Nat.eqb factorial_guard 0)
                     || after_is (after_operand_impl (snd rw ++ "b")) 0 0 (fst rw) "b") infix_ops = true.
Proof. vm_compute. reflexivity. Qed.
(* ... also directly after a factorial and after a field access *)
Lemma tight_ops_after_postfix :
  forallb (fun rw => (known_bang (fst rw) && Nat.eqb factorial_guard 0)
                     || (after_is (after_operand_impl ("!" ++ snd rw ++ "b")) 1 0 (fst rw) "b" &&
                         after_is (after_operand_impl (".f" ++ snd rw ++ "b")) 0 1 (fst rw) "b")) infix_ops = true.
Proof. vm_compute. reflexivity. Qed.
(* with blanks every symbol operator is read as itself *)
Lemma spaced_ops_all :
  forallb (fun rw => after_is (after_operand_impl (" " ++ snd rw ++ " b")) 0 0 (fst rw) "b" &&
                     after_is (after_operand_impl (" " ++ snd rw ++ "b")) 0 0 (fst rw) "b") infix_ops = true.
Proof. vm_compute. reflexivity. Qed.
(* all 21 symbol operators of the precedence table are alternatives of infix_op *)
Lemma infix_ops_complete :
  forallb (fun r => match assoc_find r infix_ops with Some _ => true | None => false end)
          [R_add; R_subtract; R_multiply; R_divide; R_modulo; R_power; R_equal; R_not_equal; R_less; R_less_eq;
           R_greater; R_greater_eq; R_dot_equal; R_dot_not_equal; R_dot_less; R_dot_less_eq; R_dot_greater;
           R_dot_greater_eq; R_and; R_or; R_coalesce] = true.
Proof. vm_compute. reflexivity. Qed.

Definition tight_ops_full : Prop :=
  forallb (fun rw => after_is (after_operand_impl (snd rw ++ "b")) 0 0 (fst rw) "b") infix_ops = true.
Lemma tight_ops_full_refuted : factorial_guard = 0 -> ~ tight_ops_full.
Proof. intros Hg H. unfold tight_ops_full, after_operand_impl in H. rewrite Hg in H. vm_compute in H. discriminate H. Qed.
Lemma bang_equals_witness : factorial_guard = 0 -> after_operand_impl "!=b" = AfterNothing 1 0 "=b".
Proof. intros Hg. unfold after_operand_impl. rewrite Hg. vm_compute. reflexivity. Qed.
Lemma tight_ops_full_when_guarded : factorial_guard <> 0 -> tight_ops_full.
Proof.
  intros Hg. pose proof tight_ops_all as H. unfold tight_ops_full.
  destruct factorial_guard as [|g] eqn:E; [congruence|].
  rewrite forallb_forall in *. intros rw Hin. specialize (H rw Hin).
  cbn [Nat.eqb] in H. rewrite andb_false_r in H. exact H.
Qed.
