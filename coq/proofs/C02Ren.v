(* C02Ren.v — renaming of function-cell indices (C02, "no effect on values").

   A value mentions function cells of the store by index ([VLam id ..]).  Two evaluations of the
   same expression allocate their cells at different indices, so "the same result" can only mean
   "the same up to a renaming rho of cell indices".  This file defines the renaming of values,
   frames and configurations, the invariant [sinv rho sA sB] relating the two stores (the cell
   rho id of sB has the name of the cell id of sA, allocation continues in step), and shows that
   everything the evaluator does with the store (allocate a cell, name an unnamed cell, read a
   name) and everything the value-level code can observe of a value (Value::equals, Value::compare,
   the accessors, arity, type) commutes with the renaming. *)
From Coq Require Import String Ascii List ZArith Bool Lia.
Require Import Blots.Num Blots.gen.Builtins Blots.Ast Blots.Value Blots.Outcome Blots.Binop
               Blots.Env Blots.Eval Blots.BuiltinsHof Blots.proofs.ValueInd Blots.proofs.StoreMono.
Import ListNotations.
Open Scope string_scope.
Open Scope list_scope.
Open Scope nat_scope.

Section Ren.
  Variable rho : nat -> nat.

  Fixpoint ren (v : value) : value :=
    match v with
    | VList l => VList (map ren l)
    | VRec r => VRec (map (fun kv => match kv with (k, x) => (k, ren x) end) r)
    | VLam id a b sc => VLam (rho id) a b (map (fun kv => match kv with (k, x) => (k, ren x) end) sc)
    | VSpread x => VSpread (ren x)
    | _ => v
    end.
  Definition renF (f : frame) : frame := map (fun kv => match kv with (k, x) => (k, ren x) end) f.
  Definition renFr (fr : frames) : frames := map (fun kf => (fst kf, renF (snd kf))) fr.
  Definition oren (o : outcome value) : outcome value := omap ren o.
  Definition renC (c : cfg) (sB : store) : cfg := (sB, renFr (snd c)).

  Lemma ren_VRec : forall r, ren (VRec r) = VRec (renF r).
  Proof. reflexivity. Qed.
  Lemma ren_VLam : forall id a b sc, ren (VLam id a b sc) = VLam (rho id) a b (renF sc).
  Proof. reflexivity. Qed.

  (* ---- the store invariant ---- *)
  Definition sinv (sA sB : store) : Prop :=
    (forall id, lam_name sB (rho id) = lam_name sA id) /\
    (forall id, id < length sA -> rho id < length sB) /\
    (forall k, rho (length sA + k) = length sB + k).

  Hypothesis rho_inj : forall a b, rho a = rho b -> a = b.

  Lemma sinv_len : forall sA sB, sinv sA sB -> rho (length sA) = length sB.
  Proof. intros sA sB (_ & _ & H). specialize (H 0). rewrite !Nat.add_0_r in H. exact H. Qed.

  Lemma sinv_fresh : forall sA sB, sinv sA sB -> sinv (sA ++ [None]) (sB ++ [None]).
  Proof.
    intros sA sB (H1 & H2 & H3). split; [|split].
    - intros id. unfold lam_name. destruct (Nat.lt_ge_cases id (length sA)) as [Hlt|Hge].
      + rewrite !nth_error_app1 by auto. apply H1.
      + assert (Hk : id = length sA + (id - length sA)) by lia. rewrite Hk, H3.
        rewrite !nth_error_app2 by lia.
        replace (length sB + (id - length sA) - length sB) with (id - length sA) by lia.
        replace (length sA + (id - length sA) - length sA) with (id - length sA) by lia.
        reflexivity.
    - intros id Hid. rewrite app_length in *. cbn [length] in *.
      destruct (Nat.lt_ge_cases id (length sA)) as [Hlt|Hge]; [specialize (H2 id Hlt); lia|].
      assert (id = length sA + 0) as -> by lia. rewrite H3. lia.
    - intros k. rewrite !app_length. cbn [length].
      replace (length sA + 1 + k) with (length sA + (1 + k)) by lia. rewrite H3. lia.
  Qed.

  Lemma lam_name_set_nth : forall (s : store) i a j,
    lam_name (set_nth s i a) j =
    if Nat.eqb i j && Nat.ltb i (length s) then a else lam_name s j.
  Proof.
    intros s i a j. unfold lam_name. destruct (Nat.eqb_spec i j) as [->|Hne]; cbn [andb].
    - destruct (Nat.ltb_spec j (length s)) as [Hlt|Hge].
      + rewrite nth_error_set_nth_same by exact Hlt. reflexivity.
      + assert (E : nth_error (set_nth s j a) j = None).
        { apply nth_error_None. rewrite length_set_nth. exact Hge. }
        rewrite E. assert (E' : nth_error s j = None) by (apply nth_error_None; exact Hge).
        rewrite E'. reflexivity.
    - rewrite nth_error_set_nth_other by exact Hne. reflexivity.
  Qed.

  Lemma sinv_lt_iff : forall sA sB id, sinv sA sB -> (id < length sA <-> rho id < length sB).
  Proof.
    intros sA sB id (H1 & H2 & H3). split; [apply H2|].
    intros Hlt. destruct (Nat.lt_ge_cases id (length sA)) as [H|H]; [exact H|].
    assert (Hk : id = length sA + (id - length sA)) by lia. rewrite Hk, H3 in Hlt. lia.
  Qed.

  Lemma sinv_set : forall sA sB id a, sinv sA sB -> sinv (set_nth sA id a) (set_nth sB (rho id) a).
  Proof.
    intros sA sB id a Hs. pose proof Hs as (H1 & H2 & H3). split; [|split].
    - intros j. rewrite !lam_name_set_nth. rewrite H1.
      destruct (Nat.eqb_spec id j) as [->|Hne].
      + rewrite Nat.eqb_refl. cbn [andb].
        destruct (Nat.ltb_spec j (length sA)) as [Hlt|Hge].
        * apply (proj1 (sinv_lt_iff _ _ j Hs)) in Hlt. apply Nat.ltb_lt in Hlt. rewrite Hlt. reflexivity.
        * destruct (Nat.ltb_spec (rho j) (length sB)) as [Hlt'|Hge']; [|reflexivity].
          apply (proj2 (sinv_lt_iff _ _ j Hs)) in Hlt'. lia.
      + destruct (Nat.eqb_spec (rho id) (rho j)) as [E|_]; [apply rho_inj in E; congruence|].
        reflexivity.
    - intros j. rewrite !length_set_nth. apply H2.
    - intros k. rewrite !length_set_nth. apply H3.
  Qed.

  Lemma sinv_name_if_lambda : forall sA sB v x,
    sinv sA sB -> sinv (name_if_lambda sA v x) (name_if_lambda sB (ren v) x).
  Proof.
    intros sA sB v x Hs. destruct v; try exact Hs. cbn [ren name_if_lambda].
    rewrite (proj1 Hs). destruct (lam_name sA id); [exact Hs|apply sinv_set; exact Hs].
  Qed.

  Lemma sinv_name_if_created : forall sA0 sB0 sA sB v x,
    sinv sA0 sB0 -> sinv sA sB ->
    sinv (name_if_created (length sA0) sA v x) (name_if_created (length sB0) sB (ren v) x).
  Proof.
    intros sA0 sB0 sA sB v x H0 Hs. destruct v; try exact Hs. cbn [ren name_if_created].
    assert (E : Nat.leb (length sB0) (rho id) = Nat.leb (length sA0) id).
    { pose proof (sinv_lt_iff sA0 sB0 id H0) as Hi.
      destruct (Nat.leb_spec (length sA0) id), (Nat.leb_spec (length sB0) (rho id)); try reflexivity; lia. }
    rewrite E. destruct (Nat.leb (length sA0) id); [|exact Hs].
    exact (sinv_name_if_lambda sA sB (VLam id args body scope) x Hs).
  Qed.

  (* ---- frames ---- *)
  Lemma lookup_frame_ren : forall f x, lookup_frame (renF f) x = option_map ren (lookup_frame f x).
  Proof.
    induction f as [|[y v] f IH]; intros x; cbn [renF map lookup_frame]; [reflexivity|].
    destruct (String.eqb x y); [reflexivity|apply IH].
  Qed.
  Lemma lookup_ren : forall fr x, lookup (renFr fr) x = option_map ren (lookup fr x).
  Proof.
    induction fr as [|[k f] fr IH]; intros x; cbn [renFr map lookup fst snd]; [reflexivity|].
    rewrite lookup_frame_ren. destruct (lookup_frame f x); [reflexivity|apply IH].
  Qed.
  Lemma contains_ren : forall fr x, contains (renFr fr) x = contains fr x.
  Proof. intros fr x. unfold contains. rewrite lookup_ren. destruct (lookup fr x); reflexivity. Qed.
  Lemma insert_head_ren : forall fr x v,
    insert_head (renFr fr) x (ren v) = option_map renFr (insert_head fr x v).
  Proof. intros [|[[|] f] r] x v; reflexivity. Qed.
  Lemma capture_ren : forall fr vars acc,
    capture (renFr fr) vars (renF acc) = renF (capture fr vars acc).
  Proof.
    intros fr vars; induction vars as [|x vars IH]; intros acc; cbn [capture]; [reflexivity|].
    rewrite lookup_ren. destruct (lookup fr x) as [v|]; cbn [option_map]; [|apply IH].
    destruct (is_builtin_name x); [apply IH|]. apply (IH ((x, v) :: acc)).
  Qed.
  Lemma rec_get_ren : forall r k, rec_get (renF r) k = option_map ren (rec_get r k).
  Proof.
    induction r as [|[k' v] r IH]; intros k; cbn [renF map rec_get]; [reflexivity|].
    destruct (String.eqb k k'); [reflexivity|apply IH].
  Qed.
  Lemma rec_insert_ren : forall r k v, rec_insert (renF r) k (ren v) = renF (rec_insert r k v).
  Proof.
    induction r as [|[k' v'] r IH]; intros k v; cbn [renF map rec_insert]; [reflexivity|].
    destruct (String.eqb k k'); cbn [map]; [reflexivity|]. f_equal. apply IH.
  Qed.
  Lemma renF_app : forall a b, renF (a ++ b) = renF a ++ renF b.
  Proof. intros a b. apply map_app. Qed.
  Lemma renF_length : forall a, length (renF a) = length a.
  Proof. intros a. apply map_length. Qed.

  (* ---- observations of a value ---- *)
  Lemma as_number_ren : forall v, as_number (ren v) = as_number v.
  Proof. destruct v; reflexivity. Qed.
  Lemma as_bool_ren : forall v, as_bool (ren v) = as_bool v.
  Proof. destruct v; reflexivity. Qed.
  Lemma as_string_ren : forall v, as_string (ren v) = as_string v.
  Proof. destruct v; reflexivity. Qed.
  Lemma as_list_ren : forall v, as_list (ren v) = omap (map ren) (as_list v).
  Proof. destruct v; reflexivity. Qed.
  Lemma is_list_ren : forall v, is_list (ren v) = is_list v. Proof. destruct v; reflexivity. Qed.
  Lemma is_string_ren : forall v, is_string (ren v) = is_string v. Proof. destruct v; reflexivity. Qed.
  Lemma is_null_ren : forall v, is_null (ren v) = is_null v. Proof. destruct v; reflexivity. Qed.
  Lemma is_lambda_ren : forall v, is_lambda (ren v) = is_lambda v. Proof. destruct v; reflexivity. Qed.
  Lemma is_built_in_ren : forall v, is_built_in (ren v) = is_built_in v. Proof. destruct v; reflexivity. Qed.
  Lemma is_callable_ren : forall v, is_callable (ren v) = is_callable v. Proof. destruct v; reflexivity. Qed.
  Lemma is_function_ren : forall v, is_function (ren v) = is_function v. Proof. destruct v; reflexivity. Qed.
  Lemma type_of_ren : forall v, type_of (ren v) = type_of v. Proof. destruct v; reflexivity. Qed.
  Lemma fn_arity_ren : forall v, fn_arity (ren v) = fn_arity v. Proof. destruct v; reflexivity. Qed.
  Lemma accepts_ren : forall v n, accepts (ren v) n = accepts v n.
  Proof. intros v n. unfold accepts. rewrite fn_arity_ren. reflexivity. Qed.
  Lemma fn_accepts2_ren : forall v, fn_accepts2_of_value (ren v) = fn_accepts2_of_value v.
  Proof. destruct v; reflexivity. Qed.
  Lemma as_function_ren : forall v, as_function (ren v) = omap ren (as_function v).
  Proof. intros v. unfold as_function. rewrite is_function_ren. destruct (is_function v); reflexivity. Qed.

  (* Value::equals compares functions by parameter list and body only: cell indices are not observed *)
  Lemma equals_ren : forall a b, equals (ren a) (ren b) = equals a b.
  Proof.
    induction a as [x|x| |s|l IH|r IH|id ar bd sc IH|bi|x IH] using value_ind'; intros b;
      destruct b; try reflexivity.
    - (* lists *) cbn [ren equals]. revert l0. induction IH as [|x l Hx _ IHl]; intros [|y m]; try reflexivity.
      cbn [map]. rewrite Hx. destruct (equals x y); [apply IHl|reflexivity].
    - (* records *) cbn [ren equals]. rewrite !map_length. f_equal.
      induction IH as [|[k x] r' Hx _ IHr]; [reflexivity|]. cbn [map snd] in *.
      fold (renF r0). rewrite rec_get_ren. destruct (rec_get r0 k) as [y|]; cbn [option_map]; [|reflexivity].
      rewrite Hx. destruct (equals x y); [exact IHr|reflexivity].
    - (* spreads *) cbn [ren equals]. destruct x; destruct b; try reflexivity; apply IH.
  Qed.

  Lemma compare_ren : forall a b, compare (ren a) (ren b) = compare a b.
  Proof.
    induction a as [x|x| |s|l IH|r IH|id ar bd sc IH|bi|x IH] using value_ind'; intros b;
      destruct b; try reflexivity.
    cbn [ren compare]. revert l0. induction IH as [|x l Hx _ IHl]; intros [|y m]; try reflexivity.
    cbn [map]. rewrite Hx. destruct (compare x y) as [[| |]|]; try reflexivity. apply IHl.
  Qed.

  (* ---- lists of values ---- *)
  Lemma spread_items_ren : forall v, spread_items (ren v) = map ren (spread_items v).
  Proof.
    destruct v; try reflexivity; cbn [ren spread_items].
    - rewrite map_map. apply map_ext. reflexivity.
    - rewrite !map_map. apply map_ext. intros [k x]. reflexivity.
  Qed.
  Lemma flatten_spreads_ren : forall l, flatten_spreads (map ren l) = map ren (flatten_spreads l).
  Proof.
    induction l as [|v l IH]; [reflexivity|]. cbn [map].
    destruct v; cbn [ren flatten_spreads map]; try (f_equal; exact IH).
    rewrite map_app, <- IH. f_equal. apply spread_items_ren.
  Qed.
  Lemma nth_error_map_ren : forall (l : list value) i, nth_error (map ren l) i = option_map ren (nth_error l i).
  Proof. intros l i. apply nth_error_map. Qed.
  Lemma nth_ren : forall l k, nth k (map ren l) VNull = ren (nth k l VNull).
  Proof. intros l k. change VNull with (ren VNull) at 1. apply map_nth. Qed.
  Lemma index_ren : forall l i, index (map ren l) i = omap ren (index l i).
  Proof. intros l i. unfold index. rewrite nth_error_map_ren. destruct (nth_error l i); reflexivity. Qed.
  Lemma arg_ren : forall l i, arg (map ren l) i = omap ren (arg l i).
  Proof. intros l i. unfold arg. rewrite nth_error_map_ren. destruct (nth_error l i); reflexivity. Qed.

  Lemma mapM_ren : forall {A A' B B'} (h : A -> A') (f : B -> B') (gA : A -> outcome B) (gB : A' -> outcome B') l,
    (forall x, gB (h x) = omap f (gA x)) -> mapM gB (map h l) = omap (map f) (mapM gA l).
  Proof.
    intros A A' B B' h f gA gB l Hg. induction l as [|x l IH]; [reflexivity|].
    cbn [map mapM]. rewrite Hg, IH. destruct (gA x); try reflexivity. cbn [omap obind].
    destruct (mapM gA l); reflexivity.
  Qed.
End Ren.
