(* DisplayNumFloat.v — C20: real-number semantics of the f64 operations on the standard
   path (value * scale, .round(), / scale, comparisons), obtained from Flocq's
   BinarySingleNaN correctness lemmas through the SpecFloat equivalences of
   Flocq.IEEE754.PrimFloat (binary_round_aux_equiv: axiom-free).
   Uses the real-number layer: the four standard-library axioms named in DESIGN.md 8. *)
From Coq Require Import ZArith Reals Bool Lia Lra Floats.SpecFloat.
From Flocq Require Import Core.Core IEEE754.BinarySingleNaN IEEE754.PrimFloat.
Require Import Blots.Num.
Open Scope R_scope.

Definition RV (x : num) : R := SF2R radix2 x.
Notation fexp64 := (fexp 53 1024).
Notation rnd64 := (round radix2 fexp64 ZnearestE).
Definition valid (x : num) : Prop := valid_binary 53 1024 x = true.

Local Instance Hprec53 : Prec_gt_0 53 := PrimFloat.Hprec.
Local Instance Hmax1024 : Prec_lt_emax 53 1024 := PrimFloat.Hmax.

Lemma RV_SF2B : forall x (H : valid_binary 53 1024 x = true), B2R (SF2B x H) = RV x.
Proof. intros. apply B2R_SF2B. Qed.

Lemma valid_format : forall x, valid x -> generic_format radix2 fexp64 (RV x).
Proof. intros x H. rewrite <- (RV_SF2B x H). apply generic_format_B2R. Qed.

Lemma finite_SF : forall x, is_finite_SF x = Num.is_finite x.
Proof. now intros [| | |]. Qed.

(* ---------- comparison ---------- *)
Lemma ncompare_correct : forall x y, valid x -> valid y ->
  Num.is_finite x = true -> Num.is_finite y = true ->
  SFcompare x y = Some (Rcompare (RV x) (RV y)).
Proof.
  intros x y Hx Hy Fx Fy.
  pose proof (Bcompare_correct 53 1024 (SF2B x Hx) (SF2B y Hy)) as C.
  unfold Bcompare in C. rewrite !B2SF_SF2B, !RV_SF2B in C. apply C.
  - rewrite is_finite_SF2B. now rewrite finite_SF.
  - rewrite is_finite_SF2B. now rewrite finite_SF.
Qed.

Lemma nltb_correct : forall x y, valid x -> valid y ->
  Num.is_finite x = true -> Num.is_finite y = true ->
  (nltb x y = true <-> RV x < RV y).
Proof.
  intros x y Hx Hy Fx Fy. unfold nltb, SFltb. rewrite (ncompare_correct x y Hx Hy Fx Fy).
  destruct (Rcompare_spec (RV x) (RV y)); split; intros; try discriminate; try lra; reflexivity.
Qed.

Lemma nleb_correct : forall x y, valid x -> valid y ->
  Num.is_finite x = true -> Num.is_finite y = true ->
  (nleb x y = true <-> RV x <= RV y).
Proof.
  intros x y Hx Hy Fx Fy. unfold nleb, SFleb. rewrite (ncompare_correct x y Hx Hy Fx Fy).
  destruct (Rcompare_spec (RV x) (RV y)); split; intros; try discriminate; try lra; reflexivity.
Qed.

(* ---------- multiplication ---------- *)
Lemma nmul_correct : forall x y, valid x -> valid y ->
  Num.is_finite x = true -> Num.is_finite y = true ->
  Rabs (rnd64 (RV x * RV y)) < bpow radix2 1024 ->
  valid (nmul x y) /\ Num.is_finite (nmul x y) = true /\ RV (nmul x y) = rnd64 (RV x * RV y).
Proof.
  intros [sx|sx| |sx mx ex] [sy|sy| |sy my ey] Hx Hy Fx Fy B; try discriminate;
    try (unfold nmul, SFmul, RV; cbn [SF2R]; rewrite ?Rmult_0_l, ?Rmult_0_r, round_0 by apply valid_rnd_N;
         repeat split; reflexivity).
  unfold nmul, SFmul.
  pose proof (Bmult_correct_aux 53 1024 _ _ mode_NE sx mx ex Hx sy my ey Hy) as C.
  cbv zeta in C. rewrite <- binary_round_aux_equiv in C.
  destruct C as [V C]. unfold RV in B. cbn [SF2R] in B.
  change (round_mode mode_NE) with ZnearestE in C.
  rewrite Rlt_bool_true in C by exact B. destruct C as (E & F & _).
  repeat split; [exact V|now rewrite <- finite_SF|exact E].
Qed.

(* ---------- division ---------- *)
Lemma ndiv_correct : forall x sy my ey, valid x ->
  Num.is_finite x = true ->
  let y := S754_finite sy my ey in
  Rabs (rnd64 (RV x / RV y)) < bpow radix2 1024 ->
  valid (ndiv x y) /\ Num.is_finite (ndiv x y) = true /\ RV (ndiv x y) = rnd64 (RV x / RV y).
Proof.
  intros [sx|sx| |sx mx ex] sy my ey Hx Fx y B; try discriminate.
  - unfold ndiv, SFdiv, RV, y. cbn [SF2R]. unfold Rdiv. rewrite Rmult_0_l, round_0 by apply valid_rnd_N.
    repeat split; reflexivity.
  - unfold ndiv, SFdiv, y, Num.prec, Num.emax.
    pose proof (Bdiv_correct_aux 53 1024 _ _ mode_NE sx mx ex sy my ey) as C.
    cbv zeta in C.
    destruct (SFdiv_core_binary 53 1024 (Z.pos mx) ex (Z.pos my) ey) as [[mz ez] lz].
    rewrite <- binary_round_aux_equiv in C.
    destruct C as [V C]. unfold RV, y in B. cbn [SF2R] in B.
    change (round_mode mode_NE) with ZnearestE in C.
    rewrite Rlt_bool_true in C by exact B. destruct C as (E & F & _).
    repeat split; [exact V|now rewrite <- finite_SF|exact E].
Qed.

(* ---------- integers as doubles ---------- *)
Lemma num_of_sm_correct : forall s n, (0 <= n)%Z ->
  Rabs (rnd64 (IZR (cond_Zopp s n))) < bpow radix2 1024 ->
  valid (num_of_sm s n) /\ Num.is_finite (num_of_sm s n) = true /\
  RV (num_of_sm s n) = rnd64 (IZR (cond_Zopp s n)).
Proof.
  intros s n Hn B. unfold num_of_sm. destruct n as [|p|p]; [| |lia].
  - unfold RV. cbn [SF2R]. replace (cond_Zopp s 0) with 0%Z by now destruct s.
    rewrite round_0 by apply valid_rnd_N. repeat split; reflexivity.
  - pose proof (binary_round_correct 53 1024 _ _ mode_NE s p 0) as C. cbv zeta in C.
    rewrite <- binary_round_equiv in C. destruct C as [V C].
    change (round_mode mode_NE) with ZnearestE in C.
    assert (E0 : @F2R radix2 {| Fnum := cond_Zopp s (Z.pos p); Fexp := 0 |} = IZR (cond_Zopp s (Z.pos p))).
    { unfold F2R. cbn [Fnum Fexp bpow]. ring. }
    rewrite E0 in C. rewrite Rlt_bool_true in C by exact B. destruct C as (E & F & _).
    repeat split; [exact V|now rewrite <- finite_SF|exact E].
Qed.

(* integers below 2^53 are doubles *)
Lemma int_format : forall z, (Z.abs z < 2 ^ 53)%Z -> generic_format radix2 fexp64 (IZR z).
Proof.
  intros z H. apply generic_format_FLT.
  apply (FLT_spec radix2 (3 - 1024 - 53) 53 (IZR z) (Float radix2 z 0)).
  - unfold F2R. cbn [Fnum Fexp bpow]. ring.
  - exact H.
  - cbn [Fexp]. lia.
Qed.

(* ---------- f64::round (half away from zero) ---------- *)
Lemma nround_value : forall s m e,
  exists n : Z, (0 <= n)%Z /\
    nround (S754_finite s m e) = num_of_sm s n /\
    Rabs (IZR (cond_Zopp s n) - RV (S754_finite s m e)) <= / 2.
Proof.
  intros s m e. unfold nround, split_int.
  assert (SG : forall n : Z, IZR (cond_Zopp s n) - RV (S754_finite s m e) =
               (if s then -1 else 1) * (IZR n - IZR (Z.pos m) * bpow radix2 e)).
  { intros n. unfold RV. cbn [SF2R]. unfold F2R. cbn [Fnum Fexp].
    destruct s; cbn [cond_Zopp]; rewrite ?opp_IZR; ring. }
  assert (AB : forall v, Rabs ((if s then -1 else 1) * v) = Rabs v).
  { intros v. destruct s; [replace (-1 * v) with (- v) by ring; apply Rabs_Ropp|now rewrite Rmult_1_l]. }
  destruct (0 <=? e)%Z eqn:E.
  - apply Z.leb_le in E. exists (Z.pos m * 2 ^ e)%Z. split; [apply Z.mul_nonneg_nonneg; lia|].
    split.
    + cbn [Z.eqb andb]. reflexivity.
    + rewrite SG, AB, mult_IZR.
      replace (IZR (2 ^ e)) with (bpow radix2 e) by (symmetry; apply (IZR_Zpower radix2 e E)).
      replace (IZR (Z.pos m) * bpow radix2 e - IZR (Z.pos m) * bpow radix2 e) with 0 by ring.
      rewrite Rabs_R0. lra.
  - apply Z.leb_gt in E. set (d := (- e)%Z). assert (Hd : (0 < d)%Z) by (unfold d; lia).
    set (q := (Z.pos m / 2 ^ d)%Z). set (r := (Z.pos m mod 2 ^ d)%Z).
    assert (P : (0 < 2 ^ d)%Z) by (apply Z.pow_pos_nonneg; lia).
    pose proof (Z.div_mod (Z.pos m) (2 ^ d) ltac:(lia)) as DM. fold q r in DM.
    pose proof (Z.mod_pos_bound (Z.pos m) (2 ^ d) P) as RB. fold r in RB.
    assert (Hq : (0 <= q)%Z) by (unfold q; apply Z.div_pos; lia).
    assert (Ed : (d =? 0)%Z = false) by (apply Z.eqb_neq; lia). rewrite Ed. cbn [negb].
    rewrite andb_true_r.
    set (B := bpow radix2 d). assert (HB : 0 < B) by apply bpow_gt_0.
    assert (EB : IZR (2 ^ d) = B) by (unfold B; apply (IZR_Zpower radix2 d); lia).
    assert (Ee : bpow radix2 e = / B).
    { unfold B. replace e with (- d)%Z by (unfold d; lia). apply bpow_opp. }
    assert (Em : IZR (Z.pos m) = IZR q * B + IZR r).
    { rewrite DM at 1. rewrite plus_IZR, mult_IZR, EB. ring. }
    assert (Hr : 0 <= IZR r < B).
    { rewrite <- EB. split; [apply IZR_le; lia|apply IZR_lt; lia]. }
    assert (Ea : IZR (Z.pos m) * bpow radix2 e = IZR q + IZR r / B).
    { rewrite Ee, Em. field. lra. }
    destruct (2 * r >=? 2 ^ d)%Z eqn:C.
    + exists (q + 1)%Z. split; [lia|]. split; [reflexivity|].
      rewrite SG, AB, Ea, plus_IZR.
      assert (Hh : B <= 2 * IZR r).
      { rewrite <- EB, <- mult_IZR. apply IZR_le. apply Z.geb_le in C. lia. }
      assert (T : / 2 <= IZR r / B < 1).
      { split.
        - apply Rmult_le_reg_r with B; [exact HB|]. unfold Rdiv. rewrite Rmult_assoc, Rinv_l by lra. lra.
        - apply Rmult_lt_reg_r with B; [exact HB|]. unfold Rdiv. rewrite Rmult_assoc, Rinv_l by lra. lra. }
      replace (IZR q + 1 - (IZR q + IZR r / B)) with (1 - IZR r / B) by ring.
      apply Rabs_le. lra.
    + exists q. split; [lia|]. split; [reflexivity|].
      rewrite SG, AB, Ea.
      assert (Hh : 2 * IZR r < B).
      { rewrite <- EB, <- mult_IZR. apply IZR_lt. rewrite Z.geb_leb in C. apply Z.leb_gt in C. lia. }
      assert (T : 0 <= IZR r / B < / 2).
      { split.
        - apply Rmult_le_reg_r with B; [exact HB|]. unfold Rdiv. rewrite Rmult_assoc, Rinv_l by lra. lra.
        - apply Rmult_lt_reg_r with B; [exact HB|]. unfold Rdiv. rewrite Rmult_assoc, Rinv_l by lra. lra. }
      replace (IZR q - (IZR q + IZR r / B)) with (- (IZR r / B)) by ring.
      apply Rabs_le. lra.
Qed.
