(* PrattFuelAllShape.v — which explicit Panic arms of the TEXT glue model are reachable on trees the PEG
   interpreter produces on the regenerated grammar.

   [text_stmt_of] (main.rs's statement loop) has two arms that are not behaviour of a well-formed `statement`
   pair: `[] => None` (no inner pair) and `_ => Some TGluePanic` (main.rs's `unreachable!()`).  By
   PegShape.shape_kids (every node of every tree of every accepted text satisfies kids_spec) the inner pairs of
   a `statement` pair are  output_declaration | expression | comment, each optionally followed by a comment: both
   arms are unreachable, so a [TGluePanic] statement of a parsed text can only be a Panic of [pratt_impl]. *)
From Coq Require Import String Ascii List NArith Bool Lia.
Require Import Blots.Peg Blots.gen.Grammar Blots.PrattTypes Blots.Pratt Blots.PegToItems.
Require Import Blots.proofs.PegGeneric Blots.proofs.PegShape.
Require Import Blots.Outcome Blots.Program Blots.TextRun.
Import ListNotations.

Definition stmt_first_ok (t : tree grule) : Prop :=
  exists first rest, tkids t = first :: rest /\
    (trule first = PG_expression \/ trule first = PG_output_declaration \/ trule first = PG_comment).

Lemma is_rule_statement : forall t, is_rule PG_statement t = true -> trule t = PG_statement.
Proof.
  intros t H. unfold is_rule in H. destruct (trule t); vm_compute in H; try discriminate H; reflexivity.
Qed.

Theorem parsed_statement_first : forall fuel text s' t,
  Peg.parse blots_grammar fuel PG_input text = Peg.Ok s' ->
  In t (rev (out s')) -> is_rule PG_statement t = true -> stmt_first_ok t.
Proof.
  intros fuel text s' t H Hin Hr.
  pose proof (shape_kids fuel text s' H) as F. unfold forest_all in F. rewrite Forall_forall in F.
  specialize (F t Hin). apply is_rule_statement in Hr.
  destruct t as [r s e kids]. cbn [trule] in Hr. subst r.
  apply tree_ok_node in F. destruct F as [C _]. unfold C_kids in C. cbn [kids_spec] in C.
  unfold stmt_first_ok. cbn [tkids].
  destruct kids as [|k1 ks]; [cbn in C; repeat (destruct C as [C|C]; [discriminate C|]); destruct C|].
  exists k1, ks. split; [reflexivity|]. cbn [map In] in C.
  repeat (destruct C as [C|C]; [injection C as C _; rewrite <- C; auto|]). destruct C.
Qed.

(* so: on a parsed text the statement loop meets only the three modelled forms *)
Theorem text_stmt_of_parsed_shape : forall fuel text s' cf t,
  Peg.parse blots_grammar fuel PG_input text = Peg.Ok s' ->
  In t (rev (out s')) -> is_rule PG_statement t = true ->
  exists first, In first (tkids t) /\
    (text_stmt_of text cf t = Some (glue_stmt SExpr (pratt_impl (map (conv text cf) (tkids first))))
     \/ text_stmt_of text cf t = Some (glue_stmt SOut (pratt_impl (map (conv text cf) (tkids first))))
     \/ text_stmt_of text cf t = Some (TStmt SComment)).
Proof.
  intros fuel text s' cf t H Hin Hr.
  destruct (parsed_statement_first fuel text s' t H Hin Hr) as (first & rest & Ek & Hf).
  exists first. split; [rewrite Ek; left; reflexivity|].
  unfold text_stmt_of. rewrite Ek.
  destruct Hf as [E|[E|E]]; rewrite E; auto.
Qed.
