(* PegIdent.v — the name rules of the REGENERATED grammar (gen/Grammar.v = grammar.pest after pest's
   optimizer), run by the pest interpreter Peg.v, are exactly the specification functions of C10Ident.v:
     identifier_rest, reserved_word, identifier, bool, null.
   Hence C10's name theorems (C10_ident_rule ...), stated over C10Ident.v + gen/IdentRules.v (a second,
   independent translator), speak about the grammar text itself. *)
From Coq Require Import String Ascii List NArith Bool Arith Lia ZifyBool ZifyNat ZifyN.
Require Import Blots.Peg Blots.gen.Grammar Blots.proofs.PegGeneric Blots.proofs.PegPure.
Require Import Blots.PrattTypes Blots.C10Ident Blots.gen.IdentRules Blots.C10IdentImpl Blots.proofs.C10IdentProofs.
Import ListNotations.
Local Open Scope string_scope.

Notation G := blots_grammar.

Definition pure_e (m : bool) (a : atomicity) (e : expr grule) (h : matcher) : Prop :=
  exists n, pure_run grule G n m a e h.

Lemma pure_e_ext : forall m a e h h', (forall t, h t = h' t) -> pure_e m a e h -> pure_e m a e h'.
Proof.
  intros m a e h h' E [n H]. exists n. intros f s la Hf. rewrite <- E. apply H. exact Hf.
Qed.

Section Rules.
  Variable a : atomicity.
  Hypothesis Ha : a <> NonAtomic.

  Lemma pe_str : forall m x, pure_e m a (Str x) (drop_prefix x).
  Proof. intros. exists 1. apply pure_str. Qed.
  Lemma pe_range : forall m lo hi, pure_e m a (Range lo hi) (class_matcher (in_range lo hi)).
  Proof. intros. exists 1. apply pure_range. Qed.
  Lemma pe_choice : forall m x y h1 h2, pure_e m a x h1 -> pure_e m a y h2 -> pure_e m a (Choice x y) (m_choice h1 h2).
  Proof. intros m x y h1 h2 [n1 H1] [n2 H2]. eexists. eapply pure_choice; eassumption. Qed.
  Lemma pe_seq : forall m x y h1 h2, pure_e m a x h1 -> pure_e m a y h2 -> shrinks h1 -> shrinks h2 ->
      pure_e m a (Seq x y) (m_seq h1 h2).
  Proof. intros m x y h1 h2 [n1 H1] [n2 H2] S1 S2. eexists. eapply pure_seq; eassumption. Qed.
  Lemma pe_not : forall m x h, pure_e m a x h -> pure_e m a (NegPred x) (m_not h).
  Proof. intros m x h [n H]. eexists. eapply pure_not; eassumption. Qed.
  Lemma pe_opt : forall m x h, pure_e m a x h -> pure_e m a (Opt x) (m_opt h).
  Proof. intros m x h [n H]. eexists. eapply pure_opt; eassumption. Qed.
  Lemma pe_rep : forall m x h, pure_e m a x h -> progresses h -> pure_e m a (Rep x) (m_star h).
  Proof. intros m x h [n H] P. eexists. eapply pure_rep; eassumption. Qed.
  Lemma pe_silent : forall m r body h, grule_def r = mkdef MSilent false body -> pure_e false a body h ->
      pure_e m a (Ident r) h.
  Proof. intros m r body h D [n H]. eexists. eapply (pure_silent grule G a); [exact D|eassumption]. Qed.

  (* ---------------------------------------------------------------- character classes *)
  Lemma class_or : forall c1 c2 t,
      m_choice (class_matcher c1) (class_matcher c2) t = class_matcher (fun ch => c1 ch || c2 ch) t.
  Proof.
    intros c1 c2 t. unfold m_choice, class_matcher. destruct t; [reflexivity|].
    destruct (c1 a0); simpl; [reflexivity|]. destruct (c2 a0); reflexivity.
  Qed.
  Lemma class_ext : forall c1 c2, (forall ch, c1 ch = c2 ch) -> forall t, class_matcher c1 t = class_matcher c2 t.
  Proof. intros c1 c2 E t. unfold class_matcher. destruct t; [reflexivity|]. rewrite E. reflexivity. Qed.
  Lemma str1_class : forall c t, drop_prefix (String c "") t = class_matcher (Ascii.eqb c) t.
  Proof. intros c t. unfold class_matcher. destruct t; simpl; [reflexivity|]. destruct (Ascii.eqb c a0); reflexivity. Qed.

  Lemma alpha_class : forall ch, in_range "a" "z" ch || in_range "A" "Z" ch = is_alpha ch.
  Proof. intro ch. destruct ch as [[] [] [] [] [] [] [] []]; reflexivity. Qed.
  Lemma digit_class : forall ch, in_range "0" "9" ch = is_digit ch.
  Proof. intro ch. destruct ch as [[] [] [] [] [] [] [] []]; reflexivity. Qed.
  Lemma us_class : forall ch, Ascii.eqb "_" ch = is_us ch.
  Proof. intro ch. destruct ch as [[] [] [] [] [] [] [] []]; reflexivity. Qed.
  Lemma alpha_us_class : forall ch, (in_range "a" "z" ch || in_range "A" "Z" ch) || Ascii.eqb "_" ch = is_alpha_us ch.
  Proof. intro ch. unfold is_alpha_us. rewrite alpha_class, us_class. reflexivity. Qed.

  Definition e_alpha : expr grule := Choice (Range "a" "z") (Range "A" "Z").
  Definition e_digit : expr grule := Range "0" "9".
  Definition e_us : expr grule := Str "_".
  Definition e_alpha_us : expr grule := Choice e_alpha e_us.

  Lemma pe_alpha : forall m, pure_e m a e_alpha (class_matcher is_alpha).
  Proof.
    intro m. eapply pure_e_ext; [|apply pe_choice; apply pe_range].
    intro t. rewrite class_or. apply class_ext. apply alpha_class.
  Qed.
  Lemma pe_digit : forall m, pure_e m a e_digit (class_matcher is_digit).
  Proof. intro m. eapply pure_e_ext; [|apply pe_range]. apply class_ext. apply digit_class. Qed.
  Lemma pe_us : forall m, pure_e m a e_us (class_matcher is_us).
  Proof.
    intro m. eapply pure_e_ext; [|apply pe_str]. intro t. rewrite str1_class. apply class_ext. apply us_class.
  Qed.
  Lemma pe_alpha_us : forall m, pure_e m a e_alpha_us (class_matcher is_alpha_us).
  Proof.
    intro m. eapply pure_e_ext; [|apply pe_choice; [apply pe_choice; apply pe_range|apply pe_str]].
    intro t. unfold m_choice at 1. rewrite class_or, str1_class.
    change (m_choice (class_matcher (fun ch => in_range "a" "z" ch || in_range "A" "Z" ch)) (class_matcher (Ascii.eqb "_")) t
            = class_matcher is_alpha_us t).
    rewrite class_or. apply class_ext. apply alpha_us_class.
  Qed.

  (* c ~ c* = plus_class *)
  Lemma star_class_n : forall c t k, String.length t <= k -> m_star_n k (class_matcher c) t = star_class c t.
  Proof.
    intros c. induction t as [|ch t IH]; intros k L.
    - destruct k; reflexivity.
    - destruct k as [|k]; [simpl in L; lia|]. simpl. destruct (c ch); [|reflexivity]. apply IH. simpl in L. lia.
  Qed.
  Lemma plus_class_spec : forall c t, m_seq (class_matcher c) (m_star (class_matcher c)) t = plus_class c t.
  Proof.
    intros c t. unfold m_seq, m_star, plus_class, class_matcher. destruct t; [reflexivity|].
    destruct (c a0); [|reflexivity]. f_equal. apply star_class_n. lia.
  Qed.
  Lemma pe_plus : forall m e c, pure_e m a e (class_matcher c) -> pure_e m a (Seq e (Rep e)) (plus_class c).
  Proof.
    intros m e c H. eapply pure_e_ext; [apply plus_class_spec|].
    apply pe_seq; [exact H|apply pe_rep; [exact H|apply progresses_class]| |].
    - apply progresses_shrinks. apply progresses_class.
    - apply shrinks_star. apply progresses_class.
  Qed.
  Lemma progresses_plus : forall c, progresses (plus_class c).
  Proof.
    intros c t r E. rewrite <- plus_class_spec in E.
    eapply (progresses_seq_l (class_matcher c) (m_star (class_matcher c))); [apply progresses_class| |exact E].
    apply shrinks_star. apply progresses_class.
  Qed.

  (* ---------------------------------------------------------------- identifier_rest *)
  Lemma identifier_rest_spec : forall t,
      m_choice (plus_class is_alpha) (m_choice (plus_class is_digit) (plus_class is_us)) t = identifier_rest t.
  Proof. intro t. reflexivity. Qed.
  Lemma progresses_identifier_rest : progresses identifier_rest.
  Proof.
    change (progresses (m_choice (plus_class is_alpha) (m_choice (plus_class is_digit) (plus_class is_us)))).
    apply progresses_choice; [apply progresses_plus|]. apply progresses_choice; apply progresses_plus.
  Qed.

  Lemma pe_identifier_rest : forall m, pure_e m a (Ident PG_identifier_rest) identifier_rest.
  Proof.
    intro m. eapply pe_silent; [reflexivity|].
    eapply pure_e_ext; [apply identifier_rest_spec|].
    apply pe_choice; [apply (pe_plus false e_alpha); apply pe_alpha|].
    apply pe_choice; [apply (pe_plus false e_digit); apply pe_digit|apply (pe_plus false e_us); apply pe_us].
  Qed.

  (* ---------------------------------------------------------------- reserved_word *)
  Lemma lit_drop_prefix : forall p s, lit p s = drop_prefix p s.
  Proof. reflexivity. Qed.

  Fixpoint choice_strs (w : string) (ws : list string) : expr grule :=
    match ws with
    | [] => Str w
    | w' :: ws' => Choice (Str w) (choice_strs w' ws')
    end.
  Lemma pe_choice_strs : forall m ws w, pure_e m a (choice_strs w ws) (first_lit (w :: ws)).
  Proof.
    intros m. induction ws as [|w' ws IH]; intro w.
    - eapply pure_e_ext; [|apply pe_str]. intro t. cbn [first_lit]. change (lit w t) with (drop_prefix w t). unfold orelse.
      destruct (drop_prefix w t); reflexivity.
    - eapply pure_e_ext; [|apply pe_choice; [apply pe_str|apply IH]].
      intro t. unfold m_choice. cbn [first_lit]. change (lit w t) with (drop_prefix w t). unfold orelse.
      destruct (drop_prefix w t); reflexivity.
  Qed.
  Lemma shrinks_first_lit : forall ws, shrinks (first_lit ws).
  Proof.
    induction ws as [|w ws IH]; intros t r E; simpl in E; [discriminate|].
    unfold orelse in E. destruct (lit w t) eqn:E1.
    - inversion E; subst. exact (shrinks_str w _ _ E1).
    - exact (IH _ _ E).
  Qed.

  (* the `reserved_word` rule of Grammar.v is the ordered choice of the literals of gen/IdentRules.v *)
  Lemma reserved_word_body :
    rd_body (grule_def PG_reserved_word) =
    match reserved_words with w :: ws => choice_strs w ws | [] => Str "" end.
  Proof. reflexivity. Qed.

  Lemma pe_reserved_word : forall m, pure_e m a (Ident PG_reserved_word) (first_lit reserved_words).
  Proof.
    intro m. eapply pe_silent; [reflexivity|].
    change (pure_e false a (rd_body (grule_def PG_reserved_word)) (first_lit reserved_words)).
    rewrite reserved_word_body. apply (pe_choice_strs false (tl reserved_words) (hd "" reserved_words)).
  Qed.

  (* ---------------------------------------------------------------- bool / null bodies *)
  Lemma pe_bool_body : pure_e false a (rd_body (grule_def PG_bool)) (bool_rule bool_boundary).
  Proof.
    eapply pure_e_ext; [|apply pe_seq; [apply pe_choice; apply pe_str|apply pe_not; apply (pe_identifier_rest false)| |]].
    - intro t. unfold m_seq, m_choice, m_not, bool_rule, guard, orelse, fails.
      change (lit "true" t) with (drop_prefix "true" t). change (lit "false" t) with (drop_prefix "false" t).
      change bool_boundary with true.
      destruct (drop_prefix "true" t) as [r|]; [destruct (identifier_rest r); reflexivity|].
      destruct (drop_prefix "false" t) as [r|]; [destruct (identifier_rest r); reflexivity|reflexivity].
    - apply shrinks_choice; apply shrinks_str.
    - apply shrinks_not.
  Qed.
  Lemma pe_null_body : pure_e false a (rd_body (grule_def PG_null)) (null_rule null_boundary).
  Proof.
    eapply pure_e_ext; [|apply pe_seq; [apply pe_str|apply pe_not; apply (pe_identifier_rest false)| |]].
    - intro t. unfold m_seq, m_not, null_rule, guard, fails. change (lit "null" t) with (drop_prefix "null" t).
      change null_boundary with true.
      destruct (drop_prefix "null" t) as [r|]; [destruct (identifier_rest r); reflexivity|reflexivity].
    - apply shrinks_str.
    - apply shrinks_not.
  Qed.
End Rules.

(* ---------------------------------------------------------------- identifier (an @ rule: body runs Atomic) *)
Lemma atomic_not_nonatomic : Atomic <> NonAtomic.
Proof. discriminate. Qed.

Lemma star_rest_n : forall k t, m_star_n k identifier_rest t = star_rest k t.
Proof. induction k; intro t; simpl; [reflexivity|]. destruct (identifier_rest t); auto. Qed.

Lemma identifier_spec : forall t,
    m_seq (m_not (m_seq (first_lit reserved_words) (m_not identifier_rest)))
          (m_seq (plus_class is_alpha_us) (m_star identifier_rest)) t
    = identifier reserved_words t.
Proof.
  intro t. unfold m_seq, m_not, m_star, identifier, fails.
  destruct (first_lit reserved_words t) as [r|].
  - destruct (identifier_rest r).
    + destruct (plus_class is_alpha_us t); [rewrite star_rest_n|]; reflexivity.
    + reflexivity.
  - destruct (plus_class is_alpha_us t); [rewrite star_rest_n|]; reflexivity.
Qed.

Lemma pe_identifier_body : pure_e true Atomic (rd_body (grule_def PG_identifier)) (identifier reserved_words).
Proof.
  pose proof atomic_not_nonatomic as Ha.
  eapply pure_e_ext; [apply identifier_spec|].
  apply (pe_seq Atomic Ha).
  - apply pe_not. apply (pe_seq Atomic Ha).
    + apply pe_reserved_word.
    + apply pe_not. apply (pe_identifier_rest Atomic Ha).
    + apply shrinks_first_lit.
    + apply shrinks_not.
  - apply (pe_seq Atomic Ha).
    + apply (pe_plus Atomic Ha true e_alpha_us). apply pe_alpha_us.
    + apply (pe_rep Atomic Ha); [apply (pe_identifier_rest Atomic Ha)|apply progresses_identifier_rest].
    + apply progresses_shrinks. apply progresses_plus.
    + apply shrinks_star. apply progresses_identifier_rest.
  - apply shrinks_not.
  - apply shrinks_seq; [apply progresses_shrinks; apply progresses_plus|].
    apply shrinks_star. apply progresses_identifier_rest.
Qed.

(* ================================================================ the statements pinned in Properties/C10.v *)
(* calling the rule `identifier` of the regenerated grammar in ANY context *)
Theorem peg_identifier_call : exists n, forall fuel a la s,
    n + String.length (rest s) <= fuel ->
    call_with G (run G fuel) a la PG_identifier s
    = rule_wrap PG_identifier a la (fun s' => pure_out grule s' (identifier reserved_words (rest s'))) s.
Proof.
  destruct pe_identifier_body as [n H]. exists n. intros fuel a la s Hf.
  unfold call_with. change (grule_def PG_identifier) with
      (mkdef MAtomic false (rd_body (grule_def PG_identifier))).
  cbn [g_def G blots_grammar rd_mod rd_trivia rd_body orb andb negb].
  unfold rule_wrap. destruct (emits a la).
  - rewrite H by (cbn [rest set_out]; exact Hf). reflexivity.
  - rewrite H by exact Hf. reflexivity.
Qed.

(* the language of the rule: parse from the rule `identifier` *)
Theorem peg_identifier_language : exists n, forall text fuel,
    n + String.length text <= fuel ->
    parse G fuel PG_identifier text =
    match identifier reserved_words text with
    | Some r => Ok (mkst (slen text - slen r) r stack_new [Node PG_identifier 0 (slen text - slen r) []])
    | None => Fail (init text)
    end.
Proof.
  destruct peg_identifier_call as [n H]. exists n. intros text fuel Hf.
  unfold parse. rewrite H by exact Hf. unfold rule_wrap. cbn [emits negb andb init rest set_out].
  destruct (identifier reserved_words text); reflexivity.
Qed.

(* identifier_rest / bool / null in a context without implicit whitespace (inside `expression`, a $ rule) *)
Theorem peg_word_rules : forall a, a <> NonAtomic -> exists n, forall fuel la s,
    n + String.length (rest s) <= fuel ->
    run G fuel false a la (rd_body (grule_def PG_bool)) s = pure_out grule s (bool_rule bool_boundary (rest s)) /\
    run G fuel false a la (rd_body (grule_def PG_null)) s = pure_out grule s (null_rule null_boundary (rest s)) /\
    run G fuel false a la (Ident PG_identifier_rest) s = pure_out grule s (identifier_rest (rest s)) /\
    run G fuel false a la (Ident PG_reserved_word) s = pure_out grule s (first_lit reserved_words (rest s)).
Proof.
  intros a Ha.
  destruct (pe_bool_body a Ha) as [n1 H1]. destruct (pe_null_body a Ha) as [n2 H2].
  destruct (pe_identifier_rest a Ha false) as [n3 H3]. destruct (pe_reserved_word a false) as [n4 H4].
  exists (n1 + n2 + n3 + n4). intros fuel la s Hf.
  repeat split; [apply H1|apply H2|apply H3|apply H4]; lia.
Qed.

(* C10_ident_rule now about the grammar text: a plain name that is not a reserved word, followed by a
   boundary, is rejected by the rules `bool` and `null` and read whole by the rule `identifier` *)
Theorem peg_plain_name_is_identifier : forall a, a <> NonAtomic -> exists n, forall name after fuel la s,
    valid_name name = true -> is_reserved reserved_words name = false -> boundary after = true ->
    rest s = name ++ after -> n + String.length (rest s) <= fuel ->
    run G fuel false a la (rd_body (grule_def PG_bool)) s = Fail s /\
    run G fuel false a la (rd_body (grule_def PG_null)) s = Fail s /\
    call_with G (run G fuel) a la PG_identifier s
    = rule_wrap PG_identifier a la (fun s' => Ok (set_pos s' (pos s' + slen name) after)) s.
Proof.
  intros a Ha. destruct (peg_word_rules a Ha) as [n1 H1]. destruct peg_identifier_call as [n2 H2].
  exists (n1 + n2). intros name after fuel la s V NR B E Hf.
  pose proof (ident_rule_impl name after V NR B (or_intror (conj eq_refl eq_refl))) as T.
  unfold term_word_impl in T. change term_order with [ABool; ANull; AIdent] in T.
  cbn [term_word alt_rule] in T.
  destruct (bool_rule bool_boundary (name ++ after)) eqn:EB; [discriminate|].
  destruct (null_rule null_boundary (name ++ after)) eqn:EN; [discriminate|].
  destruct (identifier reserved_words (name ++ after)) as [r|] eqn:EI; [|discriminate].
  inversion T; subst r.
  destruct (H1 fuel la s ltac:(lia)) as (Hb & Hn & _).
  rewrite Hb, Hn, E, EB, EN. split; [reflexivity|]. split; [reflexivity|].
  rewrite H2 by lia. unfold rule_wrap.
  assert (P : forall s' : st grule, rest s' = name ++ after ->
                pure_out grule s' (identifier reserved_words (rest s')) = Ok (set_pos s' (pos s' + slen name) after)).
  { intros s' E'. rewrite E', EI. cbn [pure_out]. rewrite E'. do 2 f_equal.
    unfold slen. rewrite length_app. lia. }
  destruct (emits a la).
  - rewrite P by (cbn [rest set_out]; exact E). reflexivity.
  - apply P. exact E.
Qed.
